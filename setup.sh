#!/bin/bash
# Build the whole framework from files on disk (offline): constants translation, Coq
# development (full .vo), extraction, OCaml driver, Rust harness (debug).
set -e
cd "$(dirname "$0")"
export CARGO_NET_OFFLINE=true
python3 tools/gen_consts.py
python3 tools/gen_assets.py
cd coq
coq_makefile -f _CoqProject -o Makefile
timeout 3000 make -j16
cd ../ocaml
coqc -Q ../coq QCo ../coq/Extract.v > /dev/null
ocamlfind ocamlopt -O2 -package zarith,unix -linkpkg qco_model.mli qco_model.ml driver.ml -o driver 2>/dev/null
cd ../harness
[ -f Cargo.lock ] || cp /repo/Cargo.lock .
cargo build --offline 2>&1 | tail -2
cargo build --offline --release 2>&1 | tail -1
cd ../clitool
[ -f Cargo.lock ] || cp /repo/Cargo.lock .
cargo build --offline --release --target-dir ../harness/target_cli 2>&1 | tail -1
(cd /repo && cargo build --offline --release -p q_compress_cli --target-dir /verif/harness/target_cli 2>&1 | tail -1)
echo "setup done"
