(* driver.ml — line-oriented front end to the extracted Coq model (Qco_model).
   Same protocol as the Rust harness: one command per stdin line, one answer per line. *)
module M = Qco_model

(* ---------- conversions between decimal strings and the extracted numbers ---------- *)
let rec pos_of_big (x : Z.t) : M.positive =
  if Z.equal x Z.one then M.XH
  else
    let h = pos_of_big (Z.shift_right x 1) in
    if Z.testbit x 0 then M.XI h else M.XO h

let n_of_big (x : Z.t) : M.n = if Z.sign x = 0 then M.N0 else M.Npos (pos_of_big x)
let z_of_big (x : Z.t) : M.z =
  if Z.sign x = 0 then M.Z0 else if Z.sign x > 0 then M.Zpos (pos_of_big x) else M.Zneg (pos_of_big (Z.neg x))

let rec big_of_pos (p : M.positive) : Z.t =
  match p with
  | M.XH -> Z.one
  | M.XO q -> Z.shift_left (big_of_pos q) 1
  | M.XI q -> Z.succ (Z.shift_left (big_of_pos q) 1)
let big_of_n = function M.N0 -> Z.zero | M.Npos p -> big_of_pos p
let big_of_z = function M.Z0 -> Z.zero | M.Zpos p -> big_of_pos p | M.Zneg p -> Z.neg (big_of_pos p)

let n_of_string s = n_of_big (Z.of_string s)
let z_of_string s = z_of_big (Z.of_string s)
let string_of_n x = Z.to_string (big_of_n x)
let string_of_z x = Z.to_string (big_of_z x)
let n_of_int i = n_of_big (Z.of_int i)
let int_of_n x = Z.to_int (big_of_n x)
let rec nat_of_int i = if i <= 0 then M.O else M.S (nat_of_int (i - 1))
let rec int_of_nat = function M.O -> 0 | M.S k -> 1 + int_of_nat k

(* ---------- tokens ---------- *)
type toks = { v : string array; mutable i : int }
let toks_of line =
  { v = Array.of_list (List.filter (fun s -> s <> "") (String.split_on_char ' ' line)); i = 0 }
let next t = let s = t.v.(t.i) in t.i <- t.i + 1; s
let peek t = t.v.(t.i)
let tdone t = t.i >= Array.length t.v
let next_int t = int_of_string (next t)

let hex_of_bytes (bs : M.n list) : string =
  if bs = [] then "-" else
  let b = Buffer.create (2 * List.length bs) in
  List.iter (fun x -> Buffer.add_string b (Printf.sprintf "%02x" (int_of_n x))) bs;
  Buffer.contents b
let bytes_of_hex (s : string) : M.n list =
  if s = "-" then [] else
  List.init (String.length s / 2) (fun i -> n_of_int (int_of_string ("0x" ^ String.sub s (2 * i) 2)))
let bits_str (bl : bool list) = "b" ^ String.concat "" (List.map (fun b -> if b then "1" else "0") bl)
let parse_bits s = List.init (String.length s - 1) (fun i -> s.[i + 1] = '1')

let dtype_of_string = function
  | "bool" -> M.DBool | "i16" -> M.DI16 | "i32" -> M.DI32 | "i64" -> M.DI64 | "i128" -> M.DI128
  | "u16" -> M.DU16 | "u32" -> M.DU32 | "u64" -> M.DU64 | "u128" -> M.DU128
  | "f32" -> M.DF32 | "f64" -> M.DF64 | "tsmicros" -> M.DTsMicros | "tsnanos" -> M.DTsNanos
  | "tsmicros96" -> M.DTsMicros96 | "tsnanos96" -> M.DTsNanos96
  | s -> failwith ("unknown dtype " ^ s)

let kind_str = function
  | M.Compatibility -> "Compatibility" | M.Corruption -> "Corruption"
  | M.InsufficientData -> "InsufficientData" | M.InvalidArgument -> "InvalidArgument"

exception Model_panic

let flags_str (f : M.flags) =
  Printf.sprintf "%d %s %d %d" (if f.M.f5 then 1 else 0) (string_of_n f.M.ford)
    (if f.M.fmin then 1 else 0) (if f.M.fgcd then 1 else 0)
let read_flags t : M.flags =
  let a = next_int t <> 0 in
  let o = n_of_string (next t) in
  let b = next_int t <> 0 in
  let c = next_int t <> 0 in
  { M.f5 = a; ford = o; fmin = b; fgcd = c }

let prefix_str (p : M.prefix) =
  Printf.sprintf "%s %s %s %s %s %s" (string_of_n p.M.p_count) (string_of_n p.M.p_lower)
    (string_of_n p.M.p_upper) (bits_str p.M.p_code)
    (match p.M.p_jump with None -> "-1" | Some j -> string_of_n j) (string_of_n p.M.p_gcd)
let table_str (ps : M.prefix list) =
  String.concat " " (string_of_int (List.length ps) :: List.map prefix_str ps)
let read_prefix t : M.prefix =
  let c = n_of_string (next t) in
  let lo = n_of_string (next t) in
  let up = n_of_string (next t) in
  let code = parse_bits (next t) in
  let j = next t in
  let g = n_of_string (next t) in
  { M.p_count = c; p_lower = lo; p_upper = up; p_code = code;
    p_jump = (if j = "-1" then None else Some (n_of_string j)); p_gcd = g }
let read_table t : M.prefix list =
  let np = next_int t in
  List.init np (fun _ -> read_prefix t)

let nums_str (xs : M.z list) =
  String.concat " " (string_of_int (List.length xs) :: List.map string_of_z xs)
let unums_str (xs : M.n list) =
  String.concat " " (string_of_int (List.length xs) :: List.map string_of_n xs)
let read_nums t : M.z list =
  let n = next_int t in
  List.init n (fun _ -> z_of_string (next t))

let meta_str (m : M.meta) =
  Printf.sprintf "%s %s %s %s" (string_of_n m.M.m_n) (string_of_n m.M.m_body)
    (nums_str m.M.m_moments) (table_str m.M.m_table)

let res_str f = function
  | M.Ok a -> f a
  | M.Err k -> "err " ^ kind_str k
  | M.Panic -> raise Model_panic

(* ---------- commands ---------- *)
let cmd_conv d t =
  let x = z_of_string (next t) in
  let u = M.to_u d x in
  let s = M.to_s d x in
  let by = match M.to_bytes d x with M.Ok b -> b | _ -> raise Model_panic in
  let fu = M.of_u d u in
  let fs = M.of_s d s in
  let fb = match M.of_bytes d by with
    | M.Ok v -> string_of_z v | M.Err k -> "err:" ^ kind_str k | M.Panic -> raise Model_panic in
  Printf.sprintf "%s %s %s %s %s %s" (string_of_n u) (string_of_z s) (hex_of_bytes by)
    (string_of_z fu) (string_of_z fs) fb

let cmd_fromu d t =
  let u = n_of_string (next t) in
  let x = M.of_u d u in
  Printf.sprintf "%s %s" (string_of_z x) (string_of_n (M.to_u d x))

(* file <dt> <f5> <ord> <fmin> <fgcd> <nchunks>, then per chunk: n xs.. np prefixes.. *)
let cmd_file d t =
  let f = read_flags t in
  let nch = next_int t in
  let chunks = List.init nch (fun _ -> let xs = read_nums t in let tb = read_table t in (xs, tb)) in
  let r = M.file_bytes d f chunks in
  (* cross-check: the compressor as BitWriter calls on 64-bit words, ranges found through the
     CompressionTable transcription (WFile.v; proved equal under chunk_ok) *)
  let small = List.fold_left (fun a (xs, _) -> a + List.length xs) 0 chunks <= 6000 in
  (match r with
   | M.Ok bs when small ->
     (match M.wfile_bytes_ct d f chunks with
      | M.Ok bs' when bs' = bs -> ()
      | _ -> failwith "wfile_bytes_ct differs from file_bytes")
   | _ -> ());
  res_str (fun bs -> "ok " ^ hex_of_bytes bs) r

let cmd_rdec d t =
  let bytes = bytes_of_hex (next t) in
  res_str (fun xs -> "ok " ^ nums_str xs) (M.decode_file d bytes)

let item_str = function
  | M.IFlags f -> "F " ^ flags_str f
  | M.IMeta m -> "M " ^ meta_str m
  | M.INums xs -> "N " ^ nums_str xs
  | M.IFooter -> "Z"

let rout_str = function
  | M.ROUnit -> "u"
  | M.ROFlags f -> "F " ^ flags_str f
  | M.ROMeta None -> "M none"
  | M.ROMeta (Some m) -> "M " ^ meta_str m
  | M.RONums xs -> "N " ^ nums_str xs
  | M.ROItem i -> "I " ^ item_str i
  | M.RONone -> "none"
  | M.ROErr k -> "err " ^ kind_str k
  | M.ROPanic -> raise Model_panic

let cmd_rhist d t =
  let limit = n_of_string (next t) in
  let st = ref M.r_init in
  let wst = ref M.ws_init and wcheck = ref true and wbytes = ref 0 in
  let outs = ref [] in
  while not (tdone t) do
    let op = next t in
    let rop =
      if String.length op > 2 && String.sub op 0 2 = "w:" then
        M.RWrite (bytes_of_hex (String.sub op 2 (String.length op - 2)))
      else match op with
        | "h" -> M.RHeader | "m" -> M.RMeta | "b" -> M.RBody | "s" -> M.RSkip
        | "n" -> M.RNext limit | "f" -> M.RFree | "S" -> M.RSimple
        | _ -> failwith ("bad rhist op " ^ op) in
    let (st', out) = M.r_do d !st rop in
    st := st';
    (* cross-check: the Decompressor transcribed on 64-bit words (RState.v; proved to simulate
       r_step) run on the same operations gives the same output and bit position *)
    if !wcheck then begin
      (match rop with M.RWrite bs -> wbytes := !wbytes + List.length bs | _ -> ());
      if !wbytes > 3000 then wcheck := false else begin
        let (wst', wout) = M.ws_do d !wst rop in
        wst := wst';
        if rout_str wout <> rout_str out || wst'.M.ws_bit <> st'.M.r_bit then
          failwith "word-level decompressor (RState.ws_do) differs from Reader.r_do"
      end
    end;
    outs := (rout_str out ^ " @" ^ string_of_n st'.M.r_bit) :: !outs
  done;
  String.concat " ; " (List.rev !outs)

(* whist <dt> <level> <order> <gcds> ops: H | C <n> xs.. <np> prefixes.. | F | D | Z *)
let cmd_whist d t =
  let level = n_of_string (next t) in
  let order = n_of_string (next t) in
  let gcds = next_int t <> 0 in
  let cfg = { M.w_level = level; w_order = order; w_gcds = gcds } in
  let st = ref M.w_init in
  let wwst = ref M.ww_init and wwcheck = ref true in
  let outs = ref [] in
  while not (tdone t) do
    let op = next t in
    let wop = match op with
      | "H" -> M.WHeader
      | "C" -> let xs = read_nums t in let tb = read_table t in M.WChunk (xs, tb)
      | "F" -> M.WFooter | "D" -> M.WDrain | "Z" -> M.WByteSize
      | _ -> failwith ("bad whist op " ^ op) in
    let (st', out) = M.w_step cfg d !st wop in
    st := st';
    (* cross-check: the Compressor transcribed on the 64-bit-word BitWriter (WState.v) *)
    let small = (match wop with M.WChunk (xs, _) -> List.length xs <= 4000 | _ -> true) in
    if !wwcheck && small then begin
      let (wst', wout) = M.ww_step cfg d !wwst wop in
      wwst := wst';
      let same = (match out, wout with
        | M.WUnit, M.WUnit -> true
        | M.WMeta a, M.WMeta b -> meta_str a = meta_str b
        | M.WBytes a, M.WBytes b -> a = b
        | M.WSize a, M.WSize b -> a = b
        | M.WErr a, M.WErr b -> a = b
        | M.WPanic, M.WPanic -> true
        | _ -> false) in
      (* a late failure (table not covering a number) leaves the real writer half written: outside the simulation's guard *)
      (match out with M.WErr _ | M.WPanic -> (match wop with M.WChunk _ -> wwcheck := false | _ -> ()) | _ -> ());
      if !wwcheck && not same then failwith "word-level compressor (WState.ww_step) differs from Writer.w_step"
    end else wwcheck := false;
    let s = match out with
      | M.WUnit -> "u" | M.WMeta m -> "M " ^ meta_str m | M.WBytes bs -> "B " ^ hex_of_bytes bs
      | M.WSize n -> "S " ^ string_of_n n | M.WErr k -> "err " ^ kind_str k
      | M.WPanic -> raise Model_panic in
    outs := s :: !outs
  done;
  String.concat " ; " (List.rev !outs)

(* specdec <dt> <hex> : independent grammar decoder *)
let cmd_specdec d t =
  let bytes = bytes_of_hex (next t) in
  match M.dec_file d (M.bytes_to_bits bytes) with
  | None -> "none"
  | Some ((a, sizes), left) ->
    let f = a.M.sf_flags in
    let chunk_str (c, bsz) =
      Printf.sprintf "%s %s %s %s | %s" (string_of_n c.M.sc_n) (string_of_n bsz) (nums_str c.M.sc_moments)
        (table_str c.M.sc_table) (nums_str (M.chunk_nums f d c)) in
    Printf.sprintf "ok %s %d %d left=%d ; %s" (flags_str f) (int_of_nat a.M.sf_extra_flag_bytes)
      (List.length a.M.sf_chunks) (List.length left)
      (String.concat " ; " (List.map chunk_str (List.combine a.M.sf_chunks sizes)))

(* specenc <dt> <f5> <ord> <fmin> <fgcd> <extra> <nchunks>
     then per chunk: n, nmom, moments, common (-1 or g), np, prefixes, nblocks,
     and per block: idx, k, offsets
   answer: hex bytes, then the numbers the AST denotes *)
let cmd_specenc d t =
  let f = read_flags t in
  let extra = next_int t in
  let nch = next_int t in
  let chunks = List.init nch (fun _ ->
    let n = n_of_string (next t) in
    let mo = read_nums t in
    let cm = next t in
    let tb = read_table t in
    let nb = next_int t in
    let blocks = List.init nb (fun _ ->
      let idx = next_int t in
      let k = next_int t in
      let offs = List.init k (fun _ -> n_of_string (next t)) in
      { M.sb_idx = nat_of_int idx; sb_offsets = offs }) in
    { M.sc_n = n; sc_moments = mo; sc_common = (if cm = "-1" then None else Some (n_of_string cm));
      sc_table = tb; sc_blocks = blocks }) in
  let a = { M.sf_dt = d; sf_flags = f; sf_extra_flag_bytes = nat_of_int extra; sf_chunks = chunks } in
  let bits = M.enc_file a in
  Printf.sprintf "ok %s | %s" (hex_of_bytes (M.bits_to_bytes bits)) (nums_str (M.file_nums a))

let cmd_kinfo d t =
  let lo = n_of_string (next t) in
  let up = n_of_string (next t) in
  let g = n_of_string (next t) in
  let r = M.N.div (M.N.sub up lo) g in
  let k = M.k_of_range r in
  let upk = M.N.sub (M.N.pow (n_of_int 2) k) (n_of_int 1) in
  ignore d;
  Printf.sprintf "%s %s %s" (string_of_n k) (string_of_n (M.N.sub r upk)) (string_of_n upk)

let cmd_varint t =
  let _pre = next_int t in
  let x = n_of_string (next t) in
  let j = n_of_string (next t) in
  let bits = M.write_varint x j in
  let rd = match M.read_varint j (bits @ List.init 70 (fun _ -> true)) with
    | M.Ok (v, rest) -> Printf.sprintf "%s %d" (string_of_n v) (List.length bits + 70 - List.length rest)
    | _ -> "err" in
  Printf.sprintf "%s %s %s" (bits_str bits) rd rd

let cmd_flagsparse t =
  let bytes = bytes_of_hex (next t) in
  let bits = M.bytes_to_bits bytes in
  match M.parse_flags bits with
  | M.Ok (f, rest) -> Printf.sprintf "ok %s @%d" (flags_str f) (List.length bits - List.length rest)
  | M.Err k -> "err " ^ kind_str k
  | M.Panic -> raise Model_panic

let cmd_flagswrite t =
  let f = read_flags t in
  res_str (fun bl -> "ok " ^ hex_of_bytes (M.bits_to_bytes bl)) (M.write_flags f)

let ts_dtype = function
  | "tsmicros" -> M.DTsMicros | "tsnanos" -> M.DTsNanos
  | "tsmicros96" -> M.DTsMicros96 | "tsnanos96" -> M.DTsNanos96
  | s -> failwith ("bad ts type " ^ s)

let cmd_st2ts t =
  let d = ts_dtype (next t) in
  let sec = z_of_string (next t) in
  let nanos = z_of_string (next t) in
  if not (M.st_ok sec nanos) then "unrepresentable" else
  res_str (fun p -> "ok " ^ string_of_z p) (M.st2ts d sec nanos)

let cmd_ts2st t =
  let d = ts_dtype (next t) in
  let parts = z_of_string (next t) in
  res_str (fun (s, n) -> Printf.sprintf "ok %s %s" (string_of_z s) (string_of_z n)) (M.ts2st d parts)

let cmd_ts96new t =
  let d = ts_dtype (next t) in
  let parts = z_of_string (next t) in
  res_str (fun p -> "ok " ^ string_of_z p) (M.ts96_new d parts)

(* unopt <dt> <level> <gcds> <n> sorted.. | <k> (count weight jump)*k : the exact integer skeleton of
   choose_unoptimized_prefixes with the run-length decisions of the real code as oracle *)
let cmd_unopt t =
  let level = n_of_string (next t) in
  let gcds = next_int t <> 0 in
  let n = next_int t in
  let sorted = List.init n (fun _ -> n_of_string (next t)) in
  let _bar = next t in
  let k = next_int t in
  let oracle = List.init k (fun _ ->
    let c = next t in let w = next t in let j = next t in (c, (n_of_string w, n_of_string j))) in
  let rl count _n = List.assoc_opt (string_of_n count) oracle in
  let maxp = M.choose_max_n_prefixes level (n_of_int n) in
  let ws = M.choose_unoptimized sorted maxp gcds rl in
  String.concat " " (string_of_int (List.length ws) :: List.map (fun w ->
    Printf.sprintf "%s %s %s %s %s %s" (string_of_n w.M.w_count) (string_of_n w.M.w_weight) (string_of_n w.M.w_lower)
      (string_of_n w.M.w_upper) (match w.M.w_jump with None -> "-1" | Some j -> string_of_n j) (string_of_n w.M.w_gcd)) ws)

(* ---------- word level (Words.v): wordops / ctsearch, same answers as the Rust harness ---------- *)
let split_colon s = Array.of_list (String.split_on_char ':' s)
let bits01 bl = if bl = [] then "-" else String.concat "" (List.map (fun b -> if b then "1" else "0") bl)

let res_out (r : 'a M.res) (ok : 'a -> string) : string =
  match r with M.Ok a -> ok a | M.Err e -> kind_str e | M.Panic -> "panic"

(* wordops <writer ops> | <BitWords ops> <reader ops> *)
let cmd_wordops t =
  let w = ref M.wr_default in
  let events = ref [] in
  let k = ref 0 in
  let fin = ref false in
  while not !fin && not (tdone t) do
    let op = next t in
    if op = "|" then fin := true else begin
      let f = split_colon op in
      let nn i = n_of_string f.(i) in
      (match f.(0) with
       | "o" -> w := M.wr_write_one !w true
       | "z" -> w := M.wr_write_one !w false
       | "w" -> w := M.wr_write !w (if f.(1) = "-" then [] else List.init (String.length f.(1)) (fun i -> f.(1).[i] = '1'))
       | "u" -> w := M.wr_write_usize !w (nn 2) (nn 1)
       | "d" | "D" -> w := M.wr_write_diff !w (nn 2) (nn 1)
       | "v" -> (match M.wr_write_varint !w (nn 1) (nn 2) with
           | M.Ok w' -> w := w'
           | M.Err e -> events := Printf.sprintf "e%d:%s" !k (kind_str e) :: !events
           | M.Panic -> events := Printf.sprintf "p%d" !k :: !events)
       | "f" -> w := M.wr_finish_byte !w
       | "a" -> (match M.wr_write_aligned_bytes !w (bytes_of_hex f.(1)) with
           | M.Ok w' -> w := w'
           | M.Err e -> events := Printf.sprintf "e%d:%s" !k (kind_str e) :: !events
           | M.Panic -> events := Printf.sprintf "p%d" !k :: !events)
       | "O" -> w := M.wr_overwrite !w (nn 1) (nn 2) (nn 3)
       | "q" -> events := Printf.sprintf "q%d:%s/%s" !k (string_of_n (M.wr_bit_size !w)) (string_of_n (M.wr_byte_size !w)) :: !events
       | _ -> failwith ("bad wordops writer op " ^ op));
      incr k
    end
  done;
  let nbits = M.wr_bit_size !w in
  let bytes = M.wr_drain_bytes (M.wr_finish_byte !w) in
  let head = Printf.sprintf "%s %s %s" (string_of_n nbits) (hex_of_bytes bytes)
      (if !events = [] then "ok" else String.concat "," (List.rev !events)) in
  (* BitWords::from(bytes), then extend_bytes / truncate_left *)
  let (ws0, tb0) = M.bw_extend [] M.N0 bytes in
  let words = ref ws0 and total = ref tb0 in
  let outs = ref [] in
  let in_reader = ref false in
  let i = ref M.N0 and j = ref M.N0 in
  let set (a, b) = i := a; j := b in
  while not (tdone t) do
    let op = next t in
    let f = split_colon op in
    let n = if Array.length f > 1 && f.(0) <> "x" then n_of_string f.(1) else M.N0 in
    if not !in_reader && (f.(0) = "x" || f.(0) = "t") then begin
      let (ws, tb) = if f.(0) = "x" then M.bw_extend !words !total (bytes_of_hex f.(1))
        else M.bw_truncate_left !words !total n in
      words := ws; total := tb;
      outs := Printf.sprintf "%s@%s" f.(0) (string_of_n tb) :: !outs
    end else begin
      in_reader := true;
      let out = match f.(0) with
        | "1" -> res_out (M.rd_read_one !words !i !j !total) (fun (b, st) -> set st; if b then "1" else "0")
        | "b" -> res_out (M.rd_read !words !i !j !total n) (fun (bl, st) -> set st; bits01 bl)
        | "r" -> res_out (M.rd_read_diff !words !i !j !total n) (fun (v, st) -> set st; string_of_n v)
        | "R" ->
          (* read_diff::<u64>: the same check, then unchecked_read_diff with U::BITS = 64 *)
          if M.rd_insufficient !i !j n !total then kind_str M.InsufficientData
          else let (v, st) = M.rd_unchecked_read_diff_u (n_of_int 64) !words !i !j n in set st; string_of_n v
        | "U" -> let (v, st) = M.rd_unchecked_read_diff_u (n_of_int 128) !words !i !j n in set st; string_of_n v
        | "V" -> let (v, st) = M.rd_unchecked_read_diff_u (n_of_int 64) !words !i !j n in set st; string_of_n v
        | "s" -> set (M.rd_seek_to (M.N.add (M.rd_bit_idx !i !j) n)); "s"
        | "S" -> set (M.rd_seek_to n); "S"
        | "A" ->
          (match M.rd_read_aligned_bytes !words !i !j !total n with
           | M.Ok (bs, st) -> set st; hex_of_bytes bs
           | M.Err e ->
             (* the Rust method calls refresh_if_needed before it fails; Words.v returns no state on Err *)
             set (M.rd_refresh !i !j); kind_str e
           | M.Panic -> "panic")
        | "T" ->
          (* read_prefix_table_idx (Huff.v): bits read / table index; the position may end a word too far *)
          res_out (M.rd_read_prefix_table_idx !words !i !j !total n)
            (fun ((br, idx), st) -> set st; Printf.sprintf "%s/%s" (string_of_n br) (string_of_n idx))
        | _ -> failwith ("bad wordops reader op " ^ op) in
      outs := Printf.sprintf "%s@%s" out (string_of_n (M.rd_bit_idx !i !j)) :: !outs
    end
  done;
  Printf.sprintf "%s ; %s" head (if !outs = [] then "-" else String.concat " " (List.rev !outs))

(* ctsearch <dt> <np> (<count> <lower_u> <upper_u>)*np <nq> <q_u>*nq *)
let cmd_ctsearch d t =
  let np = next_int t in
  let ps = List.init np (fun _ ->
    let c = n_of_string (next t) in
    let lo = n_of_string (next t) in
    let up = n_of_string (next t) in
    { M.p_count = c; p_lower = lo; p_upper = up; p_code = []; p_jump = None; p_gcd = n_of_int 1 }) in
  let nq = next_int t in
  let qs = List.init nq (fun _ -> n_of_string (next t)) in
  let umax = n_of_big (Z.pred (Z.shift_left Z.one (int_of_n (M.ubits d)))) in
  (* infos.sort_unstable_by_key(|p| p.upper): uppers are pairwise distinct in the queries *)
  let sorted = List.stable_sort (fun a b -> Z.compare (big_of_n a.M.p_upper) (big_of_n b.M.p_upper)) ps in
  let rec shape = function
    | M.CLeaf p -> Printf.sprintf "L(%s,%s)" (string_of_n p.M.p_lower) (string_of_n p.M.p_upper)
    | M.CNode items ->
      "N[" ^ String.concat " " (List.map (fun (u, c) -> string_of_n u ^ ":" ^ shape c) items) ^ "]" in
  let tree = M.ct_from_sorted (nat_of_int (np + 1)) umax sorted in
  let sh = match tree with Some tr -> shape tr | None -> "fuel" in
  let pstr = function
    | Some p -> string_of_n p.M.p_lower ^ "-" ^ string_of_n p.M.p_upper
    | None -> "none" in
  (* ct_search rebuilds the table for every query (same fuel); it is evaluated as such on the first
     queries and through the tree built above (its definition unfolded) on the others *)
  let found = List.mapi (fun k q ->
    let viatree = match tree with Some tr -> pstr (M.ct_search_tree tr q) | None -> "none" in
    if k < 4 && pstr (M.ct_search umax sorted q) <> viatree then "ct_search-differs" else viatree) qs in
  Printf.sprintf "%s ; %s" sh (if found = [] then "-" else String.concat " " found)

let run_line line =
  let t = toks_of line in
  let cmd = next t in
  match cmd with
  | "countbits" ->
    let fmin = next_int t <> 0 in
    let n = n_of_string (next t) in
    string_of_n (M.count_bits { M.f5 = true; ford = M.N0; fmin = fmin; fgcd = true } n)
  | "varint" -> cmd_varint t
  | "flagsparse" -> cmd_flagsparse t
  | "flagswrite" -> cmd_flagswrite t
  | "wordops" -> cmd_wordops t
  | "maxpref" -> let l = n_of_string (next t) in let n = n_of_string (next t) in string_of_n (M.choose_max_n_prefixes l n)
  | "st2ts" -> cmd_st2ts t
  | "ts2st" -> cmd_ts2st t
  | "ts96new" -> cmd_ts96new t
  | _ ->
    let d = dtype_of_string (next t) in
    (match cmd with
     | "conv" -> cmd_conv d t
     | "fromu" -> cmd_fromu d t
     | "file" -> cmd_file d t
     | "rdec" -> cmd_rdec d t
     | "rhist" -> cmd_rhist d t
     | "whist" -> cmd_whist d t
     | "specdec" -> cmd_specdec d t
     | "specenc" -> cmd_specenc d t
     | "kinfo" -> cmd_kinfo d t
     | "gcdbits" -> string_of_n (M.gcd_bits (n_of_string (next t)))
     | "unopt" -> cmd_unopt t
     | "ctsearch" -> cmd_ctsearch d t
     | "pairgcd" -> let a = n_of_string (next t) in let b = n_of_string (next t) in string_of_n (M.pgcd a b)
     | "gcd" -> let k = next_int t in string_of_n (M.gcd_sorted (List.init k (fun _ -> n_of_string (next t))))

     | _ -> failwith ("unknown command " ^ cmd))

(* a watchdog per line: a hostile file may declare millions of numbers that the real decoder
   produces with a memset while the list-based model grinds; such a line answers "modeltimeout" *)
exception Line_timeout
let line_budget = try int_of_string (Sys.getenv "VERIF_MODEL_LINE_TIMEOUT") with _ -> 600

let () =
  Sys.set_signal Sys.sigalrm (Sys.Signal_handle (fun _ -> raise Line_timeout));
  try
    while true do
      let line = input_line stdin in
      if String.trim line <> "" then begin
        ignore (Unix.alarm line_budget);
        let ans = try (let a = run_line line in ignore (Unix.alarm 0); a) with
          | Line_timeout -> "modeltimeout"
          | Model_panic -> "panic model"
          | Stack_overflow -> "modelerror stack_overflow"
          | Failure m -> "modelerror " ^ m
          | Invalid_argument m -> "modelerror " ^ m
          | Not_found -> "modelerror not_found" in
        ignore (Unix.alarm 0);
        print_string ans; print_newline ()
      end
    done
  with End_of_file -> ()
