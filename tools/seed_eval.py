#!/usr/bin/env python3
"""seed_eval.py <id> <seed_dir> <demo_kind> <check ids...>
Confirms a seeded change in a scratch worktree (existing tests pass; demo fails with the change
and passes without), runs the given checks against /repo with the change applied, undoes it,
and records everything under /verif/seeded/<id>/."""
import json, os, shutil, subprocess, sys, time

def sh(cmd, cwd=None, timeout=3600):
    p = subprocess.run(cmd, cwd=cwd, shell=True, stdout=subprocess.PIPE, stderr=subprocess.STDOUT, text=True, timeout=timeout,
                       env=dict(os.environ, CARGO_NET_OFFLINE="true"))
    return p.returncode, p.stdout

def recheck(sid):
    """re-run the check of the seed's own property (and the others that caught it) with the patch applied"""
    out = "/verif/seeded/%s" % sid
    rec = json.load(open(os.path.join(out, "meta.json")))
    checks = [rec["property"]] + [c for c in rec.get("caught_by", []) if c != rec["property"]]
    rc, o = sh("git -C /repo status --porcelain")
    assert o.strip() == "", "repo not clean: " + o
    rc, o = sh("git -C /repo apply %s" % os.path.join(out, "patch.diff"))
    assert rc == 0, o
    results = {}
    try:
        for c in checks:
            t = time.time()
            rc, o = sh("./check %s --tier quick" % c, cwd="/verif", timeout=5400)
            lines = [l for l in o.split("\n") if l.startswith("VIOLATION") or l.startswith("OK ") or l.startswith("KNOWN-FINDING")]
            results[c] = {"exit": rc, "lines": lines[:6], "wall_s": round(time.time() - t, 1)}
            for l in lines:
                if l.startswith("VIOLATION") and "replay=" in l:
                    rp = l.split("replay=")[1].split()[0]
                    if os.path.exists(rp):
                        v = json.load(open(rp))
                        results[c]["first_violation"] = {k: (str(v[k])[:400]) for k in v if k in ("what", "query", "broken_obligations", "case")}
                    break
    finally:
        sh("git -C /repo checkout -- .")
        sh("rm -f /verif/replays/*.json")
    rec["checks"] = results
    rec["caught_by"] = [c for c, r in results.items() if r["exit"] != 0]
    rec["with_failing_input"] = [c for c, r in results.items()
                                 if any(l.startswith("VIOLATION") and not l.rstrip().endswith("no-failing-input-found") for l in r["lines"])]
    json.dump(rec, open(os.path.join(out, "meta.json"), "w"), indent=1)
    print(sid, "caught_by", rec["caught_by"], "with_failing_input", rec["with_failing_input"])


def main():
    if sys.argv[1] == "--recheck":
        for sid in sys.argv[2:]:
            recheck(sid)
        return
    sid, sdir = sys.argv[1], sys.argv[2]
    checks = sys.argv[3:]
    out = "/verif/seeded/%s" % sid
    os.makedirs(out, exist_ok=True)
    meta_in = json.load(open(os.path.join(sdir, "meta.json")))
    patch = os.path.join(sdir, "patch.diff")
    demo = os.path.join(sdir, "demo.rs")
    if not os.path.exists(demo):
        demo = os.path.join(sdir, "demo.sh")
    wt = "/tmp/ver_%s" % sid
    sh("git -C /repo worktree remove --force %s" % wt)
    rc, o = sh("git -C /repo worktree add --detach %s HEAD" % wt)
    assert rc == 0, o
    rec = {"id": sid, "property": meta_in.get("property"), "summary": meta_in.get("summary"), "needs_to_manifest": meta_in.get("needs_to_manifest"), "ran": []}
    try:
        demo_name = "demo_%s" % sid.replace("-", "_")
        if demo.endswith(".sh"):
            run_demo = "bash %s %s" % (demo, wt)
        elif "fn main" in open(demo).read():
            shutil.copy(demo, os.path.join(wt, "q_compress", "examples", demo_name + ".rs"))
            run_demo = "cargo run --offline --release -p q_compress --features timestamps_96 --example %s" % demo_name
        else:
            os.makedirs(os.path.join(wt, "q_compress", "tests"), exist_ok=True)
            shutil.copy(demo, os.path.join(wt, "q_compress", "tests", demo_name + ".rs"))
            run_demo = "cargo test --offline -p q_compress --features timestamps_96 --test %s" % demo_name
        rc0, o0 = sh(run_demo, cwd=wt)
        rec["demo_passes_without_change"] = (rc0 == 0)
        rc, o = sh("git apply %s" % patch, cwd=wt)
        assert rc == 0, o
        rc1, o1 = sh(run_demo, cwd=wt)
        rec["demo_fails_with_change"] = (rc1 != 0)
        for d in ("examples", "tests"):
            f = os.path.join(wt, "q_compress", d, demo_name + ".rs")
            if os.path.exists(f):
                os.remove(f)   # the demonstration is not part of the existing suite
        rc2, o2 = sh("cargo test --workspace --offline 2>&1 | grep -E '^test result|FAILED|failed' ", cwd=wt)
        rec["existing_tests_output"] = o2.strip().split("\n")
        rec["existing_tests_pass"] = ("FAILED" not in o2 and "failed;" in o2 and all(" 0 failed" in l for l in o2.split("\n") if l.startswith("test result")))
        rec["ran"] += [run_demo + " (without change: rc=%d; with change: rc=%d)" % (rc0, rc1), "cargo test --workspace --offline"]
        rec["demo_output_with_change"] = o1[-600:]
    finally:
        sh("git -C /repo worktree remove --force %s" % wt)
    # run the checks against /repo with the change applied
    rc, o = sh("git -C /repo status --porcelain")
    assert o.strip() == "", "repo not clean: " + o
    rc, o = sh("git -C /repo apply %s" % patch)
    assert rc == 0, o
    results = {}
    try:
        for c in checks:
            t = time.time()
            rc, o = sh("./check %s --tier quick" % c, cwd="/verif", timeout=5400)
            lines = [l for l in o.split("\n") if l.startswith("VIOLATION") or l.startswith("OK ") or l.startswith("KNOWN-FINDING")]
            results[c] = {"exit": rc, "lines": lines[:6], "wall_s": round(time.time() - t, 1)}
            # keep the first replay for reference
            for l in lines:
                if l.startswith("VIOLATION") and "replay=" in l:
                    rp = l.split("replay=")[1].split()[0]
                    if os.path.exists(rp):
                        try:
                            v = json.load(open(rp))
                            results[c]["first_violation"] = {k: (str(v[k])[:400]) for k in v if k in ("what", "query", "broken_obligations", "case")}
                        except Exception:
                            pass
                    break
    finally:
        sh("git -C /repo checkout -- .")
        sh("rm -f /verif/replays/*.json")
    rec["checks"] = results
    rec["caught_by"] = [c for c, r in results.items() if r["exit"] != 0]
    # checks that produced an input on which the property itself fails (not only a broken correspondence)
    rec["with_failing_input"] = [c for c, r in results.items()
                                 if any(l.startswith("VIOLATION") and not l.rstrip().endswith("no-failing-input-found") for l in r["lines"])]
    if "history" in meta_in:
        rec["history"] = meta_in["history"]
    if os.path.abspath(sdir) != os.path.abspath(out):
        shutil.copy(patch, os.path.join(out, "patch.diff"))
        shutil.copy(demo, os.path.join(out, os.path.basename(demo)))
    json.dump(rec, open(os.path.join(out, "meta.json"), "w"), indent=1)
    print(json.dumps({k: rec[k] for k in ("id", "existing_tests_pass", "demo_fails_with_change", "demo_passes_without_change", "caught_by")}, indent=0))
    for c, r in results.items():
        print(c, r["exit"], r["lines"][:2])

if __name__ == "__main__":
    main()
