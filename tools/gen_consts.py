#!/usr/bin/env python3
"""Translator: /repo Rust sources -> coq/Model/Consts.v.

Re-reads the format constants, tuning constants and per-data-type tables from the
current working tree of /repo on every run.  A pattern that no longer matches is a
broken tie: the script exits 2 and names the pattern (never a silent default).
The output file is rewritten only when its text changes so `make` stays incremental.
"""
import os, re, sys
from fractions import Fraction

REPO = os.environ.get("QCO_REPO", "/repo")
SRC = os.path.join(REPO, "q_compress", "src")
OUT = os.path.join(os.path.dirname(os.path.abspath(__file__)), "..", "coq", "Model", "Consts.v")


class Broken(Exception):
    pass


def read(rel):
    p = os.path.join(SRC, rel)
    try:
        return open(p).read()
    except OSError as e:
        raise Broken(f"cannot read {p}: {e}")


def strip_comments(s):
    return re.sub(r"//[^\n]*", "", s)


def eval_int(expr, env):
    expr = expr.strip()
    expr = re.sub(r"_(usize|u64|u32|i64|u8)\b", "", expr)
    expr = re.sub(r"\bas\s+(usize|u64|u32|i64|u8)\b", "", expr)
    expr = expr.replace("usize::BITS", "64")
    if not re.fullmatch(r"[A-Za-z0-9_ ()<>+\-*/]+", expr):
        raise Broken(f"cannot evaluate constant expression {expr!r}")
    names = set(re.findall(r"[A-Za-z_][A-Za-z0-9_]*", expr))
    for n in names:
        if n not in env:
            raise Broken(f"unknown name {n} in constant expression {expr!r}")
    return int(eval(expr.replace("/", "//"), {"__builtins__": {}}, dict(env)))


def consts_of(text, env, wanted, where):
    text = strip_comments(text)
    found = {}
    for m in re.finditer(r"(?:pub(?:\(crate\))?\s+)?const\s+([A-Z0-9_]+)\s*:\s*([^=]+?)\s*=\s*([^;]+);", text):
        name, ty, expr = m.group(1), m.group(2).strip(), m.group(3)
        if name not in wanted:
            continue
        if ty.startswith("["):
            vals = [int(x) for x in re.findall(r"\d+", expr)]
            found[name] = vals
        elif ty == "f64":
            found[name] = Fraction(expr.strip())
        else:
            found[name] = eval_int(expr, env)
            env[name] = found[name]
    for w in wanted:
        if w not in found:
            raise Broken(f"constant {w} not found in {where}")
    return found


def main():
    env = {}
    out = {}
    out.update(consts_of(read("constants.rs"), env, [
        "MAGIC_HEADER", "MAGIC_CHUNK_BYTE", "MAGIC_TERMINATION_BYTE",
        "MAX_DELTA_ENCODING_ORDER", "BITS_TO_ENCODE_DELTA_ENCODING_ORDER", "MAX_ENTRIES",
        "BITS_TO_ENCODE_N_ENTRIES", "BITS_TO_ENCODE_N_PREFIXES", "MAX_JUMPSTART",
        "BITS_TO_ENCODE_JUMPSTART", "BITS_TO_ENCODE_COMPRESSED_BODY_SIZE",
        "MAX_PREFIX_TABLE_SIZE_LOG", "DEFAULT_COMPRESSION_LEVEL", "MAX_COMPRESSION_LEVEL",
    ], "constants.rs"))
    out.update(consts_of(read("compressor.rs"), dict(env), [
        "MIN_N_TO_USE_RUN_LEN", "MIN_FREQUENCY_TO_USE_RUN_LEN", "DEFAULT_CHUNK_SIZE"], "compressor.rs"))
    out.update(consts_of(read("num_decompressor.rs"), dict(env), ["UNCHECKED_NUM_THRESHOLD"], "num_decompressor.rs"))
    out.update(consts_of(read("auto.rs"), dict(env), ["AUTO_DELTA_LIMIT", "MAX_AUTO_DELTA_COMPRESSION_LEVEL"], "auto.rs"))

    dec = strip_comments(read("decompressor.rs"))
    m = re.search(r"numbers_limit_per_item:\s*(\d[\d_]*)\s*,", dec)
    if not m:
        raise Broken("default numbers_limit_per_item not found in decompressor.rs")
    out["DEFAULT_NUMBERS_LIMIT"] = int(m.group(1).replace("_", ""))

    # flags.rs: code length widths and bit order of the flag payload
    fl = strip_comments(read("flags.rs"))
    m = re.search(r"fn bits_to_encode_code_len.*?if self\.use_5_bit_code_len\s*\{\s*(\d+)\s*\}\s*else\s*\{\s*(\d+)\s*\}", fl, re.S)
    if not m:
        raise Broken("bits_to_encode_code_len pattern not found in flags.rs")
    out["CODE_LEN_BITS_5"], out["CODE_LEN_BITS_4"] = int(m.group(1)), int(m.group(2))
    m = re.search(r"fn try_from\(bools: Vec<bool>\).*?Ok\(flags\)", fl, re.S)
    if not m:
        raise Broken("Flags::try_from body not found in flags.rs")
    body = m.group(0)
    order = []
    for fld in ["use_5_bit_code_len", "delta_encoding_order", "use_min_count_encoding", "use_gcds"]:
        mm = re.search(r"flags\." + fld + r"\s*=", body)
        if not mm:
            raise Broken(f"assignment of flags.{fld} not found in Flags::try_from")
        order.append((mm.start(), fld))
    order.sort()
    pos = 0
    for _, fld in order:
        out["FLAG_POS_" + fld.upper()] = pos
        pos += out["BITS_TO_ENCODE_DELTA_ENCODING_ORDER"] if fld == "delta_encoding_order" else 1
    out["N_KNOWN_FLAG_BITS"] = pos
    m = re.search(r"bools\.extend\(reader\.read\((\d+)\)\?\)", fl)
    if not m:
        raise Broken("flag payload bits per byte not found in Flags::parse_from")
    out["FLAG_PAYLOAD_BITS_PER_BYTE"] = int(m.group(1))
    m = re.search(r"impl From<&CompressorConfig> for Flags.*?use_5_bit_code_len:\s*(true|false).*?use_min_count_encoding:\s*(true|false)", fl, re.S)
    if not m:
        raise Broken("Flags::from(&CompressorConfig) pattern not found")
    out["WRITER_USE_5_BIT"] = 1 if m.group(1) == "true" else 0
    out["WRITER_USE_MIN_COUNT"] = 1 if m.group(2) == "true" else 0

    # data types
    dt = {}
    sg = strip_comments(read("data_types/signeds.rs"))
    for m in re.finditer(r"impl_signed!\(\s*(i\d+)\s*,\s*(u\d+)\s*,\s*(\d+)\s*\)", sg):
        t = m.group(1)
        dt[t] = dict(hdr=int(m.group(3)), phys=int(t[1:]), ubits=int(m.group(2)[1:]), signed=t)
    us = strip_comments(read("data_types/unsigneds.rs"))
    for m in re.finditer(r"impl_unsigned_number!\(\s*(u\d+)\s*,\s*(i\d+)\s*,\s*(\d+)\s*\)", us):
        t = m.group(1)
        dt[t] = dict(hdr=int(m.group(3)), phys=int(t[1:]), ubits=int(t[1:]), signed=m.group(2))
    fs = strip_comments(read("data_types/floats.rs"))
    for m in re.finditer(r"impl_float_number!\(\s*(f\d+)\s*,\s*(i\d+)\s*,\s*(u\d+)\s*,\s*(\d+)\s*,\s*1_u\d+\s*<<\s*(\d+)\s*,\s*(\d+)\s*\)", fs):
        t = m.group(1)
        dt[t] = dict(hdr=int(m.group(6)), phys=int(m.group(4)), ubits=int(m.group(3)[1:]), signed=m.group(2), signbit=int(m.group(5)))
    bo = strip_comments(read("data_types/boolean.rs"))
    m1 = re.search(r"const HEADER_BYTE: u8 = (\d+);", bo)
    m2 = re.search(r"const PHYSICAL_BITS: usize = (\d+);", bo)
    m3 = re.search(r"type Unsigned = u(\d+);", bo)
    if not (m1 and m2 and m3):
        raise Broken("boolean.rs constants not found")
    dt["bool"] = dict(hdr=int(m1.group(1)), phys=int(m2.group(1)), ubits=int(m3.group(1)), signed="bool")
    ts = strip_comments(read("data_types/timestamps.rs"))
    mphys = re.search(r"const PHYSICAL_BITS: usize = (\d+);", ts)
    msig = re.search(r"type Signed = (i\d+);", ts)
    muns = re.search(r"type Unsigned = u(\d+);", ts)
    mbil = re.search(r"const BILLION_I64: i64 = ([\d_]+);", ts)
    if not (mphys and msig and muns and mbil):
        raise Broken("timestamps.rs constants not found")
    bil = int(mbil.group(1).replace("_", ""))
    for m in re.finditer(r"impl_timestamp!\(\s*(\w+)\s*,\s*([\w_]+)\s*,\s*(\d+)\s*,", ts):
        pps = bil if m.group(2) == "BILLION_I64" else int(re.sub(r"_i64$", "", m.group(2)).replace("_", ""))
        dt[m.group(1)] = dict(hdr=int(m.group(3)), phys=int(mphys.group(1)), ubits=int(muns.group(1)), signed=msig.group(1), pps=pps)
    t9 = strip_comments(read("data_types/timestamps_96.rs"))
    mphys = re.search(r"const PHYSICAL_BITS: usize = (\d+);", t9)
    msig = re.search(r"type Signed = (i\d+);", t9)
    muns = re.search(r"type Unsigned = u(\d+);", t9)
    mbil = re.search(r"const BILLION_U32: u32 = ([\d_]+);", t9)
    if not (mphys and msig and muns and mbil):
        raise Broken("timestamps_96.rs constants not found")
    bil = int(mbil.group(1).replace("_", ""))
    for m in re.finditer(r"impl_timestamp_96!\(\s*(\w+)\s*,\s*([\w_]+)\s*,\s*(\d+)\s*,", t9):
        pps = bil if m.group(2) == "BILLION_U32" else int(re.sub(r"_u32$", "", m.group(2)).replace("_", ""))
        dt[m.group(1)] = dict(hdr=int(m.group(3)), phys=int(mphys.group(1)), ubits=int(muns.group(1)), signed=msig.group(1), pps=pps)

    names = ["bool", "i16", "i32", "i64", "i128", "u16", "u32", "u64", "u128", "f32", "f64",
             "TimestampMicros", "TimestampNanos", "TimestampMicros96", "TimestampNanos96"]
    for n in names:
        if n not in dt:
            raise Broken(f"data type {n} not found in data_types/*.rs")

    L = []
    L.append("(* GENERATED by tools/gen_consts.py from /repo/q_compress/src — do not edit. *)")
    L.append("From Coq Require Import NArith List.")
    L.append("Import ListNotations.")
    L.append("Open Scope N_scope.")
    L.append("Module Consts.")
    for k in sorted(out):
        v = out[k]
        if isinstance(v, list):
            L.append(f"Definition {k} : list N := [{'; '.join(str(x) for x in v)}].")
        elif isinstance(v, Fraction):
            L.append(f"Definition {k}_NUM : N := {v.numerator}.")
            L.append(f"Definition {k}_DEN : N := {v.denominator}.")
        else:
            L.append(f"Definition {k} : N := {v}.")
    for n in names:
        d = dt[n]
        L.append(f"Definition HDR_{n} : N := {d['hdr']}.")
        L.append(f"Definition PHYS_{n} : N := {d['phys']}.")
        L.append(f"Definition UBITS_{n} : N := {d['ubits']}.")
        L.append(f"Definition SIGNED_HDR_{n} : N := {dt[d['signed']]['hdr']}.")
        if "pps" in d:
            L.append(f"Definition PPS_{n} : N := {d['pps']}.")
        if "signbit" in d:
            L.append(f"Definition SIGNBIT_{n} : N := {d['signbit']}.")
    allc = [k for k in sorted(out) if not isinstance(out[k], (list, Fraction))]
    L.append("(* every scalar constant, in one list, for the frozen-format theorem *)")
    L.append("Definition format_constants : list N :=")
    fmt = ["MAGIC_CHUNK_BYTE", "MAGIC_TERMINATION_BYTE", "MAX_DELTA_ENCODING_ORDER",
           "BITS_TO_ENCODE_DELTA_ENCODING_ORDER", "MAX_ENTRIES", "BITS_TO_ENCODE_N_ENTRIES",
           "BITS_TO_ENCODE_N_PREFIXES", "MAX_JUMPSTART", "BITS_TO_ENCODE_JUMPSTART",
           "BITS_TO_ENCODE_COMPRESSED_BODY_SIZE", "CODE_LEN_BITS_5", "CODE_LEN_BITS_4",
           "FLAG_POS_USE_5_BIT_CODE_LEN", "FLAG_POS_DELTA_ENCODING_ORDER",
           "FLAG_POS_USE_MIN_COUNT_ENCODING", "FLAG_POS_USE_GCDS", "N_KNOWN_FLAG_BITS",
           "FLAG_PAYLOAD_BITS_PER_BYTE", "WRITER_USE_5_BIT", "WRITER_USE_MIN_COUNT"]
    items = fmt + [f"HDR_{n}" for n in names] + [f"PHYS_{n}" for n in names] + \
        [f"UBITS_{n}" for n in names] + [f"SIGNED_HDR_{n}" for n in names]
    L.append("  MAGIC_HEADER ++ [" + "; ".join(items) + "].")
    L.append("End Consts.")
    text = "\n".join(L) + "\n"
    outp = os.path.normpath(OUT)
    old = open(outp).read() if os.path.exists(outp) else None
    if old != text:
        with open(outp, "w") as f:
            f.write(text)
        print("gen_consts: wrote", outp)
    else:
        print("gen_consts: unchanged")


if __name__ == "__main__":
    try:
        main()
    except Broken as e:
        print("gen_consts: BROKEN TIE:", e)
        sys.exit(2)
