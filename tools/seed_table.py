#!/usr/bin/env python3
"""Regenerates the table of DESIGN.md section 14.6 from seeded/*/meta.json.
usage: tools/seed_table.py            (prints the markdown rows)"""
import json, os, sys

root = os.path.join(os.path.dirname(os.path.abspath(__file__)), "..", "seeded")
print("| seed | property | what the change does | quick checks that report a VIOLATION | note |")
print("|---|---|---|---|---|")
for d in sorted(os.listdir(root)):
    p = os.path.join(root, d, "meta.json")
    if not os.path.exists(p):
        continue
    m = json.load(open(p))
    s = " ".join(m.get("summary", "").split())
    if len(s) > 240:
        s = s[:240].rsplit(" ", 1)[0] + " ..."
    s = s.replace("|", "/")
    note = " ".join(m.get("history", "").split()).replace("|", "/")
    print("| `%s` | %s | %s | %s | %s |" % (d, m.get("property", "?"), s, ", ".join(c + ("" if "with_failing_input" not in m or c in m["with_failing_input"] else " (correspondence only)") for c in m.get("caught_by", [])) or "none", note))
