// qco_clitool: writes a Parquet file with one or two columns from a text description, so that the
// real `qcompress` binary can be driven with Parquet inputs.
// usage: qco_clitool <out.parquet> <dtype> <batch_size> < values (one per line)
use std::fs::File;
use std::io::BufRead;
use std::sync::Arc;

use arrow::array::*;
use arrow::datatypes::{DataType, Field, Schema, TimeUnit};
use arrow::record_batch::RecordBatch;
use parquet::arrow::ArrowWriter;

fn main() {
  let args: Vec<String> = std::env::args().collect();
  let out = &args[1];
  let dtype = args[2].as_str();
  let batch: usize = args[3].parse().unwrap();
  let stdin = std::io::stdin();
  let vals: Vec<String> = stdin.lock().lines().map(|l| l.unwrap().trim().to_string()).filter(|l| !l.is_empty()).collect();
  let adt = match dtype {
    "i16" => DataType::Int16, "i32" => DataType::Int32, "i64" => DataType::Int64,
    "u16" => DataType::UInt16, "u32" => DataType::UInt32, "u64" => DataType::UInt64,
    "f32" => DataType::Float32, "f64" => DataType::Float64,
    "micros" => DataType::Timestamp(TimeUnit::Microsecond, None),
    "nanos" => DataType::Timestamp(TimeUnit::Nanosecond, None),
    _ => panic!("bad dtype"),
  };
  let schema = Arc::new(Schema::new(vec![
    Field::new("pad", DataType::Int32, false),
    Field::new("col", adt, false),
  ]));
  let file = File::create(out).unwrap();
  let mut writer = ArrowWriter::try_new(file, schema.clone(), None).unwrap();
  for chunk in vals.chunks(batch.max(1)) {
    let pad: ArrayRef = Arc::new(Int32Array::from(vec![7i32; chunk.len()]));
    let col: ArrayRef = match dtype {
      "i16" => Arc::new(Int16Array::from(chunk.iter().map(|s| s.parse::<i16>().unwrap()).collect::<Vec<_>>())),
      "i32" => Arc::new(Int32Array::from(chunk.iter().map(|s| s.parse::<i32>().unwrap()).collect::<Vec<_>>())),
      "i64" => Arc::new(Int64Array::from(chunk.iter().map(|s| s.parse::<i64>().unwrap()).collect::<Vec<_>>())),
      "u16" => Arc::new(UInt16Array::from(chunk.iter().map(|s| s.parse::<u16>().unwrap()).collect::<Vec<_>>())),
      "u32" => Arc::new(UInt32Array::from(chunk.iter().map(|s| s.parse::<u32>().unwrap()).collect::<Vec<_>>())),
      "u64" => Arc::new(UInt64Array::from(chunk.iter().map(|s| s.parse::<u64>().unwrap()).collect::<Vec<_>>())),
      "f32" => Arc::new(Float32Array::from(chunk.iter().map(|s| f32::from_bits(s.parse::<u32>().unwrap())).collect::<Vec<_>>())),
      "f64" => Arc::new(Float64Array::from(chunk.iter().map(|s| f64::from_bits(s.parse::<u64>().unwrap())).collect::<Vec<_>>())),
      "micros" => Arc::new(TimestampMicrosecondArray::from_vec(chunk.iter().map(|s| s.parse::<i64>().unwrap()).collect::<Vec<_>>(), None)),
      "nanos" => Arc::new(TimestampNanosecondArray::from_vec(chunk.iter().map(|s| s.parse::<i64>().unwrap()).collect::<Vec<_>>(), None)),
      _ => unreachable!(),
    };
    let rb = RecordBatch::try_new(schema.clone(), vec![pad, col]).unwrap();
    writer.write(&rb).unwrap();
  }
  writer.close().unwrap();
}
