"""Case generation for the codec properties (C01 domain)."""
import random, sys, os
sys.path.insert(0, os.path.join(os.path.dirname(os.path.abspath(__file__)), "..", "gen"))
import numgen
import lib


def split_chunks(xs, nch, rng):
    if len(xs) <= 1 or nch <= 1:
        return [xs]
    cuts = sorted(rng.sample(range(1, len(xs)), min(nch - 1, len(xs) - 1)))
    return [xs[a:b] for a, b in zip([0] + cuts, cuts + [len(xs)])]


def c01_cases(rng, count, max_n=300, dtypes=None, shapes=None, orders=None, levels=None):
    cases = []
    dtypes = dtypes or lib.DTYPES
    for i in range(count):
        dt = dtypes[i % len(dtypes)] if i < 4 * len(dtypes) else rng.choice(dtypes)
        if shapes:
            shape = rng.choice(shapes)
            n = rng.choice([rng.randint(1, 9), rng.randint(10, max_n), rng.randint(10, max_n)])
            xs = numgen.gen(dt, shape, n, rng)
        else:
            shape, xs = numgen.random_case(dt, rng, max_n=max_n)
        order = rng.choice(orders) if orders else rng.choice([0, 0, 0, 1, 2, 7, rng.randint(0, 7)])
        nch = rng.choice([1, 1, 1, 2, 3, 5])
        level = rng.choice(levels) if levels else rng.choice([0, 1, 4, 8, 8, 12, rng.randint(0, 12)])
        cases.append(dict(dt=dt, level=level, order=order, gcds=rng.randint(0, 1),
                          chunks=split_chunks(xs, nch, rng), shape=shape))
    return cases


def rl_range_cases(rng, count, dtypes=None):
    """single chunks whose run-length range spans several values (see numgen rl_range)"""
    cases = []
    dtypes = dtypes or [d for d in lib.DTYPES if d != "bool"]
    for i in range(count):
        dt = rng.choice(dtypes)
        shape = rng.choice(["rl_range", "rl_range_cum"])
        xs = numgen.gen(dt, shape, 1, rng)
        cases.append(dict(dt=dt, level=rng.choice([3, 3, 3, 2, 4]), order=1 if shape == "rl_range_cum" else 0,
                          gcds=rng.randint(0, 1), chunks=[xs], shape=shape))
    return cases


def repeated_lattice_cases(rng, count):
    """many distinct lattice values, each heavily repeated: a range's count exceeds its width
    although no two members are adjacent (more distinct values than ranges at the level)"""
    cases = []
    for _ in range(count):
        dt = rng.choice([d for d in lib.DTYPES if d not in ("bool", "f32", "f64")])
        ulo, uhi = numgen.u_range(dt)
        step = rng.choice([2, 3, 7, 100, 1000])
        r = step + rng.randint(1, 3) if step <= 7 else rng.randint(8, 40)
        K = min(rng.randint(40, 1200), 24000 // r)
        base = rng.randint(ulo, max(ulo, uhi - step * K - 1))
        us = [min(uhi, base + step * k) for k in range(K) for _ in range(r)]
        rng.shuffle(us)
        cases.append(dict(dt=dt, level=rng.choice([2, 4, 6, 8, 8, 8]), order=0, gcds=1, chunks=[[numgen.of_u(dt, u) for u in us]],
                          shape="gcd-repeated-lattice"))
    return cases


def quantile_outlier_cases(rng, count):
    """2^level tight clusters far apart with one isolated value between neighbours, 16k-40k
    numbers and a count that is not a multiple of 2^level: the isolated values sit exactly at
    the quantile boundaries of the range budget"""
    cases = []
    for _ in range(count):
        dt = rng.choice(["i32", "u32", "i64", "u64", "i16", "f64"])
        level = rng.choice([1, 2, 3])
        clusters = 1 << level
        per = rng.randint(16500 // clusters + 1, 36000 // clusters)
        ulo, uhi = numgen.u_range(dt)
        spacing = (uhi - ulo) // (clusters + 1)
        us = []
        for c in range(clusters):
            b = ulo + c * spacing
            us += [b + (i % min(1000, spacing // 4)) for i in range(per)]
            if c + 1 < clusters:
                us.append(b + spacing // 2)
        if rng.random() < 0.5:
            rng.shuffle(us)
        cases.append(dict(dt=dt, level=level, order=0, gcds=rng.randint(0, 1), chunks=[[numgen.of_u(dt, u) for u in us]],
                          shape="quantile-outliers"))
    return cases


def multi_shape_cases(rng, count):
    """files whose chunks are generated independently with different shapes and sizes: sparse /
    run-length chunks of more than a thousand numbers next to small dense ones"""
    cases = []
    for _ in range(count):
        dt = rng.choice(lib.DTYPES)
        chunks = []
        shapes = []
        for _ in range(rng.randint(2, 4)):
            shape = rng.choice(["sparse", "sparse", "rl_range", "uniform", "zipf", "small", "constant", "lattice"])
            n = rng.randint(1050, 2600) if shape in ("sparse", "rl_range") or rng.random() < 0.2 else rng.randint(1, 700)
            chunks.append(numgen.gen(dt, shape, n, rng))
            shapes.append(shape)
        cases.append(dict(dt=dt, level=rng.choice([8, 8, 3, 12, 1]), order=rng.choice([0, 0, 0, 1]), gcds=rng.randint(0, 1),
                          chunks=chunks, shape="multi:" + "+".join(shapes)))
    return cases


def deep_huffman_case(Q, rng, dt="u32", many=False):
    """A chunk of 4096*Q numbers whose optimal Huffman tree is 17+ levels deep while one wide range
    holds almost everything: (rare value, frequent value) pairs occupying exactly whole
    1/4096-quantiles so that every value keeps a range of its own, with Fibonacci-like
    counts, plus evenly spread distinct values over the rest of the type."""
    w = lib.UBITS[dt]
    assert w >= 32, "the construction needs values up to 2^21 below the wide range"
    N = 4096 * Q
    if many:
        rares = [1, 1, 2, 3, 5, 8, 13, 21, 34, 55, 89, 144, 233, 377]
        ms = [2] * 14 + [4, 6, 10, 16, 26]
    else:
        rares = [1, 1, 2, 3, 5]
        ms = [1, 2, 3, 5, 8, 13, 21, 34, 55, 89, 144, 233, 377, 610, 987]
    us = []
    base = 0
    for i, m in enumerate(ms):
        r = min(rares[i], 2 * Q - 1) if i < len(rares) else 0
        us += [base] * r + [base + 4096] * (m * Q - r)
        base += 8192
    c = N - len(us)
    lo, hi = 1 << 21, (1 << w) - 1
    us += [lo + (hi - lo) * t // (c - 1) for t in range(c)]
    rng.shuffle(us)
    # GCD detection off: with it the lattice of pair values is folded into fewer ranges and the tree stays at 16 levels
    return dict(dt=dt, level=12, order=0, gcds=0, chunks=[[numgen.of_u(dt, u) for u in us]], shape="deep-huffman")


def corpus_cases():
    """minimised past failures, always run first"""
    out = []
    # D1: u64 range width 2^49-2 ; every e >= 49
    for e in (49, 50, 52, 53, 60, 63):
        out.append(dict(dt="u64", level=8, order=0, gcds=1, chunks=[[0, 1, (1 << e) - 2]], shape="corpus-D1"))
    out.append(dict(dt="i64", level=8, order=0, gcds=1, chunks=[[-(1 << 62), -(1 << 62) + 1, -(1 << 62) + (1 << 55) - 2]], shape="corpus-D1"))
    out.append(dict(dt="u128", level=8, order=0, gcds=1, chunks=[[0, 1, (1 << 100) - 2]], shape="corpus-D1"))
    # D3: two-valued range of width 2^60+1 beside lattices
    for R in ((1 << 60) + 1, (1 << 49) + 1):
        a, b = 5, 1 << 62
        xs = [a, a + R] * 20 + [b + 3 * i for i in range(40)] + [b + (1 << 40) + 9 * i for i in range(40)]
        out.append(dict(dt="u64", level=8, order=0, gcds=1, chunks=[xs], shape="corpus-D3"))
    # empty file, single numbers, n <= order
    out.append(dict(dt="i32", level=8, order=0, gcds=1, chunks=[], shape="corpus-empty"))
    out.append(dict(dt="f64", level=8, order=5, gcds=1, chunks=[[1, 2, 3]], shape="corpus-short-delta"))
    out.append(dict(dt="bool", level=8, order=1, gcds=1, chunks=[[1, 0, 0, 1, 1]], shape="corpus-bool-delta"))
    return out
