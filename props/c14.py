"""C14 — compressed size is bounded: at most integer width + 4 bits per number."""
import random, sys, os
sys.path.insert(0, os.path.join(os.path.dirname(os.path.abspath(__file__)), "..", "gen"))
import numgen
import lib
from props.common import *
from props import pipeline as pl
from props.codec_cases import *

WBITS = dict(lib.UBITS)
WBITS["bool"] = 1


def build(res):
    std_build(res)


def adversarial(rng, count, max_n):
    """distributions from the property text"""
    cases = []
    for _ in range(count):
        dt = rng.choice(lib.DTYPES)
        ulo, uhi = numgen.u_range(dt) if dt != "bool" else (0, 1)
        kind = rng.choice(["uniform", "alternate", "dominant80", "dominant90", "tiny-clusters", "distinct-pow2", "regular-runs", "regular-runs", "heavy-wide-runlen"])
        n = rng.randint(50, max_n)
        if kind == "uniform":
            us = [rng.randint(ulo, uhi) for _ in range(n)]
        elif kind == "alternate":
            us = [ulo if i % 2 == 0 else uhi for i in range(n)]
        elif kind in ("dominant80", "dominant90"):
            n = max(n, 1100)
            f = rng.uniform(0.79, 0.81) if kind == "dominant80" else rng.uniform(0.89, 0.91)
            dom = rng.randint(ulo, uhi)
            us = []
            while len(us) < n:
                run = rng.randint(1, 4)
                us += [dom] * run
                k = max(1, int(round(run * (1 - f) / f)))
                us += [rng.randint(ulo, uhi) for _ in range(k)] if rng.random() < 0.9 else []
            us = us[:n]
        elif kind == "regular-runs":
            # dominant value in runs of exactly r, one other value between runs (frequency r/(r+1) >= 0.8):
            # the worst case for the per-run cost of run-length coding
            n = max(n, 1100)
            r = rng.choice([4, 4, 5, 6, 9])
            dom = rng.randint(ulo, uhi)
            oth = [u for u in (ulo, uhi, min(uhi, dom + 1), max(ulo, dom - 1)) if u != dom] or [dom]
            wide = rng.random() < 0.4 and uhi - ulo > 1000
            us = []
            while len(us) < n:
                if wide:
                    # the run-length range itself is wide: values near dom on both sides
                    us += [min(uhi, max(ulo, dom + rng.choice([-1, 0, 0, 0, 1]))) for _ in range(r)]
                else:
                    us += [dom] * r
                us.append(rng.choice(oth))
            us = us[:n]
        elif kind == "heavy-wide-runlen":
            # one value holding ~97% near the top of the type, a few far below it (incl. the minimum), more just
            # above it: with two ranges the run-length range is [min .. heavy] and every repetition pays a full offset
            n = rng.randint(1001, max(1100, max_n))
            span = uhi - ulo
            heavy = rng.randint(ulo + span // 2, max(ulo + span // 2, uhi - min(2001, span // 4)))
            us = [heavy] * n
            for i in rng.sample(range(n), max(2, n // 100)):
                us[i] = rng.randint(ulo, heavy)
            us[rng.randrange(n)] = ulo
            for i in rng.sample(range(n), max(3, n // 50)):
                us[i] = min(uhi, heavy + rng.randint(1, 2000))
        elif kind == "tiny-clusters":
            n = max(n, 1500)
            cs = [rng.randint(ulo, uhi) for _ in range(rng.randint(500, 3000))]
            us = [min(uhi, rng.choice(cs) + rng.randint(0, 2)) for _ in range(n)]
        else:
            k = rng.randint(5, 11)
            n = (1 << k) + rng.choice([-1, 0, 1])
            us = rng.sample(range(ulo, min(uhi, ulo + 10 ** 9) + 1), min(n, min(uhi, ulo + 10 ** 9) - ulo + 1)) if dt != "bool" else [rng.randint(0, 1) for _ in range(n)]
        xs = [numgen.of_u(dt, u) for u in us]
        level = rng.choice([10, 11, 12, 8, rng.randint(0, 12)]) if kind == "tiny-clusters" else rng.randint(0, 12)
        if kind == "heavy-wide-runlen":
            cases.append(dict(dt=dt, level=rng.choice([1, 1, 1, 2, 3, 4]), order=0, gcds=rng.randint(0, 1), chunks=[xs], shape="adv-" + kind))
            continue
        cases.append(dict(dt=dt, level=level, order=rng.choice([0, 0, 0, 1, 2, 7]), gcds=rng.randint(0, 1),
                          chunks=split_chunks(xs, rng.choice([1, 1, 2, 3]), rng), shape="adv-" + kind))
    return cases


def check_sizes(c, comp):
    dt = c["dt"]
    w = WBITS[dt]
    order = c["order"]
    total = len(comp["hex"]) // 2
    bound = 8
    for ch, m in zip(c["chunks"], comp["metas"]):
        n = len(ch)
        body_bound = (n * (w + 4) + 7) // 8
        if m["body"] > body_bound:
            return "chunk body %d bytes > ceil(n*(W+4)/8) = %d (n=%d)" % (m["body"], body_bound, n)
        bound += 12 + (order + 1) * w // 8 + len(m["table"]) * ((67 + 3 * w) // 8 + 1) + body_bound
    if total > bound:
        if dt == "bool" and order >= 1 and total <= bound + len(c["chunks"]) * order:
            # explained entirely by the delta moments of booleans taking one byte each
            return "KNOWN:bool-delta-moments file %d bytes > bound %d" % (total, bound)
        return "file %d bytes > metadata+body bound %d" % (total, bound)
    return None


def run(res):
    rng = random.Random(res.seed)
    thorough = res.tier == "thorough"
    from props.theorems import THEOREMS
    prove_obligations(res, THEOREMS.get("C14", []))
    cases = corpus_cases() + c01_cases(rng, 20000 if thorough else 1500, max_n=400) + rl_range_cases(rng, 60 if thorough else 10) + adversarial(rng, 4000 if thorough else 400, 6000 if thorough else 3000)
    cases.append(deep_huffman_case(8, rng))
    out = pl.run_pipeline(res, cases, want_spec=False, want_model_reader=False)
    # a million numbers, 97.8% of them in one range spanning the whole type, beside ranges whose counts make
    # the optimal code tree 17 levels deep: only the size oracle on the real output (no model run)
    big = [deep_huffman_case(256, rng, dt, many=True) for dt in (["u32", "u64", "i32"] if thorough else ["u32"])]
    big_ans = lib.run_impl([pl.compress_query(c) for c in big], timeout=1200)
    obad, kbad = [], []
    worst = 0.0
    for rec in out:
        c = rec["case"]
        res.seen((c["dt"], c["level"], c["order"], c["gcds"], str(c["chunks"])[:2000]), nontrivial=len(pl.flat(c)) > 0)
        res.count("shape:" + c["shape"]); res.count("dtype:" + c["dt"])
        if rec["comp"] is None:
            obad.append((rec, "compress failed: " + rec["compress_answer"][:100])); continue
        why = check_sizes(c, rec["comp"])
        if why:
            obad.append((rec, why))
        for ch, m in zip(c["chunks"], rec["comp"]["metas"]):
            if len(ch) >= 50:
                worst = max(worst, m["body"] * 8 / len(ch) - WBITS[c["dt"]])
        # body size is the exact byte length produced by the format arithmetic of the model writer
        if not pl.check_writer_bytes(rec):
            kbad.append(rec)
    for c, a in zip(big, big_ans):
        comp = pl.parse_compress(a)
        res.seen((c["dt"], "deep-huffman-1M", len(c["chunks"][0])))
        res.count("shape:deep-huffman-1M")
        if comp is None:
            obad.append((dict(case=dict(c, chunks=[c["chunks"][0][:20]])), "compress failed: " + a[:100])); continue
        why = check_sizes(c, comp)
        mx = max(len(p["code"]) - 1 for p in comp["metas"][0]["table"])
        res.notes.append("deep-huffman-1M %s: %d ranges, longest code %d bits, body %.3f bits per number" % (c["dt"], len(comp["metas"][0]["table"]), mx, comp["metas"][0]["body"] * 8 / len(c["chunks"][0])))
        if why:
            obad.append((dict(case=dict(c, chunks=[c["chunks"][0][:20] + ["... deep_huffman_case(256, many=True)"]]), comp=comp), why))
    res.notes.append("largest observed (body bits per number - W) over chunks with n >= 50: %.3f" % worst)
    res.sample({"case": pl.short(out[-1]["case"]), "sizes": [(m["n"], m["body"], len(m["table"])) for m in (out[-1]["comp"] or {"metas": []})["metas"]]})
    res.oblige("O:body_bytes(chunk) <= ceil(n*(W+4)/8) and total_len <= 8 + sum(12 + (order+1)*W/8 + n_prefixes*((67+3W)/8+1) + body bound), on the real output",
               "O", not [x for x in obad if not x[1].startswith("KNOWN:")], str([(w, pl.short(r["case"])) for r, w in obad[:2]])[:900])
    res.oblige("K:real bytes (hence sizes) == model writer's format arithmetic on the returned tables", "K", not kbad, str([pl.short(r["case"]) for r in kbad[:1]])[:500])
    known = [(r, w) for r, w in obad if w.startswith("KNOWN:bool-delta-moments")]
    other = [(r, w) for r, w in obad if not w.startswith("KNOWN:")]
    for r, w in known[:1]:
        res.violations.append({"property": "C14", "what": "size bound violated: " + w, "case": r["case"], "tags": ["bool-delta-moments"]})
    for r, w in other[:3]:
        res.violations.append({"property": "C14", "what": "size bound violated: " + w, "case": r["case"], "tags": ["size-bound"]})
    for r in kbad[:1]:
        res.violations.append({"property": "C14", "what": "real bytes differ from model writer", "case": r["case"], "tags": ["writer-diff"]})
    return lib.finish(
        res,
        "C01-domain cases plus adversarial distributions (uniform over the full range, alternating extremes, dominant value at 79-81% / 89-91% in short runs, thousands of 1-3-value clusters at levels 10-12, all-distinct with n = 2^k-1,2^k,2^k+1), all dtypes, orders 0..7; non-trivial = distinct non-empty case",
        lib.COMMON_TRUSTED, "make -C coq Props/C14.vo && coqc work/Audit_C14.v (Print Assumptions)",
        ["partial: the per-number bound for the table the policy chooses rests on Huffman optimality and f64 cost decisions, which are not modelled; it is tested here, the format arithmetic is proved"])


def replay(path):
    import json
    v = json.load(open(path))
    lib.build_translate(); lib.build_model(); lib.build_harness()
    c = v["case"]
    a = lib.run_impl([pl.compress_query(c)])[0]
    comp = pl.parse_compress(a)
    print("sizes:", check_sizes(c, comp) if comp else a[:300])
    return 0
