"""C05 — incremental input: any split of the bytes into writes decodes identically."""
import random
import lib
from props.common import *
from props import pipeline as pl
from props.files import *
from props.c04 import first_diff


def build(res):
    std_build(res)


def merged_items(ans):
    """item sequence with adjacent number batches merged; errors/panics kept"""
    res = []
    for (o, idx, mut) in split_answer(ans):
        if o.startswith("I N"):
            xs = o.split()[3:]
            if res and res[-1][0] == "N":
                res[-1][1].extend(xs)
            else:
                res.append(["N", list(xs)])
        elif o.startswith("I "):
            res.append([o, None])
        elif o.startswith("err") or o.startswith("panic"):
            res.append([o, None])
    return res


def n_items(f, limit):
    return 3 + 2 * len(f["chunks"]) + sum((len(ch) + limit - 1) // limit for ch in f["chunks"])


def split_query(f, limit, cuts, frees, rng):
    hx = f["hex"]
    L = len(hx) // 2
    pts = [0] + sorted(cuts) + [L]
    total = n_items(f, limit) + 1
    ops = []
    for i, (a, b) in enumerate(zip(pts, pts[1:])):
        ops.append("w:" + (hx[2 * a:2 * b] or "-"))
        last = (i == len(pts) - 2)
        k = total if (last or len(pts) <= 4) else 3
        for j in range(k):
            ops.append("n")
            if frees and rng.random() < 0.15:
                ops.append("f")
    return "rhist %s %d %s" % (f["dt"], limit, " ".join(ops))


def run(res):
    rng = random.Random(res.seed)
    thorough = res.tier == "thorough"
    from props.theorems import THEOREMS
    prove_obligations(res, THEOREMS.get("C05", []))
    files, bad = compressed_files(rng, 500 if thorough else 45, max_n=60)
    sparse, bad2 = compressed_files(rng, 60 if thorough else 8, max_n=1500, shapes=["sparse", "rl_wide", "zipf"], orders=[0, 1], levels=[3, 8])
    gfiles = grammar_files(rng, 100 if thorough else 12)
    res.oblige("K:valid files were produced", "K", not bad and not bad2, str((bad + bad2)[:1])[:300])
    qs, meta = [], []
    for f in files + gfiles + sparse:
        L = len(f["hex"]) // 2
        n = len(flat(f))
        limit = rng.choice([1, 2, 5, 31, 100000])
        if n_items(f, limit) > 300:
            limit = 100000
        base = split_query(f, limit, [], False, rng)
        qs.append(base); meta.append((f, limit, "whole", None))
        if L <= 400:
            for cut in range(0, L + 1):
                qs.append(split_query(f, limit, [cut], rng.random() < 0.3, rng)); meta.append((f, limit, "single", base))
        else:
            for cut in sorted(set([rng.randrange(0, L + 1) for _ in range(40)])):
                qs.append(split_query(f, limit, [cut], rng.random() < 0.3, rng)); meta.append((f, limit, "single", base))
        if L <= 60:
            for a in range(0, L + 1):
                for b in range(a, L + 1, 3):
                    qs.append(split_query(f, limit, [a, b], False, rng)); meta.append((f, limit, "pair", base))
        if L <= 250:
            qs.append(split_query(f, limit, list(range(1, L)), True, rng)); meta.append((f, limit, "bytewise", base))
        for _ in range(6):
            k = rng.randint(2, 8)
            qs.append(split_query(f, limit, [rng.randrange(0, L + 1) for _ in range(k)], True, rng)); meta.append((f, limit, "random-k", base))
    ia = lib.run_impl(qs)
    ma = lib.run_model(qs)
    whole = {}
    for q, a, (f, limit, kind, base) in zip(qs, ia, meta):
        if kind == "whole":
            whole[q] = merged_items(a)
    obad, kbad = [], []
    for q, a, m, (f, limit, kind, base) in zip(qs, ia, ma, meta):
        res.seen(q[:6000], nontrivial=len(flat(f)) > 0)
        res.count("split:" + kind); res.count("origin:" + f["origin"].split(":")[0])
        if a.startswith("panic") or a.startswith("crash"):
            obad.append((q, a, "panic")); continue
        if "!MUTATED" in a:
            obad.append((q, a, "a call that yielded nothing changed the decompressor"))
        elif kind != "whole":
            if merged_items(a) != whole[base]:
                obad.append((q, a, "item sequence differs from writing all bytes first"))
        else:
            want = [x for ch in f["chunks"] for x in ch]
            got = [int(x) for it in merged_items(a) if it[0] == "N" for x in it[1]]
            if got != want or any(it[0].startswith("err") for it in merged_items(a)):
                obad.append((q, a, "whole-file iteration wrong"))
        if a != m:
            kbad.append((q, a, m))
    res.sample({"query": qs[1][:200], "answer": ia[1][:200]})
    res.sample({"query": qs[-1][:200], "answer": ia[-1][:200]})
    res.oblige("O:for every split (all single cuts, cut pairs, byte-at-a-time, random k-cuts, with free_compressed_memory interleaved) the drained items equal those of writing everything first; stops for lack of data change nothing",
               "O", not obad, str([(q[:200], w) for q, a, w in obad[:2]]))
    res.oblige("K:model R == real decompressor stepwise on every split history (outputs and bit positions)", "K", not kbad,
               str([(q[:200], first_diff(a, m)) for q, a, m in kbad[:2]]))
    for q, a, w in obad[:3]:
        res.violations.append({"property": "C05", "what": w, "query": q[:200000], "impl": a[:3000], "tags": ["split-oracle"]})
    for q, a, m in kbad[:2]:
        res.violations.append({"property": "C05", "what": "model and real decompressor disagree: " + first_diff(a, m), "query": q[:200000], "tags": ["split-diff"]})
    return lib.finish(
        res,
        "files <= 400 bytes: every single cut position; files <= 60 bytes: cut pairs; byte-at-a-time; random k-cuts; free_compressed_memory at random points; iterator drained after each piece; item sequences compared after merging adjacent number batches of a chunk (a batch cut short by missing data is allowed to be completed by the next one); non-trivial = distinct history over a non-empty file",
        lib.COMMON_TRUSTED, "make -C coq Props/C05.vo && coqc work/Audit_C05.v (Print Assumptions)",
        ["'identical item sequence' is read modulo the partition of a chunk's numbers into batches, since a batch limited by available data cannot equal the all-at-once batch"])


def replay(path):
    import json
    v = json.load(open(path))
    lib.build_translate(); lib.build_model(); lib.build_harness()
    q = v["query"]
    a, m = lib.run_impl([q])[0], lib.run_model([q])[0]
    print("impl :", a[:1500]); print("model:", m[:1500]); print(first_diff(a, m))
    return 0
