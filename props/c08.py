"""C08 — decompressor calls that fail leave it unchanged; call protocol is enforced."""
import random
import lib
from props.common import *
from props import pipeline as pl
from props.files import *
from props.c04 import first_diff


def build(res):
    std_build(res)


OPS = ["h", "m", "b", "s", "n", "f", "S"]


def mutate(hx, rng):
    b = bytearray.fromhex(hx)
    if not b:
        return hx
    k = rng.choice([1, 1, 2, 3])
    for _ in range(k):
        i = rng.randrange(len(b))
        how = rng.random()
        if how < 0.5:
            b[i] ^= 1 << rng.randrange(8)
        elif how < 0.8:
            b[i] = rng.choice([0, 1, 0x7f, 0x80, 0xff, rng.randrange(256)])
        else:
            del b[i]
            if not b:
                break
    return bytes(b).hex() or "-"


def gen_history(f, rng, corrupt):
    hx = f["hex"]
    if corrupt:
        hx = mutate(hx, rng)
    L = len(hx) // 2 if hx != "-" else 0
    ops = []
    pos = 0
    length = rng.randint(5, 60)
    style = rng.random()
    for _ in range(length):
        r = rng.random()
        if pos < L and r < 0.3:
            k = rng.choice([1, 2, 3, 5, 8, 13, 64, L])
            ops.append("w:" + hx[2 * pos:2 * (pos + k)])
            pos = min(L, pos + k)
        else:
            if style < 0.4:
                ops.append(rng.choice(["n", "n", "n", "f", "m", "h"]))
            elif style < 0.7:
                ops.append(rng.choice(["h", "m", "b", "s", "m", "b"]))
            else:
                ops.append(rng.choice(OPS))
    if rng.random() < 0.7 and pos < L:
        ops.append("w:" + hx[2 * pos:])
        ops += [rng.choice(OPS) for _ in range(rng.randint(1, 12))]
    return ops


def deletion_queries(dt, limit, ops, outs):
    """for each failed call, the same history with that call removed"""
    qs = []
    for i, (o, idx, mut) in enumerate(outs):
        if (o.startswith("err") or o == "none") and not ops[i].startswith("w:"):
            qs.append((i, "rhist %s %d %s" % (dt, limit, " ".join(ops[:i] + ops[i + 1:]))))
    return qs


def run(res):
    rng = random.Random(res.seed)
    thorough = res.tier == "thorough"
    from props.theorems import THEOREMS
    prove_obligations(res, THEOREMS.get("C08", []))
    files, bad = compressed_files(rng, 300 if thorough else 60, max_n=80)
    sparse, _ = compressed_files(rng, 40 if thorough else 8, max_n=1200, shapes=["sparse", "rl_wide", "zipf"], orders=[0, 1], levels=[3, 8])
    gfiles = grammar_files(rng, 120 if thorough else 25)
    pool = files + sparse + gfiles
    nh = 60000 if thorough else 3000
    qs, meta = [], []
    for i in range(nh):
        f = rng.choice(pool)
        limit = rng.choice([1, 2, 3, 30, 100000])
        corrupt = rng.random() < 0.4
        ops = gen_history(f, rng, corrupt)
        qs.append("rhist %s %d %s" % (f["dt"], limit, " ".join(ops))); meta.append((f, limit, ops, corrupt))
    ia = lib.run_impl(qs)
    # histories over corrupted files: a mutant may declare millions of zero-bit numbers, which the
    # list-based model cannot produce in reasonable time; such lines are left to the oracle
    ma = lib.run_model(qs, line_timeout=30)
    res.count("model_timeouts", sum(1 for m in ma if m == "modeltimeout"))
    obad, kbad, proto_bad = [], [], []
    delq, delmeta = [], []
    for q, a, m, (f, limit, ops, corrupt) in zip(qs, ia, ma, meta):
        res.seen(q[:6000])
        res.count("corrupt" if corrupt else "valid"); res.count("origin:" + f["origin"].split(":")[0])
        if a.startswith("panic") or a.startswith("crash"):
            # a panic is C07's subject; here it also breaks atomicity
            obad.append((q, a, "panic")); continue
        outs = split_answer(a)
        prev = 0
        for (o, idx, mut), op in zip(outs, ops):
            failed = o.startswith("err") or o == "none"
            if failed:
                res.count("failed:" + (o if o != "none" else "none-for-lack-of-data"))
            if mut:
                obad.append((q, a, "failed call %s changed the decompressor (Debug rendering differs)" % op)); break
            if failed and idx != prev:
                obad.append((q, a, "failed call %s moved bit_idx %d -> %d" % (op, prev, idx))); break
            prev = idx
        if a != m and m != "modeltimeout":
            kbad.append((q, a, m))
        if rng.random() < (0.25 if not thorough else 0.1):
            for (i, dq) in deletion_queries(f["dt"], limit, ops, outs)[:3]:
                delq.append(dq); delmeta.append((q, i, outs))
    # "as if the failed call had never been made": delete it and compare the rest
    da = lib.run_impl(delq)
    for dq, a2, (q, i, outs) in zip(delq, da, delmeta):
        res.seen(dq[:6000])
        if a2.startswith("panic"):
            continue
        o2 = split_answer(a2)
        want = outs[:i] + outs[i + 1:]
        if [(x[0], x[1]) for x in o2] != [(x[0], x[1]) for x in want]:
            obad.append((q, "", "deleting failed call #%d changes later behaviour" % i))
    # protocol: out-of-order calls are InvalidArgument
    pq = []
    for f in pool[:40]:
        hx, dt = f["hex"], f["dt"]
        pq += [("rhist %s 100 w:%s h h" % (dt, hx), 2, "second header"),
               ("rhist %s 100 w:%s m" % (dt, hx), 1, "metadata before header"),
               ("rhist %s 100 w:%s b" % (dt, hx), 1, "body before metadata"),
               ("rhist %s 100 w:%s s" % (dt, hx), 1, "skip before metadata"),
               ("rhist %s 100 w:%s h b" % (dt, hx), 2, "body outside chunk"),
               ("rhist %s 100 w:%s h s" % (dt, hx), 2, "skip outside chunk")]
        if len(f["chunks"]) >= 1:
            pq.append(("rhist %s 100 w:%s h m m" % (dt, hx), 3, "metadata inside a body"))
        k = 4 + 3 * len(f["chunks"]) + len(flat(f))
        pq.append(("rhist %s 100 w:%s %s h" % (dt, hx, " ".join(["n"] * k)), k + 1, "header after footer"))
        pq.append(("rhist %s 100 w:%s %s m" % (dt, hx, " ".join(["n"] * k)), k + 1, "metadata after footer"))
        pq.append(("rhist %s 100 w:%s %s b" % (dt, hx, " ".join(["n"] * k)), k + 1, "body after footer"))
        pq.append(("rhist %s 100 w:%s %s S" % (dt, hx, " ".join(["n"] * k)), k + 1, "simple_decompress after footer"))
    pa = lib.run_impl([x[0] for x in pq])
    pm = lib.run_model([x[0] for x in pq])
    for (q, pos, what), a, m in zip(pq, pa, pm):
        res.seen(q[:3000])
        outs = split_answer(a) if not a.startswith("panic") else []
        if len(outs) <= pos or outs[pos][0] != "err InvalidArgument":
            proto_bad.append((q, a, what))
        if a != m:
            kbad.append((q, a, m))
    # retry: a call that failed for lack of data succeeds once the bytes arrive
    rq = []
    for f in pool[:60]:
        hx, dt = f["hex"], f["dt"]
        L = len(hx) // 2
        for cut in sorted(set([rng.randrange(0, L) for _ in range(4)])):
            rq.append(("rhist %s 100 w:%s S w:%s S" % (dt, hx[:2 * cut] or "-", hx[2 * cut:]), f))
    ra = lib.run_impl([x[0] for x in rq])
    retry_bad = []
    for (q, f), a in zip(rq, ra):
        res.seen(q[:3000])
        outs = split_answer(a) if not a.startswith("panic") else []
        want = "N " + pl.nums_str(flat(f))
        if len(outs) != 4 or outs[1][0] != "err InsufficientData" or outs[3][0].strip() != want.strip():
            retry_bad.append((q, a))
    res.sample({"query": qs[0][:250], "answer": ia[0][:250]})
    res.sample({"query": qs[1][:250], "answer": ia[1][:250]})
    res.oblige("O:every call that returns an error or None-for-lack-of-data leaves bit_idx and the Debug rendering unchanged, and deleting it changes no later result",
               "O", not obad, str([(q[:200], w) for q, a, w in obad[:2]]))
    res.oblige("O:out-of-order calls are rejected with InvalidArgument", "O", not proto_bad, str([(q[:120], w, a[-80:]) for q, a, w in proto_bad[:2]]))
    res.oblige("O:simple_decompress that failed for lack of data succeeds after the missing bytes are written", "O", not retry_bad, str([(q[:150], a[:100]) for q, a in retry_bad[:2]]))
    res.oblige("K:model R.step == real decompressor on every history (valid, truncated and corrupted files), stepwise with bit positions", "K", not kbad,
               str([(q[:200], first_diff(a, m)) for q, a, m in kbad[:2]]))
    for q, a, w in obad[:3]:
        tags = ["atomicity"] + (["panic"] if w == "panic" else [])
        res.violations.append({"property": "C08", "what": w, "query": q[:200000], "impl": a[:3000], "tags": tags})
    for q, a, w in proto_bad[:2]:
        res.violations.append({"property": "C08", "what": "protocol not enforced: " + w, "query": q[:200000], "impl": a[:2000], "tags": ["protocol"]})
    for q, a in retry_bad[:2]:
        res.violations.append({"property": "C08", "what": "retry after missing bytes arrived does not succeed", "query": q[:200000], "impl": a[:2000], "tags": ["retry"]})
    for q, a, m in kbad[:2]:
        res.violations.append({"property": "C08", "what": "model and real decompressor disagree: " + first_diff(a, m), "query": q[:200000], "tags": ["history-diff"]})
    return lib.finish(
        res,
        "random histories (5-70 calls) over write(k bytes)/header/chunk_metadata/chunk_body/skip_chunk_body/next/free_compressed_memory/simple_decompress on valid files and on files with bit flips, byte substitutions and deletions, at every amount of data; after each failed call bit_idx and the Debug rendering are compared with before, and a sample of failed calls is deleted and the history re-run; non-trivial = distinct history",
        lib.COMMON_TRUSTED, "make -C coq Props/C08.vo && coqc work/Audit_C08.v (Print Assumptions)",
        ["Debug rendering is taken as the observable state of the real decompressor"])


def replay(path):
    import json
    v = json.load(open(path))
    lib.build_translate(); lib.build_model(); lib.build_harness()
    q = v["query"]
    a, m = lib.run_impl([q])[0], lib.run_model([q])[0]
    print("impl :", a[:1500]); print("model:", m[:1500]); print(first_diff(a, m))
    return 0
