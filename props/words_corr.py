"""Correspondence of the 64-bit-word level: the real BitWriter / BitWords / BitReader /
CompressionTable (through the verif hooks and their public methods) against the extracted
Coq transcription Model/Words.v, on operation scripts run line by line on both sides.

Command grammar (identical in harness/src/unit_cmds.rs and ocaml/driver.ml):

  wordops <wop>* | <bwop>* <rop>*
    writer ops (one BitWriter::default()):
      o | z            write_one(true | false)
      w:<01s|->        write(&[bool])
      u:<n>:<x>        write_usize(x, n)            n <= 64, x < 2^64 (only the low n bits count)
      d:<n>:<x>        write_diff::<u128>(x, n)     n <= 128, x < 2^128
      D:<n>:<x>        write_diff::<u64>(x, n)      n <= 64, x < 2^64
      v:<x>:<j>        write_varint(x, j)           (x > MAX_ENTRIES panics: event p<k>)
      f                finish_byte
      a:<hex|->        write_aligned_bytes          (misaligned: event e<k>:InvalidArgument, writer unchanged)
      O:<idx>:<x>:<n>  overwrite_usize(idx, x, n)   only with idx + n <= bit size
      q                event q<k>:<bit_size>/<byte_size>
    then bit_size is recorded, finish_byte, drain_bytes; BitWords::from(bytes); then
    BitWords ops (before the reader exists):
      x:<hex|->        extend_bytes        answer x@<total bits>
      t:<k>            truncate_left(k)    answer t@<total bits>     only with 64 k <= total bits
    reader ops (one BitReader over the words), each answered <result>@<bit_idx>:
      1                read_one                       0 | 1
      b:<n>            read(n)                        01-string | -
      r:<n>            read_diff::<u128>(n)           decimal        n <= 128
      R:<n>            read_diff::<u64>(n)            decimal        n <= 64
      U:<n> | V:<n>    unchecked_read_diff::<u128 | u64>(n)          only inside the words
      s:<n> | S:<idx>  seek(n) | seek_to(idx)         s | S          only up to total bits
      A:<n>            read_aligned_bytes(n)          hex | -
    errors are answered by their kind (InsufficientData, InvalidArgument); a panic of one op
    (both sides keep the state) by `panic`.
  answer:  <bit size> <hex|-> <events joined by , | ok> ; <result>@<bit_idx> ... | -

  ctsearch <dt> <np> (<count> <lower_u> <upper_u>)*np <nq> <q_u>*nq        dt in u16 u32 u64 u128
  answer:  <shape> ; (<lower>-<upper> | none)*nq          shape = L(lower,upper) | N[upper:shape ...]

BitReader::drain_empty_byte and everything else that is crate-private without a hook is not
reachable from the harness and therefore not part of the scripts."""
import random
import lib

MAX_ENTRIES = (1 << 24) - 1


# ------------------------------------------------------------------ script builders
class WScript:
    """Writer half of a script; keeps the bit list the writer must hold (bit-list contract:
    writes append, finish_byte pads with zeros, overwrite ORs)."""

    def __init__(self):
        self.ops = []
        self.bits = []

    @property
    def pos(self):
        return len(self.bits)

    def _put(self, x, n):
        self.bits += [(x >> (n - 1 - i)) & 1 for i in range(n)]

    def one(self, b):
        self.ops.append("o" if b else "z"); self.bits.append(1 if b else 0)

    def raw(self, rng, n):
        """n arbitrary bits through one of the equivalent ways of writing them"""
        if n == 0:
            return
        x = rng.getrandbits(n)
        how = rng.randrange(4)
        if how == 0 and n <= 64:
            self.ops.append("u:%d:%d" % (n, x)); self._put(x, n)
        elif how == 1:
            self.ops.append("w:" + format(x, "0%db" % n)); self._put(x, n)
        elif how == 2 and n <= 128:
            self.ops.append("d:%d:%d" % (n, x)); self._put(x, n)
        else:
            for i in range(n):
                self.one((x >> (n - 1 - i)) & 1)

    def num(self, kind, n, x):
        self.ops.append("%s:%d:%d" % (kind, n, x)); self._put(x & ((1 << n) - 1) if n else 0, n)

    def varint(self, x, j):
        self.ops.append("v:%d:%d" % (x, j))
        if x > MAX_ENTRIES:
            return
        self._put(x & ((1 << j) - 1) if j else 0, j)
        x >>= j
        for _ in range(j, 24):
            if x > 0:
                self.bits += [1, x & 1]; x >>= 1
            else:
                self.bits.append(0); break

    def finish(self):
        self.ops.append("f"); self.bits += [0] * ((-len(self.bits)) % 8)

    def aligned(self, bs):
        self.ops.append("a:" + (bytes(bs).hex() or "-"))
        if len(self.bits) % 8 == 0:
            for b in bs:
                self._put(b, 8)

    def overwrite(self, idx, x, n):
        assert idx + n <= len(self.bits)
        self.ops.append("O:%d:%d:%d" % (idx, x, n))
        for i in range(n):
            self.bits[idx + i] |= (x >> (n - 1 - i)) & 1

    def q(self):
        self.ops.append("q")

    def nbytes(self):
        return (len(self.bits) + 7) // 8

    def expect(self):
        b = self.bits + [0] * ((-len(self.bits)) % 8)
        hx = bytes(int("".join(map(str, b[i:i + 8])), 2) for i in range(0, len(b), 8)).hex() or "-"
        return "%d %s" % (len(self.bits), hx)


class RScript:
    """Reader half: tracks total bits, number of words and position so that only the ops the
    grammar allows are issued."""

    def __init__(self, nbytes):
        self.T = 8 * nbytes
        self.pos = 0
        self.ops = []
        self.started = False
        self.can_b0 = False

    @property
    def W(self):
        return (self.T + 63) // 64

    def _start(self):
        if not self.started:
            self.started = True
            self.can_b0 = self.W > 0

    def extend(self, bs):
        assert not self.started
        self.ops.append("x:" + (bytes(bs).hex() or "-")); self.T += 8 * len(bs)

    def trunc(self, k):
        assert not self.started and 64 * k <= self.T
        self.ops.append("t:%d" % k); self.T -= 64 * k

    def one(self):
        self._start(); self.ops.append("1")
        if self.pos + 1 <= self.T:
            self.pos += 1; self.can_b0 = True

    def bits(self, n):
        self._start()
        if n == 0 and not self.can_b0:
            return          # read(0) indexes words[i] before the loop: panics at the end of the words
        self.ops.append("b:%d" % n)
        if self.pos + n <= self.T:
            self.pos += n

    def diff(self, n, kind="r"):
        self._start(); self.ops.append("%s:%d" % (kind, n))
        if self.pos + n <= self.T:
            self.pos += n
            if n: self.can_b0 = True

    def unchecked(self, n, kind="U"):
        self._start()
        if self.pos + n > 64 * self.W:
            return False
        self.ops.append("%s:%d" % (kind, n)); self.pos += n
        if n: self.can_b0 = True
        return True

    def seek(self, n):
        self._start()
        if self.pos + n <= self.T:
            self.ops.append("s:%d" % n); self.pos += n; self.can_b0 = False

    def seek_to(self, p):
        self._start()
        if p <= self.T:
            self.ops.append("S:%d" % p); self.pos = p; self.can_b0 = False

    def goto(self, rng, p):
        if p >= self.pos and rng.random() < 0.5:
            self.seek(p - self.pos)
        else:
            self.seek_to(p)

    def aligned(self, n):
        self._start(); self.ops.append("A:%d" % n); self.can_b0 = False
        if self.pos % 8 == 0 and self.pos // 8 + n <= (self.T + 7) // 8:
            self.pos += 8 * n

    def read_back(self, rng):
        """read everything from the current position"""
        how = rng.randrange(4)
        left = self.T - self.pos
        if left <= 0:
            self.one(); return
        if how == 0:
            self.bits(left)
        elif how == 1 and self.pos % 8 == 0:
            self.aligned(left // 8)
        elif how == 2:
            while self.T - self.pos > 0:
                self.diff(min(64, self.T - self.pos), "R")
        else:
            while self.T - self.pos > 0:
                self.diff(min(rng.choice([128, 128, 127, 65, 64]), self.T - self.pos), "r")
        self.one()      # InsufficientData at the end


def _line(w, r):
    return "wordops " + " ".join(w.ops + ["|"] + r.ops)


def _value(rng, kind, n, tbits):
    if kind == "ones": return (1 << tbits) - 1              # more than n bits set
    if kind == "top": return (1 << (n - 1)) if n else 0
    if kind == "wide": return rng.getrandbits(tbits)        # arbitrary high bits above n
    if kind == "zero": return 0
    return rng.getrandbits(n) if n else 0


KINDS = ["ones", "top", "rand", "wide", "zero"]


def _content(rng, kind, nbytes):
    if kind == "ones": return [255] * nbytes
    if kind == "sparse": return [rng.choice([0, 0, 0, 1, 128, 16]) for _ in range(nbytes)]
    if kind == "zero": return [0] * nbytes
    return [rng.randrange(256) for _ in range(nbytes)]


def _fill(rng, w, bs):
    """make the writer hold exactly the bytes bs (aligned bytes, or wide diffs)"""
    if rng.random() < 0.6 or not bs:
        w.aligned(bs)
    else:
        i = 0
        while i < len(bs):
            k = min(rng.choice([16, 8, 5, 3, 1]), len(bs) - i)
            w.num("d", 8 * k, int.from_bytes(bytes(bs[i:i + k]), "big")); i += k


# ------------------------------------------------------------------ writer scripts
def writer_scripts(rng, thorough):
    out = []
    reps = 10 if thorough else 1

    def done(w, tag):
        r = RScript(w.nbytes())
        r.read_back(rng)
        out.append((tag, _line(w, r), w.expect()))

    # every alignment 0..63 before a write of every boundary width, all value kinds
    for rep in range(reps):
        for a in range(64):
            for ni, n in enumerate([0, 1, 2, 7, 8, 9, 31, 32, 33, 63, 64]):
                w = WScript(); w.raw(rng, a)
                kind = KINDS[(a + ni + rep) % 5]
                w.num(rng.choice("uD"), n, _value(rng, kind, n, 64))
                if rng.random() < 0.5: w.q()
                w.raw(rng, rng.choice([0, 1, 1, 5, 64, 70]))
                done(w, "align-u")
            for ni, n in enumerate([0, 1, 63, 64, 65, 127, 128, rng.randint(2, 126)]):
                w = WScript(); w.raw(rng, a + 64 * rng.randrange(2))
                kind = KINDS[(a + ni + rep) % 5]
                w.num("d", n, _value(rng, kind, n, 128))
                if rng.random() < 0.5: w.q()
                w.raw(rng, rng.choice([0, 1, 1, 5, 64, 130]))
                done(w, "align-d")
    # varints: every jumpstart, boundary values, several alignments
    for rep in range(reps):
        for j in range(25):
            xs = sorted(set([0, 1, 2, ((1 << j) - 1) & MAX_ENTRIES, (1 << j) & MAX_ENTRIES, ((1 << j) + 1) & MAX_ENTRIES,
                             1 << 23, MAX_ENTRIES, MAX_ENTRIES - 1] + [rng.getrandbits(rng.randint(1, 24)) for _ in range(4)]))
            for a in (rng.randrange(64), rng.randrange(64), 63 - j % 8):
                w = WScript(); w.raw(rng, a)
                for x in rng.sample(xs, len(xs)):
                    w.varint(x, j)
                done(w, "varint")
        w = WScript(); w.raw(rng, rng.randrange(64)); w.varint(MAX_ENTRIES + 1 + rng.randrange(3), rng.randrange(25)); w.varint(5, 3)
        done(w, "varint-too-big")
    # overwrite_usize: 32-bit zero placeholder at every alignment (straddling words from 33 on), then
    # over non-zero bits (the real code only sets bits), then other widths
    for rep in range(reps):
        for a in range(64):
            for mode in ("zero", "nonzero", "width"):
                w = WScript(); base = a + 64 * rng.randrange(3); w.raw(rng, base)
                n = 32 if mode != "width" else rng.choice([0, 1, 2, 31, 33, 63, 64, rng.randint(1, 64)])
                w.num("u", n, 0 if mode == "zero" else rng.getrandbits(64))
                w.raw(rng, rng.choice([0, 0, 3, 40, 64, 100]))
                if rng.random() < 0.3: w.finish()
                x = _value(rng, rng.choice(KINDS), n, 64)
                w.overwrite(base, x, n)
                if rng.random() < 0.4:
                    w.raw(rng, rng.randrange(70))
                    k = rng.randint(0, min(64, w.pos)); w.overwrite(rng.randint(0, w.pos - k), rng.getrandbits(64), k)
                done(w, "overwrite-" + mode)
    # write_aligned_bytes at aligned and misaligned positions
    for rep in range(reps):
        for a in range(64):
            w = WScript(); w.raw(rng, a + 64 * rng.randrange(2))
            w.aligned(_content(rng, "rand", rng.choice([0, 1, 2, 7, 8, 9, 15, 16, 17, 20])))
            w.q(); w.finish()
            w.aligned(_content(rng, rng.choice(["rand", "ones"]), rng.randrange(20)))
            w.one(rng.random() < 0.5)
            w.aligned(_content(rng, "rand", rng.randrange(4)))
            w.raw(rng, rng.randrange(9))
            done(w, "aligned-bytes")
    # mixed scripts
    for _ in range(250 * reps):
        w = WScript()
        for _ in range(rng.randint(0, 25)):
            c = rng.randrange(12)
            if c < 3: w.raw(rng, rng.choice([1, 1, 2, 7, 8, 31, 33, 64, 65, rng.randint(0, 140)]))
            elif c == 3: n = rng.randint(0, 64); w.num(rng.choice("uD"), n, _value(rng, rng.choice(KINDS), n, 64))
            elif c == 4: n = rng.randint(0, 128); w.num("d", n, _value(rng, rng.choice(KINDS), n, 128))
            elif c == 5: w.varint(rng.getrandbits(rng.randint(0, 24)), rng.randrange(25))
            elif c == 6: w.finish()
            elif c == 7: w.aligned(_content(rng, "rand", rng.randrange(12)))
            elif c == 8: w.q()
            elif c == 9 and w.pos:
                k = rng.randint(0, min(64, w.pos)); w.overwrite(rng.randint(0, w.pos - k), rng.getrandbits(64), k)
            else: w.one(rng.random() < 0.5)
        done(w, "mixed")
    return out


# ------------------------------------------------------------------ reader scripts
R_WIDTHS = {"r": [0, 1, 63, 64, 65, 127, 128], "U": [0, 1, 63, 64, 65, 127, 128],
            "R": [0, 1, 2, 8, 31, 32, 33, 63, 64], "V": [0, 1, 2, 8, 31, 32, 33, 63, 64],
            "b": [1, 7, 8, 9, 63, 64, 65, 130]}


def _rop(r, op, n):
    if op in "rR": r.diff(n, op)
    elif op in "UV": r.unchecked(n, op)
    elif op == "b": r.bits(n)
    elif op == "A": r.aligned(n)
    else: r.one()


def reader_scripts(rng, thorough):
    out = []
    reps = 10 if thorough else 1

    def start(bs):
        w = WScript(); _fill(rng, w, bs)
        return w, RScript(len(bs))

    for rep in range(reps):
        # every width of every read at every alignment (first and later words)
        for a in range(64):
            for ck in ("rand", "ones", "sparse"):
                w, r = start(_content(rng, ck, rng.choice([45, 48, 50])))
                plan = [(op, n) for op, ws in R_WIDTHS.items() for n in ws] + [("1", 0)]
                rng.shuffle(plan)
                for op, n in plan:
                    r.goto(rng, a + 64 * rng.randrange(2))
                    _rop(r, op, n)
                    if op == "b" and rng.random() < 0.3: r.bits(0)
                out.append(("align-read", _line(w, r), w.expect()))
        # running out of data at each kind of op, k bits before the end
        for L in (0, 1, 2, 7, 8, 9, 15, 16, 17, 23, 24, 25, 32):
            for k in (0, 1, 7, 8, 63, 64, 65, 127, 128):
                if k > 8 * L: continue
                for ck in ("rand", "ones", "zero"):
                    w, r = start(_content(rng, ck, L))
                    T = 8 * L
                    plan = [("1", 0)] if k <= 1 else []
                    for op, lim in (("b", 200), ("r", 128), ("R", 64)):
                        plan += [(op, n) for n in (k, k + 1, k + 2, lim) if n <= lim and not (op == "b" and n == 0)]
                    if k % 8 == 0:
                        plan += [("A", k // 8), ("A", k // 8 + 1), ("A", k // 8 + 9)]
                    rng.shuffle(plan)
                    for op, n in plan:
                        r.goto(rng, T - k)
                        _rop(r, op, n)
                        r.one()
                    out.append(("run-out", _line(w, r), w.expect()))
        # read_aligned_bytes: misaligned, exact, too long; after a read ending at j = 64
        for a in range(64):
            for ck in ("rand", "sparse"):
                L = rng.randint(9, 30)
                w, r = start(_content(rng, ck, L))
                for _ in range(6):
                    p = a + 64 * rng.randrange((8 * L - a) // 64 + 1)
                    if p > 8 * L: p = a
                    r.goto(rng, p)
                    rem = L - p // 8
                    r.aligned(rng.choice([0, 1, 7, 8, 9, max(rem, 0), rem + 1, rng.randint(0, rem + 2)]))
                    if rng.random() < 0.5: r.one()
                out.append(("aligned-read", _line(w, r), w.expect()))
        for L in range(8, 26):
            w, r = start(_content(rng, "rand", L))
            r.diff(64, rng.choice("rR")); r.aligned(rng.choice([0, 1, L - 8, L - 7])); r.one()
            r.seek_to(0); r.bits(64); r.aligned(L); r.bits(1); r.aligned(0)
            r.seek_to(0); r.unchecked(64, "V"); r.aligned(L - 8); r.aligned(1); r.one()
            out.append(("aligned-after-word-end", _line(w, r), w.expect()))
        # BitWords: extend_bytes at every byte alignment, truncate_left, extend again
        for _ in range(220):
            w, r = start(_content(rng, "rand", rng.choice([0, 0, 1, 3, 7, 8, 9, 15, 16, 17, rng.randint(0, 40)])))
            for _ in range(rng.randint(1, 5)):
                c = rng.randrange(5)
                if c < 3:
                    r.extend(_content(rng, rng.choice(["rand", "ones"]), rng.choice([0, 1, 2, 7, 8, 9, 15, 16, 17, rng.randint(0, 30)])))
                elif r.T >= 64:
                    r.trunc(rng.randint(0, r.T // 64))
                else:
                    r.trunc(0)
            r.read_back(rng)
            out.append(("bitwords", _line(w, r), w.expect()))
        # unchecked reads running into the zero padding of the last word
        for L in range(1, 33):
            for ck in ("rand", "ones"):
                w, r = start(_content(rng, ck, L))
                T, W = 8 * L, (8 * L + 63) // 64
                for _ in range(4):
                    r.seek_to(rng.randint(max(0, T - 70), T))
                    kind = rng.choice("UV")
                    r.unchecked(rng.randint(0, min(64 * W - r.pos, 128 if kind == "U" else 64)), kind)
                    _rop(r, rng.choice("1rRA"), rng.randint(1, 9))
                out.append(("unchecked-padding", _line(w, r), w.expect()))
        # read_prefix_table_idx (Huff.v): strides of 1..6 bits at every position near the word boundaries
        # and near the end of the data (the three alignment cases, incl. the one leaving the position a word too far)
        for L in list(range(1, 18)) + [23, 24, 25]:
            for ck in ("rand", "ones"):
                w, r = start(_content(rng, ck, L))
                T = 8 * L
                r._start()
                cand = sorted(set([0, 1, T - 1] + [p for b in (64, 128, 192) for p in range(b - 7, b + 2)] + list(range(max(0, T - 8), T + 1))
                                  + [rng.randrange(T) for _ in range(6)]))
                for p0 in cand:
                    if 0 <= p0 <= T:
                        n = rng.randint(1, 6)
                        r.ops.append("S:%d" % p0); r.ops.append("T:%d" % n)
                        if rng.random() < 0.3:
                            r.ops.append("T:%d" % rng.randint(1, 6))     # a second stride from wherever the first one left the reader
                r.ops.append("S:0"); r.pos = 0; r.can_b0 = False
                out.append(("table-idx", _line(w, r), w.expect()))
    # mixed scripts: arbitrary writer content (bit granular, zero padded), arbitrary reader ops
    for _ in range(560 * reps):
        w = WScript()
        for _ in range(rng.randint(0, 6)):
            c = rng.randrange(4)
            if c == 0: w.raw(rng, rng.randint(0, 140))
            elif c == 1 and w.pos % 8 == 0: w.aligned(_content(rng, rng.choice(["rand", "ones", "sparse"]), rng.randrange(24)))
            elif c == 2: w.finish()
            else: w.num("d", 128, rng.getrandbits(128))
        r = RScript(w.nbytes())
        for _ in range(rng.randint(1, 30)):
            c = rng.randrange(10)
            if c == 0: r.one()
            elif c == 1: r.bits(rng.choice([0, 1, 3, 8, 64, 65, rng.randint(0, 150)]))
            elif c == 2: r.diff(rng.randint(0, 128), "r")
            elif c == 3: r.diff(rng.randint(0, 64), "R")
            elif c == 4: r.unchecked(rng.randint(0, 128), "U")
            elif c == 5: r.unchecked(rng.randint(0, 64), "V")
            elif c == 6: r.seek(rng.choice([0, 1, 7, 8, 64, rng.randint(0, 100)]))
            elif c == 7: r.seek_to(rng.randint(0, max(r.T, 1)))
            elif c == 8: r.aligned(rng.choice([0, 1, 2, 8, 9, rng.randint(0, 30)]))
            else: r.seek_to((rng.randint(0, max(r.T, 1)) // 8) * 8)
        if not r.ops: r.one()
        out.append(("mixed", _line(w, r), w.expect()))
    return out


# ------------------------------------------------------------------ table queries
def table_queries(rng, thorough):
    out = []
    reps = 10 if thorough else 1
    sizes = [0, 1, 2, 3, 15, 16, 17, 40, 300]
    for rep in range(reps):
        plan = [(np, dt, skew) for np in sizes for dt in ("u16", "u32", "u64", "u128")
                for skew in ("ones", "huge", "random", "geometric")]
        plan += [(rng.randint(2, 120), rng.choice(["u16", "u32", "u64", "u128"]),
                  rng.choice(["ones", "huge", "random", "geometric", "two-huge"])) for _ in range(156)]
        for np, dt, skew in plan:
            wbits = int(dt[1:]); umax = (1 << wbits) - 1
            # disjoint ranges in increasing order, with gaps, touching neighbours and single points
            layout = rng.choice(["spread", "dense", "low", "high"])
            span = {"spread": umax, "dense": min(umax, 4 * np + 8), "low": min(umax, 1 << 12), "high": umax}[layout]
            pts = sorted(rng.sample(range(span + 1), 2 * np)) if span < (1 << 20) else sorted(set(rng.randint(0, span) for _ in range(2 * np + 8)))[:2 * np]
            while len(pts) < 2 * np:
                pts = sorted(set(pts + [rng.randint(0, span)]))[:2 * np]
            if layout == "high":
                pts = [umax - p for p in reversed(pts)]
            rngs = []
            for i in range(np):
                lo, up = pts[2 * i], pts[2 * i + 1]
                c = rng.randrange(6)
                if c == 0: lo = up                                   # single point
                elif c == 1 and i > 0: lo = rngs[-1][1] + 1          # touches the previous range
                rngs.append((lo, up))
            if np and rng.random() < 0.3: rngs[0] = (0, rngs[0][1])
            if np and rng.random() < 0.3: rngs[-1] = (rngs[-1][0], umax)
            if np > 2 and rng.random() < 0.1:
                # overlapping ranges (uppers stay distinct): the lookup is by upper bound only
                i = rng.randrange(1, np); rngs[i] = (rngs[i - 1][0], rngs[i][1])
            if skew == "ones": counts = [1] * np
            elif skew == "huge":
                counts = [1] * np
                if np: counts[rng.randrange(np)] = rng.choice([1 << 20, 1 << 40, (1 << 58) - np])
            elif skew == "two-huge":
                counts = [rng.choice([1, 1, 2]) for _ in range(np)]
                for _ in range(2): counts[rng.randrange(np)] = 1 << rng.randint(10, 50)
            elif skew == "geometric": counts = [1 << min(i, 50) for i in range(np)]; rng.shuffle(counts)
            else: counts = [rng.choice([1, 1, 2, 3, 10, 100, rng.randint(1, 1 << 20)]) for _ in range(np)]
            ps = [(c, lo, up) for c, (lo, up) in zip(counts, rngs)]
            rng.shuffle(ps)
            qs = set([0, umax, 1, umax - 1])
            for lo, up in rngs:
                qs.update(x for x in (lo, up, lo - 1, up + 1, (lo + up) // 2) if 0 <= x <= umax)
            qs = sorted(qs); rng.shuffle(qs)
            q = "ctsearch %s %d %s %d %s" % (dt, np, " ".join("%d %d %d" % p for p in ps), len(qs), " ".join(map(str, qs)))
            out.append(("np%d-%s" % (np if np in sizes else -1, skew), " ".join(q.split()), None))
    return out


# ------------------------------------------------------------------ the check
OBLIGATION = {
    "writer": "K:64-bit-word BitWriter (write_one/write/write_usize/write_diff/write_varint/write_aligned_bytes/finish_byte/overwrite_usize/bit_size/byte_size/drain_bytes) == Words.v model on operation scripts (every alignment 0..63, widths around 0/1/63/64/65/127/128, all jumpstarts, overwrites at every alignment)",
    "reader": "K:64-bit-word BitWords/BitReader (from bytes/extend_bytes/truncate_left; read_one/read/read_diff/unchecked_read_diff/seek/seek_to/read_aligned_bytes with bit_idx after every op, errors included) == Words.v model on operation scripts",
    "table": "K:CompressionTable (From<&[Prefix]> tree shape and search) == Words.v ct_from_sorted/ct_search on 0..300 prefixes with skewed counts, queried at every range boundary",
}
GEN = {"writer": writer_scripts, "reader": reader_scripts, "table": table_queries}


def run_words_corr(res, rng, thorough, parts=("writer", "reader", "table")):
    for part in parts:
        cases = GEN[part](rng, thorough)
        qs = [c[1] for c in cases]
        ia, ma = lib.run_impl(qs), lib.run_model(qs)
        bad = []
        for (tag, q, want), a, m in zip(cases, ia, ma):
            res.seen("words:" + q[:300])
            res.count("words:%s:%s" % (part, tag))
            if a != m:
                bad.append(("real code and Words.v model disagree", q, a, m))
            elif a.startswith(("crash", "panic", "modelerror")) or " ; " not in a:
                bad.append(("malformed answer", q, a, m))
            elif want is not None and " ".join(a.split()[:2]) != want:
                bad.append(("bit size / bytes differ from the bit-list contract " + want[:200], q, a, m))
        res.count("words:" + part, len(cases))
        res.oblige(OBLIGATION[part], "K", not bad, str([(b[0], b[1][:300], b[2][:200], b[3][:200]) for b in bad[:2]])[:1200])
        for what, q, a, m in bad[:3]:
            res.violations.append({"property": res.prop, "what": "word level (%s): %s" % (part, what), "query": q[:20000],
                                   "impl": a[:20000], "model": m[:20000], "tags": ["words-diff"]})
