"""C13 — automatic configuration is total and its output round-trips."""
import random, sys, os
sys.path.insert(0, os.path.join(os.path.dirname(os.path.abspath(__file__)), "..", "gen"))
import numgen
import lib
from props.common import *
from props import pipeline as pl


def build(res):
    std_build(res, release=True)


def run(res):
    rng = random.Random(res.seed)
    thorough = res.tier == "thorough"
    from props.theorems import THEOREMS
    prove_obligations(res, THEOREMS.get("C13", []))
    cases = []
    for dt in lib.DTYPES:
        for n in list(range(0, 10)) + [999, 1000, 1001]:
            for level in (0, 6, 7, 12):
                xs = numgen.gen(dt, rng.choice(["uniform", "poly", "walk", "constant"]), n, rng) if n else []
                cases.append((dt, level, xs))
    for _ in range(4000 if thorough else 300):
        dt = rng.choice(lib.DTYPES)
        shape = rng.choice(numgen.SHAPES)
        n = rng.choice([rng.randint(10, 1001), rng.randint(10, 300), rng.randint(1001, 5000)])
        cases.append((dt, rng.randint(0, 12), numgen.gen(dt, shape, n, rng)))
    # very smooth data, for which the chooser goes up to the highest orders (6, 7)
    import math
    for dt in ["i64", "i128", "u64", "i32", "f64", "tsnanos", "u128"]:
        lo, hi = numgen.raw_range(dt)
        for deg in (5, 6, 7, 8, 9):
            for n in (60, 200, 1000, 1500):
                xs = []
                for i in range(n):
                    v = i ** deg
                    if dt[0] == "f":
                        import struct
                        v = struct.unpack(">Q", struct.pack(">d", float(v)))[0]
                    v = max(lo, min(hi, v))
                    xs.append(v)
                cases.append((dt, rng.randint(0, 12), xs))
        if dt[0] != "f":
            amp = min(hi, 10 ** 18)
            cases.append((dt, 8, [max(lo, min(hi, int(round(amp / 2 + amp / 2.5 * math.sin(i / 50.0))))) for i in range(3000)]))
    if thorough:
        for _ in range(6):
            dt = rng.choice(["i32", "f64", "u16", "i64"])
            cases.append((dt, rng.randint(0, 12), numgen.gen(dt, rng.choice(["poly", "walk", "uniform"]), 100000, rng)))
    q = ["auto %s %d %s" % (dt, level, pl.nums_str(xs)) for dt, level, xs in cases]
    sq = ["autosizes %s %d %s" % (dt, level, pl.nums_str(xs)) for dt, level, xs in cases]
    a = lib.run_impl(q)
    ar = lib.run_impl(q[::4], release=True)
    sz = lib.run_impl(sq)
    obad = []
    dq, dmeta = [], []
    for (dt, level, xs), qq, ans, s in zip(cases, q, a, sz):
        res.seen(qq[:5000], nontrivial=True)
        res.count("len:" + ("0" if not xs else "1-9" if len(xs) < 10 else "10-1001" if len(xs) <= 1001 else ">1001")); res.count("dtype:" + dt)
        t = ans.split()
        if t[0] != "ok":
            obad.append((qq, ans, "auto_compressor_config/auto_compress did not return: " + ans[:120])); continue
        lvl, order, gcds, hx = int(t[1]), int(t[2]), int(t[3]), t[4]
        res.count("chosen_order:%d" % order)
        if lvl != level or not (0 <= order <= 7) or gcds != 1:
            obad.append((qq, ans, "returned configuration is not (level, order in 0..=7, use_gcds)")); continue
        # the chooser's rule: first order whose trial size does not improve stops the search
        st = s.split()[1:]
        if xs and "err" not in st:
            sizes = [int(x) for x in st]
            best, bo = None, None
            for o, v in enumerate(sizes):
                if best is None or v < best:
                    best, bo = v, o
                else:
                    break
            if bo != order:
                obad.append((qq, ans, "chosen order %d is not the first local minimum of the trial sizes %s" % (order, sizes))); continue
        dq.append("rdec %s %s" % (dt, hx)); dmeta.append((qq, xs))
    da = lib.run_impl(dq)
    dm = lib.run_model(dq)
    kbad = []
    for qq2, ans, m, (qq, xs) in zip(dq, da, dm, dmeta):
        if ans.strip() != ("ok " + pl.nums_str(xs)).strip():
            obad.append((qq, ans, "auto_decompress(auto_compress(x)) != x"))
        if ans != m and len(xs) <= 3000:
            kbad.append((qq2, ans, m))
    rbad = [(qq, x) for qq, x in zip(q[::4], ar) if not x.startswith("ok")]
    res.sample({"query": q[0][:120], "answer": a[0][:120]})
    res.sample({"query": q[-1][:120], "answer": a[-1][:120]})
    res.oblige("O:for every sequence incl. empty and shorter than the candidate orders, and every level 0..=12: returns (no panic) a configuration with that level and delta order in 0..=7; auto_compress then auto_decompress returns the input",
               "O", not obad, str([(qq[:160], w) for qq, x, w in obad[:2]]))
    res.oblige("O:no panic in the release build either", "O", not rbad, str(rbad[:2])[:300])
    res.oblige("K:model reader == real auto_decompress on the produced files", "K", not kbad, str([(qq[:160], x[:60], m[:60]) for qq, x, m in kbad[:2]]))
    for qq, x, w in obad[:3]:
        res.violations.append({"property": "C13", "what": w, "query": qq[:200000], "impl": x[:500], "tags": ["auto"]})
    for qq, x in rbad[:1]:
        res.violations.append({"property": "C13", "what": "auto config fails in release build: " + x[:100], "query": qq[:200000], "tags": ["auto"]})
    for qq, x, m in kbad[:1]:
        res.violations.append({"property": "C13", "what": "model/real reader disagree", "query": qq[:200000], "tags": ["auto-diff"]})
    return lib.finish(
        res,
        "all 15 dtypes x lengths 0..9, 999, 1000, 1001 x levels {0,6,7,12}, plus random shapes with lengths 10..5000 (100000 in thorough) at random levels 0..12; the chosen order is checked against the trial sizes recomputed with real compressors; non-trivial = distinct query",
        lib.COMMON_TRUSTED, "make -C coq Props/C13.vo && coqc work/Audit_C13.v (Print Assumptions)",
        ["which order is smallest is policy; only the search rule and totality are claimed"])


def replay(path):
    import json
    v = json.load(open(path))
    lib.build_translate(); lib.build_model(); lib.build_harness()
    print("impl :", lib.run_impl([v["query"]])[0][:600])
    return 0
