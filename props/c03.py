"""C03 — reader decodes every format-valid file, incl. legacy flags and shipped assets."""
import random, sys, os
sys.path.insert(0, os.path.join(os.path.dirname(os.path.abspath(__file__)), "..", "gen"))
import astgen
import lib
from props.common import *
from props import pipeline as pl
from props import assets


def build(res):
    std_build(res, release=True)


def run(res):
    rng = random.Random(res.seed)
    thorough = res.tier == "thorough"
    from props.theorems import THEOREMS
    prove_obligations(res, THEOREMS.get("C03", []))
    count = 40000 if thorough else 2500
    asts = [astgen.gen_file(rng) for _ in range(count)]
    if thorough:
        asts += [astgen.gen_file(rng, max_depth=26) for _ in range(6)]
    # files ending as tightly as the format allows after a deep code tree
    asts += [astgen.gen_tight_end_file(rng) for _ in range(400 if thorough else 40)]
    eq = [astgen.specenc_query(a) for a in asts]
    ea = lib.run_model(eq)
    rd, exp, meta = [], [], []
    enc_bad = []
    for a, q, m in zip(asts, eq, ea):
        if not m.startswith("ok "):
            enc_bad.append((q[:300], m[:100])); continue
        hx, nums = m[3:].split(" | ")
        rd.append("rdec %s %s" % (a["dt"], hx)); exp.append("ok " + nums); meta.append(a)
        f = a["flags"]
        res.count("dtype:" + a["dt"]); res.count("flags:%d%d%d%d" % tuple(1 if x else 0 for x in (f[0], f[1] > 0, f[2], f[3])))
        res.count("chunks:%d" % len(a["chunks"])); res.count("extra_flag_bytes:%d" % a["extra"])
        for c in a["chunks"]:
            res.count("run_length_prefixes:%d" % min(3, sum(1 for p in c["table"] if p["jump"] >= 0)))
            res.count("max_code_len:%d" % max([len(p["code"]) - 1 for p in c["table"]] + [0]))
    res.oblige("K:grammar serialiser produced bytes for every generated AST", "K", not enc_bad, str(enc_bad[:1]))
    # chunk-API script: header, then (metadata, body) per chunk, then metadata -> none
    hist = []
    for a, q in zip(meta, rd):
        hx = q.split()[2]
        ops = ["h"] + ["m", "b"] * len(a["chunks"]) + ["m"]
        hist.append("rhist %s 100000 w:%s %s" % (a["dt"], hx, " ".join(ops)))
    ia = lib.run_impl(rd)
    ma = lib.run_model(rd)
    ir = lib.run_impl(rd[::5], release=True)
    hi = lib.run_impl(hist)
    hm = lib.run_model(hist)
    obad, kbad, hbad, relbad = [], [], [], []
    for q, i, m, e in zip(rd, ia, ma, exp):
        res.seen(q[:4000], nontrivial=not e.startswith("ok 0"))
        if i.strip() != e.strip(): obad.append((q, i, e))
        if m.strip() != i.strip(): kbad.append((q, i, m))
    for q, i, e in zip(rd[::5], ir, exp[::5]):
        if i.strip() != e.strip(): relbad.append((q, i, e))
    for q, i, m in zip(hist, hi, hm):
        res.seen(q[:4000])
        if i != m: hbad.append((q, i, m))
        if "err" in i or "panic" in i: obad.append((q, i, "chunk API failed"))
    res.sample({"ast": {k: (v if k != "chunks" else "%d chunks" % len(v)) for k, v in meta[0].items()}, "query": rd[0][:200], "decoded": ia[0][:120]})
    res.sample({"query": rd[len(rd) // 2][:200], "decoded": ia[len(rd) // 2][:120]})
    res.oblige("O:real reader decodes every generated legal file to exactly the numbers its AST denotes (auto_decompress and chunk API; debug build)", "O",
               not obad, str([(q[:200], i[:100], e[:100]) for q, i, e in obad[:2]]))
    res.oblige("O:same in the release build", "O", not relbad, str([(q[:200], i[:100]) for q, i, e in relbad[:2]]))
    res.oblige("K:model reader R == real reader on these files (whole-file and chunk API, stepwise with bit positions)", "K",
               not kbad and not hbad, str([(q[:200], i[:100], m[:100]) for q, i, m in (kbad + hbad)[:2]]))
    for q, i, e in (obad + relbad)[:3]:
        res.violations.append({"property": "C03", "what": "a format-valid file is not decoded to the numbers it encodes", "query": q[:100000],
                               "impl": i[:2000], "expected": e[:2000], "tags": ["legal-file"]})
    for q, i, m in (kbad + hbad)[:2]:
        res.violations.append({"property": "C03", "what": "model reader and real reader disagree", "query": q[:100000], "impl": i[:2000], "model": m[:2000], "tags": ["reader-diff"]})
    # 64-bit-word level: the real BitWords/BitReader against Words.v on operation scripts (own rng stream)
    from props.words_corr import run_words_corr
    run_words_corr(res, random.Random(res.seed + 17), thorough, parts=("reader",))
    # shipped assets
    al = assets.load()
    aq = ["rdec %s %s" % (dt, hx) for (_, dt, hx, _) in al]
    ai = lib.run_impl(aq)
    abad = []
    for (name, dt, hx, vals), i in zip(al, ai):
        res.seen("asset:" + name)
        if i.strip() != ("ok " + pl.nums_str(vals)).strip():
            abad.append((name, i[:100]))
    res.oblige("O:real reader decodes the 8 shipped assets (0.4, 0.6, 0.9, 0.10) to their recorded values", "O", not abad, str(abad))
    for name, i in abad:
        res.violations.append({"property": "C03", "what": "asset %s does not decode to its recorded values: %s" % (name, i), "tags": ["asset"]})
    return lib.finish(
        res,
        "random well-formed ASTs over all dtypes and all 2x8x2x2 flag combinations (any complete prefix tree up to depth 15/20(26 thorough), overlapping/widened ranges, any legal gcd, run-length on any prefixes with jumpstart 0..24, non-maximal runs, zero-count chunks, extra zero flag bytes) serialised by the grammar model and decoded by the real library; plus the 8 shipped assets; non-trivial = distinct file with at least one number",
        lib.COMMON_TRUSTED, "make -C coq Props/C03.vo && coqc work/Audit_C03.v (Print Assumptions)",
        ["depth-31 prefix trees make the real validate_prefix_tree allocate 2^31 flags; generated only up to depth 26 (thorough) / 20 (quick)"])


def replay(path):
    import json
    v = json.load(open(path))
    lib.build_translate(); lib.build_model(); lib.build_harness()
    q = v["query"]
    print("impl :", lib.run_impl([q])[0][:600])
    print("model:", lib.run_model([q])[0][:600])
    print("want :", v.get("expected", "")[:600])
    return 0
