"""C01 — lossless round trip for every sequence, data type and configuration."""
import random
import lib
from props.common import *
from props import pipeline as pl
from props.codec_cases import *

THEOREMS = []  # filled as the Coq development grows (see Props/C01.v)


def build(res):
    std_build(res, release=True)


def big_runs(tier):
    q = ["bigrun i16 8 0 8388608 7", "bigrun bool 8 0 8388609 1", "bigrun u32 3 5 9000000 6"]
    if tier == "thorough":
        q += ["bigrun i16 8 0 8388606 7", "bigrun i16 8 0 8388607 7", "bigrun i16 8 0 16777214 7",
              "bigrun i64 12 -5 12000000 1", "bigrun f32 8 0 16777214 1"]
    return q


def run(res):
    rng = random.Random(res.seed)
    thorough = res.tier == "thorough"
    from props.theorems import THEOREMS
    prove_obligations(res, THEOREMS.get("C01", []))
    cases = corpus_cases() + c01_cases(rng, 60000 if thorough else 2500, max_n=300)
    # a few long chunks (oracle + writer/reader correspondence)
    cases += c01_cases(rng, 40 if thorough else 6, max_n=20000, shapes=["sparse", "uniform", "lattice", "poly", "clusters"])
    # run-length prefixes that span several values (low levels, >= 1001 numbers, a dominant
    # narrow cluster): every repetition of a run carries its own offset
    cases += rl_range_cases(rng, 80 if thorough else 12)
    # Huffman codes of 17+ bits (the optimal tree of Fibonacci-like range weights)
    cases += [deep_huffman_case(8, rng, dt) for dt in (["u32", "i64", "f32"] if thorough else ["u32"])]
    rel_cases = cases[::7]
    out = pl.run_pipeline(res, cases)
    rt_bad, w_bad, r_bad, comp_bad = [], [], [], []
    for rec in out:
        c = rec["case"]
        res.seen((c["dt"], c["level"], c["order"], c["gcds"], str(c["chunks"])[:2000]), nontrivial=len(pl.flat(c)) > 0)
        res.count("dtype:" + c["dt"]); res.count("shape:" + c["shape"]); res.count("order:%d" % c["order"])
        res.count("chunks:%d" % len(c["chunks"]))
        if rec["comp"] is None:
            comp_bad.append(rec); continue
        if not pl.check_roundtrip(rec): rt_bad.append(rec)
        if not pl.check_writer_bytes(rec): w_bad.append(rec)
        if not pl.check_model_reader(rec): r_bad.append(rec)
    res.sample({"case": pl.short(out[len(out) // 2]["case"]), "bytes": (out[len(out) // 2]["comp"] or {}).get("hex", "")[:80]})
    res.sample({"case": pl.short(out[-1]["case"])})
    res.oblige("O:decompress(compress(x)) == x bit for bit (debug build)", "O", not rt_bad and not comp_bad,
               str([(pl.short(r["case"]), r.get("rdec_impl", r["compress_answer"])[:120]) for r in (rt_bad + comp_bad)[:2]])[:900])
    res.oblige("K:bytes of the real compressor == model writer W.file_bytes on the returned tables", "K", not w_bad,
               str([pl.short(r["case"]) for r in w_bad[:1]])[:600])
    res.oblige("K:model reader R.decode_file == real auto_decompress on the real bytes", "K", not r_bad,
               str([(pl.short(r["case"]), r["rdec_model"][:80], r["rdec_impl"][:80]) for r in r_bad[:1]])[:600])
    for r in (rt_bad + comp_bad)[:3]:
        res.violations.append({"property": "C01", "what": "round trip fails on the implementation: " + (r.get("rdec_impl") or r["compress_answer"])[:200],
                               "case": r["case"], "query": pl.compress_query(r["case"])[:200000], "tags": ["roundtrip"]})
    for r in w_bad[:2]:
        res.violations.append({"property": "C01", "what": "real compressor bytes differ from the model writer",
                               "case": r["case"], "impl_hex": r["comp"]["hex"][:4000], "model": (r["file_model"] or "")[:4000], "tags": ["writer-diff"]})
    for r in r_bad[:2]:
        res.violations.append({"property": "C01", "what": "model reader and real reader disagree", "case": r["case"],
                               "impl": r["rdec_impl"][:2000], "model": r["rdec_model"][:2000], "tags": ["reader-diff"]})
    from props.leaf_corr import run_leaf_corr
    run_leaf_corr(res, rng, thorough)
    # 64-bit-word level: the compressor's range lookup table against Words.v (own rng stream)
    from props.words_corr import run_words_corr
    run_words_corr(res, random.Random(res.seed + 17), thorough, parts=("table",))
    # extraction cross-check: the same decode evaluated inside Coq (vm_compute in the kernel's VM)
    small = [r for r in out if r["comp"] is not None and len(r["comp"]["hex"]) <= 300][:24]
    shard = [(r["case"]["dt"], r["comp"]["hex"]) for r in small]
    shard += [(dt, hx[: 2 * (len(hx) // 4)]) for dt, hx in shard[:6]]            # truncated
    shard += [(dt, hx[:20] + ("ff" if hx[20:22] != "ff" else "00") + hx[22:]) for dt, hx in shard[:6]]   # corrupted
    ka = lib.coq_shard_decode("C01", shard)
    oa = lib.run_model(["rdec %s %s" % c for c in shard])
    sbad = [(c, k, o) for c, k, o in zip(shard, ka, oa) if k != o]
    res.oblige("K:extracted OCaml model == evaluation of the same Gallina term inside Coq (vm_compute) on %d sampled files" % len(shard), "K", not sbad, str(sbad[:1])[:400])
    for c, k, o in sbad[:1]:
        res.violations.append({"property": "C01", "what": "extracted model disagrees with in-Coq evaluation", "query": "rdec %s %s" % c, "coq": k, "ocaml": o, "tags": ["extraction"]})
    # release build: wrapping arithmetic instead of overflow panics
    rq = [pl.compress_query(c) for c in rel_cases]
    ra = lib.run_impl(rq, release=True)
    rel_bad = []
    rdq, want = [], []
    for c, a in zip(rel_cases, ra):
        comp = pl.parse_compress(a)
        if comp is None:
            rel_bad.append((pl.short(c), a[:100])); continue
        rdq.append("rdec %s %s" % (c["dt"], comp["hex"])); want.append("ok " + pl.nums_str(pl.flat(c)))
    rda = lib.run_impl(rdq, release=True)
    for q, a, w in zip(rdq, rda, want):
        res.seen("rel" + q[:3000])
        if a.strip() != w.strip():
            rel_bad.append((q[:200], a[:100]))
    res.oblige("O:round trip in the release build (wrapping arithmetic)", "O", not rel_bad, str(rel_bad[:2])[:600])
    for q, a in rel_bad[:2]:
        res.violations.append({"property": "C01", "what": "round trip fails in release build: " + a, "query": str(q), "tags": ["roundtrip-release"]})
    # very long runs of one value (run-length count needing up to 24 bits): oracle only
    bq = big_runs(res.tier)
    ba = lib.run_impl(bq, release=True, shards=len(bq), timeout=3000)
    bbad = [(q, a) for q, a in zip(bq, ba) if "equal=true" not in a]
    for q in bq:
        res.seen(q)
    res.oblige("O:chunks with a run of >= 2^23 repeated values round trip", "O", not bbad, str(bbad[:2]))
    for q, a in bbad[:2]:
        res.violations.append({"property": "C01", "what": "long run does not round trip: " + a, "query": q, "tags": ["long-run"]})
    return lib.finish(
        res,
        "structured boundary-dense sequences (14 shapes x 15 dtypes x levels 0..12 x orders 0..7 x gcds x 1..5 chunks, plus corpus of past failures and runs of 2^23+ values); non-trivial = distinct non-empty case",
        lib.COMMON_TRUSTED, "make -C coq Props/C01.vo && coqc work/Audit_C01.v (Print Assumptions)",
        ["policy (choice of prefix table) is an oracle: the model writer is run on the table the real compressor returned"])


def replay(path):
    import json
    v = json.load(open(path))
    lib.build_translate(); lib.build_model(); lib.build_harness()
    q = v.get("query") or pl.compress_query(v["case"])
    a = lib.run_impl([q])[0]
    print("impl compress:", a[:300])
    comp = pl.parse_compress(a)
    if comp:
        c = v.get("case")
        print("impl decode  :", lib.run_impl(["rdec %s %s" % (c["dt"], comp["hex"])])[0][:300])
        print("model decode :", lib.run_model(["rdec %s %s" % (c["dt"], comp["hex"])])[0][:300])
        print("model writer :", lib.run_model([pl.file_query(c, comp)])[0][:300])
    return 0
