"""C16 — files with flag bits from a newer format are refused, not misread."""
import random
import lib
from props.common import *

from props.theorems import THEOREMS as _T
THEOREMS = _T['C16']


def build(res):
    std_build(res)


def reflag(hexfile, unknown_mask, ncont):
    """Rewrite the flag section of a file: keep the 6 known bits of the first flag byte,
    set payload bits according to unknown_mask (bit 0 = payload position 6, then 7 bits per
    continuation byte), with ncont continuation bytes."""
    b = bytearray.fromhex(hexfile)
    first = b[5]
    known = first & 0xFC
    out = bytearray()
    p6 = unknown_mask & 1
    out.append(known | (p6 << 1) | (1 if ncont > 0 else 0))
    for i in range(ncont):
        payload = (unknown_mask >> (1 + 7 * i)) & 0x7F
        # payload bits are MSB-first within the byte
        out.append((payload << 1) | (1 if i + 1 < ncont else 0))
    return (bytes(b[:5]) + bytes(out) + bytes(b[6:])).hex()


def run(res):
    rng = random.Random(res.seed)
    prove_obligations(res, THEOREMS)
    thorough = res.tier == "thorough"
    # valid files of several types / configurations
    specs = []
    for dt in (lib.DTYPES if thorough else ["i32", "f64", "bool", "u16", "tsnanos96", "i64"]):
        lo, hi = raw_range(dt)
        for order in ((0, 1, 7) if dt != "bool" else (0, 1)):
            for gcds in (0, 1):
                n = rng.randint(1, 40)
                xs = [rng.randint(max(lo, -1000), min(hi, 1000)) for _ in range(n)]
                specs.append((dt, "compress %s %d %d %d 1 %d %s" % (dt, rng.randint(0, 12), order, gcds, n, " ".join(map(str, xs))), xs))
    cres = lib.run_impl([s[1] for s in specs])
    files = []
    for (dt, q, xs), a in zip(specs, cres):
        if a.startswith("ok"):
            files.append((dt, a.split()[1], xs))
    res.oblige("K:valid base files were produced", "K", len(files) == len(specs), str([a for a in cres if not a.startswith("ok")][:2]))
    queries, expect = [], []
    for fi, (dt, hx, xs) in enumerate(files):
        masks = []
        if fi == 0 or thorough:
            masks += [(m, 2) for m in range(1, 1 << 15)]           # exhaustive: bit 6 + two continuation bytes
        masks += [(1, 0), (1, 1), (1, 3)]
        for _ in range(60 if not thorough else 400):
            nc = rng.randint(1, 4)
            m = rng.getrandbits(1 + 7 * nc) or 2
            masks.append((m, nc))
        # single-bit masks in every position up to 4 continuation bytes
        for pos in range(1 + 7 * 4):
            masks.append((1 << pos, max(0, (pos + 6) // 7)))
        for (m, nc) in masks:
            m &= (1 << (1 + 7 * nc)) - 1
            if m == 0:
                continue
            f = reflag(hx, m, nc)
            kinds = ["rdec %s %s", "rhist %s 100 w:%s h", "rhist %s 100 w:%s n"] if (m < 64 or rng.random() < 0.05) else ["rdec %s %s"]
            for k in kinds:
                queries.append(k % (dt, f)); expect.append(("refuse", None))
        # cleared bits, 0..4 all-zero continuation bytes: decodes normally
        for nc in range(0, 5):
            f = reflag(hx, 0, nc)
            queries.append("rdec %s %s" % (dt, f)); expect.append(("accept", xs))
            queries.append("rhist %s 100 w:%s h m b" % (dt, f)); expect.append(("accept-h", xs))
    impl = lib.run_impl(queries)
    model = lib.run_model(queries)
    bad = compare_answers(res, "decoding files with rewritten flag sections: impl=model", queries, impl, model)
    obad = []
    for q, (kind, xs), a in zip(queries, expect, impl):
        res.seen(q)
        if kind == "refuse":
            res.count("unknown-bit patterns")
            if "err Compatibility" not in a:
                obad.append((q, a))
        elif kind == "accept":
            res.count("cleared patterns")
            want = "ok %d %s" % (len(xs), " ".join(map(str, xs)))
            if a.strip() != want.strip():
                obad.append((q, a))
        else:
            res.count("cleared patterns")
            if "err" in a or "panic" in a:
                obad.append((q, a))
    res.sample({"query": queries[0][:200], "impl": impl[0], "model": model[0]})
    res.sample({"query": queries[-1][:200], "impl": impl[-1][:200], "model": model[-1][:200]})
    res.oblige("O:every non-empty set of undefined flag bits => Compatibility at every entry point; cleared => original numbers",
               "O", not obad, str(obad[:2])[:600])
    for q, a in obad[:3]:
        res.violations.append({"property": "C16", "what": "unknown flag bits not refused (or cleared file not decoded)", "query": q, "impl": a, "tags": ["flag-bits"]})
    for i in bad[:2]:
        res.violations.append({"property": "C16", "what": "impl/model disagree", "query": queries[i], "impl": impl[i], "model": model[i], "tags": ["flag-diff"]})
    return lib.finish(
        res,
        "theorems for every framing of the flag section and every unknown-bit set; correspondence: valid files with flag section rewritten to every non-empty subset of {bit 6 of byte 0} u {2 continuation bytes} (2^15-1 patterns, exhaustive) plus sampled patterns up to 4 continuation bytes, through auto_decompress / header() / iterator; non-trivial = distinct query",
        lib.COMMON_TRUSTED, "make -C coq Props/C16.vo && coqc work/Audit_C16.v (Print Assumptions)",
        ["flag bytes are modelled as 7 payload bits + continuation bit as in flags.rs"])


def replay(path):
    import json
    v = json.load(open(path))
    q = v.get("query")
    lib.build_translate(); lib.build_model(); lib.build_harness()
    print("impl :", lib.run_impl([q])[0])
    print("model:", lib.run_model([q])[0])
    return 0
