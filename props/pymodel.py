"""Independent Python re-implementation of the value mappings and delta encoding, used by
property oracles that are evaluated directly on the implementation's outputs."""
import lib
import sys, os
sys.path.insert(0, os.path.join(os.path.dirname(os.path.abspath(__file__)), "..", "gen"))
from numgen import to_u, of_u

W = lib.UBITS


def to_s(dt, x):
    w = W[dt]
    if dt == "bool":
        return x
    if dt[0] == "u":
        return x - (1 << (w - 1))
    if dt[0] == "f":
        return x - (1 << w) if x >= (1 << (w - 1)) else x
    return x


def swrap(w, x):
    return ((x + (1 << (w - 1))) % (1 << w)) - (1 << (w - 1))


def s_sub(dt, a, b):
    if dt == "bool":
        return (a + b) % 2
    return swrap(W[dt], a - b)


def deltas(dt, xs, order):
    s = [to_s(dt, x) for x in xs]
    for _ in range(order):
        s = [s_sub(dt, b, a) for a, b in zip(s, s[1:])]
    return s


def moments(dt, xs, order):
    s = [to_s(dt, x) for x in xs[:order]]
    out = []
    for _ in range(order):
        if not s:
            out.append(0)
        else:
            out.append(s[0])
            s = [s_sub(dt, b, a) for a, b in zip(s, s[1:])]
    return out


def chunk_unsigneds(dt, xs, order):
    if order == 0:
        return [to_u(dt, x) for x in xs]
    sd = lib.SIGNED_OF[dt]
    return [to_u(sd, d) for d in deltas(dt, xs, order)]


def codes_complete_prefix_free(codes):
    """codes: list of 'b0101' strings"""
    cs = [c[1:] for c in codes]
    if not cs:
        return True
    if len(set(cs)) != len(cs):
        return False
    from fractions import Fraction
    if sum(Fraction(1, 2 ** len(c)) for c in cs) != 1:
        return False
    s = sorted(cs)
    for a, b in zip(s, s[1:]):
        if b.startswith(a):
            return False
    return True
