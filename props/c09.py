"""C09 — compressor enforces its call protocol and is unchanged by failed calls."""
import random, sys, os
sys.path.insert(0, os.path.join(os.path.dirname(os.path.abspath(__file__)), "..", "gen"))
import numgen
import lib
from props.common import *
from props import pipeline as pl


def build(res):
    std_build(res, release=True)


def gen_history(rng):
    dt = rng.choice(lib.DTYPES)
    level = rng.choice([0, 4, 8, 12, 12, 13, 14, 20, rng.randint(0, 12)])
    order = rng.choice([0, 0, 1, 2, 7, 7, 8, 9, 20, rng.randint(0, 7)])
    gcds = rng.randint(0, 1)
    ops = []
    wellformed = rng.random() < 0.5
    n_ops = rng.randint(2, 14)
    if wellformed:
        seq = ["H"] + ["C"] * rng.randint(0, 5) + ["F"]
        # sprinkle wrong calls and drains
        for _ in range(rng.randint(0, 6)):
            seq.insert(rng.randrange(len(seq) + 1), rng.choice(["D", "Z", "Z", "H", "F", "Cempty", "C"]))
    else:
        seq = [rng.choice(["H", "C", "F", "D", "Z", "Cempty"]) for _ in range(n_ops)]
    for s in seq:
        if s == "C":
            shape, xs = numgen.random_case(dt, rng, max_n=40)
            if rng.random() < 0.15:
                xs = xs[:rng.randint(1, max(1, min(len(xs), order if order <= 7 else 3)))]
            ops.append(("C", xs))
        elif s == "Cempty":
            ops.append(("C", []))
        else:
            ops.append((s, None))
    return dict(dt=dt, level=level, order=order, gcds=gcds, ops=ops)


def impl_query(h, strip_drains=False):
    parts = ["whist", h["dt"], str(h["level"]), str(h["order"]), str(h["gcds"])]
    for (o, xs) in h["ops"]:
        if strip_drains and o in ("D", "Z"):
            continue
        if o == "C":
            parts += ["C", pl.nums_str(xs)]
        else:
            parts.append(o)
    if strip_drains:
        parts.append("D")
    return " ".join(parts)


def model_query(h, impl_outs):
    parts = ["whist", h["dt"], str(h["level"]), str(h["order"]), str(h["gcds"])]
    for (o, xs), out in zip(h["ops"], impl_outs):
        if o == "C":
            if out.startswith("M "):
                m = pl.parse_meta(pl.Toks(out[2:]))
                parts += ["C", pl.nums_str(xs), pl.table_str(m["table"])]
            else:
                parts += ["C", pl.nums_str(xs), "0"]
        else:
            parts.append(o)
    return " ".join(parts)


def run(res):
    rng = random.Random(res.seed)
    thorough = res.tier == "thorough"
    from props.theorems import THEOREMS
    prove_obligations(res, THEOREMS.get("C09", []))
    hs = [gen_history(rng) for _ in range(40000 if thorough else 3000)]
    iq = [impl_query(h) for h in hs]
    ia = lib.run_impl(iq)
    mq, midx = [], []
    obad, kbad = [], []
    accepted = []
    for i, (h, q, a) in enumerate(zip(hs, iq, ia)):
        res.seen(q[:5000])
        res.count("level>12" if h["level"] > 12 else "level<=12"); res.count("order>7" if h["order"] > 7 else "order<=7")
        if a.startswith("panic") or a.startswith("crash"):
            obad.append((q, a, "a compressor call panicked instead of returning an error")); continue
        outs = a.split(" ; ") if a else []
        # oracle 1: every rejection is InvalidArgument; byte_size is unchanged by a rejected call
        hdr = ftr = False
        size = 0
        chunks = []
        total = ""
        ok = True
        for (o, xs), out in zip(h["ops"], outs):
            if o == "H":
                should = (not hdr) and (not ftr) and h["order"] <= 7
                if should != (out == "u"):
                    obad.append((q, a, "header accepted/rejected wrongly")); ok = False; break
                if out == "u": hdr = True
            elif o == "F":
                should = hdr and not ftr
                if should != (out == "u"):
                    obad.append((q, a, "footer accepted/rejected wrongly")); ok = False; break
                if out == "u": ftr = True
            elif o == "C":
                acc = out.startswith("M ")
                if acc and not (hdr and not ftr and len(xs) >= 1):
                    obad.append((q, a, "chunk accepted out of order or empty")); ok = False; break
                if (not acc) and hdr and (not ftr) and len(xs) >= 1 and h["level"] <= 12:
                    obad.append((q, a, "valid chunk rejected")); ok = False; break
                if acc and h["level"] > 12 and len(xs) > h["order"]:
                    obad.append((q, a, "chunk accepted at compression level > 12")); ok = False; break
                if acc: chunks.append(xs)
            elif o == "D":
                total += "" if out == "B -" else out[2:]
            if out.startswith("err") and out != "err InvalidArgument":
                obad.append((q, a, "rejection is not InvalidArgument: " + out)); ok = False; break
            res.count("out:" + out.split()[0] + (" " + out.split()[1] if out.startswith("err") else ""))
        if not ok:
            continue
        mq.append(model_query(h, outs)); midx.append(i)
        accepted.append((i, chunks, total, hdr, ftr))
    ma = lib.run_model(mq)
    for j, m in zip(midx, ma):
        if m != ia[j]:
            kbad.append((iq[j], ia[j], m))
    # oracle 2: drain placement does not matter; result decodes to exactly the accepted chunks
    sq = [impl_query(hs[i], strip_drains=True) for (i, _, _, _, _) in accepted]
    sa = lib.run_impl(sq)
    decq, decmeta = [], []
    for (i, chunks, total, hdr, ftr), a2 in zip(accepted, sa):
        h = hs[i]
        outs = ia[i].split(" ; ")
        # bytes still pending at the end of the original history are not in `total`; compare prefixes
        final = a2.split(" ; ")[-1]
        allbytes = "" if final == "B -" else final[2:]
        if not allbytes.startswith(total):
            obad.append((iq[i], ia[i], "drained bytes depend on when drain_bytes is called"))
            continue
        if hdr and ftr:
            decq.append("rdec %s %s" % (h["dt"], allbytes or "-")); decmeta.append((i, chunks))
    da = lib.run_impl(decq)
    for (i, chunks), a3 in zip(decmeta, da):
        want = "ok " + pl.nums_str([x for ch in chunks for x in ch])
        if a3.strip() != want.strip():
            obad.append((iq[i], a3, "file written around rejected calls does not decode to exactly the accepted chunks"))
    # chunk sizes around the 2^24-1 limit, with and without delta encoding (release build for speed)
    bq = ["bigchunk i16 8 0 16777215", "bigchunk i16 8 0 16777216", "bigchunk i16 8 1 16777216", "bigchunk bool 8 7 16777222", "bigchunk bool 8 7 16777215", "bigchunk i16 8 2 16777217"]
    if thorough:
        bq += ["bigchunk u16 12 7 16777216", "bigchunk i32 8 3 16777218", "bigchunk i32 0 1 16777215"]
    ba = lib.run_impl(bq, release=True, shards=len(bq), timeout=3000)
    for qq, aa in zip(bq, ba):
        res.seen(qq)
        n = int(qq.split()[-1])
        if n > 16777215:
            if not aa.startswith("err InvalidArgument size 6 -> 6"):
                obad.append((qq, aa, "a chunk of more than 2^24-1 numbers was not rejected with InvalidArgument leaving the output unchanged"))
        elif "equal=true" not in aa:
            obad.append((qq, aa, "a chunk of exactly 2^24-1 numbers was rejected or does not round trip"))
    # one oversized chunk (2^24 numbers) must be rejected with InvalidArgument
    big = lib.run_impl(["bigrun i16 8 0 16777215 7", "bigrun i16 8 0 16777214 7"], release=False, shards=2, timeout=3000) if thorough else lib.run_impl(["bigrun i16 8 0 16777215 7"], timeout=3000)
    res.seen("bigrun oversized")
    if not big[0].startswith("err InvalidArgument"):
        obad.append(("bigrun i16 8 0 16777215 7", big[0], "a chunk of 2^24 numbers was not rejected with InvalidArgument"))
    res.sample({"query": iq[0][:250], "answer": ia[0][:250]})
    res.sample({"query": iq[7][:250], "answer": ia[7][:250]})
    res.oblige("O:exactly header, then non-empty chunks, then footer are accepted; every rejection (order > 7, level > 12, empty/oversized chunk, wrong order) is InvalidArgument and never a panic; drained output is independent of drain placement and decodes to exactly the accepted chunks",
               "O", not obad, str([(q[:200], w) for q, a, w in obad[:2]]))
    res.oblige("K:model W.step == real compressor on every history (outputs, byte_size and drained bytes), with the returned prefix tables as oracle", "K",
               not kbad, str([(q[:200], a[:120], m[:120]) for q, a, m in kbad[:2]]))
    for q, a, w in obad[:3]:
        res.violations.append({"property": "C09", "what": w, "query": q[:200000], "impl": a[:3000], "tags": ["compressor-protocol"]})
    for q, a, m in kbad[:2]:
        res.violations.append({"property": "C09", "what": "model and real compressor disagree", "query": q[:200000], "impl": a[:3000], "model": m[:3000], "tags": ["whist-diff"]})
    return lib.finish(
        res,
        "random call histories of header/chunk/footer/drain_bytes/byte_size incl. out-of-order calls, empty chunks, levels 13..20, delta orders 8..20, n <= order chunks, one 2^24-element chunk; each history re-run without drains; non-trivial = distinct history",
        lib.COMMON_TRUSTED, "make -C coq Props/C09.vo && coqc work/Audit_C09.v (Print Assumptions)",
        ["the prefix table of an accepted chunk is taken from the real compressor (policy oracle)"])


def replay(path):
    import json
    v = json.load(open(path))
    lib.build_translate(); lib.build_model(); lib.build_harness()
    q = v["query"]
    print("impl :", lib.run_impl([q])[0][:1500])
    return 0
