"""C10 — chunk metadata tells the truth about the chunk."""
import random
from math import gcd
import lib
from props.common import *
from props import pipeline as pl
from props.codec_cases import *
from props import pymodel as pm


def build(res):
    std_build(res)


def faithful(c, comp):
    """the property's clauses, evaluated on the metadata the compressor returned"""
    dt, order, level = c["dt"], c["order"], c["level"]
    for ch, m in zip(c["chunks"], comp["metas"]):
        if m["n"] != len(ch):
            return "count != chunk length"
        us = pm.chunk_unsigneds(dt, ch, order)
        if order > 0 and m["moments"] != pm.moments(dt, ch, order):
            return "delta moments are not the initial differences"
        if order == 0 and m["moments"]:
            return "moments present without delta encoding"
        t = m["table"]
        if not us:
            if t:
                return "prefixes for a chunk without values"
            continue
        if any(p["lower"] > p["upper"] for p in t):
            return "range with lower > upper"
        srt = sorted(t, key=lambda p: p["lower"])
        for a, b in zip(srt, srt[1:]):
            if a["upper"] >= b["lower"]:
                return "ranges overlap"
        if len(t) > (1 << level) or len(t) > len(us):
            return "more than 2^level prefixes (or more than values)"
        if not pm.codes_complete_prefix_free([p["code"] for p in t]):
            return "codes are not a complete prefix-free tree"
        counts = [0] * len(srt)
        import bisect
        lows = [p["lower"] for p in srt]
        for u in us:
            i = bisect.bisect_right(lows, u) - 1
            if i < 0 or u > srt[i]["upper"]:
                return "value %d is not covered by any range" % u
            if (u - srt[i]["lower"]) % srt[i]["gcd"] != 0:
                return "value not congruent to the lower bound modulo the recorded divisor"
            counts[i] += 1
        for p, k in zip(srt, counts):
            if p["count"] != k:
                return "range count %d != %d values inside" % (p["count"], k)
            if p["gcd"] < 1:
                return "divisor < 1"
    return None


def run(res):
    rng = random.Random(res.seed)
    thorough = res.tier == "thorough"
    from props.theorems import THEOREMS
    prove_obligations(res, THEOREMS.get("C10", []))
    cases = corpus_cases() + c01_cases(rng, 40000 if thorough else 2500, max_n=300)
    cases += c01_cases(rng, 1500 if thorough else 300, max_n=2500, shapes=["sorted_dups", "sparse", "clusters", "lattice", "two_lattices", "small"])
    cases += quantile_outlier_cases(rng, 40 if thorough else 6) + repeated_lattice_cases(rng, 40 if thorough else 4) + [deep_huffman_case(8, rng)]
    out = pl.run_pipeline(res, cases, want_model_reader=False, want_writer=False)
    fbad, sbad, pbad = [], [], []
    hq, hmeta = [], []
    for rec in out:
        c = rec["case"]
        res.seen((c["dt"], c["level"], c["order"], c["gcds"], str(c["chunks"])[:2000]), nontrivial=len(pl.flat(c)) > 0)
        res.count("dtype:" + c["dt"]); res.count("shape:" + c["shape"]); res.count("order:%d" % c["order"])
        if rec["comp"] is None:
            fbad.append((rec, "compress failed: " + rec["compress_answer"][:100])); continue
        res.count("prefixes:%d" % min(64, max([len(m["table"]) for m in rec["comp"]["metas"]] + [0])).bit_length())
        why = faithful(c, rec["comp"])
        if why:
            fbad.append((rec, why))
        s = pl.check_spec(rec)      # metadata parsed back by the independent decoder == returned (divisor of single-valued ranges aside); body size exact
        if s:
            sbad.append((rec, s))
        if len(hq) < (4000 if thorough else 600):
            ops = ["h"] + ["m", "s"] * len(c["chunks"]) + ["m"]
            hq.append("rhist %s 100 w:%s %s" % (c["dt"], rec["comp"]["hex"], " ".join(ops))); hmeta.append(rec)
    ha = lib.run_impl(hq)
    for q, a, rec in zip(hq, ha, hmeta):
        res.seen(q[:4000])
        outs = [x.split(" @")[0] for x in a.split(" ; ")]
        metas = [pl.parse_meta(pl.Toks(o[2:])) for o in outs if o.startswith("M ") and o != "M none"]
        want = rec["comp"]["metas"]
        ok = len(metas) == len(want) and all(
            m["n"] == w["n"] and m["body"] == w["body"] and m["moments"] == w["moments"] and pl.norm_table(m["table"]) == pl.norm_table(w["table"])
            for m, w in zip(metas, want))
        if not ok or "err" in a or "panic" in a:
            pbad.append((q, a))
    from props.policy_corr import run_policy_corr
    run_policy_corr(res, rng, thorough)
    res.sample({"case": pl.short(out[5]["case"]), "metadata": (out[5]["comp"] or {}).get("metas", [])[:1]})
    res.oblige("O:returned metadata is faithful: count, well-formed disjoint ranges covering every value exactly once, per-range counts, congruence modulo the divisor, complete prefix-free codes, <= 2^level ranges, moments = initial differences",
               "O", not fbad, str([(w, pl.short(r["case"])) for r, w in fbad[:2]])[:900])
    res.oblige("O:metadata parsed back from the bytes (real reader via chunk_metadata+skip, and independent decoder) equals the returned metadata up to the divisor of single-valued ranges; body size is the exact byte length",
               "O", not sbad and not pbad, str([(w, pl.short(r["case"])) for r, w in sbad[:2]] + pbad[:1])[:900])
    for r, w in fbad[:3]:
        res.violations.append({"property": "C10", "what": "returned chunk metadata is not faithful: " + w, "case": r["case"], "metas": (r["comp"] or {}).get("metas"), "tags": ["faithful"]})
    for r, w in sbad[:2]:
        res.violations.append({"property": "C10", "what": "metadata parsed back differs from returned: " + w, "case": r["case"], "tags": ["parse-back"]})
    for q, a in pbad[:2]:
        res.violations.append({"property": "C10", "what": "metadata read back by the real reader differs from returned", "query": q[:100000], "impl": a[:3000], "tags": ["parse-back"]})
    return lib.finish(
        res,
        "C01-domain chunks with emphasis on duplicates, sparse, clustered and lattice data (merged ranges); the property's clauses are evaluated in Python (independent re-implementation of the unsigned mapping and delta encoding) on every returned ChunkMetadata; non-trivial = distinct non-empty case",
        lib.COMMON_TRUSTED, "make -C coq Props/C10.vo && coqc work/Audit_C10.v (Print Assumptions)", [])


def replay(path):
    import json
    v = json.load(open(path))
    lib.build_translate(); lib.build_model(); lib.build_harness()
    c = v["case"]
    a = lib.run_impl([pl.compress_query(c)])[0]
    print("impl compress:", a[:1200])
    comp = pl.parse_compress(a)
    if comp:
        print("faithful:", faithful(c, comp))
    return 0
