"""Property theorems (names in coq/Props/<id>.v) whose assumptions are audited."""
THEOREMS = {
    "C02": ["C02_consts_frozen", "C02_grammar_reads_shipped_assets"],
    "C03": ["C03_assets"],
}
