"""Property theorems (names in coq/Props/<id>.v) whose assumptions are audited."""
THEOREMS = {}
