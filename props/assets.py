import os, sys
sys.path.insert(0, os.path.join(os.path.dirname(os.path.abspath(__file__)), "..", "tools"))
import gen_assets


def load():
    """[(name, dt, hex, values)]"""
    return [(name, dt, q.hex() if q else "-", vals) for (name, dt, cdt, q, vals) in gen_assets.load()]
