"""Helpers shared by the per-property check modules."""
import random
import lib


def std_build(res, release=False, need_harness=True):
    """translate -> model -> harness.  A failing translation or model build raises."""
    try:
        note = lib.build_translate()
        res.notes.append(note)
    except lib.BuildBroken as e:
        # the translator no longer recognises the source: a broken tie.  Keep the constants of
        # the last successful translation so that the correspondence run can still search for a
        # failing input; the obligation stays broken whatever the search finds.
        import os
        if not os.path.exists(os.path.join(lib.COQ, "Model", "Consts.v")):
            raise
        res.oblige("K:translate (tools/gen_consts.py patterns match the current source)", "K", False, e.detail[-400:])
    lib.build_model()
    if need_harness:
        lib.build_harness(False)
        if release:
            lib.build_harness(True)


def prove_obligations(res, theorems):
    if not theorems:
        res.notes.append("no property theorem registered yet for %s: this run is correspondence/oracle only" % res.prop)
        res.proof_details = {}
        return True
    ok, det = lib.prove(res.prop, theorems)
    for t in theorems:
        res.oblige("T:" + t, "T", ok, "" if ok else (det.get("failed_at") or det.get("coq_error", "")[-300:] or str(det.get("unexpected_axioms") or det.get("forbidden")))[:400])
    res.proof_details = det
    if ok and res.tier == "thorough":
        # independent re-check of the compiled proofs and everything they depend on
        ok2, out = lib.coqchk(res.prop)
        clean = ok2 and "Axioms: <none>" in out
        res.oblige("T:coqchk -o QCo.Props.%s (independent checker; Axioms: <none>)" % res.prop, "T", clean, "" if clean else out[-600:])
        res.notes.append("coqchk: " + " ".join(out.split())[-300:])
    return ok


def float_key(bits, w):
    s = 1 << (w - 1)
    return -(bits - s) - 1 if bits >= s else bits


def nat_key(dt, raw):
    if dt in ("f32", "f64"):
        return float_key(raw, lib.UBITS[dt])
    return raw


def raw_range(dt):
    w = lib.UBITS[dt]
    if dt == "bool":
        return (0, 1)
    if dt[0] == "u" or dt[0] == "f":
        return (0, (1 << w) - 1)
    if dt == "tsmicros96":
        return (-(10 ** 6) * (1 << 63), 10 ** 6 * (1 << 63) - 1)
    if dt == "tsnanos96":
        return (-(10 ** 9) * (1 << 63), 10 ** 9 * (1 << 63) - 1)
    return (-(1 << (w - 1)), (1 << (w - 1)) - 1)


def boundary_raws(dt, rng, extra_random=0):
    lo, hi = raw_range(dt)
    w = lib.UBITS[dt]
    s = set()
    for k in range(0, w + 1):
        for dlt in (-2, -1, 0, 1, 2):
            for sign in (1, -1):
                v = sign * (1 << k) + dlt
                if lo <= v <= hi:
                    s.add(v)
                v2 = lo + (1 << k) + dlt
                if lo <= v2 <= hi:
                    s.add(v2)
                v3 = hi - (1 << k) + dlt
                if lo <= v3 <= hi:
                    s.add(v3)
    for v in (lo, lo + 1, hi - 1, hi, 0, 1, -1):
        if lo <= v <= hi:
            s.add(v)
    if dt in ("f32", "f64"):
        m = 23 if dt == "f32" else 52
        e = w - 1 - m
        for sign in (0, 1):
            base = sign << (w - 1)
            expmax = ((1 << e) - 1) << m
            for v in (0, 1, 2, (1 << m) - 1, 1 << m, (1 << m) + 1, expmax - 1, expmax, expmax + 1,
                      expmax + (1 << (m - 1)), expmax + (1 << m) - 1):
                s.add(base + v)
    for _ in range(extra_random):
        s.add(rng.randint(lo, hi))
        k = rng.randint(0, w)
        v = rng.randint(-(1 << k), 1 << k)
        if lo <= v <= hi:
            s.add(v)
    return sorted(s)


def compare_answers(res, cls, queries, impl, model, tags=None, max_report=3):
    """Line-by-line comparison of implementation and model answers for one correspondence
    class.  Returns list of disagreeing indices."""
    bad = []
    for i, (q, a, b) in enumerate(zip(queries, impl, model)):
        if a != b:
            # a panic on the impl side carries a message; the model prints 'panic model'
            if a.startswith("panic") and b.startswith("panic"):
                continue
            bad.append(i)
    res.oblige("K:" + cls, "K", not bad, "" if not bad else "first disagreement: %s | impl=%s | model=%s" % (
        queries[bad[0]][:300], impl[bad[0]][:200], model[bad[0]][:200]))
    return bad
