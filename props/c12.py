"""C12 — number<->integer mappings are order-preserving bijections; type tag is checked."""
import random
import lib
from props.common import *

from props.theorems import THEOREMS as _T
THEOREMS = _T['C12']


def build(res):
    std_build(res, release=(res.tier == "thorough"))


def run(res):
    rng = random.Random(res.seed)
    prove_obligations(res, THEOREMS)
    thorough = res.tier == "thorough"

    # --- K1: conv diff implementation vs model
    queries = []
    per_dt = {}
    for dt in lib.DTYPES:
        w = lib.UBITS[dt]
        lo, hi = raw_range(dt)
        if dt == "bool":
            raws = [0, 1]
        elif w == 16:
            raws = list(range(lo, hi + 1))          # exhaustive
        elif w == 32:
            stride = 1 << (12 if thorough else 16)
            raws = sorted(set(list(range(lo, hi + 1, stride)) + boundary_raws(dt, rng, 20000 if thorough else 3000)))
        else:
            raws = boundary_raws(dt, rng, 20000 if thorough else 3000)
        per_dt[dt] = raws
        res.count("conv:" + dt, len(raws))
        queries += ["conv %s %d" % (dt, r) for r in raws]
    impl = lib.run_impl(queries)
    model = lib.run_model(queries)
    bad = compare_answers(res, "conv(to_unsigned,to_signed,to_bytes and inverses) impl=model", queries, impl, model)
    for i in bad[:3]:
        res.violations.append({"property": "C12", "what": "implementation and model disagree on a conversion",
                               "query": queries[i], "impl": impl[i], "model": model[i], "tags": ["conv-diff"],
                               "replay_cmd": "echo '%s' | harness/target/debug/qco_harness" % queries[i]})
    # --- O1: the property's own oracle on the implementation answers
    idx = 0
    oracle_bad = []
    for dt in lib.DTYPES:
        raws = per_dt[dt]
        rows = []
        for r in raws:
            a = impl[idx].split()
            q = queries[idx]
            idx += 1
            res.seen(q)
            if a[0] in ("panic", "crash"):
                oracle_bad.append((q, " ".join(a)))
                continue
            u, s, by, fu, fs, fb = a
            if int(fu) != r or int(fs) != r or fb != str(r) or len(by) * 4 != (8 if dt == "bool" else {"tsmicros96": 96, "tsnanos96": 96}.get(dt, lib.UBITS[dt])):
                oracle_bad.append((q, " ".join(a)))
            rows.append((nat_key(dt, r), int(u)))
        rows.sort()
        for (k1, u1), (k2, u2) in zip(rows, rows[1:]):
            if not (u1 < u2):
                oracle_bad.append(("order %s keys %d %d" % (dt, k1, k2), "%d !< %d" % (u1, u2)))
                break
    res.sample({"query": queries[0], "impl": impl[0], "model": model[0]})
    res.sample({"query": queries[-1], "impl": impl[-1], "model": model[-1]})
    res.oblige("O:inverse laws and strict monotonicity on implementation answers", "O", not oracle_bad,
               str(oracle_bad[:2]))
    for q, a in oracle_bad[:3]:
        res.violations.append({"property": "C12", "what": "conversion law fails on the implementation", "query": q,
                               "impl": a, "tags": ["conv-law"]})

    # --- O2: Rust-side sweep of the property's oracle over contiguous unsigned ranges
    sweeps = []
    for dt in lib.DTYPES:
        w = lib.UBITS[dt]
        if dt == "bool":
            sweeps.append("sweep bool 0 2")
        elif w == 16:
            sweeps.append("sweep %s 0 65536" % dt)
        elif w == 32:
            if thorough:
                blk = 1 << 24
                sweeps += ["sweep %s %d %d" % (dt, i * blk, blk + (1 if i < 255 else 0)) for i in range(256)]
            else:
                blk = 1 << 14
                starts = sorted(set([0, (1 << 31) - blk // 2, (1 << 32) - blk] + [rng.randrange(0, (1 << 32) - blk) for _ in range(61)]))
                sweeps += ["sweep %s %d %d" % (dt, s, blk) for s in starts]
        else:
            blk = 1 << (16 if thorough else 12)
            lo, hi = raw_range(dt)
            ulo = lo + (1 << (w - 1)) if dt[0] in "it" else 0
            uhi = hi + (1 << (w - 1)) if dt[0] in "it" else (1 << w) - 1
            starts = set([ulo, uhi - blk + 1, (ulo + uhi) // 2 - blk // 2])
            for k in range(8, w):
                for base in ((1 << k) - blk // 2,):
                    if ulo <= base and base + blk - 1 <= uhi:
                        starts.add(base)
            for _ in range(16):
                starts.add(rng.randrange(ulo, uhi - blk))
            sweeps += ["sweep %s %d %d" % (dt, s, blk) for s in sorted(starts)]
    sw = lib.run_impl(sweeps, release=thorough)
    sbad = [(q, a) for q, a in zip(sweeps, sw) if not a.startswith("ok")]
    total = sum(int(a.split()[1]) for a in sw if a.startswith("ok"))
    res.count("sweep_values", total)
    for q in sweeps:
        res.seen(q)
    res.oblige("O:contiguous-range sweep of inverse laws and successor-preservation (%d values; 16-bit types and bool exhaustive%s)" % (
        total, "; 32-bit types exhaustive" if thorough else ""), "O", not sbad, str(sbad[:2]))
    for q, a in sbad[:3]:
        res.violations.append({"property": "C12", "what": "sweep oracle failed: " + a, "query": q, "tags": ["sweep"]})

    # --- K2/O3: type tag check on real files, all ordered pairs of distinct dtypes
    comp = ["compress %s 8 0 1 1 3 %s" % (dt, " ".join(str(v) for v in [raw_range(dt)[0], 0 if dt != "bool" else 1, raw_range(dt)[1]])) for dt in lib.DTYPES]
    cres = lib.run_impl(comp)
    files = {}
    for dt, a in zip(lib.DTYPES, cres):
        if a.startswith("ok"):
            files[dt] = a.split()[1]
    tagq = []
    for d in lib.DTYPES:
        for d2 in lib.DTYPES:
            if d in files:
                tagq.append(("rdec %s %s" % (d2, files[d]), d == d2))
                tagq.append(("rhist %s 100 w:%s n" % (d2, files[d]), d == d2))
                tagq.append(("rhist %s 100 w:%s h" % (d2, files[d]), d == d2))
    tq = [q for q, _ in tagq]
    ti = lib.run_impl(tq)
    tm = lib.run_model(tq)
    bad = compare_answers(res, "decoding a file under every data type: impl=model", tq, ti, tm)
    tbad = []
    for (q, same), a in zip(tagq, ti):
        res.seen(q)
        if same:
            if a.startswith("err") or a.startswith("panic"):
                tbad.append((q, a))
        else:
            if "err Corruption" not in a:
                tbad.append((q, a))
    res.count("tag_pairs", len(tq))
    res.oblige("O:all %d ordered dtype pairs x 3 entry points: wrong type => Corruption" % (len(lib.DTYPES) * (len(lib.DTYPES) - 1)),
               "O", not tbad and len(files) == len(lib.DTYPES), str(tbad[:2]) + ("" if len(files) == len(lib.DTYPES) else " some compress failed: %s" % cres))
    for q, a in tbad[:3]:
        res.violations.append({"property": "C12", "what": "file decoded under a different data type was not rejected with Corruption",
                               "query": q, "impl": a, "tags": ["tag-check"]})
    for i in bad[:2]:
        res.violations.append({"property": "C12", "what": "impl/model disagree on tag check", "query": tq[i], "impl": ti[i], "model": tm[i], "tags": ["tag-diff"]})

    return lib.finish(
        res,
        "theorems about the Coq model for all values of all 15 types; correspondence: conv diff impl-vs-model (16-bit types and bool exhaustive, 32-bit strided+boundary+random, wide types boundary-dense+random), Rust-side contiguous sweeps of the property oracle, all ordered dtype pairs for the tag check. non-trivial = distinct query",
        lib.COMMON_TRUSTED, "make -C coq Props/C12.vo && coqc work/Audit_C12.v (Print Assumptions)",
        ["the Rust trait implementations are what is exercised; SystemTime conversions are C15"])


def replay(path):
    import json
    v = json.load(open(path))
    q = v.get("query")
    lib.build_translate(); lib.build_model(); lib.build_harness()
    print("impl :", lib.run_impl([q])[0])
    print("model:", lib.run_model([q])[0])
    return 0
