"""C11 — chunks are self-contained, deterministic and randomly accessible."""
import random, subprocess
import lib
from props.common import *
from props import pipeline as pl
from props.codec_cases import *
from props.c04 import first_diff


def build(res):
    std_build(res)


def run(res):
    rng = random.Random(res.seed)
    thorough = res.tier == "thorough"
    from props.theorems import THEOREMS
    prove_obligations(res, THEOREMS.get("C11", []))
    cases = []
    for c in c01_cases(rng, 6000 if thorough else 500, max_n=200):
        xs = pl.flat(c)
        if len(xs) < 2:
            continue
        c["chunks"] = split_chunks(xs, rng.randint(2, 6), rng)
        cases.append(c)
    cases += multi_shape_cases(rng, 400 if thorough else 40)
    q = ["chunkbytes %s %d %d %d %d %s" % (c["dt"], c["level"], c["order"], c["gcds"], len(c["chunks"]), " ".join(pl.nums_str(ch) for ch in c["chunks"])) for c in cases]
    a1 = lib.run_impl(q)
    a2 = lib.run_impl(q[::3], shards=4)          # a second set of processes
    dbad, sbad, kbad = [], [], []
    subq, submeta = [], []
    skipq, skipmeta = [], []
    for i, (c, qq, a) in enumerate(zip(cases, q, a1)):
        res.seen(qq[:5000])
        res.count("dtype:" + c["dt"]); res.count("chunks:%d" % len(c["chunks"]))
        t = a.split()
        if t[0] != "ok":
            dbad.append((qq, a, "compress failed")); continue
        hdr, ftr = t[1], t[2]
        if t[3] != "fresh=true":
            dbad.append((qq, a, "a chunk's bytes differ when it is compressed alone in a fresh compressor"))
        if t[4] != "undrained=true":
            dbad.append((qq, a, "bytes depend on when output was drained"))
        if t[5] != "threads=true":
            dbad.append((qq, a, "bytes differ between concurrent threads"))
        if i % 3 == 0 and a2[i // 3] != a:
            dbad.append((qq, a, "bytes differ between processes/runs"))
        cb = t[7:]
        # header + any sub-sequence / reordering of the chunks + footer is a valid file holding exactly those chunks
        idxs = list(range(len(cb)))
        for _ in range(3):
            sel = [j for j in idxs if rng.random() < 0.5]
            if rng.random() < 0.5:
                rng.shuffle(sel)
            subq.append("rdec %s %s" % (c["dt"], hdr + "".join(cb[j] for j in sel) + ftr))
            submeta.append((c, sel))
        # skip any subset of bodies using only the metadata; decode the others
        choice = [rng.random() < 0.5 for _ in cb]
        ops = ["h"]
        for ch in choice:
            # freeing the consumed bytes between reading a chunk's metadata and skipping / decoding
            # its body must not matter either
            ops += ["m"] + (["f"] if rng.random() < 0.3 else []) + ["b" if ch else "s"] + (["f"] if rng.random() < 0.15 else [])
        ops += ["m"]
        skipq.append("rhist %s 100 w:%s %s" % (c["dt"], hdr + "".join(cb) + ftr, " ".join(ops))); skipmeta.append((c, choice))
    sa = lib.run_impl(subq)
    sm = lib.run_model(subq)
    for qq, a, m, (c, sel) in zip(subq, sa, sm, submeta):
        res.seen(qq[:5000])
        want = "ok " + pl.nums_str([x for j in sel for x in c["chunks"][j]])
        if a.strip() != want.strip():
            sbad.append((qq, a, "sub-sequence of chunks %s does not decode to exactly those chunks" % sel))
        if a != m:
            kbad.append((qq, a, m))
    ka = lib.run_impl(skipq)
    km = lib.run_model(skipq)
    for qq, a, m, (c, choice) in zip(skipq, ka, km, skipmeta):
        res.seen(qq[:5000])
        outs = [x.split(" @")[0] for x in a.split(" ; ")]
        got = [o for o in outs if o.startswith("N ")]
        want = ["N " + pl.nums_str(ch) for ch, sel in zip(c["chunks"], choice) if sel]
        if "err" in a or "panic" in a or [g.strip() for g in got] != [w.strip() for w in want] or outs[-1] != "M none":
            sbad.append((qq, a, "skipping a subset of chunk bodies does not land on the next chunk / decoded chunks differ"))
        if a != m:
            kbad.append((qq, a, m))
    res.sample({"query": q[0][:200], "answer": a1[0][:200]})
    res.oblige("O:chunk bytes are identical in one compressor, a fresh compressor per chunk, with/without drains, on 8 concurrent threads and in a second process",
               "O", not dbad, str([(qq[:200], w) for qq, a, w in dbad[:2]]))
    res.oblige("O:header + any sub-sequence/reordering of chunks + footer decodes to exactly those chunks; skipping any subset of bodies lands on the next chunk",
               "O", not sbad, str([(qq[:200], w) for qq, a, w in sbad[:2]]))
    res.oblige("K:model reader == real reader on the recombined files and skip/decode scripts", "K", not kbad, str([(qq[:200], first_diff(a, m)) for qq, a, m in kbad[:2]]))
    for qq, a, w in (dbad + sbad)[:3]:
        res.violations.append({"property": "C11", "what": w, "query": qq[:200000], "impl": a[:3000], "tags": ["chunk-independence"]})
    for qq, a, m in kbad[:2]:
        res.violations.append({"property": "C11", "what": "model and real reader disagree", "query": qq[:200000], "impl": a[:2000], "model": m[:2000], "tags": ["c11-diff"]})
    return lib.finish(
        res,
        "multi-chunk C01-domain inputs (2-6 chunks); per input: one compressor vs fresh compressor per chunk vs undrained vs 8 threads vs second process; random sub-sequences/reorderings of chunks reassembled into files; random skip/decode choices per chunk; non-trivial = distinct query",
        lib.COMMON_TRUSTED, "make -C coq Props/C11.vo && coqc work/Audit_C11.v (Print Assumptions)",
        ["partial: absence of hidden state across runs/threads is a runtime fact exercised here, not modelled"])


def replay(path):
    import json
    v = json.load(open(path))
    lib.build_translate(); lib.build_model(); lib.build_harness()
    q = v["query"]
    print("impl :", lib.run_impl([q])[0][:1500])
    return 0
