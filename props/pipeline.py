"""Compress -> (model writer, independent decoder, model reader, real reader) pipeline shared
by C01, C02, C03, C10, C11, C14, C18."""
import lib


class Toks:
    def __init__(self, s):
        self.v = s.split()
        self.i = 0

    def next(self):
        t = self.v[self.i]
        self.i += 1
        return t

    def int(self):
        return int(self.next())

    def done(self):
        return self.i >= len(self.v)


def parse_table(t):
    np_ = t.int()
    ps = []
    for _ in range(np_):
        ps.append(dict(count=t.int(), lower=t.int(), upper=t.int(), code=t.next(), jump=t.int(), gcd=t.int()))
    return ps


def parse_meta(t):
    n = t.int()
    body = t.int()
    nm = t.int()
    mom = [t.int() for _ in range(nm)]
    table = parse_table(t)
    return dict(n=n, body=body, moments=mom, table=table)


def table_str(ps):
    return " ".join([str(len(ps))] + ["%d %d %d %s %d %d" % (p["count"], p["lower"], p["upper"], p["code"], p["jump"], p["gcd"]) for p in ps])


def meta_str(m):
    return "%d %d %d %s %s" % (m["n"], m["body"], len(m["moments"]), " ".join(map(str, m["moments"])), table_str(m["table"]))


def nums_str(xs):
    return " ".join([str(len(xs))] + [str(x) for x in xs])


def parse_compress(ans):
    """ok <hex> f5 ord fmin fgcd <nmetas> metas..  -> dict or None"""
    if not ans.startswith("ok "):
        return None
    t = Toks(ans)
    t.next()
    hx = t.next()
    flags = [t.int(), t.int(), t.int(), t.int()]
    nm = t.int()
    metas = [parse_meta(t) for _ in range(nm)]
    return dict(hex=hx, flags=flags, metas=metas)


def parse_specdec(ans):
    """ok f5 ord fmin fgcd extra nch left=k ; chunk ; chunk ...   chunk = meta | nums"""
    if not ans.startswith("ok "):
        return None
    parts = ans.split(" ; ")
    t = Toks(parts[0])
    t.next()
    flags = [t.int(), t.int(), t.int(), t.int()]
    extra = t.int()
    nch = t.int()
    left = int(t.next().split("=")[1])
    chunks = []
    for p in parts[1:]:
        if not p.strip():
            continue
        a, b = p.split(" | ")
        m = parse_meta(Toks(a))
        tb = Toks(b)
        k = tb.int()
        nums = [tb.int() for _ in range(k)]
        chunks.append((m, nums))
    return dict(flags=flags, extra=extra, nch=nch, left=left, chunks=chunks)


def norm_table(ps):
    """the divisor recorded for a single-valued range is not significant"""
    return [(p["count"], p["lower"], p["upper"], p["code"], p["jump"], 1 if p["lower"] == p["upper"] else p["gcd"]) for p in ps]


def compress_query(c):
    return "compress %s %d %d %d %d %s" % (c["dt"], c["level"], c["order"], c["gcds"], len(c["chunks"]),
                                           " ".join(nums_str(ch) for ch in c["chunks"]))


def file_query(c, comp):
    f = comp["flags"]
    parts = []
    for ch, m in zip(c["chunks"], comp["metas"]):
        parts.append(nums_str(ch) + " " + table_str(m["table"]))
    return "file %s %d %d %d %d %d %s" % (c["dt"], f[0], f[1], f[2], f[3], len(c["chunks"]), " ".join(parts))


def short(c):
    d = dict(c)
    d["chunks"] = [ch if len(ch) <= 12 else ch[:12] + ["...(%d)" % len(ch)] for ch in c["chunks"]]
    return d


def run_pipeline(res, cases, release=False, want_spec=True, want_model_reader=True, want_writer=True):
    """Runs all stages; returns list of per-case dicts with every answer. Obligations are
    recorded by the caller through the helper functions below."""
    cq = [compress_query(c) for c in cases]
    ca = lib.run_impl(cq, release=release)
    out = []
    fileq, specq, rdecq = [], [], []
    for c, a in zip(cases, ca):
        comp = parse_compress(a)
        rec = dict(case=c, compress_answer=a if comp is None else "ok", comp=comp)
        out.append(rec)
        if comp is not None:
            rec["i_file"] = len(fileq)
            fileq.append(file_query(c, comp))
            specq.append("specdec %s %s" % (c["dt"], comp["hex"]))
            rdecq.append("rdec %s %s" % (c["dt"], comp["hex"]))
    rdec_impl = lib.run_impl(rdecq, release=release)
    file_model = lib.run_model(fileq) if want_writer else [None] * len(fileq)
    spec_model = lib.run_model(specq) if want_spec else [None] * len(specq)
    rdec_model = lib.run_model(rdecq) if want_model_reader else [None] * len(rdecq)
    for rec in out:
        if rec["comp"] is not None:
            i = rec["i_file"]
            rec["rdec_impl"] = rdec_impl[i]
            rec["file_model"] = file_model[i]
            rec["spec_model"] = spec_model[i]
            rec["rdec_model"] = rdec_model[i]
            rec["queries"] = dict(compress=compress_query(rec["case"])[:100000], file=fileq[i][:100000], rdec=rdecq[i][:100000])
    return out


def flat(c):
    return [x for ch in c["chunks"] for x in ch]


def check_roundtrip(rec):
    """C01 oracle on the implementation: decode(compress(x)) == x"""
    want = "ok " + nums_str(flat(rec["case"]))
    return rec["rdec_impl"].strip() == want.strip()


def check_writer_bytes(rec):
    return rec["file_model"] == "ok " + rec["comp"]["hex"]


def check_model_reader(rec):
    return rec["rdec_model"] == rec["rdec_impl"]


def check_spec(rec):
    """independent decoder on the real bytes recovers flags, metadata and numbers, consuming
    the file exactly"""
    sd = parse_specdec(rec["spec_model"]) if rec["spec_model"] else None
    if sd is None:
        return "independent decoder rejects the bytes"
    comp = rec["comp"]
    c = rec["case"]
    if sd["left"] != 0:
        return "file not consumed exactly: %d bits left" % sd["left"]
    if sd["flags"] != comp["flags"]:
        return "flags differ: %s vs %s" % (sd["flags"], comp["flags"])
    if sd["flags"][1] != c["order"] or sd["flags"][3] != c["gcds"] or sd["extra"] != 0:
        return "flags do not reflect the configuration"
    if len(sd["chunks"]) != len(comp["metas"]):
        return "chunk count differs"
    for (m, nums), m2, ch in zip(sd["chunks"], comp["metas"], c["chunks"]):
        if m["n"] != m2["n"] or m["n"] != len(ch):
            return "count differs"
        if m["body"] != m2["body"]:
            return "body size differs: parsed %d vs returned %d" % (m["body"], m2["body"])
        if m["moments"] != m2["moments"]:
            return "moments differ"
        if norm_table(m["table"]) != norm_table(m2["table"]):
            return "prefix table differs"
        if nums != ch:
            return "numbers differ"
    return None
