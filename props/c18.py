"""C18 — advertised features take effect: exact GCDs, sparse run-length, delta."""
import random, sys, os
from math import gcd
from functools import reduce
sys.path.insert(0, os.path.join(os.path.dirname(os.path.abspath(__file__)), "..", "gen"))
import numgen
import lib
from props.common import *
from props import pipeline as pl
from props.codec_cases import *
from props import pymodel as pm
from props.c14 import WBITS


def build(res):
    std_build(res)


def lattice_cases(rng, count):
    cases = []
    for _ in range(count):
        dt = rng.choice([d for d in lib.DTYPES if d != "bool"])
        shape = rng.choice(["lattice", "two_lattices", "lattice", "clusters", "small", "sorted_dups", "two_pow2"])
        n = rng.randint(2, 400)
        xs = numgen.gen(dt, shape, n, rng)
        cases.append(dict(dt=dt, level=rng.randint(0, 12), order=rng.choice([0, 0, 0, 1, 2]), gcds=1,
                          chunks=split_chunks(xs, rng.choice([1, 1, 2]), rng), shape="gcd-" + shape))
    # floats: tiny chunks mixing NaNs / infinities / zeros of both signs with ordinary values, so that
    # single-valued ranges holding a NaN (or -0.0 beside +0.0) get merged with neighbours
    # (corpus: use_gcd_prefix_optimize used float equality, fixed in bcf6f58)
    cases.append(dict(dt="f64", level=8, order=0, gcds=1, chunks=[[13759665937199634218, 9223372036854775807]], shape="gcd-corpus-nan"))
    for _ in range(max(20, count // 25)):
        dt = rng.choice(["f32", "f64"])
        w = lib.UBITS[dt]
        special = numgen.gen(dt, "floats_special", rng.randint(1, 3), rng)
        other = numgen.gen(dt, rng.choice(["uniform", "lattice", "small"]), rng.randint(1, 4), rng)
        xs = special + other
        rng.shuffle(xs)
        cases.append(dict(dt=dt, level=rng.choice([8, 8, 1, 2, 12]), order=0, gcds=1, chunks=[xs], shape="gcd-float-special"))
    return cases


def check_gcds(c, comp):
    for ch, m in zip(c["chunks"], comp["metas"]):
        us = pm.chunk_unsigneds(c["dt"], ch, c["order"])
        for p in m["table"]:
            if p["lower"] == p["upper"]:
                continue
            members = [u for u in us if p["lower"] <= u <= p["upper"]]
            g = reduce(gcd, [u - p["lower"] for u in members], 0)
            if g == 0:
                g = 1
            if p["gcd"] != g:
                return "range [%d,%d] records divisor %d but the gcd of its members' distances from the lower bound is %d" % (p["lower"], p["upper"], p["gcd"], g)
    return None


def sparse_cases(rng, count):
    cases = []
    for _ in range(count):
        dt = rng.choice(lib.DTYPES)
        ulo, uhi = numgen.u_range(dt) if dt != "bool" else (0, 1)
        n = rng.choice([2000, 2001, 2500, 5000, rng.randint(2000, 20000)])
        freq = rng.choice([0.9, 0.901, 0.95, 0.99, 0.999, 0.9995])
        n_other = max(1, min(n - 1, int(n * (1 - freq))))
        if (n - n_other) / n < 0.9:
            n_other = n - (9 * n + 9) // 10
            if n_other < 1:
                continue
        dom = rng.randint(ulo, uhi)
        okind = rng.choice(["const", "cluster", "full"])
        def outlier():
            while True:
                o = {"const": ulo if dom != ulo else uhi, "cluster": numgen.clampu(dt, dom + rng.randint(-40, 40)) if dt != "bool" else 1 - dom,
                     "full": rng.randint(ulo, uhi)}[okind]
                if o != dom:
                    return o
                if dt == "bool":
                    return 1 - dom
                okind2 = "full"
                o = rng.randint(ulo, uhi)
                if o != dom:
                    return o
        arrangement = rng.choice(["one-run", "geometric", "alternating", "outliers-first", "outliers-last", "random"])
        others = [outlier() for _ in range(n_other)]
        doms = [dom] * (n - n_other)
        if arrangement == "one-run" or arrangement == "outliers-last":
            us = doms + others
        elif arrangement == "outliers-first":
            us = others + doms
        elif arrangement == "alternating":
            us = []
            oi = 0
            per = max(1, (n - n_other) // n_other)
            di = 0
            while oi < n_other or di < n - n_other:
                k = min(per, n - n_other - di)
                us += [dom] * k; di += k
                if oi < n_other:
                    us.append(others[oi]); oi += 1
        else:
            pos = set(rng.sample(range(n), n_other))
            it = iter(others)
            us = [next(it) if i in pos else dom for i in range(n)]
        if dt == "bool":
            xs = us
        else:
            xs = [numgen.of_u(dt, u) for u in us]
        cases.append(dict(dt=dt, level=rng.choice([8, 8, 9, 10, 11, 12]), order=0, gcds=rng.randint(0, 1), chunks=[xs],
                          shape="sparse-" + arrangement, dom=(dom if dt == "bool" else numgen.of_u(dt, dom))))
    return cases


def check_sparse(c, comp):
    xs = c["chunks"][0]
    dom = c["dom"]
    n = len(xs)
    nd = sum(1 for x in xs if x == dom)
    if n < 2000 or nd * 10 < 9 * n or nd == n:
        return None
    runs = 0
    prev = None
    for x in xs:
        if x == dom and prev != dom:
            runs += 1
        prev = x
    w = WBITS[c["dt"]]
    bound_bits = (w + 8) * (n - nd) + 52 * runs
    body_bits = comp["metas"][0]["body"] * 8
    if body_bits > bound_bits + 7:
        return "sparse chunk: body %d bits > (W+8)*%d + 52*%d = %d" % (body_bits, n - nd, runs, bound_bits)
    return None


def poly_cases(rng, count):
    cases = []
    for _ in range(count):
        dt = rng.choice([d for d in lib.DTYPES if d not in ("f32", "f64")])
        d = rng.randint(1, 7)
        n = rng.choice([1, 2, d, d + 1, rng.randint(1, 3000), rng.randint(1, 60)])
        sd = lib.SIGNED_OF[dt]
        w = lib.UBITS[dt]
        lo, hi = numgen.raw_range(dt)
        if dt == "bool":
            # d-th xor differences vanish: generate from moments by integration
            ms = [rng.randint(0, 1) for _ in range(d)]
            seq = integrate_bool(ms, n)
            xs = seq
        else:
            slo, shi = numgen.raw_range(sd)
            ms = [rng.choice([0, 1, -1, slo, shi, rng.randint(slo, shi), rng.randint(-1000, 1000)]) for _ in range(d)]
            xs = integrate_int(dt, ms, n)
            if any(not (lo <= x <= hi) for x in xs):
                continue          # 96-bit timestamps: keep to valid values
        cases.append(dict(dt=dt, level=rng.randint(0, 12), order=d, gcds=rng.randint(0, 1), chunks=[xs], shape="poly-d%d" % d))
    return cases


def integrate_int(dt, ms, n):
    w = lib.UBITS[dt]
    ms = list(ms)
    out = []
    for _ in range(n):
        out.append(ms[0])
        for o in range(len(ms) - 1):
            ms[o] = pm.swrap(w, ms[o] + ms[o + 1])
        # highest moment stays (its difference is zero)
    # from signed back to raw
    def of_s(s):
        if dt[0] == "u":
            return s + (1 << (w - 1))
        return s
    return [of_s(s) for s in out]


def integrate_bool(ms, n):
    ms = list(ms)
    out = []
    for _ in range(n):
        out.append(ms[0])
        for o in range(len(ms) - 1):
            ms[o] = (ms[o] + ms[o + 1]) % 2
    return out


def run(res):
    rng = random.Random(res.seed)
    thorough = res.tier == "thorough"
    from props.theorems import THEOREMS
    prove_obligations(res, THEOREMS.get("C18", []))
    g_cases = lattice_cases(rng, 20000 if thorough else 1500) + repeated_lattice_cases(rng, 200 if thorough else 16) + [c for c in c01_cases(rng, 8000 if thorough else 600, max_n=300) if c["gcds"] == 1]
    s_cases = sparse_cases(rng, 1500 if thorough else 120)
    p_cases = poly_cases(rng, 6000 if thorough else 500)
    out = pl.run_pipeline(res, g_cases + s_cases + p_cases, want_spec=False, want_model_reader=False, want_writer=False)
    gbad, sbad, pbad, fail = [], [], [], []
    for rec in out:
        c = rec["case"]
        res.seen((c["dt"], c["level"], c["order"], c["gcds"], str(c["chunks"])[:3000]))
        res.count("class:" + c["shape"].split("-")[0]); res.count("dtype:" + c["dt"])
        if rec["comp"] is None:
            fail.append((rec, rec["compress_answer"][:100])); continue
        if not pl.check_roundtrip(rec):
            fail.append((rec, "round trip failed"))
        if c["shape"].startswith("sparse-"):
            w = check_sparse(c, rec["comp"])
            if w: sbad.append((rec, w))
            if c["gcds"] == 1:
                w = check_gcds(c, rec["comp"])
                if w: gbad.append((rec, w))
        elif c["shape"].startswith("poly-"):
            m = rec["comp"]["metas"][0]
            if m["body"] != 0:
                pbad.append((rec, "sequence with vanishing %d-th differences compressed at order %d has a body of %d bytes (n=%d)" % (c["order"], c["order"], m["body"], m["n"])))
        else:
            w = check_gcds(c, rec["comp"])
            if w: gbad.append((rec, w))
    from props.policy_corr import run_policy_corr
    run_policy_corr(res, rng, thorough)
    res.sample({"case": pl.short(s_cases[0]) if s_cases else None})
    res.sample({"case": pl.short(p_cases[0]) if p_cases else None})
    res.oblige("O:(1) with GCDs on, the divisor of every multi-valued range is exactly the gcd of its members' distances from the lower bound", "O", not gbad,
               str([(w, pl.short(r["case"])) for r, w in gbad[:2]])[:900])
    res.oblige("O:(2) n >= 2000 with one value >= 90% (not all), level >= 8, order 0: body <= (W+8) bits per other number + 52 bits per maximal run", "O", not sbad,
               str([(w, pl.short(r["case"])) for r, w in sbad[:2]])[:900])
    res.oblige("O:(3) a sequence whose d-th wrapping differences vanish compresses at delta order d to metadata only (empty body)", "O", not pbad,
               str([(w, pl.short(r["case"])) for r, w in pbad[:2]])[:900])
    res.oblige("O:every generated case compresses and round trips", "O", not fail, str([(w, pl.short(r["case"])) for r, w in fail[:2]])[:600])
    for r, w in gbad[:2]:
        res.violations.append({"property": "C18", "what": w, "case": r["case"], "metas": r["comp"]["metas"], "tags": ["gcd-exact"]})
    for r, w in sbad[:2]:
        res.violations.append({"property": "C18", "what": w, "case": {k: v for k, v in r["case"].items() if k != "chunks"}, "query": pl.compress_query(r["case"])[:300000], "tags": ["sparse-bound"]})
    for r, w in pbad[:2]:
        res.violations.append({"property": "C18", "what": w, "case": r["case"], "tags": ["delta-collapse"]})
    for r, w in fail[:2]:
        res.violations.append({"property": "C18", "what": w, "case": r["case"], "tags": ["c18-fail"]})
    return lib.finish(
        res,
        "(1) lattices a+g*i with per-range different g, mixed single/multi-valued neighbours, C01-domain cases with use_gcds; (2) sparse chunks n 2000..20000, dominant frequency 0.9..0.9995, run shapes {one run, outliers first/last, alternating, random}, outliers {constant, clustered, full range}, levels 8..12, all dtypes; (3) polynomial sequences built from d random initial moments (incl. type extremes, wrap-around) for d 1..7, n 1..3000, all integer-like dtypes; non-trivial = distinct case",
        lib.COMMON_TRUSTED, "make -C coq Props/C18.vo && coqc work/Audit_C18.v (Print Assumptions)",
        ["partial for (2): the code-length part of the sparse bound depends on f64 Huffman weights; tested, not proved"])


def replay(path):
    import json
    v = json.load(open(path))
    lib.build_translate(); lib.build_model(); lib.build_harness()
    q = v.get("query") or pl.compress_query(v["case"])
    print("impl :", lib.run_impl([q])[0][:1500])
    return 0
