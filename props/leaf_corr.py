"""Unit-level correspondence of leaf functions through the verif hooks: BitWriter::write_diff /
BitReader::read_diff / unchecked_read_diff at every alignment and width (the usize-word packing
against the bit-list contract), write_varint/read_varint, Prefix::k_info, gcd_bits_required,
Flags::bits_to_encode_count."""
import random
import lib


def run_leaf_corr(res, rng, thorough):
    bad = []
    # word packing: `pre` one-bits, then write_diff(x, n); expected bits = ones(pre) ++ put n x ++ zero pad
    qs = []
    for dt, w in (("u16", 16), ("u32", 32), ("u64", 64), ("u128", 128)):
        pres = range(0, 64) if thorough else sorted(set([0, 1, 7, 8, 31, 32, 33, 56, 62, 63] + [rng.randrange(64) for _ in range(6)]))
        for pre in pres:
            for n in sorted(set([0, 1, 2, 7, 8, 9, w - 1, w, min(w, 64), min(w, 65), rng.randint(0, w), rng.randint(0, w)])):
                x = rng.choice([0, (1 << w) - 1, 1 << (w - 1), rng.getrandbits(w), rng.getrandbits(max(1, n)) if n else 0])
                qs.append((dt, w, pre, x, n))
    ia = lib.run_impl(["wdiff %s %d %d %d" % (dt, pre, x, n) for (dt, w, pre, x, n) in qs])
    for (dt, w, pre, x, n), a in zip(qs, ia):
        t = a.split()
        if len(t) != 6:
            bad.append(("wdiff", (dt, pre, x, n), a)); continue
        nbits, hx, chk, cidx, unchk, uidx = t
        bits = [1] * pre + [(x >> (n - 1 - i)) & 1 for i in range(n)]
        bits += [0] * ((8 - len(bits) % 8) % 8)
        want = bytes(int("".join(map(str, bits[i:i + 8])), 2) for i in range(0, len(bits), 8)).hex() or "-"
        val = x % (1 << n) if n else 0
        if int(nbits) != pre + n or hx != want or chk != str(val) or int(cidx) != pre + n or unchk != str(val) or int(uidx) != pre + n:
            bad.append(("wdiff", (dt, pre, x, n), a))
    res.count("leaf:wdiff", len(qs))
    # varint: all jumpstarts, boundary-dense values; impl bits and read-back vs model
    vq = []
    for j in range(0, 25):
        xs = set([0, 1, 2, (1 << j) - 1 if j else 0, 1 << j if j < 24 else 0, (1 << 23) - 1, 1 << 23, (1 << 24) - 1])
        for _ in range(30 if thorough else 6):
            xs.add(rng.getrandbits(rng.randint(1, 24)))
        for x in sorted(xs):
            if x < (1 << 24):
                vq.append("varint %d %d %d" % (rng.randrange(64), x, j))
    va, vm = lib.run_impl(vq), lib.run_model(vq)
    for q, a, m in zip(vq, va, vm):
        x = q.split()[2]
        ta = a.split()
        if a != m or len(ta) != 5 or ta[1] != x or ta[3] != x or ta[2] != ta[4]:
            bad.append(("varint", q, a + " | model " + m))
    res.count("leaf:varint", len(vq))
    # k_info and gcd_bits_required: range = 2^k + delta for every k, |delta| <= 3
    kq, gq = [], []
    for dt, w in (("u16", 16), ("u32", 32), ("u64", 64), ("u128", 128), ("i64", 64), ("f32", 32)):
        for k in range(0, w + 1):
            for dlt in (-3, -2, -1, 0, 1, 2, 3):
                r = (1 << k) + dlt
                if 0 <= r <= (1 << w) - 1:
                    lo = rng.choice([0, ((1 << w) - 1 - r)])
                    g = rng.choice([1, 1, 2, 3, max(1, r)])
                    kq.append("kinfo %s %d %d %d" % (dt, lo, lo + r, g))
                    if dt[0] == "u":
                        gq.append("gcdbits %s %d" % (dt, r))
    for qq in (kq, gq):
        a, m = lib.run_impl(qq), lib.run_model(qq)
        bad += [("leaf", q, x + " | model " + y) for q, x, y in zip(qq, a, m) if x != y]
    res.count("leaf:kinfo+gcdbits", len(kq) + len(gq))
    # bits_to_encode_count: f64 formula vs integer ceil(log2(n+1))
    cq = ["countbits 1 %d" % n for n in sorted(set([0, 1, 2, 3, (1 << 24) - 1] + [(1 << k) + d for k in range(1, 25) for d in (-2, -1, 0, 1) if 0 <= (1 << k) + d < (1 << 24)] +
                                                    [rng.randrange(1 << 24) for _ in range(20000 if thorough else 2000)]))] + ["countbits 0 5"]
    a, m = lib.run_impl(cq), lib.run_model(cq)
    bad += [("countbits", q, x + " | model " + y) for q, x, y in zip(cq, a, m) if x != y]
    res.count("leaf:countbits", len(cq))
    for q in kq + gq + cq + vq:
        res.seen("leaf:" + q)
    for t in qs:
        res.seen("leaf:wdiff %s %d %d %d" % (t[0], t[2], t[3], t[4]))
    res.oblige("K:leaf functions through the hooks == model (usize-word write_diff/read_diff/unchecked_read_diff at alignments 0..63 and all widths vs the bit-list contract; write_varint/read_varint; Prefix::k_info and gcd_bits_required at 2^k+-3 for every k; bits_to_encode_count)",
               "K", not bad, str(bad[:2])[:600])
    for kind, q, a in bad[:2]:
        res.violations.append({"property": res.prop, "what": "leaf function disagrees with the model: " + kind, "query": str(q)[:2000], "impl": str(a)[:2000], "tags": ["leaf-diff"]})
