"""C06 — truncated files are reported as insufficient data, never as success."""
import random
import lib
from props.common import *
from props import pipeline as pl
from props.files import *


def build(res):
    std_build(res, release=True)


def run(res):
    rng = random.Random(res.seed)
    thorough = res.tier == "thorough"
    from props.theorems import THEOREMS
    prove_obligations(res, THEOREMS.get("C06", []))
    files, bad = compressed_files(rng, 600 if thorough else 70, max_n=250)
    big, bad2 = compressed_files(rng, 40 if thorough else 6, max_n=8000, shapes=["sparse", "uniform", "clusters"])
    # categorical data: bodies that are nothing but Huffman codes of different lengths
    cat, bad3 = compressed_files(rng, 300 if thorough else 45, max_n=1500, shapes=["zipf"], orders=[0, 0, 0, 1], levels=[8, 8, 12, 4])
    cat = [f for f in cat if len(f["hex"]) // 2 <= 4096]
    files = files + cat
    bad = bad + bad3
    res.oblige("K:valid files were produced", "K", not bad and not bad2, str((bad + bad2)[:1])[:300])
    qs, meta = [], []
    for f in files + big:
        hx = f["hex"]
        L = len(hx) // 2
        if L <= 4096 and f not in big:
            lens = range(0, L)
        else:
            lens = sorted(set(list(range(0, min(L, 64))) + list(range(max(0, L - 64), L)) + [rng.randrange(0, L) for _ in range(200)]))
        for l in lens:
            qs.append("rdec %s %s" % (f["dt"], hx[:2 * l] or "-")); meta.append((f, l, L))
    ia = lib.run_impl(qs)
    # the model is run on a third of the truncations of files up to 1 kB (it is ~100x slower)
    midx = [i for i, (f, l, L) in enumerate(meta) if L <= 1024 and (i % 3 == 0 or l >= L - 2 or l < 8)]
    mq = [qs[i] for i in midx]
    ma = lib.run_model(mq)
    ir = lib.run_impl(qs[::7], release=True)
    obad = [(q, a) for q, a in zip(qs, ia) if a.strip() != "err InsufficientData"]
    rbad = [(q, a) for q, a in zip(qs[::7], ir) if a.strip() != "err InsufficientData"]
    kbad = [(qs[i], ia[i], m) for i, m in zip(midx, ma) if ia[i] != m]
    res.count("model_diffed", len(mq))
    for q, (f, l, L) in zip(qs, meta):
        res.seen(q[:3000])
        res.count("where:" + ("header" if l < 6 else "last-byte" if l == L - 1 else "inside"))
    res.sample({"query": qs[3][:120], "impl": ia[3]})
    res.sample({"query": qs[-1][:120], "impl": ia[-1]})
    res.oblige("O:whole-file decompression of every strict prefix fails with InsufficientData (debug build)", "O", not obad, str([(q[:150], a[:80]) for q, a in obad[:2]]))
    res.oblige("O:same in the release build", "O", not rbad, str([(q[:150], a[:80]) for q, a in rbad[:2]]))
    res.oblige("K:model reader == real reader on every truncation", "K", not kbad, str([(q[:150], a[:60], m[:60]) for q, a, m in kbad[:2]]))
    for q, a in (obad + rbad)[:3]:
        res.violations.append({"property": "C06", "what": "truncated file not reported as InsufficientData: " + a[:100], "query": q[:200000], "tags": ["truncation"]})
    for q, a, m in kbad[:2]:
        res.violations.append({"property": "C06", "what": "model and real reader disagree on a truncated file", "query": q[:200000], "impl": a[:500], "model": m[:500], "tags": ["truncation-diff"]})
    return lib.finish(
        res,
        "C01-domain files; every truncation length for files <= 4 kB, boundary-dense + random lengths for larger ones; non-trivial = distinct truncated byte string",
        lib.COMMON_TRUSTED, "make -C coq Props/C06.vo && coqc work/Audit_C06.v (Print Assumptions)", [])


def replay(path):
    import json
    v = json.load(open(path))
    lib.build_translate(); lib.build_model(); lib.build_harness()
    q = v["query"]
    print("impl :", lib.run_impl([q])[0][:300]); print("model:", lib.run_model([q])[0][:300])
    return 0
