"""C07 — corrupt or hostile bytes never panic or hang any decode entry point."""
import random
import lib
from props.common import *
from props import pipeline as pl
from props.files import *
from props.c04 import first_diff
from props.c08 import gen_history


def build(res):
    std_build(res, release=True)


def scripts(dt, hx, rng, n_hint):
    L = len(hx) // 2 if hx != "-" else 0
    k = 4 + min(4, n_hint)   # few repeated calls: a hostile depth-31 code table costs ~4 s and 2 GiB per call
    yield "rdec %s %s" % (dt, hx)
    yield "rhist %s 100000 w:%s h %s" % (dt, hx, " ".join(["m", "s", "m", "b"] * 2))
    yield "rhist %s %d w:%s %s" % (dt, rng.choice([1, 30, 100000]), hx, " ".join(["n"] * k))
    if L <= 120:
        ops = []
        for i in range(L):
            ops += ["w:" + hx[2 * i:2 * i + 2], "n"]
        yield "rhist %s %d %s %s" % (dt, rng.choice([1, 30, 100000]), " ".join(ops), " ".join(["n"] * 6))


def run(res):
    rng = random.Random(res.seed)
    thorough = res.tier == "thorough"
    from props.theorems import THEOREMS
    prove_obligations(res, THEOREMS.get("C07", []))
    files, bad = compressed_files(rng, 150 if thorough else 24, max_n=40)
    gfiles = grammar_files(rng, 80 if thorough else 10)
    sparse, _ = compressed_files(rng, 20 if thorough else 2, max_n=1500, shapes=["sparse", "rl_wide", "zipf"], orders=[0, 1], levels=[3, 8])
    base = files + gfiles + sparse
    qs = []
    def add(dt, hx, n_hint, all_scripts):
        sc = list(scripts(dt, hx, rng, n_hint))
        for q in (sc if all_scripts else [sc[0], rng.choice(sc[1:])]):
            qs.append(q)
    for fi, f in enumerate(base):
        hx, dt = f["hex"], f["dt"]
        b = bytes.fromhex(hx)
        L = len(b)
        n_hint = len(flat(f))
        exhaustive = L <= 300 and (fi % 4 == 0 or thorough)
        if exhaustive:
            for i in range(L):
                for bit in range(8):
                    m = bytearray(b); m[i] ^= 1 << bit
                    add(dt, bytes(m).hex(), n_hint, (i + bit) % 16 == 0)
            res.count("exhaustive-bitflip-files")
        positions = range(L) if (L <= 300 and fi % 4 == 1) else [rng.randrange(L) for _ in range(40)]
        for i in positions:
            for v in (0, 1, 0x7f, 0x80, 0xff, rng.randrange(256)):
                if b[i] == v:
                    continue
                m = bytearray(b); m[i] = v
                add(dt, bytes(m).hex(), n_hint, False)
        # splices, truncations + garbage, deletions, random data behind a valid header
        other = bytes.fromhex(rng.choice(base)["hex"])
        for _ in range(12):
            a, c = rng.randrange(L + 1), rng.randrange(len(other) + 1)
            add(dt, (b[:a] + other[c:]).hex() or "-", n_hint, False)
            add(dt, (b[:a] + bytes(rng.randrange(256) for _ in range(rng.randint(0, 40)))).hex() or "-", n_hint, False)
            d = bytearray(b)
            if d:
                del d[rng.randrange(len(d))]
            add(dt, bytes(d).hex() or "-", n_hint, False)
        for _ in range(10):
            add(dt, (b[:6] + bytes(rng.randrange(256) for _ in range(rng.randint(0, 80)))).hex(), n_hint, False)
    # mixed random call sequences over corrupted files
    for _ in range(20000 if thorough else 1500):
        f = rng.choice(base)
        ops = gen_history(f, rng, True)
        qs.append("rhist %s %d %s" % (f["dt"], rng.choice([1, 2, 30, 100000]), " ".join(ops)))
    import time, os
    if os.environ.get("VERIF_DUMP"):
        open(os.environ["VERIF_DUMP"], "w").write("\n".join(qs) + "\n")
    t0 = time.time()
    ia = lib.run_impl(qs, shards=15, timeout=2400)
    t1 = time.time()
    # the model is ~30x slower than the library: the quick tier diffs every 4th mutant
    step = 1 if thorough else 4
    # (mutants that make the library produce more than ~50k numbers are left to the oracle)
    midx = [i for i in range(0, len(qs), step) if len(ia[i]) < 400000]
    # the list-based model can take minutes where the real decoder fills a vector (a mutant declaring
    # millions of zero-bit numbers): such lines answer "modeltimeout" and are left to the oracle
    msub = lib.run_model([qs[i] for i in midx], line_timeout=20)
    ma = [None] * len(qs)
    for i, m in zip(midx, msub):
        ma[i] = None if m == "modeltimeout" else m
    res.count("model_diffed", len(msub))
    res.count("model_timeouts", sum(1 for m in msub if m == "modeltimeout"))
    t2 = time.time()
    ir = lib.run_impl(qs[::5], release=True, shards=15, timeout=2400)
    res.notes.append("wall: debug impl %.0fs (%d queries), model %.0fs (%d), release impl %.0fs (%d)" % (t1 - t0, len(qs), t2 - t1, len(midx), time.time() - t2, len(qs[::5])))
    pbad, kbad = [], []
    for q, a, m in zip(qs, ia, ma):
        res.seen(q[:6000])
        cls = "panic" if a.startswith("panic") else "crash" if a.startswith("crash") else "numbers" if a.startswith("ok") else a.split(" ; ")[-1].split(" @")[0][:24] if a.startswith("err") or " ; " in a else a[:20]
        res.count("outcome:" + (cls if cls in ("panic", "crash", "numbers") else ("err" if "err" in cls else "other")))
        if a.startswith("panic") or a.startswith("crash"):
            pbad.append((q, a)); continue
        if m is not None and a != m:
            kbad.append((q, a, m))
    rpbad = [(q, a) for q, a in zip(qs[::5], ir) if a.startswith("panic") or a.startswith("crash")]
    mpanic = [(q, m) for q, m in zip(qs, ma) if m is not None and (m.startswith("panic") or m.startswith("modelerror"))]
    res.sample({"query": qs[5][:200], "impl": ia[5][:160]})
    res.sample({"query": qs[-1][:200], "impl": ia[-1][:160]})
    res.oblige("O:no decode entry point panics, overflows, indexes out of bounds or hangs on any mutant (debug build: overflow checks and debug assertions on; 40 min watchdog per shard)",
               "O", not pbad, str([(q[:200], a[:120]) for q, a in pbad[:2]]))
    res.oblige("O:same in the release build", "O", not rpbad, str([(q[:200], a[:120]) for q, a in rpbad[:2]]))
    res.oblige("K:model R (with its arithmetic hazard points) never reaches Panic and == real decoder on every mutant and call script", "K",
               not kbad and not mpanic, str([(q[:200], first_diff(a, m)) for q, a, m in kbad[:2]] + mpanic[:1]))
    for q, a in (pbad + rpbad)[:3]:
        res.violations.append({"property": "C07", "what": "decoding hostile bytes panicked/crashed: " + a[:200], "query": q[:200000], "tags": ["panic"]})
    for q, a, m in kbad[:2]:
        res.violations.append({"property": "C07", "what": "model and real decoder disagree on hostile input: " + first_diff(a, m), "query": q[:200000], "tags": ["hostile-diff"]})
    return lib.finish(
        res,
        "mutants of valid files of many dtype/flag combinations: every single-bit flip (files <= 300 bytes, a quarter of the files in the quick tier), byte substitutions {0,1,0x7f,0x80,0xff,random}, splices, truncation+garbage, deletions, random bytes behind a valid header; each through whole-file decode plus one of: chunk API with skipping, iterator with limit 1/30/100000, byte-at-a-time writes + iterator; plus random call sequences; non-trivial = distinct (mutant, script)",
        lib.COMMON_TRUSTED, "make -C coq Props/C07.vo && coqc work/Audit_C07.v (Print Assumptions)",
        ["partial: allocation size/time of validate_prefix_tree (2^max_depth flags), Vec::with_capacity(batch) are exercised, not modelled; the word-level bit packing is modelled in Words.v and tied by the wordops scripts of C02/C03"])


def replay(path):
    import json
    v = json.load(open(path))
    lib.build_translate(); lib.build_model(); lib.build_harness()
    q = v["query"]
    a, m = lib.run_impl([q])[0], lib.run_model([q])[0]
    print("impl :", a[:1500]); print("model:", m[:1500])
    return 0
