"""C02 — writer conforms to the frozen .qco format (independent decoder agrees)."""
import random
import lib
from props.common import *
from props import pipeline as pl
from props.codec_cases import *
from props import assets


def build(res):
    std_build(res)


def run(res):
    rng = random.Random(res.seed)
    thorough = res.tier == "thorough"
    from props.theorems import THEOREMS
    proved = prove_obligations(res, THEOREMS.get("C02", []))
    cases = corpus_cases() + c01_cases(rng, 40000 if thorough else 2500, max_n=250)
    out = pl.run_pipeline(res, cases, want_model_reader=False)
    w_bad, s_bad, comp_bad = [], [], []
    for rec in out:
        c = rec["case"]
        res.seen((c["dt"], c["level"], c["order"], c["gcds"], str(c["chunks"])[:2000]), nontrivial=len(pl.flat(c)) > 0)
        res.count("dtype:" + c["dt"]); res.count("shape:" + c["shape"]); res.count("order:%d" % c["order"])
        if rec["comp"] is None:
            comp_bad.append(rec); continue
        if not pl.check_writer_bytes(rec): w_bad.append(rec)
        s = pl.check_spec(rec)
        if s: s_bad.append((rec, s))
    res.sample({"case": pl.short(out[len(out) // 3]["case"]), "independent_decoder": (out[len(out) // 3].get("spec_model") or "")[:200]})
    res.oblige("K:bytes of the real compressor == model writer W.file_bytes (= grammar serialisation) on the returned tables", "K",
               not w_bad and not comp_bad, str([pl.short(r["case"]) for r in (w_bad + comp_bad)[:1]])[:600])
    res.oblige("O:independent decoder Spec.dec_file on the real bytes recovers the same flags, chunk metadata and numbers and consumes the file exactly",
               "O", not s_bad, str([(s, pl.short(r["case"])) for r, s in s_bad[:2]])[:800])
    for r, s in s_bad[:3]:
        res.violations.append({"property": "C02", "what": "independent decoder disagrees with what was compressed: " + s,
                               "case": r["case"], "hex": r["comp"]["hex"][:6000], "tags": ["spec-dec"]})
    for r in w_bad[:2]:
        res.violations.append({"property": "C02", "what": "real compressor bytes differ from the grammar serialisation of the returned tables",
                               "case": r["case"], "impl_hex": r["comp"]["hex"][:4000], "model": (r["file_model"] or "")[:4000], "tags": ["writer-diff"]})
    for r in comp_bad[:2]:
        res.violations.append({"property": "C02", "what": "compress failed: " + r["compress_answer"][:200], "case": r["case"], "tags": ["compress-fail"]})
    # 64-bit-word level: the real BitWriter against Words.v on operation scripts (own rng stream)
    from props.words_corr import run_words_corr
    run_words_corr(res, random.Random(res.seed + 17), thorough, parts=("writer",))
    # shipped assets through the independent decoder (extracted model; the in-Coq version is theorem C02_grammar_reads_shipped_assets)
    a = assets.load()
    sq = ["specdec %s %s" % (dt, hx) for (_, dt, hx, _) in a]
    sa = lib.run_model(sq)
    abad = []
    for (name, dt, hx, vals), ans in zip(a, sa):
        res.seen("asset" + name)
        sd = pl.parse_specdec(ans)
        got = [x for (_, nums) in sd["chunks"] for x in nums] if sd else None
        if sd is None or sd["left"] != 0 or got != vals:
            abad.append(name)
    res.oblige("K:extracted independent decoder parses the 8 shipped assets (written by 0.4-0.10) to their recorded values", "K", not abad, str(abad))
    if not proved and not res.violations:
        # a broken theorem (e.g. a changed format constant): search with the frozen grammar on the new bytes has been done above
        pass
    return lib.finish(
        res,
        "C01-domain cases; per case the real bytes are compared with the model writer and parsed by the independent grammar decoder (frozen constants); shipped assets parsed by the same decoder; non-trivial = distinct non-empty case",
        lib.COMMON_TRUSTED, "make -C coq Props/C02.vo && coqc work/Audit_C02.v (Print Assumptions)",
        ["Spec.v was written from the README format section and the pinned constants once and is not regenerated (Frozen.v)"])


def replay(path):
    import json
    v = json.load(open(path))
    lib.build_translate(); lib.build_model(); lib.build_harness()
    c = v["case"]
    a = lib.run_impl([pl.compress_query(c)])[0]
    comp = pl.parse_compress(a)
    print("impl compress:", a[:300])
    if comp:
        print("independent decoder:", lib.run_model(["specdec %s %s" % (c["dt"], comp["hex"])])[0][:600])
        print("model writer      :", lib.run_model([pl.file_query(c, comp)])[0][:300])
    return 0
