"""C17 — CLI: compressing a column and decompressing it reproduces the column."""
import os, random, re, shutil, struct, subprocess, sys, tempfile, datetime
sys.path.insert(0, os.path.join(os.path.dirname(os.path.abspath(__file__)), "..", "gen"))
import numgen
import lib
from props.common import *
from props import pipeline as pl

CLI_TARGET = os.path.join(lib.HARNESS, "target_cli")
QC = os.path.join(CLI_TARGET, "release", "qcompress")
TOOL = os.path.join(CLI_TARGET, "release", "qco_clitool")
CLI_NAME = {"i16": "i16", "i32": "i32", "i64": "i64", "u16": "u16", "u32": "u32", "u64": "u64", "f32": "f32", "f64": "f64",
            "tsmicros": "micros", "tsnanos": "nanos"}
INSPECT_NAME = {"tsmicros": "TimestampMicros", "tsnanos": "TimestampNanos"}


def build(res):
    std_build(res)
    lock = os.path.join(lib.ROOT, "clitool", "Cargo.lock")
    if not os.path.exists(lock):
        shutil.copy(os.path.join(lib.REPO, "Cargo.lock"), lock)
    rc, out = lib.sh(["cargo", "build", "--offline", "--release", "--target-dir", CLI_TARGET], cwd=os.path.join(lib.ROOT, "clitool"), timeout=2400)
    if rc != 0:
        raise lib.BuildBroken("clitool", out[-3000:])
    rc, out = lib.sh(["cargo", "build", "--offline", "--release", "-p", "q_compress_cli", "--target-dir", CLI_TARGET], cwd=lib.REPO, timeout=2400)
    if rc != 0:
        raise lib.BuildBroken("qcompress-cli", out[-3000:])


def f32_val(bits):
    return struct.unpack(">f", struct.pack(">I", bits))[0]


def f64_val(bits):
    return struct.unpack(">d", struct.pack(">Q", bits))[0]


def gen_column(dt, rng, rows):
    if dt in ("f32", "f64"):
        w = lib.UBITS[dt]
        out = []
        while len(out) < rows:
            shape = rng.choice(["uniform", "small", "lattice", "sparse", "walk"])
            for b in numgen.gen(dt, shape, min(rows - len(out), 50), rng):
                v = f32_val(b) if dt == "f32" else f64_val(b)
                if v != v or v in (float("inf"), float("-inf")):
                    continue
                out.append(b)
        return out[:rows]
    if dt in ("tsmicros", "tsnanos"):
        pps = 10 ** 6 if dt == "tsmicros" else 10 ** 9
        base = rng.randint(0, 4 * 10 ** 9) * pps
        step = rng.choice([1, 1000, pps, 60 * pps])
        return [min(base + i * step + rng.randint(0, step), (1 << 62)) for i in range(rows)]
    shape = rng.choice(["uniform", "small", "lattice", "sparse", "walk", "poly", "extremes", "clusters"])
    return numgen.gen(dt, shape, rows, rng)


def text_of(dt, raw):
    if dt == "f32":
        return repr(f32_val(raw)) if abs(f32_val(raw)) < 1e30 or True else repr(f32_val(raw))
    if dt == "f64":
        return repr(f64_val(raw))
    return str(raw)


def parse_ts(s, pps):
    # "%Y-%m-%dT%H:%M:%S%.f"
    m = re.fullmatch(r"(\d+)-(\d+)-(\d+)T(\d+):(\d+):(\d+)(?:\.(\d+))?", s.strip())
    if not m:
        return None
    y, mo, d, h, mi, se = [int(x) for x in m.groups()[:6]]
    frac = (m.group(7) or "")
    days = (datetime.date(y, mo, d) - datetime.date(1970, 1, 1)).days
    secs = days * 86400 + h * 3600 + mi * 60 + se
    ns = int((frac + "000000000")[:9])
    return secs * pps + ns // (10 ** 9 // pps)


def equal_printed(dt, raw, line):
    line = line.strip()
    try:
        if dt == "f32":
            return f32_val(raw) == struct.unpack(">f", struct.pack(">f", float(line)))[0]
        if dt == "f64":
            return f64_val(raw) == float(line)
        if dt in ("tsmicros", "tsnanos"):
            return parse_ts(line, 10 ** 6 if dt == "tsmicros" else 10 ** 9) == raw
        return int(line) == raw
    except Exception:
        return False


def run_cli(args, timeout=120):
    p = subprocess.run([QC] + args, stdout=subprocess.PIPE, stderr=subprocess.PIPE, text=True, timeout=timeout)
    return p.returncode, p.stdout, p.stderr


def run(res):
    rng = random.Random(res.seed)
    thorough = res.tier == "thorough"
    from props.theorems import THEOREMS
    prove_obligations(res, THEOREMS.get("C17", []))
    tmp = tempfile.mkdtemp(prefix="qco_c17_", dir=lib.WORK)
    obad = []
    ninv = 0
    libq, libmeta = [], []
    try:
        ncases = 400 if thorough else 120
        for ci in range(ncases):
            dt = list(CLI_NAME)[ci % len(CLI_NAME)] if ci < 2 * len(CLI_NAME) else rng.choice(list(CLI_NAME))
            rows = rng.choice([1, 2, 3, 7, 50, rng.randint(1, 300), rng.randint(300, 5000 if thorough else 2500)])
            col = gen_column(dt, rng, rows)
            fmt = "parquet" if dt in ("tsmicros", "tsnanos") else rng.choice(["csv-name", "csv-idx", "parquet", "csv-infer" if dt == "i64" else "csv-name"])
            chunk_size = rng.choice([1, 2, 7, max(1, rows - 1), rows, rows + 1, 1000000, rng.randint(1, rows + 5)])
            if ci % 8 == 5:
                # several chunks of more than a thousand rows each, chunk size unrelated to any reader batch size
                rows = rng.randint(1100, 6000 if thorough else 4500)
                col = gen_column(dt, rng, rows)
                chunk_size = rng.choice([rows - 1, rows // 2 + 1, 1025, 1500, 2047, rng.randint(1025, rows - 1), rng.randint(1025, rows - 1)])
            if rows // chunk_size > 600:
                chunk_size = max(chunk_size, rows // 300)
            level = rng.randint(0, 12)
            order = rng.choice([None, None, 0, 1, 2, 7, rng.randint(0, 7)])
            gcds_off = rng.random() < 0.3
            base = os.path.join(tmp, "c%d" % ci)
            qco = base + ".qco"
            args = ["compress", "--level", str(level), "--chunk-size", str(chunk_size), "--overwrite"]
            if order is not None:
                args += ["--delta-order", str(order)]
            if gcds_off:
                args += ["--disable-gcds"]
            if fmt == "parquet":
                p = subprocess.run([TOOL, base + ".parquet", CLI_NAME[dt], str(rng.choice([1, 3, 100, 1000]))],
                                   input="\n".join(str(v) for v in col) + "\n", text=True, capture_output=True)
                if p.returncode != 0:
                    obad.append(("mkparquet", p.stderr[-300:], "could not write the Parquet input")); continue
                args += ["--parquet", base + ".parquet", "--col-name", "col"] if rng.random() < 0.5 else ["--parquet", base + ".parquet", "--col-idx", "1"]
            else:
                with open(base + ".csv", "w") as f:
                    if fmt in ("csv-name", "csv-infer"):
                        f.write("pad,col\n")
                    for v in col:
                        f.write("7,%s\n" % text_of(dt, v))
                args += ["--csv", base + ".csv"]
                args += ["--col-name", "col"] if fmt in ("csv-name", "csv-infer") else ["--col-idx", "1"]
                if fmt != "csv-infer":
                    args += ["--dtype", CLI_NAME[dt]]
            args.append(qco)
            desc = "%s rows=%d %s" % (dt, rows, " ".join(args[1:-1]))
            res.seen(desc + str(col[:20])); res.count("format:" + fmt); res.count("dtype:" + dt)
            rc, so, se = run_cli(args); ninv += 1
            if rc != 0:
                obad.append((desc, se[-300:], "compress failed")); continue
            # decompress: whole column and --limit k
            rc, so, se = run_cli(["decompress", qco]); ninv += 1
            lines = so.split("\n")
            if lines and lines[-1] == "":
                lines.pop()
            if rc != 0 or len(lines) != rows or not all(equal_printed(dt, v, l) for v, l in zip(col, lines)):
                obad.append((desc, (so[:200] + " | " + se[-200:]), "decompress does not print exactly the column (%d lines for %d rows)" % (len(lines), rows))); continue
            for k in sorted(set([0, 1, rows - 1, rows, rows + 1, rng.randint(0, rows + 1)])):
                if k < 0:
                    continue
                rc, so, se = run_cli(["decompress", "--limit", str(k), qco]); ninv += 1
                lines = [l for l in so.split("\n") if l != ""]
                want = col[:k]
                if rc != 0 or len(lines) != len(want) or not all(equal_printed(dt, v, l) for v, l in zip(want, lines)):
                    obad.append((desc + " --limit %d" % k, so[:200] + se[-200:], "decompress --limit k does not print exactly the first k values")); break
            # inspect vs library
            rc, so, se = run_cli(["inspect", qco]); ninv += 1
            if rc != 0:
                obad.append((desc, se[-300:], "inspect failed")); continue
            def grab(pat):
                m = re.search(pat, so)
                return m.group(1) if m else None
            ins = dict(dtype=grab(r"data type: (\S+)"), chunks=grab(r"number of chunks: (\d+)"), n=grab(r"total n: (\d+)"),
                       size=grab(r"\ncompressed byte size: (\d+)"), header=grab(r"header size: (\d+)"), meta=grab(r"chunk metadata size: (\d+)"),
                       body=grab(r"chunk body size: (\d+)"), trailing=grab(r"unknown trailing bytes: (\d+)"))
            hx = open(qco, "rb").read().hex()
            nch = (rows + chunk_size - 1) // chunk_size
            libq.append("rhist %s 100 w:%s h %s m" % (dt, hx, " ".join(["m", "s"] * nch))); libmeta.append((desc, ins, nch, rows, dt, len(hx) // 2))
        la = lib.run_impl(libq)
        for q, a, (desc, ins, nch, rows, dt, flen) in zip(libq, la, libmeta):
            outs = [x.split(" @") for x in a.split(" ; ")]
            if "err" in a or "panic" in a or outs[-1][0] != "M none":
                obad.append((desc, a[-200:], "library chunk walk over the CLI's file fails or the chunk count is not ceil(rows/chunk_size)=%d" % nch)); continue
            bit = [int(o[1]) for o in outs]
            header = bit[1] // 8
            meta_sz = sum((bit[2 + 2 * i] - bit[1 + 2 * i]) // 8 for i in range(nch))
            metas = [pl.parse_meta(pl.Toks(o[0][2:])) for o in outs if o[0].startswith("M ") and o[0] != "M none"]
            want = dict(dtype=INSPECT_NAME.get(dt, dt), chunks=str(nch), n=str(sum(m["n"] for m in metas)), size=str(bit[-1] // 8), header=str(header),
                        meta=str(meta_sz), body=str(sum(m["body"] for m in metas)), trailing=str(flen - bit[-1] // 8))
            if ins != want or int(want["n"]) != rows or want["trailing"] != "0":
                obad.append((desc, "inspect=%s library=%s" % (ins, want), "inspect disagrees with the library (or total count != rows)"))
    finally:
        shutil.rmtree(tmp, ignore_errors=True)
    res.count("cli_invocations", ninv)
    res.sample({"case": libmeta[0][0] if libmeta else None, "inspect": libmeta[0][1] if libmeta else None})
    res.oblige("O:qcompress compress then decompress prints exactly the column (numerically), --limit k prints exactly the first k, inspect reports the library's data type / counts / byte sizes, chunk count = ceil(rows/chunk_size)",
               "O", not obad, str([(d[:200], w, x[:160]) for d, x, w in obad[:2]]))
    for d, x, w in obad[:3]:
        res.violations.append({"property": "C17", "what": w, "invocation": d, "output": x[:2000], "tags": ["cli"]})
    return lib.finish(
        res,
        "columns of i16,i32,i64,u16,u32,u64,f32,f64 (CSV by header name / by index / with inferred type, and Parquet) and microsecond/nanosecond timestamps (Parquet), 1..2500 rows (5000 thorough), chunk sizes {1,2,7,rows-1,rows,rows+1,10^6,random}, levels 0..12, delta order none/0..7, --disable-gcds, --limit {0,1,rows-1,rows,rows+1,random}; real release binary of q_compress_cli built from /repo; non-trivial = distinct column x invocation",
        lib.COMMON_TRUSTED, "make -C coq Props/C17.vo && coqc work/Audit_C17.v (Print Assumptions)",
        ["partial: structopt parsing, Arrow CSV/Parquet readers and the text formatting layer are exercised, not modelled; the buffering/limit/head logic is modelled in Cli.v"])


def replay(path):
    import json
    print(json.load(open(path)))
    return 0
