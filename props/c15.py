"""C15 — timestamp <-> SystemTime conversions are exact (or floor) and range-checked."""
import random
import lib
from props.common import *

TS = {"tsnanos": 10 ** 9, "tsmicros": 10 ** 6, "tsnanos96": 10 ** 9, "tsmicros96": 10 ** 6}
I63 = 1 << 63


def build(res):
    std_build(res, release=True)


def secs_set(rng, extra):
    s = set()
    for base in (0, 1, -1, 1 << 31, -(1 << 31), 9223372036, -9223372036, 9223372037, -9223372037, 9223372036854, -9223372036854,
                 9223372036855, -9223372036855, I63 - 1, -I63, -I63 + 1, 1 << 62, -(1 << 62), 1663000000):
        for d in (-2, -1, 0, 1, 2):
            v = base + d
            if -I63 <= v < I63:
                s.add(v)
    for _ in range(extra):
        k = rng.randint(0, 63)
        v = rng.randint(-(1 << k), (1 << k) - 1)
        s.add(v)
    return sorted(s)


NANOS = [0, 1, 999, 1000, 1001, 145224191, 145224192, 145224193, 224191999, 224192000, 500000000, 854775807, 854775808, 999999000, 999999998, 999999999]


def run(res):
    rng = random.Random(res.seed)
    thorough = res.tier == "thorough"
    from props.theorems import THEOREMS
    prove_obligations(res, THEOREMS.get("C15", []))
    qs, kind = [], []
    secs = secs_set(rng, 3000 if thorough else 300)
    for ty, pps in TS.items():
        for s in secs:
            for ns in NANOS + [rng.randrange(10 ** 9) for _ in range(3)]:
                qs.append("st2ts %s %d %d" % (ty, s, ns)); kind.append(("st2ts", ty, s, ns))
        # reverse direction: all i64 part counts (boundary-dense + random) / valid and invalid 96-bit values
        parts = set()
        lim = I63 if "96" not in ty else pps * I63
        for base in (0, 1, -1, pps, -pps, lim - 1, -lim, -lim + 1, -lim + pps - 1, -lim + pps, lim - pps, 10 ** 15, -(10 ** 15)):
            for d in (-2, -1, 0, 1, 2):
                parts.add(base + d)
        for _ in range(6000 if thorough else 600):
            k = rng.randint(0, lim.bit_length())
            parts.add(rng.randint(-(1 << k), (1 << k)))
        for p in sorted(parts):
            if "96" not in ty and not (-I63 <= p < I63):
                continue
            if "96" in ty and not (-(1 << 127) <= p < (1 << 127)):
                continue
            qs.append("ts2st %s %d" % (ty, p)); kind.append(("ts2st", ty, p, None))
            if "96" in ty:
                qs.append("ts96new %s %d" % (ty, p)); kind.append(("new", ty, p, None))
    ia = lib.run_impl(qs)
    ir = lib.run_impl(qs, release=True)
    ma = lib.run_model(qs)
    obad, kbad = [], []
    back_q, back_meta = [], []
    for q, a, r, m, k in zip(qs, ia, ir, ma, kind):
        res.seen(q)
        res.count(k[0] + ":" + k[1])
        if a.startswith("panic") or r.startswith("panic"):
            obad.append((q, a + " | release: " + r, "panic")); continue
        if a != r:
            obad.append((q, a + " | release: " + r, "debug and release builds disagree")); continue
        if a != m:
            kbad.append((q, a, m))
        # the property's own oracle, computed independently
        if k[0] == "st2ts":
            _, ty, s, ns = k
            pps = TS[ty]
            if a == "unrepresentable":
                continue
            want = s * pps + ns // (10 ** 9 // pps)
            if "96" in ty or -I63 <= want < I63:
                if a != "ok %d" % want:
                    obad.append((q, a, "representable instant not converted exactly (want %d)" % want)); continue
                back_q.append("ts2st %s %d" % (ty, want)); back_meta.append((q, s, ns - ns % (10 ** 9 // pps)))
            else:
                if a != "err InvalidArgument":
                    obad.append((q, a, "out-of-range instant did not give InvalidArgument"))
        elif k[0] == "ts2st":
            _, ty, p, _ = k
            pps = TS[ty]
            valid = ("96" not in ty) or (-pps * I63 <= p <= pps * I63 - 1)
            if valid:
                want = "ok %d %d" % (p // pps, (p % pps) * (10 ** 9 // pps))
                got = a.replace("ok -0 ", "ok 0 ")
                if got.split() != want.split():
                    obad.append((q, a, "timestamp not converted to the exact instant (want %s)" % want))
            elif a != "err Corruption":
                obad.append((q, a, "96-bit timestamp outside its documented range did not give an error value"))
        else:
            _, ty, p, _ = k
            pps = TS[ty]
            valid = -pps * I63 <= p <= pps * I63 - 1
            if (a == "ok %d" % p) != valid or (not valid and a != "err InvalidArgument"):
                obad.append((q, a, "Timestamp96::new range check wrong"))
    ba = lib.run_impl(back_q)
    for q2, a, (q, s, ns) in zip(back_q, ba, back_meta):
        want = "ok %d %d" % (s, ns)
        if a.split() != want.split():
            obad.append((q, a, "round trip SystemTime -> timestamp -> SystemTime is not the same instant (floor to the type's precision): want %s" % want))
    res.sample({"query": qs[0], "impl": ia[0], "model": ma[0]})
    res.sample({"query": qs[-1], "impl": ia[-1], "model": ma[-1]})
    res.oblige("O:representable instants convert exactly (nanos) / floor (micros) and back; out-of-range instants and invalid 96-bit timestamps give an error value; never a panic or wrapped result; debug == release",
               "O", not obad, str([(q, w, a[:80]) for q, a, w in obad[:3]]))
    res.oblige("K:model Time.st2ts/ts2st/ts96_new == real conversions", "K", not kbad, str(kbad[:2]))
    for q, a, w in obad[:3]:
        res.violations.append({"property": "C15", "what": w, "query": q, "impl": a, "tags": ["timestamp"]})
    for q, a, m in kbad[:2]:
        res.violations.append({"property": "C15", "what": "model and real conversion disagree", "query": q, "impl": a, "model": m, "tags": ["timestamp-diff"]})
    return lib.finish(
        res,
        "SystemTime = UNIX_EPOCH +/- (s, ns) for s boundary-dense around 0, +/-2^31, the nanosecond and microsecond i64 limits, +/-2^63 and random magnitudes, ns in a boundary set + random; reverse direction over boundary-dense and random part counts incl. invalid 96-bit values; both builds; non-trivial = distinct query",
        lib.COMMON_TRUSTED, "make -C coq Props/C15.vo && coqc work/Audit_C15.v (Print Assumptions)",
        ["SystemTime is modelled as a Linux timespec (i64 seconds, nanoseconds)"])


def replay(path):
    import json
    v = json.load(open(path))
    lib.build_translate(); lib.build_model(); lib.build_harness(); lib.build_harness(True)
    q = v["query"]
    print("impl debug  :", lib.run_impl([q])[0]); print("impl release:", lib.run_impl([q], release=True)[0]); print("model       :", lib.run_model([q])[0])
    return 0
