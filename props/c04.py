"""C04 — streaming iteration yields the same data for every batch limit."""
import random
import lib
from props.common import *
from props import pipeline as pl
from props.files import *


def build(res):
    std_build(res, release=True)


def expected_structure(f, limit, items):
    """check the item sequence of a complete drain against the property's clauses"""
    want_chunks = f["chunks"]
    i = 0
    if i >= len(items) or not items[i].startswith("I F"):
        return "flags not first"
    i += 1
    for ch in want_chunks:
        if i >= len(items) or not items[i].startswith("I M"):
            return "metadata missing"
        i += 1
        got = []
        nb = 0
        while i < len(items) and items[i].startswith("I N"):
            t = items[i].split()
            k = int(t[2])
            xs = [int(x) for x in t[3:]]
            if k == 0 or k > limit or len(xs) != k:
                return "batch size %d violates 1..%d" % (k, limit)
            got += xs
            nb += 1
            i += 1
        if got != ch:
            return "chunk numbers differ (got %d, want %d)" % (len(got), len(ch))
        if (len(ch) == 0) != (nb == 0):
            return "batches for an empty chunk"
    if i >= len(items) or items[i] != "I Z":
        return "footer missing"
    i += 1
    for it in items[i:]:
        if it != "none":
            return "item after footer: " + it[:40]
    return None


def limits_for(n, rng):
    s = set([1, 2, 3, 29, 30, 31, 32, max(1, n - 1), max(1, n), n + 1, 100000, rng.randint(1, max(1, n))])
    return sorted(s)


def run(res):
    rng = random.Random(res.seed)
    thorough = res.tier == "thorough"
    from props.theorems import THEOREMS
    prove_obligations(res, THEOREMS.get("C04", []))
    files, bad = compressed_files(rng, 400 if thorough else 70, max_n=300)
    sparse, bad2 = compressed_files(rng, 150 if thorough else 30, max_n=3000, shapes=["sparse", "rl_wide", "zipf"], orders=[0, 0, 1, 7], levels=[0, 2, 3, 4, 8, 12])
    gfiles = grammar_files(rng, 600 if thorough else 120)
    afiles = asset_files()
    res.oblige("K:valid files were produced", "K", not bad and not bad2, str((bad + bad2)[:1])[:300])
    allf = files + sparse + gfiles + afiles
    qs, meta = [], []
    for f in allf:
        n = len(flat(f))
        lims = limits_for(n, rng)
        if f["origin"].startswith("asset") or n > 1000:
            lims = [l for l in lims if l >= 29 or n <= 1000]
        for limit in lims:
            nitems = 3 + 2 * len(f["chunks"]) + sum((len(ch) + limit - 1) // limit for ch in f["chunks"])
            if nitems > 900:
                continue
            qs.append("rhist %s %d w:%s %s" % (f["dt"], limit, f["hex"], " ".join(["n"] * (nitems + 1))))
            meta.append((f, limit))
    ia = lib.run_impl(qs)
    ma = lib.run_model(qs)
    ir = lib.run_impl(qs[::9], release=True)
    obad, kbad, rbad = [], [], []
    for q, a, m, (f, limit) in zip(qs, ia, ma, meta):
        n = len(flat(f))
        res.seen(q[:5000], nontrivial=n > 0)
        res.count("origin:" + f["origin"].split(":")[0]); res.count("limit_class:" + ("1" if limit == 1 else "<30" if limit < 30 else "30..n-1" if limit < n else ">=n"))
        if a.startswith("panic") or a.startswith("crash"):
            obad.append((q, a, "panic")); continue
        items = [o for (o, _, _) in split_answer(a)][1:]
        why = expected_structure(f, limit, items)
        if why:
            obad.append((q, a, why))
        if a != m:
            kbad.append((q, a, m))
    for q, a, (f, limit) in zip(qs[::9], ir, meta[::9]):
        if a.startswith("panic") or a.startswith("crash"):
            rbad.append((q, a, "panic")); continue
        why = expected_structure(f, limit, [o for (o, _, _) in split_answer(a)][1:])
        if why:
            rbad.append((q, a, why))
    res.sample({"query": qs[0][:160], "answer": ia[0][:200]})
    res.sample({"query": qs[-1][:160], "answer": ia[-1][:200]})
    res.oblige("O:iteration yields flags, then per chunk metadata and non-empty batches <= limit whose concatenation is the chunk, then footer, then nothing (debug build)",
               "O", not obad, str([(q[:150], w) for q, a, w in obad[:2]]))
    res.oblige("O:same in the release build", "O", not rbad, str([(q[:150], w) for q, a, w in rbad[:2]]))
    res.oblige("K:model iterator R.step(RNext) == real iterator, item by item with bit positions", "K", not kbad,
               str([(q[:150], first_diff(a, m)) for q, a, m in kbad[:2]]))
    for q, a, w in (obad + rbad)[:3]:
        res.violations.append({"property": "C04", "what": "iteration violates the property: " + w, "query": q[:200000], "impl": a[:3000], "tags": ["iter-oracle"]})
    for q, a, m in kbad[:2]:
        res.violations.append({"property": "C04", "what": "model and real iterator disagree: " + first_diff(a, m), "query": q[:200000], "tags": ["iter-diff"]})
    return lib.finish(
        res,
        "complete files from the real compressor (all shapes; sparse run-length chunks of up to 3000 numbers), from the grammar serialiser (legacy flags, zero-count chunks, arbitrary run splits) and the shipped assets, each drained with limits {1,2,3,29,30,31,32,n-1,n,n+1,100000,random}; non-trivial = distinct (file, limit) with at least one number",
        lib.COMMON_TRUSTED, "make -C coq Props/C04.vo && coqc work/Audit_C04.v (Print Assumptions)",
        ["the unchecked fast decode path is not modelled separately: the model's checked semantics must equal it observably, which this run tests"])


def first_diff(a, m):
    xa, xm = a.split(" ; "), m.split(" ; ")
    for i, (x, y) in enumerate(zip(xa, xm)):
        if x != y:
            return "step %d impl=%s model=%s" % (i, x[:120], y[:120])
    return "lengths %d vs %d" % (len(xa), len(xm))


def replay(path):
    import json
    v = json.load(open(path))
    lib.build_translate(); lib.build_model(); lib.build_harness()
    q = v["query"]
    a, m = lib.run_impl([q])[0], lib.run_model([q])[0]
    print("impl :", a[:1000]); print("model:", m[:1000]); print(first_diff(a, m))
    return 0
