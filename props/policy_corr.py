"""Correspondence of the integer skeleton of the policy (Policy.v) with the real code through
the verif hooks: choose_max_n_prefixes, choose_unoptimized_prefixes, pair_gcd, gcd."""
import random, sys, os
sys.path.insert(0, os.path.join(os.path.dirname(os.path.abspath(__file__)), "..", "gen"))
import numgen
import lib


def run_policy_corr(res, rng, thorough):
    qs_i, qs_m = [], []
    # choose_max_n_prefixes: exhaustive over levels x a boundary-dense set of n
    ns = sorted(set([1, 2, 3, 4, 5, 7, 8, 9, 15, 16, 17, 1000, 1001, 4095, 4096, 4097, 16383, 16384, 16385, (1 << 24) - 1] +
                    [(1 << k) + d for k in range(1, 24) for d in (-1, 0, 1)] + [rng.randint(1, 1 << 24) for _ in range(200)]))
    for level in range(0, 13):
        for n in ns:
            if n >= 1:
                q = "maxpref %d %d" % (level, n)
                qs_i.append(q); qs_m.append(q)
    # pair_gcd / gcd on random and adversarial operands (Fibonacci-like, 2^k +- 1)
    fib = [1, 2]
    while fib[-1] < (1 << 120):
        fib.append(fib[-1] + fib[-2])
    for _ in range(3000 if thorough else 400):
        dt = rng.choice(["u16", "u32", "u64", "u128"])
        w = lib.UBITS[dt]
        def operand():
            r = rng.random()
            if r < 0.3:
                return min((1 << w) - 1, rng.choice(fib))
            if r < 0.6:
                return max(1, min((1 << w) - 1, (1 << rng.randint(0, w)) + rng.choice([-1, 0, 1])))
            return rng.randint(1, (1 << w) - 1)
        a, b = operand(), operand()
        q = "pairgcd %s %d %d" % (dt, a, b)
        qs_i.append(q); qs_m.append(q)
        g = rng.choice([1, 2, 3, 6, 10, 1000, operand() % 1000 + 1])
        k = rng.randint(1, 12)
        base = rng.randint(0, (1 << w) // 2)
        vals = sorted(set(min((1 << w) - 1, base + g * rng.randint(0, 1000)) for _ in range(k)))
        q = "gcd %s %d %s" % (dt, len(vals), " ".join(map(str, vals)))
        qs_i.append(q); qs_m.append(q)
    ia = lib.run_impl(qs_i)
    ma = lib.run_model(qs_m)
    bad = [(q, a, m) for q, a, m in zip(qs_i, ia, ma) if a != m]
    # choose_unoptimized_prefixes with the real run-length decisions as oracle
    uq = []
    for _ in range(2500 if thorough else 350):
        dt = rng.choice([d for d in lib.DTYPES if d != "bool"])
        shape = rng.choice(["sorted_dups", "sparse", "clusters", "small", "uniform", "lattice", "constant", "two_pow2"])
        n = rng.choice([rng.randint(1, 40), rng.randint(40, 1500), rng.randint(1001, 3000)])
        us = sorted(numgen.to_u(dt, x) for x in numgen.gen(dt, shape, n, rng))
        uq.append("unopt %s %d %d %d %s" % (dt, rng.randint(0, 12), rng.randint(0, 1), len(us), " ".join(map(str, us))))
    ua = lib.run_impl(uq)
    mq = []
    for q, a in zip(uq, ua):
        t = a.split()
        if not t or not t[0].isdigit():
            mq.append(q + " | 0"); continue
        k = int(t[0])
        orc = []
        for i in range(k):
            count, weight, lo, up, jump, g = t[1 + 6 * i:7 + 6 * i]
            if jump != "-1":
                orc += [count, weight, jump]
        mq.append(q + " | %d %s" % (len(orc) // 3, " ".join(orc)))
    um = lib.run_model(mq)
    bad += [(q, a, m) for q, a, m in zip(uq, ua, um) if a != m]
    for q in qs_i + uq:
        res.seen("policy:" + q[:3000])
    res.count("policy_hook_queries", len(qs_i) + len(uq))
    res.oblige("K:integer skeleton of the policy (Policy.v: choose_max_n_prefixes, choose_unoptimized with the real run-length decisions as oracle, pair_gcd, gcd) == real functions through the hooks",
               "K", not bad, str([(q[:200], a[:100], m[:100]) for q, a, m in bad[:2]]))
    for q, a, m in bad[:2]:
        res.violations.append({"property": res.prop, "what": "policy skeleton model and real function disagree", "query": q[:100000], "impl": a[:2000], "model": m[:2000], "tags": ["policy-diff"]})
