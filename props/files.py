"""Valid files for the reader-side properties: C01 domain (real compressor) and C03 domain
(grammar serialiser)."""
import random, sys, os
sys.path.insert(0, os.path.join(os.path.dirname(os.path.abspath(__file__)), "..", "gen"))
import astgen
import lib
from props import pipeline as pl
from props.codec_cases import c01_cases, corpus_cases
from props import assets


def compressed_files(rng, count, max_n=200, **kw):
    cases = c01_cases(rng, count, max_n=max_n, **kw)
    ans = lib.run_impl([pl.compress_query(c) for c in cases])
    out, bad = [], []
    for c, a in zip(cases, ans):
        comp = pl.parse_compress(a)
        if comp is None:
            bad.append((c, a)); continue
        out.append(dict(dt=c["dt"], hex=comp["hex"], chunks=c["chunks"], origin="compressor", shape=c["shape"], order=c["order"], case=c))
    return out, bad


def grammar_files(rng, count):
    asts = [astgen.gen_file(rng) for _ in range(count)]
    ans = lib.run_model([astgen.specenc_query(a) for a in asts])
    out = []
    for a, m in zip(asts, ans):
        if not m.startswith("ok "):
            continue
        hx, nums = m[3:].split(" | ")
        # per-chunk numbers via the independent decoder
        out.append(dict(dt=a["dt"], hex=hx, ast=a, origin="grammar", shape="ast", order=a["flags"][1]))
    # chunk structure from specdec
    sd = lib.run_model(["specdec %s %s" % (f["dt"], f["hex"]) for f in out])
    res = []
    for f, s in zip(out, sd):
        p = pl.parse_specdec(s)
        if p is None:
            continue
        f["chunks"] = [nums for (_, nums) in p["chunks"]]
        res.append(f)
    return res


def asset_files():
    out = []
    for (name, dt, hx, vals) in assets.load():
        out.append(dict(dt=dt, hex=hx, origin="asset:" + name, shape="asset", order=-1))
    sd = lib.run_model(["specdec %s %s" % (f["dt"], f["hex"]) for f in out])
    for f, s in zip(out, sd):
        p = pl.parse_specdec(s)
        f["chunks"] = [nums for (_, nums) in p["chunks"]] if p else None
    return [f for f in out if f["chunks"] is not None]


def flat(f):
    return [x for ch in f["chunks"] for x in ch]


def split_answer(ans):
    """rhist answer -> list of (output, bit_idx, mutated)"""
    out = []
    for st in ans.split(" ; "):
        mut = st.endswith("!MUTATED")
        if mut:
            st = st[:-len(" !MUTATED")]
        o, _, idx = st.rpartition(" @")
        out.append((o, int(idx) if idx.isdigit() else -1, mut))
    return out
