(* C15 — Timestamp <-> SystemTime conversions are exact (or floor) and range-checked. *)
From QCo.Lemmas Require Import Tactics TimeL.
From QCo.Model Require Import Base Consts DType Time.
Open Scope Z_scope.

Theorem C15_to_timestamp64 : forall d sec nanos, kind d = KTs64 -> st_ok sec nanos = true ->
  st2ts d sec nanos = if in_i64 (parts_of d sec nanos) then Ok (parts_of d sec nanos) else Err InvalidArgument.
Proof. exact st2ts64_spec. Qed.
Theorem C15_to_timestamp96 : forall d sec nanos, kind d = KTs96 -> st_ok sec nanos = true ->
  st2ts d sec nanos = Ok (parts_of d sec nanos) /\ valid d (parts_of d sec nanos) = true.
Proof. exact st2ts96_ok. Qed.
Theorem C15_roundtrip64 : forall d sec nanos, kind d = KTs64 -> st_ok sec nanos = true ->
  in_i64 (parts_of d sec nanos) = true ->
  ts2st d (parts_of d sec nanos) = Ok (sec, floor_nanos d nanos).
Proof. exact ts64_roundtrip. Qed.
Theorem C15_roundtrip96 : forall d sec nanos, kind d = KTs96 -> st_ok sec nanos = true ->
  ts2st d (parts_of d sec nanos) = Ok (sec, floor_nanos d nanos).
Proof. exact ts96_roundtrip. Qed.
Theorem C15_never_panics : forall d sec nanos, st_ok sec nanos = true -> st2ts d sec nanos <> Panic.
Proof. exact st2ts_not_panic. Qed.
Theorem C15_back_never_panics : forall d parts, (kind d = KTs64 -> in_i64 parts = true) -> ts2st d parts <> Panic.
Proof. exact ts2st_not_panic. Qed.
Theorem C15_invalid96_is_an_error : forall d parts, kind d = KTs96 ->
  (ts2st d parts = Err Corruption <-> valid d parts = false).
Proof. exact ts2st96_corruption_iff. Qed.
Theorem C15_new96_range_checked : forall d parts, kind d = KTs96 ->
  (ts96_new d parts = Err InvalidArgument <-> valid d parts = false).
Proof. exact ts96_new_err_iff. Qed.
