(* C13 — Automatic configuration is total and its output round-trips. *)
From QCo.Lemmas Require Import Tactics AutoL.
From QCo.Model Require Import Base Consts DType Codec Writer Auto.
Open Scope N_scope.

(* For every sequence — the empty one included — every level and every policy oracle whose
   tables let the trial chunks be written, the chooser returns (no panic) a configuration with
   that level, use_gcds on and a delta order in 0..=7. *)
Theorem C13_total : forall table_of d level xs,
  (xs <> [] -> forall order, order <= 7 -> exists m bs,
     chunk_payload d (cfg_flags (mkWcfg (N.min level 6) order false)) (table_of order)
                   (firstn 1000 xs) = Ok (m, bs)) ->
  exists o, auto_order table_of d level xs = Ok o /\ o <= 7 /\
            auto_config table_of d level xs = Ok (level, o, true).
Proof. exact auto_total. Qed.

Theorem C13_empty : forall table_of d level,
  auto_order table_of d level [] = Ok 0 /\ auto_config table_of d level [] = Ok (level, 0, true).
Proof. exact auto_total_nil. Qed.

(* the order returned is the first one after which the trial size stops improving *)
Theorem C13_rule : forall table_of d level xs (sz : N -> N) o, xs <> [] ->
  (forall i, i <= 7 -> trial table_of d level i (firstn 1000 xs) = Ok (sz i)) ->
  (auto_order table_of d level xs = Ok o <->
   o <= 7 /\ (forall i, i < o -> sz (i + 1) < sz i) /\ (o = 7 \/ sz o <= sz (o + 1))).
Proof. exact auto_order_rule_sizes. Qed.
