(* C17 — CLI: compressing a column and decompressing it reproduces the column (list logic). *)
From QCo.Lemmas Require Import Tactics CliL.
From QCo.Model Require Import Base Cli.

(* the compress handler's buffering cuts the column into chunks whose concatenation is the
   column; every chunk is non-empty and at most chunk_size long, all but the last exactly *)
Theorem C17_buffering : forall A cs (batches : list (list A)), 1 <= cs -> Forall (fun b => length b <= cs) batches ->
  concat (buffer_chunks cs batches) = concat batches /\
  Forall (fun c => c <> [] /\ length c <= cs) (buffer_chunks cs batches) /\
  Forall (fun c => length c = cs) (removelast (buffer_chunks cs batches)).
Proof. exact buffer_chunks_spec. Qed.

(* decompress --limit k prints exactly the first k values of what was compressed *)
Theorem C17_limit : forall A cs k (batches : list (list A)),
  concat (limit_slices k (buffer_chunks cs batches)) = firstn k (concat batches).
Proof. exact cli_compress_decompress_limit. Qed.

(* the automatic delta order is chosen from the first 1000 values of the column *)
Theorem C17_auto_head : forall A limit (batches : list (list A)),
  head_nums limit batches = firstn limit (concat batches).
Proof. exact head_nums_spec. Qed.

(* inspect's total count is the sum of the chunk counts, i.e. the column length *)
Theorem C17_inspect_total : forall A (chunks : list (list A)) infos,
  map ci_n infos = map (fun c => Nlen c) chunks -> inspect_total_n infos = Nlen (concat chunks).
Proof. exact inspect_total_n_of_chunks. Qed.
