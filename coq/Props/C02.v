(* C02 — Writer conforms to the frozen .qco format (independent decoder agrees). *)
From QCo.Lemmas Require Import Tactics SpecL MetaL FileL ConformL.
From QCo.Model Require Import Reader.
From QCo.Model Require Import Base Consts Frozen DType Codec Writer Spec AssetsData.
Open Scope N_scope.

(* The constants regenerated from /repo on this run are the frozen ones: magic "qco!",
   chunk byte 44, termination byte 46, 24/32/15/5/3-bit fields, 4|5-bit code lengths,
   jumpstart <= 24, flag bit order, header byte / physical width / unsigned width /
   signed companion of all 15 data types. A changed constant breaks this directly. *)
Theorem C02_consts_frozen : Consts.format_constants = Frozen.format_constants.
Proof. reflexivity. Qed.

(* The independent decoder parses the files shipped by releases 0.4 - 0.10 to their recorded
   values, consuming each file exactly: the grammar in Spec.v is the historical one. *)
Definition spec_asset_ok (a : dtype * list N * list Z) : bool :=
  let '(d, bytes, vals) := a in
  match dec_file d (bytes_to_bits bytes) with
  | Some (ast, _, []) => list_eqb Z.eqb (file_nums ast) vals
  | _ => false
  end.
Theorem C02_grammar_reads_shipped_assets : forallb spec_asset_ok assets = true.
Proof. vm_compute. reflexivity. Qed.

(* the frozen grammar is unambiguous: its decoder inverts its serialiser on every well-formed
   AST (any legal table, run split, gcd choice, flag combination), consuming exactly the file *)
Theorem C02_grammar_roundtrip : forall a rest, wf_file a -> Nlen rest mod 8 = 0 ->
  dec_file (sf_dt a) (enc_file a ++ rest)
  = Some (a, map (fun c => Nlen (enc_body c) / 8) (sf_chunks a), rest).
Proof. exact dec_enc_file. Qed.

(* The writer conforms to the frozen format: for every data type, delta order, GCD setting and
   chunk list (any tables satisfying chunk_ok), the bytes the writer model emits ARE the grammar
   serialisation of an AST ... *)
Theorem C02_writer_is_grammar : forall d order gcds chunks bytes,
  order <= 7 -> Forall (chunk_ok d (writer_flags order gcds)) chunks ->
  file_bytes d (writer_flags order gcds) chunks = Ok bytes ->
  bytes_to_bits bytes = enc_file (ast_of d (writer_flags order gcds) chunks).
Proof. exact writer_is_grammar. Qed.

(* ... and the independent decoder recovers from them the same flags (inside the AST), the same
   chunk metadata (count, body size, moments, table up to the divisor of single-valued ranges)
   and the same numbers, consuming the file exactly to its last bit. *)
Theorem C02_conformance : forall d order gcds chunks bytes,
  let f := writer_flags order gcds in
  let a := ast_of d f chunks in
  order <= 7 -> Forall (chunk_ok d f) chunks -> file_bytes d f chunks = Ok bytes ->
  dec_file d (bytes_to_bits bytes) = Some (a, map (fun c => Nlen (enc_body c) / 8) (sf_chunks a), []) /\
  file_nums a = concat (map fst chunks) /\
  map (fun c => chunk_meta c (Nlen (enc_body c) / 8)) (sf_chunks a) =
  map (fun m => mkMeta (m_n m) (m_body m) (m_moments m) (norm_table f (pdt f d) (m_table m))) (chunk_metas d f chunks).
Proof. exact conformance. Qed.

(* ---- word level: the 64-bit-word packing of BitWriter (Model/Words.v: a literal transcription of
   write_one / write_diff (3 cases) / write_aligned_bytes / finish_byte / write_varint /
   overwrite_usize / drain_bytes) produces exactly the bit strings the format model uses ---- *)
From QCo.Model Require Import Words.
From QCo.Lemmas Require Import WordsL.

Theorem C02_word_write_one : forall w b, wr_ok w ->
  wr_ok (wr_write_one w b) /\ wr_bits (wr_write_one w b) = wr_bits w ++ [b].
Proof. exact wr_write_one_spec. Qed.

Theorem C02_word_write_diff : forall w x n, wr_ok w ->
  wr_ok (wr_write_diff w x n) /\ wr_bits (wr_write_diff w x n) = wr_bits w ++ put n x.
Proof. exact wr_write_diff_spec. Qed.

Theorem C02_word_write_varint : forall w x j, wr_ok w -> x <= Consts.MAX_ENTRIES ->
  exists w', wr_write_varint w x j = Ok w' /\ wr_ok w' /\ wr_bits w' = wr_bits w ++ write_varint x j.
Proof. exact wr_write_varint_spec. Qed.

Theorem C02_word_finish_byte : forall w, wr_ok w ->
  wr_ok (wr_finish_byte w) /\ wr_bits (wr_finish_byte w) = pad8 (wr_bits w) /\ w_j (wr_finish_byte w) mod 8 = 0.
Proof. exact wr_finish_byte_spec. Qed.

Theorem C02_word_write_aligned_bytes : forall bytes w,
  wr_ok w -> w_j w mod 8 = 0 -> Forall (fun b => b < 256) bytes ->
  exists w', wr_write_aligned_bytes w bytes = Ok w' /\ wr_ok w' /\
             wr_bits w' = wr_bits w ++ bytes_to_bits bytes /\ w_j w' mod 8 = 0.
Proof. exact wr_write_aligned_bytes_spec. Qed.

(* back-patching the body size over its zero placeholder, also when the field straddles two words *)
Theorem C02_word_overwrite_placeholder : forall w P Q x n, wr_ok w ->
  wr_bits w = P ++ put n 0 ++ Q ->
  wr_ok (wr_overwrite w (Nlen P) x n) /\
  wr_bits (wr_overwrite w (Nlen P) x n) = P ++ put n x ++ Q.
Proof. exact wr_overwrite_placeholder. Qed.

Theorem C02_word_drain_bytes : forall w, wr_ok w -> wr_bit_size w mod 8 = 0 ->
  wr_drain_bytes w = bits_to_bytes (wr_bits w) /\
  bytes_to_bits (wr_drain_bytes w) = wr_bits w /\
  Nlen (wr_drain_bytes w) = wr_byte_size w.
Proof. exact wr_drain_bytes_spec. Qed.

Example C02_word_default_ok : wr_ok wr_default /\ wr_bits wr_default = [].
Proof. exact wr_default_ok. Qed.

(* ---- the compressor as a sequence of BitWriter calls (Model/WFile.v: header, Flags::write,
   chunk = magic byte, ChunkMetadata::write_to with a zero body-size placeholder, the body as
   compress_nums writes it, finish_byte, overwrite_usize of the placeholder, footer, drain_bytes;
   every call on the 64-bit-word writer of Words.v) drains exactly the bytes of the format model *)
From QCo.Model Require Import WFile.
From QCo.Lemmas Require Import WFileL.

Theorem C02_word_level_compressor_is_file_bytes : forall d f chunks bytes,
  Forall (chunk_ok d f) chunks -> file_bytes d f chunks = Ok bytes -> wfile_bytes d f chunks = Ok bytes.
Proof. exact wfile_bytes_eq. Qed.

(* ... also when the range of each number is found through the CompressionTable transcription *)
Theorem C02_word_level_compressor_with_table_lookup : forall d f chunks bytes,
  Forall (fun c => wchunk_ok c /\ ct_valid (snd c) /\ ct_pos (snd c)) chunks ->
  file_bytes d f chunks = Ok bytes -> wfile_bytes_ct d f chunks = Ok bytes.
Proof. exact wfile_bytes_ct_eq. Qed.
