(* C02 — Writer conforms to the frozen .qco format (independent decoder agrees). *)
From QCo.Lemmas Require Import Tactics SpecL MetaL FileL ConformL.
From QCo.Model Require Import Reader.
From QCo.Model Require Import Base Consts Frozen DType Codec Writer Spec AssetsData.
Open Scope N_scope.

(* The constants regenerated from /repo on this run are the frozen ones: magic "qco!",
   chunk byte 44, termination byte 46, 24/32/15/5/3-bit fields, 4|5-bit code lengths,
   jumpstart <= 24, flag bit order, header byte / physical width / unsigned width /
   signed companion of all 15 data types. A changed constant breaks this directly. *)
Theorem C02_consts_frozen : Consts.format_constants = Frozen.format_constants.
Proof. reflexivity. Qed.

(* The independent decoder parses the files shipped by releases 0.4 - 0.10 to their recorded
   values, consuming each file exactly: the grammar in Spec.v is the historical one. *)
Definition spec_asset_ok (a : dtype * list N * list Z) : bool :=
  let '(d, bytes, vals) := a in
  match dec_file d (bytes_to_bits bytes) with
  | Some (ast, _, []) => list_eqb Z.eqb (file_nums ast) vals
  | _ => false
  end.
Theorem C02_grammar_reads_shipped_assets : forallb spec_asset_ok assets = true.
Proof. vm_compute. reflexivity. Qed.

(* the frozen grammar is unambiguous: its decoder inverts its serialiser on every well-formed
   AST (any legal table, run split, gcd choice, flag combination), consuming exactly the file *)
Theorem C02_grammar_roundtrip : forall a rest, wf_file a -> Nlen rest mod 8 = 0 ->
  dec_file (sf_dt a) (enc_file a ++ rest)
  = Some (a, map (fun c => Nlen (enc_body c) / 8) (sf_chunks a), rest).
Proof. exact dec_enc_file. Qed.

(* The writer conforms to the frozen format: for every data type, delta order, GCD setting and
   chunk list (any tables satisfying chunk_ok), the bytes the writer model emits ARE the grammar
   serialisation of an AST ... *)
Theorem C02_writer_is_grammar : forall d order gcds chunks bytes,
  order <= 7 -> Forall (chunk_ok d (writer_flags order gcds)) chunks ->
  file_bytes d (writer_flags order gcds) chunks = Ok bytes ->
  bytes_to_bits bytes = enc_file (ast_of d (writer_flags order gcds) chunks).
Proof. exact writer_is_grammar. Qed.

(* ... and the independent decoder recovers from them the same flags (inside the AST), the same
   chunk metadata (count, body size, moments, table up to the divisor of single-valued ranges)
   and the same numbers, consuming the file exactly to its last bit. *)
Theorem C02_conformance : forall d order gcds chunks bytes,
  let f := writer_flags order gcds in
  let a := ast_of d f chunks in
  order <= 7 -> Forall (chunk_ok d f) chunks -> file_bytes d f chunks = Ok bytes ->
  dec_file d (bytes_to_bits bytes) = Some (a, map (fun c => Nlen (enc_body c) / 8) (sf_chunks a), []) /\
  file_nums a = concat (map fst chunks) /\
  map (fun c => chunk_meta c (Nlen (enc_body c) / 8)) (sf_chunks a) =
  map (fun m => mkMeta (m_n m) (m_body m) (m_moments m) (norm_table f (pdt f d) (m_table m))) (chunk_metas d f chunks).
Proof. exact conformance. Qed.
