(* C02 — Writer conforms to the frozen .qco format (independent decoder agrees). *)
From QCo.Lemmas Require Import Tactics SpecL.
From QCo.Model Require Import Base Consts Frozen DType Codec Writer Spec AssetsData.
Open Scope N_scope.

(* The constants regenerated from /repo on this run are the frozen ones: magic "qco!",
   chunk byte 44, termination byte 46, 24/32/15/5/3-bit fields, 4|5-bit code lengths,
   jumpstart <= 24, flag bit order, header byte / physical width / unsigned width /
   signed companion of all 15 data types. A changed constant breaks this directly. *)
Theorem C02_consts_frozen : Consts.format_constants = Frozen.format_constants.
Proof. reflexivity. Qed.

(* The independent decoder parses the files shipped by releases 0.4 - 0.10 to their recorded
   values, consuming each file exactly: the grammar in Spec.v is the historical one. *)
Definition spec_asset_ok (a : dtype * list N * list Z) : bool :=
  let '(d, bytes, vals) := a in
  match dec_file d (bytes_to_bits bytes) with
  | Some (ast, _, []) => list_eqb Z.eqb (file_nums ast) vals
  | _ => false
  end.
Theorem C02_grammar_reads_shipped_assets : forallb spec_asset_ok assets = true.
Proof. vm_compute. reflexivity. Qed.

(* the frozen grammar is unambiguous: its decoder inverts its serialiser on every well-formed
   AST (any legal table, run split, gcd choice, flag combination), consuming exactly the file *)
Theorem C02_grammar_roundtrip : forall a rest, wf_file a -> Nlen rest mod 8 = 0 ->
  dec_file (sf_dt a) (enc_file a ++ rest)
  = Some (a, map (fun c => Nlen (enc_body c) / 8) (sf_chunks a), rest).
Proof. exact dec_enc_file. Qed.
