(* C06 — Truncated files are reported as insufficient data, never as success. *)
From QCo.Lemmas Require Import Tactics FileL TruncL.
From QCo.Model Require Import Base Consts DType Codec Writer Reader.
Open Scope N_scope.

(* Whole-file decompression of ANY strict prefix of ANY file the writer model emits (every data
   type, delta order 0..=7, GCDs on/off, any chunk list, any tables satisfying chunk_ok) fails
   with InsufficientData: never a shorter vector of numbers, never another error kind, never a
   panic. *)
Theorem C06_truncation : forall d order gcds chunks bytes L,
  order <= 7 ->
  Forall (chunk_ok d (writer_flags order gcds)) chunks ->
  file_bytes d (writer_flags order gcds) chunks = Ok bytes ->
  (L < length bytes)%nat ->
  decode_file d (firstn L bytes) = Err InsufficientData.
Proof. exact truncation. Qed.

(* the Huffman lookup of the reader is sound for any amount of available data and any word
   alignment: if it returns a prefix, that prefix's code is a prefix of the real stream *)
Theorem C06_lookup_sound : forall tb ps s p r, table_ok ps = true ->
  read_code_at tb ps s = Ok (p, r) ->
  In p ps /\ is_prefix_of (p_code p) s = true /\ r = skipn (length (p_code p)) s.
Proof. exact read_code_at_sound. Qed.
