(* C11 — Chunks are self-contained, deterministic and randomly accessible (partial). *)
From QCo.Lemmas Require Import Tactics WriterL ReaderL FileL IterL.
From QCo.Model Require Import Base Consts DType Codec Writer Reader.
Open Scope N_scope.

(* The bytes a compressor has produced are those of [file_bytes] applied to exactly the
   accepted chunks: [file_bytes] is a function of (data type, flags, and per chunk its numbers
   and table) only — no state is carried from one chunk to the next, and drains are invisible. *)
Theorem C11_output_is_function_of_chunks : forall c d ops st outs,
  w_run c d w_init ops = (st, outs) -> w_ftr st = true ->
  file_bytes d (cfg_flags c) (accepted_chunks ops outs) = Ok (total_out outs ++ w_pending st).
Proof. exact w_file_of_accepted. Qed.

(* skipping needs a chunk in progress and otherwise fails without side effect *)
Theorem C11_skip_outside_chunk : forall d st, r_cbd st = None ->
  r_step d st RSkip = (st, ROErr InvalidArgument).
Proof. exact skip_outside_chunk_refused. Qed.

(* header + any sub-sequence, reordering or repetition of a file's chunks + footer is again a
   valid file holding exactly those chunks *)
Theorem C11_subfile : forall d order gcds chunks sub,
  order <= 7 ->
  Forall (chunk_ok d (writer_flags order gcds)) chunks ->
  incl sub chunks ->
  Forall (chunk_ok d (writer_flags order gcds)) sub /\
  exists bytes, file_bytes d (writer_flags order gcds) sub = Ok bytes /\
                decode_file d bytes = Ok (concat (map fst sub)).
Proof. exact subfile_roundtrip. Qed.

(* the bytes of a file are the concatenation of per-chunk byte strings *)
Theorem C11_chunk_bytes_concatenate : forall d f a b,
  chunks_bytes d f (a ++ b) = do x <- chunks_bytes d f a; do y <- chunks_bytes d f b; Ok (x ++ y).
Proof. exact chunks_bytes_app. Qed.

(* skipping any subset of chunk bodies using only their metadata lands exactly on the next chunk
   (and finally on the end of the file); the chunks that are decoded yield exactly their numbers *)
Theorem C11_random_access : forall d order gcds chunks bytes choice,
  order <= 7 ->
  Forall (chunk_ok d (writer_flags order gcds)) chunks ->
  file_bytes d (writer_flags order gcds) chunks = Ok bytes ->
  length choice = length chunks ->
  let r := r_run d (fresh bytes) (ra_ops choice) in
  snd r = ra_outs d (writer_flags order gcds) chunks choice /\
  r_bit (fst r) = total_bits (fst r).
Proof. exact random_access. Qed.
