(* C11 — Chunks are self-contained, deterministic and randomly accessible (partial). *)
From QCo.Lemmas Require Import Tactics WriterL ReaderL.
From QCo.Model Require Import Base Consts DType Codec Writer Reader.
Open Scope N_scope.

(* The bytes a compressor has produced are those of [file_bytes] applied to exactly the
   accepted chunks: [file_bytes] is a function of (data type, flags, and per chunk its numbers
   and table) only — no state is carried from one chunk to the next, and drains are invisible. *)
Theorem C11_output_is_function_of_chunks : forall c d ops st outs,
  w_run c d w_init ops = (st, outs) -> w_ftr st = true ->
  file_bytes d (cfg_flags c) (accepted_chunks ops outs) = Ok (total_out outs ++ w_pending st).
Proof. exact w_file_of_accepted. Qed.

(* skipping needs a chunk in progress and otherwise fails without side effect *)
Theorem C11_skip_outside_chunk : forall d st, r_cbd st = None ->
  r_step d st RSkip = (st, ROErr InvalidArgument).
Proof. exact skip_outside_chunk_refused. Qed.
