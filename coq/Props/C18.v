(* C18 — Advertised features take effect (delta part; GCD and sparse parts: see Policy). *)
From QCo.Lemmas Require Import Tactics DeltaL PolicyL.
From QCo.Model Require Import Policy.
From Coq Require Import Sorting.Sorted.
From QCo.Model Require Import Base Consts DType Codec.
Open Scope N_scope.

(* a sequence whose d-th wrapping differences all vanish leaves, at delta order d, only copies
   of one unsigned value to encode *)
Theorem C18_vanishing_differences : forall d (order : nat) xs,
  Forall (fun s => s = 0%Z) (deltas_n d order (map (to_s d) xs)) ->
  delta_unsigneds d (N.of_nat order) xs = repeat (to_u (sdt d) 0%Z) (length xs - order).
Proof. exact delta_unsigneds_vanishing. Qed.

(* (1) exact GCDs.  The library's gcd routines compute the mathematical gcd ... *)
Theorem C18_pair_gcd_exact : forall a b, 0 < b -> pgcd a b = N.gcd a b.
Proof. exact pgcd_spec. Qed.
Theorem C18_range_gcd_exact : forall l, l <> [] -> hd 0 l <= last l 0 ->
  gcd_sorted l = if hd 0 l =? last l 0 then 1 else lgcd (dists l).
Proof. exact gcd_sorted_spec. Qed.
(* ... it is the greatest divisor of all members' distances from the lower bound ... *)
Theorem C18_range_gcd_greatest : forall l d, l <> [] -> hd 0 l < last l 0 ->
  (forall x, In x l -> (d | x - hd 0 l)) -> (d | gcd_sorted l) /\ d <= gcd_sorted l.
Proof. exact gcd_sorted_greatest. Qed.
(* ... and merging ranges along ANY valid path keeps the recorded divisor exact: with GCD
   folding on, the divisor of every merged range is the gcd of its members' distances from the
   merged lower bound *)
Theorem C18_gcd_exact_after_merging : forall (fg use_gcd : bool) raws sl path,
  covers raws sl -> Forall2 (fun w s => w_gcd w = if use_gcd then gcd_sorted s else 1) raws sl ->
  Sorted N.le (concat sl) -> tiles 0 (length raws) path = true ->
  let merged := apply_path fg raws path in let sl' := map (@concat N) (map (range sl) path) in
  concat sl' = concat sl /\ covers merged sl' /\ (separated sl -> separated sl') /\
  (fg = true -> use_gcd = true -> Forall2 gcd_exact merged sl') /\
  (fg = false -> Forall (fun w => w_gcd w = 1) merged) /\
  ((fg = true -> use_gcd = true) ->
   Forall2 (fun w s => forall x, In x s -> (x - w_lower w) mod w_gcd w = 0) merged sl').
Proof. exact apply_path_partition. Qed.

(* (3) a chunk all of whose (delta) values are equal gets, for every oracle, the single prefix
   [v,v] with the empty code and no run-length: every number costs 0 bits, the body is empty *)
Theorem C18_constant_chunk_single_prefix : forall v t maxp use_gcd (rl : rl_oracle),
  let sorted := v :: t in let n := Nlen sorted in
  Forall (fun x => x = v) t -> 1 <= maxp <= n -> rl n n = None ->
  choose_unoptimized sorted maxp use_gcd rl = [mkW n n v v None 1].
Proof. exact choose_unoptimized_const. Qed.
