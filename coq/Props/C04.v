(* C04 — Streaming iteration yields the same data for every batch limit. *)
From QCo.Lemmas Require Import Tactics CodecL BodyL ReaderL.
From QCo.Model Require Import Base Consts DType Codec Reader.
Open Scope N_scope.

(* Decoding a chunk body in batches of at most [limit] numbers, for ANY limit >= 1 (so also
   limits that cut through a run of repeated values): every batch is non-empty and no larger
   than the limit, the concatenation of the batches is the chunk's numbers, and the stream is
   left exactly at the end of the body. *)
Theorem C04_batches : forall w ps us b,
  wf_table w ps -> disjoint_table ps -> Forall (covered ps) us -> Nlen us < 2 ^ 24 ->
  write_body_fuel (length us) ps us = Ok b ->
  forall tb rest limit, enough_rest ps rest -> 1 <= limit ->
  let r := batches (S (length us)) w tb ps (Nlen us) None limit (b ++ rest) in
  concat (fst r) = us /\ snd r = rest /\
  Forall (fun l => (0 < length l <= N.to_nat limit)%nat) (fst r).
Proof. exact batches_roundtrip. Qed.

(* after the footer has been yielded the iterator yields nothing, forever *)
Theorem C04_nothing_after_footer : forall d st limit, r_term st = true ->
  r_step d st (RNext limit) = (st, RONone).
Proof. intros d st limit H. exact (proj1 (proj2 (proj2 (proj2 (proj2 (after_footer_refused d st H))))) limit). Qed.

(* the footer is the only item that terminates the iteration *)
Theorem C04_terminated_only_by_footer : forall d st o,
  r_term st = false -> r_term (fst (r_do d st o)) = true -> snd (r_do d st o) = ROItem IFooter.
Proof. exact term_only_set_by_footer. Qed.
