(* C04 — Streaming iteration yields the same data for every batch limit. *)
From QCo.Lemmas Require Import Tactics CodecL BodyL ReaderL FileL IterL.
From QCo.Model Require Import Writer.
From QCo.Model Require Import Base Consts DType Codec Reader.
Open Scope N_scope.

(* Decoding a chunk body in batches of at most [limit] numbers, for ANY limit >= 1 (so also
   limits that cut through a run of repeated values): every batch is non-empty and no larger
   than the limit, the concatenation of the batches is the chunk's numbers, and the stream is
   left exactly at the end of the body. *)
Theorem C04_batches : forall w ps us b,
  wf_table w ps -> disjoint_table ps -> Forall (covered ps) us -> Nlen us < 2 ^ 24 ->
  write_body_fuel (length us) ps us = Ok b ->
  forall tb rest limit, enough_rest ps rest -> 1 <= limit ->
  let r := batches (S (length us)) w tb ps (Nlen us) None limit (b ++ rest) in
  concat (fst r) = us /\ snd r = rest /\
  Forall (fun l => (0 < length l <= N.to_nat limit)%nat) (fst r).
Proof. exact batches_roundtrip. Qed.

(* after the footer has been yielded the iterator yields nothing, forever *)
Theorem C04_nothing_after_footer : forall d st limit, r_term st = true ->
  r_step d st (RNext limit) = (st, RONone).
Proof. intros d st limit H. exact (proj1 (proj2 (proj2 (proj2 (proj2 (after_footer_refused d st H))))) limit). Qed.

(* the footer is the only item that terminates the iteration *)
Theorem C04_terminated_only_by_footer : forall d st o,
  r_term st = false -> r_term (fst (r_do d st o)) = true -> snd (r_do d st o) = ROItem IFooter.
Proof. exact term_only_set_by_footer. Qed.

(* The full statement, on the decompressor state machine, for every file the writer model emits
   (every data type, delta order 0..=7, GCDs on/off, any chunk list incl. chunks with no numbers,
   any tables satisfying chunk_ok) and EVERY limit >= 1: draining the iterator yields the flags
   once, then for every chunk its metadata followed by its batches, then the footer once, then
   nothing (state unchanged); each batch is non-empty and at most [limit] long, a chunk has no
   batch iff it holds no numbers, the concatenation of a chunk's batches is the chunk; and the
   numbers obtained are those of whole-file decompression. *)
Theorem C04_iteration : forall d order gcds chunks bytes limit fuel,
  order <= 7 ->
  Forall (chunk_ok d (writer_flags order gcds)) chunks ->
  file_bytes d (writer_flags order gcds) chunks = Ok bytes ->
  1 <= limit ->
  (2 + 2 * length chunks + length (concat (map fst chunks)) <= fuel)%nat ->
  let r := drain_iter fuel d limit (fresh bytes) in
  exists outs,
    snd r = map ROItem outs /\
    iter_spec d (writer_flags order gcds) limit chunks outs /\
    r_term (fst r) = true /\
    (forall l, r_step d (fst r) (RNext l) = (fst r, RONone)) /\
    flat_map out_nums (snd r) = concat (map fst chunks) /\
    decode_file d bytes = Ok (flat_map out_nums (snd r)).
Proof. exact iteration_spec. Qed.

(* ---- one call of the body decoder as its sequence of BitReader / HuffmanTable calls on 64-bit
   words (Model/RBody.v: decompress_unsigneds_limited_dirty, checked loop: search_with_reader,
   read_varint, reps clamped to the batch, decompress_offsets with per-number save/restore of the
   position, incomplete_prefix bookkeeping, rewind when nothing of a block was decoded) returns
   exactly the batch of the bit-list model — same numbers, same carried-over run, same finished
   flag, same status and error kind, same position — for every limit, position, amount of data
   and carried-over state, and never panics ---- *)
From QCo.Model Require Import Words Huff RFile RBody.
From QCo.Lemmas Require Import WordsL HuffL NoPanicL RBodyL.

Theorem C04_word_level_batch : forall w ps tbl ws tb i j n_left inc limit eoi,
  bw_ok ws tb -> table_ok ps = true -> ps <> [] -> (max_code_len ps <= 40)%nat ->
  hfrom w ps = Ok tbl -> Forall (body_prefix w) ps -> sane_inc w inc ->
  j <= 64 -> 64 * i + j <= tb ->
  let out := rb_batch w ws tb tbl n_left inc limit eoi (i, j) in
  let m := read_batch w tb ps n_left inc limit eoi (rd_stream ws tb (64 * i + j)) in
  rb_nums out = b_nums m /\ rb_incomplete out = b_incomplete m /\
  rb_finished out = b_finished m /\ rb_status out = b_status m /\
  b_rest m = rd_stream ws tb (64 * fst (rb_pos out) + snd (rb_pos out)) /\
  rb_status out <> SPanic /\
  snd (rb_pos out) <= 64 /\ 64 * fst (rb_pos out) + snd (rb_pos out) <= tb.
Proof. exact rb_batch_eq. Qed.
