(* C08 — Decompressor calls that fail leave it unchanged; call protocol is enforced. *)
From QCo.Lemmas Require Import Tactics HeaderL ReaderL FileL SplitL.
From QCo.Model Require Import Writer.
From QCo.Model Require Import Base Consts DType Codec Reader.
Open Scope N_scope.

(* every call that returns an error, or ends the iteration for lack of data, leaves the whole
   decompressor state (bit position included) exactly unchanged — for every state, operation
   and byte content *)
Theorem C08_failure_atomic : forall d st o,
  rfail (snd (r_do d st o)) = true -> fst (r_do d st o) = st.
Proof. exact r_failure_atomic. Qed.

(* ... hence every later call behaves as if the failed calls had never been made *)
Theorem C08_as_if_never_made : forall d st ops,
  r_run d st (drop_failed d st ops) =
  (fst (r_run d st ops), filter (fun o => negb (rfail o)) (snd (r_run d st ops))).
Proof. exact r_failed_ops_removable. Qed.

(* out-of-order calls are rejected with InvalidArgument *)
Theorem C08_second_header : forall d st f, r_flags st = Some f ->
  r_step d st RHeader = (st, ROErr InvalidArgument).
Proof. exact second_header_refused. Qed.
Theorem C08_metadata_before_header : forall d st, r_flags st = None -> r_term st = false ->
  r_step d st RMeta = (st, ROErr InvalidArgument).
Proof. exact meta_before_header_refused. Qed.
Theorem C08_metadata_inside_body : forall d st c f,
  r_cbd st = Some c -> r_flags st = Some f -> r_term st = false ->
  r_step d st RMeta = (st, ROErr InvalidArgument).
Proof. exact meta_inside_body_refused. Qed.
Theorem C08_body_outside_chunk : forall d st, r_cbd st = None ->
  r_step d st RBody = (st, ROErr InvalidArgument) /\ r_step d st RSkip = (st, ROErr InvalidArgument).
Proof. intros d st H. split; [exact (body_outside_chunk_refused d st H) | exact (skip_outside_chunk_refused d st H)]. Qed.
Theorem C08_after_footer : forall d st, r_term st = true ->
  r_step d st RHeader = (st, ROErr InvalidArgument) /\ r_step d st RMeta = (st, ROErr InvalidArgument) /\
  r_step d st RBody = (st, ROErr InvalidArgument) /\ r_step d st RSkip = (st, ROErr InvalidArgument) /\
  (forall limit, r_step d st (RNext limit) = (st, RONone)) /\ r_do d st RSimple = (st, ROErr InvalidArgument).
Proof. exact after_footer_refused. Qed.

(* writes never fail *)
Theorem C08_write_never_fails : forall d st bs,
  r_do d st (RWrite bs) = (mkR (r_bytes st ++ bs) (r_bit st) (r_flags st) (r_cbd st) (r_term st), ROUnit).
Proof. exact write_never_fails. Qed.

(* once the missing bytes arrive the same call succeeds: whole-file decompression of any strict
   prefix of a valid file fails with InsufficientData leaving the decompressor unchanged, and
   after writing the remaining bytes the same call returns all the numbers *)
Theorem C08_retry : forall d order gcds chunks bytes L,
  order <= 7 ->
  Forall (chunk_ok d (writer_flags order gcds)) chunks ->
  file_bytes d (writer_flags order gcds) chunks = Ok bytes ->
  (L < length bytes)%nat ->
  let st := fresh (firstn L bytes) in
  r_do d st RSimple = (st, ROErr InsufficientData) /\
  exists st', r_do d (fst (r_do d st (RWrite (skipn L bytes)))) RSimple
              = (st', RONums (concat (map fst chunks))).
Proof. exact retry_simple. Qed.
