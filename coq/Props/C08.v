(* C08 — Decompressor calls that fail leave it unchanged; call protocol is enforced. *)
From QCo.Lemmas Require Import Tactics HeaderL ReaderL FileL SplitL.
From QCo.Model Require Import Writer.
From QCo.Model Require Import Base Consts DType Codec Reader.
Open Scope N_scope.

(* every call that returns an error, or ends the iteration for lack of data, leaves the whole
   decompressor state (bit position included) exactly unchanged — for every state, operation
   and byte content *)
Theorem C08_failure_atomic : forall d st o,
  rfail (snd (r_do d st o)) = true -> fst (r_do d st o) = st.
Proof. exact r_failure_atomic. Qed.

(* ... hence every later call behaves as if the failed calls had never been made *)
Theorem C08_as_if_never_made : forall d st ops,
  r_run d st (drop_failed d st ops) =
  (fst (r_run d st ops), filter (fun o => negb (rfail o)) (snd (r_run d st ops))).
Proof. exact r_failed_ops_removable. Qed.

(* out-of-order calls are rejected with InvalidArgument *)
Theorem C08_second_header : forall d st f, r_flags st = Some f ->
  r_step d st RHeader = (st, ROErr InvalidArgument).
Proof. exact second_header_refused. Qed.
Theorem C08_metadata_before_header : forall d st, r_flags st = None -> r_term st = false ->
  r_step d st RMeta = (st, ROErr InvalidArgument).
Proof. exact meta_before_header_refused. Qed.
Theorem C08_metadata_inside_body : forall d st c f,
  r_cbd st = Some c -> r_flags st = Some f -> r_term st = false ->
  r_step d st RMeta = (st, ROErr InvalidArgument).
Proof. exact meta_inside_body_refused. Qed.
Theorem C08_body_outside_chunk : forall d st, r_cbd st = None ->
  r_step d st RBody = (st, ROErr InvalidArgument) /\ r_step d st RSkip = (st, ROErr InvalidArgument).
Proof. intros d st H. split; [exact (body_outside_chunk_refused d st H) | exact (skip_outside_chunk_refused d st H)]. Qed.
Theorem C08_after_footer : forall d st, r_term st = true ->
  r_step d st RHeader = (st, ROErr InvalidArgument) /\ r_step d st RMeta = (st, ROErr InvalidArgument) /\
  r_step d st RBody = (st, ROErr InvalidArgument) /\ r_step d st RSkip = (st, ROErr InvalidArgument) /\
  (forall limit, r_step d st (RNext limit) = (st, RONone)) /\ r_do d st RSimple = (st, ROErr InvalidArgument).
Proof. exact after_footer_refused. Qed.

(* writes never fail *)
Theorem C08_write_never_fails : forall d st bs,
  r_do d st (RWrite bs) = (mkR (r_bytes st ++ bs) (r_bit st) (r_flags st) (r_cbd st) (r_term st), ROUnit).
Proof. exact write_never_fails. Qed.

(* once the missing bytes arrive the same call succeeds: whole-file decompression of any strict
   prefix of a valid file fails with InsufficientData leaving the decompressor unchanged, and
   after writing the remaining bytes the same call returns all the numbers *)
Theorem C08_retry : forall d order gcds chunks bytes L,
  order <= 7 ->
  Forall (chunk_ok d (writer_flags order gcds)) chunks ->
  file_bytes d (writer_flags order gcds) chunks = Ok bytes ->
  (L < length bytes)%nat ->
  let st := fresh (firstn L bytes) in
  r_do d st RSimple = (st, ROErr InsufficientData) /\
  exists st', r_do d (fst (r_do d st (RWrite (skipn L bytes)))) RSimple
              = (st', RONums (concat (map fst chunks))).
Proof. exact retry_simple. Qed.

(* ---- the whole Decompressor on 64-bit words (Model/RState.v: BitWords + bit_idx + flags + the
   chunk body decompressor with its HuffmanTable and NumDecompressor fields; write =
   extend_bytes, header / chunk_metadata / chunk_body / skip_chunk_body / Iterator::next /
   free_compressed_memory / simple_decompress with the real with_reader commit discipline and
   the unchecked fast path inside) simulates the bit-list state machine the property theorems
   are about: from every state satisfying the invariant, every operation gives the same output
   (numbers, items, None, the same error kind), the abstraction of the new state is the new
   bit-list state, the invariant is kept, and nothing panics ---- *)
From QCo.Model Require Import Words Huff RFile RBody RFast RState.
From QCo.Lemmas Require Import RStateL.

Theorem C08_word_level_decompressor_step : forall d st o, winv d st -> op_ok o ->
  let '(st', out) := ws_step d st o in
  winv d st' /\ r_step d (abs st) o = (abs st', out).
Proof. exact ws_step_sim. Qed.

Theorem C08_word_level_decompressor_run : forall d ops st, winv d st -> Forall op_ok ops ->
  let '(st', outs) := ws_run d st ops in
  winv d st' /\ r_run d (abs st) ops = (abs st', outs).
Proof. exact ws_run_sim. Qed.

Example C08_word_level_init : forall d, winv d ws_init.
Proof. exact ws_init_inv. Qed.
