(* C16 — Files with flag bits from a newer format are refused, not misread. *)
From QCo.Lemmas Require Import Tactics FlagsL HeaderL.
From QCo.Model Require Import Base Consts DType Codec Reader.
Open Scope N_scope.

(* A flag section is any non-empty sequence of bytes each carrying 7 payload bits and a
   continuation bit ([frame chunks]).  If any payload bit at position >= 6 is set — bit 6 of
   the first flag byte or any bit of a continuation byte — parsing fails with Compatibility. *)
Theorem C16_unknown_bits_refused : forall chunks rest,
  chunks_ok chunks -> has_unknown_bit (concat chunks) ->
  parse_flags (frame chunks ++ rest) = Err Compatibility.
Proof. exact parse_flags_refuses. Qed.

(* ... and so does every decode entry point on a file with such a header, leaving the
   decompressor unchanged *)
Theorem C16_every_entry_point : forall d fb chunks rest limit,
  chunks_ok chunks -> bytes_to_bits fb = frame chunks ->
  has_unknown_bit (concat chunks) ->
  let st := fresh (Consts.MAGIC_HEADER ++ [hdr d] ++ fb ++ rest) in
  r_step d st RHeader = (st, ROErr Compatibility) /\
  r_step d st (RNext limit) = (st, ROErr Compatibility) /\
  simple_decompress d st = (st, Err Compatibility).
Proof. exact unknown_flags_refused. Qed.

(* with those bits clear — whatever the number of all-zero continuation bytes — the six
   known flags are returned and decoding continues right after the flag section *)
Theorem C16_clear_bits_accepted : forall chunks rest,
  chunks_ok chunks -> ~ has_unknown_bit (concat chunks) ->
  parse_flags (frame chunks ++ rest) = Ok (known_flags (concat chunks), rest).
Proof. exact parse_flags_accepts. Qed.

Theorem C16_header_accepted : forall d fb chunks rest,
  chunks_ok chunks -> bytes_to_bits fb = frame chunks ->
  ~ has_unknown_bit (concat chunks) ->
  let st := fresh (Consts.MAGIC_HEADER ++ [hdr d] ++ fb ++ rest) in
  read_header d (r_bit st) (stream st) = Ok (known_flags (concat chunks), bytes_to_bits rest).
Proof. exact known_flags_accepted. Qed.

(* non-vacuity: a two-byte flag section whose continuation byte sets one bit *)
Example C16_nonvacuous :
  let chunks := [[true; false; false; false; true; true; false];
                 [false; false; true; false; false; false; false]] in
  chunks_ok chunks /\ has_unknown_bit (concat chunks) /\
  bytes_to_bits [141; 32] = frame chunks.
Proof.
  split; [split; [discriminate | repeat constructor]|]. split; [|reflexivity].
  exists 9%nat. split; [lia | reflexivity].
Qed.
