(* C03 — Reader decodes every format-valid file, incl. legacy flags and shipped assets. *)
From QCo.Lemmas Require Import Tactics SpecL GrammarL.
From QCo.Model Require Import Spec.
From QCo.Model Require Import Base Consts DType Codec Reader AssetsData.
Open Scope N_scope.

(* The asset files produced by versions 0.4, 0.6, 0.9 and 0.10 (regenerated as byte literals
   from /repo on every run) decode, in the model reader, to their recorded raw values.
   A closed computation: a genuine proof about these eight files. *)
Definition asset_ok (a : dtype * list N * list Z) : bool :=
  let '(d, bytes, vals) := a in
  match decode_file d bytes with Ok xs => list_eqb Z.eqb xs vals | _ => false end.
Theorem C03_assets : forallb asset_ok assets = true.
Proof. vm_compute. reflexivity. Qed.

(* Every file in the language of the frozen grammar — any flag combination releases since 0.4
   have written (4- or 5-bit code lengths, fixed 24-bit or minimal counts, GCD bit on/off, any
   delta order 0..=7, extra all-zero flag bytes), any complete prefix-free code tree up to the
   length limit, overlapping or widened ranges, any legal divisor (common or per range),
   run-length coding on any ranges with any jumpstart 0..=24 and runs split arbitrarily,
   zero-count chunks, chunks shorter than the delta order — is decoded by the reader model to
   exactly the numbers it encodes. *)
Theorem C03_reader_decodes_every_legal_file : forall a, wf_file a ->
  decode_file (sf_dt a) (bits_to_bytes (enc_file a)) = Ok (file_nums a).
Proof. exact reader_decodes_grammar. Qed.
