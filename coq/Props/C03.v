(* C03 — Reader decodes every format-valid file, incl. legacy flags and shipped assets. *)
From QCo.Lemmas Require Import Tactics.
From QCo.Model Require Import Base Consts DType Codec Reader AssetsData.
Open Scope N_scope.

(* The asset files produced by versions 0.4, 0.6, 0.9 and 0.10 (regenerated as byte literals
   from /repo on every run) decode, in the model reader, to their recorded raw values.
   A closed computation: a genuine proof about these eight files. *)
Definition asset_ok (a : dtype * list N * list Z) : bool :=
  let '(d, bytes, vals) := a in
  match decode_file d bytes with Ok xs => list_eqb Z.eqb xs vals | _ => false end.
Theorem C03_assets : forallb asset_ok assets = true.
Proof. vm_compute. reflexivity. Qed.
