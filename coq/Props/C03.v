(* C03 — Reader decodes every format-valid file, incl. legacy flags and shipped assets. *)
From QCo.Lemmas Require Import Tactics SpecL GrammarL.
From QCo.Model Require Import Spec.
From QCo.Model Require Import Base Consts DType Codec Reader AssetsData.
Open Scope N_scope.

(* The asset files produced by versions 0.4, 0.6, 0.9 and 0.10 (regenerated as byte literals
   from /repo on every run) decode, in the model reader, to their recorded raw values.
   A closed computation: a genuine proof about these eight files. *)
Definition asset_ok (a : dtype * list N * list Z) : bool :=
  let '(d, bytes, vals) := a in
  match decode_file d bytes with Ok xs => list_eqb Z.eqb xs vals | _ => false end.
Theorem C03_assets : forallb asset_ok assets = true.
Proof. vm_compute. reflexivity. Qed.

(* Every file in the language of the frozen grammar — any flag combination releases since 0.4
   have written (4- or 5-bit code lengths, fixed 24-bit or minimal counts, GCD bit on/off, any
   delta order 0..=7, extra all-zero flag bytes), any complete prefix-free code tree up to the
   length limit, overlapping or widened ranges, any legal divisor (common or per range),
   run-length coding on any ranges with any jumpstart 0..=24 and runs split arbitrarily,
   zero-count chunks, chunks shorter than the delta order — is decoded by the reader model to
   exactly the numbers it encodes. *)
Theorem C03_reader_decodes_every_legal_file : forall a, wf_file a ->
  decode_file (sf_dt a) (bits_to_bytes (enc_file a)) = Ok (file_nums a).
Proof. exact reader_decodes_grammar. Qed.

(* ---- word level: the 64-bit-word reader (Model/Words.v: BitWords::extend_bytes / truncate_left and
   BitReader::read_one / read / read_diff / unchecked_read_diff / seek / drain_empty_byte /
   read_aligned_bytes transcribed literally) reads exactly what the bit-list model reads ---- *)
From QCo.Model Require Import Words.
From QCo.Lemmas Require Import WordsL.

Theorem C03_word_extend_bytes : forall words tb bytes,
  bw_ok words tb -> tb mod 8 = 0 -> Forall (fun b => b < 256) bytes ->
  let '(ws', tb') := bw_extend words tb bytes in
  tb' = tb + 8 * Nlen bytes /\ bw_ok ws' tb' /\
  bw_bits ws' tb' = bw_bits words tb ++ bytes_to_bits bytes.
Proof. exact bw_extend_spec. Qed.

Theorem C03_word_truncate_left : forall words tb k,
  bw_ok words tb -> 64 * k <= tb ->
  let '(ws', tb') := bw_truncate_left words tb k in
  tb' = tb - 64 * k /\ bw_ok ws' tb' /\
  bw_bits ws' tb' = skipn (N.to_nat (64 * k)) (bw_bits words tb).
Proof. exact bw_truncate_left_spec. Qed.

Theorem C03_word_read_diff : forall ws tb i j n,
  words_ok ws -> j <= 64 -> tb <= 64 * Nlen ws -> 64 * i + j <= tb ->
  match rd_read_diff ws i j tb n with
  | Ok (v, (i', j')) =>
      get n (rd_stream ws tb (64 * i + j)) = Ok (v, rd_stream ws tb (64 * i + j + n)) /\
      64 * i' + j' = 64 * i + j + n /\ j' <= 64
  | Err k => get n (rd_stream ws tb (64 * i + j)) = Err k
  | Panic => False
  end.
Proof. exact rd_read_diff_spec. Qed.

(* the typed read (truncating at every from_word and shift, as the Rust generic code does for a
   type of ub bits) equals the unbounded one whenever n <= ub *)
Theorem C03_word_typed_read : forall ub ws i j n,
  words_ok ws -> j <= 64 -> 64 * i + j + n <= 64 * Nlen ws -> n <= ub ->
  rd_unchecked_read_diff_u ub ws i j n = rd_unchecked_read_diff ws i j n.
Proof. exact rd_unchecked_read_diff_u_spec. Qed.

Theorem C03_word_read_one : forall ws tb i j,
  words_ok ws -> j <= 64 -> tb <= 64 * Nlen ws -> 64 * i + j <= tb ->
  match rd_read_one ws i j tb with
  | Ok (b, (i', j')) =>
      get1 (rd_stream ws tb (64 * i + j)) = Ok (b, rd_stream ws tb (64 * i + j + 1)) /\
      64 * i' + j' = 64 * i + j + 1 /\ j' <= 64
  | Err k => get1 (rd_stream ws tb (64 * i + j)) = Err k
  | Panic => False
  end.
Proof. exact rd_read_one_spec. Qed.

(* BitReader::read: the only panic is read(0) standing exactly at the end of word-aligned data
   after a seek (never the case in the decompressor: every read(code_len) follows a successful
   read of the 4- or 5-bit length field, which leaves j >= 1) *)
Theorem C03_word_read_bits : forall ws tb i j n,
  words_ok ws -> j <= 64 -> tb <= 64 * Nlen ws -> 64 * i + j <= tb ->
  match rd_read ws i j tb n with
  | Ok (l, (i', j')) =>
      get_bits n (rd_stream ws tb (64 * i + j)) = Ok (l, rd_stream ws tb (64 * i + j + n)) /\
      64 * i' + j' = 64 * i + j + n /\ j' <= 64
  | Err k => get_bits n (rd_stream ws tb (64 * i + j)) = Err k
  | Panic => n = 0 /\ i = Nlen ws /\ j = 0 /\ tb = 64 * Nlen ws
  end.
Proof. exact rd_read_spec. Qed.

Theorem C03_word_drain_empty_byte : forall ws tb i j,
  words_ok ws -> j <= 64 -> tb <= 64 * Nlen ws -> tb mod 8 = 0 -> 64 * i + j <= tb ->
  match rd_drain_empty_byte ws i j with
  | Ok (i', j') =>
      drain_pad (rd_stream ws tb (64 * i + j)) = Ok (rd_stream ws tb (64 * i' + j')) /\
      j' <= 64 /\ (64 * i' + j') mod 8 = 0 /\ 64 * i' + j' <= tb
  | Err k => drain_pad (rd_stream ws tb (64 * i + j)) = Err k
  | Panic => False
  end.
Proof. exact rd_drain_empty_byte_spec. Qed.

Theorem C03_word_read_aligned_bytes : forall ws tb i j n,
  words_ok ws -> j <= 64 -> tb <= 64 * Nlen ws -> tb mod 8 = 0 -> 64 * i + j <= tb ->
  match rd_read_aligned_bytes ws i j tb n with
  | Ok (bs, (i', j')) =>
      Reader.read_aligned (64 * i + j) n (rd_stream ws tb (64 * i + j))
      = Ok (bs, rd_stream ws tb (64 * i + j + 8 * n)) /\
      64 * i' + j' = 64 * i + j + 8 * n /\ j' < 64
  | Err k => Reader.read_aligned (64 * i + j) n (rd_stream ws tb (64 * i + j)) = Err k
  | Panic => False
  end.
Proof. exact rd_read_aligned_bytes_spec. Qed.

(* what the writer drains, loaded into reader words, is the writer's bit string *)
Theorem C03_word_writer_reader : forall w, wr_ok w -> wr_bit_size w mod 8 = 0 ->
  let '(ws, tb) := bw_extend [] 0 (wr_drain_bytes w) in
  bw_ok ws tb /\ bw_bits ws tb = wr_bits w /\ tb = wr_bit_size w.
Proof. exact wr_drain_bw_roundtrip. Qed.

(* ---- the decompressor's header and chunk-metadata parse as its sequence of BitReader calls
   (Model/RFile.v: read_aligned_bytes(4) = magic, data-type byte, Flags::parse_from, chunk start
   byte, ChunkMetadata::parse_from incl. parse_prefixes / read_gcd / T::read_from, drain_empty_byte;
   all on the 64-bit-word reader of Words.v) returns exactly what the bit-list model returns:
   same flags / metadata, same new position, same error kind, never a panic ---- *)
From QCo.Model Require Import RFile.
From QCo.Lemmas Require Import RFileL.

Theorem C03_word_level_header_parse : forall ws tb d i j, rd_inv ws tb i j ->
  match rf_header ws tb d (i, j) with
  | Ok (f, (i', j')) =>
      read_header d (64*i+j) (rd_stream ws tb (64*i+j)) = Ok (f, rd_stream ws tb (64*i'+j'))
      /\ rd_inv ws tb i' j'
  | Err k => read_header d (64*i+j) (rd_stream ws tb (64*i+j)) = Err k
  | Panic => False end.
Proof. exact rf_header_eq. Qed.

Theorem C03_word_level_chunk_meta_parse : forall ws tb d f i j, rd_inv ws tb i j ->
  match rf_chunk_meta ws tb d f (i, j) with
  | Ok (m, (i', j')) =>
      read_chunk_meta d f (64*i+j) (rd_stream ws tb (64*i+j)) = Ok (m, rd_stream ws tb (64*i'+j'))
      /\ rd_inv ws tb i' j'
  | Err k => read_chunk_meta d f (64*i+j) (rd_stream ws tb (64*i+j)) = Err k
  | Panic => False end.
Proof. exact rf_chunk_meta_eq. Qed.

(* ---- the Huffman lookup as the real data structure and code (Model/Huff.v: HuffmanTable built
   by build_from_prefixes_recursive with strides of up to 6 bits, search_with_reader over
   read_prefix_table_idx in its three word-alignment cases, rewind) is what Codec.read_code_at
   abstracts, on every table that passed validation, at every position and amount of data ---- *)
From QCo.Model Require Import Huff.
From QCo.Lemmas Require Import HuffL.

Theorem C03_huffman_table_builds : forall w ps, table_ok ps = true -> exists tbl, hfrom w ps = Ok tbl.
Proof. exact hfrom_total. Qed.

Theorem C03_huffman_search_is_read_code_at : forall w ps tbl ws tb i j,
  table_ok ps = true -> ps <> [] -> (max_code_len ps <= 40)%nat ->
  hfrom w ps = Ok tbl ->
  bw_ok ws tb -> j <= 64 -> 64 * i + j <= tb ->
  match hsearch_checked ws i j tb tbl with
  | Ok (p, (i', j')) =>
      read_code_at tb ps (rd_stream ws tb (64 * i + j)) = Ok (p, rd_stream ws tb (64 * i' + j'))
      /\ 64 * i' + j' = 64 * i + j + Nlen (p_code p) /\ j' <= 64 /\ 64 * i' + j' <= tb
  | Err k => read_code_at tb ps (rd_stream ws tb (64 * i + j)) = Err k
  | Panic => False
  end.
Proof. exact hsearch_eq_read_code_at. Qed.
