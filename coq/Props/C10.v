(* C10 — Chunk metadata tells the truth about the chunk (metadata round trip part). *)
From QCo.Lemmas Require Import Tactics MetaL PolicyL.
From QCo.Model Require Import Policy.
From Coq Require Import Sorting.Sorted.
From QCo.Model Require Import Base Consts DType Codec.
Open Scope N_scope.

(* metadata parsed back from the bytes equals the metadata written, up to [norm_table] *)
Theorem C10_meta_roundtrip : forall f d m b rest,
  wf_meta f d m -> write_meta f d m = Ok b -> Nlen rest mod 8 = 0 ->
  parse_meta f d (b ++ rest)
  = Ok (mkMeta (m_n m) (m_body m) (m_moments m) (norm_table f (pdt f d) (m_table m)), rest).
Proof. exact meta_roundtrip. Qed.

(* ... and [norm_table] only ever changes the divisor of single-valued ranges: "the divisor
   recorded for a single-valued range is not significant" is exactly the information lost *)
Theorem C10_only_single_valued_divisors_change : forall f pd ps, fgcd f = true ->
  Forall2 (fun p q => q = set_gcd (p_gcd q) p /\ (p_lower p <> p_upper p -> q = p)) ps (norm_table f pd ps).
Proof. exact norm_table_spec. Qed.

Theorem C10_common_gcd_is_the_multi_valued_gcd : forall pd ps g p,
  common_gcd pd ps = Some g -> In p ps -> p_lower p <> p_upper p -> p_gcd p = g.
Proof. exact common_gcd_multi. Qed.

(* Whatever the float cost estimates and heap tie-breaks decide (run-length oracle [rl], merge
   path [path], Huffman merge order [merges] are universally quantified), the table trained on a
   chunk's sorted unsigned values has complete prefix-free codes, and its ranges are consecutive
   non-empty slices of the sorted values: well-formed (lower <= upper as first/last of a sorted
   slice), pairwise disjoint and ordered ([separated]), jointly covering every value, each count
   the number of values inside, every value congruent to the lower bound modulo the divisor. *)
Theorem C10_policy_faithful : forall sorted maxp (use_gcd : bool) (rl : rl_oracle) (fg : bool) path merges,
  Sorted N.le sorted ->
  1 <= maxp <= Nlen sorted ->
  (fg = true -> use_gcd = true) ->
  let raws := choose_unoptimized sorted maxp use_gcd rl in
  tiles 0 (length raws) path = true ->
  hvalid (hinit (map w_weight (apply_path fg raws path))) merges = true ->
  S (length merges) = length path ->
  let table := train_table sorted maxp use_gcd rl fg path merges in
  table_ok table = true /\
  (exists sl, concat sl = sorted /\ Forall2 describes table sl /\ separated sl) /\
  (forall x, In x sorted -> exists p, In p table /\ contains p x = true /\
                                      (x - p_lower p) mod p_gcd p = 0).
Proof. exact train_table_spec. Qed.

(* at most max_n_prefixes (<= 2^level) raw ranges, cut only between distinct values *)
Theorem C10_raw_prefix_count : forall sorted maxp, 1 <= maxp <= Nlen sorted ->
  chain sorted 0 (Nlen sorted) (unopt_cuts sorted maxp) /\ Nlen (unopt_cuts sorted maxp) <= maxp.
Proof. exact unopt_cuts_chain. Qed.
