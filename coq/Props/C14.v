(* C14 — Compressed size is bounded (partial: format arithmetic). *)
From QCo.Lemmas Require Import Tactics CodecL FileL SizeL.
From QCo.Model Require Import Writer.
From QCo.Model Require Import Base Consts DType Codec.
Open Scope N_scope.

(* an offset costs at most k+1 bits, and exactly k when the range size is a power of two *)
Theorem C14_offset_bits : forall r off, Nlen (write_offset r off) <= k_of_range r + 1.
Proof. exact write_offset_length. Qed.
Theorem C14_offset_bits_exact : forall r off, off <= r -> r + 1 = 2 ^ k_of_range r ->
  Nlen (write_offset r off) = k_of_range r.
Proof. exact write_offset_length_exact. Qed.
(* a run-length count costs at most 48 bits whatever the run length *)
Theorem C14_varint_bits : forall j x, j <= 24 -> x < 2 ^ 24 -> Nlen (write_varint x j) <= 48.
Proof. exact write_varint_length_le. Qed.
(* a stored divisor costs at most 1 + ceil(log2 range) bits *)
Theorem C14_gcd_bits : forall range g, Nlen (write_gcd range g) <= 1 + gcd_bits range.
Proof. exact write_gcd_length. Qed.

(* the body of a chunk costs exactly the sum over its blocks of code + run-length count + offsets *)
Theorem C14_body_bits_exact : forall ps fuel us b,
  write_body_fuel fuel ps us = Ok b ->
  Nlen b = nsum (map block_cost (body_blocks fuel ps us)).
Proof. exact body_bits_exact. Qed.

(* per-chunk metadata bound of the property (chunk byte included), for every data type with
   W = the unsigned width, every flag combination the writer uses and every chunk_ok chunk *)
Theorem C14_chunk_metadata_bound : forall d f xs table m bs,
  chunk_ok d f (xs, table) -> chunk_payload d f table xs = Ok (m, bs) ->
  1 + (Nlen bs - m_body m)
  <= 12 + (ford f + 1) * ubits d / 8 + Nlen table * ((67 + 3 * ubits d) / 8 + 1).
Proof. exact chunk_meta_bound. Qed.

(* the file-level inequality of the property follows from the per-chunk body bound
   body_bytes <= ceil(n (W+4) / 8) — which depends on the code lengths the policy chooses and is
   the part decided by the correspondence run, not by this theorem *)
Theorem C14_total_from_body : forall d f chunks bytes,
  d <> DBool -> ford f <= 7 ->
  Forall (chunk_ok d f) chunks -> file_bytes d f chunks = Ok bytes ->
  (forall xs table m bs, In (xs, table) chunks -> chunk_payload d f table xs = Ok (m, bs) ->
                         m_body m <= cdiv8 (Nlen xs * (wbits d + 4))) ->
  Nlen bytes <= file_bound (wbits d) (wbits d) (ford f) chunks.
Proof. exact total_from_body. Qed.

(* what holds with no assumption on the policy: at most W + 79 bits per number *)
Theorem C14_total_unconditional : forall d f chunks bytes,
  ford f <= 7 ->
  Forall (chunk_ok d f) chunks -> file_bytes d f chunks = Ok bytes ->
  Nlen bytes <= 8 + nsum (map (chunk_bound_uncond (ubits d) (ford f)) chunks).
Proof. exact total_unconditional. Qed.

(* the property's literal bound is false for bool (W = 1) at delta order >= 1: refutation witness *)
Example C14_bool_literal_bound_refuted := bool_literal_counterexample.
