(* C14 — Compressed size is bounded (partial: format arithmetic). *)
From QCo.Lemmas Require Import Tactics CodecL.
From QCo.Model Require Import Base Consts DType Codec.
Open Scope N_scope.

(* an offset costs at most k+1 bits, and exactly k when the range size is a power of two *)
Theorem C14_offset_bits : forall r off, Nlen (write_offset r off) <= k_of_range r + 1.
Proof. exact write_offset_length. Qed.
Theorem C14_offset_bits_exact : forall r off, off <= r -> r + 1 = 2 ^ k_of_range r ->
  Nlen (write_offset r off) = k_of_range r.
Proof. exact write_offset_length_exact. Qed.
(* a run-length count costs at most 48 bits whatever the run length *)
Theorem C14_varint_bits : forall j x, j <= 24 -> x < 2 ^ 24 -> Nlen (write_varint x j) <= 48.
Proof. exact write_varint_length_le. Qed.
(* a stored divisor costs at most 1 + ceil(log2 range) bits *)
Theorem C14_gcd_bits : forall range g, Nlen (write_gcd range g) <= 1 + gcd_bits range.
Proof. exact write_gcd_length. Qed.
