(* C12 — Number<->integer mappings are order-preserving bijections; type tag is checked.
   Property theorems only; proofs are in Lemmas/. *)
From QCo.Lemmas Require Import Tactics DTypeL HeaderL.
From QCo.Model Require Import Base Consts DType Codec Reader.
Open Scope N_scope.

(* the unsigned mapping is inverted bit-exactly, in both directions *)
Theorem C12_unsigned_inverse : forall d x, representable d x = true -> of_u d (to_u d x) = x.
Proof. exact of_u_to_u. Qed.
Theorem C12_unsigned_inverse' : forall d u, u_dom d u -> to_u d (of_u d u) = u /\ representable d (of_u d u) = true.
Proof. intros d u H. split; [exact (to_u_of_u d u H) | exact (of_u_representable d u H)]. Qed.
Theorem C12_unsigned_range : forall d x, representable d x = true -> to_u d x < 2 ^ ubits d.
Proof. exact to_u_bound. Qed.

(* strictly increasing w.r.t. the type's natural order (floats: sign-magnitude order of
   the bit patterns, i.e. -NaN < -inf < ... < -0.0 < +0.0 < ... < +inf < +NaN by payload) *)
Theorem C12_order_preserving : forall d x y,
  representable d x = true -> representable d y = true ->
  (nat_lt d x y <-> to_u d x < to_u d y).
Proof. exact to_u_strict_mono. Qed.

(* the signed mapping is an exact inverse pair *)
Theorem C12_signed_inverse : forall d x, representable d x = true ->
  of_s d (to_s d x) = x /\ representable (sdt d) (to_s d x) = true.
Proof. intros d x H. split; [exact (of_s_to_s d x H) | exact (to_s_representable d x H)]. Qed.
Theorem C12_signed_inverse' : forall d s, representable (sdt d) s = true ->
  to_s d (of_s d s) = s /\ representable d (of_s d s) = true.
Proof. intros d s H. split; [exact (to_s_of_s d s H) | exact (of_s_representable d s H)]. Qed.

(* the fixed-width byte representation is an exact inverse, phys/8 bytes long *)
Theorem C12_bytes_inverse : forall d x, valid d x = true ->
  exists bs, to_bytes d x = Ok bs /\ length bs = N.to_nat (phys d / 8) /\
             Forall (fun b => b < 256) bs /\ of_bytes d bs = Ok x.
Proof. exact to_bytes_ok. Qed.

(* every data type has a distinct header byte *)
Theorem C12_header_bytes_distinct : NoDup (map hdr all_dtypes).
Proof. exact hdr_distinct. Qed.

(* decoding a file as a different data type is rejected, by every entry point, and the
   decompressor is left untouched *)
Theorem C12_tag_checked : forall d d' rest limit,
  d <> d' ->
  let st := fresh (Consts.MAGIC_HEADER ++ [hdr d] ++ rest) in
  r_step d' st RHeader = (st, ROErr Corruption) /\
  r_step d' st (RNext limit) = (st, ROErr Corruption) /\
  simple_decompress d' st = (st, Err Corruption).
Proof. exact wrong_type_rejected. Qed.

(* non-vacuity: concrete values meet the hypotheses *)
Example C12_nonvacuous :
  representable DF64 (Z.of_N (2 ^ 63 + 5)) = true /\ representable DTsNanos96 (-1)%Z = true /\
  nat_lt DF32 (Z.of_N (2 ^ 31)) 0%Z /\ u_dom DBool 1 /\ valid DTsMicros96 (ts96_min DTsMicros96) = true.
Proof. repeat split; vm_compute; (reflexivity || discriminate). Qed.

(* ---- the conversions as the Rust macros write them — bit operations and wrapping arithmetic on
   fixed-width words (Model/NumOps.v: `wrapping_sub(MIN) as unsigned`, `!mem_layout` /
   `mem_layout ^ SIGN_BIT_MASK`, big-endian to_bytes / from_bytes, the 96-bit timestamps' MIN
   offset and validity check) — are the arithmetic functions the laws above are about, for every
   value of every type ---- *)
From QCo.Model Require Import NumOps.
From QCo.Lemmas Require Import NumOpsL.

Theorem C12_bit_level_to_unsigned : forall d x, representable d x = true -> ops_to_unsigned d x = to_u d x.
Proof. exact ops_to_unsigned_eq. Qed.
Theorem C12_bit_level_from_unsigned : forall d (u : N), (u < 2 ^ ubits d)%N -> ops_from_unsigned d u = of_u d u.
Proof. exact ops_from_unsigned_eq. Qed.
Theorem C12_bit_level_to_signed : forall d x, representable d x = true -> ops_to_signed d x = to_s d x.
Proof. exact ops_to_signed_eq. Qed.
Theorem C12_bit_level_from_signed : forall d s, representable (sdt d) s = true -> ops_from_signed d s = of_s d s.
Proof. exact ops_from_signed_eq. Qed.
Theorem C12_bit_level_to_bytes : forall d x, representable d x = true -> ops_to_bytes d x = to_bytes d x.
Proof. exact ops_to_bytes_eq. Qed.
Theorem C12_bit_level_from_bytes : forall d (bs : list N), length bs = N.to_nat (phys d / 8) -> Forall (fun b => (b < 256)%N) bs ->
  ops_from_bytes d bs = of_bytes d bs.
Proof. exact ops_from_bytes_eq. Qed.
