(* C05 — Incremental input: any split of the bytes into writes decodes identically. *)
From QCo.Lemmas Require Import Tactics ReaderL.
From QCo.Model Require Import Base Consts DType Codec Reader.
Open Scope N_scope.

(* An iteration that stops for lack of data (or fails) loses nothing: the decompressor is
   exactly as before, so the same call is retried on more data. *)
Theorem C05_stop_changes_nothing : forall d st limit,
  snd (r_do d st (RNext limit)) = RONone -> fst (r_do d st (RNext limit)) = st.
Proof.
  intros d st limit H. apply r_failure_atomic. rewrite H. reflexivity.
Qed.

(* Releasing already-consumed compressed memory at any point changes nothing but the reported
   bit position: the remaining stream is the same, and every later operation sequence gives
   the same outputs. *)
Theorem C05_free_stream_unchanged : forall d st, stream (fst (r_step d st RFree)) = stream st.
Proof. exact free_stream_unchanged. Qed.

Theorem C05_free_transparent : forall d st ops, pos_ok st ->
  snd (r_run d st (RFree :: ops)) = ROUnit :: snd (r_run d st ops) /\
  same_view (fst (r_run d st (RFree :: ops))) (fst (r_run d st ops)).
Proof. exact free_transparent_run. Qed.

(* every state reached from a fresh decompressor satisfies the position invariant used above *)
Theorem C05_reachable_pos_ok : forall d ops, pos_ok (fst (r_run d r_init ops)).
Proof. exact reachable_pos_ok. Qed.
