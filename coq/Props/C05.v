(* C05 — Incremental input: any split of the bytes into writes decodes identically. *)
From QCo.Lemmas Require Import Tactics ReaderL FileL IterL SplitL.
From QCo.Model Require Import Writer.
From QCo.Model Require Import Base Consts DType Codec Reader.
Open Scope N_scope.

(* An iteration that stops for lack of data (or fails) loses nothing: the decompressor is
   exactly as before, so the same call is retried on more data. *)
Theorem C05_stop_changes_nothing : forall d st limit,
  snd (r_do d st (RNext limit)) = RONone -> fst (r_do d st (RNext limit)) = st.
Proof.
  intros d st limit H. apply r_failure_atomic. rewrite H. reflexivity.
Qed.

(* Releasing already-consumed compressed memory at any point changes nothing but the reported
   bit position: the remaining stream is the same, and every later operation sequence gives
   the same outputs. *)
Theorem C05_free_stream_unchanged : forall d st, stream (fst (r_step d st RFree)) = stream st.
Proof. exact free_stream_unchanged. Qed.

Theorem C05_free_transparent : forall d st ops, pos_ok st ->
  snd (r_run d st (RFree :: ops)) = ROUnit :: snd (r_run d st ops) /\
  same_view (fst (r_run d st (RFree :: ops))) (fst (r_run d st ops)).
Proof. exact free_transparent_run. Qed.

(* every state reached from a fresh decompressor satisfies the position invariant used above *)
Theorem C05_reachable_pos_ok : forall d ops, pos_ok (fst (r_run d r_init ops)).
Proof. exact reachable_pos_ok. Qed.

(* The full statement: however the bytes of a file (any file the writer model emits) are cut
   into successive writes — cuts inside the magic header, the flags, a chunk's metadata, a
   Huffman code, a run-length count or an offset included — feeding the pieces one at a time
   and draining the iterator after each piece yields, after merging the adjacent number batches
   of a chunk (a batch cut short by missing data is completed by the next one), exactly the
   item sequence obtained when all bytes are written first; nothing fails, the iteration ends
   terminated, and nothing is lost or duplicated. For every limit >= 1. *)
Theorem C05_split_invariance : forall d order gcds chunks bytes limit pieces fuel,
  order <= 7 -> Forall (chunk_ok d (writer_flags order gcds)) chunks ->
  file_bytes d (writer_flags order gcds) chunks = Ok bytes -> 1 <= limit ->
  concat pieces = bytes ->
  (3 + length chunks + length (concat (map fst chunks)) <= fuel)%nat ->
  let r := feed fuel d limit r_init pieces in
  merge_nums (snd r) = merge_nums (map ROItem (iter_items d (writer_flags order gcds) limit chunks)) /\
  r_term (fst r) = true /\ (exists items, snd r = map ROItem items) /\
  (forall l, r_step d (fst r) (RNext l) = (fst r, RONone)).
Proof. exact split_invariance. Qed.

Theorem C05_nothing_lost_nothing_duplicated : forall d order gcds chunks bytes limit pieces fuel,
  order <= 7 ->
  Forall (chunk_ok d (writer_flags order gcds)) chunks ->
  file_bytes d (writer_flags order gcds) chunks = Ok bytes ->
  1 <= limit ->
  concat pieces = bytes ->
  (3 + length chunks + length (concat (map fst chunks)) <= fuel)%nat ->
  flat_map out_nums (snd (feed fuel d limit r_init pieces)) = concat (map fst chunks).
Proof. exact split_numbers. Qed.
