(* C07 — Corrupt or hostile bytes never panic or hang any decode entry point (partial). *)
From QCo.Lemmas Require Import Tactics CodecL NoPanicL FastL.
From QCo.Model Require Import Fast.
From QCo.Model Require Import Reader.
From QCo.Model Require Import Base Consts DType Codec.
Open Scope N_scope.

(* The arithmetic hazard points of offset decoding (k_range - offset, lower + offset * gcd)
   are unreachable for ANY stream, for every prefix the metadata parser can produce
   (gcd >= 1, lower <= upper <= type maximum): the result is a number inside the range, or
   InsufficientData, never a panic/overflow. *)
Theorem C07_offset_never_panics : forall w p s,
  p_gcd p >= 1 -> p_lower p <= p_upper p -> p_upper p <= umax w ->
  match read_offset w p s with
  | Ok (u, s') => p_lower p <= u <= p_upper p /\ (u - p_lower p) mod p_gcd p = 0
                  /\ (u - p_lower p) / p_gcd p <= p_range p
  | Err e => e = InsufficientData
  | Panic => False
  end.
Proof. exact read_offset_sound. Qed.

Theorem C07_offsets_never_panic : forall w p reps s,
  p_gcd p >= 1 -> p_lower p <= p_upper p -> p_upper p <= umax w ->
  snd (read_offsets w p reps s) <> SPanic.
Proof. exact read_offsets_no_panic. Qed.

(* a stored divisor is always >= 1 and within the range it is stored against, or the bytes
   are rejected as corrupt / insufficient *)
Theorem C07_gcd_field_sound : forall range s,
  match read_gcd range s with
  | Ok (g, _) => 1 <= g /\ (g = 1 \/ g <= range)
  | Err e => e = InsufficientData \/ e = Corruption
  | Panic => False
  end.
Proof. exact read_gcd_sound. Qed.

(* The full statement on the decompressor state machine: for EVERY byte string (the payloads of
   the write operations are arbitrary), EVERY sequence of calls (write, header, chunk_metadata,
   chunk_body, skip_chunk_body, iterator next with any limit, free_compressed_memory,
   simple_decompress) and every data type, no call ever reaches one of the model's hazard
   points (usize/U subtraction underflow, lower + offset * gcd overflow, n - n_processed
   underflow): every output is numbers, an item, or an error value.  Termination is by
   construction (every model function is structurally recursive or fuelled). *)
Theorem C07_no_panic : forall d ops, Forall (fun o => o <> ROPanic) (snd (r_run d r_init ops)).
Proof. exact no_panic. Qed.

Theorem C07_whole_file_no_panic : forall d bytes, decode_file d bytes <> Panic.
Proof. exact decode_file_no_panic. Qed.

(* metadata accepted by the parser always carries sane prefixes: gcd >= 1, lower <= upper <= max *)
Theorem C07_parsed_metadata_sane : forall f d s m r, parse_meta f d s = Ok (m, r) ->
  Forall (sane_prefix (ubits (pdt f d))) (m_table m).
Proof. exact parse_meta_sane. Qed.

(* The unchecked fast decode path of the real reader (Model/Fast.v: unchecked reads on the
   zero-padded word buffer — reading past the last word is Panic —, guarded by
   guaranteed_safe_num_blocks >= 30 computed from max_bits_read / max_bits_overshot as in
   num_decompressor.rs) is, on every chunk whose metadata parsed and for EVERY stream (hostile
   bits included), every limit and every state, exactly the checked batch decoder used in the
   reader model: it never reads past the real data and never panics.  This is what justifies
   treating the fast path by its contract in Reader.v. *)
Theorem C07_fast_path_is_checked_path : forall f d s0 m r c,
  parse_meta f d s0 = Ok (m, r) -> new_cbd f m = Ok c ->
  forall tb nproc inc limit eoi s,
  fast_batch (ubits (pdt f d)) (phys (pdt f d)) tb (c_table c) (c_n c - nproc) inc limit eoi s
  = read_batch (ubits (pdt f d)) tb (c_table c) (c_n c - nproc) inc limit eoi s.
Proof. exact parsed_chunk_fast_batch_eq. Qed.

(* ---- the unchecked Huffman search of the fast path on the real table structure (Model/Huff.v:
   unchecked_search_with_reader over unchecked_read_prefix_table_idx) never indexes out of bounds
   and finds the code the semantic lookup finds, whenever max_code_len more bits lie inside the
   words — which is what max_bits_read guarantees before the fast path is taken ---- *)
From QCo.Model Require Import Words Huff.
From QCo.Lemmas Require Import WordsL HuffL.

Theorem C07_unchecked_huffman_search : forall w ps tbl ws i j,
  table_ok ps = true -> ps <> [] -> hfrom w ps = Ok tbl ->
  words_ok ws -> j <= 64 ->
  64 * i + j + N.of_nat (max_code_len ps) <= 64 * Nlen ws ->
  exists p i' j',
    hsearch_unchecked ws i j tbl = Ok (p, (i', j')) /\
    read_code ps (skipn (N.to_nat (64 * i + j)) (words_bits ws))
      = Ok (p, skipn (N.to_nat (64 * i' + j')) (words_bits ws)) /\
    64 * i' + j' = 64 * i + j + Nlen (p_code p) /\ j' <= 64.
Proof. exact hsearch_unchecked_eq. Qed.

(* ---- the complete body decoder as the real code runs it (Model/RFast.v: the loop that decodes
   `guaranteed_safe_num_blocks` blocks with UNCHECKED word reads — unchecked Huffman search,
   unchecked varint, unchecked offsets, no bounds checks — and falls back to checked reads near
   the end of the data), on every chunk whose metadata was parsed and whatever bytes follow:
   every unchecked `words[i]` is inside the buffer and no subtraction, shift, multiplication or
   addition leaves its range (the model returns Panic for each of these), and the result is what
   the checked bit-list decoder returns ---- *)
From QCo.Model Require Import RFile RBody RFast Reader.
From QCo.Lemmas Require Import RBodyL RFastL.

Theorem C07_fast_path_in_bounds : forall f d s0 mt r c tbl ws tb i j nproc inc limit eoi,
  parse_meta f d s0 = Ok (mt, r) -> new_cbd f mt = Ok c -> c_table c <> [] ->
  hfrom (ubits (pdt f d)) (c_table c) = Ok tbl ->
  bw_ok ws tb -> sane_inc (ubits (pdt f d)) inc -> j <= 64 -> 64 * i + j <= tb ->
  let w := ubits (pdt f d) in
  let ps := c_table c in
  let out := rfa_batch w (phys (pdt f d)) ws tb tbl (rfa_max_bits_per_num_block w ps)
                       (rfa_max_overshoot_per_num_block ps) (rfa_use_gcd ps)
                       (c_n c - nproc) inc limit eoi (i, j) in
  let m := read_batch w tb ps (c_n c - nproc) inc limit eoi (rd_stream ws tb (64 * i + j)) in
  rb_nums out = b_nums m /\
  rb_incomplete out = b_incomplete m /\
  rb_finished out = b_finished m /\
  rb_status out = b_status m /\
  b_rest m = rd_stream ws tb (64 * fst (rb_pos out) + snd (rb_pos out)) /\
  rb_status out <> SPanic /\
  snd (rb_pos out) <= 64 /\ 64 * fst (rb_pos out) + snd (rb_pos out) <= tb.
Proof. exact rfa_batch_parsed. Qed.
