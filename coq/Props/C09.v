(* C09 — Compressor enforces its call protocol and is unchanged by failed calls. *)
From QCo.Lemmas Require Import Tactics WriterL.
From QCo.Model Require Import Base Consts DType Codec Writer.
Open Scope N_scope.

Theorem C09_accepts_exactly : forall c d st,
  (snd (w_step c d st WHeader) = WUnit <-> w_hdr st = false /\ w_ftr st = false /\ w_order c <= 7) /\
  (snd (w_step c d st WFooter) = WUnit <-> w_hdr st = true /\ w_ftr st = false) /\
  (forall xs table st' m, w_step c d st (WChunk xs table) = (st', WMeta m) ->
     w_hdr st = true /\ w_ftr st = false /\ chunk_args_ok c d xs = true) /\
  (forall xs, chunk_args_ok c d xs = true ->
     xs <> [] /\ (chunk_unsigneds d (w_order c) xs = [] \/ (w_level c <= 12 /\ Nlen xs <= 16777215))) /\
  wfail (snd (w_step c d st WDrain)) = false /\ wfail (snd (w_step c d st WByteSize)) = false.
Proof. exact w_accepts_exactly. Qed.

(* every rejection is an InvalidArgument error value; a header call never panics *)
Theorem C09_rejections_are_invalid_argument : forall c d st o st' k,
  w_step c d st o = (st', WErr k) -> k = InvalidArgument.
Proof. exact w_errors_are_invalid_argument. Qed.

(* a rejected call adds no bytes and changes nothing *)
Theorem C09_reject_is_noop : forall c d st o,
  wfail (snd (w_step c d st o)) = true -> fst (w_step c d st o) = st.
Proof. exact w_fail_is_noop. Qed.

(* the total output is the same however often and whenever the pending bytes are drained *)
Theorem C09_drain_independence : forall c d ops st1 outs1 st2 outs2,
  w_run c d w_init ops = (st1, outs1) ->
  w_run c d w_init (strip_drains ops) = (st2, outs2) ->
  total_out outs1 ++ w_pending st1 = w_pending st2 /\
  w_hdr st1 = w_hdr st2 /\ w_ftr st1 = w_ftr st2 /\ strip_drain_outs outs1 = outs2.
Proof. exact w_drain_independence. Qed.

(* continuing after rejected calls produces the file of exactly the accepted chunks *)
Theorem C09_file_of_accepted : forall c d ops st outs,
  w_run c d w_init ops = (st, outs) -> w_ftr st = true ->
  file_bytes d (cfg_flags c) (accepted_chunks ops outs) = Ok (total_out outs ++ w_pending st).
Proof. exact w_file_of_accepted. Qed.

(* ---- the Compressor on the 64-bit-word BitWriter (Model/WState.v: header / chunk / footer /
   drain_bytes / byte_size with validation in the real order, the body-size placeholder
   back-patched at pre_meta_bit_idx + 24 relative to whatever undrained output precedes the
   chunk) simulates the byte-list state machine of the protocol theorems: same acceptance,
   every rejection InvalidArgument and a no-op on the words, same bytes however draining is
   interleaved ---- *)
From QCo.Model Require Import Words WFile WState.
From QCo.Lemmas Require Import FileL WStateL.

Theorem C09_word_level_compressor_step : forall c d st o,
  wwinv st -> wop_ok c d o ->
  let (st', out) := ww_step c d st o in
  wwinv st' /\ w_step c d (wabs st) o = (wabs st', out).
Proof. exact ww_step_sim. Qed.

Theorem C09_word_level_compressor_run : forall c d ops st,
  wwinv st -> Forall (wop_ok c d) ops ->
  let (st', outs) := ww_run c d st ops in
  wwinv st' /\ w_run c d (wabs st) ops = (wabs st', outs).
Proof. exact ww_run_sim. Qed.

Theorem C09_word_level_valid_file : forall c d chunks st outs,
  Forall (chunk_ok d (cfg_flags c)) chunks ->
  ww_run c d ww_init (WHeader :: map (fun '(xs, t) => WChunk xs t) chunks ++ [WFooter])
    = (st, outs) ->
  forallb (fun o => negb (wfail o)) outs = true ->
  file_bytes d (cfg_flags c) chunks = Ok (wr_drain_bytes (ww_wr st)).
Proof. exact ww_valid_file. Qed.
