(* C01 — Lossless round trip for every sequence, data type and configuration.
   Proved so far (all for unbounded inputs): the leaf round trips and the chunk-body round
   trip, both in one batch and split into batches of any limit; the whole-file composition
   is in Lemmas/FileL.v when present (see Props/C01_file.v). *)
From QCo.Lemmas Require Import Tactics BitsL DTypeL CodecL DeltaL MetaL BodyL.
From QCo.Model Require Import Base Consts DType Codec.
Open Scope N_scope.

(* run-length counts: every count below 2^24 with any jumpstart 0..=24 *)
Theorem C01_varint_roundtrip : forall j x s, j <= 24 -> x < 2 ^ 24 ->
  read_varint j (write_varint x j ++ s) = Ok (x, s).
Proof. exact varint_roundtrip. Qed.

(* offsets: every number of every range, whatever its width (incl. widths next to powers of two
   and the full width of the type) and divisor *)
Theorem C01_offset_roundtrip : forall w p u s,
  p_gcd p >= 1 -> p_lower p <= p_upper p -> p_upper p <= umax w ->
  p_lower p <= u -> u <= p_upper p -> (u - p_lower p) mod p_gcd p = 0 ->
  read_offset w p (write_num_offset p u ++ s) = Ok (u, s).
Proof. exact num_offset_roundtrip. Qed.

(* a chunk body written with any well-formed, disjoint table that covers the numbers decodes to
   exactly those numbers, in order, wherever the 64-bit word boundaries fall *)
Theorem C01_body_roundtrip : forall w ps us b,
  wf_table w ps -> disjoint_table ps -> Forall (covered ps) us -> Nlen us < 2 ^ 24 ->
  write_body_fuel (length us) ps us = Ok b ->
  forall tb rest limit eoi, enough_rest ps rest -> Nlen us <= limit ->
  read_batch w tb ps (Nlen us) None limit eoi (b ++ rest) = mkBatch us rest None true SOk.
Proof. exact batch_roundtrip. Qed.

(* delta encoding of any order >= 1 is inverted exactly, including sequences shorter than the order *)
Theorem C01_delta_roundtrip : forall d (order : N) xs,
  1 <= order -> Forall (fun x => representable d x = true) xs ->
  fst (reconstruct d (length xs) (delta_moments d order xs)
         (deltas_n d (N.to_nat order) (map (to_s d) xs))) = xs.
Proof. exact reconstruct_delta_roundtrip. Qed.

(* chunk metadata written by the writer is read back (up to the divisor of single-valued ranges) *)
Theorem C01_meta_roundtrip : forall f d m b rest,
  wf_meta f d m -> write_meta f d m = Ok b -> Nlen rest mod 8 = 0 ->
  parse_meta f d (b ++ rest)
  = Ok (mkMeta (m_n m) (m_body m) (m_moments m) (norm_table f (pdt f d) (m_table m)), rest).
Proof. exact meta_roundtrip. Qed.

(* the number <-> unsigned mapping is inverted bit for bit (NaN payloads, signed zeros, extremes
   are ordinary values of the bit-pattern model) *)
Theorem C01_value_roundtrip : forall d x, representable d x = true -> of_u d (to_u d x) = x.
Proof. exact of_u_to_u. Qed.

(* ---- the whole file ---- *)
From QCo.Lemmas Require Import FileL.
From QCo.Model Require Import Writer Reader.

(* Lossless round trip of whole files, for every data type, every delta order 0..=7, GCDs on or
   off, any number of chunks (the empty file and empty chunks included) and ANY prefix table per
   chunk that is well-formed and covers the chunk ([chunk_ok]: what the policy must deliver —
   Policy.train_table_spec shows every oracle choice delivers coverage, disjointness and a
   complete prefix-free code): the bytes the writer model emits decode, in the reader model,
   to exactly the numbers that were compressed, in order. *)
Theorem C01_file_roundtrip : forall d order gcds chunks bytes,
  order <= 7 ->
  Forall (chunk_ok d (writer_flags order gcds)) chunks ->
  file_bytes d (writer_flags order gcds) chunks = Ok bytes ->
  decode_file d bytes = Ok (concat (map fst chunks)).
Proof. exact file_roundtrip. Qed.

Theorem C01_file_exists : forall d order gcds chunks,
  order <= 7 -> Forall (chunk_ok d (writer_flags order gcds)) chunks ->
  exists bytes, file_bytes d (writer_flags order gcds) chunks = Ok bytes.
Proof. exact file_bytes_ok. Qed.

(* [chunk_ok] follows from hypotheses about the numbers and the table only *)
Theorem C01_chunk_ok_from_table : forall d f xs table,
  let pd := pdt f d in
  Nlen xs < 2 ^ 24 ->
  Forall (fun x => valid d x = true) xs ->
  wf_table (ubits pd) table -> disjoint_table table ->
  Forall (covered table) (Writer.chunk_unsigneds d (ford f) xs) ->
  Nlen table < 2 ^ 15 ->
  Forall (MetaL.wf_prefix f pd (Nlen xs) (table_common f pd table)) table ->
  (fgcd f = false -> Forall (fun p => p_gcd p = 1) table) ->
  (forall g, fgcd f = true -> common_gcd pd table = Some g -> g <= umax (ubits pd)) ->
  chunk_ok d f (xs, table).
Proof. exact chunk_ok_intro. Qed.

(* non-vacuity: a concrete three-chunk file (run-length prefix, a single-valued range whose
   recorded gcd differs from the common gcd, an empty chunk) meets the hypotheses *)
Example C01_nonvacuous :
  exists bytes, file_bytes DI32 (writer_flags 0 true) [(ex_xs, ex_table); ([], []); (ex_xs, ex_table)] = Ok bytes /\
    decode_file DI32 bytes = Ok (ex_xs ++ ex_xs).
Proof. exact file_example. Qed.

(* ---- the compressor's lookup of the range of a number (CompressionTable: 16-way tree built by
   from_sorted, Model/Words.v) terminates and finds exactly the first range containing the number,
   which is what the writer model uses (find_prefix) ---- *)
From QCo.Model Require Import Words.
From QCo.Lemmas Require Import WordsL.

Theorem C01_table_build_terminates : forall umax fuel ps,
  ct_pos ps -> (length ps < fuel)%nat -> ct_from_sorted fuel umax ps <> None.
Proof. exact ct_from_sorted_total. Qed.

Theorem C01_table_search_is_find_prefix : forall umax ps u,
  ct_valid ps -> ct_pos ps -> ps <> [] ->
  ct_search umax ps u = find_prefix ps u.
Proof. exact ct_search_correct. Qed.
