(* Extract.v — extraction of the executable model to OCaml (ExtrOcamlBasic only). *)
Require Extraction.
Require Import ExtrOcamlBasic.
From QCo.Model Require Import Base Consts Frozen DType Time Codec Policy Writer Reader Spec.
Extraction Language OCaml.
Extraction "qco_model.ml"
  all_dtypes hdr phys ubits sdt valid representable to_u of_u to_s of_s to_bytes of_bytes
  bytes_to_bits bits_to_bytes
  parse_flags write_flags count_bits gcd_bits k_of_range write_varint read_varint
  write_offset read_offset table_ok
  write_meta parse_meta write_body
  w_init w_step w_run file_bytes chunk_payload header_bytes cfg_flags
  r_init r_step r_do r_run decode_file drain_iter
  enc_file dec_file file_nums chunk_nums chunk_unsigneds
  st2ts ts2st ts96_new st_ok
  choose_unoptimized choose_max_n_prefixes pgcd gcd_sorted.
