(* Extract.v — extraction of the executable model to OCaml (ExtrOcamlBasic only). *)
Require Extraction.
Require Import ExtrOcamlBasic.
From QCo.Model Require Import Base Consts Frozen DType Time Codec Policy Writer Reader Spec Words WFile RFile Huff RBody RFast RState WState.
Extraction Language OCaml.
Extraction "qco_model.ml"
  all_dtypes hdr phys ubits sdt valid representable to_u of_u to_s of_s to_bytes of_bytes
  bytes_to_bits bits_to_bytes
  parse_flags write_flags count_bits gcd_bits k_of_range write_varint read_varint
  write_offset read_offset table_ok
  write_meta parse_meta write_body
  w_init w_step w_run file_bytes chunk_payload header_bytes cfg_flags
  r_init r_step r_do r_run decode_file drain_iter
  enc_file dec_file file_nums chunk_nums chunk_unsigneds
  st2ts ts2st ts96_new st_ok
  choose_unoptimized choose_max_n_prefixes pgcd gcd_sorted
  wr_default wr_bit_size wr_byte_size wr_write_one wr_write wr_write_diff wr_write_usize
  wr_write_aligned_bytes wr_finish_byte wr_write_varint wr_overwrite wr_drain_bytes
  bw_extend bw_truncate_left
  rd_bit_idx rd_refresh rd_insufficient rd_read_one rd_read rd_read_diff
  rd_unchecked_read_diff rd_unchecked_read_diff_u rd_seek_to rd_drain_empty_byte
  rd_read_aligned_bytes
  ct_default_prefix ct_from_sorted ct_search_tree ct_search
  wfile_bytes wfile_bytes_ct rf_header rf_chunk_meta
  rd_read_prefix_table_idx rd_unchecked_read_prefix_table_idx hfrom hsearch hsearch_checked hsearch_unchecked
  ws_init ws_do ws_run ww_init ww_step ww_run.
