(* WordsL.v — the word-level (64-bit usize) BitWriter / BitWords / BitReader /
   CompressionTable models of Model/Words.v satisfy the bit-list contract of Model/Base.v
   and Model/Codec.v. *)
From QCo.Lemmas Require Import Tactics BitsL.
From QCo.Model Require Import Base Consts Codec Words.
Open Scope N_scope.

(* ================= sanity: the Rust unit tests, on the model ================= *)
Example t_write_bigger_num :
  wr_drain_bytes (wr_write_usize (wr_write wr_default [true;true;true;true]) 187 4) = [251].
Proof. vm_compute. reflexivity. Qed.

Example t_long_diff_writes :
  let w := wr_write_usize wr_default (2^9 + 2^8 + 1) 9 in
  let w := wr_write_usize w (2^16 + 2^5 + 1) 17 in
  let w := wr_write_usize w 2 17 in
  let w := wr_write_usize w 2 13 in
  let w := wr_write_usize w (2^23 + 2^15) 24 in
  wr_drain_bytes w = [128; 192; 8; 64; 0; 64; 2; 128; 128; 0].
Proof. vm_compute. reflexivity. Qed.

Example t_various_writes :
  let w := wr_write_one wr_default true in
  let w := wr_write_one w false in
  let w := wr_write_usize w 33 8 in
  let w := wr_finish_byte w in
  match wr_write_aligned_bytes w [123] with
  | Ok w =>
    match wr_write_varint w 100 3 with
    | Ok w => let w := wr_write_usize w 5 4 in let w := wr_write_usize w 5 4 in
              wr_drain_bytes w = [136; 64; 123; 149; 229; 80]
    | _ => False end
  | _ => False end.
Proof. vm_compute. reflexivity. Qed.

Example t_assign_usize :
  wr_drain_bytes (wr_overwrite (wr_write_usize wr_default 0 24) 9 129 9) = [0; 32; 64].
Proof. vm_compute. reflexivity. Qed.

(* FINDING: overwrite_usize cannot clear a bit that is already set (it ORs): *)
Example t_overwrite_cannot_clear :
  wr_drain_bytes (wr_overwrite (wr_write_usize wr_default 255 8) 0 0 8) = [255].
Proof. vm_compute. reflexivity. Qed.

(* 128-bit diffs crossing several words *)
Example t_wide_writes :
  let x := 2^127 + 2^100 + 2^64 + 2^63 + 12345 in
  let w := wr_write_usize wr_default 5 3 in
  let w := wr_write_diff w x 128 in
  let w := wr_write_diff w x 70 in
  let w := wr_write_diff w x 125 in
  wr_bits w = put 3 5 ++ put 128 x ++ put 70 x ++ put 125 x.
Proof. vm_compute. reflexivity. Qed.

(* bit_words.rs test_extend *)
Example t_extend :
  let '(w, tb) := bw_extend [] 0 [0;1;2;3;4;5;6;7] in
  let '(w, tb) := bw_extend w tb [8] in
  let '(w, tb) := bw_extend w tb [9;10] in
  let '(w, tb) := bw_extend w tb [11;12;13;14;15;16] in
  bw_bits w tb = bytes_to_bits [0;1;2;3;4;5;6;7;8;9;10;11;12;13;14;15;16]
  /\ tb = 136 /\ length w = 3%nat /\
  (fix go (c : nat) (i j : N) := match c with O => [] | S c' =>
     let '(v, (i', j')) := rd_unchecked_read_diff_u 32 w i j 8 in v :: go c' i' j' end) 17%nat 0 0
   = [0;1;2;3;4;5;6;7;8;9;10;11;12;13;14;15;16]
  /\ rd_read_one w 2 8 tb = Err InsufficientData.
Proof. vm_compute. repeat split; reflexivity. Qed.

(* bit_reader.rs test_bit_reader (up to the varint) *)
Example t_bit_reader :
  let '(w, tb) := bw_extend [] 0 [154; 107; 45] in
  match rd_read_aligned_bytes w 0 0 tb 1 with
  | Ok (bs, (i, j)) =>
    bs = [154] /\
    match rd_read_one w i j tb with
    | Ok (b1, (i, j)) => b1 = false /\
      match rd_read_one w i j tb with
      | Ok (b2, (i, j)) => b2 = true /\
        match rd_read w i j tb 3 with
        | Ok (l, (i, j)) => l = [true; false; true] /\
           let '(v1, (i, j)) := rd_unchecked_read_diff_u 64 w i j 2 in
           let '(v2, (i, j)) := rd_unchecked_read_diff_u 32 w i j 3 in
           v1 = 1 /\ v2 = 4 /\ (i, j) = (0, 18)
        | _ => False end
      | _ => False end
    | _ => False end
  | _ => False end.
Proof. vm_compute. repeat split; reflexivity. Qed.

Example t_wide_reads :
  let x := 2^127 + 2^100 + 2^64 + 2^63 + 12345 in
  let w := wr_write_diff (wr_write_diff (wr_write_diff (wr_write_usize wr_default 5 3) x 128) x 64) x 125 in
  let ws := w_words w in
  let '(v0, (i, j)) := rd_unchecked_read_diff ws 0 0 3 in
  let '(v1, (i, j)) := rd_unchecked_read_diff_u 128 ws i j 128 in
  let '(v2, (i, j)) := rd_unchecked_read_diff_u 64 ws i j 64 in
  let '(v3, (i, j)) := rd_unchecked_read_diff ws i j 125 in
  (v0, v1, v2, v3) = (5, x, x mod 2^64, x mod 2^125) /\ 64 * i + j = 320.
Proof. vm_compute. split; reflexivity. Qed.

(* FINDING (minor): BitReader::read(0) at i = words.len(), j = 0 indexes out of bounds *)
Example t_read0_panics :
  let '(w, tb) := bw_extend [] 0 [1;2;3;4;5;6;7;8] in
  match rd_read_aligned_bytes w 0 0 tb 8 with
  | Ok (_, (i, j)) => rd_read w i j tb 0 = Panic
  | _ => False end.
Proof. vm_compute. reflexivity. Qed.

(* compression table vs linear find_prefix on a 40-prefix table *)
Definition t_tbl : list prefix :=
  map (fun k => mkPrefix (1 + k mod 3) (10 * k) (10 * k + 7) [] None 1) (map N.of_nat (seq 0 40)).
Example t_ct_search :
  forallb (fun u => opt_eqb (fun p q => (p_lower p =? p_lower q))
                            (ct_search 1000 t_tbl u) (find_prefix t_tbl u))
          (map N.of_nat (seq 0 420)) = true.
Proof. vm_compute. reflexivity. Qed.
(* the empty table is Leaf(default), which contains everything *)
Example t_ct_empty : ct_search 1000 [] 5 = Some (ct_default_prefix 1000) /\ find_prefix [] 5 = None.
Proof. vm_compute. split; reflexivity. Qed.

(* ================= generic list / bit lemmas ================= *)
Definition zeros (n : nat) : bits := repeat false n.

Lemma zeros_length n : length (zeros n) = n.
Proof. apply repeat_length. Qed.

Lemma zeros_app a b : zeros (a + b) = zeros a ++ zeros b.
Proof. unfold zeros. apply repeat_app. Qed.

Lemma pow2_nz k : 2 ^ k <> 0.
Proof. apply N.pow_nonzero. lia. Qed.

Lemma pow2_pos k : 0 < 2 ^ k.
Proof. pose proof (pow2_nz k). lia. Qed.

Lemma putn_ext n a b :
  (forall i, (i < n)%nat -> N.testbit a (N.of_nat i) = N.testbit b (N.of_nat i)) ->
  putn n a = putn n b.
Proof.
  induction n as [|n IH]; intros H; [reflexivity|].
  cbn [putn]. f_equal; [apply H; lia | apply IH; intros i Hi; apply H; lia].
Qed.

Lemma putn_app a b x :
  putn (a + b) x = putn a (N.shiftr x (N.of_nat b)) ++ putn b x.
Proof.
  induction a as [|a IH]; [reflexivity|].
  cbn [putn Nat.add app]. rewrite IH. f_equal.
  rewrite N.shiftr_spec'. f_equal. lia.
Qed.

Lemma putn_zero n : putn n 0 = zeros n.
Proof. induction n as [|n IH]; [reflexivity|]. cbn [putn]. rewrite IH, N.bits_0. reflexivity. Qed.

Lemma putn_mod n m x : (n <= m)%nat -> putn n (x mod 2 ^ N.of_nat m) = putn n x.
Proof.
  intros H. apply putn_ext. intros i Hi. apply N.mod_pow2_bits_low. lia.
Qed.

Lemma putn_low_zero k x : putn k (N.shiftl x (N.of_nat k)) = zeros k.
Proof.
  rewrite <- putn_zero. apply putn_ext. intros i Hi.
  rewrite N.bits_0. apply N.shiftl_spec_low. lia.
Qed.

Lemma putn_shiftl n k x :
  putn (n + k) (N.shiftl x (N.of_nat k)) = putn n x ++ zeros k.
Proof.
  rewrite putn_app, putn_low_zero. f_equal.
  rewrite N.shiftr_shiftl_l by lia. rewrite N.sub_diag, N.shiftl_0_r. reflexivity.
Qed.

Lemma testbit_small x m i : x < 2 ^ m -> m <= i -> N.testbit x i = false.
Proof.
  intros Hx Hi. rewrite <- (N.mod_small x (2 ^ m)) by exact Hx.
  apply N.mod_pow2_bits_high. exact Hi.
Qed.

Lemma putn_small k m x : x < 2 ^ N.of_nat m -> putn (k + m) x = zeros k ++ putn m x.
Proof.
  intros Hx. rewrite putn_app. f_equal.
  rewrite <- putn_zero. apply putn_ext. intros i Hi.
  rewrite N.bits_0, N.shiftr_spec'. apply (testbit_small x (N.of_nat m)); [exact Hx | lia].
Qed.

(* ---- bits_val ---- *)
Lemma bits_val_acc_gen s : forall acc,
  bits_val_acc acc s = acc * 2 ^ N.of_nat (length s) + bits_val s.
Proof.
  unfold bits_val.
  induction s as [|b t IH]; intros acc.
  - simpl. lia.
  - cbn [bits_val_acc length]. rewrite IH. rewrite (IH (2 * 0 + N.b2n b)).
    rewrite Nat2N.inj_succ, N.pow_succ_r'.
    set (P := 2 ^ N.of_nat (length t)). clearbody P.
    destruct b; simpl N.b2n; lia.
Qed.

Lemma bits_val_cons b t :
  bits_val (b :: t) = N.b2n b * 2 ^ N.of_nat (length t) + bits_val t.
Proof.
  unfold bits_val at 1. cbn [bits_val_acc]. rewrite bits_val_acc_gen.
  destruct b; simpl N.b2n; lia.
Qed.

Lemma bits_val_lt s : bits_val s < 2 ^ N.of_nat (length s).
Proof.
  induction s as [|b t IH]; [vm_compute; reflexivity|].
  rewrite bits_val_cons. cbn [length]. rewrite Nat2N.inj_succ, N.pow_succ_r'.
  set (P := 2 ^ N.of_nat (length t)) in *. clearbody P.
  destruct b; simpl N.b2n; lia.
Qed.

Lemma bits_val_app a b :
  bits_val (a ++ b) = bits_val a * 2 ^ N.of_nat (length b) + bits_val b.
Proof.
  induction a as [|x a IH]; [simpl; change (bits_val []) with 0; lia|].
  cbn [app]. rewrite !bits_val_cons, IH, app_length, Nat2N.inj_add, N.pow_add_r.
  set (P := 2 ^ N.of_nat (length a)). set (Q := 2 ^ N.of_nat (length b)). clearbody P Q.
  lia.
Qed.

Lemma bits_val_zeros n : bits_val (zeros n) = 0.
Proof.
  induction n as [|n IH]; [reflexivity|].
  change (zeros (S n)) with (false :: zeros n). rewrite bits_val_cons, IH. simpl N.b2n. lia.
Qed.

Lemma putn_bits_val s : putn (length s) (bits_val s) = s.
Proof.
  induction s as [|b t IH]; [reflexivity|].
  cbn [length putn]. rewrite bits_val_cons. f_equal.
  - pose proof (bits_val_lt t) as Hlt.
    apply (N.testbit_unique _ _ b (bits_val t) 0); [exact Hlt|]. lia.
  - transitivity (putn (length t) (bits_val t)); [|exact IH]. apply putn_ext. intros i Hi.
    rewrite <- (N.mod_pow2_bits_low _ (N.of_nat (length t))) by lia.
    f_equal.
    rewrite N.add_comm, N.mod_add by apply pow2_nz.
    apply N.mod_small, bits_val_lt.
Qed.

Lemma putn_bits_val_len n s : length s = n -> putn n (bits_val s) = s.
Proof. intros <-. apply putn_bits_val. Qed.

Lemma putn_inj_val n w s : w < 2 ^ N.of_nat n -> putn n w = s -> w = bits_val s.
Proof.
  intros Hw <-. rewrite bits_val_putn, N.mod_small by exact Hw. reflexivity.
Qed.

(* ---- lor of numbers with disjoint supports is addition ---- *)
Lemma lor_disjoint a b k : b < 2 ^ k -> N.lor (a * 2 ^ k) b = a * 2 ^ k + b.
Proof.
  intros Hb.
  assert (H0 : N.land (a * 2 ^ k) b = 0).
  { apply N.bits_inj. intros m. rewrite N.land_spec, N.bits_0.
    destruct (N.ltb_spec m k) as [Hm|Hm].
    - rewrite N.mul_pow2_bits_low by exact Hm. reflexivity.
    - rewrite (testbit_small b k m Hb Hm). apply andb_false_r. }
  rewrite <- N.lxor_lor by exact H0. symmetry. apply N.add_nocarry_lxor. exact H0.
Qed.

(* the basic step: OR a field of n bits into a word whose bits below position j are clear *)
Lemma word_or_field (A : bits) (j n l : nat) (w v : N) :
  length A = j -> (j + n + l = 64)%nat ->
  w < 2 ^ 64 -> v < 2 ^ N.of_nat n ->
  putn 64 w = A ++ zeros (n + l) ->
  let w' := N.lor w (N.shiftl v (N.of_nat l)) in
  putn 64 w' = A ++ putn n v ++ zeros l /\ w' < 2 ^ 64.
Proof.
  intros HA Hsum Hw Hv HwA w'.
  assert (Hwv : w = bits_val A * 2 ^ N.of_nat (n + l)).
  { rewrite (putn_inj_val 64 w _ Hw HwA), bits_val_app, bits_val_zeros, zeros_length. lia. }
  assert (Hw' : w' = bits_val (A ++ putn n v ++ zeros l)).
  { unfold w'. rewrite Hwv, N.shiftl_mul_pow2.
    rewrite lor_disjoint.
    - rewrite !bits_val_app, bits_val_zeros, bits_val_putn, N.mod_small by exact Hv.
      rewrite app_length, putn_length, zeros_length, !Nat2N.inj_add, !N.pow_add_r.
      set (P := 2 ^ N.of_nat n). set (Q := 2 ^ N.of_nat l). clearbody P Q. lia.
    - rewrite Nat2N.inj_add, N.pow_add_r.
      apply N.mul_lt_mono_pos_r; [apply pow2_pos | exact Hv]. }
  assert (Hlen : length (A ++ putn n v ++ zeros l) = 64%nat).
  { rewrite !app_length, putn_length, zeros_length. lia. }
  split.
  - rewrite Hw'. apply putn_bits_val_len. exact Hlen.
  - rewrite Hw'. pose proof (bits_val_lt (A ++ putn n v ++ zeros l)) as H.
    rewrite Hlen in H. exact H.
Qed.

Lemma put_length' n x : length (put n x) = N.to_nat n.
Proof. unfold put. apply putn_length. Qed.

(* ================= N-indexed helpers ================= *)
Lemma put_add a b x : put (a + b) x = put a (N.shiftr x b) ++ put b x.
Proof.
  unfold put. rewrite N2Nat.inj_add, putn_app, N2Nat.id. reflexivity.
Qed.

Lemma put_mod n m x : n <= m -> put n (x mod 2 ^ m) = put n x.
Proof.
  intros H. unfold put. rewrite <- (N2Nat.id m). apply putn_mod. lia.
Qed.

Lemma mod_pow2_mod_pow2 a p q : q <= p -> (a mod 2 ^ p) mod 2 ^ q = a mod 2 ^ q.
Proof.
  intros H. apply N.bits_inj. intros m.
  destruct (N.ltb_spec m q) as [Hm|Hm].
  - rewrite !N.mod_pow2_bits_low by lia. reflexivity.
  - rewrite !(N.mod_pow2_bits_high _ q) by lia. reflexivity.
Qed.

Lemma usize_max_ones : usize_max = N.ones 64.
Proof. reflexivity. Qed.

Lemma mask_shr j : j <= 64 -> N.shiftr usize_max j = N.ones (64 - j).
Proof.
  intros H. rewrite usize_max_ones, N.shiftr_div_pow2. apply N.ones_div_pow2. exact H.
Qed.

Lemma land_mask x j : j <= 64 -> N.land (trunc_word x) (N.shiftr usize_max j) = x mod 2 ^ (64 - j).
Proof.
  intros H. rewrite mask_shr by exact H. rewrite N.land_ones. unfold trunc_word, word_mod.
  apply mod_pow2_mod_pow2. lia.
Qed.

Lemma trunc_word_lt x : trunc_word x < 2 ^ 64.
Proof. unfold trunc_word, word_mod. apply N.mod_lt. apply pow2_nz. Qed.

(* ================= words_bits ================= *)
Definition words_ok (ws : list N) : Prop := Forall (fun x => x < 2 ^ 64) ws.

Lemma words_bits_app a b : words_bits (a ++ b) = words_bits a ++ words_bits b.
Proof. unfold words_bits. apply flat_map_app. Qed.

Lemma words_bits_single x : words_bits [x] = putn 64 x.
Proof. unfold words_bits, word_bits. cbn [flat_map]. apply app_nil_r. Qed.

Lemma words_bits_cons x t : words_bits (x :: t) = putn 64 x ++ words_bits t.
Proof. reflexivity. Qed.

Lemma words_bits_length ws : length (words_bits ws) = (64 * length ws)%nat.
Proof.
  induction ws as [|x t IH]; [reflexivity|].
  rewrite words_bits_cons, app_length, putn_length, IH. cbn [length]. lia.
Qed.

Lemma upd_last_snoc f init lw : upd_last f (init ++ [lw]) = init ++ [f lw].
Proof.
  unfold upd_last. destruct (init ++ [lw]) eqn:E.
  - destruct init; discriminate.
  - rewrite <- E. rewrite removelast_last, last_last. reflexivity.
Qed.

Lemma snoc_decompose (ws : list N) : ws <> [] -> ws = removelast ws ++ [last ws 0].
Proof. intros H. apply app_removelast_last. exact H. Qed.

Lemma words_ok_app a b : words_ok (a ++ b) <-> words_ok a /\ words_ok b.
Proof. unfold words_ok. apply Forall_app. Qed.

Lemma words_ok_single x : words_ok [x] <-> x < 2 ^ 64.
Proof.
  unfold words_ok. split; intros H.
  - inversion H. assumption.
  - constructor; [assumption | constructor].
Qed.

(* ================= A. BitWriter ================= *)
Definition wr_ok (w : wr) : Prop :=
  words_ok (w_words w) /\ w_j w <= 64 /\ (w_words w = [] -> w_j w = 64) /\
  words_bits (w_words w) = wr_bits w ++ zeros (N.to_nat (64 - w_j w)).

Lemma wr_default_ok : wr_ok wr_default /\ wr_bits wr_default = [].
Proof.
  split; [|reflexivity]. unfold wr_ok, wr_default. cbn [w_words w_j].
  repeat split; [constructor | lia].
Qed.

Lemma wr_bits_snoc init lw j :
  j <= 64 ->
  wr_bits (mkWr (init ++ [lw]) j) = words_bits init ++ firstn (N.to_nat j) (putn 64 lw).
Proof.
  intros Hj. unfold wr_bits, wr_bit_size, Nlen, WORD_SIZE. cbn [w_words w_j].
  rewrite words_bits_app, words_bits_single.
  replace (N.to_nat (N.of_nat (length (init ++ [lw])) * 64 - (64 - j)))
    with (length (words_bits init) + N.to_nat j)%nat.
  - apply firstn_app_2.
  - rewrite words_bits_length, app_length. cbn [length]. lia.
Qed.

Lemma wr_construct init lw A j :
  words_ok init -> lw < 2 ^ 64 -> j <= 64 -> length A = N.to_nat j ->
  putn 64 lw = A ++ zeros (N.to_nat (64 - j)) ->
  wr_ok (mkWr (init ++ [lw]) j) /\ wr_bits (mkWr (init ++ [lw]) j) = words_bits init ++ A.
Proof.
  intros Hi Hl Hj HA Hp.
  assert (Hb : wr_bits (mkWr (init ++ [lw]) j) = words_bits init ++ A).
  { rewrite wr_bits_snoc by exact Hj. f_equal. rewrite Hp, <- HA.
    rewrite firstn_app, Nat.sub_diag, firstn_all. cbn [firstn]. apply app_nil_r. }
  split; [|exact Hb].
  unfold wr_ok. rewrite Hb. cbn [w_words w_j]. repeat split.
  - apply words_ok_app. split; [exact Hi | apply words_ok_single; exact Hl].
  - exact Hj.
  - intros H. destruct init; discriminate.
  - rewrite words_bits_app, words_bits_single, Hp, app_assoc. reflexivity.
Qed.

Lemma wr_decompose w :
  wr_ok w -> w_words w <> [] ->
  exists init lw A,
    w_words w = init ++ [lw] /\ words_ok init /\ lw < 2 ^ 64 /\
    length A = N.to_nat (w_j w) /\
    putn 64 lw = A ++ zeros (N.to_nat (64 - w_j w)) /\
    wr_bits w = words_bits init ++ A.
Proof.
  intros (Hok & Hj & _ & Hz) Hne.
  destruct w as [ws j]. cbn [w_words w_j] in *.
  pose proof (snoc_decompose ws Hne) as E.
  set (init := removelast ws) in *. set (lw := last ws 0) in *. clearbody init lw. subst ws.
  apply words_ok_app in Hok. destruct Hok as [Hi Hl]. apply words_ok_single in Hl.
  exists init, lw, (firstn (N.to_nat j) (putn 64 lw)).
  rewrite wr_bits_snoc in Hz by exact Hj.
  rewrite words_bits_app, words_bits_single, <- app_assoc in Hz.
  apply app_inv_head in Hz.
  repeat split; try assumption.
  - rewrite firstn_length, putn_length. lia.
  - apply wr_bits_snoc. exact Hj.
Qed.

Lemma wr_bits_full ws : wr_bits (mkWr ws 64) = words_bits ws.
Proof.
  unfold wr_bits, wr_bit_size, Nlen, WORD_SIZE. cbn [w_words w_j].
  apply firstn_all2. rewrite words_bits_length. lia.
Qed.

Lemma wr_refresh_spec w :
  wr_ok w ->
  let w' := wr_refresh w in
  wr_ok w' /\ wr_bits w' = wr_bits w /\ w_j w' < 64 /\ w_words w' <> [].
Proof.
  intros Hok. pose proof Hok as (Hw & Hj & He & Hz).
  unfold wr_refresh, WORD_SIZE. destruct (N.eqb_spec (w_j w) 64) as [E|E]; cbv zeta.
  - destruct w as [ws j]. cbn [w_words w_j] in *. subst j.
    assert (Hp0 : putn 64 0 = [] ++ zeros (N.to_nat (64 - 0))).
    { change (N.to_nat (64 - 0)) with 64%nat. rewrite putn_zero. reflexivity. }
    destruct (wr_construct ws 0 [] 0 Hw ltac:(reflexivity) ltac:(lia) eq_refl Hp0) as [H1 H2].
    split; [exact H1|]. split.
    + rewrite H2, app_nil_r, wr_bits_full. reflexivity.
    + cbn [w_words w_j]. split; [lia|]. destruct ws; discriminate.
  - split; [exact Hok|]. split; [reflexivity|]. split; [lia|].
    intros H. apply E, He, H.
Qed.

(* the unwrap in last_mut never panics *)
Lemma wr_refresh_nonempty w : wr_ok w -> w_words (wr_refresh w) <> [].
Proof. intros H. apply (wr_refresh_spec w H). Qed.

(* generic "OR a field into the last word" step on a refreshed writer *)
Lemma wr_or_field w n l v :
  wr_ok w -> w_words w <> [] -> w_j w + n + l = 64 -> v < 2 ^ n ->
  let w' := mkWr (upd_last (fun lw => N.lor lw (N.shiftl v l)) (w_words w)) (w_j w + n) in
  wr_ok w' /\ wr_bits w' = wr_bits w ++ put n v.
Proof.
  intros Hok Hne Hsum Hv w'.
  destruct (wr_decompose w Hok Hne) as (init & lw & A & Ews & Hi & Hl & HA & Hp & Hb).
  unfold w'. rewrite Ews, upd_last_snoc.
  replace (N.to_nat (64 - w_j w)) with (N.to_nat n + N.to_nat l)%nat in Hp by lia.
  pose proof (word_or_field A (N.to_nat (w_j w)) (N.to_nat n) (N.to_nat l) lw v
                HA ltac:(lia) Hl) as H.
  rewrite !N2Nat.id in H. specialize (H Hv Hp). cbv zeta in H. destruct H as [H1 H2].
  assert (HA' : length (A ++ put n v) = N.to_nat (w_j w + n)).
  { rewrite app_length, put_length', HA. lia. }
  assert (Hp' : putn 64 (N.lor lw (N.shiftl v l))
                = (A ++ put n v) ++ zeros (N.to_nat (64 - (w_j w + n)))).
  { rewrite H1, <- app_assoc. unfold put. do 3 f_equal. lia. }
  destruct (wr_construct init (N.lor lw (N.shiftl v l)) (A ++ put n v) (w_j w + n)
              Hi H2 ltac:(lia) HA' Hp') as [H3 H4].
  split; [exact H3|]. rewrite H4, Hb, app_assoc. reflexivity.
Qed.

Lemma upd_last_id f (ws : list N) : (forall x, f x = x) -> upd_last f ws = ws.
Proof.
  intros H. destruct ws as [|a t]; [reflexivity|].
  assert (Hne : a :: t <> []) by discriminate.
  rewrite (snoc_decompose (a :: t) Hne) at 1. rewrite upd_last_snoc, H.
  symmetry. apply snoc_decompose. exact Hne.
Qed.

Lemma put_zero n : put n 0 = zeros (N.to_nat n).
Proof. unfold put. apply putn_zero. Qed.

(* advancing j over bits that are already zero *)
Lemma wr_skip w n :
  wr_ok w -> w_words w <> [] -> w_j w + n <= 64 ->
  let w' := mkWr (w_words w) (w_j w + n) in
  wr_ok w' /\ wr_bits w' = wr_bits w ++ zeros (N.to_nat n).
Proof.
  intros Hok Hne Hle w'.
  pose proof (wr_or_field w n (64 - w_j w - n) 0 Hok Hne ltac:(lia) (pow2_pos n)) as H.
  cbv zeta in H. rewrite upd_last_id in H.
  - rewrite put_zero in H. exact H.
  - intros x. rewrite N.shiftl_0_l. apply N.lor_0_r.
Qed.

(* ---- write_one ---- *)
Lemma base_mask_shr j : j <= 63 -> N.shiftr base_bit_mask j = N.shiftl 1 (63 - j).
Proof.
  intros H. change base_bit_mask with (N.shiftl 1 63). apply N.shiftr_shiftl_l. exact H.
Qed.

Theorem wr_write_one_spec w b :
  wr_ok w ->
  wr_ok (wr_write_one w b) /\ wr_bits (wr_write_one w b) = wr_bits w ++ [b].
Proof.
  intros Hok. destruct (wr_refresh_spec w Hok) as (Hok' & Hb' & Hj' & Hne').
  unfold wr_write_one. set (w1 := wr_refresh w) in *. clearbody w1. rewrite <- Hb'.
  destruct b.
  - rewrite base_mask_shr by lia.
    apply (wr_or_field w1 1 (63 - w_j w1) 1 Hok' Hne'); [lia | reflexivity].
  - apply (wr_skip w1 1 Hok' Hne'). lia.
Qed.

Theorem wr_write_spec bs : forall w,
  wr_ok w -> wr_ok (wr_write w bs) /\ wr_bits (wr_write w bs) = wr_bits w ++ bs.
Proof.
  induction bs as [|b t IH]; intros w Hok; cbn [wr_write].
  - split; [exact Hok | symmetry; apply app_nil_r].
  - destruct (wr_write_one_spec w b Hok) as [H1 H2].
    destruct (IH _ H1) as [H3 H4]. split; [exact H3|].
    rewrite H4, H2, <- app_assoc. reflexivity.
Qed.

(* ---- write_diff ---- *)
Lemma put_shiftl n k x :
  putn (N.to_nat n + N.to_nat k) (N.shiftl x k) = put n x ++ zeros (N.to_nat k).
Proof.
  pose proof (putn_shiftl (N.to_nat n) (N.to_nat k) x) as H. rewrite N2Nat.id in H. exact H.
Qed.

Lemma lshift_mask x n j :
  n + j <= 64 ->
  N.land (lshift_word x (64 - (n + j))) (N.shiftr usize_max j)
  = N.shiftl (x mod 2 ^ n) (64 - (n + j)).
Proof.
  intros H. unfold lshift_word. rewrite land_mask by lia.
  rewrite !N.shiftl_mul_pow2.
  replace (2 ^ (64 - j)) with (2 ^ n * 2 ^ (64 - (n + j))).
  - apply N.mul_mod_distr_r; apply pow2_nz.
  - rewrite <- N.pow_add_r. f_equal. lia.
Qed.

Lemma rshift_mask x r j :
  j <= 64 ->
  N.land (rshift_word x r) (N.shiftr usize_max j) = N.shiftl (N.shiftr x r mod 2 ^ (64 - j)) 0.
Proof.
  intros H. unfold rshift_word. rewrite land_mask by lia. rewrite N.shiftl_0_r. reflexivity.
Qed.

Lemma putn64_trunc x : putn 64 (trunc_word x) = putn 64 x.
Proof. unfold trunc_word, word_mod. apply (putn_mod 64 64). lia. Qed.

Lemma wr_diff_loop_spec x : forall fuel ws rem,
  (N.to_nat rem <= fuel)%nat -> 0 < rem -> words_ok ws ->
  let '(ws2, rem2) := wr_diff_loop fuel x ws rem in
  words_ok ws2 /\ 0 < rem2 <= 64 /\
  words_bits ws2 ++ put rem2 x = words_bits ws ++ put rem x.
Proof.
  induction fuel as [|f IH]; intros ws rem Hf Hpos Hok.
  - lia.
  - cbn [wr_diff_loop]. unfold WORD_SIZE.
    destruct (N.ltb_spec 64 rem) as [Hlt|Hge].
    + specialize (IH (ws ++ [rshift_word x (rem - 64)]) (rem - 64)).
      destruct (wr_diff_loop f x (ws ++ [rshift_word x (rem - 64)]) (rem - 64)) as [ws2 rem2].
      destruct IH as (H1 & H2 & H3); [lia | lia | |].
      { apply words_ok_app. split; [exact Hok|]. apply words_ok_single. apply trunc_word_lt. }
      split; [exact H1|]. split; [exact H2|].
      rewrite H3, words_bits_app, words_bits_single, <- app_assoc. f_equal.
      unfold rshift_word. rewrite putn64_trunc.
      change (putn 64 (N.shiftr x (rem - 64))) with (put 64 (N.shiftr x (rem - 64))).
      rewrite <- put_add. f_equal. lia.
    + split; [exact Hok|]. split; [lia | reflexivity].
Qed.

Theorem wr_write_diff_spec w x n :
  wr_ok w ->
  wr_ok (wr_write_diff w x n) /\ wr_bits (wr_write_diff w x n) = wr_bits w ++ put n x.
Proof.
  intros Hok. unfold wr_write_diff.
  destruct (N.eqb_spec n 0) as [E|E].
  { subst n. split; [exact Hok|]. symmetry. apply app_nil_r. }
  destruct (wr_refresh_spec w Hok) as (Hok' & Hb' & Hj' & Hne').
  set (w1 := wr_refresh w) in *. clearbody w1. rewrite <- Hb'. cbv zeta. unfold WORD_SIZE.
  destruct (N.leb_spec (n + w_j w1) 64) as [Hle|Hgt].
  - (* fits in the current word *)
    rewrite lshift_mask by exact Hle.
    pose proof (wr_or_field w1 n (64 - (n + w_j w1)) (x mod 2 ^ n) Hok' Hne' ltac:(lia)) as H.
    cbv zeta in H. rewrite (N.add_comm (w_j w1) n) in H.
    rewrite put_mod in H by lia. apply H. apply N.mod_lt, pow2_nz.
  - (* spills over *)
    rewrite rshift_mask by lia.
    set (rem := n + w_j w1 - 64).
    pose proof (wr_or_field w1 (64 - w_j w1) 0 (N.shiftr x rem mod 2 ^ (64 - w_j w1))
                  Hok' Hne' ltac:(lia)) as H.
    cbv zeta in H. destruct H as [Hok1 Hb1]; [apply N.mod_lt, pow2_nz|].
    rewrite put_mod in Hb1 by lia.
    set (ws1 := upd_last _ (w_words w1)) in *.
    replace (w_j w1 + (64 - w_j w1)) with 64 in * by lia.
    rewrite wr_bits_full in Hb1. destruct Hok1 as (Hws1 & _).
    cbn [w_words] in Hws1.
    pose proof (wr_diff_loop_spec x (N.to_nat rem) ws1 rem (le_n _) ltac:(lia) Hws1) as HL.
    destruct (wr_diff_loop (N.to_nat rem) x ws1 rem) as [ws2 rem2].
    destruct HL as (Hws2 & Hrem2 & HL).
    assert (Hp : putn 64 (lshift_word x (64 - rem2))
                 = put rem2 x ++ zeros (N.to_nat (64 - rem2))).
    { unfold lshift_word. rewrite putn64_trunc.
      replace 64%nat with (N.to_nat rem2 + N.to_nat (64 - rem2))%nat by lia.
      apply put_shiftl. }
    destruct (wr_construct ws2 (lshift_word x (64 - rem2)) (put rem2 x) rem2
                Hws2 (trunc_word_lt _) ltac:(lia) (put_length' _ _) Hp) as [H3 H4].
    split; [exact H3|].
    rewrite H4, HL, Hb1, <- app_assoc. f_equal.
    rewrite <- put_add. f_equal. lia.
Qed.

(* ---- write_aligned_bytes ---- *)
Lemma wr_aligned_byte_step_spec w byte :
  wr_ok w -> w_j w mod 8 = 0 -> byte < 256 ->
  let w' := wr_aligned_byte_step w byte in
  wr_ok w' /\ wr_bits w' = wr_bits w ++ byte_bits byte /\ w_j w' mod 8 = 0.
Proof.
  intros Hok Hal Hb. destruct (wr_refresh_spec w Hok) as (Hok' & Hb' & Hj' & Hne').
  assert (Hal' : w_j (wr_refresh w) mod 8 = 0).
  { unfold wr_refresh, WORD_SIZE. destruct (N.eqb_spec (w_j w) 64); [reflexivity | exact Hal]. }
  unfold wr_aligned_byte_step. set (w1 := wr_refresh w) in *. clearbody w1. rewrite <- Hb'.
  cbv zeta. unfold WORD_SIZE.
  pose proof (wr_or_field w1 8 (64 - 8 - w_j w1) byte Hok' Hne' ltac:(lia) Hb) as H.
  cbv zeta in H. destruct H as [H1 H2]. split; [exact H1|]. split; [exact H2|].
  cbn [w_j]. lia.
Qed.

Theorem wr_write_aligned_bytes_spec bytes : forall w,
  wr_ok w -> w_j w mod 8 = 0 -> Forall (fun b => b < 256) bytes ->
  exists w', wr_write_aligned_bytes w bytes = Ok w' /\ wr_ok w' /\
             wr_bits w' = wr_bits w ++ bytes_to_bits bytes /\ w_j w' mod 8 = 0.
Proof.
  intros w Hok Hal Hbs. unfold wr_write_aligned_bytes.
  rewrite Hal. cbn [N.eqb]. eexists. split; [reflexivity|].
  revert w Hok Hal. induction Hbs as [|b t Hb Ht IH]; intros w Hok Hal; cbn [fold_left].
  - split; [exact Hok|]. split; [symmetry; apply app_nil_r | exact Hal].
  - destruct (wr_aligned_byte_step_spec w b Hok Hal Hb) as (H1 & H2 & H3).
    destruct (IH _ H1 H3) as (H4 & H5 & H6). split; [exact H4|]. split; [|exact H6].
    rewrite H5, H2, <- app_assoc. reflexivity.
Qed.

Lemma wr_write_aligned_bytes_misaligned w bytes :
  w_j w mod 8 <> 0 -> wr_write_aligned_bytes w bytes = Err InvalidArgument.
Proof.
  intros H. unfold wr_write_aligned_bytes.
  destruct (N.eqb_spec (w_j w mod 8) 0); [contradiction | reflexivity].
Qed.

(* ---- sizes ---- *)
Lemma wr_bits_length w : length (wr_bits w) = N.to_nat (wr_bit_size w).
Proof.
  unfold wr_bits. rewrite firstn_length, words_bits_length.
  unfold wr_bit_size, Nlen, WORD_SIZE. lia.
Qed.

Lemma wr_aligned_iff w : wr_ok w -> (wr_bit_size w mod 8 = 0 <-> w_j w mod 8 = 0).
Proof.
  intros (_ & Hj & He & _). unfold wr_bit_size, Nlen, WORD_SIZE.
  destruct (w_words w) as [|a t].
  - rewrite He by reflexivity. cbn. tauto.
  - cbn [length]. lia.
Qed.

(* ---- finish_byte ---- *)
Theorem wr_finish_byte_spec w :
  wr_ok w ->
  wr_ok (wr_finish_byte w) /\ wr_bits (wr_finish_byte w) = pad8 (wr_bits w) /\
  w_j (wr_finish_byte w) mod 8 = 0.
Proof.
  intros Hok. pose proof Hok as (Hw & Hj & He & Hz).
  unfold wr_finish_byte, pad8, ceil_div. rewrite wr_bits_length, N2Nat.id.
  destruct (list_eq_dec N.eq_dec (w_words w) []) as [E|E].
  - destruct w as [ws j]. cbn [w_words w_j] in *. subst ws. rewrite He by reflexivity.
    change ((64 + 8 - 1) / 8 * 8) with 64.
    split; [rewrite <- (He eq_refl); exact Hok|]. split; [|reflexivity].
    cbn. reflexivity.
  - set (j' := (w_j w + 8 - 1) / 8 * 8).
    assert (Hj' : j' = w_j w + (j' - w_j w)) by (unfold j'; lia).
    pose proof (wr_skip w (j' - w_j w) Hok E ltac:(unfold j'; lia)) as H.
    cbv zeta in H. rewrite <- Hj' in H. destruct H as [H1 H2].
    split; [exact H1|]. split; [|cbn [w_j]; unfold j'; lia].
    rewrite H2. f_equal. unfold zeros. f_equal. f_equal.
    unfold pad_len, wr_bit_size, Nlen, WORD_SIZE, j'.
    destruct (w_words w) as [|a t]; [congruence|]. cbn [length]. lia.
Qed.

(* ---- drain_bytes ---- *)
Lemma bytes_to_bits_app a b : bytes_to_bits (a ++ b) = bytes_to_bits a ++ bytes_to_bits b.
Proof. unfold bytes_to_bits. apply flat_map_app. Qed.

Lemma bytes_to_bits_be_bytes nb x : bytes_to_bits (be_bytes nb x) = putn (8 * nb) x.
Proof.
  induction nb as [|m IH]; [reflexivity|].
  cbn [be_bytes]. unfold bytes_to_bits in *. cbn [flat_map]. rewrite IH.
  replace (8 * S m)%nat with (8 + 8 * m)%nat by lia.
  rewrite putn_app. f_equal. unfold byte_bits.
  change 256 with (2 ^ N.of_nat 8). rewrite putn_mod by lia.
  do 2 f_equal. lia.
Qed.

Lemma bytes_to_bits_words ws : bytes_to_bits (words_to_bytes ws) = words_bits ws.
Proof.
  induction ws as [|x t IH]; [reflexivity|].
  unfold words_to_bytes in *. cbn [flat_map]. rewrite bytes_to_bits_app, IH.
  rewrite bytes_to_bits_be_bytes. reflexivity.
Qed.

Lemma bytes_to_bits_firstn k : forall bs,
  bytes_to_bits (firstn k bs) = firstn (8 * k) (bytes_to_bits bs).
Proof.
  induction k as [|k IH]; intros bs; [reflexivity|].
  destruct bs as [|b t].
  - cbn [firstn]. rewrite firstn_nil. reflexivity.
  - cbn [firstn]. unfold bytes_to_bits in *. cbn [flat_map]. rewrite IH.
    replace (8 * S k)%nat with (length (byte_bits b) + 8 * k)%nat.
    + rewrite firstn_app_2. reflexivity.
    + unfold byte_bits. rewrite putn_length. lia.
Qed.

Lemma words_to_bytes_range ws : Forall (fun b => b < 256) (words_to_bytes ws).
Proof.
  induction ws as [|x t IH]; [constructor|].
  unfold words_to_bytes in *. cbn [flat_map]. apply Forall_app. split; [apply be_bytes_range | exact IH].
Qed.

Lemma Forall_firstn {A} (P : A -> Prop) k : forall l, Forall P l -> Forall P (firstn k l).
Proof.
  induction k as [|k IH]; intros l H; [constructor|].
  destruct H; cbn [firstn]; constructor; auto.
Qed.

Theorem wr_drain_bytes_spec w :
  wr_ok w -> wr_bit_size w mod 8 = 0 ->
  wr_drain_bytes w = bits_to_bytes (wr_bits w) /\
  bytes_to_bits (wr_drain_bytes w) = wr_bits w /\
  Nlen (wr_drain_bytes w) = wr_byte_size w.
Proof.
  intros Hok Hal.
  assert (Hb : bytes_to_bits (wr_drain_bytes w) = wr_bits w).
  { unfold wr_drain_bytes. rewrite bytes_to_bits_firstn, bytes_to_bits_words.
    unfold wr_bits. f_equal.
    pose proof (proj1 (wr_aligned_iff w Hok) Hal) as Hj. destruct Hok as (_ & Hj64 & _).
    unfold wr_byte_size, wr_bit_size, Nlen, WORD_SIZE, BYTES_PER_WORD. lia. }
  split; [|split; [exact Hb|]].
  - rewrite <- Hb. symmetry. apply bits_to_bytes_bytes.
    unfold wr_drain_bytes. apply Forall_firstn, words_to_bytes_range.
  - assert (Hl := f_equal (@length bool) Hb).
    rewrite bytes_to_bits_length, wr_bits_length in Hl.
    pose proof (proj1 (wr_aligned_iff w Hok) Hal) as Hj. destruct Hok as (_ & Hj64 & _).
    unfold Nlen. revert Hl.
    unfold wr_byte_size, wr_bit_size, Nlen, WORD_SIZE, BYTES_PER_WORD. lia.
Qed.

(* ---- write_varint ---- *)
Lemma land1_odd x : (0 <? N.land x 1) = N.odd x.
Proof. destruct x as [|[p|p|]]; reflexivity. Qed.

Lemma wr_varint_loop_spec : forall cnt w x,
  wr_ok w ->
  wr_ok (wr_varint_loop cnt w x) /\
  wr_bits (wr_varint_loop cnt w x) = wr_bits w ++ varint_cont cnt x.
Proof.
  induction cnt as [|c IH]; intros w x Hok; cbn [wr_varint_loop varint_cont].
  - split; [exact Hok | symmetry; apply app_nil_r].
  - destruct (N.ltb_spec 0 x) as [Hx|Hx].
    + destruct (N.eqb_spec x 0) as [E|E]; [lia|].
      destruct (wr_write_one_spec w true Hok) as [H1 H2].
      destruct (wr_write_one_spec _ (0 <? N.land x 1) H1) as [H3 H4].
      destruct (IH _ (N.shiftr x 1) H3) as [H5 H6].
      split; [exact H5|]. rewrite H6, H4, H2, land1_odd, N.div2_spec, <- !app_assoc. reflexivity.
    + destruct (N.eqb_spec x 0) as [E|E]; [|lia].
      apply wr_write_one_spec. exact Hok.
Qed.

Theorem wr_write_varint_spec w x j :
  wr_ok w -> x <= Consts.MAX_ENTRIES ->
  exists w', wr_write_varint w x j = Ok w' /\ wr_ok w' /\
             wr_bits w' = wr_bits w ++ write_varint x j.
Proof.
  intros Hok Hx. unfold wr_write_varint.
  destruct (N.ltb_spec Consts.MAX_ENTRIES x) as [H|H]; [lia|].
  eexists. split; [reflexivity|]. unfold wr_write_usize.
  destruct (wr_write_diff_spec w x j Hok) as [H1 H2].
  destruct (wr_varint_loop_spec (N.to_nat (Consts.BITS_TO_ENCODE_N_ENTRIES - j)) _ (N.shiftr x j) H1)
    as [H3 H4].
  split; [exact H3|]. rewrite H4, H2, <- app_assoc. reflexivity.
Qed.

Lemma wr_write_varint_too_big w x j : Consts.MAX_ENTRIES < x -> wr_write_varint w x j = Panic.
Proof.
  intros H. unfold wr_write_varint. destruct (N.ltb_spec Consts.MAX_ENTRIES x); [reflexivity | lia].
Qed.

(* ---- overwrite_usize ---- *)
(* pointwise OR of the bits f into the front of s *)
Fixpoint bor (f s : bits) : bits :=
  match f, s with
  | b :: f', c :: s' => (c || b) :: bor f' s'
  | _, _ => s
  end.
(* ... at position p *)
Definition or_at (p : nat) (f s : bits) : bits := firstn p s ++ bor f (skipn p s).

Lemma bor_nil_r f : bor f [] = [].
Proof. destruct f; reflexivity. Qed.

Lemma bor_length f : forall s, length (bor f s) = length s.
Proof.
  induction f as [|b f IH]; intros s; [reflexivity|].
  destruct s as [|c s]; [reflexivity|]. cbn [bor length]. rewrite IH. reflexivity.
Qed.

Lemma or_at_length p f s : length (or_at p f s) = length s.
Proof.
  unfold or_at. rewrite app_length, bor_length, <- app_length, firstn_skipn. reflexivity.
Qed.

Lemma bor_app f : forall A B, (length f <= length A)%nat -> bor f (A ++ B) = bor f A ++ B.
Proof.
  induction f as [|b f IH]; intros A B H; [reflexivity|].
  destruct A as [|c A]; [cbn [length] in H; lia|].
  cbn [app bor]. rewrite IH; [reflexivity | cbn [length] in H; lia].
Qed.

Lemma bor_zeros_l k : forall f s, bor (zeros k ++ f) s = firstn k s ++ bor f (skipn k s).
Proof.
  induction k as [|k IH]; intros f s; [reflexivity|].
  destruct s as [|c s].
  - cbn [zeros repeat app bor firstn skipn]. rewrite bor_nil_r. reflexivity.
  - change (zeros (S k) ++ f) with (false :: (zeros k ++ f)).
    cbn [bor firstn skipn app]. rewrite IH, orb_false_r. reflexivity.
Qed.

Lemma bor_zeros_r f k : forall s, bor (f ++ zeros k) s = bor f s.
Proof.
  induction f as [|b f IH]; intros s.
  - cbn [app]. revert s. induction k as [|k IHk]; intros s; [reflexivity|].
    destruct s as [|c s]; [reflexivity|].
    change (zeros (S k)) with (false :: zeros k). cbn [bor]. rewrite IHk, orb_false_r.
    reflexivity.
  - destruct s as [|c s]; [reflexivity|]. cbn [app bor]. rewrite IH. reflexivity.
Qed.

Lemma bor_onto_zeros f : bor f (zeros (length f)) = f.
Proof.
  induction f as [|b f IH]; [reflexivity|].
  cbn [length]. change (zeros (S (length f))) with (false :: zeros (length f)).
  cbn [bor]. rewrite IH. reflexivity.
Qed.

Lemma or_at_app p f B Z :
  (p + length f <= length B)%nat -> or_at p f (B ++ Z) = or_at p f B ++ Z.
Proof.
  intros H. unfold or_at. rewrite firstn_app, skipn_app.
  replace (p - length B)%nat with 0%nat by lia. cbn [firstn skipn].
  rewrite app_nil_r, bor_app, app_assoc; [reflexivity|]. rewrite skipn_length. lia.
Qed.

Lemma or_at_prefix X p f s :
  or_at (length X + p)%nat f (X ++ s) = X ++ or_at p f s.
Proof.
  unfold or_at. rewrite firstn_app_2, skipn_app.
  rewrite skipn_all2 by lia.
  replace (length X + p - length X)%nat with p by lia. cbn [app].
  rewrite app_assoc. reflexivity.
Qed.

Lemma skipn_skipn' {A} (a : nat) : forall (b : nat) (l : list A), skipn a (skipn b l) = skipn (b + a) l.
Proof.
  induction b as [|b IH]; intros l; [reflexivity|].
  destruct l as [|x l]; [rewrite !skipn_nil; reflexivity|]. cbn [skipn Nat.add]. apply IH.
Qed.

(* explicit form: only the n bits at [p, p+n) change *)
Lemma or_at_split p f s :
  (p + length f <= length s)%nat ->
  or_at p f s = firstn p s ++ bor f (firstn (length f) (skipn p s)) ++ skipn (p + length f)%nat s.
Proof.
  intros H. unfold or_at. f_equal.
  rewrite <- (firstn_skipn (length f) (skipn p s)) at 1.
  rewrite bor_app.
  - rewrite skipn_skipn'. reflexivity.
  - rewrite firstn_length, skipn_length. lia.
Qed.

Lemma or_at_cons' A c B b t :
  or_at (length A) (b :: t) (A ++ c :: B)
  = or_at (S (length A)) t (or_at (length A) [b] (A ++ c :: B)).
Proof.
  replace (length A) with (length A + 0)%nat at 1 3 by lia. rewrite !or_at_prefix.
  replace (S (length A)) with (length A + 1)%nat by lia. rewrite or_at_prefix.
  reflexivity.
Qed.

Lemma or_at_cons p b t s :
  (p < length s)%nat -> or_at p (b :: t) s = or_at (S p) t (or_at p [b] s).
Proof.
  intros H.
  assert (Hl : length (firstn p s) = p) by (apply firstn_length_le; lia).
  destruct (skipn p s) as [|c B] eqn:E.
  { assert (length (skipn p s) = 0%nat) by (rewrite E; reflexivity). rewrite skipn_length in *. lia. }
  assert (Es : s = firstn p s ++ c :: B) by (rewrite <- E; symmetry; apply firstn_skipn).
  clear E H. set (A := firstn p s) in *. clearbody A. subst s p. apply or_at_cons'.
Qed.

Lemma putn_lor n a c : putn n (N.lor a c) = bor (putn n c) (putn n a).
Proof.
  induction n as [|n IH]; [reflexivity|].
  cbn [putn bor]. rewrite IH, N.lor_spec. reflexivity.
Qed.

Lemma putn_single_bit b (jj : nat) :
  (jj < 64)%nat ->
  putn 64 (N.shiftl (N.b2n b) (N.of_nat (63 - jj))) = zeros jj ++ [b] ++ zeros (63 - jj).
Proof.
  intros H. replace 64%nat with ((jj + 1) + (63 - jj))%nat at 1 by lia.
  rewrite putn_shiftl. rewrite (putn_small jj 1) by (destruct b; vm_compute; reflexivity).
  rewrite <- app_assoc. do 2 f_equal. destruct b; reflexivity.
Qed.

Lemma word_or_bit w b (jj : nat) :
  (jj < 64)%nat ->
  putn 64 (N.lor w (N.shiftl (N.b2n b) (N.of_nat (63 - jj)))) = or_at jj [b] (putn 64 w).
Proof.
  intros H. rewrite putn_lor, putn_single_bit by exact H.
  rewrite bor_zeros_l. unfold or_at. f_equal.
  apply (bor_zeros_r [b]).
Qed.

(* the conditional XOR of overwrite_usize is an OR *)
Lemma land_single_bit wd s :
  N.land wd (N.shiftl 1 s) = if N.testbit wd s then N.shiftl 1 s else 0.
Proof.
  apply N.bits_inj. intros m. rewrite N.land_spec, N.shiftl_1_l, N.pow2_bits_eqb.
  destruct (N.eqb_spec s m) as [E|E].
  - subst m. destruct (N.testbit wd s); [rewrite N.pow2_bits_eqb, N.eqb_refl; reflexivity|].
    rewrite N.bits_0. reflexivity.
  - rewrite andb_false_r. destruct (N.testbit wd s).
    + rewrite N.pow2_bits_eqb. symmetry. apply N.eqb_neq. exact E.
    + rewrite N.bits_0. reflexivity.
Qed.

Lemma overwrite_word_is_or wd b s :
  (if N.land wd (N.shiftl 1 s) =? N.shiftl (N.b2n b) s then wd
   else N.lxor wd (N.shiftl (N.b2n b) s))
  = N.lor wd (N.shiftl (N.b2n b) s).
Proof.
  destruct b; cbn [N.b2n].
  - rewrite land_single_bit. destruct (N.testbit wd s) eqn:T.
    + rewrite N.eqb_refl. symmetry. apply N.bits_inj. intros m.
      rewrite N.lor_spec, N.shiftl_1_l, N.pow2_bits_eqb.
      destruct (N.eqb_spec s m) as [E|E]; [subst m; rewrite T; reflexivity | apply orb_false_r].
    + assert (Hne : N.shiftl 1 s <> 0).
      { rewrite N.shiftl_1_l. apply pow2_nz. }
      destruct (N.eqb_spec 0 (N.shiftl 1 s)) as [E|E]; [congruence|].
      apply N.lxor_lor. rewrite land_single_bit, T. reflexivity.
  - rewrite N.shiftl_0_l, N.lor_0_r, N.lxor_0_r. destruct (_ =? _); reflexivity.
Qed.

Lemma upd_nth_length f : forall i ws, length (upd_nth i f ws) = length ws.
Proof.
  intros i ws. revert i. induction ws as [|w t IH]; intros i; [destruct i; reflexivity|].
  destruct i; cbn [upd_nth length]; [reflexivity | rewrite IH; reflexivity].
Qed.

Lemma upd_nth_ok f : (forall x, x < 2 ^ 64 -> f x < 2 ^ 64) ->
  forall i ws, words_ok ws -> words_ok (upd_nth i f ws).
Proof.
  intros Hf i ws. revert i. unfold words_ok.
  induction ws as [|w t IH]; intros i H; [destruct i; constructor|].
  inversion H; subst. destruct i; cbn [upd_nth]; constructor; auto.
Qed.

Lemma lor_lt a b n : a < 2 ^ n -> b < 2 ^ n -> N.lor a b < 2 ^ n.
Proof.
  intros Ha Hb.
  rewrite <- (N.mod_small _ _ Ha), <- (N.mod_small _ _ Hb), <- !N.land_ones, <- N.land_lor_distr_l.
  rewrite N.land_ones. apply N.mod_lt, pow2_nz.
Qed.

Lemma words_or_bit b : forall ws (i jj : nat),
  (i < length ws)%nat -> (jj < 64)%nat ->
  words_bits (upd_nth i (fun wd => N.lor wd (N.shiftl (N.b2n b) (N.of_nat (63 - jj)))) ws)
  = or_at (64 * i + jj)%nat [b] (words_bits ws).
Proof.
  induction ws as [|w t IH]; intros i jj Hi Hj; [cbn [length] in Hi; lia|].
  destruct i as [|i]; cbn [upd_nth]; rewrite !words_bits_cons.
  - rewrite word_or_bit by exact Hj. replace (64 * 0 + jj)%nat with jj by lia.
    symmetry. apply or_at_app. rewrite putn_length. cbn [length]. lia.
  - rewrite IH by (cbn [length] in Hi; lia).
    replace (64 * S i + jj)%nat with (length (putn 64 w) + (64 * i + jj))%nat
      by (rewrite putn_length; lia).
    symmetry. apply or_at_prefix.
Qed.

Lemma wr_overwrite_loop_spec x n : forall cnt k ws i j,
  N.of_nat cnt + k = n -> j <= 64 ->
  (N.to_nat (64 * i + j) + cnt <= 64 * length ws)%nat -> words_ok ws ->
  let ws' := wr_overwrite_loop cnt x n k ws i j in
  words_bits ws' = or_at (N.to_nat (64 * i + j)) (putn cnt x) (words_bits ws) /\
  length ws' = length ws /\ words_ok ws'.
Proof.
  induction cnt as [|c IH]; intros k ws i j Hk Hj Hp Hok; cbn [wr_overwrite_loop putn].
  - cbv zeta. split; [|split; [reflexivity | exact Hok]].
    unfold or_at. cbn [bor]. symmetry. apply firstn_skipn.
  - unfold WORD_SIZE.
    set (b := 0 <? N.land (N.shiftr x (n - k - 1)) 1).
    assert (Hb : b = N.testbit x (N.of_nat c)).
    { unfold b. rewrite land1_odd, <- N.testbit_odd. f_equal. lia. }
    set (ij := if j =? 64 then (i + 1, 0) else (i, j)).
    assert (Hij : 64 * fst ij + snd ij = 64 * i + j /\ snd ij < 64).
    { unfold ij. destruct (N.eqb_spec j 64); cbn [fst snd]; lia. }
    destruct ij as [i' j']. cbn [fst snd] in Hij. destruct Hij as [Hpos Hj'].
    rewrite <- Hpos in *. clear Hpos.
    replace (64 - 1 - j') with (N.of_nat (63 - N.to_nat j')) by lia.
    match goal with |- context [upd_nth ?ii ?ff ws] =>
      assert (Hupd : upd_nth ii ff ws
                     = upd_nth ii (fun wd => N.lor wd (N.shiftl (N.b2n b)
                                        (N.of_nat (63 - N.to_nat j')))) ws) end.
    { clear. generalize (N.to_nat i'). intros m. revert m.
      induction ws as [|w t IHw]; intros m; [destruct m; reflexivity|].
      destruct m; cbn [upd_nth]; [rewrite overwrite_word_is_or | rewrite IHw]; reflexivity. }
    rewrite Hupd. clear Hupd.
    set (ws1 := upd_nth _ _ ws).
    assert (H1 : words_bits ws1 = or_at (N.to_nat (64 * i' + j')) [b] (words_bits ws)).
    { unfold ws1. rewrite words_or_bit by lia. f_equal. lia. }
    assert (Hl1 : length ws1 = length ws) by apply upd_nth_length.
    assert (Hok1 : words_ok ws1).
    { apply upd_nth_ok; [|exact Hok]. intros y Hy. apply lor_lt; [exact Hy|].
      rewrite N.shiftl_mul_pow2.
      apply N.lt_le_trans with (1 * 2 ^ N.of_nat (63 - N.to_nat j') + 2 ^ N.of_nat (63 - N.to_nat j')).
      - destruct b; cbn [N.b2n]; pose proof (pow2_pos (N.of_nat (63 - N.to_nat j'))); lia.
      - replace (2 ^ 64) with (2 ^ N.succ (N.of_nat (63 - N.to_nat j')) * 2 ^ N.of_nat (N.to_nat j')).
        + rewrite N.pow_succ_r'. pose proof (pow2_pos (N.of_nat (N.to_nat j'))).
          set (P := 2 ^ N.of_nat (63 - N.to_nat j')) in *. clearbody P. nia.
        + rewrite <- N.pow_add_r. f_equal. lia. }
    specialize (IH (k + 1) ws1 i' (j' + 1) ltac:(lia) ltac:(lia) ltac:(rewrite Hl1; lia) Hok1).
    cbv zeta in IH. destruct IH as (H2 & H3 & H4).
    split; [|split; [rewrite H3; exact Hl1 | exact H4]].
    rewrite H2, H1, <- Hb.
    replace (N.to_nat (64 * i' + (j' + 1))) with (S (N.to_nat (64 * i' + j'))) by lia.
    symmetry. apply or_at_cons. rewrite words_bits_length. lia.
Qed.

(* the real contract of overwrite_usize: the n bits at bit_idx are OR-ed with put n x *)
Theorem wr_overwrite_spec w bit_idx x n :
  wr_ok w -> bit_idx + n <= wr_bit_size w ->
  wr_ok (wr_overwrite w bit_idx x n) /\
  wr_bits (wr_overwrite w bit_idx x n) = or_at (N.to_nat bit_idx) (put n x) (wr_bits w) /\
  wr_bit_size (wr_overwrite w bit_idx x n) = wr_bit_size w.
Proof.
  intros Hok Hle. pose proof Hok as (Hw & Hj & He & Hz).
  unfold wr_overwrite, WORD_SIZE.
  assert (Hbs : wr_bit_size w <= 64 * Nlen (w_words w)).
  { unfold wr_bit_size, WORD_SIZE. lia. }
  pose proof (wr_overwrite_loop_spec x n (N.to_nat n) 0 (w_words w)
                (bit_idx / 64) (bit_idx mod 64)
                ltac:(lia) ltac:(lia) ltac:(unfold Nlen in Hbs; lia) Hw) as H.
  cbv zeta in H. replace (64 * (bit_idx / 64) + bit_idx mod 64) with bit_idx in H by lia.
  set (ws' := wr_overwrite_loop _ _ _ _ _ _ _) in *. clearbody ws'.
  destruct H as (H1 & H2 & H3).
  assert (Hsz : wr_bit_size (mkWr ws' (w_j w)) = wr_bit_size w).
  { unfold wr_bit_size, Nlen. cbn [w_words w_j]. rewrite H2. reflexivity. }
  assert (Hlen : (N.to_nat bit_idx + length (put n x) <= length (wr_bits w))%nat).
  { rewrite put_length', wr_bits_length. lia. }
  assert (Hbits : wr_bits (mkWr ws' (w_j w)) = or_at (N.to_nat bit_idx) (put n x) (wr_bits w)).
  { unfold wr_bits at 1. rewrite Hsz. cbn [w_words]. rewrite H1, Hz.
    fold (put n x). rewrite or_at_app by exact Hlen.
    rewrite <- (wr_bits_length w), <- (or_at_length (N.to_nat bit_idx) (put n x) (wr_bits w)).
    rewrite firstn_app, Nat.sub_diag, firstn_all. cbn [firstn]. apply app_nil_r. }
  split; [|split; [exact Hbits | exact Hsz]].
  unfold wr_ok. rewrite Hbits. cbn [w_words w_j]. repeat split.
  - exact H3.
  - exact Hj.
  - intros E. apply He. destruct (w_words w); [reflexivity|]. subst ws'. discriminate.
  - rewrite H1, Hz. fold (put n x). apply or_at_app. exact Hlen.
Qed.

(* only bits [bit_idx, bit_idx+n) can change *)
Corollary wr_overwrite_explicit w bit_idx x n :
  wr_ok w -> bit_idx + n <= wr_bit_size w ->
  let B := wr_bits w in
  wr_bits (wr_overwrite w bit_idx x n)
  = firstn (N.to_nat bit_idx) B
    ++ bor (put n x) (firstn (N.to_nat n) (skipn (N.to_nat bit_idx) B))
    ++ skipn (N.to_nat (bit_idx + n)) B.
Proof.
  intros Hok Hle B. destruct (wr_overwrite_spec w bit_idx x n Hok Hle) as (_ & H & _).
  rewrite H. rewrite or_at_split.
  - rewrite put_length'. do 3 f_equal. lia.
  - rewrite put_length', wr_bits_length. lia.
Qed.

(* the back-patch as the compressor uses it: a zero placeholder is replaced by the value
   (the 32-bit field may straddle two words) *)
Corollary wr_overwrite_placeholder w P Q x n :
  wr_ok w -> wr_bits w = P ++ put n 0 ++ Q ->
  wr_ok (wr_overwrite w (Nlen P) x n) /\
  wr_bits (wr_overwrite w (Nlen P) x n) = P ++ put n x ++ Q.
Proof.
  intros Hok HB.
  assert (Hle : Nlen P + n <= wr_bit_size w).
  { assert (Hl := f_equal (@length bool) HB).
    rewrite wr_bits_length, !app_length, put_length' in Hl. unfold Nlen. lia. }
  destruct (wr_overwrite_spec w (Nlen P) x n Hok Hle) as (H1 & H2 & _).
  split; [exact H1|]. rewrite H2, HB. unfold Nlen. rewrite Nat2N.id.
  replace (length P) with (length P + 0)%nat at 1 by lia. rewrite or_at_prefix. f_equal.
  unfold or_at. cbn [firstn skipn app]. rewrite bor_app by (rewrite !put_length'; lia).
  f_equal. rewrite put_zero. rewrite <- (put_length' n x). apply bor_onto_zeros.
Qed.

(* ================= B. BitWords ================= *)
Definition bw_ok (words : list N) (tb : N) : Prop :=
  words_ok words /\ Nlen words = ceil_div tb 64 /\
  words_bits words = bw_bits words tb ++ zeros (N.to_nat (64 * Nlen words - tb)).

(* a BitWords is a writer state: j = number of used bits of the last word *)
Definition bw_j (words : list N) (tb : N) : N := 64 - (64 * Nlen words - tb).

Lemma bw_as_wr words tb :
  bw_ok words tb ->
  let w := mkWr words (bw_j words tb) in
  wr_ok w /\ wr_bit_size w = tb /\ wr_bits w = bw_bits words tb.
Proof.
  intros (Hw & Hl & Hz). cbv zeta.
  assert (Hsz : wr_bit_size (mkWr words (bw_j words tb)) = tb).
  { unfold wr_bit_size, bw_j, WORD_SIZE, ceil_div in *. cbn [w_words w_j]. lia. }
  assert (Hb : wr_bits (mkWr words (bw_j words tb)) = bw_bits words tb).
  { unfold wr_bits. rewrite Hsz. reflexivity. }
  split; [|split; assumption].
  unfold wr_ok. rewrite Hb. cbn [w_words w_j]. repeat split.
  - exact Hw.
  - unfold bw_j. lia.
  - intros E. subst words. unfold bw_j, ceil_div, Nlen in *. cbn [length] in *. lia.
  - rewrite Hz. do 2 f_equal. unfold bw_j, ceil_div in *. lia.
Qed.

Lemma wr_as_bw w :
  wr_ok w -> 0 < w_j w ->
  bw_ok (w_words w) (wr_bit_size w) /\ bw_bits (w_words w) (wr_bit_size w) = wr_bits w.
Proof.
  intros (Hw & Hj & He & Hz) Hpos. split; [|reflexivity].
  unfold bw_ok. repeat split.
  - exact Hw.
  - unfold wr_bit_size, ceil_div, WORD_SIZE, Nlen.
    destruct (w_words w) as [|a t]; [rewrite He by reflexivity; reflexivity|].
    cbn [length]. lia.
  - fold (wr_bits w). rewrite Hz. do 2 f_equal.
    unfold wr_bit_size, WORD_SIZE, Nlen.
    destruct (w_words w) as [|a t]; [rewrite He by reflexivity; reflexivity|].
    cbn [length]. lia.
Qed.

Lemma skipn_nth_cons {A} (d : A) : forall i l, (i < length l)%nat ->
  skipn i l = nth i l d :: skipn (S i) l.
Proof.
  induction i as [|i IH]; intros l H; destruct l as [|x l]; cbn [length] in H; try lia.
  - reflexivity.
  - cbn [skipn nth]. rewrite IH by lia. reflexivity.
Qed.

Lemma Forall_nth_lt (l : list N) i : Forall (fun b => b < 256) l -> nth i l 0 < 256.
Proof.
  intros H. revert i. induction H as [|x l Hx Hl IH]; intros i; destruct i; cbn [nth]; try lia; auto.
Qed.

(* the `for i in 0..first_word_end` loop is write_aligned_bytes on the partial word *)
Lemma bw_fill_spec alignment bytes : forall cnt i ws,
  Forall (fun b => b < 256) bytes ->
  wr_ok (mkWr ws (64 - 8 * (alignment - i))) ->
  i + N.of_nat cnt <= alignment -> alignment <= 8 -> i + N.of_nat cnt <= Nlen bytes ->
  let ws' := bw_fill cnt i alignment bytes ws in
  let j' := 64 - 8 * (alignment - i) + 8 * N.of_nat cnt in
  wr_ok (mkWr ws' j') /\
  wr_bits (mkWr ws' j')
  = wr_bits (mkWr ws (64 - 8 * (alignment - i)))
    ++ bytes_to_bits (firstn cnt (skipn (N.to_nat i) bytes)).
Proof.
  induction cnt as [|c IH]; intros i ws Hb Hok Hia Ha Hib; cbn [bw_fill]; cbv zeta.
  - rewrite N.mul_0_r, N.add_0_r. cbn [firstn]. split; [exact Hok|].
    symmetry. apply app_nil_r.
  - set (j := 64 - 8 * (alignment - i)) in *.
    assert (Hne : ws <> []).
    { intros E. destruct Hok as (_ & _ & He & _). specialize (He E). cbn [w_j] in He.
      unfold j in He. lia. }
    pose proof (wr_or_field (mkWr ws j) 8 (8 * (alignment - i - 1)) (nth (N.to_nat i) bytes 0)
                  Hok Hne ltac:(cbn [w_j]; unfold j; lia) (Forall_nth_lt _ _ Hb)) as H.
    cbv zeta in H. cbn [w_words w_j] in H.
    set (ws1 := upd_last _ ws) in *. destruct H as [H1 H2].
    specialize (IH (i + 1) ws1 Hb).
    replace (64 - 8 * (alignment - (i + 1))) with (j + 8) in IH by (unfold j; lia).
    specialize (IH H1 ltac:(lia) Ha ltac:(lia)). cbv zeta in IH.
    replace (j + 8 + 8 * N.of_nat c) with (j + 8 * N.of_nat (S c)) in IH by lia.
    destruct IH as [H3 H4]. split; [exact H3|].
    rewrite H4, H2, <- app_assoc. f_equal.
    rewrite (skipn_nth_cons 0 (N.to_nat i)) by (unfold Nlen in Hib; lia).
    cbn [firstn]. replace (N.to_nat (i + 1)) with (S (N.to_nat i)) by lia.
    reflexivity.
Qed.

Lemma be_val_acc_bits bs : forall acc,
  Forall (fun b => b < 256) bs ->
  be_val_acc acc bs = acc * 2 ^ N.of_nat (8 * length bs) + bits_val (bytes_to_bits bs).
Proof.
  induction bs as [|b t IH]; intros acc H.
  - cbn. change (bits_val []) with 0. lia.
  - inversion H as [|? ? Hb Ht]; subst. cbn [be_val_acc]. rewrite IH by exact Ht.
    unfold bytes_to_bits. cbn [flat_map]. fold (bytes_to_bits t).
    rewrite bits_val_app. unfold byte_bits. rewrite bits_val_putn.
    change (2 ^ N.of_nat 8) with 256. rewrite N.mod_small by exact Hb.
    rewrite bytes_to_bits_length. cbn [length].
    replace (N.of_nat (8 * S (length t))) with (8 + N.of_nat (8 * length t)) by lia.
    rewrite N.pow_add_r. change (2 ^ 8) with 256.
    set (P := 2 ^ N.of_nat (8 * length t)). clearbody P. lia.
Qed.

Lemma word_of_be_bytes_spec bs :
  Forall (fun b => b < 256) bs -> length bs = 8%nat ->
  putn 64 (word_of_be_bytes bs) = bytes_to_bits bs /\ word_of_be_bytes bs < 2 ^ 64.
Proof.
  intros H Hl. unfold word_of_be_bytes, be_val. rewrite be_val_acc_bits by exact H.
  rewrite N.mul_0_l, N.add_0_l.
  assert (Hlen : length (bytes_to_bits bs) = 64%nat) by (rewrite bytes_to_bits_length; lia).
  split.
  - apply putn_bits_val_len. exact Hlen.
  - pose proof (bits_val_lt (bytes_to_bits bs)) as Hlt. rewrite Hlen in Hlt. exact Hlt.
Qed.

Lemma Forall_skipn {A} (P : A -> Prop) k : forall l, Forall P l -> Forall P (skipn k l).
Proof.
  induction k as [|k IH]; intros l H; [exact H|].
  destruct H; cbn [skipn]; [constructor | auto].
Qed.

Lemma chunks8_spec : forall m fuel l,
  length l = (8 * m)%nat -> (m <= fuel)%nat -> Forall (fun b => b < 256) l ->
  let ws := map word_of_be_bytes (chunks8 fuel l) in
  words_bits ws = bytes_to_bits l /\ words_ok ws /\ length ws = m.
Proof.
  induction m as [|m IH]; intros fuel l Hl Hf Hb; cbv zeta.
  - destruct l; [|discriminate]. destruct fuel; cbn; repeat split; constructor.
  - destruct fuel as [|f]; [lia|]. cbn [chunks8].
    destruct (Nat.ltb_spec (length l) 8) as [H|H]; [lia|].
    cbn [map]. rewrite words_bits_cons.
    assert (H8 : length (firstn 8 l) = 8%nat) by (apply firstn_length_le; lia).
    destruct (word_of_be_bytes_spec (firstn 8 l) (Forall_firstn _ _ _ Hb) H8) as [E1 E2].
    destruct (IH f (skipn 8 l)) as (I1 & I2 & I3);
      [rewrite skipn_length; lia | lia | apply Forall_skipn; exact Hb |].
    split; [|split].
    + rewrite E1, I1, <- bytes_to_bits_app, firstn_skipn. reflexivity.
    + constructor; assumption.
    + cbn [length]. rewrite I3. reflexivity.
Qed.

Lemma bytes_to_bits_zero_bytes k : bytes_to_bits (repeat 0 k) = zeros (8 * k).
Proof.
  induction k as [|k IH]; [reflexivity|].
  cbn [repeat]. unfold bytes_to_bits in *. cbn [flat_map]. rewrite IH.
  replace (8 * S k)%nat with (8 + 8 * k)%nat by lia. rewrite zeros_app. reflexivity.
Qed.

Lemma Forall_repeat {A} (P : A -> Prop) x k : P x -> Forall P (repeat x k).
Proof. intros H. induction k; cbn; constructor; auto. Qed.

Lemma upd_last_length f (ws : list N) : length (upd_last f ws) = length ws.
Proof.
  destruct ws as [|a t]; [reflexivity|].
  assert (Hne : a :: t <> []) by discriminate.
  rewrite (snoc_decompose (a :: t) Hne) at 2. unfold upd_last.
  rewrite !app_length. reflexivity.
Qed.

Lemma bw_fill_length alignment bytes : forall cnt i ws,
  length (bw_fill cnt i alignment bytes ws) = length ws.
Proof.
  induction cnt as [|c IH]; intros i ws; cbn [bw_fill]; [reflexivity|].
  cbv zeta. rewrite IH. apply upd_last_length.
Qed.

Lemma wr_ok_full ws : words_ok ws -> wr_ok (mkWr ws 64).
Proof.
  intros H. unfold wr_ok. cbn [w_words w_j]. repeat split; [exact H | lia|].
  rewrite wr_bits_full. cbn. symmetry. apply app_nil_r.
Qed.

Theorem bw_extend_spec words tb bytes :
  bw_ok words tb -> tb mod 8 = 0 -> Forall (fun b => b < 256) bytes ->
  let '(ws', tb') := bw_extend words tb bytes in
  tb' = tb + 8 * Nlen bytes /\ bw_ok ws' tb' /\
  bw_bits ws' tb' = bw_bits words tb ++ bytes_to_bits bytes.
Proof.
  intros Hbw Hal Hb.
  destruct (bw_as_wr words tb Hbw) as (Hok & Hsz & Hbits).
  destruct Hbw as (Hwok & HL & _).
  unfold bw_extend, WORD_SIZE, BYTES_PER_WORD.
  set (blen := Nlen bytes).
  set (alignment := (8 - (tb / 8) mod 8) mod 8).
  set (L := Nlen words) in *.
  assert (Hj0 : bw_j words tb = 64 - 8 * (alignment - 0) /\ alignment <= 7
                /\ tb + 8 * alignment = 64 * L).
  { unfold bw_j, alignment, ceil_div in *. fold L. lia. }
  destruct Hj0 as (Hj0 & Ha7 & HtbL).
  rewrite Hj0 in *.
  set (fwe := N.min alignment blen).
  pose proof (bw_fill_spec alignment bytes (N.to_nat fwe) 0 words Hb Hok
                ltac:(unfold fwe; lia) ltac:(lia) ltac:(unfold fwe; fold blen; lia)) as H1.
  cbv zeta in H1. cbn [N.to_nat skipn] in H1.
  pose proof (bw_fill_length alignment bytes (N.to_nat fwe) 0 words) as Hlen1.
  set (ws1 := bw_fill (N.to_nat fwe) 0 alignment bytes words) in *. clearbody ws1.
  rewrite N2Nat.id in H1. destruct H1 as [Hok1 Hb1]. rewrite Hbits in Hb1.
  assert (HL1 : Nlen ws1 = L) by (unfold Nlen, L; rewrite Hlen1; reflexivity).
  destruct (N.ltb_spec fwe blen) as [Hlt|Hge].
  - (* more bytes than fit into the partial last word *)
    assert (Efwe : fwe = alignment) by (unfold fwe in *; lia).
    rewrite Efwe in *.
    replace (64 - 8 * (alignment - 0) + 8 * alignment) with 64 in * by lia.
    rewrite wr_bits_full in Hb1.
    set (m := (blen - alignment) / 8).
    replace (alignment + m * 8 - alignment) with (m * 8) by lia.
    set (rest := skipn (N.to_nat alignment) bytes) in *.
    assert (Hrest : length rest = N.to_nat (blen - alignment)).
    { unfold rest, blen, Nlen. rewrite skipn_length. lia. }
    assert (Hbrest : Forall (fun b => b < 256) rest) by (apply Forall_skipn; exact Hb).
    set (slice := firstn (N.to_nat (m * 8)) rest).
    assert (Hslice : length slice = (8 * N.to_nat m)%nat).
    { unfold slice. rewrite firstn_length_le; unfold m; lia. }
    destruct (chunks8_spec (N.to_nat m) (length slice) slice Hslice ltac:(lia)
                (Forall_firstn _ _ _ Hbrest)) as (C1 & C2 & C3).
    set (cw := map word_of_be_bytes (chunks8 (length slice) slice)) in *. clearbody cw.
    set (r := blen - alignment - 8 * m).
    assert (Hr : r < 8) by (unfold r, m; lia).
    assert (Hws2 : Nlen (ws1 ++ cw) = L + m).
    { unfold Nlen in *. rewrite app_length. lia. }
    assert (Hok2 : words_ok (ws1 ++ cw)).
    { apply words_ok_app. split; [apply Hok1 | exact C2]. }
    assert (Hbits2 : words_bits (ws1 ++ cw)
                     = bw_bits words tb ++ bytes_to_bits (firstn (N.to_nat alignment) bytes)
                       ++ bytes_to_bits slice).
    { rewrite words_bits_app, Hb1, C1, <- app_assoc. reflexivity. }
    set (tail := skipn (N.to_nat (alignment + m * 8)) bytes).
    assert (Etail : tail = skipn (N.to_nat (m * 8)) rest).
    { unfold tail, rest. rewrite skipn_skipn'. f_equal. lia. }
    assert (Hbytes : bytes = firstn (N.to_nat alignment) bytes ++ slice ++ tail).
    { rewrite Etail. unfold slice. rewrite firstn_skipn. unfold rest.
      symmetry. apply firstn_skipn. }
    assert (Htail : length tail = N.to_nat r).
    { rewrite Etail, skipn_length, Hrest. unfold r. lia. }
    assert (Hnw : ceil_div (tb + 8 * blen) 64 = L + m + (if 0 <? r then 1 else 0)).
    { unfold ceil_div. destruct (N.ltb_spec 0 r); unfold r, m in *; lia. }
    rewrite Hnw, Hws2.
    destruct (N.ltb_spec 0 r) as [Hr0|Hr0].
    + (* a trailing partial word *)
      destruct (N.ltb_spec (L + m) (L + m + 1)) as [_|?]; [|lia].
      split; [reflexivity|].
      fold tail. set (padded := tail ++ repeat 0 (8 - length tail)).
      assert (Hpl : length padded = 8%nat).
      { unfold padded. rewrite app_length, repeat_length. lia. }
      assert (Hpb : Forall (fun b => b < 256) padded).
      { unfold padded. apply Forall_app. split.
        - unfold tail. apply Forall_skipn. exact Hb.
        - apply Forall_repeat. lia. }
      destruct (word_of_be_bytes_spec padded Hpb Hpl) as [W1 W2].
      assert (Hp : putn 64 (word_of_be_bytes padded)
                   = bytes_to_bits tail ++ zeros (N.to_nat (64 - 8 * r))).
      { rewrite W1. unfold padded. rewrite bytes_to_bits_app, bytes_to_bits_zero_bytes.
        do 2 f_equal. lia. }
      destruct (wr_construct (ws1 ++ cw) (word_of_be_bytes padded) (bytes_to_bits tail) (8 * r)
                  Hok2 W2 ltac:(lia) ltac:(rewrite bytes_to_bits_length; lia) Hp) as [K1 K2].
      destruct (wr_as_bw _ K1 ltac:(cbn [w_j]; lia)) as [K3 K4].
      cbn [w_words] in K3, K4.
      assert (Esz : wr_bit_size (mkWr ((ws1 ++ cw) ++ [word_of_be_bytes padded]) (8 * r))
                    = tb + 8 * blen).
      { unfold wr_bit_size, WORD_SIZE. cbn [w_words w_j].
        unfold Nlen in *. rewrite app_length. cbn [length]. unfold r in *. lia. }
      rewrite Esz in K3, K4. split; [exact K3|].
      rewrite K4, K2, Hbits2, <- !app_assoc. f_equal.
      rewrite <- !bytes_to_bits_app. f_equal. symmetry. exact Hbytes.
    + (* whole words only *)
      destruct (N.ltb_spec (L + m) (L + m + 0)) as [?|_]; [lia|].
      split; [reflexivity|].
      destruct (wr_as_bw _ (wr_ok_full _ Hok2) ltac:(cbn [w_j]; lia)) as [K3 K4].
      cbn [w_words] in K3, K4.
      assert (Esz : wr_bit_size (mkWr (ws1 ++ cw) 64) = tb + 8 * blen).
      { unfold wr_bit_size, WORD_SIZE. cbn [w_words w_j]. unfold r in *. lia. }
      rewrite Esz in K3, K4. split; [exact K3|].
      rewrite K4, wr_bits_full, Hbits2. f_equal.
      rewrite <- !bytes_to_bits_app. f_equal.
      transitivity (firstn (N.to_nat alignment) bytes ++ slice ++ tail); [|symmetry; exact Hbytes].
      f_equal. destruct tail; [rewrite app_nil_r; reflexivity | cbn [length] in Htail; lia].
  - (* everything fits into the partial last word *)
    assert (Efwe : fwe = blen) by (unfold fwe in *; lia).
    rewrite Efwe in *. rewrite HL1.
    assert (Hnw : ceil_div (tb + 8 * blen) 64 = L).
    { unfold ceil_div in *. unfold fwe in Hge. lia. }
    rewrite Hnw. destruct (N.ltb_spec L L) as [?|_]; [lia|].
    split; [reflexivity|].
    destruct (wr_as_bw _ Hok1 ltac:(cbn [w_j]; lia)) as [K3 K4].
    cbn [w_words] in K3, K4.
    assert (Esz : wr_bit_size (mkWr ws1 (64 - 8 * (alignment - 0) + 8 * blen)) = tb + 8 * blen).
    { unfold wr_bit_size, WORD_SIZE. cbn [w_words w_j]. rewrite HL1.
      unfold ceil_div in *. unfold fwe in Hge. lia. }
    rewrite Esz in K3, K4. split; [exact K3|].
    rewrite K4, Hb1. do 2 f_equal. apply firstn_all2. unfold blen, Nlen. lia.
Qed.

Theorem bw_from_bytes_spec bytes :
  Forall (fun b => b < 256) bytes ->
  let '(ws, tb) := bw_extend [] 0 bytes in
  tb = 8 * Nlen bytes /\ bw_ok ws tb /\ bw_bits ws tb = bytes_to_bits bytes.
Proof.
  intros Hb.
  assert (H0 : bw_ok [] 0).
  { unfold bw_ok. repeat split; constructor. }
  pose proof (bw_extend_spec [] 0 bytes H0 eq_refl Hb) as H.
  destruct (bw_extend [] 0 bytes) as [ws tb]. exact H.
Qed.

Theorem bw_truncate_left_spec words tb k :
  bw_ok words tb -> 64 * k <= tb ->
  let '(ws', tb') := bw_truncate_left words tb k in
  tb' = tb - 64 * k /\ bw_ok ws' tb' /\
  bw_bits ws' tb' = skipn (N.to_nat (64 * k)) (bw_bits words tb).
Proof.
  intros (Hw & HL & Hz) Hk. unfold bw_truncate_left, WORD_SIZE.
  assert (Hkl : (N.to_nat k <= length words)%nat).
  { unfold ceil_div, Nlen in HL. lia. }
  rewrite <- (firstn_skipn (N.to_nat k) words) in Hz at 1.
  set (pre := firstn (N.to_nat k) words) in *.
  set (post := skipn (N.to_nat k) words) in *.
  assert (Hpre : length (words_bits pre) = N.to_nat (64 * k)).
  { rewrite words_bits_length. unfold pre. rewrite firstn_length_le by lia. lia. }
  assert (Hws : words_bits words = words_bits pre ++ words_bits post).
  { rewrite <- words_bits_app. unfold pre, post. rewrite firstn_skipn. reflexivity. }
  assert (Hpl : Nlen post = Nlen words - k).
  { unfold post, Nlen. rewrite skipn_length. lia. }
  assert (Hbb : bw_bits post (tb - k * 64) = skipn (N.to_nat (64 * k)) (bw_bits words tb)).
  { unfold bw_bits. rewrite Hws, firstn_app, Hpre.
    rewrite (firstn_all2 (words_bits pre)) by lia.
    rewrite skipn_app, Hpre, (skipn_all2 (words_bits pre)) by lia.
    rewrite Nat.sub_diag. cbn [skipn app]. f_equal. lia. }
  split; [lia|]. split; [|exact Hbb].
  unfold bw_ok. rewrite Hbb. repeat split.
  - unfold post. apply Forall_skipn. exact Hw.
  - rewrite Hpl, HL. unfold ceil_div. lia.
  - rewrite words_bits_app in Hz.
    assert (E := f_equal (skipn (N.to_nat (64 * k))) Hz).
    rewrite skipn_app, (skipn_all2 (words_bits pre)), Hpre, Nat.sub_diag in E by lia.
    cbn [skipn app] in E.
    rewrite E. rewrite skipn_app. f_equal.
    assert (Hbl : length (bw_bits words tb) = N.to_nat tb).
    { unfold bw_bits. apply firstn_length_le. rewrite words_bits_length.
      unfold ceil_div, Nlen in HL. lia. }
    rewrite Hbl.
    replace (N.to_nat (64 * k) - N.to_nat tb)%nat with 0%nat by lia. cbn [skipn].
    f_equal. rewrite Hpl. lia.
Qed.

(* ================= C. BitReader ================= *)
Lemma getn_acc_short : forall n acc s, (length s < n)%nat -> getn_acc n acc s = None.
Proof.
  induction n as [|n IH]; intros acc s H; [lia|].
  destruct s as [|b t]; [reflexivity|]. cbn [getn_acc]. apply IH. cbn [length] in H. lia.
Qed.

Lemma get_short n s : (length s < N.to_nat n)%nat -> get n s = Err InsufficientData.
Proof. intros H. unfold get, getn. rewrite getn_acc_short by exact H. reflexivity. Qed.

Lemma get_ok_firstn n s :
  (N.to_nat n <= length s)%nat ->
  get n s = Ok (bits_val (firstn (N.to_nat n) s), skipn (N.to_nat n) s).
Proof.
  intros H. rewrite <- (firstn_skipn (N.to_nat n) s) at 1.
  assert (Hl : length (firstn (N.to_nat n) s) = N.to_nat n) by (apply firstn_length_le; exact H).
  rewrite <- (putn_bits_val (firstn (N.to_nat n) s)) at 1. rewrite Hl. fold (put n (bits_val (firstn (N.to_nat n) s))).
  apply get_put_small. pose proof (bits_val_lt (firstn (N.to_nat n) s)) as Hlt.
  rewrite Hl, N2Nat.id in Hlt. exact Hlt.
Qed.

Lemma firstn_add {A} (a b : nat) (l : list A) :
  firstn (a + b) l = firstn a l ++ firstn b (skipn a l).
Proof.
  rewrite <- (firstn_skipn a l) at 1.
  destruct (Nat.le_gt_cases a (length l)) as [H|H].
  - rewrite <- (firstn_length_le l H) at 1. apply firstn_app_2.
  - rewrite (skipn_all2 l) by lia. rewrite app_nil_r, firstn_nil, app_nil_r.
    rewrite !firstn_all2; try reflexivity; rewrite ?firstn_length; lia.
Qed.

(* segment of the word expansion *)
Definition seg (ws : list N) (p m : nat) : bits := firstn m (skipn p (words_bits ws)).

Lemma seg_add ws p a b : seg ws p (a + b) = seg ws p a ++ seg ws (p + a) b.
Proof. unfold seg. rewrite firstn_add, skipn_skipn'. reflexivity. Qed.

Lemma skipn_app_2 {A} (l1 l2 : list A) k : skipn (length l1 + k) (l1 ++ l2) = skipn k l2.
Proof. induction l1 as [|x l1 IH]; [reflexivity|]. cbn [length Nat.add app skipn]. exact IH. Qed.

Lemma skipn_words ws : forall i, (i < length ws)%nat ->
  skipn (64 * i) (words_bits ws) = putn 64 (nth i ws 0) ++ skipn (64 * S i) (words_bits ws).
Proof.
  induction ws as [|w t IH]; intros i Hi; [cbn [length] in Hi; lia|].
  rewrite words_bits_cons.
  assert (Hl : length (putn 64 w) = 64%nat) by apply putn_length.
  destruct i as [|i].
  - replace (64 * 1)%nat with (length (putn 64 w) + 0)%nat by lia.
    rewrite skipn_app_2. reflexivity.
  - replace (64 * S i)%nat with (length (putn 64 w) + 64 * i)%nat by lia.
    replace (64 * S (S i))%nat with (length (putn 64 w) + 64 * S i)%nat by lia.
    rewrite !skipn_app_2. cbn [nth]. apply IH. cbn [length] in Hi. lia.
Qed.

Lemma seg_in_word ws i j m :
  (i < length ws)%nat -> (j + m <= 64)%nat ->
  seg ws (64 * i + j) m = firstn m (skipn j (putn 64 (nth i ws 0))).
Proof.
  intros Hi Hjm. unfold seg. rewrite <- skipn_skipn', skipn_words by exact Hi.
  rewrite skipn_app, putn_length. replace (j - 64)%nat with 0%nat by lia. cbn [skipn].
  rewrite firstn_app, skipn_length, putn_length. replace (m - (64 - j))%nat with 0%nat by lia.
  cbn [firstn]. apply app_nil_r.
Qed.

(* value of a field inside one word *)
Lemma shr_mod a s m : N.shiftr (a mod 2 ^ (s + m)) s = N.shiftr a s mod 2 ^ m.
Proof.
  apply N.bits_inj. intros k. rewrite N.shiftr_spec'.
  destruct (N.ltb_spec k m) as [H|H].
  - rewrite !N.mod_pow2_bits_low by lia. rewrite N.shiftr_spec'. reflexivity.
  - rewrite !N.mod_pow2_bits_high by lia. reflexivity.
Qed.

Lemma word_field_bits w (j m : nat) :
  (j + m <= 64)%nat ->
  firstn m (skipn j (putn 64 w)) = putn m (N.shiftr w (N.of_nat (64 - j - m))).
Proof.
  intros H. replace 64%nat with (j + (m + (64 - j - m)))%nat at 1 by lia.
  rewrite putn_app, (putn_app m).
  rewrite skipn_app, skipn_all2 by (rewrite putn_length; lia).
  rewrite putn_length, Nat.sub_diag. cbn [skipn app].
  rewrite firstn_app, firstn_all2 by (rewrite putn_length; lia).
  rewrite putn_length, Nat.sub_diag. cbn [firstn]. apply app_nil_r.
Qed.

Lemma word_field_val w (j m : N) :
  j + m <= 64 ->
  bits_val (firstn (N.to_nat m) (skipn (N.to_nat j) (putn 64 w)))
  = N.shiftr (N.land w (N.shiftr usize_max j)) (64 - (m + j)).
Proof.
  intros H. rewrite word_field_bits by lia. rewrite bits_val_putn.
  rewrite mask_shr by lia. rewrite N.land_ones.
  replace (64 - j) with ((64 - (m + j)) + m) by lia. rewrite shr_mod.
  rewrite N2Nat.id. do 2 f_equal. lia.
Qed.

Lemma bits_val_snoc_word (A : bits) (w rem : N) :
  w < 2 ^ 64 -> 64 <= rem ->
  N.lor (bits_val A * 2 ^ rem) (N.shiftl w (rem - 64))
  = bits_val (A ++ putn 64 w) * 2 ^ (rem - 64).
Proof.
  intros Hw Hr.
  rewrite N.shiftl_mul_pow2, lor_disjoint.
  - rewrite bits_val_app, putn_length, bits_val_putn.
    change (N.of_nat 64) with 64. rewrite N.mod_small by exact Hw.
    replace rem with (64 + (rem - 64)) at 1 by lia. rewrite N.pow_add_r.
    set (P := 2 ^ (rem - 64)). clearbody P. lia.
  - replace rem with (64 + (rem - 64)) at 2 by lia. rewrite N.pow_add_r.
    apply N.mul_lt_mono_pos_r; [apply pow2_pos | exact Hw].
Qed.

Lemma rd_word_lt ws i : words_ok ws -> rd_word ws i < 2 ^ 64.
Proof.
  intros H. unfold rd_word. generalize (N.to_nat i). intros k. revert k.
  induction H as [|x l Hx Hl IH]; intros k; destruct k; cbn [nth]; auto; reflexivity.
Qed.

Lemma rd_diff_loop_spec ws (p : nat) (n : N) : words_ok ws ->
  (p + N.to_nat n <= 64 * length ws)%nat ->
  forall fuel i rem res,
  (N.to_nat (rem / 64) <= fuel)%nat -> rem <= n ->
  (64 * (N.to_nat i + 1) + N.to_nat rem = p + N.to_nat n)%nat ->
  res = bits_val (seg ws p (N.to_nat (n - rem))) * 2 ^ rem ->
  let '(i2, rem2, res2) := rd_diff_loop fuel ws i rem res in
  rem2 < 64 /\ rem2 <= n /\
  (64 * (N.to_nat i2 + 1) + N.to_nat rem2 = p + N.to_nat n)%nat /\
  res2 = bits_val (seg ws p (N.to_nat (n - rem2))) * 2 ^ rem2.
Proof.
  intros Hok Hfit. induction fuel as [|f IH]; intros i rem res Hf Hrn Hpos Hres.
  - cbn [rd_diff_loop]. assert (rem < 64) by lia. repeat split; assumption.
  - cbn [rd_diff_loop]. unfold WORD_SIZE.
    destruct (N.leb_spec 64 rem) as [Hge|Hlt].
    + apply IH; try lia.
      rewrite Hres.
      pose proof (bits_val_snoc_word (seg ws p (N.to_nat (n - rem))) (rd_word ws (i + 1)) rem
                    (rd_word_lt ws (i + 1) Hok) Hge) as E.
      rewrite E. f_equal. f_equal.
      replace (N.to_nat (n - (rem - 64))) with (N.to_nat (n - rem) + 64)%nat by lia.
      rewrite seg_add. f_equal.
      replace (p + N.to_nat (n - rem))%nat with (64 * N.to_nat (i + 1) + 0)%nat by lia.
      rewrite seg_in_word by lia. cbn [skipn]. unfold rd_word.
      apply eq_sym, firstn_all2. rewrite putn_length. lia.
    + repeat split; assumption.
Qed.

Theorem rd_unchecked_read_diff_spec ws i j n :
  words_ok ws -> j <= 64 -> 64 * i + j + n <= 64 * Nlen ws ->
  let '(v, (i', j')) := rd_unchecked_read_diff ws i j n in
  get n (skipn (N.to_nat (64 * i + j)) (words_bits ws))
  = Ok (v, skipn (N.to_nat (64 * i + j + n)) (words_bits ws)) /\
  64 * i' + j' = 64 * i + j + n /\ j' <= 64.
Proof.
  intros Hok Hj Hfit. unfold rd_unchecked_read_diff.
  set (p := N.to_nat (64 * i + j)).
  assert (Hfit' : (p + N.to_nat n <= 64 * length ws)%nat) by (unfold p, Nlen in *; lia).
  assert (Hget : get n (skipn p (words_bits ws))
                 = Ok (bits_val (seg ws p (N.to_nat n)), skipn (N.to_nat (64 * i + j + n)) (words_bits ws))).
  { rewrite get_ok_firstn.
    - unfold seg. rewrite skipn_skipn'. do 3 f_equal. unfold p. lia.
    - rewrite skipn_length, words_bits_length. unfold p, Nlen in *. lia. }
  destruct (N.eqb_spec n 0) as [E|E].
  { subst n. rewrite Hget. cbn [N.to_nat]. unfold seg. cbn [firstn].
    split; [reflexivity|]. split; [lia | exact Hj]. }
  set (ij := rd_refresh i j).
  assert (Hij : 64 * fst ij + snd ij = 64 * i + j /\ snd ij < 64).
  { unfold ij, rd_refresh, WORD_SIZE. destruct (N.eqb_spec j 64); cbn [fst snd]; lia. }
  destruct ij as [i1 j1]. cbn [fst snd] in Hij. destruct Hij as [Hp1 Hj1].
  assert (Hp : p = (64 * N.to_nat i1 + N.to_nat j1)%nat) by (unfold p; lia).
  assert (Hi1 : (N.to_nat i1 < length ws)%nat) by (unfold Nlen in Hfit; lia).
  unfold WORD_SIZE. rewrite Hget.
  destruct (N.leb_spec (n + j1) 64) as [Hle|Hgt].
  - (* within the current word *)
    split; [|split; lia]. do 2 f_equal.
    rewrite Hp, seg_in_word by lia. unfold rd_word. apply word_field_val. lia.
  - (* spans words *)
    set (rem0 := n + j1 - 64).
    pose proof (rd_diff_loop_spec ws p n Hok Hfit'
                  (N.to_nat (rem0 / 64)) i1 rem0
                  (N.shiftl (N.land (rd_word ws i1) (N.shiftr usize_max j1)) rem0)
                  (le_n _) ltac:(unfold rem0; lia) ltac:(unfold rem0; lia)) as HL.
    assert (Hres0 : N.shiftl (N.land (rd_word ws i1) (N.shiftr usize_max j1)) rem0 =
                    bits_val (seg ws p (N.to_nat (n - rem0))) * 2 ^ rem0).
    { rewrite N.shiftl_mul_pow2. f_equal.
      rewrite Hp. replace (N.to_nat (n - rem0)) with (N.to_nat (64 - j1)) by (unfold rem0; lia).
      rewrite seg_in_word by lia. unfold rd_word.
      rewrite (word_field_val _ j1 (64 - j1)) by lia.
      replace (64 - (64 - j1 + j1)) with 0 by lia. rewrite N.shiftr_0_r. reflexivity. }
    specialize (HL Hres0).
    destruct (rd_diff_loop (N.to_nat (rem0 / 64)) ws i1 rem0 _) as [[i2 rem2] res2].
    destruct HL as (Hr2 & Hr2n & Hpos2 & Hres2).
    destruct (N.ltb_spec 0 rem2) as [Hpos|Hzero].
    + split; [|split; lia]. do 2 f_equal.
      replace (N.to_nat n) with (N.to_nat (n - rem2) + N.to_nat rem2)%nat by lia.
      rewrite seg_add, bits_val_app, Hres2.
      unfold seg at 2. rewrite firstn_length_le.
      2:{ rewrite skipn_length, words_bits_length. lia. }
      rewrite N2Nat.id.
      replace (p + N.to_nat (n - rem2))%nat with (64 * N.to_nat (i2 + 1) + 0)%nat by lia.
      rewrite seg_in_word by lia.
      rewrite (word_field_bits _ 0 (N.to_nat rem2)) by lia. rewrite bits_val_putn.
      rewrite N2Nat.id.
      assert (Hsh : N.shiftr (rd_word ws (i2 + 1)) (64 - rem2) < 2 ^ rem2).
      { rewrite N.shiftr_div_pow2. apply N.div_lt_upper_bound; [apply pow2_nz|].
        rewrite <- N.pow_add_r. replace (64 - rem2 + rem2) with 64 by lia.
        apply rd_word_lt. exact Hok. }
      rewrite lor_disjoint by exact Hsh.
      replace (N.of_nat (64 - 0 - N.to_nat rem2)) with (64 - rem2) by lia.
      unfold rd_word in *. rewrite N.mod_small by exact Hsh. reflexivity.
    + assert (rem2 = 0) by lia. subst rem2.
      split; [|split; lia]. do 2 f_equal.
      rewrite Hres2, N.sub_0_r. change (2 ^ 0) with 1. lia.
Qed.

(* ================= D. CompressionTable ================= *)
(* sorted by upper, nonempty pairwise disjoint ranges (as trained tables are) *)
Fixpoint ct_valid (ps : list prefix) : Prop :=
  match ps with
  | [] => True
  | p :: t =>
    p_lower p <= p_upper p /\
    Forall (fun q => p_upper p <= p_upper q /\
                     forall u, contains p u = true -> contains q u = true -> False) t /\
    ct_valid t
  end.

(* equivalent separated form *)
Fixpoint ct_sep (ps : list prefix) : Prop :=
  match ps with
  | [] => True
  | p :: t => p_lower p <= p_upper p /\ Forall (fun q => p_upper p < p_lower q) t /\ ct_sep t
  end.

Lemma contains_iff p u : contains p u = true <-> p_lower p <= u <= p_upper p.
Proof. unfold contains. rewrite andb_true_iff, !N.leb_le. tauto. Qed.

Lemma ct_valid_sep ps : ct_valid ps -> ct_sep ps.
Proof.
  induction ps as [|p t IH]; [trivial|]. cbn [ct_valid ct_sep].
  intros (Hp & Hall & Ht). split; [exact Hp|]. split; [|apply IH; exact Ht].
  clear IH. induction Hall as [|q l (Hq1 & Hq2) Hl IHl]; [constructor|].
  cbn [ct_valid] in Ht. destruct Ht as (Hq & _ & Ht').
  constructor; [|apply IHl; exact Ht'].
  destruct (N.lt_ge_cases (p_upper p) (p_lower q)) as [H|H]; [exact H|].
  exfalso. apply (Hq2 (p_upper p)); apply contains_iff; lia.
Qed.

Definition ct_pos (ps : list prefix) : Prop := Forall (fun p => 0 < p_count p) ps.

Lemma ct_sep_app a b :
  ct_sep (a ++ b) <->
  ct_sep a /\ ct_sep b /\ Forall (fun p => Forall (fun q => p_upper p < p_lower q) b) a.
Proof.
  induction a as [|p a IH]; cbn [app ct_sep].
  - split; [intros H; repeat split; [exact H | constructor] | tauto].
  - rewrite IH, Forall_app. split.
    + intros (H1 & (H2 & H3) & H4 & H5 & H6). repeat split; try assumption. constructor; assumption.
    + intros ((H1 & H2 & H3) & H4 & H5). inversion H5; subst. repeat split; assumption.
Qed.

Lemma find_app {A} (f : A -> bool) a b :
  find f (a ++ b) = match find f a with Some x => Some x | None => find f b end.
Proof. induction a as [|x a IH]; [reflexivity|]. cbn [app find]. destruct (f x); auto. Qed.

Lemma find_none_all {A} (f : A -> bool) l : Forall (fun x => f x = false) l -> find f l = None.
Proof. induction 1 as [|x l Hx Hl IH]; [reflexivity|]. cbn [find]. rewrite Hx. exact IH. Qed.

(* in a separated list every upper is at most the last upper *)
Lemma ct_sep_upper_last : forall ps d, ct_sep ps ->
  Forall (fun p => p_upper p <= p_upper (last ps d)) ps.
Proof.
  induction ps as [|p t IH]; intros d H; [constructor|].
  cbn [ct_sep] in H. destruct H as (Hp & Hall & Ht).
  destruct t as [|q t']; [constructor; [cbn; lia | constructor]|].
  specialize (IH d Ht). change (last (p :: q :: t') d) with (last (q :: t') d).
  constructor; [|exact IH].
  inversion Hall as [|? ? Hq Hall']; subst. inversion IH as [|? ? Hq' _]; subst.
  cbn [ct_sep] in Ht. lia.
Qed.

Lemma ct_take_spec target : forall rest cum taken rest' cum',
  ct_take target cum rest = (taken, rest', cum') ->
  rest = taken ++ rest' /\ cum' = cum + sum_counts taken.
Proof.
  induction rest as [|p r IH]; intros cum taken rest' cum' H; cbn [ct_take] in H.
  - inversion H; subst. cbn. split; [reflexivity | lia].
  - destruct ((cum <? target) && (p_count p <? 2 * target - cum)).
    + destruct (ct_take target (cum + p_count p) r) as [[t r'] c] eqn:E.
      inversion H; subst. destruct (IH _ _ _ _ E) as [H1 H2]. subst.
      cbn [app sum_counts fold_right]. split; [reflexivity|]. unfold sum_counts. lia.
    + inversion H; subst. cbn. split; [reflexivity | lia].
Qed.

Lemma sum_counts_app a b : sum_counts (a ++ b) = sum_counts a + sum_counts b.
Proof.
  induction a as [|p a IH]; [reflexivity|]. cbn [app]. unfold sum_counts in *. cbn [fold_right].
  rewrite IH. lia.
Qed.

Lemma ct_take_all total : forall rest cum,
  ct_pos rest -> cum + sum_counts rest = total ->
  ct_take total cum rest = (rest, [], total).
Proof.
  induction rest as [|p r IH]; intros cum Hpos Hsum.
  - cbn in *. f_equal. lia.
  - pose proof (Forall_inv Hpos) as Hp. pose proof (Forall_inv_tail Hpos) as Hr. cbv beta in Hp.
    unfold sum_counts in Hsum. cbn [fold_right] in Hsum.
    fold (sum_counts r) in Hsum. cbn [ct_take].
    destruct (N.ltb_spec cum total) as [_|?]; [|lia].
    destruct (N.ltb_spec (p_count p) (2 * total - cum)) as [_|?]; [|lia].
    cbn [andb]. rewrite (IH (cum + p_count p) Hr) by lia. reflexivity.
Qed.

Definition ct_scan (u : N) :=
  fix scan (l : list (N * ctable)) : option prefix :=
    match l with
    | [] => None
    | (upper, c) :: r => if u <=? upper then ct_search_tree c u else scan r
    end.

Lemma ct_search_node items u : ct_search_tree (CNode items) u = ct_scan u items.
Proof. reflexivity. Qed.

Lemma ct_pos_app a b : ct_pos (a ++ b) <-> ct_pos a /\ ct_pos b.
Proof. apply Forall_app. Qed.

Lemma ct_children_spec (rec : list prefix -> option ctable) total :
  (forall l t, ct_sep l -> ct_pos l -> l <> [] -> rec l = Some t ->
               forall u, ct_search_tree t u = find_prefix l u) ->
  forall cnt i cum rest items,
  N.of_nat cnt + i = 16 -> cum + sum_counts rest = total ->
  ct_sep rest -> ct_pos rest -> ((0 < cnt)%nat \/ rest = []) ->
  ct_children rec cnt i total cum rest = Some items ->
  forall u, ct_scan u items = find_prefix rest u.
Proof.
  intros Hrec. induction cnt as [|c IH]; intros i cum rest items Hi Hsum Hsep Hpos Hc H u.
  - destruct Hc as [?|E]; [lia|]. subst rest. cbn in H. inversion H; subst. reflexivity.
  - cbn [ct_children] in H. unfold TARGET_BRANCHING_FACTOR in H.
    destruct (ct_take (total * (i + 1) / 16) cum rest) as [[taken rest'] cum'] eqn:ET.
    destruct (ct_take_spec _ _ _ _ _ _ ET) as [Erest Ecum].
    assert (Hc' : (0 < c)%nat \/ rest' = []).
    { destruct c as [|c']; [right | left; lia].
      assert (i = 15) by lia. subst i.
      replace (total * (15 + 1) / 16) with total in ET by lia.
      rewrite (ct_take_all total rest cum Hpos Hsum) in ET. inversion ET; reflexivity. }
    subst rest. apply ct_sep_app in Hsep. destruct Hsep as (Hs1 & Hs2 & Hs12).
    apply ct_pos_app in Hpos. destruct Hpos as [Hp1 Hp2].
    rewrite sum_counts_app in Hsum.
    assert (IH' : forall items', ct_children rec c (i + 1) total cum' rest' = Some items' ->
                                 ct_scan u items' = find_prefix rest' u).
    { intros items' H'. apply (IH (i + 1) cum' rest' items'); try assumption; lia. }
    destruct taken as [|p0 tk].
    + cbn [app]. apply IH'. exact H.
    + destruct (rec (p0 :: tk)) as [child|] eqn:ER; [|discriminate].
      destruct (ct_children rec c (i + 1) total cum' rest') as [others|] eqn:EC; [|discriminate].
      inversion H; subst items. clear H.
      specialize (Hrec _ _ Hs1 Hp1 ltac:(discriminate) ER u).
      specialize (IH' _ eq_refl).
      cbn [ct_scan]. fold (ct_scan u). rewrite Hrec, IH'.
      change (match tk with [] => p0 | _ :: _ => last tk p0 end) with (last (p0 :: tk) p0).
      unfold find_prefix. rewrite find_app. fold (find_prefix (p0 :: tk) u).
      pose proof (ct_sep_upper_last (p0 :: tk) p0 Hs1) as Hup.
      set (up := p_upper (last (p0 :: tk) p0)) in *.
      destruct (N.leb_spec u up) as [Hle|Hgt].
      * destruct (find_prefix (p0 :: tk) u) eqn:EF; [reflexivity|].
        symmetry. apply find_none_all.
        assert (Hlast : In (last (p0 :: tk) p0) (p0 :: tk)).
        { destruct (@exists_last _ (p0 :: tk) ltac:(discriminate)) as (l' & a & E).
          rewrite E, last_last. apply in_or_app. right. left. reflexivity. }
        rewrite Forall_forall in Hs12. specialize (Hs12 _ Hlast). fold up in Hs12.
        rewrite Forall_forall in Hs12 |- *. intros q Hq. specialize (Hs12 q Hq).
        destruct (contains q u) eqn:Cq; [|reflexivity].
        apply contains_iff in Cq. lia.
      * assert (EF : find_prefix (p0 :: tk) u = None).
        { apply find_none_all. rewrite Forall_forall in Hup |- *. intros q Hq.
          specialize (Hup q Hq). destruct (contains q u) eqn:Cq; [|reflexivity].
          apply contains_iff in Cq. lia. }
        rewrite EF. reflexivity.
Qed.

Theorem ct_from_sorted_search umax : forall fuel ps t,
  ct_sep ps -> ct_pos ps -> ps <> [] ->
  ct_from_sorted fuel umax ps = Some t ->
  forall u, ct_search_tree t u = find_prefix ps u.
Proof.
  induction fuel as [|f IH]; intros ps t Hsep Hpos Hne H u; [discriminate|].
  cbn [ct_from_sorted] in H.
  destruct ps as [|p [|q r]]; [congruence| |].
  - inversion H; subst. cbn [ct_search_tree find_prefix find]. reflexivity.
  - destruct (ct_children (ct_from_sorted f umax) (N.to_nat TARGET_BRANCHING_FACTOR) 0
                (sum_counts (p :: q :: r)) 0 (p :: q :: r)) as [items|] eqn:EC; [|discriminate].
    inversion H; subst. rewrite ct_search_node.
    apply (ct_children_spec (ct_from_sorted f umax) (sum_counts (p :: q :: r)) (IH)
             16%nat 0 0 (p :: q :: r) items); try assumption; try lia.
Qed.

(* main statement: the tree search is the linear first-match search (in particular it is
   None = "not trained to include number" exactly when no prefix contains u) *)
Theorem ct_search_find_prefix umax ps u :
  ct_valid ps -> ct_pos ps -> ps <> [] ->
  ct_from_sorted (S (length ps)) umax ps <> None ->
  ct_search umax ps u = find_prefix ps u.
Proof.
  intros Hv Hp Hne Hterm. unfold ct_search.
  destruct (ct_from_sorted (S (length ps)) umax ps) as [t|] eqn:E; [|congruence].
  apply (ct_from_sorted_search umax _ ps t (ct_valid_sep ps Hv) Hp Hne E).
Qed.

(* the empty table is Leaf(PrefixCompressionInfo::default()), which contains every u <= U::MAX *)
Lemma ct_search_empty umax u :
  ct_search umax [] u = if u <=? umax then Some (ct_default_prefix umax) else None.
Proof. destruct u; reflexivity. Qed.

(* ---- from_sorted terminates on tables with positive counts: every child slice is
        strictly shorter than its parent, so fuel = length + 1 suffices ---- *)
Lemma ct_take_full t : forall rest cum c',
  rest <> [] -> ct_take t cum rest = (rest, [], c') ->
  cum + sum_counts rest < 2 * t /\ cum < t.
Proof.
  induction rest as [|p r IH]; intros cum c' Hne H; [congruence|].
  cbn [ct_take] in H.
  destruct (N.ltb_spec cum t) as [H1|H1]; cbn [andb] in H.
  2:{ exfalso. inversion H. }
  destruct (N.ltb_spec (p_count p) (2 * t - cum)) as [H2|H2].
  2:{ exfalso. inversion H. }
  destruct (ct_take t (cum + p_count p) r) as [[tk r'] c] eqn:E.
  inversion H; subst. split; [|exact H1].
  unfold sum_counts. cbn [fold_right]. fold (sum_counts r).
  destruct r as [|q r].
  - change (sum_counts []) with 0. lia.
  - destruct (IH (cum + p_count p) c' ltac:(discriminate) E) as [H3 _]. lia.
Qed.

Lemma ct_take_cons target cum p r :
  ct_take target cum (p :: r) =
  if (cum <? target) && (p_count p <? 2 * target - cum) then
    let '(t, r', c) := ct_take target (cum + p_count p) r in (p :: t, r', c)
  else ([], p :: r, cum).
Proof. reflexivity. Qed.

Lemma ct_take_second t p0 p1 r c' :
  ct_take t 0 (p0 :: p1 :: r) = (p0 :: p1 :: r, [], c') -> p_count p0 < t.
Proof.
  intros H. rewrite ct_take_cons in H.
  destruct ((0 <? t) && (p_count p0 <? 2 * t - 0)); [|inversion H].
  destruct (ct_take t (0 + p_count p0) (p1 :: r)) as [[tk r'] c] eqn:E.
  inversion H; subst.
  destruct (ct_take_full t (p1 :: r) (0 + p_count p0) c' ltac:(discriminate) E) as [_ H2]. lia.
Qed.

Lemma ct_take_nil_head t cum p r rest' c' :
  ct_take t cum (p :: r) = ([], rest', c') -> t <= cum \/ 2 * t - cum <= p_count p.
Proof.
  intros H. cbn [ct_take] in H.
  destruct (N.ltb_spec cum t) as [H1|H1]; [|left; exact H1].
  destruct (N.ltb_spec (p_count p) (2 * t - cum)) as [H2|H2]; [|right; exact H2].
  cbn [andb] in H. destruct (ct_take t (cum + p_count p) r) as [[tk r'] c]. inversion H.
Qed.

(* the arithmetic core: one step of the 16-way split cannot swallow a whole slice of >= 2 *)
Lemma ct_no_full_take total c0 c1 i :
  i <= 15 -> 0 < c0 -> 0 < c1 -> c0 + c1 <= total ->
  2 * (total * i / 16) <= c0 ->
  total < 2 * (total * (i + 1) / 16) -> c0 < total * (i + 1) / 16 -> False.
Proof.
  intros Hi H0 H1 Ht Hprev Hfull Hsec.
  assert (Hcases : i = 0 \/ i = 1 \/ i = 2 \/ i = 3 \/ i = 4 \/ i = 5 \/ i = 6 \/ i = 7 \/
                   i = 8 \/ i = 9 \/ i = 10 \/ i = 11 \/ i = 12 \/ i = 13 \/ i = 14 \/ i = 15) by lia.
  repeat (destruct Hcases as [E|Hcases]; [subst i; lia|]). subst i. lia.
Qed.

Lemma ct_children_total (rec : list prefix -> option ctable) p0 p1 r :
  let ps := p0 :: p1 :: r in
  let total := sum_counts ps in
  ct_pos ps ->
  (forall l, (length l < length ps)%nat -> ct_pos l -> rec l <> None) ->
  forall cnt i cum rest,
  N.of_nat cnt + i = 16 -> ct_pos rest ->
  ((length rest < length ps)%nat \/
   (rest = ps /\ cum = 0 /\ 2 * (total * i / 16) <= p_count p0)) ->
  ct_children rec cnt i total cum rest <> None.
Proof.
  intros ps total Hpos Hrec.
  assert (Hc0 : 0 < p_count p0) by (apply (Forall_inv Hpos)).
  assert (Hc1 : 0 < p_count p1) by (apply (Forall_inv (Forall_inv_tail Hpos))).
  assert (Htot : p_count p0 + p_count p1 <= total).
  { unfold total, ps, sum_counts. cbn [fold_right]. lia. }
  induction cnt as [|c IH]; intros i cum rest Hi Hp Hst; cbn [ct_children]; [discriminate|].
  unfold TARGET_BRANCHING_FACTOR.
  destruct (ct_take (total * (i + 1) / 16) cum rest) as [[taken rest'] cum'] eqn:ET.
  destruct (ct_take_spec _ _ _ _ _ _ ET) as [Erest Ecum].
  assert (Hp' : ct_pos taken /\ ct_pos rest').
  { apply ct_pos_app. rewrite <- Erest. exact Hp. }
  destruct Hp' as [Hpt Hpr].
  assert (Hlen : length rest = (length taken + length rest')%nat).
  { rewrite Erest, app_length. reflexivity. }
  destruct taken as [|q tk].
  - (* nothing taken at this step *)
    apply IH; [lia | exact Hpr|].
    destruct Hst as [Hst|(E1 & E2 & E3)]; [left; cbn [length] in Hlen; lia|].
    right. cbn [app] in Erest. subst rest'. split; [exact E1|]. subst cum rest.
    split; [cbn in Ecum; cbn; lia|].
    replace (i + 1 - 0) with (i + 1) by lia.
    destruct (ct_take_nil_head _ _ _ _ _ _ ET) as [H|H]; lia.
  - assert (Hshort : (length (q :: tk) < length ps)%nat).
    { destruct Hst as [Hst|(E1 & E2 & E3)]; [lia|].
      subst rest cum.
      destruct rest' as [|x rest'']; [|rewrite Hlen; cbn [length]; lia].
      exfalso. rewrite app_nil_r in Erest. rewrite <- Erest in ET.
      destruct (ct_take_full _ ps 0 cum' ltac:(discriminate) ET) as [F1 _].
      pose proof (ct_take_second _ _ _ _ _ ET) as F2.
      apply (ct_no_full_take total (p_count p0) (p_count p1) i); try assumption; try lia. }
    destruct (rec (q :: tk)) as [child|] eqn:ER; [|exfalso; exact (Hrec _ Hshort Hpt ER)].
    assert (Hnext : ct_children rec c (i + 1) total cum' rest' <> None).
    { apply IH; [lia | exact Hpr|]. left.
      destruct Hst as [Hst|(E1 & _)]; [cbn [length] in Hlen |- *; lia|].
      rewrite <- E1, Hlen. cbn [length]. lia. }
    destruct (ct_children rec c (i + 1) total cum' rest'); [discriminate | congruence].
Qed.

Theorem ct_from_sorted_total umax : forall fuel ps,
  ct_pos ps -> (length ps < fuel)%nat -> ct_from_sorted fuel umax ps <> None.
Proof.
  induction fuel as [|f IH]; intros ps Hpos Hf; [lia|].
  cbn [ct_from_sorted]. destruct ps as [|p0 [|p1 r]]; [discriminate | discriminate|].
  pose proof (ct_children_total (ct_from_sorted f umax) p0 p1 r Hpos) as H. cbv zeta in H.
  specialize (H ltac:(intros l Hl Hp; apply IH; [exact Hp | lia])
                16%nat 0 0 (p0 :: p1 :: r) eq_refl Hpos).
  change (N.to_nat TARGET_BRANCHING_FACTOR) with 16%nat.
  destruct (ct_children (ct_from_sorted f umax) 16 0 (sum_counts (p0 :: p1 :: r)) 0 (p0 :: p1 :: r));
    [discriminate|].
  exfalso. apply H; [|reflexivity]. right. split; [reflexivity|]. split; [reflexivity|].
  rewrite N.mul_0_r. cbn. lia.
Qed.

(* D, closed form: for a trained table (sorted by upper, nonempty pairwise disjoint ranges,
   positive counts) the 16-ary tree search IS the linear first-match search; in particular
   it fails (None = Err "not trained to include number") exactly when no prefix contains u *)
Theorem ct_search_correct umax ps u :
  ct_valid ps -> ct_pos ps -> ps <> [] ->
  ct_search umax ps u = find_prefix ps u.
Proof.
  intros Hv Hp Hne. apply ct_search_find_prefix; try assumption.
  apply ct_from_sorted_total; [exact Hp | lia].
Qed.

Corollary ct_search_some umax ps u p :
  ct_valid ps -> ct_pos ps -> In p ps -> contains p u = true ->
  exists q, ct_search umax ps u = Some q /\ find_prefix ps u = Some q /\ contains q u = true.
Proof.
  intros Hv Hp Hin Hc.
  assert (Hne : ps <> []) by (intros E; subst; contradiction).
  rewrite (ct_search_correct umax ps u Hv Hp Hne). unfold find_prefix.
  destruct (find (fun p => contains p u) ps) as [q|] eqn:E.
  - exists q. split; [reflexivity|]. split; [reflexivity|]. apply (find_some _ _ E).
  - exfalso. pose proof (find_none _ _ E p Hin) as H. cbv beta in H. congruence.
Qed.

Corollary ct_search_none umax ps u :
  ct_valid ps -> ct_pos ps -> ps <> [] ->
  (forall p, In p ps -> contains p u = false) -> ct_search umax ps u = None.
Proof.
  intros Hv Hp Hne Hall. rewrite (ct_search_correct umax ps u Hv Hp Hne).
  apply find_none_all. apply Forall_forall. exact Hall.
Qed.

(* from_sorted of a table with zero counts need not terminate: counts [0;1] put the whole
   slice into a single child forever (the model runs out of any fuel) *)
Definition t_zero_count_tbl : list prefix := [mkPrefix 0 0 1 [] None 1; mkPrefix 1 2 3 [] None 1].
Lemma t_zero_count_children rec :
  rec t_zero_count_tbl = None -> ct_children rec 16 0 1 0 t_zero_count_tbl = None.
Proof. intros H. vm_compute. vm_compute in H. rewrite H. reflexivity. Qed.
Example t_ct_zero_counts_diverge : forall fuel, ct_from_sorted fuel 1000 t_zero_count_tbl = None.
Proof.
  induction fuel as [|f IH]; [reflexivity|].
  change (ct_from_sorted (S f) 1000 t_zero_count_tbl) with
    (match ct_children (ct_from_sorted f 1000) 16 0 1 0 t_zero_count_tbl with
     | Some items => Some (CNode items) | None => None end).
  rewrite (t_zero_count_children _ IH). reflexivity.
Qed.

(* ================= C (continued): typed, checked and bit-wise reads ================= *)
Lemma get_value_lt n s v r : get n s = Ok (v, r) -> v < 2 ^ n.
Proof.
  intros H. destruct (Nat.le_gt_cases (N.to_nat n) (length s)) as [Hl|Hl].
  - rewrite get_ok_firstn in H by exact Hl. inversion H; subst.
    pose proof (bits_val_lt (firstn (N.to_nat n) s)) as Hlt.
    rewrite firstn_length_le, N2Nat.id in Hlt by exact Hl. exact Hlt.
  - rewrite get_short in H by lia. discriminate.
Qed.

Lemma mod_lor a b k : N.lor a b mod 2 ^ k = N.lor (a mod 2 ^ k) (b mod 2 ^ k).
Proof. rewrite <- !N.land_ones. apply N.land_lor_distr_l. Qed.

Lemma shiftl_mod_mod a s k : N.shiftl (a mod 2 ^ k) s mod 2 ^ k = N.shiftl a s mod 2 ^ k.
Proof.
  apply N.bits_inj. intros m. destruct (N.ltb_spec m k) as [Hm|Hm].
  - rewrite !N.mod_pow2_bits_low by exact Hm.
    destruct (N.ltb_spec m s) as [Hs|Hs].
    + rewrite !N.shiftl_spec_low by exact Hs. reflexivity.
    + rewrite !N.shiftl_spec_high' by exact Hs. apply N.mod_pow2_bits_low. lia.
  - rewrite !N.mod_pow2_bits_high by exact Hm. reflexivity.
Qed.

Lemma rd_diff_loop_u_eq ub ws : forall fuel i rem res,
  rd_diff_loop_u ub fuel ws i rem (res mod 2 ^ ub)
  = let '(i2, rem2, res2) := rd_diff_loop fuel ws i rem res in (i2, rem2, res2 mod 2 ^ ub).
Proof.
  induction fuel as [|f IH]; intros i rem res; [reflexivity|].
  cbn [rd_diff_loop rd_diff_loop_u]. destruct (WORD_SIZE <=? rem); [|reflexivity].
  cbv zeta. rewrite <- IH. f_equal. unfold trunc_u.
  rewrite mod_lor, shiftl_mod_mod. reflexivity.
Qed.

(* the U-typed read (U::BITS = ub) is the unbounded one reduced mod 2^ub ... *)
Theorem rd_unchecked_read_diff_u_eq ub ws i j n :
  rd_unchecked_read_diff_u ub ws i j n
  = let '(v, st) := rd_unchecked_read_diff ws i j n in (v mod 2 ^ ub, st).
Proof.
  unfold rd_unchecked_read_diff_u, rd_unchecked_read_diff.
  destruct (n =? 0). { rewrite N.mod_0_l by apply pow2_nz. reflexivity. }
  destruct (rd_refresh i j) as [i1 j1].
  destruct (n + j1 <=? WORD_SIZE); [reflexivity|].
  unfold trunc_u at 1 2. rewrite shiftl_mod_mod, rd_diff_loop_u_eq.
  destruct (rd_diff_loop _ ws i1 _ _) as [[i2 rem2] res2].
  destruct (0 <? rem2); [|reflexivity].
  unfold trunc_u. rewrite mod_lor. reflexivity.
Qed.

(* ... hence exact whenever n <= U::BITS *)
Theorem rd_unchecked_read_diff_u_spec ub ws i j n :
  words_ok ws -> j <= 64 -> 64 * i + j + n <= 64 * Nlen ws -> n <= ub ->
  rd_unchecked_read_diff_u ub ws i j n = rd_unchecked_read_diff ws i j n.
Proof.
  intros Hok Hj Hfit Hn. rewrite rd_unchecked_read_diff_u_eq.
  pose proof (rd_unchecked_read_diff_spec ws i j n Hok Hj Hfit) as H.
  destruct (rd_unchecked_read_diff ws i j n) as [v [i' j']]. destruct H as (Hg & _).
  apply get_value_lt in Hg. rewrite N.mod_small; [reflexivity|].
  apply N.lt_le_trans with (2 ^ n); [exact Hg|]. apply N.pow_le_mono_r; lia.
Qed.

(* the abstract stream of a reader: the first total_bits bits, from the position on *)
Definition rd_stream (ws : list N) (tb p : N) : bits := skipn (N.to_nat p) (bw_bits ws tb).

Lemma rd_stream_length ws tb p :
  tb <= 64 * Nlen ws -> length (rd_stream ws tb p) = N.to_nat (tb - p).
Proof.
  intros H. unfold rd_stream, bw_bits. rewrite skipn_length, firstn_length_le.
  - lia.
  - rewrite words_bits_length. unfold Nlen in H. lia.
Qed.

Lemma rd_stream_firstn ws tb p m :
  p + m <= tb ->
  firstn (N.to_nat m) (rd_stream ws tb p) = seg ws (N.to_nat p) (N.to_nat m).
Proof.
  intros H. unfold rd_stream, bw_bits, seg.
  rewrite skipn_firstn_comm, firstn_firstn. f_equal. lia.
Qed.

Lemma rd_stream_skipn ws tb p m :
  skipn (N.to_nat m) (rd_stream ws tb p) = rd_stream ws tb (p + m).
Proof. unfold rd_stream. rewrite skipn_skipn'. f_equal. lia. Qed.

(* read_diff (checked) against Base.get on the abstract stream *)
Theorem rd_read_diff_spec ws tb i j n :
  words_ok ws -> j <= 64 -> tb <= 64 * Nlen ws -> 64 * i + j <= tb ->
  match rd_read_diff ws i j tb n with
  | Ok (v, (i', j')) =>
      get n (rd_stream ws tb (64 * i + j)) = Ok (v, rd_stream ws tb (64 * i + j + n)) /\
      64 * i' + j' = 64 * i + j + n /\ j' <= 64
  | Err k => get n (rd_stream ws tb (64 * i + j)) = Err k
  | Panic => False
  end.
Proof.
  intros Hok Hj Htb Hp. unfold rd_read_diff, rd_insufficient, rd_bit_idx, WORD_SIZE.
  destruct (N.ltb_spec tb (64 * i + j + n)) as [Hlt|Hge].
  - apply get_short. rewrite rd_stream_length by exact Htb. lia.
  - pose proof (rd_unchecked_read_diff_spec ws i j n Hok Hj ltac:(lia)) as H.
    destruct (rd_unchecked_read_diff ws i j n) as [v [i' j']].
    destruct H as (Hg & Hpos & Hj'). split; [|split; assumption].
    rewrite get_ok_firstn by (rewrite rd_stream_length by exact Htb; lia).
    rewrite rd_stream_firstn by exact Hge. rewrite rd_stream_skipn.
    rewrite get_ok_firstn in Hg by (rewrite skipn_length, words_bits_length; unfold Nlen in *; lia).
    inversion Hg as [[Hv Hs]]. reflexivity.
Qed.

(* single bits *)
Lemma bit_from_word_spec w j : j < 64 -> bit_from_word w j = N.testbit w (63 - j).
Proof.
  intros H. unfold bit_from_word. rewrite base_mask_shr by lia. rewrite land_single_bit.
  destruct (N.testbit w (63 - j)); [|reflexivity].
  rewrite N.shiftl_1_l. apply N.ltb_lt. apply pow2_pos.
Qed.

Lemma seg_one ws i j :
  (N.to_nat i < length ws)%nat -> j < 64 ->
  seg ws (N.to_nat (64 * i + j)) 1 = [bit_from_word (rd_word ws i) j].
Proof.
  intros Hi Hj. replace (N.to_nat (64 * i + j)) with (64 * N.to_nat i + N.to_nat j)%nat by lia.
  rewrite seg_in_word by lia. rewrite word_field_bits by lia.
  cbn [putn]. rewrite bit_from_word_spec by exact Hj. unfold rd_word.
  rewrite N.shiftr_spec'. do 2 f_equal. lia.
Qed.

Lemma rd_refresh_spec i j :
  j <= 64 ->
  let '(i1, j1) := rd_refresh i j in 64 * i1 + j1 = 64 * i + j /\ j1 < 64.
Proof.
  intros H. unfold rd_refresh, WORD_SIZE. destruct (N.eqb_spec j 64); lia.
Qed.

Lemma rd_read_loop_spec ws : forall cnt i j,
  j <= 64 -> (N.to_nat (64 * i + j) + cnt <= 64 * length ws)%nat ->
  let '(l, (i', j')) := rd_read_loop cnt ws i j in
  l = seg ws (N.to_nat (64 * i + j)) cnt /\
  64 * i' + j' = 64 * i + j + N.of_nat cnt /\ j' <= 64.
Proof.
  induction cnt as [|c IH]; intros i j Hj Hfit; cbn [rd_read_loop].
  - split; [reflexivity | split; lia].
  - pose proof (rd_refresh_spec i j Hj) as Hr. destruct (rd_refresh i j) as [i1 j1].
    destruct Hr as [Hp Hj1].
    specialize (IH i1 (j1 + 1) ltac:(lia) ltac:(lia)).
    destruct (rd_read_loop c ws i1 (j1 + 1)) as [l [i' j']]. destruct IH as (Hl & Hpos & Hj').
    split; [|split; lia].
    change (S c) with (1 + c)%nat. rewrite seg_add, <- Hp, seg_one by lia.
    cbn [app]. f_equal. rewrite Hl. f_equal. lia.
Qed.

Theorem rd_read_one_spec ws tb i j :
  words_ok ws -> j <= 64 -> tb <= 64 * Nlen ws -> 64 * i + j <= tb ->
  match rd_read_one ws i j tb with
  | Ok (b, (i', j')) =>
      get1 (rd_stream ws tb (64 * i + j)) = Ok (b, rd_stream ws tb (64 * i + j + 1)) /\
      64 * i' + j' = 64 * i + j + 1 /\ j' <= 64
  | Err k => get1 (rd_stream ws tb (64 * i + j)) = Err k
  | Panic => False
  end.
Proof.
  intros Hok Hj Htb Hp. unfold rd_read_one, rd_insufficient, rd_bit_idx, WORD_SIZE.
  destruct (N.ltb_spec tb (64 * i + j + 1)) as [Hlt|Hge].
  - pose proof (rd_stream_length ws tb (64 * i + j) Htb) as Hl.
    destruct (rd_stream ws tb (64 * i + j)); [reflexivity | cbn [length] in Hl; lia].
  - pose proof (rd_refresh_spec i j Hj) as Hr. destruct (rd_refresh i j) as [i1 j1].
    destruct Hr as [Hp1 Hj1]. split; [|split; lia].
    pose proof (rd_stream_firstn ws tb (64 * i + j) 1 Hge) as Hf.
    pose proof (rd_stream_skipn ws tb (64 * i + j) 1) as Hs.
    rewrite <- Hp1 in Hf at 2. rewrite seg_one in Hf by (unfold Nlen in *; lia).
    destruct (rd_stream ws tb (64 * i + j)) as [|b t]; [discriminate|].
    change (N.to_nat 1) with 1%nat in Hf, Hs. cbn [firstn skipn] in Hf, Hs.
    inversion Hf; subst. reflexivity.
Qed.

Lemma get_bits_firstn n s :
  (N.to_nat n <= length s)%nat ->
  get_bits n s = Ok (firstn (N.to_nat n) s, skipn (N.to_nat n) s).
Proof.
  intros H. rewrite <- (firstn_skipn (N.to_nat n) s) at 1. apply get_bits_app.
  unfold Nlen. rewrite firstn_length_le by exact H. lia.
Qed.

Lemma take_bits_short : forall n s, (length s < n)%nat -> take_bits n s = None.
Proof.
  induction n as [|n IH]; intros s H; [lia|].
  destruct s as [|b t]; [reflexivity|]. cbn [take_bits]. rewrite IH; [reflexivity|].
  cbn [length] in H. lia.
Qed.

(* read(n): agrees with get_bits, except for the out-of-bounds index at i = words.len() *)
Theorem rd_read_spec ws tb i j n :
  words_ok ws -> j <= 64 -> tb <= 64 * Nlen ws -> 64 * i + j <= tb ->
  match rd_read ws i j tb n with
  | Ok (l, (i', j')) =>
      get_bits n (rd_stream ws tb (64 * i + j)) = Ok (l, rd_stream ws tb (64 * i + j + n)) /\
      64 * i' + j' = 64 * i + j + n /\ j' <= 64
  | Err k => get_bits n (rd_stream ws tb (64 * i + j)) = Err k
  | Panic => n = 0 /\ i = Nlen ws /\ j = 0 /\ tb = 64 * Nlen ws
  end.
Proof.
  intros Hok Hj Htb Hp. unfold rd_read, rd_insufficient, rd_bit_idx, WORD_SIZE.
  destruct (N.ltb_spec tb (64 * i + j + n)) as [Hlt|Hge].
  - unfold get_bits. rewrite take_bits_short; [reflexivity|].
    rewrite rd_stream_length by exact Htb. lia.
  - destruct (N.leb_spec (Nlen ws) i) as [Hi|Hi]; [lia|].
    pose proof (rd_read_loop_spec ws (N.to_nat n) i j Hj ltac:(unfold Nlen in *; lia)) as H.
    destruct (rd_read_loop (N.to_nat n) ws i j) as [l [i' j']].
    destruct H as (Hl & Hpos & Hj'). split; [|split; lia].
    rewrite get_bits_firstn by (rewrite rd_stream_length by exact Htb; lia).
    rewrite rd_stream_firstn by exact Hge. rewrite rd_stream_skipn, Hl. reflexivity.
Qed.

Lemma rd_seek_to_spec b :
  let '(i, j) := rd_seek_to b in rd_bit_idx i j = b /\ j < 64.
Proof. unfold rd_seek_to, rd_bit_idx, WORD_SIZE. lia. Qed.

(* ---- drain_empty_byte against Codec.drain_pad ---- *)
Lemma bits_val_pos s : (0 <? bits_val s) = existsb (fun b => b) s.
Proof.
  induction s as [|b t IH]; [reflexivity|].
  rewrite bits_val_cons. cbn [existsb]. destruct b; cbn [N.b2n orb].
  - apply N.ltb_lt. pose proof (pow2_pos (N.of_nat (length t))). lia.
  - rewrite N.mul_0_l, N.add_0_l. exact IH.
Qed.

Lemma land_high_mask a s :
  a < 2 ^ 64 -> s <= 64 ->
  N.land a (trunc_word (N.shiftl usize_max s)) = N.shiftl (N.shiftr a s) s.
Proof.
  intros Ha Hs. apply N.bits_inj. intros k.
  rewrite N.land_spec. unfold trunc_word, word_mod. rewrite usize_max_ones.
  destruct (N.ltb_spec k s) as [Hk|Hk].
  - rewrite (N.shiftl_spec_low _ s k) by exact Hk.
    rewrite N.mod_pow2_bits_low by lia. rewrite N.shiftl_spec_low by exact Hk.
    apply andb_false_r.
  - rewrite (N.shiftl_spec_high' _ s k) by exact Hk. rewrite N.shiftr_spec'.
    replace (k - s + s) with k by lia.
    destruct (N.ltb_spec k 64) as [H64|H64].
    + rewrite N.mod_pow2_bits_low by exact H64. rewrite N.shiftl_spec_high' by exact Hk.
      rewrite N.ones_spec_low by lia. apply andb_true_r.
    + rewrite N.mod_pow2_bits_high by exact H64.
      rewrite (testbit_small a 64 k Ha H64). reflexivity.
Qed.

Lemma drain_pad_stream ws tb p m :
  tb <= 64 * Nlen ws -> (tb - p) mod 8 = m -> p + m <= tb ->
  drain_pad (rd_stream ws tb p)
  = if existsb (fun b => b) (seg ws (N.to_nat p) (N.to_nat m)) then Err Corruption
    else Ok (rd_stream ws tb (p + m)).
Proof.
  intros Htb Hm Hle. unfold drain_pad, Nlen. rewrite rd_stream_length by exact Htb.
  rewrite N2Nat.id, Hm. rewrite rd_stream_firstn by exact Hle. rewrite rd_stream_skipn.
  reflexivity.
Qed.

Theorem rd_drain_empty_byte_spec ws tb i j :
  words_ok ws -> j <= 64 -> tb <= 64 * Nlen ws -> tb mod 8 = 0 -> 64 * i + j <= tb ->
  match rd_drain_empty_byte ws i j with
  | Ok (i', j') =>
      drain_pad (rd_stream ws tb (64 * i + j)) = Ok (rd_stream ws tb (64 * i' + j')) /\
      j' <= 64 /\ (64 * i' + j') mod 8 = 0 /\ 64 * i' + j' <= tb
  | Err k => drain_pad (rd_stream ws tb (64 * i + j)) = Err k
  | Panic => False
  end.
Proof.
  intros Hok Hj Htb Hal Hp. unfold rd_drain_empty_byte, ceil_div, WORD_SIZE.
  destruct (N.eqb_spec (j mod 8) 0) as [E|E].
  - rewrite (drain_pad_stream ws tb (64 * i + j) 0 Htb) by lia.
    cbn [N.to_nat]. unfold seg at 1. cbn [firstn existsb].
    split; [do 2 f_equal; lia|]. split; [exact Hj|]. split; lia.
  - set (end_j := 8 * ((j + 8 - 1) / 8)).
    set (m := end_j - j).
    assert (Hm : (tb - (64 * i + j)) mod 8 = m /\ j + m = end_j /\ end_j <= 64 /\ 0 < m
                 /\ 64 * i + j + m <= tb /\ j < 64).
    { unfold m, end_j. lia. }
    destruct Hm as (Hm1 & Hm2 & Hm3 & Hm4 & Hm5 & Hj64).
    rewrite (drain_pad_stream ws tb (64 * i + j) m Htb Hm1 Hm5).
    assert (Hi : (N.to_nat i < length ws)%nat) by (unfold Nlen in Htb; lia).
    replace (N.to_nat (64 * i + j)) with (64 * N.to_nat i + N.to_nat j)%nat by lia.
    rewrite seg_in_word by lia.
    rewrite land_high_mask; [|rewrite mask_shr, N.land_ones by lia;
                               apply N.lt_le_trans with (2 ^ (64 - j));
                               [apply N.mod_lt, pow2_nz | apply N.pow_le_mono_r; lia] | lia].
    rewrite <- bits_val_pos. fold (rd_word ws i).
    rewrite (word_field_val (rd_word ws i) j m) by lia.
    replace (64 - (m + j)) with (64 - end_j) by lia.
    set (F := N.shiftr (N.land (rd_word ws i) (N.shiftr usize_max j)) (64 - end_j)).
    assert (HF : (0 <? N.shiftl F (64 - end_j)) = (0 <? F)).
    { rewrite N.shiftl_mul_pow2. pose proof (pow2_pos (64 - end_j)) as HP.
      destruct (N.ltb_spec 0 F); destruct (N.ltb_spec 0 (F * 2 ^ (64 - end_j))); try reflexivity; nia. }
    rewrite HF. destruct (0 <? F); [reflexivity|].
    split; [do 2 f_equal; lia|]. split; [lia|]. split; [unfold end_j; lia | lia].
Qed.

(* ---- read_aligned_bytes against Reader.read_aligned ---- *)
From QCo.Model Require Reader.
Lemma words_bits_skipn a : forall ws, words_bits (skipn a ws) = skipn (64 * a) (words_bits ws).
Proof.
  induction a as [|a IH]; intros ws; [reflexivity|].
  destruct ws as [|w t]; [cbn [skipn]; rewrite skipn_nil; reflexivity|].
  cbn [skipn]. rewrite words_bits_cons, IH.
  replace (64 * S a)%nat with (length (putn 64 w) + 64 * a)%nat by (rewrite putn_length; lia).
  rewrite skipn_app_2. reflexivity.
Qed.

Lemma words_bits_firstn a : forall ws, words_bits (firstn a ws) = firstn (64 * a) (words_bits ws).
Proof.
  induction a as [|a IH]; intros ws; [reflexivity|].
  destruct ws as [|w t]; [cbn [firstn]; rewrite firstn_nil; reflexivity|].
  cbn [firstn]. rewrite !words_bits_cons, IH.
  replace (64 * S a)%nat with (length (putn 64 w) + 64 * a)%nat by (rewrite putn_length; lia).
  rewrite firstn_app_2. reflexivity.
Qed.

Lemma bytes_to_bits_skipn k : forall bs,
  bytes_to_bits (skipn k bs) = skipn (8 * k) (bytes_to_bits bs).
Proof.
  induction k as [|k IH]; intros bs; [reflexivity|].
  destruct bs as [|b t]; [cbn [skipn]; rewrite skipn_nil; reflexivity|].
  cbn [skipn]. unfold bytes_to_bits in *. cbn [flat_map]. rewrite IH.
  replace (8 * S k)%nat with (length (byte_bits b) + 8 * k)%nat
    by (unfold byte_bits; rewrite putn_length; lia).
  rewrite skipn_app_2. reflexivity.
Qed.

Theorem rd_read_aligned_bytes_spec ws tb i j n :
  words_ok ws -> j <= 64 -> tb <= 64 * Nlen ws -> tb mod 8 = 0 -> 64 * i + j <= tb ->
  match rd_read_aligned_bytes ws i j tb n with
  | Ok (bs, (i', j')) =>
      Reader.read_aligned (64 * i + j) n (rd_stream ws tb (64 * i + j))
      = Ok (bs, rd_stream ws tb (64 * i + j + 8 * n)) /\
      64 * i' + j' = 64 * i + j + 8 * n /\ j' < 64
  | Err k => Reader.read_aligned (64 * i + j) n (rd_stream ws tb (64 * i + j)) = Err k
  | Panic => False
  end.
Proof.
  intros Hok Hj Htb Hal Hp.
  unfold rd_read_aligned_bytes, Reader.read_aligned, ceil_div, BYTES_PER_WORD, WORD_SIZE.
  pose proof (rd_refresh_spec i j Hj) as Hr. destruct (rd_refresh i j) as [i1 j1].
  destruct Hr as [Hp1 Hj1]. rewrite <- Hp1 in *. clear Hp1 Hj i j.
  set (p := 64 * i1 + j1) in *.
  destruct (N.eqb_spec (j1 mod 8) 0) as [E|E].
  2:{ destruct (N.eqb_spec (p mod 8) 0) as [E'|E']; [unfold p in E'; lia | reflexivity]. }
  destruct (N.eqb_spec (p mod 8) 0) as [_|E']; [|unfold p in E'; lia]. cbn [negb].
  destruct (N.ltb_spec ((tb + 8 - 1) / 8) (i1 * 8 + j1 / 8 + n)) as [Hins|Hfit].
  { unfold get_bits. rewrite take_bits_short; [reflexivity|].
    rewrite rd_stream_length by exact Htb. unfold p. lia. }
  assert (Hfit' : p + 8 * n <= tb) by (unfold p; lia).
  rewrite get_bits_firstn by (rewrite rd_stream_length by exact Htb; lia).
  cbn [bind]. rewrite rd_stream_firstn by exact Hfit'. rewrite rd_stream_skipn.
  unfold rd_seek_to, rd_bit_idx, WORD_SIZE. fold p.
  replace (n * 8) with (8 * n) by lia.
  split; [|split; lia]. do 2 f_equal.
  set (k := (i1 * 8 + j1 / 8 + n + 8 - 1) / 8 - (i1 * 8 + j1 / 8) / 8).
  set (R := firstn (N.to_nat n) (skipn (N.to_nat ((i1 * 8 + j1 / 8) mod 8))
              (words_to_bytes (firstn (N.to_nat k)
                 (skipn (N.to_nat ((i1 * 8 + j1 / 8) / 8)) ws))))).
  assert (HR : Forall (fun b => b < 256) R).
  { unfold R. apply Forall_firstn, Forall_skipn, words_to_bytes_range. }
  rewrite <- (bits_to_bytes_bytes R HR). f_equal.
  unfold R. rewrite bytes_to_bits_firstn, bytes_to_bits_skipn, bytes_to_bits_words.
  rewrite words_bits_firstn, words_bits_skipn. unfold seg.
  rewrite skipn_firstn_comm, firstn_firstn, skipn_skipn'.
  clear HR. subst R k p. f_equal; [|f_equal]; lia.
Qed.

(* ================= end to end: writer bytes -> BitWords ================= *)
Theorem wr_drain_bw_roundtrip w :
  wr_ok w -> wr_bit_size w mod 8 = 0 ->
  let '(ws, tb) := bw_extend [] 0 (wr_drain_bytes w) in
  bw_ok ws tb /\ bw_bits ws tb = wr_bits w /\ tb = wr_bit_size w.
Proof.
  intros Hok Hal. destruct (wr_drain_bytes_spec w Hok Hal) as (_ & Hb & Hl).
  assert (Hr : Forall (fun b => b < 256) (wr_drain_bytes w)).
  { unfold wr_drain_bytes. apply Forall_firstn, words_to_bytes_range. }
  pose proof (bw_from_bytes_spec (wr_drain_bytes w) Hr) as H.
  destruct (bw_extend [] 0 (wr_drain_bytes w)) as [ws tb].
  destruct H as (H1 & H2 & H3). split; [exact H2|]. split; [rewrite H3; exact Hb|].
  rewrite H1, Hl.
  pose proof (proj1 (wr_aligned_iff w Hok) Hal) as Hj. destruct Hok as (_ & Hj64 & He & _).
  unfold wr_byte_size, wr_bit_size, Nlen, WORD_SIZE, BYTES_PER_WORD.
  destruct (w_words w) as [|a t]; [rewrite He by reflexivity; reflexivity|].
  cbn [length]. lia.
Qed.

(* ================= assumptions ================= *)
Print Assumptions wr_write_one_spec.
Print Assumptions wr_write_diff_spec.
Print Assumptions wr_write_aligned_bytes_spec.
Print Assumptions wr_finish_byte_spec.
Print Assumptions wr_write_varint_spec.
Print Assumptions wr_drain_bytes_spec.
Print Assumptions wr_overwrite_spec.
Print Assumptions wr_overwrite_placeholder.
Print Assumptions bw_extend_spec.
Print Assumptions bw_truncate_left_spec.
Print Assumptions rd_unchecked_read_diff_spec.
Print Assumptions rd_unchecked_read_diff_u_spec.
Print Assumptions rd_read_diff_spec.
Print Assumptions rd_read_one_spec.
Print Assumptions rd_read_spec.
Print Assumptions rd_drain_empty_byte_spec.
Print Assumptions rd_read_aligned_bytes_spec.
Print Assumptions ct_search_correct.
Print Assumptions ct_from_sorted_total.
Print Assumptions wr_drain_bw_roundtrip.
