(* SizeL.v — "compressed size is bounded": the format-arithmetic part.
   1. exact accounting of the body bits (per block: code + varint + offsets) and the
      per-offset bound  Nlen (write_offset r off) <= w;
   2. exact accounting of the chunk metadata bits and the per-chunk byte bound;
   3. composition into a whole-file bound, given a bound on each body;
   4. a policy-independent body bound from the longest code length. *)
From QCo.Lemmas Require Import Tactics BitsL DTypeL DeltaL FlagsL CodecL MetaL BodyL HeaderL FileL.
From QCo.Model Require Import Base Consts DType Codec Writer.
Open Scope N_scope.

(* ================================================================== *)
(* 0. sums, ceilings                                                   *)
(* ================================================================== *)
Definition nsum (l : list N) : N := fold_right N.add 0 l.

Lemma nsum_nil : nsum [] = 0.
Proof. reflexivity. Qed.

Lemma nsum_cons x l : nsum (x :: l) = x + nsum l.
Proof. reflexivity. Qed.

Lemma nsum_app a b : nsum (a ++ b) = nsum a + nsum b.
Proof. induction a as [|x a IH]; [reflexivity|]. cbn [app]. rewrite !nsum_cons, IH. lia. Qed.

Lemma nsum_map_le {A} (g h : A -> N) (P : A -> Prop) l :
  (forall x, P x -> g x <= h x) -> Forall P l -> nsum (map g l) <= nsum (map h l).
Proof.
  intros H HF. induction HF as [|x l Hx _ IH]; [cbn [map]; rewrite nsum_nil; lia|].
  cbn [map]. rewrite !nsum_cons. specialize (H x Hx). lia.
Qed.

Lemma nsum_map_const {A} (c : N) (l : list A) : nsum (map (fun _ => c) l) = Nlen l * c.
Proof.
  induction l as [|x l IH]; [reflexivity|]. cbn [map]. rewrite nsum_cons, Nlen_cons, IH. lia.
Qed.

Lemma Ok_inj {A} (a b : A) : Ok a = Ok b -> a = b.
Proof. intros H. injection H. auto. Qed.

(* bytes needed for [x] bits *)
Definition cdiv8 (x : N) : N := (x + 7) / 8.

Lemma cdiv8_mono a b : a <= b -> cdiv8 a <= cdiv8 b.
Proof. unfold cdiv8. intros H. apply N.div_le_mono; lia. Qed.

Lemma cdiv8_mul8 a : cdiv8 (8 * a) = a.
Proof. unfold cdiv8. lia. Qed.

Lemma cdiv8_add_mul8 a b : cdiv8 (a + 8 * b) = cdiv8 a + b.
Proof. unfold cdiv8. lia. Qed.

Lemma pad8_Nlen s : Nlen (pad8 s) = 8 * cdiv8 (Nlen s).
Proof.
  unfold pad8, cdiv8. rewrite Nlen_app, Nlen_repeat, N2Nat.id.
  change (N.of_nat (length s)) with (Nlen s). unfold pad_len.
  set (l := Nlen s). clearbody l. lia.
Qed.

Lemma bytes_of_pad8 s : Nlen (bits_to_bytes (pad8 s)) = cdiv8 (Nlen s).
Proof.
  pose proof (bits_to_bytes_Nlen (pad8 s) (pad8_length s)) as H.
  rewrite pad8_Nlen in H. lia.
Qed.

(* ================================================================== *)
(* 1. the body: exact accounting                                       *)
(* ================================================================== *)

(* ---- one offset ---- *)
(* an offset of a range that fits the type costs at most the type's width: k+1 <= w
   unless k = w, and then the range is the full power of two and there is no extra bit *)
Lemma write_offset_le_w w r off :
  r <= umax w -> off <= r -> Nlen (write_offset r off) <= w.
Proof.
  intros Hr Ho. unfold umax, pow2 in Hr.
  pose proof (pow2_pos w) as Hw. pose proof (k_spec r) as Hk.
  assert (Hkw : k_of_range r <= w).
  { apply (N.pow_le_mono_r_iff 2); [lia|].
    set (K := 2 ^ k_of_range r) in *. set (W := 2 ^ w) in *. clearbody K W. lia. }
  destruct (N.eq_dec (k_of_range r) w) as [E|E].
  - rewrite write_offset_length_exact; [lia|exact Ho|].
    rewrite E in *. set (W := 2 ^ w) in *. clearbody W. lia.
  - pose proof (write_offset_length r off). lia.
Qed.

Lemma offset_of_le_range p u :
  contains p u = true -> offset_of p u <= p_range p.
Proof.
  unfold contains, offset_of, p_range. intros H. apply andb_true_iff in H.
  destruct H as [H1 H2]. apply N.leb_le in H1. apply N.leb_le in H2.
  destruct (N.eq_dec (p_gcd p) 0) as [E|E].
  - rewrite E. destruct (u - p_lower p), (p_upper p - p_lower p); cbn; lia.
  - apply N.div_le_mono; lia.
Qed.

Lemma p_range_le_umax w p :
  p_lower p <= p_upper p -> p_upper p <= umax w -> p_range p <= umax w.
Proof.
  intros Hlu Hu. unfold p_range.
  destruct (N.eq_dec (p_gcd p) 0) as [E|E].
  - rewrite E. destruct (p_upper p - p_lower p); cbn; lia.
  - apply N.le_trans with (p_upper p - p_lower p); [|lia].
    apply N.div_le_upper_bound; [exact E|].
    set (X := p_upper p - p_lower p). clearbody X.
    assert (1 * X <= p_gcd p * X) by (apply N.mul_le_mono_r; lia). lia.
Qed.

(* every number of the body costs at most w offset bits *)
Lemma write_num_offset_le_w w p u :
  BodyL.wf_prefix w p -> contains p u = true -> Nlen (write_num_offset p u) <= w.
Proof.
  intros (_ & Hlu & Hu & _) Hc. unfold write_num_offset.
  apply write_offset_le_w; [apply p_range_le_umax; assumption|apply offset_of_le_range; exact Hc].
Qed.

(* the same in terms of k (any prefix, any number) *)
Lemma write_num_offset_le_k p u : Nlen (write_num_offset p u) <= p_k p + 1.
Proof. unfold write_num_offset, p_k. apply write_offset_length. Qed.

Lemma p_k_le_w w p : BodyL.wf_prefix w p -> p_k p <= w.
Proof.
  intros (Hg & Hlu & Hu & _). destruct (prefix_facts w p Hg Hlu Hu) as (_ & Hk & _). exact Hk.
Qed.

(* ---- blocks ---- *)
Definition offsets_cost (p : prefix) (run : list N) : N :=
  nsum (map (fun u => Nlen (write_num_offset p u)) run).

Lemma flat_map_offsets_cost p run :
  Nlen (flat_map (write_num_offset p) run) = offsets_cost p run.
Proof.
  unfold offsets_cost. induction run as [|u t IH]; [reflexivity|].
  cbn [flat_map map]. rewrite Nlen_app, nsum_cons, IH. reflexivity.
Qed.

Lemma offsets_cost_cons p u run :
  offsets_cost p (u :: run) = Nlen (write_num_offset p u) + offsets_cost p run.
Proof. reflexivity. Qed.

(* the blocks the writer emits: the prefix and the numbers it encodes in that block *)
Fixpoint body_blocks (fuel : nat) (ps : list prefix) (us : list N) : list (prefix * list N) :=
  match fuel with
  | O => []
  | S f =>
    match us with
    | [] => []
    | u :: t =>
      match find_prefix ps u with
      | None => []
      | Some p =>
        match p_jump p with
        | None => (p, [u]) :: body_blocks f ps t
        | Some _ => let extra := run_len p t in
                    (p, u :: firstn extra t) :: body_blocks f ps (skipn extra t)
        end
      end
    end
  end.

(* the run-length field of a block (absent for a prefix without run lengths) *)
Definition varint_cost (p : prefix) (run : list N) : N :=
  match p_jump p with
  | None => 0
  | Some j => Nlen (write_varint (N.of_nat (length run - 1)) j)
  end.

Definition block_cost (b : prefix * list N) : N :=
  Nlen (p_code (fst b)) + varint_cost (fst b) (snd b) + offsets_cost (fst b) (snd b).

(* 1a. EXACT: the body is the sum over its blocks of code + run-length field + offsets *)
Theorem body_bits_exact ps : forall fuel us b,
  write_body_fuel fuel ps us = Ok b ->
  Nlen b = nsum (map block_cost (body_blocks fuel ps us)).
Proof.
  induction fuel as [|fuel IH]; intros us b Hw.
  - cbn [write_body_fuel] in Hw. inversion Hw; subst. reflexivity.
  - destruct us as [|u t].
    + cbn [write_body_fuel] in Hw. inversion Hw; subst. reflexivity.
    + cbn [write_body_fuel body_blocks] in *.
      destruct (find_prefix ps u) as [p|] eqn:Ef; [|discriminate].
      destruct (p_jump p) as [j|] eqn:Ej.
      * cbv zeta in *.
        destruct (write_body_fuel fuel ps (skipn (run_len p t) t)) as [r| |] eqn:Er;
          cbn [bind] in Hw; try discriminate.
        inversion Hw; subst b; clear Hw.
        cbn [map]. rewrite nsum_cons. unfold block_cost at 1, varint_cost. cbn [fst snd].
        rewrite Ej. rewrite !Nlen_app, flat_map_offsets_cost, (IH _ _ Er).
        cbn [length]. rewrite Nat.sub_succ, Nat.sub_0_r.
        assert (El : length (firstn (run_len p t) t) = run_len p t).
        { rewrite firstn_length. pose proof (run_len_le p t). lia. }
        rewrite El, offsets_cost_cons. lia.
      * destruct (write_body_fuel fuel ps t) as [r| |] eqn:Er; cbn [bind] in Hw; try discriminate.
        inversion Hw; subst b; clear Hw.
        cbn [map]. rewrite nsum_cons. unfold block_cost at 1, varint_cost. cbn [fst snd].
        rewrite Ej. rewrite !Nlen_app, (IH _ _ Er).
        unfold offsets_cost. cbn [map]. rewrite nsum_cons, nsum_nil. lia.
Qed.

(* what a block is *)
Definition block_wf (ps : list prefix) (b : prefix * list N) : Prop :=
  In (fst b) ps /\ snd b <> [] /\
  Forall (fun u => contains (fst b) u = true) (snd b) /\
  (p_jump (fst b) = None -> length (snd b) = 1%nat).

Lemma body_blocks_wf ps : forall fuel us, Forall (block_wf ps) (body_blocks fuel ps us).
Proof.
  induction fuel as [|fuel IH]; intros us; [constructor|].
  destruct us as [|u t]; [constructor|]. cbn [body_blocks].
  destruct (find_prefix ps u) as [p|] eqn:Ef; [|constructor].
  destruct (find_prefix_some _ _ _ Ef) as [Hin Hc].
  destruct (p_jump p) as [j|] eqn:Ej; cbv zeta; (constructor; [|apply IH]).
  - unfold block_wf. cbn [fst snd]. split; [exact Hin|]. split; [discriminate|].
    split; [constructor; [exact Hc|apply run_len_contains]|]. congruence.
  - unfold block_wf. cbn [fst snd]. split; [exact Hin|]. split; [discriminate|].
    split; [constructor; [exact Hc|constructor]|]. reflexivity.
Qed.

(* the blocks partition the numbers (when the writer succeeds with enough fuel) *)
Lemma body_blocks_concat ps : forall fuel us b,
  write_body_fuel fuel ps us = Ok b -> (length us <= fuel)%nat ->
  concat (map snd (body_blocks fuel ps us)) = us.
Proof.
  induction fuel as [|fuel IH]; intros us b Hw Hl.
  - destruct us; [reflexivity|cbn [length] in Hl; lia].
  - destruct us as [|u t]; [reflexivity|].
    cbn [write_body_fuel body_blocks] in *. cbn [length] in Hl.
    destruct (find_prefix ps u) as [p|] eqn:Ef; [|discriminate].
    destruct (p_jump p) as [j|] eqn:Ej; cbv zeta in *.
    + destruct (write_body_fuel fuel ps (skipn (run_len p t) t)) as [r| |] eqn:Er;
        cbn [bind] in Hw; try discriminate.
      cbn [map concat snd]. rewrite (IH _ _ Er).
      * cbn [app]. rewrite firstn_skipn. reflexivity.
      * rewrite skipn_length. lia.
    + destruct (write_body_fuel fuel ps t) as [r| |] eqn:Er; cbn [bind] in Hw; try discriminate.
      cbn [map concat snd]. rewrite (IH _ _ Er) by lia. reflexivity.
Qed.

Lemma body_blocks_count_le ps : forall fuel us,
  Nlen (concat (map snd (body_blocks fuel ps us))) <= Nlen us.
Proof.
  induction fuel as [|fuel IH]; intros us; [cbn; lia|].
  destruct us as [|u t]; [cbn; lia|]. cbn [body_blocks].
  destruct (find_prefix ps u) as [p|]; [|cbn; lia].
  destruct (p_jump p) as [j|]; cbv zeta; cbn [map concat snd].
  - rewrite Nlen_app, !Nlen_cons. specialize (IH (skipn (run_len p t) t)).
    unfold Nlen in *. rewrite skipn_length in IH. rewrite firstn_length. lia.
  - rewrite Nlen_app, !Nlen_cons, Nlen_nil. specialize (IH t). lia.
Qed.

(* ---- 1b. per-block upper bounds ---- *)
(* in terms of k: a number outside runs costs at most code + k + 1; a run of r numbers
   costs at most code + 48 + r * (k + 1) *)
Lemma offsets_cost_le_k p run : offsets_cost p run <= Nlen run * (p_k p + 1).
Proof.
  unfold offsets_cost. induction run as [|u t IH]; [cbn; lia|].
  cbn [map]. rewrite nsum_cons, Nlen_cons. pose proof (write_num_offset_le_k p u). lia.
Qed.

Lemma varint_cost_le p run :
  (forall j, p_jump p = Some j -> j <= 24) -> varint_cost p run <= 48.
Proof.
  intros H. unfold varint_cost. destruct (p_jump p) as [j|]; [|lia].
  specialize (H j eq_refl). pose proof (write_varint_length_bound j (N.of_nat (length run - 1))). lia.
Qed.

Lemma varint_cost_nojump p run : p_jump p = None -> varint_cost p run = 0.
Proof. intros H. unfold varint_cost. rewrite H. reflexivity. Qed.

Theorem block_cost_le_k p run :
  (forall j, p_jump p = Some j -> j <= 24) ->
  block_cost (p, run) <= Nlen (p_code p) + 48 + Nlen run * (p_k p + 1).
Proof.
  intros H. unfold block_cost. cbn [fst snd].
  pose proof (varint_cost_le p run H). pose proof (offsets_cost_le_k p run). lia.
Qed.

Theorem block_cost_le_k_single p u :
  p_jump p = None -> block_cost (p, [u]) <= Nlen (p_code p) + p_k p + 1.
Proof.
  intros H. unfold block_cost. cbn [fst snd]. rewrite (varint_cost_nojump p _ H).
  pose proof (offsets_cost_le_k p [u]). rewrite Nlen_cons, Nlen_nil in *. lia.
Qed.

(* in terms of the type's width w: every offset costs at most w bits *)
Lemma offsets_cost_le_w w p run :
  BodyL.wf_prefix w p -> Forall (fun u => contains p u = true) run ->
  offsets_cost p run <= w * Nlen run.
Proof.
  intros Hp HF. unfold offsets_cost. induction HF as [|u t Hu _ IH]; [cbn; lia|].
  cbn [map]. rewrite nsum_cons, Nlen_cons. pose proof (write_num_offset_le_w w p u Hp Hu). lia.
Qed.

Theorem block_cost_le_w w ps b :
  Forall (BodyL.wf_prefix w) ps -> block_wf ps b ->
  block_cost b <= Nlen (p_code (fst b)) + (match p_jump (fst b) with None => 0 | Some _ => 48 end)
                  + w * Nlen (snd b).
Proof.
  intros Hwf (Hin & _ & Hc & _). rewrite Forall_forall in Hwf. pose proof (Hwf _ Hin) as Hp.
  unfold block_cost. pose proof (offsets_cost_le_w w _ _ Hp Hc) as Ho.
  destruct (p_jump (fst b)) as [j|] eqn:Ej.
  - assert (Hv : varint_cost (fst b) (snd b) <= 48).
    { apply varint_cost_le. destruct Hp as (_ & _ & _ & Hj). exact Hj. }
    lia.
  - rewrite (varint_cost_nojump _ _ Ej). lia.
Qed.

(* sanity check on FileL's example chunk: 4 single blocks (range 2: k = 1, offsets of
   2, 1, 2, 2 bits after a 1-bit code) and a run block of one number (code, 2-bit run
   length field, empty offset) *)
Example body_blocks_example :
  let us := chunk_unsigneds DI32 0 ex_xs in
  map (fun b => Nlen (snd b)) (body_blocks (length us) ex_table us) = [1; 1; 1; 1; 1] /\
  map block_cost (body_blocks (length us) ex_table us) = [3; 2; 3; 3; 3] /\
  (exists b, write_body_fuel (length us) ex_table us = Ok b /\ Nlen b = 14).
Proof. vm_compute. split; [reflexivity|]. split; [reflexivity|]. eexists. split; reflexivity. Qed.

(* ================================================================== *)
(* 2. the chunk metadata: exact accounting and bounds                  *)
(* ================================================================== *)

(* ---- raw numbers ---- *)
Lemma phys_mod8 d : phys d mod 8 = 0.
Proof. destruct d; reflexivity. Qed.

Lemma phys_le_ubits d : phys d <= ubits d.
Proof. destruct d; vm_compute; discriminate. Qed.

Lemma phys_sdt_le_ubits d : phys (sdt d) <= ubits d.
Proof. destruct d; vm_compute; discriminate. Qed.

Lemma ubits_mod8 d : ubits d mod 8 = 0.
Proof. destruct d; reflexivity. Qed.

Lemma phys_pdt_le_ubits f d : phys (pdt f d) <= ubits d.
Proof.
  unfold pdt. destruct (ford f =? 0); [apply phys_le_ubits|apply phys_sdt_le_ubits].
Qed.

Lemma to_bytes_length d x bs : to_bytes d x = Ok bs -> Nlen bs = phys d / 8.
Proof.
  unfold to_bytes. set (nb := N.to_nat (phys d / 8)).
  assert (Hnb : forall y, Nlen (be_bytes nb y) = phys d / 8).
  { intros y. unfold Nlen. rewrite be_bytes_length. unfold nb. apply N2Nat.id. }
  clearbody nb.
  destruct (kind d) eqn:K.
  - intros H. injection H as <-. destruct d; try discriminate K. reflexivity.
  - intros H. injection H as <-. apply Hnb.
  - intros H. injection H as <-. apply Hnb.
  - intros H. injection H as <-. apply Hnb.
  - intros H. injection H as <-. apply Hnb.
  - destruct (_ && _); [|discriminate]. intros H. injection H as <-. apply Hnb.
Qed.

(* a raw number always occupies phys d bits *)
Lemma write_num_length d x b : write_num d x = Ok b -> Nlen b = phys d.
Proof.
  unfold write_num. destruct (to_bytes d x) as [bs| |] eqn:E; cbn [bind]; try discriminate.
  intros H; inversion H; subst b. rewrite bytes_to_bits_Nlen, (to_bytes_length d x bs E).
  pose proof (phys_mod8 d). set (P := phys d) in *. clearbody P. lia.
Qed.

Lemma write_unum_length pd u b : write_unum pd u = Ok b -> Nlen b = phys pd.
Proof. apply write_num_length. Qed.

Lemma write_moments_length sd : forall ms b,
  write_moments sd ms = Ok b -> Nlen b = Nlen ms * phys sd.
Proof.
  induction ms as [|m t IH]; intros b H.
  - cbn [write_moments] in H. inversion H; subst. reflexivity.
  - cbn [write_moments] in H.
    destruct (write_num sd m) as [bm| |] eqn:Em; cbn [bind] in H; try discriminate.
    destruct (write_moments sd t) as [bt| |] eqn:Et; cbn [bind] in H; try discriminate.
    inversion H; subst b. rewrite Nlen_app, Nlen_cons, (write_num_length _ _ _ Em), (IH _ eq_refl). lia.
Qed.

(* ---- fields of a prefix ---- *)
Definition jump_bits (j : option N) : N := match j with None => 1 | Some _ => 6 end.

Lemma write_jump_length j : Nlen (write_jump j) = jump_bits j.
Proof.
  destruct j as [v|]; cbn [write_jump jump_bits]; [|reflexivity].
  rewrite Nlen_cons, put_length. reflexivity.
Qed.

Definition gcd_field_bits (range g : N) : N := if g =? 1 then 1 else 1 + gcd_bits range.

Lemma write_gcd_length_exact range g : Nlen (write_gcd range g) = gcd_field_bits range g.
Proof.
  unfold write_gcd, gcd_field_bits. destruct (g =? 1); [reflexivity|].
  rewrite Nlen_cons, put_length. reflexivity.
Qed.

(* bits of one stored prefix, given the common-gcd field it is written under *)
Definition prefix_bits (f : flags) (pd : dtype) (n : N) (common : option N) (p : prefix) : N :=
  count_bits f n + 2 * phys pd + code_len_bits f + Nlen (p_code p) + jump_bits (p_jump p)
  + match common with
    | None => gcd_field_bits (p_upper p - p_lower p) (p_gcd p)
    | Some _ => 0
    end.

Lemma write_prefix_list_length f pd n common : forall ps b,
  write_prefix_list f pd n common ps = Ok b ->
  Nlen b = nsum (map (prefix_bits f pd n common) ps).
Proof.
  induction ps as [|p t IH]; intros b H.
  - cbn [write_prefix_list] in H. inversion H; subst. reflexivity.
  - cbn [write_prefix_list] in H.
    destruct (write_unum pd (p_lower p)) as [lo| |] eqn:El; cbn [bind] in H; try discriminate.
    destruct (write_unum pd (p_upper p)) as [up| |] eqn:Eu; cbn [bind] in H; try discriminate.
    destruct (write_prefix_list f pd n common t) as [rest| |] eqn:Er; cbn [bind] in H; try discriminate.
    inversion H; subst b; clear H.
    cbn [map]. rewrite nsum_cons, <- (IH _ eq_refl). unfold prefix_bits.
    rewrite !Nlen_app, !put_length, write_jump_length,
            (write_unum_length _ _ _ El), (write_unum_length _ _ _ Eu).
    destruct common as [g|]; [rewrite Nlen_nil|rewrite write_gcd_length_exact]; lia.
Qed.

(* the table header: number of prefixes, and the common-gcd field *)
Definition prefixes_hdr_bits (f : flags) (pd : dtype) (ps : list prefix) : N :=
  15 + (if fgcd f then
          match common_gcd pd ps with
          | None => 1
          | Some g => 1 + gcd_field_bits (umax (ubits pd)) g
          end
        else 0).

Lemma write_prefixes_length f pd n ps b :
  write_prefixes f pd n ps = Ok b ->
  Nlen b = prefixes_hdr_bits f pd ps + nsum (map (prefix_bits f pd n (table_common f pd ps)) ps).
Proof.
  unfold write_prefixes, table_common, prefixes_hdr_bits. cbv zeta.
  change Consts.BITS_TO_ENCODE_N_PREFIXES with 15.
  destruct (write_prefix_list f pd n (if fgcd f then common_gcd pd ps else Some 1) ps)
    as [body| |] eqn:E; cbn [bind]; try discriminate.
  intros H; apply Ok_inj in H; subst.
  rewrite !Nlen_app, put_length, (write_prefix_list_length _ _ _ _ _ _ E).
  destruct (fgcd f); [|rewrite Nlen_nil; lia].
  destruct (common_gcd pd ps) as [g|].
  - rewrite Nlen_cons, write_gcd_length_exact. lia.
  - rewrite Nlen_cons, Nlen_nil. lia.
Qed.

(* ---- 2a. EXACT: the metadata bits of a chunk ---- *)
Definition meta_bits (f : flags) (d : dtype) (m : meta) : N :=
  24 + 32 + Nlen (m_moments m) * phys (sdt d)
  + prefixes_hdr_bits f (pdt f d) (m_table m)
  + nsum (map (prefix_bits f (pdt f d) (m_n m) (table_common f (pdt f d) (m_table m))) (m_table m)).

Theorem write_meta_bits f d m mb :
  write_meta f d m = Ok mb -> Nlen mb = 8 * cdiv8 (meta_bits f d m).
Proof.
  unfold write_meta.
  destruct (write_moments (sdt d) (m_moments m)) as [mo| |] eqn:Em; cbn [bind]; try discriminate.
  destruct (write_prefixes f (pdt f d) (m_n m) (m_table m)) as [ps| |] eqn:Ep; cbn [bind]; try discriminate.
  intros H; apply Ok_inj in H; subst.
  rewrite pad8_Nlen. f_equal. f_equal.
  rewrite !Nlen_app, !put_length, (write_moments_length _ _ _ Em), (write_prefixes_length _ _ _ _ _ Ep).
  change Consts.BITS_TO_ENCODE_N_ENTRIES with 24.
  change Consts.BITS_TO_ENCODE_COMPRESSED_BODY_SIZE with 32.
  unfold meta_bits. lia.
Qed.

Theorem write_meta_bytes f d m mb :
  write_meta f d m = Ok mb -> Nlen (bits_to_bytes mb) = cdiv8 (meta_bits f d m).
Proof.
  intros H. pose proof (write_meta_bits f d m mb H) as E.
  pose proof (bits_to_bytes_Nlen mb (write_meta_aligned f d m mb H)). lia.
Qed.

(* ---- field bounds ---- *)
Lemma gcd_bits_le w r : r <= umax w -> gcd_bits r <= w.
Proof.
  unfold umax, pow2, gcd_bits. intros H. destruct (r =? 0) eqn:E; [lia|].
  apply N.eqb_neq in E. apply N.log2_up_le_pow2; [lia|].
  pose proof (pow2_pos w). set (W := 2 ^ w) in *. clearbody W. lia.
Qed.

Lemma gcd_field_bits_le w r g : r <= umax w -> gcd_field_bits r g <= 1 + w.
Proof.
  intros H. unfold gcd_field_bits. pose proof (gcd_bits_le w r H). destruct (g =? 1); lia.
Qed.

Lemma count_bits_le f n : n < 2 ^ 24 -> count_bits f n <= 24.
Proof.
  intros H. unfold count_bits. change Consts.BITS_TO_ENCODE_N_ENTRIES with 24.
  destruct (fmin f); [|lia].
  apply N.log2_up_le_pow2; [lia|]. set (P := 2 ^ 24) in *. clearbody P. lia.
Qed.

Lemma code_len_bits_le f : code_len_bits f <= 5.
Proof. unfold code_len_bits. destruct (f5 f); vm_compute; discriminate. Qed.

Lemma code_len_le_31 f p : Nlen (p_code p) < 2 ^ code_len_bits f -> Nlen (p_code p) <= 31.
Proof.
  unfold code_len_bits. destruct (f5 f);
    [change (2 ^ Consts.CODE_LEN_BITS_5) with 32|change (2 ^ Consts.CODE_LEN_BITS_4) with 16]; lia.
Qed.

Lemma jump_bits_le j : jump_bits j <= 6.
Proof. destruct j; cbn; lia. Qed.

(* what the bounds need of a prefix: code length L, and a range inside the w-bit type *)
Definition sized_prefix (w L : N) (p : prefix) : Prop :=
  Nlen (p_code p) <= L /\ p_upper p <= umax w.

(* each stored prefix: count + 2 bounds + code length field + code + jumpstart + gcd *)
Lemma prefix_bits_le f pd n common w L p :
  n < 2 ^ 24 -> phys pd <= w -> sized_prefix w L p ->
  prefix_bits f pd n common p <= 35 + L + 2 * w + match common with None => 1 + w | Some _ => 0 end.
Proof.
  intros Hn Hph (Hl & Hu). unfold prefix_bits.
  pose proof (count_bits_le f n Hn). pose proof (code_len_bits_le f). pose proof (jump_bits_le (p_jump p)).
  destruct common as [g|]; [lia|].
  assert (Hr : p_upper p - p_lower p <= umax w) by lia.
  pose proof (gcd_field_bits_le w _ (p_gcd p) Hr). lia.
Qed.

Lemma prefixes_hdr_bits_le f pd ps :
  prefixes_hdr_bits f pd ps
  <= 15 + match table_common f pd ps with None => 1 | Some _ => 2 + ubits pd end.
Proof.
  unfold prefixes_hdr_bits, table_common. destruct (fgcd f); [|lia].
  destruct (common_gcd pd ps) as [g|]; [|lia].
  pose proof (gcd_field_bits_le (ubits pd) (umax (ubits pd)) g (N.le_refl _)). lia.
Qed.

(* ---- 2b. the metadata bits, bounded ---- *)
(* general form: tables with code lengths <= L *)
Theorem meta_bits_le f d m L :
  m_n m < 2 ^ 24 ->
  Forall (sized_prefix (ubits d) L) (m_table m) ->
  meta_bits f d m <= 73 + ubits d + Nlen (m_moments m) * phys (sdt d)
                     + Nlen (m_table m) * (36 + L + 3 * ubits d).
Proof.
  intros Hn Hps. unfold meta_bits.
  pose proof (prefixes_hdr_bits_le f (pdt f d) (m_table m)) as Hh.
  rewrite ubits_pdt in Hh.
  set (common := table_common f (pdt f d) (m_table m)) in *.
  assert (Hs : nsum (map (prefix_bits f (pdt f d) (m_n m) common) (m_table m))
               <= Nlen (m_table m) * (35 + L + 2 * ubits d
                    + match common with None => 1 + ubits d | Some _ => 0 end)).
  { rewrite <- nsum_map_const.
    apply (nsum_map_le _ _ (sized_prefix (ubits d) L)); [|exact Hps].
    intros p Hp. apply prefix_bits_le; [exact Hn|apply phys_pdt_le_ubits|exact Hp]. }
  set (S := nsum _) in *. clearbody S.
  set (T := Nlen (m_table m)) in *. set (W := ubits d) in *. clearbody T W.
  destruct common as [g|]; nia.
Qed.

(* ---- 2c. from bits to the byte formula of the property ---- *)
(* [1 +] is the magic chunk byte *)
Lemma meta_bytes_arith w o np M :
  w mod 8 = 0 -> M <= 73 + (o + 1) * w + np * (67 + 3 * w) ->
  1 + cdiv8 M <= 11 + (o + 1) * w / 8 + np * ((67 + 3 * w) / 8 + 1).
Proof.
  intros Hw HM.
  assert (Hv : w = 8 * (w / 8)) by lia. set (v := w / 8) in *. clearbody v. subst w.
  assert (E1 : (67 + 3 * (8 * v)) / 8 = 8 + 3 * v) by lia.
  assert (E2 : (o + 1) * (8 * v) / 8 = (o + 1) * v).
  { replace ((o + 1) * (8 * v)) with ((o + 1) * v * 8) by ring. apply N.div_mul. lia. }
  rewrite E1, E2.
  replace ((o + 1) * (8 * v)) with (8 * ((o + 1) * v)) in HM by ring.
  replace (np * (67 + 3 * (8 * v))) with (67 * np + 24 * (np * v)) in HM by ring.
  replace (np * (8 + 3 * v + 1)) with (9 * np + 3 * (np * v)) by ring.
  set (P := (o + 1) * v) in *. set (Q := np * v) in *. clearbody P Q.
  unfold cdiv8. lia.
Qed.

(* the metadata of a chunk, chunk byte included, for EVERY data type with W = ubits d
   (for bool: ubits = 8).  [sized_prefix .. 31]: code lengths fit the 5-bit field and the
   ranges lie inside the type, as for every table the format can store. *)
Theorem chunk_meta_bytes_le f d m :
  m_n m < 2 ^ 24 -> Nlen (m_moments m) = ford f ->
  Forall (sized_prefix (ubits d) 31) (m_table m) ->
  1 + cdiv8 (meta_bits f d m)
  <= 11 + (ford f + 1) * ubits d / 8 + Nlen (m_table m) * ((67 + 3 * ubits d) / 8 + 1).
Proof.
  intros Hn Hmo Hps. apply meta_bytes_arith; [apply ubits_mod8|].
  pose proof (meta_bits_le f d m 31 Hn Hps) as H. rewrite Hmo in H.
  pose proof (phys_sdt_le_ubits d) as Hp.
  assert (ford f * phys (sdt d) <= ford f * ubits d) by (apply N.mul_le_mono_l; exact Hp).
  set (A := ford f * phys (sdt d)) in *. set (T := Nlen (m_table m)) in *.
  set (W := ubits d) in *. set (O := ford f) in *. clearbody A T W O.
  replace ((O + 1) * W) with (O * W + W) by ring. lia.
Qed.

(* ---- bool: W = 1 in the property ---- *)
Lemma gcd_field_bits_le1 r g : r <= 1 -> gcd_field_bits r g <= 1.
Proof.
  intros H. unfold gcd_field_bits, gcd_bits.
  assert (E : r = 0 \/ r = 1) by lia. destruct E as [-> | ->]; destruct (g =? 1); cbn; lia.
Qed.

Lemma prefix_bits_bool_le f n common L p :
  n < 2 ^ 24 -> Nlen (p_code p) <= L -> p_upper p <= 1 ->
  prefix_bits f DBool n common p <= 52 + L.
Proof.
  intros Hn Hl Hu. unfold prefix_bits.
  pose proof (count_bits_le f n Hn). pose proof (code_len_bits_le f). pose proof (jump_bits_le (p_jump p)).
  change (phys DBool) with 8.
  destruct common as [g|]; [lia|].
  assert (Hr : p_upper p - p_lower p <= 1) by lia.
  pose proof (gcd_field_bits_le1 _ (p_gcd p) Hr). lia.
Qed.

Lemma pdt_bool f : pdt f DBool = DBool.
Proof. unfold pdt. destruct (ford f =? 0); reflexivity. Qed.

Theorem meta_bits_bool_le f m L :
  m_n m < 2 ^ 24 ->
  Forall (fun p => Nlen (p_code p) <= L /\ p_upper p <= 1) (m_table m) ->
  meta_bits f DBool m <= 81 + Nlen (m_moments m) * 8 + Nlen (m_table m) * (52 + L).
Proof.
  intros Hn Hps. unfold meta_bits.
  pose proof (prefixes_hdr_bits_le f (pdt f DBool) (m_table m)) as Hh.
  rewrite pdt_bool in *. change (ubits DBool) with 8 in Hh. change (phys (sdt DBool)) with 8.
  set (common := table_common f DBool (m_table m)) in *.
  assert (Hs : nsum (map (prefix_bits f DBool (m_n m) common) (m_table m))
               <= Nlen (m_table m) * (52 + L)).
  { rewrite <- nsum_map_const.
    apply (nsum_map_le _ _ (fun p => Nlen (p_code p) <= L /\ p_upper p <= 1)); [|exact Hps].
    intros p (H1 & H2). apply prefix_bits_bool_le; assumption. }
  set (S := nsum _) in *. clearbody S. destruct common; lia.
Qed.

(* bool, adjusted: [phys] (8) in the moments term, W = 1 in the prefix term; needs code
   lengths <= 20 (see [bool_prefix_term_counterexample] below) *)
Theorem chunk_meta_bytes_bool_le f m :
  m_n m < 2 ^ 24 -> Nlen (m_moments m) = ford f ->
  Forall (fun p => Nlen (p_code p) <= 20 /\ p_upper p <= 1) (m_table m) ->
  1 + cdiv8 (meta_bits f DBool m)
  <= 12 + (ford f + 1) * phys DBool / 8 + Nlen (m_table m) * ((67 + 3 * 1) / 8 + 1).
Proof.
  intros Hn Hmo Hps. pose proof (meta_bits_bool_le f m 20 Hn Hps) as H. rewrite Hmo in H.
  change (phys DBool) with 8. change ((67 + 3 * 1) / 8 + 1) with 9.
  rewrite N.div_mul by lia.
  set (T := Nlen (m_table m)) in *. set (O := ford f) in *. set (M := meta_bits f DBool m) in *.
  clearbody T O M. unfold cdiv8. lia.
Qed.

(* ---- 2d. the file header ---- *)
Lemma write_flags_bytes f fb :
  ford f <= 7 -> write_flags f = Ok fb -> Nlen (bits_to_bytes fb) <= 1.
Proof.
  intros Ho. destruct f as [b5 o bm bg]. cbn [ford] in Ho.
  assert (Hc : o = 0 \/ o = 1 \/ o = 2 \/ o = 3 \/ o = 4 \/ o = 5 \/ o = 6 \/ o = 7) by lia.
  destruct b5, bm, bg;
  destruct Hc as [->|[->|[->|[->|[->|[->|[->| ->]]]]]]];
  vm_compute; intros H; apply Ok_inj in H; subst fb; vm_compute; discriminate.
Qed.

(* magic (4) + data type byte + flag byte *)
Theorem header_bytes_le d f hb :
  ford f <= 7 -> header_bytes d f = Ok hb -> Nlen hb <= 6.
Proof.
  intros Ho. unfold header_bytes.
  destruct (write_flags f) as [fb| |] eqn:E; cbn [bind]; try discriminate.
  intros H. apply Ok_inj in H. subst hb.
  pose proof (write_flags_bytes f fb Ho E).
  rewrite !Nlen_app. change (Nlen Consts.MAGIC_HEADER) with 4. change (Nlen [hdr d]) with 1. lia.
Qed.

Theorem header_bytes_writer d order gcds hb :
  order <= 7 -> header_bytes d (writer_flags order gcds) = Ok hb -> Nlen hb = 6.
Proof.
  intros Ho. unfold header_bytes.
  destruct (writer_flags_roundtrip order gcds [] Ho) as (fb & Hw & Hl & _).
  rewrite Hw. cbn [bind]. intros H. apply Ok_inj in H. subst hb.
  assert (H8 : Nlen fb mod 8 = 0) by (rewrite Hl; reflexivity).
  pose proof (bits_to_bytes_Nlen fb H8).
  rewrite !Nlen_app. change (Nlen Consts.MAGIC_HEADER) with 4. change (Nlen [hdr d]) with 1. lia.
Qed.

(* ---- 2e. one chunk: exact accounting of chunk_payload ---- *)
Theorem chunk_payload_bytes d f table xs m bs :
  chunk_payload d f table xs = Ok (m, bs) ->
  m_n m = Nlen xs /\ m_table m = table /\ m_moments m = chunk_moments d (ford f) xs /\
  (exists b, write_body_fuel (length (chunk_unsigneds d (ford f) xs)) table
               (chunk_unsigneds d (ford f) xs) = Ok b /\ m_body m = cdiv8 (Nlen b)) /\
  Nlen bs = cdiv8 (meta_bits f d m) + m_body m.
Proof.
  unfold chunk_payload. cbv zeta. unfold write_body.
  set (us := chunk_unsigneds d (ford f) xs).
  destruct (write_body_fuel (length us) table us) as [b| |] eqn:Eb; cbn [bind]; try discriminate.
  set (m0 := mkMeta _ _ _ _).
  destruct (write_meta f d m0) as [mb| |] eqn:Em; cbn [bind]; try discriminate.
  intros H. apply Ok_inj in H. injection H as <- <-.
  unfold m0 at 1 2 3. cbn [m_n m_table m_moments].
  split; [reflexivity|]. split; [reflexivity|]. split; [reflexivity|].
  split.
  - exists b. split; [reflexivity|]. unfold m0. cbn [m_body]. apply bytes_of_pad8.
  - rewrite Nlen_app, (write_meta_bytes f d m0 mb Em). unfold m0 at 2. cbn [m_body]. reflexivity.
Qed.

(* the table of a [chunk_ok] chunk is sized: code lengths fit the field, ranges the type *)
Lemma chunk_ok_sized d f xs table :
  chunk_ok d f (xs, table) -> Forall (sized_prefix (ubits d) 31) table.
Proof.
  unfold chunk_ok. cbn [fst snd]. intros (_ & _ & (_ & Hwf & _) & _ & _ & Hmp & _).
  rewrite ubits_pdt in Hwf. rewrite Forall_forall in *. intros p Hp. split.
  - destruct (Hmp p Hp) as (_ & _ & _ & _ & _ & _ & Hc & _). exact (code_len_le_31 f p Hc).
  - destruct (Hwf p Hp) as (_ & _ & Hu & _). exact Hu.
Qed.

Lemma chunk_ok_bool_upper f xs table :
  chunk_ok DBool f (xs, table) -> Forall (fun p => p_upper p <= 1) table.
Proof.
  unfold chunk_ok. cbn [fst snd]. intros (_ & _ & _ & _ & _ & Hmp & _).
  rewrite pdt_bool in Hmp. eapply Forall_impl; [|exact Hmp].
  intros p (_ & _ & _ & _ & Hu & _). exact Hu.
Qed.

(* 2. per chunk, metadata with its chunk byte: the bound of the property, W = ubits d.
   True for every data type when W is ubits (so for every type except bool, where the
   property says W = 1). *)
Theorem chunk_meta_bound d f xs table m bs :
  chunk_ok d f (xs, table) -> chunk_payload d f table xs = Ok (m, bs) ->
  1 + (Nlen bs - m_body m)
  <= 12 + (ford f + 1) * ubits d / 8 + Nlen table * ((67 + 3 * ubits d) / 8 + 1).
Proof.
  intros Hok Hp.
  destruct (chunk_payload_bytes d f table xs m bs Hp) as (Hn & Ht & Hm & _ & Hl).
  pose proof (chunk_ok_sized d f xs table Hok) as Hs.
  pose proof Hok as Hok'. unfold chunk_ok in Hok'. cbn [fst snd] in Hok'. destruct Hok' as (Hlen & _).
  pose proof (chunk_meta_bytes_le f d m) as H. rewrite Hn, Ht, Hm in H.
  specialize (H Hlen). unfold Nlen at 1 in H. rewrite chunk_moments_length, N2Nat.id in H.
  specialize (H eq_refl Hs). rewrite Hl. lia.
Qed.

Theorem chunk_meta_bound_bool f xs table m bs :
  chunk_ok DBool f (xs, table) -> Forall (fun p => Nlen (p_code p) <= 20) table ->
  chunk_payload DBool f table xs = Ok (m, bs) ->
  1 + (Nlen bs - m_body m)
  <= 12 + (ford f + 1) * phys DBool / 8 + Nlen table * ((67 + 3 * 1) / 8 + 1).
Proof.
  intros Hok H20 Hp.
  destruct (chunk_payload_bytes DBool f table xs m bs Hp) as (Hn & Ht & Hm & _ & Hl).
  pose proof (chunk_ok_bool_upper f xs table Hok) as Hu.
  pose proof Hok as Hok'. unfold chunk_ok in Hok'. cbn [fst snd] in Hok'. destruct Hok' as (Hlen & _).
  pose proof (chunk_meta_bytes_bool_le f m) as H. rewrite Hn, Ht, Hm in H.
  specialize (H Hlen). unfold Nlen at 1 in H. rewrite chunk_moments_length, N2Nat.id in H.
  assert (Hps : Forall (fun p => Nlen (p_code p) <= 20 /\ p_upper p <= 1) table).
  { rewrite Forall_forall in *. intros p Hin. split; auto. }
  specialize (H eq_refl Hps). rewrite Hl. lia.
Qed.

(* ================================================================== *)
(* 3. the whole file                                                   *)
(* ================================================================== *)
(* W of the property: the width of the type's integer representation; 1 for bool *)
Definition wbits (d : dtype) : N := match d with DBool => 1 | _ => ubits d end.

(* the property's per-chunk term, with W in the prefix and body terms and Wm in the
   moments term (the property has Wm = W), and its whole-file bound *)
Definition chunk_bound (W Wm order : N) (c : list Z * list prefix) : N :=
  12 + (order + 1) * Wm / 8 + Nlen (snd c) * ((67 + 3 * W) / 8 + 1)
  + cdiv8 (Nlen (fst c) * (W + 4)).
Definition file_bound (W Wm order : N) (chunks : list (list Z * list prefix)) : N :=
  8 + nsum (map (chunk_bound W Wm order) chunks).

(* ---- the literal bound fails for bool: the moments are one byte each, not one bit ---- *)
Example bool_literal_counterexample :
  let f := writer_flags 7 true in
  let chunks := [([1%Z], @nil prefix)] in
  chunk_ok DBool f ([1%Z], []) /\
  exists bytes, file_bytes DBool f chunks = Ok bytes /\
    Reader.decode_file DBool bytes = Ok [1%Z] /\
    Nlen bytes = 24 /\ file_bound (wbits DBool) (wbits DBool) 7 chunks = 22.
Proof.
  cbv zeta. split.
  - unfold chunk_ok. cbn [fst snd]. split; [vm_compute; reflexivity|].
    split; [repeat constructor|].
    split; [split; [reflexivity|split; [constructor|vm_compute; lia]]|].
    split; [vm_compute; constructor|]. split; [vm_compute; reflexivity|].
    split; [constructor|]. split; [intros; constructor|]. intros g _ H. discriminate H.
  - eexists. split; [vm_compute; reflexivity|]. split; [vm_compute; reflexivity|].
    split; vm_compute; reflexivity.
Qed.

(* ---- for bool the prefix term with W = 1 (9 bytes a prefix) also fails when the table
   has long codes: a prefix stores count (24) + 2 bytes + 5 + code + 6 bits.  A complete
   prefix tree of 58 leaves (depths 1..26 and 32 at depth 31) for a chunk of 2^24 - 1
   bools: 548 bytes of metadata against 535.  (Shown on the metadata, which depends on
   the chunk only through n; the metadata reads back.) ---- *)
Definition deep_table : list prefix :=
  map (fun i => mkPrefix 0 0 1 (repeat true i ++ [false]) (Some 0) 1) (seq 0 26)
  ++ map (fun k => mkPrefix 0 0 1 (repeat true 26 ++ put 5 (N.of_nat k)) (Some 0) 1) (seq 0 32).

Example bool_prefix_term_counterexample :
  let f := writer_flags 0 false in
  let m := mkMeta 16777215 0 [] deep_table in
  table_ok deep_table = true /\
  Forall (fun p => Nlen (p_code p) <= 31 /\ p_upper p <= 1) deep_table /\
  exists mb, write_meta f DBool m = Ok mb /\
    parse_meta f DBool mb = Ok (m, []) /\
    1 + Nlen (bits_to_bytes mb) = 548 /\
    12 + (ford f + 1) * phys DBool / 8 + Nlen deep_table * ((67 + 3 * 1) / 8 + 1) = 535.
Proof.
  cbv zeta. split; [vm_compute; reflexivity|]. split.
  - apply Forall_forall. intros p Hp. vm_compute in Hp.
    repeat (destruct Hp as [<-|Hp]; [split; vm_compute; discriminate|]). destruct Hp.
  - eexists. split; [vm_compute; reflexivity|]. split; [vm_compute; reflexivity|].
    split; vm_compute; reflexivity.
Qed.

(* ---- 96-bit timestamps: W must be ubits (128: the moments and, at order >= 1, the prefix
   bounds are i128 values of 16 bytes), not the physical width 96.  With W = 96 the
   moments term fails: order 7, two chunks of one number: 251 bytes against 250; with
   W = ubits = 128 the bound is 322. ---- *)
Example ts96_phys_width_counterexample :
  let f := writer_flags 7 true in
  let chunks := [([0%Z], @nil prefix); ([0%Z], @nil prefix)] in
  chunk_ok DTsMicros96 f ([0%Z], []) /\
  exists bytes, file_bytes DTsMicros96 f chunks = Ok bytes /\
    Reader.decode_file DTsMicros96 bytes = Ok [0%Z; 0%Z] /\
    Nlen bytes = 251 /\
    file_bound (phys DTsMicros96) (phys DTsMicros96) 7 chunks = 250 /\
    file_bound (wbits DTsMicros96) (wbits DTsMicros96) 7 chunks = 322.
Proof.
  cbv zeta. split.
  - unfold chunk_ok. cbn [fst snd]. split; [vm_compute; reflexivity|].
    split; [repeat constructor|].
    split; [split; [reflexivity|split; [constructor|vm_compute; lia]]|].
    split; [vm_compute; constructor|]. split; [vm_compute; reflexivity|].
    split; [constructor|]. split; [intros; constructor|]. intros g _ H. discriminate H.
  - eexists. split; [vm_compute; reflexivity|]. split; [vm_compute; reflexivity|].
    repeat split; vm_compute; reflexivity.
Qed.

(* ---- sanity: the bounds on FileL's example chunk (i32, 2 prefixes, 5 numbers) ---- *)
Example chunk_bound_example :
  exists m bs, chunk_payload DI32 (writer_flags 0 true) ex_table ex_xs = Ok (m, bs) /\
    meta_bits (writer_flags 0 true) DI32 m = 258 /\ m_body m = 2 /\ Nlen bs = 35 /\
    12 + (0 + 1) * ubits DI32 / 8 + Nlen ex_table * ((67 + 3 * ubits DI32) / 8 + 1) = 58.
Proof.
  eexists. eexists. split; [vm_compute; reflexivity|]. repeat split; vm_compute; reflexivity.
Qed.

(* ---- composition ---- *)
Lemma chunks_bytes_le d f (B : list Z * list prefix -> N) : forall chunks cb,
  chunks_bytes d f chunks = Ok cb ->
  (forall xs table m bs, In (xs, table) chunks -> chunk_payload d f table xs = Ok (m, bs) ->
                         1 + Nlen bs <= B (xs, table)) ->
  Nlen cb <= nsum (map B chunks).
Proof.
  induction chunks as [|[xs table] t IH]; intros cb H HB.
  - cbn [chunks_bytes] in H. apply Ok_inj in H. subst cb. cbn. lia.
  - cbn [chunks_bytes] in H.
    destruct (chunk_payload d f table xs) as [[m bs]| |] eqn:Ep; cbn [bind] in H; try discriminate.
    destruct (chunks_bytes d f t) as [r| |] eqn:Er; cbn [bind] in H; try discriminate.
    apply Ok_inj in H. subst cb. cbn [map]. rewrite nsum_cons, !Nlen_app.
    change (Nlen [Consts.MAGIC_CHUNK_BYTE]) with 1.
    pose proof (HB xs table m bs (or_introl eq_refl) Ep) as H1.
    assert (H2 : Nlen r <= nsum (map B t)).
    { apply IH; [reflexivity|]. intros xs' t' m' bs' Hin. apply HB. right. exact Hin. }
    lia.
Qed.

(* header (<= 6) + chunks + footer (1) *)
Lemma file_bytes_le d f (B : list Z * list prefix -> N) chunks bytes :
  ford f <= 7 -> file_bytes d f chunks = Ok bytes ->
  (forall xs table m bs, In (xs, table) chunks -> chunk_payload d f table xs = Ok (m, bs) ->
                         1 + Nlen bs <= B (xs, table)) ->
  Nlen bytes <= 7 + nsum (map B chunks).
Proof.
  intros Ho H HB. unfold file_bytes in H.
  destruct (header_bytes d f) as [hb| |] eqn:Eh; cbn [bind] in H; try discriminate.
  destruct (chunks_bytes d f chunks) as [cb| |] eqn:Ec; cbn [bind] in H; try discriminate.
  apply Ok_inj in H. subst bytes. rewrite !Nlen_app.
  change (Nlen [Consts.MAGIC_TERMINATION_BYTE]) with 1.
  pose proof (header_bytes_le d f hb Ho Eh). pose proof (chunks_bytes_le d f B chunks cb Ec HB). lia.
Qed.

(* 3. [total_from_body]: if every chunk's body obeys the property's body term (this is
   what depends on the policy's code lengths), the file obeys the property's bound.
   All data types except bool (W = ubits d). *)
Theorem total_from_body d f chunks bytes :
  d <> DBool -> ford f <= 7 ->
  Forall (chunk_ok d f) chunks -> file_bytes d f chunks = Ok bytes ->
  (forall xs table m bs, In (xs, table) chunks -> chunk_payload d f table xs = Ok (m, bs) ->
                         m_body m <= cdiv8 (Nlen xs * (wbits d + 4))) ->
  Nlen bytes <= file_bound (wbits d) (wbits d) (ford f) chunks.
Proof.
  intros Hd Ho Hok Hf Hbody.
  assert (Ew : wbits d = ubits d) by (destruct d; try reflexivity; congruence).
  rewrite Ew in *. unfold file_bound.
  pose proof (file_bytes_le d f (chunk_bound (ubits d) (ubits d) (ford f)) chunks bytes Ho Hf) as H.
  assert (HB : forall xs table m bs, In (xs, table) chunks ->
               chunk_payload d f table xs = Ok (m, bs) ->
               1 + Nlen bs <= chunk_bound (ubits d) (ubits d) (ford f) (xs, table)).
  { intros xs table m bs Hin Hp. rewrite Forall_forall in Hok.
    pose proof (chunk_meta_bound d f xs table m bs (Hok _ Hin) Hp) as H1.
    pose proof (Hbody xs table m bs Hin Hp) as H2.
    destruct (chunk_payload_bytes d f table xs m bs Hp) as (_ & _ & _ & _ & Hl).
    unfold chunk_bound. cbn [fst snd]. lia. }
  specialize (H HB). lia.
Qed.

(* the same with W = ubits d for every data type, bool included (ubits bool = 8) *)
Theorem total_from_body_ubits d f chunks bytes :
  ford f <= 7 ->
  Forall (chunk_ok d f) chunks -> file_bytes d f chunks = Ok bytes ->
  (forall xs table m bs, In (xs, table) chunks -> chunk_payload d f table xs = Ok (m, bs) ->
                         m_body m <= cdiv8 (Nlen xs * (ubits d + 4))) ->
  Nlen bytes <= file_bound (ubits d) (ubits d) (ford f) chunks.
Proof.
  intros Ho Hok Hf Hbody. unfold file_bound.
  pose proof (file_bytes_le d f (chunk_bound (ubits d) (ubits d) (ford f)) chunks bytes Ho Hf) as H.
  assert (HB : forall xs table m bs, In (xs, table) chunks ->
               chunk_payload d f table xs = Ok (m, bs) ->
               1 + Nlen bs <= chunk_bound (ubits d) (ubits d) (ford f) (xs, table)).
  { intros xs table m bs Hin Hp. rewrite Forall_forall in Hok.
    pose proof (chunk_meta_bound d f xs table m bs (Hok _ Hin) Hp) as H1.
    pose proof (Hbody xs table m bs Hin Hp) as H2.
    destruct (chunk_payload_bytes d f table xs m bs Hp) as (_ & _ & _ & _ & Hl).
    unfold chunk_bound. cbn [fst snd]. lia. }
  specialize (H HB). lia.
Qed.

(* bool, adjusted: W = 1 in the prefix and body terms, phys (8) in the moments term;
   needs code lengths <= 20 *)
Theorem total_from_body_bool f chunks bytes :
  ford f <= 7 ->
  Forall (chunk_ok DBool f) chunks ->
  Forall (fun c => Forall (fun p => Nlen (p_code p) <= 20) (snd c)) chunks ->
  file_bytes DBool f chunks = Ok bytes ->
  (forall xs table m bs, In (xs, table) chunks -> chunk_payload DBool f table xs = Ok (m, bs) ->
                         m_body m <= cdiv8 (Nlen xs * (wbits DBool + 4))) ->
  Nlen bytes <= file_bound (wbits DBool) (phys DBool) (ford f) chunks.
Proof.
  intros Ho Hok H20 Hf Hbody. unfold file_bound.
  pose proof (file_bytes_le DBool f (chunk_bound (wbits DBool) (phys DBool) (ford f)) chunks bytes Ho Hf) as H.
  assert (HB : forall xs table m bs, In (xs, table) chunks ->
               chunk_payload DBool f table xs = Ok (m, bs) ->
               1 + Nlen bs <= chunk_bound (wbits DBool) (phys DBool) (ford f) (xs, table)).
  { intros xs table m bs Hin Hp. rewrite Forall_forall in Hok, H20.
    pose proof (chunk_meta_bound_bool f xs table m bs (Hok _ Hin) (H20 _ Hin) Hp) as H1.
    pose proof (Hbody xs table m bs Hin Hp) as H2.
    destruct (chunk_payload_bytes DBool f table xs m bs Hp) as (_ & _ & _ & _ & Hl).
    unfold chunk_bound. cbn [fst snd]. change (wbits DBool) with 1 in *. lia. }
  specialize (H HB). lia.
Qed.

(* ================================================================== *)
(* 4. a policy-independent bound on the body                           *)
(* ================================================================== *)
Lemma blocks_cost_le w L V ps : forall blocks,
  Forall (BodyL.wf_prefix w) ps -> Forall (fun p => Nlen (p_code p) <= L) ps ->
  (forall p j, In p ps -> p_jump p = Some j -> 48 <= V) ->
  Forall (block_wf ps) blocks ->
  nsum (map block_cost blocks)
  <= Nlen blocks * (L + V) + w * Nlen (concat (map snd blocks)) /\
  Nlen blocks <= Nlen (concat (map snd blocks)).
Proof.
  intros blocks Hwf HL HV HB. induction HB as [|b t Hb _ IH].
  - cbn. lia.
  - cbn [map concat]. rewrite nsum_cons, Nlen_app, !Nlen_cons.
    pose proof (block_cost_le_w w ps b Hwf Hb) as Hc.
    destruct Hb as (Hin & Hne & _ & _).
    rewrite Forall_forall in HL. pose proof (HL _ Hin) as Hl.
    assert (Hv : match p_jump (fst b) with None => 0 | Some _ => 48 end <= V).
    { destruct (p_jump (fst b)) as [j|] eqn:Ej; [exact (HV _ j Hin Ej)|lia]. }
    assert (H1 : 1 <= Nlen (snd b)).
    { destruct (snd b); [congruence|rewrite Nlen_cons; lia]. }
    destruct IH as [IH1 IH2].
    set (R := Nlen (snd b)) in *. set (T := Nlen t) in *.
    set (C := Nlen (concat (map snd t))) in *. clearbody R T C. nia.
Qed.

(* 4a. body bits <= (number of blocks) * (L + V) + n * w, blocks <= n;
   V = 48 (the run-length field) or 0 for a table without run-length prefixes *)
Theorem body_bits_le_blocks w L V ps fuel us b :
  Forall (BodyL.wf_prefix w) ps -> Forall (fun p => Nlen (p_code p) <= L) ps ->
  (forall p j, In p ps -> p_jump p = Some j -> 48 <= V) ->
  write_body_fuel fuel ps us = Ok b ->
  Nlen b <= Nlen (body_blocks fuel ps us) * (L + V) + w * Nlen us /\
  Nlen (body_blocks fuel ps us) <= Nlen us.
Proof.
  intros Hwf HL HV Hw. rewrite (body_bits_exact ps fuel us b Hw).
  destruct (blocks_cost_le w L V ps _ Hwf HL HV (body_blocks_wf ps fuel us)) as [H1 H2].
  pose proof (body_blocks_count_le ps fuel us) as H3.
  split; [|lia].
  assert (w * Nlen (concat (map snd (body_blocks fuel ps us))) <= w * Nlen us)
    by (apply N.mul_le_mono_l; exact H3).
  lia.
Qed.

(* 4b. any table: n * (L + 48 + w) *)
Theorem body_bits_le w L ps fuel us b :
  Forall (BodyL.wf_prefix w) ps -> Forall (fun p => Nlen (p_code p) <= L) ps ->
  write_body_fuel fuel ps us = Ok b ->
  Nlen b <= Nlen us * (L + 48 + w).
Proof.
  intros Hwf HL Hw.
  destruct (body_bits_le_blocks w L 48 ps fuel us b Hwf HL) as [H1 H2]; [intros; lia|exact Hw|].
  set (B := Nlen (body_blocks fuel ps us)) in *. set (U := Nlen us) in *. clearbody B U.
  assert (B * (L + 48) <= U * (L + 48)) by (apply N.mul_le_mono_r; exact H2). nia.
Qed.

(* 4c. no run-length prefix in the table: n * (L + w) *)
Theorem body_bits_le_norun w L ps fuel us b :
  Forall (BodyL.wf_prefix w) ps -> Forall (fun p => Nlen (p_code p) <= L) ps ->
  Forall (fun p => p_jump p = None) ps ->
  write_body_fuel fuel ps us = Ok b ->
  Nlen b <= Nlen us * (L + w).
Proof.
  intros Hwf HL HN Hw.
  destruct (body_bits_le_blocks w L 0 ps fuel us b Hwf HL) as [H1 H2]; [|exact Hw|].
  - intros p j Hin Hj. rewrite Forall_forall in HN. rewrite (HN p Hin) in Hj. discriminate.
  - set (B := Nlen (body_blocks fuel ps us)) in *. set (U := Nlen us) in *. clearbody B U.
    assert (B * (L + 0) <= U * (L + 0)) by (apply N.mul_le_mono_r; exact H2). nia.
Qed.

(* 4d. for a [chunk_ok] chunk (code lengths <= 31, they fit the 5-bit field): the body
   is at most ceil((n - order) * (79 + W) / 8) bytes, W = ubits d *)
Theorem chunk_body_bytes_le d f xs table m bs :
  chunk_ok d f (xs, table) -> chunk_payload d f table xs = Ok (m, bs) ->
  m_body m <= cdiv8 ((Nlen xs - ford f) * (79 + ubits d)).
Proof.
  intros Hok Hp.
  destruct (chunk_payload_bytes d f table xs m bs Hp) as (_ & _ & _ & (b & Hb & Hm) & _).
  pose proof (chunk_ok_sized d f xs table Hok) as Hs.
  unfold chunk_ok in Hok. cbn [fst snd] in Hok. destruct Hok as (_ & _ & (_ & Hwf & _) & _).
  rewrite ubits_pdt in Hwf.
  assert (HL : Forall (fun p => Nlen (p_code p) <= 31) table).
  { eapply Forall_impl; [|exact Hs]. intros p (H & _). exact H. }
  pose proof (body_bits_le (ubits d) 31 table _ _ b Hwf HL Hb) as H.
  rewrite chunk_unsigneds_Nlen in H. rewrite Hm. apply cdiv8_mono.
  set (U := Nlen xs - ford f) in *. clearbody U. lia.
Qed.

Theorem chunk_body_bytes_le_norun d f xs table m bs :
  chunk_ok d f (xs, table) -> Forall (fun p => p_jump p = None) table ->
  chunk_payload d f table xs = Ok (m, bs) ->
  m_body m <= cdiv8 ((Nlen xs - ford f) * (31 + ubits d)).
Proof.
  intros Hok HN Hp.
  destruct (chunk_payload_bytes d f table xs m bs Hp) as (_ & _ & _ & (b & Hb & Hm) & _).
  pose proof (chunk_ok_sized d f xs table Hok) as Hs.
  unfold chunk_ok in Hok. cbn [fst snd] in Hok. destruct Hok as (_ & _ & (_ & Hwf & _) & _).
  rewrite ubits_pdt in Hwf.
  assert (HL : Forall (fun p => Nlen (p_code p) <= 31) table).
  { eapply Forall_impl; [|exact Hs]. intros p (H & _). exact H. }
  pose proof (body_bits_le_norun (ubits d) 31 table _ _ b Hwf HL HN Hb) as H.
  rewrite chunk_unsigneds_Nlen in H. rewrite Hm. apply cdiv8_mono. exact H.
Qed.

(* 4e. unconditional: every file the writer produces from [chunk_ok] chunks, for every
   data type (W = ubits d), with the body term n * (W + 79) in place of n * (W + 4) *)
Definition chunk_bound_uncond (W order : N) (c : list Z * list prefix) : N :=
  12 + (order + 1) * W / 8 + Nlen (snd c) * ((67 + 3 * W) / 8 + 1)
  + cdiv8 (Nlen (fst c) * (W + 79)).

Theorem total_unconditional d f chunks bytes :
  ford f <= 7 ->
  Forall (chunk_ok d f) chunks -> file_bytes d f chunks = Ok bytes ->
  Nlen bytes <= 8 + nsum (map (chunk_bound_uncond (ubits d) (ford f)) chunks).
Proof.
  intros Ho Hok Hf.
  pose proof (file_bytes_le d f (chunk_bound_uncond (ubits d) (ford f)) chunks bytes Ho Hf) as H.
  assert (HB : forall xs table m bs, In (xs, table) chunks ->
               chunk_payload d f table xs = Ok (m, bs) ->
               1 + Nlen bs <= chunk_bound_uncond (ubits d) (ford f) (xs, table)).
  { intros xs table m bs Hin Hp. rewrite Forall_forall in Hok.
    pose proof (chunk_meta_bound d f xs table m bs (Hok _ Hin) Hp) as H1.
    pose proof (chunk_body_bytes_le d f xs table m bs (Hok _ Hin) Hp) as H2.
    destruct (chunk_payload_bytes d f table xs m bs Hp) as (_ & _ & _ & _ & Hl).
    assert (H3 : cdiv8 ((Nlen xs - ford f) * (79 + ubits d)) <= cdiv8 (Nlen xs * (ubits d + 79))).
    { apply cdiv8_mono. rewrite (N.add_comm 79). apply N.mul_le_mono_r. lia. }
    unfold chunk_bound_uncond. cbn [fst snd]. lia. }
  specialize (H HB). lia.
Qed.

Print Assumptions body_bits_exact.
Print Assumptions write_offset_le_w.
Print Assumptions block_cost_le_k.
Print Assumptions block_cost_le_w.
Print Assumptions write_meta_bits.
Print Assumptions chunk_payload_bytes.
Print Assumptions chunk_meta_bound.
Print Assumptions chunk_meta_bound_bool.
Print Assumptions bool_literal_counterexample.
Print Assumptions bool_prefix_term_counterexample.
Print Assumptions ts96_phys_width_counterexample.
Print Assumptions header_bytes_le.
Print Assumptions total_from_body.
Print Assumptions total_from_body_ubits.
Print Assumptions total_from_body_bool.
Print Assumptions body_bits_le_blocks.
Print Assumptions body_bits_le.
Print Assumptions body_bits_le_norun.
Print Assumptions chunk_body_bytes_le.
Print Assumptions total_unconditional.
