(* MetaL.v — chunk metadata: writer/reader round trip for all flags, data types and
   well-formed metadata; the normalisation of the gcd fields the reader applies. *)
From QCo.Lemmas Require Import Tactics BitsL DTypeL CodecL.
From QCo.Model Require Import Base Consts DType Codec.
Open Scope N_scope.

(* ---------------- padding ---------------- *)
Lemma pad_len_lt l : pad_len l < 8.
Proof. unfold pad_len. lia. Qed.

Lemma pad_len_mod l : (l + pad_len l) mod 8 = 0.
Proof. unfold pad_len. lia. Qed.

Lemma Nlen_repeat {A} (x : A) k : Nlen (repeat x k) = N.of_nat k.
Proof. unfold Nlen. rewrite repeat_length. reflexivity. Qed.

Lemma pad8_length s : Nlen (pad8 s) mod 8 = 0.
Proof.
  unfold pad8. rewrite Nlen_app, Nlen_repeat, N2Nat.id.
  apply pad_len_mod.
Qed.

Lemma firstn_repeat_app {A} (x : A) k l : firstn k (repeat x k ++ l) = repeat x k.
Proof. induction k as [|k IH]; cbn [repeat app firstn]; [reflexivity|]. rewrite IH. reflexivity. Qed.

Lemma skipn_repeat_app {A} (x : A) k l : skipn k (repeat x k ++ l) = l.
Proof. induction k as [|k IH]; cbn [repeat app skipn]; [reflexivity|]. exact IH. Qed.

Lemma existsb_repeat_false k : existsb (fun b : bool => b) (repeat false k) = false.
Proof. induction k as [|k IH]; cbn [repeat existsb orb]; [reflexivity|]. exact IH. Qed.

(* the padding bits are recognised by the reader: k zero bits followed by a
   byte-aligned remainder *)
Lemma drain_pad_pad k rest : k < 8 -> Nlen rest mod 8 = 0 ->
  drain_pad (repeat false (N.to_nat k) ++ rest) = Ok rest.
Proof.
  intros Hk Hr. unfold drain_pad.
  assert (E : Nlen (repeat false (N.to_nat k) ++ rest) mod 8 = k).
  { rewrite Nlen_app, Nlen_repeat, N2Nat.id.
    set (r := Nlen rest) in *. clearbody r. lia. }
  rewrite E, firstn_repeat_app, skipn_repeat_app, existsb_repeat_false. reflexivity.
Qed.

Lemma drain_pad_pad8 (s rest : bits) : Nlen rest mod 8 = 0 ->
  drain_pad (repeat false (N.to_nat (pad_len (Nlen s))) ++ rest) = Ok rest.
Proof. intros H. apply drain_pad_pad; [apply pad_len_lt | exact H]. Qed.

(* ---------------- raw numbers ---------------- *)
Lemma num_roundtrip d x : valid d x = true ->
  exists b, write_num d x = Ok b /\ Nlen b = phys d /\
            forall s, read_num d (b ++ s) = Ok (x, s).
Proof.
  intros Hv. destruct (read_write_num d x [] Hv) as (b & Hw & Hl & _).
  exists b. split; [exact Hw|]. split; [exact Hl|]. intros s.
  destruct (read_write_num d x s Hv) as (b' & Hw' & _ & Hr).
  rewrite Hw in Hw'. inversion Hw'; subst b'. exact Hr.
Qed.

Lemma unum_roundtrip pd u : u_dom pd u -> valid pd (of_u pd u) = true ->
  exists b, write_unum pd u = Ok b /\ Nlen b = phys pd /\
            forall s, read_unum pd (b ++ s) = Ok (u, s).
Proof.
  intros Hd Hv. destruct (num_roundtrip pd (of_u pd u) Hv) as (b & Hw & Hl & Hr).
  exists b. split; [exact Hw|]. split; [exact Hl|]. intros s.
  unfold read_unum. rewrite Hr. cbn [bind]. rewrite to_u_of_u by exact Hd. reflexivity.
Qed.

(* ---------------- moments ---------------- *)
Lemma moments_roundtrip sd ms :
  Forall (fun x => valid sd x = true) ms ->
  exists b, write_moments sd ms = Ok b /\
            forall s, read_moments sd (length ms) (b ++ s) = Ok (ms, s).
Proof.
  induction ms as [|x t IH]; intros H.
  - exists []. split; reflexivity.
  - inversion H as [|? ? Hx Ht]; subst.
    destruct (num_roundtrip sd x Hx) as (bx & Hwx & _ & Hrx).
    destruct (IH Ht) as (bt & Hwt & Hrt).
    exists (bx ++ bt). cbn [write_moments]. rewrite Hwx, Hwt. cbn [bind].
    split; [reflexivity|]. intros s.
    cbn [length read_moments]. rewrite <- app_assoc, Hrx. cbn [bind].
    rewrite Hrt. cbn [bind]. reflexivity.
Qed.

(* ---------------- the common gcd ---------------- *)
(* the prefix's range holds more than one value *)
Definition multi (pd : dtype) (p : prefix) : bool := val_neq pd (p_lower p) (p_upper p).

Lemma multi_true pd p : multi pd p = true <-> p_lower p <> p_upper p.
Proof.
  unfold multi, val_neq. rewrite negb_true_iff, N.eqb_neq. reflexivity.
Qed.

Lemma scan_some pd ps : forall x share g' sh',
  common_gcd_scan pd ps (Some x) share = (g', sh') ->
  g' = Some x /\ (sh' = true -> share = true /\ filter (multi pd) ps = []).
Proof.
  induction ps as [|p t IH]; intros x share g' sh' H.
  - cbn [common_gcd_scan] in H. inversion H; subst. auto.
  - cbn [common_gcd_scan filter] in *.
    change (val_neq pd (p_lower p) (p_upper p)) with (multi pd p) in H.
    destruct (multi pd p) eqn:E.
    + apply IH in H. destruct H as [-> H]. split; [reflexivity|].
      intros Hs. destruct (H Hs) as [Hf _]. discriminate.
    + apply IH in H. exact H.
Qed.

Lemma scan_none pd ps : forall share g' sh',
  common_gcd_scan pd ps None share = (g', sh') -> sh' = true ->
  share = true /\
  ((g' = None /\ filter (multi pd) ps = []) \/
   (exists p, filter (multi pd) ps = [p] /\ g' = Some (p_gcd p))).
Proof.
  induction ps as [|p t IH]; intros share g' sh' H Hs.
  - cbn [common_gcd_scan] in H. inversion H; subst. auto.
  - cbn [common_gcd_scan filter] in *.
    change (val_neq pd (p_lower p) (p_upper p)) with (multi pd p) in H.
    destruct (multi pd p) eqn:E.
    + apply scan_some in H. destruct H as [-> H]. destruct (H Hs) as [-> Hf].
      split; [reflexivity|]. right. exists p. rewrite Hf. auto.
    + apply IH in H; assumption.
Qed.

(* a common gcd exists exactly when at most one prefix has a range of more than one
   value; it is that prefix's gcd, or 1 when there is none *)
Lemma common_gcd_some pd ps g : common_gcd pd ps = Some g ->
  (filter (multi pd) ps = [] /\ g = 1) \/
  (exists p, filter (multi pd) ps = [p] /\ g = p_gcd p).
Proof.
  unfold common_gcd. destruct ps as [|p0 t]; [discriminate|].
  destruct (common_gcd_scan pd (p0 :: t) None true) as [g' sh'] eqn:E.
  intros H. destruct sh'; [|destruct g'; discriminate].
  destruct (scan_none _ _ _ _ _ E eq_refl) as [_ [[-> Hf] | (p & Hf & ->)]].
  - inversion H; subst. left. auto.
  - inversion H; subst. right. exists p. auto.
Qed.

(* the key fact: every prefix whose range is not a single value already carries the
   common gcd *)
Lemma common_gcd_multi pd ps g p :
  common_gcd pd ps = Some g -> In p ps -> p_lower p <> p_upper p -> p_gcd p = g.
Proof.
  intros Hc Hin Hne.
  assert (Hf : In p (filter (multi pd) ps)).
  { apply filter_In. split; [exact Hin|]. apply multi_true. exact Hne. }
  destruct (common_gcd_some _ _ _ Hc) as [[E _] | (q & E & ->)]; rewrite E in Hf.
  - destruct Hf.
  - destruct Hf as [-> | []]. reflexivity.
Qed.

Lemma common_gcd_at_most_one pd ps g : common_gcd pd ps = Some g ->
  (length (filter (multi pd) ps) <= 1)%nat /\
  (filter (multi pd) ps = [] -> g = 1).
Proof.
  intros Hc. destruct (common_gcd_some _ _ _ Hc) as [[E ->] | (q & E & ->)]; rewrite E.
  - split; [cbn [length]; lia | reflexivity].
  - split; [cbn [length]; lia | discriminate].
Qed.

Lemma common_gcd_pos pd ps g :
  Forall (fun p => 1 <= p_gcd p) ps -> common_gcd pd ps = Some g -> 1 <= g.
Proof.
  intros HF Hc. destruct (common_gcd_some _ _ _ Hc) as [[_ ->] | (q & E & ->)]; [lia|].
  assert (Hin : In q (filter (multi pd) ps)) by (rewrite E; left; reflexivity).
  apply filter_In in Hin. destruct Hin as [Hin _].
  rewrite Forall_forall in HF. apply HF. exact Hin.
Qed.

(* ---------------- normalisation of the gcd fields ---------------- *)
Definition set_gcd (g : N) (p : prefix) : prefix :=
  mkPrefix (p_count p) (p_lower p) (p_upper p) (p_code p) (p_jump p) g.

(* what the prefix-list reader returns, given the common gcd it was handed *)
Definition norm_common (common : option N) (ps : list prefix) : list prefix :=
  match common with
  | Some g => map (set_gcd g) ps
  | None => ps
  end.

(* the common gcd field of a table as the writer computes it *)
Definition table_common (f : flags) (pd : dtype) (ps : list prefix) : option N :=
  if fgcd f then common_gcd pd ps else Some 1.

Definition norm_table (f : flags) (pd : dtype) (ps : list prefix) : list prefix :=
  if fgcd f then
    match common_gcd pd ps with
    | Some g => map (set_gcd g) ps
    | None => ps
    end
  else map (set_gcd 1) ps.

Lemma norm_table_common f pd ps :
  norm_table f pd ps = norm_common (table_common f pd ps) ps.
Proof. unfold norm_table, table_common, norm_common. destruct (fgcd f); reflexivity. Qed.

Lemma set_gcd_same p : set_gcd (p_gcd p) p = p.
Proof. destruct p; reflexivity. Qed.

Lemma set_gcd_multi pd ps g p :
  common_gcd pd ps = Some g -> In p ps -> p_lower p <> p_upper p -> set_gcd g p = p.
Proof.
  intros Hc Hin Hne. rewrite <- (common_gcd_multi _ _ _ _ Hc Hin Hne). apply set_gcd_same.
Qed.

(* the recorded divisor of a single-valued range is not significant *)
Lemma p_range_single g p : p_lower p = p_upper p -> p_range (set_gcd g p) = 0.
Proof.
  intros E. unfold p_range, set_gcd; cbn [p_upper p_lower p_gcd].
  rewrite E, N.sub_diag. destruct g; reflexivity.
Qed.

(* with the gcd flag on, normalisation keeps every field except the gcd of
   prefixes whose range is a single value *)
Lemma norm_table_spec f pd ps : fgcd f = true ->
  Forall2 (fun p q => q = set_gcd (p_gcd q) p /\ (p_lower p <> p_upper p -> q = p))
          ps (norm_table f pd ps).
Proof.
  intros Ef. unfold norm_table. rewrite Ef.
  destruct (common_gcd pd ps) as [g|] eqn:Ec.
  - assert (H : forall l, incl l ps ->
                Forall2 (fun p q => q = set_gcd (p_gcd q) p /\ (p_lower p <> p_upper p -> q = p))
                        l (map (set_gcd g) l)).
    { induction l as [|p l IH]; intros Hi; cbn [map]; constructor.
      - split; [reflexivity|]. intros Hne.
        apply (set_gcd_multi pd ps g p Ec); [apply Hi; left; reflexivity | exact Hne].
      - apply IH. intros x Hx. apply Hi. right. exact Hx. }
    apply H. apply incl_refl.
  - induction ps as [|p l IH]; constructor.
    + split; [symmetry; apply set_gcd_same | reflexivity].
    + clear. induction l as [|q l IH]; constructor;
        [split; [symmetry; apply set_gcd_same | reflexivity] | exact IH].
Qed.

(* ---------------- well-formedness ---------------- *)
(* a prefix the format can represent, given the common gcd field [common] it is
   written under *)
Definition wf_prefix (f : flags) (pd : dtype) (n : N) (common : option N) (p : prefix) : Prop :=
  p_count p < 2 ^ count_bits f n /\
  p_lower p <= p_upper p /\
  u_dom pd (p_lower p) /\ valid pd (of_u pd (p_lower p)) = true /\
  u_dom pd (p_upper p) /\ valid pd (of_u pd (p_upper p)) = true /\
  Nlen (p_code p) < 2 ^ code_len_bits f /\
  (forall v, p_jump p = Some v -> v < 2 ^ Consts.BITS_TO_ENCODE_JUMPSTART) /\
  1 <= p_gcd p /\
  match common with
  | None => p_gcd p = 1 \/ p_gcd p <= p_upper p - p_lower p
  | Some _ => True
  end.

Definition wf_meta (f : flags) (d : dtype) (m : meta) : Prop :=
  m_n m < 2 ^ Consts.BITS_TO_ENCODE_N_ENTRIES /\
  m_body m < 2 ^ Consts.BITS_TO_ENCODE_COMPRESSED_BODY_SIZE /\
  length (m_moments m) = N.to_nat (ford f) /\
  Forall (fun x => valid (sdt d) x = true) (m_moments m) /\
  Nlen (m_table m) < 2 ^ Consts.BITS_TO_ENCODE_N_PREFIXES /\
  Forall (wf_prefix f (pdt f d) (m_n m) (table_common f (pdt f d) (m_table m))) (m_table m) /\
  (fgcd f = false -> Forall (fun p => p_gcd p = 1) (m_table m)) /\
  (forall g, fgcd f = true -> common_gcd (pdt f d) (m_table m) = Some g ->
             g <= umax (ubits (pdt f d))).

Lemma wf_meta_moments_nil f d m : wf_meta f d m -> ford f = 0 -> m_moments m = [].
Proof.
  intros (_ & _ & Hl & _) E. rewrite E in Hl. destruct (m_moments m); [reflexivity|discriminate].
Qed.

(* without the gcd flag a well-formed table is left unchanged by the reader *)
Lemma norm_table_nogcd f d m : wf_meta f d m -> fgcd f = false ->
  norm_table f (pdt f d) (m_table m) = m_table m.
Proof.
  intros (_ & _ & _ & _ & _ & _ & H1 & _) Ef. specialize (H1 Ef).
  unfold norm_table. rewrite Ef. induction H1 as [|p l Hp _ IH]; [reflexivity|].
  cbn [map]. rewrite IH. rewrite <- Hp at 1. rewrite set_gcd_same. reflexivity.
Qed.

(* ---------------- prefix list ---------------- *)
Lemma prefix_list_roundtrip_ex f pd n common ps :
  Forall (wf_prefix f pd n common) ps ->
  exists b, write_prefix_list f pd n common ps = Ok b /\
            forall s, read_prefix_list f pd n common (length ps) (b ++ s)
                      = Ok (norm_common common ps, s).
Proof.
  induction ps as [|p t IH]; intros H.
  - exists []. split; [reflexivity|]. intros s. destruct common; reflexivity.
  - inversion H as [|? ? Hp Ht]; subst. clear H.
    destruct (IH Ht) as (br & Hwr & Hrr). clear IH.
    destruct p as [cnt lo up code j g].
    destruct Hp as (Hc & Hle & Hdl & Hvl & Hdu & Hvu & Hcl & Hj & Hg1 & Hg).
    cbn [p_count p_lower p_upper p_code p_jump p_gcd] in *.
    destruct (unum_roundtrip pd lo Hdl Hvl) as (blo & Hwlo & _ & Hrlo).
    destruct (unum_roundtrip pd up Hdu Hvu) as (bup & Hwup & _ & Hrup).
    cbn [write_prefix_list p_count p_lower p_upper p_code p_jump p_gcd].
    rewrite Hwlo, Hwup, Hwr. cbn [bind].
    eexists. split; [reflexivity|]. intros s.
    cbn [length read_prefix_list].
    repeat rewrite <- app_assoc.
    rewrite get_put_small by exact Hc. cbn [bind].
    rewrite Hrlo. cbn [bind]. rewrite Hrup. cbn [bind].
    assert (Elt : (up <? lo) = false) by (apply N.ltb_ge; exact Hle).
    rewrite Elt.
    rewrite get_put_small by exact Hcl. cbn [bind].
    rewrite get_bits_app by reflexivity. cbn [bind].
    assert (Hrest : forall jv s7,
      (do '(g0, s8) <- match common with
                       | Some g0 => Ok (g0, s7)
                       | None => read_gcd (up - lo) s7
                       end;
       do '(rest, s9) <- read_prefix_list f pd n common (length t) s8;
       Ok (mkPrefix cnt lo up code jv g0 :: rest, s9)) =
      match common with
      | Some _ => do '(rest, s9) <- read_prefix_list f pd n common (length t) s7;
                  Ok (mkPrefix cnt lo up code jv
                        (match common with Some g0 => g0 | None => g end) :: rest, s9)
      | None => do '(g0, s8) <- read_gcd (up - lo) s7;
                do '(rest, s9) <- read_prefix_list f pd n common (length t) s8;
                Ok (mkPrefix cnt lo up code jv g0 :: rest, s9)
      end).
    { intros jv s7. destruct common; reflexivity. }
    destruct j as [v|]; cbn [write_jump app get1 bind].
    + rewrite get_put_small by (apply Hj; reflexivity). cbn [bind].
      rewrite Hrest. destruct common as [g0|]; cbn [app].
      * rewrite Hrr. cbn [bind norm_common map]. reflexivity.
      * rewrite gcd_roundtrip by assumption. cbn [bind].
        rewrite Hrr. cbn [bind norm_common]. reflexivity.
    + rewrite Hrest. destruct common as [g0|]; cbn [app].
      * rewrite Hrr. cbn [bind norm_common map]. reflexivity.
      * rewrite gcd_roundtrip by assumption. cbn [bind].
        rewrite Hrr. cbn [bind norm_common]. reflexivity.
Qed.

Lemma prefix_list_roundtrip f pd n common ps b s :
  Forall (wf_prefix f pd n common) ps ->
  write_prefix_list f pd n common ps = Ok b ->
  read_prefix_list f pd n common (length ps) (b ++ s) = Ok (norm_common common ps, s).
Proof.
  intros H Hw. destruct (prefix_list_roundtrip_ex f pd n common ps H) as (b' & Hw' & Hr).
  rewrite Hw in Hw'. inversion Hw'; subst b'. apply Hr.
Qed.

(* ---------------- prefix table ---------------- *)
Lemma wf_prefix_gcd_pos f pd n common ps :
  Forall (wf_prefix f pd n common) ps -> Forall (fun p => 1 <= p_gcd p) ps.
Proof.
  intros H. induction H as [|p l Hp _ IH]; constructor; [|exact IH].
  destruct Hp as (_ & _ & _ & _ & _ & _ & _ & _ & Hg & _). exact Hg.
Qed.

Lemma prefixes_roundtrip_ex f pd n ps :
  Nlen ps < 2 ^ Consts.BITS_TO_ENCODE_N_PREFIXES ->
  Forall (wf_prefix f pd n (table_common f pd ps)) ps ->
  (forall g, fgcd f = true -> common_gcd pd ps = Some g -> g <= umax (ubits pd)) ->
  exists b, write_prefixes f pd n ps = Ok b /\
            forall s, read_prefixes f pd n (b ++ s) = Ok (norm_table f pd ps, s).
Proof.
  intros Hn Hwf Hg.
  destruct (prefix_list_roundtrip_ex f pd n _ ps Hwf) as (body & Hw & Hr).
  pose proof (wf_prefix_gcd_pos _ _ _ _ _ Hwf) as Hpos.
  rewrite norm_table_common.
  unfold write_prefixes, read_prefixes. cbv zeta.
  unfold table_common in *.
  destruct (fgcd f) eqn:Ef.
  - destruct (common_gcd pd ps) as [g|] eqn:Ec.
    + rewrite Hw. cbn [bind]. eexists. split; [reflexivity|]. intros s.
      repeat rewrite <- app_assoc.
      rewrite get_put_small by exact Hn. cbn [bind app get1].
      assert (H1 : 1 <= g) by (apply (common_gcd_pos pd ps g Hpos Ec)).
      assert (H2 : g = 1 \/ g <= umax (ubits pd)) by (right; apply Hg; reflexivity).
      rewrite gcd_roundtrip by assumption. cbn [bind].
      unfold Nlen. rewrite Nat2N.id. apply Hr.
    + rewrite Hw. cbn [bind]. eexists. split; [reflexivity|]. intros s.
      repeat rewrite <- app_assoc.
      rewrite get_put_small by exact Hn. cbn [bind app get1].
      unfold Nlen. rewrite Nat2N.id. apply Hr.
  - rewrite Hw. cbn [bind]. eexists. split; [reflexivity|]. intros s.
    repeat rewrite <- app_assoc.
    rewrite get_put_small by exact Hn. cbn [bind app].
    unfold Nlen. rewrite Nat2N.id. apply Hr.
Qed.

Lemma prefixes_roundtrip f pd n ps b s :
  Nlen ps < 2 ^ Consts.BITS_TO_ENCODE_N_PREFIXES ->
  Forall (wf_prefix f pd n (table_common f pd ps)) ps ->
  (forall g, fgcd f = true -> common_gcd pd ps = Some g -> g <= umax (ubits pd)) ->
  write_prefixes f pd n ps = Ok b ->
  read_prefixes f pd n (b ++ s) = Ok (norm_table f pd ps, s).
Proof.
  intros H1 H2 H3 Hw.
  destruct (prefixes_roundtrip_ex f pd n ps H1 H2 H3) as (b' & Hw' & Hr).
  rewrite Hw in Hw'. inversion Hw'; subst b'. apply Hr.
Qed.

(* ---------------- chunk metadata ---------------- *)
Lemma read_moments_order0 (f : flags) sd s :
  (if ford f =? 0 then Ok ([], s) else read_moments sd (N.to_nat (ford f)) s)
  = read_moments sd (N.to_nat (ford f)) s.
Proof.
  destruct (ford f =? 0) eqn:E; [|reflexivity].
  apply N.eqb_eq in E. rewrite E. reflexivity.
Qed.

Theorem meta_roundtrip_ex f d m : wf_meta f d m ->
  exists b, write_meta f d m = Ok b /\ Nlen b mod 8 = 0 /\
    forall rest, Nlen rest mod 8 = 0 ->
      parse_meta f d (b ++ rest)
      = Ok (mkMeta (m_n m) (m_body m) (m_moments m)
                   (norm_table f (pdt f d) (m_table m)), rest).
Proof.
  intros (Hn & Hb & Hl & Hmo & Hnp & Hps & _ & Hg).
  destruct (moments_roundtrip (sdt d) (m_moments m) Hmo) as (mo & Hwm & Hrm).
  destruct (prefixes_roundtrip_ex f (pdt f d) (m_n m) (m_table m) Hnp Hps Hg)
    as (pb & Hwp & Hrp).
  unfold write_meta. rewrite Hwm, Hwp. cbn [bind].
  eexists. split; [reflexivity|]. split; [apply pad8_length|].
  intros rest Hrest.
  unfold pad8.
  match goal with
  | |- context [pad_len (N.of_nat (length ?X))] =>
      pose proof (pad_len_lt (N.of_nat (length X))) as Hk;
      set (k := pad_len (N.of_nat (length X))) in *; clearbody k
  end.
  repeat rewrite <- app_assoc.
  unfold parse_meta.
  rewrite get_put_small by exact Hn. cbn [bind].
  rewrite get_put_small by exact Hb. cbn [bind].
  rewrite read_moments_order0. rewrite <- Hl. rewrite Hrm. cbn [bind].
  rewrite Hrp. cbn [bind].
  rewrite drain_pad_pad by assumption. cbn [bind]. reflexivity.
Qed.

Theorem meta_roundtrip : forall f d m b rest,
  wf_meta f d m -> write_meta f d m = Ok b -> Nlen rest mod 8 = 0 ->
  parse_meta f d (b ++ rest)
  = Ok (mkMeta (m_n m) (m_body m) (m_moments m)
               (norm_table f (pdt f d) (m_table m)), rest).
Proof.
  intros f d m b rest Hwf Hw Hrest.
  destruct (meta_roundtrip_ex f d m Hwf) as (b' & Hw' & _ & Hr).
  rewrite Hw in Hw'. inversion Hw'; subst b'. apply Hr. exact Hrest.
Qed.

Theorem write_meta_ok : forall f d m,
  wf_meta f d m -> exists b, write_meta f d m = Ok b /\ Nlen b mod 8 = 0.
Proof.
  intros f d m Hwf.
  destruct (meta_roundtrip_ex f d m Hwf) as (b & Hw & Hlen & _).
  exists b. split; assumption.
Qed.

Lemma write_meta_aligned f d m b : write_meta f d m = Ok b -> Nlen b mod 8 = 0.
Proof.
  unfold write_meta.
  destruct (write_moments (sdt d) (m_moments m)) as [mo| |]; cbn [bind]; try discriminate.
  destruct (write_prefixes f (pdt f d) (m_n m) (m_table m)) as [ps| |]; cbn [bind]; try discriminate.
  intros H. inversion H; subst. apply pad8_length.
Qed.

Print Assumptions meta_roundtrip.
Print Assumptions write_meta_ok.
Print Assumptions common_gcd_multi.
Print Assumptions norm_table_spec.
