(* CodecL.v — varint, offset, gcd field: writer/reader round trips, length bounds,
   and absence of Panic in read_offset on arbitrary (hostile) streams. *)
From QCo.Lemmas Require Import Tactics BitsL.
From QCo.Model Require Import Base Consts DType Codec.
Open Scope N_scope.

(* ---------------- stride: the Huffman lookup-table stride ---------------- *)
(* [Codec.stride] is MAX_PREFIX_TABLE_SIZE_LOG of the generated Consts.v.  The lemmas of this
   section are the ONLY facts about the VALUE of that constant that the development uses; they
   are proved by computation from the generated constant and fail when it leaves the range
   for which the properties hold.  Every other lemma holds for any stride within these bounds
   ([stride] is opaque below).
   - stride_pos: a stride of 0 bits is the unbounded recursion of
     build_from_prefixes_recursive.
   - stride_le_footer: a complete file ends with the footer byte, so 8 real bits follow the
     last code of the last body; a stride wider than that makes the checked lookup of the last
     code report InsufficientData on a complete file.
   - stride_reach: the fuel 33 of Codec.tsearch / Fast.usearch (a model device; the Rust loop
     has none) must reach the longest code that read_code_at's bounds check lets through, 40
     bits: 33 strides cover them iff stride >= 2. *)
Lemma stride_pos : (1 <= stride)%nat.
Proof. apply Nat.leb_le. vm_compute. reflexivity. Qed.

Lemma stride_le_footer : (stride <= 8)%nat.
Proof. apply Nat.leb_le. vm_compute. reflexivity. Qed.

Lemma stride_reach : (40 <= stride * 33)%nat.
Proof. apply Nat.leb_le. vm_compute. reflexivity. Qed.

(* not facts about the value: the two spellings of the constant *)
Lemma stride_to_nat : N.to_nat Consts.MAX_PREFIX_TABLE_SIZE_LOG = stride.
Proof. reflexivity. Qed.

Lemma stride_of_nat : N.of_nat stride = Consts.MAX_PREFIX_TABLE_SIZE_LOG.
Proof. unfold stride. apply N2Nat.id. Qed.

Global Opaque stride.

(* ---------------- small helpers ---------------- *)
Lemma Nlen_app {A} (a b : list A) : Nlen (a ++ b) = Nlen a + Nlen b.
Proof. unfold Nlen. rewrite app_length. lia. Qed.

Lemma Nlen_nil {A} : Nlen (@nil A) = 0.
Proof. reflexivity. Qed.

Lemma Nlen_cons {A} (x : A) l : Nlen (x :: l) = 1 + Nlen l.
Proof. unfold Nlen. cbn [length]. lia. Qed.

Lemma pow2_pos k : 1 <= 2 ^ k.
Proof. pose proof (N.pow_nonzero 2 k). lia. Qed.

Lemma testbit_low a k : a < 2 ^ k -> N.testbit a k = false.
Proof.
  intros H. apply N.testbit_false. rewrite N.div_small by exact H. reflexivity.
Qed.

Lemma high_div_mod a k : 2 ^ k <= a < 2 ^ (k + 1) -> a / 2 ^ k = 1 /\ a mod 2 ^ k = a - 2 ^ k.
Proof.
  rewrite N.pow_add_r, N.pow_1_r. pose proof (pow2_pos k) as HP.
  set (P := 2 ^ k) in *. clearbody P. intros H.
  split.
  - symmetry. apply (N.div_unique a P 1 (a - P)); lia.
  - symmetry. apply (N.mod_unique a P 1 (a - P)); lia.
Qed.

Lemma testbit_high a k : 2 ^ k <= a < 2 ^ (k + 1) -> N.testbit a k = true.
Proof.
  intros H. apply N.testbit_true. destruct (high_div_mod a k H) as [-> _]. reflexivity.
Qed.

(* a checked fixed-width read returns a value below 2^n, whatever the stream *)
Lemma getn_acc_bound n : forall acc s v s',
  getn_acc n acc s = Some (v, s') ->
  acc * 2 ^ N.of_nat n <= v < (acc + 1) * 2 ^ N.of_nat n.
Proof.
  induction n as [|n IH]; intros acc s v s' H.
  - cbn [getn_acc] in H. inversion H; subst. change (2 ^ N.of_nat 0) with 1. lia.
  - cbn [getn_acc] in H. destruct s as [|b t]; [discriminate|].
    apply IH in H. rewrite Nat2N.inj_succ, N.pow_succ_r'.
    set (P := 2 ^ N.of_nat n) in *. clearbody P.
    destruct b; cbn [N.b2n] in H; lia.
Qed.

Lemma get_lt n s v s' : get n s = Ok (v, s') -> v < 2 ^ n.
Proof.
  unfold get, getn. intros H.
  destruct (getn_acc (N.to_nat n) 0 s) as [[v0 s0]|] eqn:G; [|discriminate].
  inversion H; subst. apply getn_acc_bound in G. rewrite N2Nat.id in G.
  set (P := 2 ^ n) in *. clearbody P. lia.
Qed.

Lemma get_not_panic n s : get n s <> Panic.
Proof. unfold get. destruct (getn (N.to_nat n) s); discriminate. Qed.

(* ---------------- varint ---------------- *)
Lemma read_varint_cont_spec left : forall i acc x s,
  x < 2 ^ N.of_nat left ->
  read_varint_cont left i acc (varint_cont left x ++ s) = Ok (acc + x * 2 ^ i, s).
Proof.
  induction left as [|l IH]; intros i acc x s Hx.
  - change (2 ^ N.of_nat 0) with 1 in Hx. assert (x = 0) by lia. subst x.
    cbn [varint_cont read_varint_cont app]. rewrite N.mul_0_l, N.add_0_r. reflexivity.
  - cbn [varint_cont]. destruct (x =? 0) eqn:E.
    + apply N.eqb_eq in E. subst x. cbn [app read_varint_cont get1 bind].
      rewrite N.mul_0_l, N.add_0_r. reflexivity.
    + cbn [app read_varint_cont get1 bind].
      pose proof (N.div2_odd x) as Hd.
      rewrite IH.
      * f_equal. f_equal. unfold pow2. rewrite N.pow_add_r, N.pow_1_r.
        set (P := 2 ^ i). clearbody P.
        set (d := N.div2 x) in *. clearbody d.
        destruct (N.odd x); cbn [N.b2n] in Hd; rewrite Hd; lia.
      * rewrite Nat2N.inj_succ, N.pow_succ_r' in Hx.
        set (P := 2 ^ N.of_nat l) in *. clearbody P.
        set (d := N.div2 x) in *. clearbody d.
        destruct (N.odd x); cbn [N.b2n] in Hd; lia.
Qed.

Theorem varint_roundtrip : forall j x s, j <= 24 -> x < 2 ^ 24 ->
  read_varint j (write_varint x j ++ s) = Ok (x, s).
Proof.
  intros j x s Hj Hx. unfold read_varint, write_varint.
  change Consts.BITS_TO_ENCODE_N_ENTRIES with 24.
  rewrite <- app_assoc, get_put. cbn [bind].
  assert (HP : 2 ^ j <> 0) by (apply N.pow_nonzero; lia).
  rewrite read_varint_cont_spec.
  - f_equal. f_equal. rewrite N.shiftr_div_pow2.
    pose proof (N.div_mod x (2 ^ j) HP) as Hdm.
    set (P := 2 ^ j) in *. clearbody P.
    set (q := x / P) in *. set (r := x mod P) in *. clearbody q r. lia.
  - rewrite N2Nat.id, N.shiftr_div_pow2.
    apply N.div_lt_upper_bound; [exact HP|].
    rewrite <- N.pow_add_r. replace (j + (24 - j)) with 24 by lia. exact Hx.
Qed.

Lemma varint_cont_length left : forall x, Nlen (varint_cont left x) <= 2 * N.of_nat left.
Proof.
  induction left as [|l IH]; intros x.
  - cbn [varint_cont]. rewrite Nlen_nil. lia.
  - cbn [varint_cont]. destruct (x =? 0).
    + rewrite Nlen_cons, Nlen_nil. lia.
    + rewrite !Nlen_cons. specialize (IH (N.div2 x)). lia.
Qed.

(* exact-shape bound; needs no hypothesis at all *)
Lemma write_varint_length_bound j x :
  Nlen (write_varint x j) <= j + 2 * (24 - j).
Proof.
  unfold write_varint. change Consts.BITS_TO_ENCODE_N_ENTRIES with 24.
  rewrite Nlen_app, put_length.
  pose proof (varint_cont_length (N.to_nat (24 - j)) (N.shiftr x j)) as H.
  rewrite N2Nat.id in H. lia.
Qed.

Lemma write_varint_length_le j x : j <= 24 -> x < 2 ^ 24 -> Nlen (write_varint x j) <= 48.
Proof. intros Hj _. pose proof (write_varint_length_bound j x). lia. Qed.

(* ---------------- offsets ---------------- *)
Lemma k_spec r : 2 ^ k_of_range r <= r + 1 < 2 ^ (k_of_range r + 1).
Proof.
  unfold k_of_range. rewrite N.add_1_r with (n := N.log2 (r + 1)).
  apply N.log2_spec. lia.
Qed.

(* arithmetic facts about a well-formed prefix *)
Lemma prefix_facts w p :
  p_gcd p >= 1 -> p_lower p <= p_upper p -> p_upper p <= umax w ->
  let r := p_range p in
  let k := k_of_range r in
  r + 1 <= 2 ^ w /\ k <= w /\ (k = w -> r + 1 = 2 ^ k) /\
  (forall off, off <= r -> p_lower p + off * p_gcd p <= p_upper p).
Proof.
  intros Hg Hlu Hu r k. unfold umax, pow2 in Hu.
  pose proof (pow2_pos w) as Hw.
  assert (Hmul : forall off, off <= r -> off * p_gcd p <= p_upper p - p_lower p).
  { intros off Ho. apply N.le_trans with (r * p_gcd p).
    - apply N.mul_le_mono_r. exact Ho.
    - unfold r, p_range. rewrite N.mul_comm. apply N.mul_div_le. lia. }
  assert (Hr : r <= p_upper p - p_lower p).
  { apply N.le_trans with (r * p_gcd p); [|apply Hmul; lia].
    rewrite <- (N.mul_1_r r) at 1. apply N.mul_le_mono_l. lia. }
  assert (Hrw : r + 1 <= 2 ^ w) by lia.
  pose proof (k_spec r) as Hk. fold k in Hk.
  assert (Hkw : k <= w).
  { apply (N.pow_le_mono_r_iff 2); [lia|]. lia. }
  repeat split; try assumption.
  - intros ->. lia.
  - intros off Ho. specialize (Hmul off Ho). lia.
Qed.

Theorem offset_roundtrip : forall w p off s,
  p_gcd p >= 1 -> p_lower p <= p_upper p -> p_upper p <= umax w ->
  off <= p_range p ->
  read_offset w p (write_offset (p_range p) off ++ s)
  = Ok (p_lower p + off * p_gcd p, s).
Proof.
  intros w p off s Hg Hlu Hu Hoff.
  destruct (prefix_facts w p Hg Hlu Hu) as (Hrw & Hkw & Hkeq & Hup).
  specialize (Hup off Hoff).
  unfold read_offset, write_offset. cbv zeta. unfold umax, pow2 in *.
  set (r := p_range p) in *. set (k := k_of_range r) in *.
  pose proof (k_spec r) as Hk. fold k in Hk.
  pose proof (pow2_pos k) as HP1. pose proof (pow2_pos w) as HW1.
  rewrite <- app_assoc, get_put. cbn [bind].
  assert (Hfin : forall s',
     (if p_lower p + off * p_gcd p <=? 2 ^ w - 1
      then Ok (p_lower p + off * p_gcd p, s') else @Panic (N * bits))
     = Ok (p_lower p + off * p_gcd p, s')).
  { intros s'. set (M := off * p_gcd p) in *.
    destruct (p_lower p + M <=? 2 ^ w - 1) eqn:E; [reflexivity|].
    apply N.leb_gt in E. exfalso. set (W := 2 ^ w) in *. clearbody W M. lia. }
  clear Hup.
  destruct (N.lt_ge_cases off (2 ^ k)) as [Hlo|Hhi].
  - (* off < 2^k : the k low bits are off itself, the extra bit (if any) is 0 *)
    rewrite (N.mod_small off (2 ^ k)) by exact Hlo.
    rewrite (testbit_low off k Hlo).
    rewrite N.pow_add_r, N.pow_1_r in Hk.
    set (P := 2 ^ k) in *. set (W := 2 ^ w) in *. clearbody P W.
    destruct (k <? w) eqn:E1.
    + destruct (r <? off) eqn:E2; [exfalso; lia|].
      destruct (P <=? r - off) eqn:E3.
      * destruct ((off <? r - (P - 1)) || (P - 1 <? off)) eqn:E4; [|exfalso; lia].
        cbn [app get1 bind]. apply Hfin.
      * destruct ((off <? r - (P - 1)) || (P - 1 <? off)) eqn:E4; [exfalso; lia|].
        cbn [app bind]. apply Hfin.
    + apply N.ltb_ge in E1. assert (Hkw' : k = w) by lia.
      specialize (Hkeq Hkw').
      destruct ((off <? r - (P - 1)) || (P - 1 <? off)) eqn:E4; [exfalso; lia|].
      cbn [app bind]. apply Hfin.
  - (* 2^k <= off <= r : only possible when k < w; the extra bit is 1 *)
    assert (Hhi2 : 2 ^ k <= off < 2 ^ (k + 1)) by lia.
    destruct (high_div_mod off k Hhi2) as [_ Hmod]. rewrite Hmod.
    rewrite (testbit_high off k Hhi2).
    rewrite N.pow_add_r, N.pow_1_r in Hk.
    set (P := 2 ^ k) in *. set (W := 2 ^ w) in *. clearbody P W.
    destruct (k <? w) eqn:E1.
    + destruct (r <? off - P) eqn:E2; [exfalso; lia|].
      destruct (P <=? r - (off - P)) eqn:E3; [|exfalso; lia].
      destruct ((off <? r - (P - 1)) || (P - 1 <? off)) eqn:E4; [|exfalso; lia].
      cbn [app get1 bind].
      replace (off - P + P) with off by lia. apply Hfin.
    + apply N.ltb_ge in E1. assert (Hkw' : k = w) by lia.
      specialize (Hkeq Hkw'). exfalso. lia.
Qed.

(* number-level corollary *)
Theorem num_offset_roundtrip : forall w p u s,
  p_gcd p >= 1 -> p_lower p <= p_upper p -> p_upper p <= umax w ->
  p_lower p <= u -> u <= p_upper p -> (u - p_lower p) mod p_gcd p = 0 ->
  read_offset w p (write_num_offset p u ++ s) = Ok (u, s).
Proof.
  intros w p u s Hg Hlu Hu Hl Hh Hm.
  unfold write_num_offset, offset_of.
  rewrite offset_roundtrip; try assumption.
  - f_equal. f_equal.
    assert (Hg0 : p_gcd p <> 0) by lia.
    apply (N.div_exact (u - p_lower p) (p_gcd p) Hg0) in Hm.
    rewrite N.mul_comm, <- Hm. lia.
  - unfold p_range. apply N.div_le_mono; lia.
Qed.

Lemma write_offset_length r off : Nlen (write_offset r off) <= k_of_range r + 1.
Proof.
  unfold write_offset. cbv zeta. rewrite Nlen_app, put_length.
  destruct (_ || _); [rewrite Nlen_cons|]; rewrite Nlen_nil; lia.
Qed.

Lemma write_offset_length_ge r off : k_of_range r <= Nlen (write_offset r off).
Proof.
  unfold write_offset. cbv zeta. rewrite Nlen_app, put_length. lia.
Qed.

(* full range of a power of two: exactly k bits (needs off <= r; for off > r the
   writer would emit the extra bit) *)
Lemma write_offset_length_exact r off :
  off <= r -> r + 1 = 2 ^ k_of_range r -> Nlen (write_offset r off) = k_of_range r.
Proof.
  intros Ho Hr. unfold write_offset. cbv zeta. unfold pow2.
  rewrite Nlen_app, put_length.
  set (P := 2 ^ k_of_range r) in *. clearbody P.
  destruct ((off <? r - (P - 1)) || (P - 1 <? off)) eqn:E; [exfalso; lia|].
  rewrite Nlen_nil. lia.
Qed.

(* ---------------- read_offset on arbitrary streams ---------------- *)
(* Soundness on hostile bits: never Panic, the only error is InsufficientData, and a
   decoded number lies in the prefix's range on the prefix's gcd lattice. *)
Theorem read_offset_sound : forall w p s,
  p_gcd p >= 1 -> p_lower p <= p_upper p -> p_upper p <= umax w ->
  match read_offset w p s with
  | Ok (u, s') => p_lower p <= u <= p_upper p /\ (u - p_lower p) mod p_gcd p = 0
                  /\ (u - p_lower p) / p_gcd p <= p_range p
  | Err e => e = InsufficientData
  | Panic => False
  end.
Proof.
  intros w p s Hg Hlu Hu.
  destruct (prefix_facts w p Hg Hlu Hu) as (Hrw & Hkw & Hkeq & Hup).
  assert (Hg0 : p_gcd p <> 0) by lia.
  unfold read_offset. cbv zeta. unfold umax, pow2 in *.
  set (r := p_range p) in *. set (k := k_of_range r) in *.
  pose proof (k_spec r) as Hk. fold k in Hk.
  pose proof (pow2_pos k) as HP1. pose proof (pow2_pos w) as HW1.
  assert (Hfin : forall off' s', off' <= r ->
     match (if p_lower p + off' * p_gcd p <=? 2 ^ w - 1
            then Ok (p_lower p + off' * p_gcd p, s') else @Panic (N * bits)) with
     | Ok (u, s') => p_lower p <= u <= p_upper p /\ (u - p_lower p) mod p_gcd p = 0
                     /\ (u - p_lower p) / p_gcd p <= r
     | Err e => e = InsufficientData
     | Panic => False
     end).
  { intros off' s' Ho. specialize (Hup off' Ho).
    assert (Hsub : p_lower p + off' * p_gcd p - p_lower p = off' * p_gcd p) by lia.
    destruct (p_lower p + off' * p_gcd p <=? 2 ^ w - 1) eqn:E.
    - rewrite Hsub. split; [lia|]. split.
      + apply N.mod_mul. exact Hg0.
      + rewrite N.div_mul by exact Hg0. exact Ho.
    - apply N.leb_gt in E. set (W := 2 ^ w) in *. clearbody W. lia. }
  destruct (get k s) as [[off s1]|e|] eqn:G.
  - pose proof (get_lt _ _ _ _ G) as Hoff.
    cbn [bind].
    rewrite N.pow_add_r, N.pow_1_r in Hk.
    set (P := 2 ^ k) in *. clearbody P.
    destruct (k <? w) eqn:E1.
    + destruct (r <? off) eqn:E2; [exfalso; lia|].
      destruct (P <=? r - off) eqn:E3.
      * destruct s1 as [|b t]; cbn [get1 bind]; [reflexivity|].
        apply Hfin. destruct b; lia.
      * cbn [bind]. apply Hfin. lia.
    + apply N.ltb_ge in E1. assert (Hkw' : k = w) by lia.
      specialize (Hkeq Hkw'). cbn [bind]. apply Hfin. lia.
  - cbn [bind]. unfold get in G. destruct (getn (N.to_nat k) s); [discriminate|].
    inversion G. reflexivity.
  - exfalso. exact (get_not_panic _ _ G).
Qed.

Theorem read_offset_no_panic : forall w p s,
  p_gcd p >= 1 -> p_lower p <= p_upper p -> p_upper p <= umax w ->
  read_offset w p s <> Panic.
Proof.
  intros w p s Hg Hlu Hu H.
  pose proof (read_offset_sound w p s Hg Hlu Hu) as S. rewrite H in S. exact S.
Qed.

Corollary read_offset_range : forall w p s u s',
  p_gcd p >= 1 -> p_lower p <= p_upper p -> p_upper p <= umax w ->
  read_offset w p s = Ok (u, s') ->
  p_lower p <= u <= p_upper p /\ (u - p_lower p) mod p_gcd p = 0.
Proof.
  intros w p s u s' Hg Hlu Hu H.
  pose proof (read_offset_sound w p s Hg Hlu Hu) as S. rewrite H in S. tauto.
Qed.

Corollary read_offsets_no_panic : forall w p reps s,
  p_gcd p >= 1 -> p_lower p <= p_upper p -> p_upper p <= umax w ->
  snd (read_offsets w p reps s) <> SPanic.
Proof.
  intros w p reps. induction reps as [|n IH]; intros s Hg Hlu Hu.
  - cbn. discriminate.
  - cbn [read_offsets].
    pose proof (read_offset_no_panic w p s Hg Hlu Hu) as NP.
    destruct (read_offset w p s) as [[u s1]|e|]; [| cbn; discriminate | congruence].
    specialize (IH s1 Hg Hlu Hu).
    destruct (read_offsets w p n s1) as [[l s2] st]. exact IH.
Qed.

(* ---------------- gcd field ---------------- *)
Theorem gcd_roundtrip : forall range g s, 1 <= g -> (g = 1 \/ g <= range) ->
  read_gcd range (write_gcd range g ++ s) = Ok (g, s).
Proof.
  intros range g s Hg Hor. unfold read_gcd, write_gcd.
  destruct (g =? 1) eqn:E.
  - apply N.eqb_eq in E. subst g. cbn [app get1 bind]. reflexivity.
  - apply N.eqb_neq in E. cbn [app get1 bind].
    assert (Hgr : g <= range) by lia.
    assert (Hb : g - 1 < 2 ^ gcd_bits range).
    { unfold gcd_bits. destruct (range =? 0) eqn:E0.
      - apply N.eqb_eq in E0. lia.
      - assert (H1 : 1 < range) by lia.
        pose proof (N.log2_up_spec range H1) as [_ Hs].
        set (P := 2 ^ N.log2_up range) in *. clearbody P. lia. }
    rewrite get_put_small by exact Hb. cbn [bind].
    destruct (range <=? g - 1) eqn:E1.
    + apply N.leb_le in E1. lia.
    + f_equal. f_equal. lia.
Qed.

Lemma write_gcd_length range g : Nlen (write_gcd range g) <= 1 + gcd_bits range.
Proof.
  unfold write_gcd. destruct (g =? 1).
  - rewrite Nlen_cons, Nlen_nil. lia.
  - rewrite Nlen_cons, put_length. lia.
Qed.

(* a decoded gcd is always in 1 .. range (or 1), never Panic *)
Lemma read_gcd_sound range s :
  match read_gcd range s with
  | Ok (g, _) => 1 <= g /\ (g = 1 \/ g <= range)
  | Err e => e = InsufficientData \/ e = Corruption
  | Panic => False
  end.
Proof.
  unfold read_gcd. destruct s as [|b t]; cbn [get1 bind]; [left; reflexivity|].
  destruct b; [|lia].
  destruct (get (gcd_bits range) t) as [[g1 s2]|e|] eqn:G; cbn [bind].
  - destruct (range <=? g1) eqn:E; [right; reflexivity|].
    apply N.leb_gt in E. lia.
  - unfold get in G. destruct (getn _ t); [discriminate|]. inversion G. left; reflexivity.
  - exact (get_not_panic _ _ G).
Qed.

(* ---------------- jumpstart field (inline reader code of read_prefix_list) ---------------- *)
Lemma jump_roundtrip j s :
  (forall v, j = Some v -> v < 2 ^ Consts.BITS_TO_ENCODE_JUMPSTART) ->
  (do '(hasj, s6) <- get1 (write_jump j ++ s);
   if hasj then do '(v, s7) <- get Consts.BITS_TO_ENCODE_JUMPSTART s6; Ok (Some v, s7)
   else Ok (None, s6)) = Ok (j, s).
Proof.
  intros H. destruct j as [v|]; cbn [write_jump app get1 bind].
  - rewrite get_put_small by (apply H; reflexivity). reflexivity.
  - reflexivity.
Qed.

Print Assumptions varint_roundtrip.
Print Assumptions offset_roundtrip.
Print Assumptions num_offset_roundtrip.
Print Assumptions gcd_roundtrip.
Print Assumptions read_offset_sound.
Print Assumptions read_offset_no_panic.
