(* CliL.v — the CLI's list logic: chunk buffering loses/reorders nothing, --limit k
   prints the first k numbers, the auto-order head is the first 1000 numbers, and the
   inspect totals are sums. *)
From QCo.Lemmas Require Import Tactics AutoL.
From QCo.Model Require Import Base Codec DType Auto Cli.
Open Scope nat_scope.

(* ------------------------------------------------------------------ *)
(* 1. compress: buffer_chunks                                          *)
(* ------------------------------------------------------------------ *)

Lemma buffer_loop_nil {A} cs (buf : list A) :
  buffer_loop cs buf [] = match buf with [] => [] | _ => [buf] end.
Proof. reflexivity. Qed.

Lemma buffer_loop_cons {A} cs (buf b : list A) t :
  buffer_loop cs buf (b :: t) =
  if cs <=? length (buf ++ b)
  then firstn cs (buf ++ b) :: buffer_loop cs (skipn cs (buf ++ b)) t
  else buffer_loop cs (buf ++ b) t.
Proof. reflexivity. Qed.

(* nothing lost, duplicated or reordered — for every chunk size and any batches *)
Lemma buffer_loop_concat {A} cs : forall (batches : list (list A)) buf,
  concat (buffer_loop cs buf batches) = buf ++ concat batches.
Proof.
  induction batches as [|b t IH]; intros buf.
  - rewrite buffer_loop_nil. destruct buf; cbn; [reflexivity | rewrite !app_nil_r; reflexivity].
  - rewrite buffer_loop_cons. cbn [concat].
    destruct (cs <=? length (buf ++ b)).
    + cbn [concat]. rewrite IH, app_assoc, firstn_skipn, app_assoc. reflexivity.
    + rewrite IH, app_assoc. reflexivity.
Qed.

Theorem buffer_chunks_concat : forall A cs (batches : list (list A)),
  concat (buffer_chunks cs batches) = concat batches.
Proof. intros. unfold buffer_chunks. rewrite buffer_loop_concat. reflexivity. Qed.

(* no empty chunk is ever handed to the compressor — any batches, chunk_size >= 1 *)
Lemma buffer_loop_nonempty {A} cs : 1 <= cs -> forall (batches : list (list A)) buf,
  Forall (fun c => c <> []) (buffer_loop cs buf batches).
Proof.
  intros Hcs. induction batches as [|b t IH]; intros buf.
  - rewrite buffer_loop_nil. destruct buf; [constructor|].
    constructor; [discriminate | constructor].
  - rewrite buffer_loop_cons. destruct (Nat.leb_spec cs (length (buf ++ b))) as [L|L].
    + constructor; [|apply IH]. intros E.
      assert (H : length (firstn cs (buf ++ b)) = 0) by (rewrite E; reflexivity).
      rewrite firstn_length in H. lia.
    + apply IH.
Qed.

Theorem buffer_chunks_nonempty : forall A cs (batches : list (list A)),
  1 <= cs -> Forall (fun c => c <> []) (buffer_chunks cs batches).
Proof. intros. apply buffer_loop_nonempty; assumption. Qed.

(* every chunk but the last has exactly chunk_size numbers — any batches, any size *)
Lemma buffer_loop_full_but_last {A} cs : forall (batches : list (list A)) buf,
  Forall (fun c => length c = cs) (removelast (buffer_loop cs buf batches)).
Proof.
  induction batches as [|b t IH]; intros buf.
  - rewrite buffer_loop_nil. destruct buf; constructor.
  - rewrite buffer_loop_cons. destruct (Nat.leb_spec cs (length (buf ++ b))) as [L|L].
    + specialize (IH (skipn cs (buf ++ b))).
      destruct (buffer_loop cs (skipn cs (buf ++ b)) t) as [|c r] eqn:E.
      * constructor.
      * change (removelast (firstn cs (buf ++ b) :: c :: r))
          with (firstn cs (buf ++ b) :: removelast (c :: r)).
        constructor; [|exact IH]. rewrite firstn_length. lia.
    + apply IH.
Qed.

Theorem buffer_chunks_full_but_last : forall A cs (batches : list (list A)),
  Forall (fun c => length c = cs) (removelast (buffer_chunks cs batches)).
Proof. intros. apply buffer_loop_full_but_last. Qed.

Corollary buffer_chunks_full_but_last_app : forall A cs (batches : list (list A)) pre last,
  buffer_chunks cs batches = pre ++ [last] -> Forall (fun c => length c = cs) pre.
Proof.
  intros A cs batches pre last E.
  pose proof (buffer_chunks_full_but_last A cs batches) as H.
  rewrite E, removelast_last in H. exact H.
Qed.

(* with the readers' batch size (<= chunk_size) no chunk exceeds chunk_size *)
Lemma buffer_loop_len_le {A} cs : 1 <= cs -> forall (batches : list (list A)) buf,
  Forall (fun b => length b <= cs) batches -> length buf < cs ->
  Forall (fun c => length c <= cs) (buffer_loop cs buf batches).
Proof.
  intros Hcs. induction batches as [|b t IH]; intros buf Hb Hbuf.
  - rewrite buffer_loop_nil. destruct buf; [constructor|].
    constructor; [lia | constructor].
  - inversion Hb as [|? ? Hb1 Hb2]; subst.
    rewrite buffer_loop_cons. destruct (Nat.leb_spec cs (length (buf ++ b))) as [L|L].
    + constructor.
      * rewrite firstn_length. lia.
      * apply IH; [exact Hb2|]. rewrite skipn_length, app_length. lia.
    + apply IH; assumption.
Qed.

Theorem buffer_chunks_len_le : forall A cs (batches : list (list A)),
  1 <= cs -> Forall (fun b => length b <= cs) batches ->
  Forall (fun c => length c <= cs) (buffer_chunks cs batches).
Proof. intros. apply buffer_loop_len_le; try assumption; cbn; lia. Qed.

(* the asked-for summary *)
Theorem buffer_chunks_spec : forall A cs (batches : list (list A)),
  1 <= cs -> Forall (fun b => length b <= cs) batches ->
  concat (buffer_chunks cs batches) = concat batches /\
  Forall (fun c => c <> [] /\ length c <= cs) (buffer_chunks cs batches) /\
  Forall (fun c => length c = cs) (removelast (buffer_chunks cs batches)).
Proof.
  intros A cs batches Hcs Hb. split; [apply buffer_chunks_concat|]. split.
  - pose proof (buffer_chunks_nonempty A cs batches Hcs) as H1.
    pose proof (buffer_chunks_len_le A cs batches Hcs Hb) as H2.
    rewrite Forall_forall in *. intros c Hc. split; [apply H1 | apply H2]; exact Hc.
  - apply buffer_chunks_full_but_last.
Qed.

(* what holds with no assumption on the batch lengths *)
Theorem buffer_chunks_spec_weak : forall A cs (batches : list (list A)),
  concat (buffer_chunks cs batches) = concat batches /\
  Forall (fun c => length c = cs) (removelast (buffer_chunks cs batches)) /\
  (1 <= cs -> Forall (fun c => c <> []) (buffer_chunks cs batches)).
Proof.
  intros A cs batches. split; [apply buffer_chunks_concat|]. split.
  - apply buffer_chunks_full_but_last.
  - apply buffer_chunks_nonempty.
Qed.

(* ------------------------------------------------------------------ *)
(* 2. decompress: limit_slices                                         *)
(* ------------------------------------------------------------------ *)

Lemma limit_slices_0 {A} (chunks : list (list A)) : limit_slices 0 chunks = [].
Proof. destruct chunks; reflexivity. Qed.

Lemma limit_slices_nil {A} k : limit_slices k (@nil (list A)) = [].
Proof. cbn. destruct (k =? 0); reflexivity. Qed.

Lemma limit_slices_cons {A} k (c : list A) t :
  limit_slices k (c :: t) =
  if k =? 0 then [] else
  if length c <=? k then c :: limit_slices (k - length c) t
  else firstn k c :: limit_slices 0 t.
Proof. reflexivity. Qed.

Theorem limit_slices_concat : forall A k (chunks : list (list A)),
  concat (limit_slices k chunks) = firstn k (concat chunks).
Proof.
  intros A k chunks. revert k. induction chunks as [|c t IH]; intros k.
  - rewrite limit_slices_nil. cbn. rewrite firstn_nil. reflexivity.
  - rewrite limit_slices_cons. cbn [concat].
    destruct (Nat.eqb_spec k 0) as [->|Hk]; [reflexivity|].
    rewrite firstn_app.
    destruct (Nat.leb_spec (length c) k) as [L|L]; cbn [concat].
    + rewrite IH, (firstn_all2 c) by exact L. reflexivity.
    + rewrite limit_slices_0. replace (k - length c) with 0 by lia. reflexivity.
Qed.

(* a limit above the total count (e.g. the default usize::MAX) writes every chunk whole *)
Theorem limit_slices_no_limit : forall A k (chunks : list (list A)),
  length (concat chunks) < k -> limit_slices k chunks = chunks.
Proof.
  intros A k chunks. revert k. induction chunks as [|c t IH]; intros k H.
  - apply limit_slices_nil.
  - rewrite limit_slices_cons. cbn [concat] in H. rewrite app_length in H.
    destruct (Nat.eqb_spec k 0) as [->|Hk]; [lia|].
    destruct (Nat.leb_spec (length c) k) as [L|L]; [|lia].
    rewrite IH by lia. reflexivity.
Qed.

(* exactly k numbers are printed when the file has at least k *)
Corollary limit_slices_count : forall A k (chunks : list (list A)),
  length (concat (limit_slices k chunks)) = Nat.min k (length (concat chunks)).
Proof. intros. rewrite limit_slices_concat. apply firstn_length. Qed.

(* ------------------------------------------------------------------ *)
(* 3. compress: head_nums                                              *)
(* ------------------------------------------------------------------ *)

Lemma head_loop_firstn {A} limit : forall (batches : list (list A)) acc,
  firstn limit (head_loop limit acc batches) = firstn limit (acc ++ concat batches).
Proof.
  induction batches as [|b t IH]; intros acc.
  - cbn. rewrite app_nil_r. reflexivity.
  - cbn [head_loop concat]. rewrite app_assoc.
    destruct (Nat.leb_spec limit (length (acc ++ b))) as [L|L].
    + rewrite (firstn_app limit (acc ++ b)).
      replace (limit - length (acc ++ b)) with 0 by lia.
      cbn [firstn]. rewrite app_nil_r. reflexivity.
    + apply IH.
Qed.

Theorem head_nums_spec : forall A limit (batches : list (list A)),
  head_nums limit batches = firstn limit (concat batches).
Proof.
  intros A limit batches. unfold head_nums.
  rewrite <- (app_nil_l (concat batches)), <- head_loop_firstn.
  destruct (Nat.ltb_spec limit (length (head_loop limit [] batches))) as [L|L].
  - reflexivity.
  - rewrite firstn_all2 by exact L. reflexivity.
Qed.

(* ------------------------------------------------------------------ *)
(* 4. the handlers together                                            *)
(* ------------------------------------------------------------------ *)

(* compress then decompress --limit k: given that each chunk decodes to what was
   written (the library round trip), the numbers printed are the first k of the column *)
Theorem cli_compress_decompress_limit : forall A cs k (batches : list (list A)),
  concat (limit_slices k (buffer_chunks cs batches)) = firstn k (concat batches).
Proof. intros. rewrite limit_slices_concat, buffer_chunks_concat. reflexivity. Qed.

(* without --limit: the whole column, and chunk for chunk what was written *)
Theorem cli_compress_decompress : forall A cs k (batches : list (list A)),
  length (concat batches) < k ->
  limit_slices k (buffer_chunks cs batches) = buffer_chunks cs batches /\
  concat (limit_slices k (buffer_chunks cs batches)) = concat batches.
Proof.
  intros A cs k batches H.
  assert (E : limit_slices k (buffer_chunks cs batches) = buffer_chunks cs batches).
  { apply limit_slices_no_limit. rewrite buffer_chunks_concat. exact H. }
  split; [exact E|]. rewrite E. apply buffer_chunks_concat.
Qed.

(* the CLI's automatic order (computed from head_nums) is the library's choice for the
   whole column *)
Theorem cli_auto_order : forall table_of d level (batches : list (list Z)),
  auto_order table_of d level (head_nums CLI_AUTO_DELTA_LIMIT batches)
  = auto_order table_of d level (concat batches).
Proof.
  intros. rewrite head_nums_spec. apply auto_order_head_only.
Qed.

(* ------------------------------------------------------------------ *)
(* 5. inspect totals                                                   *)
(* ------------------------------------------------------------------ *)

Lemma fold_left_add_Nsum {B} (g : B -> N) : forall l a,
  fold_left (fun acc i => (acc + g i)%N) l a = (a + Nsum (map g l))%N.
Proof.
  induction l as [|x l IH]; intros a; cbn [fold_left map Nsum fold_right].
  - lia.
  - rewrite IH. unfold Nsum. lia.
Qed.

Theorem inspect_total_n_sum : forall infos,
  inspect_total_n infos = Nsum (map ci_n infos).
Proof. intros. unfold inspect_total_n. rewrite fold_left_add_Nsum. lia. Qed.

Theorem inspect_metadata_size_sum : forall infos,
  inspect_metadata_size infos = Nsum (map (fun i => (ci_meta_bits i / 8)%N) infos).
Proof. intros. unfold inspect_metadata_size. rewrite fold_left_add_Nsum. lia. Qed.

Theorem inspect_body_size_sum : forall infos,
  inspect_body_size infos = Nsum (map ci_body_bytes infos).
Proof. intros. unfold inspect_body_size. rewrite fold_left_add_Nsum. lia. Qed.

Theorem inspect_uncompressed_size_sum : forall pb infos,
  inspect_uncompressed_size pb infos = (pb / 8 * Nsum (map ci_n infos))%N.
Proof. intros. unfold inspect_uncompressed_size. rewrite inspect_total_n_sum. reflexivity. Qed.

Lemma Nsum_app a b : Nsum (a ++ b) = (Nsum a + Nsum b)%N.
Proof. induction a as [|x a IH]; cbn; [reflexivity | unfold Nsum in *; rewrite IH; lia]. Qed.

(* totals are additive over concatenated files' chunk lists *)
Theorem inspect_total_n_app : forall a b,
  inspect_total_n (a ++ b) = (inspect_total_n a + inspect_total_n b)%N.
Proof. intros. rewrite !inspect_total_n_sum, map_app, Nsum_app. reflexivity. Qed.

(* the reported total is the number of values compressed: with the n of each chunk
   being the length of the chunk written *)
Theorem inspect_total_n_of_chunks : forall A (chunks : list (list A)) infos,
  map ci_n infos = map (fun c => Nlen c) chunks ->
  inspect_total_n infos = Nlen (concat chunks).
Proof.
  intros A chunks infos H. rewrite inspect_total_n_sum, H. clear H.
  induction chunks as [|c t IH]; [reflexivity|].
  cbn [map concat Nsum fold_right]. unfold Nsum in IH. rewrite IH.
  unfold Nlen. rewrite app_length. lia.
Qed.

Print Assumptions buffer_chunks_spec.
Print Assumptions buffer_chunks_spec_weak.
Print Assumptions buffer_chunks_full_but_last_app.
Print Assumptions limit_slices_concat.
Print Assumptions limit_slices_0.
Print Assumptions limit_slices_no_limit.
Print Assumptions head_nums_spec.
Print Assumptions cli_compress_decompress_limit.
Print Assumptions cli_compress_decompress.
Print Assumptions cli_auto_order.
Print Assumptions inspect_total_n_sum.
Print Assumptions inspect_total_n_of_chunks.
