(* DTypeL.v — number <-> integer mappings (C12). *)
From QCo.Lemmas Require Import Tactics.
From QCo.Model Require Import Base Consts DType.
Open Scope N_scope.

(* bool's unsigned domain is {0,1}; every other type uses the full width *)
Definition u_dom (d : dtype) (u : N) : Prop :=
  match d with DBool => u <= 1 | _ => u < 2 ^ ubits d end.

Ltac unfold_dt :=
  unfold representable, nat_lt, u_dom in *;
  do 2 (unfold valid, to_u, of_u, to_s, of_s, s_add, s_sub, swrap, kind, ubits, sdt,
         ts96_min, ts96_max, pps, float_key, nat_lt, zpow2, pow2 in *);
  unfold Consts.UBITS_bool, Consts.UBITS_i16, Consts.UBITS_i32, Consts.UBITS_i64, Consts.UBITS_i128,
         Consts.UBITS_u16, Consts.UBITS_u32, Consts.UBITS_u64, Consts.UBITS_u128,
         Consts.UBITS_f32, Consts.UBITS_f64, Consts.UBITS_TimestampMicros, Consts.UBITS_TimestampNanos,
         Consts.UBITS_TimestampMicros96, Consts.UBITS_TimestampNanos96,
         Consts.PPS_TimestampMicros, Consts.PPS_TimestampNanos,
         Consts.PPS_TimestampMicros96, Consts.PPS_TimestampNanos96 in *;
  norm_pows.

Lemma of_u_to_u d x : representable d x = true -> of_u d (to_u d x) = x.
Proof.
  destruct d; unfold_dt; intros H; repeat destr_if; lia.
Qed.

Lemma to_u_bound d x : representable d x = true -> to_u d x < 2 ^ ubits d.
Proof.
  destruct d; unfold_dt; intros H; repeat destr_if; lia.
Qed.


Lemma to_u_of_u d u : u_dom d u -> to_u d (of_u d u) = u.
Proof.
  destruct d; unfold_dt; intros H; repeat destr_if; lia.
Qed.

Lemma of_u_representable d u : u_dom d u -> representable d (of_u d u) = true.
Proof.
  destruct d; unfold_dt; intros H; repeat destr_if; lia.
Qed.

Lemma to_u_strict_mono d x y :
  representable d x = true -> representable d y = true ->
  (nat_lt d x y <-> to_u d x < to_u d y).
Proof.
  destruct d; unfold_dt; intros Hx Hy; repeat destr_if; lia.
Qed.

Lemma to_u_injective d x y :
  representable d x = true -> representable d y = true -> to_u d x = to_u d y -> x = y.
Proof.
  intros Hx Hy E. rewrite <- (of_u_to_u d x Hx), <- (of_u_to_u d y Hy), E. reflexivity.
Qed.

Lemma of_s_to_s d x : representable d x = true -> of_s d (to_s d x) = x.
Proof.
  destruct d; unfold_dt; intros H; repeat destr_if; lia.
Qed.

Lemma to_s_representable d x : representable d x = true -> representable (sdt d) (to_s d x) = true.
Proof.
  destruct d; unfold_dt; intros H; repeat destr_if; lia.
Qed.

Lemma to_s_of_s d s : representable (sdt d) s = true -> to_s d (of_s d s) = s.
Proof.
  destruct d; unfold_dt; intros H; repeat destr_if; lia.
Qed.

Lemma of_s_representable d s : representable (sdt d) s = true -> representable d (of_s d s) = true.
Proof.
  destruct d; unfold_dt; intros H; repeat destr_if; lia.
Qed.

Lemma hdr_distinct : NoDup (map hdr all_dtypes).
Proof.
  vm_compute. repeat constructor; simpl; intuition discriminate.
Qed.

Lemma hdr_injective a b : hdr a = hdr b -> a = b.
Proof. destruct a, b; vm_compute; intros H; try reflexivity; discriminate. Qed.

(* ---- fixed-width byte representation ---- *)
From QCo.Lemmas Require Import BitsL.

Ltac unfold_phys :=
  unfold phys, Consts.PHYS_bool, Consts.PHYS_i16, Consts.PHYS_i32, Consts.PHYS_i64, Consts.PHYS_i128,
         Consts.PHYS_u16, Consts.PHYS_u32, Consts.PHYS_u64, Consts.PHYS_u128,
         Consts.PHYS_f32, Consts.PHYS_f64, Consts.PHYS_TimestampMicros, Consts.PHYS_TimestampNanos,
         Consts.PHYS_TimestampMicros96, Consts.PHYS_TimestampNanos96 in *.

Lemma to_bytes_ok d x : valid d x = true ->
  exists bs, to_bytes d x = Ok bs /\ length bs = N.to_nat (phys d / 8) /\
             Forall (fun b => b < 256) bs /\ of_bytes d bs = Ok x.
Proof.
  intros Hv.
  destruct d;
  try (unfold to_bytes, of_bytes; cbn [kind];
       eexists; split; [reflexivity|]; split; [apply be_bytes_length|]; split; [apply be_bytes_range|];
       rewrite be_val_be_bytes; f_equal;
       unfold_phys; unfold_dt; simpl (N.of_nat _); norm_pows; lia).
  - (* bool *)
    unfold to_bytes, of_bytes; cbn [kind]. eexists; split; [reflexivity|].
    unfold_phys. unfold_dt. split; [reflexivity|]. split.
    + constructor; [lia | constructor].
    + unfold be_val; cbn [be_val_acc]. f_equal. destr_if; lia.
  - (* micros96 *)
    unfold to_bytes, of_bytes; cbn [kind]. unfold_phys. 
    assert (Hr : ((x - ts96_min DTsMicros96 <? zpow2 (ubits DTsMicros96 - 1))%Z &&
                  (- zpow2 (ubits DTsMicros96 - 1) <=? x - ts96_min DTsMicros96)%Z) = true)
      by (unfold_dt; lia).
    rewrite Hr. eexists; split; [reflexivity|]; split; [apply be_bytes_length|]; split; [apply be_bytes_range|].
    rewrite be_val_be_bytes.
    assert (E : (Z.of_N (Z.to_N ((x - ts96_min DTsMicros96) mod zpow2 (ubits DTsMicros96))
                   mod 2 ^ (8 * N.of_nat (N.to_nat (96 / 8)))) + ts96_min DTsMicros96 = x)%Z)
      by (unfold_dt; simpl (N.of_nat _); norm_pows; lia).
    rewrite E, Hv. reflexivity.
  - (* nanos96 *)
    unfold to_bytes, of_bytes; cbn [kind]. unfold_phys. 
    assert (Hr : ((x - ts96_min DTsNanos96 <? zpow2 (ubits DTsNanos96 - 1))%Z &&
                  (- zpow2 (ubits DTsNanos96 - 1) <=? x - ts96_min DTsNanos96)%Z) = true)
      by (unfold_dt; lia).
    rewrite Hr. eexists; split; [reflexivity|]; split; [apply be_bytes_length|]; split; [apply be_bytes_range|].
    rewrite be_val_be_bytes.
    assert (E : (Z.of_N (Z.to_N ((x - ts96_min DTsNanos96) mod zpow2 (ubits DTsNanos96))
                   mod 2 ^ (8 * N.of_nat (N.to_nat (96 / 8)))) + ts96_min DTsNanos96 = x)%Z)
      by (unfold_dt; simpl (N.of_nat _); norm_pows; lia).
    rewrite E, Hv. reflexivity.
Qed.

(* raw number in the stream: write then read *)
Lemma read_write_num d x s : valid d x = true ->
  exists b, write_num d x = Ok b /\ Nlen b = phys d /\ read_num d (b ++ s) = Ok (x, s).
Proof.
  intros Hv. destruct (to_bytes_ok d x Hv) as (bs & E1 & E2 & E3 & E4).
  unfold write_num, read_num. rewrite E1. cbn [bind].
  eexists; split; [reflexivity|].
  assert (HL : Nlen (bytes_to_bits bs) = phys d).
  { unfold Nlen. rewrite bytes_to_bits_length, E2.
    destruct d; unfold_phys; reflexivity. }
  split; [exact HL|].
  rewrite (get_bits_app _ _ _ (eq_sym HL)). cbn [bind].
  rewrite bits_to_bytes_bytes by exact E3. rewrite E4. reflexivity.
Qed.
