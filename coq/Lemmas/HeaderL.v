(* HeaderL.v — the file header on the reader side: type tag check (C12), flag refusal at
   every decode entry point (C16). *)
From QCo.Lemmas Require Import Tactics BitsL DTypeL FlagsL.
From QCo.Model Require Import Base Consts DType Codec Reader.
Open Scope N_scope.

Lemma bytes_to_bits_app a b : bytes_to_bits (a ++ b) = bytes_to_bits a ++ bytes_to_bits b.
Proof. unfold bytes_to_bits. apply flat_map_app. Qed.

Lemma hdr_lt_256 d : hdr d < 256.
Proof. destruct d; vm_compute; reflexivity. Qed.

Lemma read_aligned_bytes bs n s :
  Forall (fun b => b < 256) bs -> n = Nlen bs ->
  read_aligned 0 n (bytes_to_bits bs ++ s) = Ok (bs, s).
Proof.
  intros Hb ->. unfold read_aligned. cbn [N.modulo N.eqb negb].
  change (negb (0 mod 8 =? 0)) with false. cbn iota.
  rewrite (get_bits_app (bytes_to_bits bs) s).
  - cbn [bind]. rewrite bits_to_bytes_bytes by exact Hb. reflexivity.
  - unfold Nlen. rewrite bytes_to_bits_length. lia.
Qed.

Lemma list_eqb_N_refl l : list_eqb N.eqb l l = true.
Proof. induction l as [|a l IH]; simpl; [reflexivity|]. rewrite N.eqb_refl, IH. reflexivity. Qed.

(* header of type d read as type d': flags are parsed iff d = d' *)
Lemma read_header_typed d d' s :
  read_header d' 0 (bytes_to_bits (Consts.MAGIC_HEADER ++ [hdr d]) ++ s) =
  if dtype_eqb d d' then parse_flags s else Err Corruption.
Proof.
  unfold read_header. rewrite bytes_to_bits_app, <- app_assoc.
  rewrite (read_aligned_bytes Consts.MAGIC_HEADER 4) by (vm_compute; repeat constructor).
  cbn [bind]. rewrite list_eqb_N_refl. cbn [negb].
  rewrite (read_aligned_bytes [hdr d] 1) by (try reflexivity; repeat constructor; apply hdr_lt_256).
  cbn [bind list_eqb]. rewrite andb_true_r.
  destruct (N.eqb_spec (hdr d) (hdr d')) as [E|E].
  - apply hdr_injective in E. subst d'. unfold dtype_eqb.
    replace (dtype_beq d d) with true by (destruct d; reflexivity). reflexivity.
  - unfold dtype_eqb. replace (dtype_beq d d') with false; [reflexivity|].
    destruct d, d'; try reflexivity; exfalso; apply E; reflexivity.
Qed.

Definition fresh (bytes : list N) : rstate := mkR bytes 0 None None false.

Lemma stream_fresh bytes : stream (fresh bytes) = bytes_to_bits bytes.
Proof. reflexivity. Qed.

(* all three ways of starting to decode a file go through read_header on the fresh state *)
Lemma header_entry_points_err d st k limit :
  r_term st = false -> r_flags st = None ->
  read_header d (r_bit st) (stream st) = Err k -> k <> InsufficientData ->
  r_step d st RHeader = (st, ROErr k) /\
  r_step d st (RNext limit) = (st, ROErr k) /\
  simple_decompress d st = (st, Err k).
Proof.
  intros Ht Hf Hr Hk.
  assert (A : r_step d st RHeader = (st, ROErr k)).
  { unfold r_step. rewrite Ht, Hf, Hr. reflexivity. }
  split; [exact A|]. split.
  - unfold r_step. rewrite Ht, Hf, Hr. destruct k; try reflexivity. congruence.
  - unfold simple_decompress. rewrite A. reflexivity.
Qed.

(* C12: decoding a file as another data type is rejected *)
Lemma wrong_type_rejected d d' rest limit :
  d <> d' ->
  let st := fresh (Consts.MAGIC_HEADER ++ [hdr d] ++ rest) in
  r_step d' st RHeader = (st, ROErr Corruption) /\
  r_step d' st (RNext limit) = (st, ROErr Corruption) /\
  simple_decompress d' st = (st, Err Corruption).
Proof.
  intros Hne st. apply header_entry_points_err; try reflexivity; [|discriminate].
  unfold st. rewrite stream_fresh. cbn [r_bit fresh].
  rewrite app_assoc, bytes_to_bits_app, read_header_typed.
  unfold dtype_eqb. replace (dtype_beq d d') with false; [reflexivity|].
  destruct d, d'; try reflexivity; congruence.
Qed.

(* C16: a flag section with an unknown bit is refused by every entry point *)
Lemma unknown_flags_refused d fb chunks rest limit :
  chunks_ok chunks -> bytes_to_bits fb = frame chunks ->
  has_unknown_bit (concat chunks) ->
  let st := fresh (Consts.MAGIC_HEADER ++ [hdr d] ++ fb ++ rest) in
  r_step d st RHeader = (st, ROErr Compatibility) /\
  r_step d st (RNext limit) = (st, ROErr Compatibility) /\
  simple_decompress d st = (st, Err Compatibility).
Proof.
  intros Hc Hfb Hu st. apply header_entry_points_err; try reflexivity; [|discriminate].
  unfold st. rewrite stream_fresh. cbn [r_bit fresh].
  rewrite app_assoc, bytes_to_bits_app, read_header_typed.
  replace (dtype_eqb d d) with true by (destruct d; reflexivity).
  rewrite bytes_to_bits_app, Hfb. apply parse_flags_refuses; assumption.
Qed.

(* with the unknown bits clear the header is accepted and yields the known flags *)
Lemma known_flags_accepted d fb chunks rest :
  chunks_ok chunks -> bytes_to_bits fb = frame chunks ->
  ~ has_unknown_bit (concat chunks) ->
  let st := fresh (Consts.MAGIC_HEADER ++ [hdr d] ++ fb ++ rest) in
  read_header d (r_bit st) (stream st) = Ok (known_flags (concat chunks), bytes_to_bits rest).
Proof.
  intros Hc Hfb Hu st. unfold st. rewrite stream_fresh. cbn [r_bit fresh].
  rewrite app_assoc, bytes_to_bits_app, read_header_typed.
  replace (dtype_eqb d d) with true by (destruct d; reflexivity).
  rewrite bytes_to_bits_app, Hfb. apply parse_flags_accepts; assumption.
Qed.
