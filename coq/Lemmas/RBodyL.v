(* RBodyL.v — the decompressor's decoding of a chunk body as a program over the 64-bit-word
   BitReader and the literal HuffmanTable (Model/RBody.v: decompress_offset_dirty,
   decompress_offsets, read_varint, decompress_num_block, the checked loop of
   decompress_unsigneds_limited_dirty) returns exactly what the bit-list model
   (Codec.read_offset / read_offsets / read_varint / read_code_at / read_blocks / read_batch)
   returns on the reader's abstract stream: the same numbers, the same incomplete prefix, the
   same finished flag, the same status (error kind included), the same new position; and it
   never panics.  No axioms, nothing admitted. *)
From Coq Require Import Lia ZifyBool ZifyN ZifyNat.
From QCo.Lemmas Require Import Tactics BitsL CodecL BodyL TruncL NoPanicL FastL WordsL RFileL HuffL.
From QCo.Model Require Import Base Consts DType Codec Fast Words Huff Writer RFile RBody.
Open Scope N_scope.

Arguments N.add : simpl never.
Arguments N.sub : simpl never.
Arguments N.mul : simpl never.
Arguments N.pow : simpl never.
Arguments N.shiftl : simpl never.
Arguments N.shiftr : simpl never.
Arguments N.land : simpl never.
Arguments N.lor : simpl never.
Arguments N.div : simpl never.
Arguments N.modulo : simpl never.
Arguments N.min : simpl never.

(* ================================================================== *)
(* 0. the contract                                                     *)
(* ================================================================== *)
(* the reader: well-formed words holding total_bits bits (what BitWords guarantees:
   Nlen ws = ceil(tb / 64), zero padding after tb) *)
Definition rd_ok (ws : list N) (tb : N) : Prop := words_ok ws /\ tb <= 64 * Nlen ws.

Lemma bw_rd_ok ws tb : bw_ok ws tb -> rd_ok ws tb.
Proof. intros H. split; [apply H|]. apply (bw_tb_le ws tb H). Qed.

(* the position invariant: j <= 64 (j = 64 is the not yet refreshed end of a word) and the
   position is within total_bits *)
Definition binv (tb : N) (st : rpos) : Prop := snd st <= 64 /\ pos st <= tb.

Definition stream (ws : list N) (tb : N) (st : rpos) : bits := rd_stream ws tb (pos st).

(* a word-level read [r] started at [st] agrees with the bit-list read [m] *)
Definition bagrees {A} (ws : list N) (tb : N) (st : rpos)
           (r : res (A * rpos)) (m : bits -> res (A * bits)) : Prop :=
  match r with
  | Ok (a, st') => m (stream ws tb st) = Ok (a, stream ws tb st') /\ binv tb st'
  | Err k => m (stream ws tb st) = Err k
  | Panic => False
  end.

Ltac bstep H a st' Hm Hi :=
  unfold bagrees in H;
  match type of H with
  | match ?R with _ => _ end =>
    let k := fresh "k" in
    destruct R as [[a st']|k|];
    [ destruct H as [Hm Hi]; cbn [bind]; rewrite Hm; cbn [bind]
    | cbn [bind]; rewrite H; reflexivity
    | contradiction ]
  end.

Lemma pos_ij i j : pos (i, j) = 64 * i + j.
Proof. reflexivity. Qed.

Lemma rb_bit_idx_pos st : rb_bit_idx st = pos st.
Proof. reflexivity. Qed.

(* seek_to(bit_idx): the same bit position, normalised *)
Lemma rb_seek_to_pos b : pos (rb_seek_to b) = b /\ snd (rb_seek_to b) < 64.
Proof.
  pose proof (rd_seek_to_spec b) as H. unfold rb_seek_to, pos.
  destruct (rd_seek_to b) as [i j]. cbn [fst snd]. unfold rd_bit_idx, WORD_SIZE in H. exact H.
Qed.

Lemma rb_seek_back tb st : binv tb st ->
  binv tb (rb_seek_to (rb_bit_idx st)) /\ pos (rb_seek_to (rb_bit_idx st)) = pos st.
Proof.
  intros [Hj Hp]. destruct (rb_seek_to_pos (rb_bit_idx st)) as [E L].
  change (rb_bit_idx st) with (pos st) in *. unfold binv. rewrite E. lia.
Qed.

Lemma stream_seek_back ws tb st :
  stream ws tb (rb_seek_to (rb_bit_idx st)) = stream ws tb st.
Proof.
  unfold stream. destruct (rb_seek_to_pos (rb_bit_idx st)) as [E _]. rewrite E. reflexivity.
Qed.

(* ================================================================== *)
(* 1. BitReader methods                                                *)
(* ================================================================== *)
Lemma bag_read_one ws tb st : rd_ok ws tb -> binv tb st ->
  bagrees ws tb st (rf_read_one ws tb st) get1.
Proof.
  destruct st as [i j]. intros [Hok Htb] [Hj Hp]. cbn [fst snd] in *. rewrite pos_ij in Hp.
  pose proof (rd_read_one_spec ws tb i j Hok Hj Htb Hp) as H.
  unfold bagrees, rf_read_one, stream. cbn [fst snd]. rewrite pos_ij.
  destruct (rd_read_one ws i j tb) as [[b [i' j']]|k|]; [|exact H|exact H].
  destruct H as (Hg & Hpos & Hj'). rewrite pos_ij, Hpos. split; [exact Hg|].
  apply get1_ok_len in Hg. rewrite rd_stream_length in Hg by exact Htb.
  unfold binv. cbn [fst snd]. rewrite pos_ij. lia.
Qed.

Lemma bag_read_diff ub ws tb st n : rd_ok ws tb -> binv tb st -> n <= ub ->
  bagrees ws tb st (rf_read_diff ub ws tb st n) (get n).
Proof.
  destruct st as [i j]. intros [Hok Htb] [Hj Hp] Hn. cbn [fst snd] in *. rewrite pos_ij in Hp.
  rewrite rf_read_diff_eq by assumption.
  pose proof (rd_read_diff_spec ws tb i j n Hok Hj Htb Hp) as H.
  unfold bagrees, stream. rewrite pos_ij.
  destruct (rd_read_diff ws i j tb n) as [[v [i' j']]|k|]; [|exact H|exact H].
  destruct H as (Hg & Hpos & Hj'). rewrite pos_ij, Hpos. split; [exact Hg|].
  apply get_ok_len in Hg. rewrite rd_stream_length in Hg by exact Htb.
  unfold binv. cbn [fst snd]. rewrite pos_ij. lia.
Qed.

Lemma bag_read_usize ws tb st n : rd_ok ws tb -> binv tb st -> n <= 64 ->
  bagrees ws tb st (rf_read_usize ws tb st n) (get n).
Proof. apply bag_read_diff. Qed.

(* a checked read from a position beyond total_bits fails, whatever its width: this is how
   the word-too-far position left by read_prefix_table_idx turns into InsufficientData *)
Lemma rf_read_diff_beyond ub ws tb st n : tb < pos st ->
  rf_read_diff ub ws tb st n = Err InsufficientData.
Proof.
  intros H. unfold rf_read_diff, rd_insufficient, rd_bit_idx, WORD_SIZE. unfold pos in H.
  destruct (N.ltb_spec tb (64 * fst st + snd st + n)) as [_|L]; [reflexivity|lia].
Qed.

(* `res |= 1 << i` on a value below 2^i is an addition *)
Lemma lor_bit acc i : acc < 2 ^ i -> N.lor acc (N.shiftl 1 i) = acc + pow2 i.
Proof.
  intros H. rewrite N.shiftl_1_l, N.lor_comm. unfold pow2.
  pose proof (lor_disjoint 1 acc i H) as L. rewrite N.mul_1_l in L. rewrite L. lia.
Qed.

Lemma lor_pow acc i : acc < 2 ^ i -> N.lor acc (2 ^ i) = acc + 2 ^ i.
Proof. intros H. pose proof (lor_bit acc i H) as L. rewrite N.shiftl_1_l in L. exact L. Qed.

(* ================================================================== *)
(* 2. read_varint                                                      *)
(* ================================================================== *)
Lemma rb_varint_loop_spec ws tb : rd_ok ws tb -> forall cnt i acc st,
  binv tb st -> acc < 2 ^ i ->
  bagrees ws tb st (rb_varint_loop cnt ws tb i acc st) (read_varint_cont cnt i acc).
Proof.
  intros Hrd. induction cnt as [|c IH]; intros i acc st Hi Hacc.
  - cbn [rb_varint_loop read_varint_cont bagrees]. split; [reflexivity|exact Hi].
  - unfold bagrees. cbn [rb_varint_loop read_varint_cont].
    pose proof (bag_read_one ws tb st Hrd Hi) as H1.
    bstep H1 more st1 Hm1 Hi1.
    destruct more.
    + pose proof (bag_read_one ws tb st1 Hrd Hi1) as H2.
      bstep H2 b st2 Hm2 Hi2.
      assert (Hp : 2 ^ (i + 1) = 2 * 2 ^ i) by (rewrite N.pow_add_r, N.pow_1_r; lia).
      destruct b.
      * rewrite lor_bit by exact Hacc. apply IH; [exact Hi2|]. unfold pow2. lia.
      * apply IH; [exact Hi2|]. lia.
    + split; [reflexivity|exact Hi1].
Qed.

Theorem rb_read_varint_spec ws tb st jumpstart : rd_ok ws tb -> binv tb st -> jumpstart <= 64 ->
  bagrees ws tb st (rb_read_varint ws tb st jumpstart) (read_varint jumpstart).
Proof.
  intros Hrd Hi Hj. unfold bagrees, rb_read_varint, read_varint.
  pose proof (bag_read_usize ws tb st jumpstart Hrd Hi Hj) as H1.
  bstep H1 v st1 Hm1 Hi1.
  apply get_lt in Hm1.
  exact (rb_varint_loop_spec ws tb Hrd _ jumpstart v st1 Hi1 Hm1).
Qed.

(* ================================================================== *)
(* 3. decompress_offset_dirty, decompress_offsets                      *)
(* ================================================================== *)
Theorem rb_offset_dirty_spec w ws tb p st : rd_ok ws tb -> binv tb st -> sane_prefix w p ->
  bagrees ws tb st (rb_offset_dirty w ws tb p st) (read_offset w p).
Proof.
  intros Hrd Hi (Hg & Hlu & Hu).
  destruct (prefix_facts w p Hg Hlu Hu) as (Hrw & Hkw & Hkeq & Hup).
  pose proof (read_offset_no_panic w p (stream ws tb st) Hg Hlu Hu) as NP.
  unfold bagrees, rb_offset_dirty, read_offset in *. cbv zeta in *. unfold p_k.
  set (r := p_range p) in *. set (k := k_of_range r) in *.
  pose proof (bag_read_diff w ws tb st k Hrd Hi Hkw) as H1.
  unfold bagrees in H1.
  destruct (rf_read_diff w ws tb st k) as [[off st1]|e|]; cbn [bind];
    [|rewrite H1; reflexivity|contradiction].
  destruct H1 as [Hm1 Hi1]. rewrite Hm1 in *. cbn [bind] in *.
  pose proof (get_lt _ _ _ _ Hm1) as Hoff.
  (* the tail: the two overflow checks are the single range check *)
  assert (Tail : forall off' st2 s2, s2 = stream ws tb st2 -> binv tb st2 ->
     (if p_lower p + off' * p_gcd p <=? umax w then Ok (p_lower p + off' * p_gcd p, s2)
      else @Panic (N * bits)) <> Panic ->
     match (if umax w <? off' * p_gcd p then @Panic (N * rpos)
            else if umax w <? p_lower p + off' * p_gcd p then Panic
                 else Ok (p_lower p + off' * p_gcd p, st2)) with
     | Ok (a, st') =>
         (if p_lower p + off' * p_gcd p <=? umax w then Ok (p_lower p + off' * p_gcd p, s2)
          else @Panic (N * bits)) = Ok (a, stream ws tb st') /\ binv tb st'
     | Err e => (if p_lower p + off' * p_gcd p <=? umax w then Ok (p_lower p + off' * p_gcd p, s2)
                 else @Panic (N * bits)) = Err e
     | Panic => False
     end).
  { intros off' st2 s2 -> Hi2. set (prod := off' * p_gcd p). clearbody prod.
    set (U := umax w). clearbody U.
    destruct (N.leb_spec (p_lower p + prod) U) as [L|L]; [|congruence]. intros _.
    destruct (N.ltb_spec U prod) as [L1|L1]; [lia|].
    destruct (N.ltb_spec U (p_lower p + prod)) as [L2|L2]; [lia|].
    split; [reflexivity|exact Hi2]. }
  destruct (k <? w) eqn:Ekw.
  - destruct (r <? off) eqn:Ero; [cbn [bind] in NP; congruence|].
    rewrite N.shiftl_1_l. unfold pow2 in *.
    destruct (2 ^ k <=? r - off) eqn:Ems.
    + pose proof (bag_read_one ws tb st1 Hrd Hi1) as H2. unfold bagrees in H2.
      destruct (rf_read_one ws tb st1) as [[b st2]|e|]; cbn [bind];
        [|rewrite H2; reflexivity|contradiction].
      destruct H2 as [Hm2 Hi2]. rewrite Hm2 in *. cbn [bind] in *.
      destruct b.
      * rewrite lor_pow by exact Hoff.
        apply Tail; [reflexivity|exact Hi2|exact NP].
      * apply Tail; [reflexivity|exact Hi2|exact NP].
    + cbn [bind] in *. apply Tail; [reflexivity|exact Hi1|exact NP].
  - cbn [bind] in *. apply Tail; [reflexivity|exact Hi1|exact NP].
Qed.

(* decompress_offsets: the same numbers, the same status, the reader at the start of the
   failing number *)
Theorem rb_offsets_spec w ws tb p : rd_ok ws tb -> sane_prefix w p -> forall reps st,
  binv tb st ->
  forall l st' s, rb_offsets w ws tb p reps st = (l, st', s) ->
  read_offsets w p reps (stream ws tb st) = (l, stream ws tb st', s) /\
  binv tb st' /\ s <> SPanic.
Proof.
  intros Hrd Sp. induction reps as [|n IH]; intros st Hi l st' s E;
    cbn [rb_offsets read_offsets] in *.
  - inversion E; subst. split; [reflexivity|]. split; [exact Hi|discriminate].
  - pose proof (rb_offset_dirty_spec w ws tb p st Hrd Hi Sp) as H1. unfold bagrees in H1.
    destruct (rb_offset_dirty w ws tb p st) as [[u st1]|k|]; [| |contradiction].
    + destruct H1 as [Hm1 Hi1]. rewrite Hm1.
      destruct (rb_offsets w ws tb p n st1) as [[l1 st2] s1] eqn:E1.
      inversion E; subst. destruct (IH st1 Hi1 _ _ _ E1) as (R & Hi2 & NP).
      rewrite R. split; [reflexivity|]. split; assumption.
    + rewrite H1. inversion E; subst.
      destruct (rb_seek_back tb st Hi) as [Hi' _]. rewrite stream_seek_back.
      split; [reflexivity|]. split; [exact Hi'|discriminate].
Qed.

(* ================================================================== *)
(* 4. one block                                                        *)
(* ================================================================== *)
(* the table as NumDecompressor::new accepts it, as chunk metadata parsing delivers it
   (NoPanicL.parse_meta_sane; jumpstarts are 5-bit fields: FastL.read_prefix_list_parsed) *)
Definition body_prefix (w : N) (p : prefix) : Prop :=
  sane_prefix w p /\ (forall j, p_jump p = Some j -> j <= 64).

(* One iteration of Codec.read_blocks, as a function: the block read at [s] with [room]
   numbers still wanted.  [mb_inc] is what the block stores in incomplete_prefix
   (None = nothing stored by a successful block / cleared by a failing one). *)
Definition mblock (w tb : N) (ps : list prefix) (room : N) (s : bits)
  : list N * bits * option (prefix * N) * status :=
  match read_code_at tb ps s with
  | Err k => ([], s, None, SErr k)
  | Panic => ([], s, None, SPanic)
  | Ok (p, s1) =>
    match p_jump p with
    | None =>
      match read_offsets w p 1 s1 with
      | (l, s2, SOk) => (l, s2, None, SOk)
      | (_, _, st) => ([], s, None, st)
      end
    | Some j =>
      match read_varint j s1 with
      | Err k => ([], s, None, SErr k)
      | Panic => ([], s, None, SPanic)
      | Ok (v, s2) =>
        let full := v + 1 in
        let reps := N.min full room in
        match read_offsets w p (N.to_nat reps) s2 with
        | (l, s3, SOk) => (l, s3, (if room <? full then Some (p, full - room) else None), SOk)
        | (l, s3, st) =>
          match l with
          | [] => ([], s, None, st)
          | _ => (l, s3, Some (p, full - Nlen l), st)
          end
        end
      end
    end
  end.

(* Codec.read_blocks is the iteration of mblock: it stops after a block that left an
   incomplete prefix (the batch is full then) *)
Lemma read_blocks_step f w tb ps room s :
  read_blocks (S f) w tb ps room s =
  if room =? 0 then ([], s, None, SOk) else
  match mblock w tb ps room s with
  | (l, s1, inc1, SOk) =>
    match inc1 with
    | Some _ => (l, s1, inc1, SOk)
    | None => let '(l', s2, inc2, st) := read_blocks f w tb ps (room - Nlen l) s1 in
              (l ++ l', s2, inc2, st)
    end
  | (l, s1, inc1, st) => (l, s1, inc1, st)
  end.
Proof.
  cbn [read_blocks]. unfold mblock.
  destruct (room =? 0); [reflexivity|].
  destruct (read_code_at tb ps s) as [[p s1]|k|]; [|reflexivity|reflexivity].
  destruct (p_jump p) as [j|].
  - destruct (read_varint j s1) as [[v s2]|k|]; [|reflexivity|reflexivity].
    cbv zeta.
    destruct (read_offsets w p (N.to_nat (N.min (v + 1) room)) s2) as [[l s3] st] eqn:RO.
    destruct (read_offsets_count _ _ _ _ _ _ _ RO) as [C1 C2]. rewrite N2Nat.id in C1, C2.
    destruct st as [|k|].
    + specialize (C2 eq_refl). destruct (room <? v + 1) eqn:RF; [reflexivity|].
      rewrite C2. reflexivity.
    + destruct l; reflexivity.
    + destruct l; reflexivity.
  - destruct (read_offsets w p 1 s1) as [[l s2] st] eqn:RO.
    destruct (read_offsets_count _ _ _ _ _ _ _ RO) as [C1 C2].
    change (N.of_nat 1) with 1 in C1, C2.
    destruct st as [|k|]; [|reflexivity|reflexivity].
    specialize (C2 eq_refl). rewrite C2. reflexivity.
Qed.

(* search_with_reader followed by a checked read: either the search ends within
   total_bits on the prefix read_code_at finds; or it fails as read_code_at does; or it
   returns some prefix with the reader beyond total_bits, where read_code_at already
   reports the InsufficientData of the checked read that follows *)
Lemma hsearch_cases w ps tbl ws tb st :
  table_ok ps = true -> ps <> [] -> (max_code_len ps <= 40)%nat -> hfrom w ps = Ok tbl ->
  bw_ok ws tb -> binv tb st ->
  match hsearch ws (fst st) (snd st) tb tbl with
  | Ok (p, st1) =>
      (read_code_at tb ps (stream ws tb st) = Ok (p, stream ws tb st1) /\ binv tb st1 /\ In p ps)
      \/ (read_code_at tb ps (stream ws tb st) = Err InsufficientData /\ tb < pos st1)
  | Err k => read_code_at tb ps (stream ws tb st) = Err k
  | Panic => False
  end.
Proof.
  intros Hok Hne HM Hfrom Hbw [Hj Hp]. destruct st as [i j]. cbn [fst snd] in *.
  rewrite pos_ij in Hp.
  pose proof (hsearch_eq_read_code_at w ps tbl ws tb i j Hok Hne HM Hfrom Hbw Hj Hp) as H.
  unfold hsearch_checked in H. unfold stream. rewrite pos_ij.
  destruct (hsearch ws i j tb tbl) as [[p [i' j']]|k|]; cbn [bind] in H; [|exact H|exact H].
  unfold rd_insufficient, rd_bit_idx, WORD_SIZE in H. rewrite pos_ij.
  destruct (N.ltb_spec tb (64 * i' + j' + 0)) as [L|L].
  - right. split; [exact H|lia].
  - left. destruct H as (R & _ & Hj' & Hp').
    split; [exact R|]. split; [split; cbn [fst snd]; [exact Hj'|rewrite pos_ij; exact Hp']|].
    exact (proj1 (read_code_at_sound _ _ _ _ _ Hok R)).
Qed.

Lemma rb_offset_dirty_beyond w ws tb p st : tb < pos st ->
  rb_offset_dirty w ws tb p st = Err InsufficientData.
Proof.
  intros H. unfold rb_offset_dirty. cbv zeta. rewrite rf_read_diff_beyond by exact H. reflexivity.
Qed.

Lemma rb_read_varint_beyond ws tb st j : tb < pos st ->
  rb_read_varint ws tb st j = Err InsufficientData.
Proof.
  intros H. unfold rb_read_varint, rf_read_usize. rewrite rf_read_diff_beyond by exact H.
  reflexivity.
Qed.

(* everything fixed during a batch: a validated table with its literal HuffmanTable, and
   the words the reader holds *)
Definition body_ctx (w : N) (ps : list prefix) (tbl : htable) (ws : list N) (tb : N) : Prop :=
  table_ok ps = true /\ ps <> [] /\ (max_code_len ps <= 40)%nat /\ hfrom w ps = Ok tbl /\
  bw_ok ws tb /\ Forall (body_prefix w) ps.

(* decompress_num_block = one iteration of read_blocks: the same numbers, the same status,
   the same position (the start of the block after a rewind, the start of the failing
   number inside a run), and the incomplete prefix as the block leaves it *)
Theorem rb_block_spec w ps tbl ws tb inc room st : body_ctx w ps tbl ws tb -> binv tb st ->
  forall l st' inc' s, rb_num_block w ws tb tbl inc room st = (l, st', inc', s) ->
  exists incm,
    mblock w tb ps room (stream ws tb st) = (l, stream ws tb st', incm, s) /\
    binv tb st' /\ s <> SPanic /\
    inc' = match s with SOk => inc_merge incm inc | _ => incm end.
Proof.
  intros (Hok & Hne & HM & Hfrom & Hbw & HF) Hi l st' inc' s E.
  pose proof (bw_rd_ok ws tb Hbw) as Hrd.
  pose proof (hsearch_cases w ps tbl ws tb st Hok Hne HM Hfrom Hbw Hi) as HS.
  destruct (rb_seek_back tb st Hi) as [Hi0 _].
  pose proof (stream_seek_back ws tb st) as S0.
  unfold rb_num_block in E. cbv zeta in E. unfold mblock.
  destruct (hsearch ws (fst st) (snd st) tb tbl) as [[p st1]|k|]; [| |contradiction].
  2:{ (* the search fails *)
      rewrite HS. inversion E; subst. rewrite S0. exists None.
      repeat split; try assumption; try discriminate; apply Hi0. }
  destruct HS as [(RC & Hi1 & Hin)|(RC & Hbey)].
  2:{ (* found with the reader beyond total_bits: the checked read that follows fails *)
      rewrite RC. exists None.
      destruct (p_jump p) as [j|].
      - rewrite rb_read_varint_beyond in E by exact Hbey. inversion E; subst. rewrite S0.
        repeat split; try assumption; try discriminate; apply Hi0.
      - cbn [rb_offsets] in E. rewrite rb_offset_dirty_beyond in E by exact Hbey.
        inversion E; subst. rewrite S0.
        repeat split; try assumption; try discriminate; apply Hi0. }
  rewrite RC.
  assert (Bp : body_prefix w p) by (rewrite Forall_forall in HF; apply HF; exact Hin).
  destruct Bp as [Sp Hjmp].
  destruct (p_jump p) as [j|].
  - pose proof (rb_read_varint_spec ws tb st1 j Hrd Hi1 (Hjmp j eq_refl)) as HV.
    unfold bagrees in HV.
    destruct (rb_read_varint ws tb st1 j) as [[v st2]|k|]; [| |contradiction].
    2:{ rewrite HV. inversion E; subst. rewrite S0. exists None.
        repeat split; try assumption; try discriminate; apply Hi0. }
    destruct HV as [RV Hi2]. rewrite RV. cbv zeta.
    unfold rb_limit_reps in E.
    assert (Ereps : (if room <? v + 1 then room else v + 1) = N.min (v + 1) room).
    { destruct (N.ltb_spec room (v + 1)); lia. }
    destruct (room <? v + 1) eqn:RF.
    + (* the run is cut by the batch: limit_reps stores the incomplete prefix *)
      rewrite <- Ereps.
      destruct (rb_offsets w ws tb p (N.to_nat room) st2) as [[l3 st3] s3] eqn:RO.
      destruct (rb_offsets_spec w ws tb p Hrd Sp _ st2 Hi2 _ _ _ RO) as (RM & Hi3 & NP).
      rewrite RM.
      destruct s3 as [|k|]; [| |congruence].
      * inversion E; subst. eexists. split; [reflexivity|].
        split; [exact Hi3|]. split; [discriminate|reflexivity].
      * destruct l3 as [|u0 t0].
        -- cbn [Nlen length N.of_nat N.ltb N.compare] in E. inversion E; subst. rewrite S0.
           eexists. split; [reflexivity|]. split; [exact Hi0|]. split; [discriminate|reflexivity].
        -- assert (Hpos : (0 <? Nlen (u0 :: t0)) = true).
           { apply N.ltb_lt. rewrite Nlen_cons. lia. }
           rewrite Hpos in E. inversion E; subst.
           eexists. split; [reflexivity|]. split; [exact Hi3|]. split; [discriminate|reflexivity].
    + rewrite <- Ereps.
      destruct (rb_offsets w ws tb p (N.to_nat (v + 1)) st2) as [[l3 st3] s3] eqn:RO.
      destruct (rb_offsets_spec w ws tb p Hrd Sp _ st2 Hi2 _ _ _ RO) as (RM & Hi3 & NP).
      rewrite RM.
      destruct s3 as [|k|]; [| |congruence].
      * inversion E; subst. eexists. split; [reflexivity|].
        split; [exact Hi3|]. split; [discriminate|]. cbn [inc_merge]. reflexivity.
      * destruct l3 as [|u0 t0].
        -- cbn [Nlen length N.of_nat N.ltb N.compare] in E. inversion E; subst. rewrite S0.
           eexists. split; [reflexivity|]. split; [exact Hi0|]. split; [discriminate|reflexivity].
        -- assert (Hpos : (0 <? Nlen (u0 :: t0)) = true).
           { apply N.ltb_lt. rewrite Nlen_cons. lia. }
           rewrite Hpos in E. inversion E; subst.
           eexists. split; [reflexivity|]. split; [exact Hi3|]. split; [discriminate|reflexivity].
  - destruct (rb_offsets w ws tb p 1 st1) as [[l2 st2] s2] eqn:RO.
    destruct (rb_offsets_spec w ws tb p Hrd Sp _ st1 Hi1 _ _ _ RO) as (RM & Hi2 & NP).
    rewrite RM.
    destruct s2 as [|k|]; [| |congruence].
    + inversion E; subst. eexists. split; [reflexivity|].
      split; [exact Hi2|]. split; [discriminate|]. cbn [inc_merge]. reflexivity.
    + (* reps = 1 and it failed: nothing was pushed *)
      destruct (read_offsets_count _ _ _ _ _ _ _ RM) as [C1 _].
      change (N.of_nat 1) with 1 in C1.
      assert (l2 = []).
      { cbn [rb_offsets] in RO.
        destruct (rb_offset_dirty w ws tb p st1) as [[u st1']|k'|]; [|congruence|congruence].
        inversion RO. }
      subst l2. inversion E; subst. rewrite S0.
      eexists. split; [reflexivity|]. split; [exact Hi0|]. split; [discriminate|reflexivity].
Qed.

(* ================================================================== *)
(* 5. the checked loop                                                 *)
(* ================================================================== *)
Lemma rb_blocks_room0 fuel w ws tb tbl inc st :
  rb_blocks fuel w ws tb tbl inc 0 st = ([], st, inc, SOk).
Proof. destruct fuel; reflexivity. Qed.

(* a successful block that leaves an incomplete prefix fills the batch *)
Lemma mblock_some_full w tb ps room s l s1 pr :
  mblock w tb ps room s = (l, s1, Some pr, SOk) -> Nlen l = room.
Proof.
  unfold mblock. intros H.
  destruct (read_code_at tb ps s) as [[p s0]|k|]; [|discriminate|discriminate].
  destruct (p_jump p) as [j|].
  - destruct (read_varint j s0) as [[v s2]|k|]; [|discriminate|discriminate].
    cbv zeta in H.
    destruct (read_offsets w p (N.to_nat (N.min (v + 1) room)) s2) as [[l0 s3] st] eqn:RO.
    destruct (read_offsets_count _ _ _ _ _ _ _ RO) as [_ C2]. rewrite N2Nat.id in C2.
    destruct st as [|k|].
    + destruct (N.ltb_spec room (v + 1)) as [L|L]; [|discriminate].
      inversion H; subst. rewrite (C2 eq_refl). lia.
    + destruct l0; discriminate.
    + destruct l0; discriminate.
  - destruct (read_offsets w p 1 s0) as [[l0 s2] st]. destruct st; discriminate.
Qed.

Lemma inc_merge_None_r' (a : option (prefix * N)) : inc_merge a None = a.
Proof. destruct a; reflexivity. Qed.

(* the `while unsigneds.len() < batch_size` loop = Codec.read_blocks.  On entry the
   incomplete prefix is None whenever the batch still has room (the part of
   decompress_unsigneds_limited_dirty before the loop guarantees it). *)
Theorem rb_blocks_spec w ps tbl ws tb : body_ctx w ps tbl ws tb -> forall fuel inc room st,
  binv tb st -> (room <> 0 -> inc = None) ->
  forall l st' inc' s, rb_blocks fuel w ws tb tbl inc room st = (l, st', inc', s) ->
  exists incm,
    read_blocks fuel w tb ps room (stream ws tb st) = (l, stream ws tb st', incm, s) /\
    binv tb st' /\ s <> SPanic /\ inc' = inc_merge incm inc.
Proof.
  intros Hctx. induction fuel as [|f IH]; intros inc room st Hi Hinc l st' inc' s E.
  - cbn [rb_blocks read_blocks] in *. inversion E; subst. exists None.
    split; [reflexivity|]. split; [exact Hi|]. split; [discriminate|reflexivity].
  - rewrite read_blocks_step. cbn [rb_blocks] in E.
    destruct (N.eqb_spec room 0) as [R0|R0].
    { inversion E; subst. exists None.
      split; [reflexivity|]. split; [exact Hi|]. split; [discriminate|reflexivity]. }
    specialize (Hinc R0). subst inc.
    destruct (rb_num_block w ws tb tbl None room st) as [[[l1 st1] inc1] s1] eqn:EB.
    destruct (rb_block_spec w ps tbl ws tb None room st Hctx Hi _ _ _ _ EB)
      as (incm1 & MB & Hi1 & NP1 & Einc1).
    rewrite MB.
    destruct s1 as [|k|]; [| |congruence].
    + rewrite inc_merge_None_r' in Einc1. subst inc1.
      destruct incm1 as [pr|].
      * pose proof (mblock_some_full _ _ _ _ _ _ _ _ MB) as Hfull.
        rewrite Hfull, N.sub_diag, rb_blocks_room0 in E. rewrite app_nil_r in E.
        inversion E; subst. exists (Some pr).
        split; [reflexivity|]. split; [exact Hi1|]. split; [discriminate|reflexivity].
      * destruct (rb_blocks f w ws tb tbl None (room - Nlen l1) st1) as [[[l2 st2] inc2] s2] eqn:ER.
        destruct (IH None (room - Nlen l1) st1 Hi1 ltac:(reflexivity) _ _ _ _ ER)
          as (incm2 & RB & Hi2 & NP2 & Einc2).
        rewrite RB. inversion E; subst. exists incm2.
        split; [reflexivity|]. split; [exact Hi2|]. split; [exact NP2|reflexivity].
    + inversion E; subst. exists inc'.
      split; [reflexivity|]. split; [exact Hi1|]. split; [discriminate|].
      symmetry. apply inc_merge_None_r'.
Qed.

(* ================================================================== *)
(* 6. one call of decompress_unsigneds_limited_dirty                   *)
(* ================================================================== *)
(* mark_insufficient / Ok / Err as Codec.read_batch applies them (its local [finish]) *)
Definition mfinish (completed eoi : bool) (l : list N) (s' : bits)
           (inc' : option (prefix * N)) (st : status) : batch_out :=
  match st with
  | SOk => mkBatch l s' inc' completed SOk
  | SErr InsufficientData =>
      if eoi then mkBatch l s' inc' completed st else mkBatch l s' inc' false SOk
  | _ => mkBatch l s' inc' completed st
  end.

Lemma read_batch_unfold w tb ps n_left inc limit eoi s :
  read_batch w tb ps n_left inc limit eoi s =
  let batch_size := N.min n_left limit in
  let completed := n_left <=? limit in
  if batch_size =? 0 then mkBatch [] s inc completed SOk else
  match inc with
  | Some (p, remaining) =>
    let reps := N.min remaining batch_size in
    let '(l, s1, st) := read_offsets w p (N.to_nat reps) s in
    let rem' := remaining - Nlen l in
    let inc1 := if rem' =? 0 then None else Some (p, rem') in
    match st with
    | SOk =>
      let '(l2, s2, inc2, st2) :=
          read_blocks (N.to_nat (batch_size - Nlen l)) w tb ps (batch_size - Nlen l) s1 in
      mfinish completed eoi (l ++ l2) s2 (inc_merge inc2 inc1) st2
    | _ => mfinish completed eoi l s1 inc1 st
    end
  | None =>
    let '(l, s1, inc1, st) := read_blocks (N.to_nat batch_size) w tb ps batch_size s in
    mfinish completed eoi l s1 inc1 st
  end.
Proof. reflexivity. Qed.

(* the word-level outcome and the bit-list outcome are the same *)
Definition same_out (ws : list N) (tb : N) (o : rb_out) (m : batch_out) : Prop :=
  rb_nums o = b_nums m /\ rb_incomplete o = b_incomplete m /\
  rb_finished o = b_finished m /\ rb_status o = b_status m /\
  b_rest m = stream ws tb (rb_pos o) /\
  rb_status o <> SPanic /\ binv tb (rb_pos o).

Lemma finish_same ws tb completed eoi l st inc s : binv tb st -> s <> SPanic ->
  same_out ws tb (rb_finish completed eoi l st inc s)
           (mfinish completed eoi l (stream ws tb st) inc s).
Proof.
  intros Hi NP. unfold same_out, rb_finish, mfinish.
  destruct s as [|k|]; [| |congruence].
  - cbn. repeat split; try assumption; try discriminate; apply Hi.
  - destruct k, eoi; cbn; repeat split; try assumption; try discriminate; apply Hi.
Qed.

Theorem rb_batch_same w ps tbl ws tb n_left inc limit eoi st :
  body_ctx w ps tbl ws tb -> sane_inc w inc -> binv tb st ->
  same_out ws tb (rb_batch w ws tb tbl n_left inc limit eoi st)
           (read_batch w tb ps n_left inc limit eoi (stream ws tb st)).
Proof.
  intros Hctx Hsinc Hi.
  assert (Hrd : rd_ok ws tb) by (apply bw_rd_ok; apply Hctx).
  rewrite read_batch_unfold. unfold rb_batch. cbv zeta.
  set (bs := N.min n_left limit).
  destruct (N.eqb_spec bs 0) as [B0|B0].
  { unfold same_out. cbn. repeat split; try assumption; try discriminate; apply Hi. }
  destruct inc as [[p remaining]|].
  - assert (Sp : sane_prefix w p) by (eapply Hsinc; reflexivity).
    destruct (rb_offsets w ws tb p (N.to_nat (N.min remaining bs)) st) as [[l st1] s] eqn:RO.
    destruct (rb_offsets_spec w ws tb p Hrd Sp _ st Hi _ _ _ RO) as (RM & Hi1 & NP).
    rewrite RM.
    destruct s as [|k|]; [| |congruence].
    + destruct (read_offsets_count _ _ _ _ _ _ _ RM) as [_ C2]. rewrite N2Nat.id in C2.
      specialize (C2 eq_refl).
      set (inc1 := if remaining - Nlen l =? 0 then None else Some (p, remaining - Nlen l)).
      assert (Hinc1 : bs - Nlen l <> 0 -> inc1 = None).
      { intros Hr. unfold inc1. destruct (N.eqb_spec (remaining - Nlen l) 0) as [_|Hn];
          [reflexivity|lia]. }
      clearbody inc1.
      destruct (rb_blocks (N.to_nat (bs - Nlen l)) w ws tb tbl inc1 (bs - Nlen l) st1)
        as [[[l2 st2] inc2] s2] eqn:RB.
      destruct (rb_blocks_spec w ps tbl ws tb Hctx _ _ _ _ Hi1 Hinc1 _ _ _ _ RB)
        as (incm & RBM & Hi2 & NP2 & Einc2).
      rewrite RBM. subst inc2. apply finish_same; assumption.
    + apply finish_same; [exact Hi1|discriminate].
  - destruct (rb_blocks (N.to_nat bs) w ws tb tbl None bs st) as [[[l st1] inc1] s] eqn:RB.
    destruct (rb_blocks_spec w ps tbl ws tb Hctx _ _ _ _ Hi ltac:(reflexivity) _ _ _ _ RB)
      as (incm & RBM & Hi1 & NP & Einc).
    rewrite RBM. rewrite inc_merge_None_r' in Einc. subst inc1.
    apply finish_same; assumption.
Qed.

(* ------------------------------------------------------------------ *)
(* the main theorem, with explicit (i, j)                               *)
(* ------------------------------------------------------------------ *)
Theorem rb_batch_eq w ps tbl ws tb i j n_left inc limit eoi :
  bw_ok ws tb ->
  table_ok ps = true -> ps <> [] -> (max_code_len ps <= 40)%nat -> hfrom w ps = Ok tbl ->
  Forall (body_prefix w) ps -> sane_inc w inc ->
  j <= 64 -> 64 * i + j <= tb ->
  let out := rb_batch w ws tb tbl n_left inc limit eoi (i, j) in
  let m := read_batch w tb ps n_left inc limit eoi (rd_stream ws tb (64 * i + j)) in
  rb_nums out = b_nums m /\
  rb_incomplete out = b_incomplete m /\
  rb_finished out = b_finished m /\
  rb_status out = b_status m /\
  b_rest m = rd_stream ws tb (64 * fst (rb_pos out) + snd (rb_pos out)) /\
  rb_status out <> SPanic /\
  snd (rb_pos out) <= 64 /\ 64 * fst (rb_pos out) + snd (rb_pos out) <= tb.
Proof.
  intros Hbw Hok Hne HM Hfrom HF Hsinc Hj Hp out m.
  assert (Hctx : body_ctx w ps tbl ws tb)
    by exact (conj Hok (conj Hne (conj HM (conj Hfrom (conj Hbw HF))))).
  assert (Hi : binv tb (i, j)) by (split; cbn [fst snd]; [exact Hj|rewrite pos_ij; exact Hp]).
  pose proof (rb_batch_same w ps tbl ws tb n_left inc limit eoi (i, j) Hctx Hsinc Hi) as S.
  unfold stream in S at 1. rewrite pos_ij in S. fold m out in S.
  destruct S as (A & B & C & D & E & F & G1 & G2).
  repeat split; assumption.
Qed.

(* ------------------------------------------------------------------ *)
(* the fuel of the loop is immaterial                                   *)
(* ------------------------------------------------------------------ *)
(* The Rust `while` has no bound.  A block that succeeds pushes at least one number, so
   any fuel of at least [room] gives the same result: the fuel of rb_batch (the room of the
   batch) is never the reason the loop stops. *)
Lemma mblock_ok_pos w tb ps room s l s1 incm :
  mblock w tb ps room s = (l, s1, incm, SOk) -> room <> 0 -> 1 <= Nlen l.
Proof.
  unfold mblock. intros H R0.
  destruct (read_code_at tb ps s) as [[p s0]|k|]; [|discriminate|discriminate].
  destruct (p_jump p) as [j|].
  - destruct (read_varint j s0) as [[v s2]|k|]; [|discriminate|discriminate].
    cbv zeta in H.
    destruct (read_offsets w p (N.to_nat (N.min (v + 1) room)) s2) as [[l0 s3] st] eqn:RO.
    destruct (read_offsets_count _ _ _ _ _ _ _ RO) as [_ C2]. rewrite N2Nat.id in C2.
    destruct st as [|k|].
    + inversion H; subst. rewrite (C2 eq_refl). lia.
    + destruct l0; discriminate.
    + destruct l0; discriminate.
  - destruct (read_offsets w p 1 s0) as [[l0 s2] st] eqn:RO.
    destruct (read_offsets_count _ _ _ _ _ _ _ RO) as [_ C2].
    change (N.of_nat 1) with 1 in C2.
    destruct st as [|k|]; [|discriminate|discriminate].
    inversion H; subst. rewrite (C2 eq_refl). lia.
Qed.

Theorem rb_blocks_fuel w ps tbl ws tb : body_ctx w ps tbl ws tb -> forall f1 f2 inc room st,
  binv tb st -> room <= N.of_nat f1 -> room <= N.of_nat f2 ->
  rb_blocks f1 w ws tb tbl inc room st = rb_blocks f2 w ws tb tbl inc room st.
Proof.
  intros Hctx. induction f1 as [|f1 IH]; intros f2 inc room st Hi H1 H2.
  - assert (room = 0) by lia. subst room. rewrite !rb_blocks_room0. reflexivity.
  - destruct f2 as [|f2].
    { assert (room = 0) by lia. subst room. rewrite !rb_blocks_room0. reflexivity. }
    cbn [rb_blocks]. destruct (N.eqb_spec room 0) as [R0|R0]; [reflexivity|].
    destruct (rb_num_block w ws tb tbl inc room st) as [[[l1 st1] inc1] s1] eqn:EB.
    destruct (rb_block_spec w ps tbl ws tb inc room st Hctx Hi _ _ _ _ EB)
      as (incm1 & MB & Hi1 & _ & _).
    destruct s1 as [|k|]; [|reflexivity|reflexivity].
    pose proof (mblock_ok_pos _ _ _ _ _ _ _ _ MB R0) as Hl.
    rewrite (IH f2 inc1 (room - Nlen l1) st1 Hi1) by lia. reflexivity.
Qed.

(* ------------------------------------------------------------------ *)
(* against the model that includes the unchecked fast path              *)
(* ------------------------------------------------------------------ *)
(* The real decompress_unsigneds_limited_dirty takes the unchecked fast path when it is
   guaranteed safe; FastL proves that Fast.fast_batch — checked loop AND fast path — is
   Codec.read_batch.  So the word-level checked loop also returns what fast_batch returns. *)
Corollary rb_batch_eq_fast w phys ps tbl ws tb i j n_left inc limit eoi :
  bw_ok ws tb -> fast_table w phys ps -> ps <> [] -> hfrom w ps = Ok tbl ->
  n_left <= Consts.MAX_ENTRIES -> sane_inc w inc ->
  j <= 64 -> 64 * i + j <= tb ->
  let out := rb_batch w ws tb tbl n_left inc limit eoi (i, j) in
  let m := fast_batch w phys tb ps n_left inc limit eoi (rd_stream ws tb (64 * i + j)) in
  rb_nums out = b_nums m /\
  rb_incomplete out = b_incomplete m /\
  rb_finished out = b_finished m /\
  rb_status out = b_status m /\
  b_rest m = rd_stream ws tb (64 * fst (rb_pos out) + snd (rb_pos out)) /\
  rb_status out <> SPanic /\
  snd (rb_pos out) <= 64 /\ 64 * fst (rb_pos out) + snd (rb_pos out) <= tb.
Proof.
  intros Hbw HT Hne Hfrom Hn Hsinc Hj Hp. cbv zeta.
  rewrite (fast_batch_eq w phys tb ps n_left inc limit eoi _ HT Hn).
  destruct HT as (Hok & HM & HF).
  apply rb_batch_eq; try assumption.
  eapply Forall_impl; [|exact HF]. intros a (Sa & _ & Ja). split; [exact Sa|].
  intros j0 E. specialize (Ja j0 E). lia.
Qed.

(* ================================================================== *)
(* 7. from the bytes the Decompressor holds                            *)
(* ================================================================== *)
(* BitWords::from(bytes), seek_to(p), HuffmanTable::from(prefixes): the table is built, and
   the batch is the bit-list batch on the bits of the bytes from p on *)
Theorem rb_batch_bytes_eq w ps bytes p n_left inc limit eoi :
  Forall (fun b => b < 256) bytes -> p <= 8 * Nlen bytes ->
  table_ok ps = true -> ps <> [] -> (max_code_len ps <= 40)%nat ->
  Forall (body_prefix w) ps -> sane_inc w inc ->
  match rb_batch_bytes w ps bytes p n_left inc limit eoi with
  | Ok out =>
    let m := read_batch w (8 * Nlen bytes) ps n_left inc limit eoi
                        (skipn (N.to_nat p) (bytes_to_bits bytes)) in
    rb_nums out = b_nums m /\
    rb_incomplete out = b_incomplete m /\
    rb_finished out = b_finished m /\
    rb_status out = b_status m /\
    b_rest m = skipn (N.to_nat (64 * fst (rb_pos out) + snd (rb_pos out))) (bytes_to_bits bytes) /\
    rb_status out <> SPanic /\
    snd (rb_pos out) <= 64 /\ 64 * fst (rb_pos out) + snd (rb_pos out) <= 8 * Nlen bytes
  | _ => False
  end.
Proof.
  intros Hb Hp Hok Hne HM HF Hsinc. unfold rb_batch_bytes.
  pose proof (bw_from_bytes_spec bytes Hb) as H.
  destruct (bw_extend [] 0 bytes) as [ws tb]. destruct H as (Htb & Hbw & Hbits).
  destruct (hfrom_total w ps Hok) as (tbl & Hfrom). rewrite Hfrom. cbn [bind].
  destruct (rb_seek_to_pos p) as [Epos Lj].
  destruct (rb_seek_to p) as [i j] eqn:Es. cbn [snd] in Lj. rewrite pos_ij in Epos.
  pose proof (rb_batch_eq w ps tbl ws tb i j n_left inc limit eoi Hbw Hok Hne HM Hfrom HF Hsinc
                ltac:(lia) ltac:(lia)) as R.
  cbv zeta in R. unfold rd_stream in R. rewrite Hbits, Epos in R. subst tb. exact R.
Qed.

(* ================================================================== *)
(* 8. non-vacuity                                                      *)
(* ================================================================== *)
(* A u16 file with one chunk of 24 numbers (no delta encoding, gcds on):
     [true]         a run-length prefix (jumpstart 1) with range 100..115 on the gcd-3 lattice
                    (k = 2, offsets 4 and 5 take a third bit),
     [false; true]  1000..1200 (k = 7, most offsets take an eighth bit),
     [false; false] the whole type (k = 16 = U::BITS: no extra bit).
   The body is 19 bytes at bit 280 of the file: it starts in the middle of word 4 and runs
   over words 5 and 6. *)
Definition bx_pA : prefix := mkPrefix 14 100 115 [true] (Some 1) 3.
Definition bx_pB : prefix := mkPrefix 4 1000 1200 [false; true] None 1.
Definition bx_pC : prefix := mkPrefix 6 0 65535 [false; false] None 1.
Definition bx_table : list prefix := [bx_pA; bx_pB; bx_pC].
Definition bx_xs : list Z :=
  [100; 103; 106; 115; 100; 100; 100; 1005; 1200; 7; 65535;
   109; 109; 109; 109; 109; 109; 109; 109; 109; 109; 1100; 40000; 112]%Z.
Definition bx_us : list N := map Z.to_N bx_xs.
Definition bx_flags : flags := writer_flags 0 true.
Definition bx_bytes : list N :=
  [113; 99; 111; 33; 12; 140; 44; 0; 0; 24; 0; 0; 0; 19; 0; 6; 112; 3; 32; 3; 152; 112; 200;
   128; 125; 0; 150; 2; 67; 0; 0; 127; 255; 136; 0; 188; 20; 192; 8; 83; 34; 0; 3; 159; 255;
   253; 111; 255; 255; 114; 19; 136; 16; 128; 46].

Definition bx_status_eqb (a b : status) : bool :=
  match a, b with
  | SOk, SOk => true
  | SErr k, SErr k' => ekind_eqb k k'
  | SPanic, SPanic => true
  | _, _ => false
  end.
Definition bx_inc_eqb (a b : option (prefix * N)) : bool :=
  opt_eqb (fun x y => prefix_eqb (fst x) (fst y) && (snd x =? snd y)) a b.

(* both sides on the same bytes at the same position: everything equal, no panic *)
Definition bx_same (bytes : list N) (p n_left : N) (inc : option (prefix * N))
           (limit : N) (eoi : bool) : bool :=
  match rb_batch_bytes 16 bx_table bytes p n_left inc limit eoi with
  | Ok o =>
    let m := read_batch 16 (8 * Nlen bytes) bx_table n_left inc limit eoi
                        (skipn (N.to_nat p) (bytes_to_bits bytes)) in
    list_eqb N.eqb (rb_nums o) (b_nums m) && bx_inc_eqb (rb_incomplete o) (b_incomplete m)
    && Bool.eqb (rb_finished o) (b_finished m) && bx_status_eqb (rb_status o) (b_status m)
    && list_eqb Bool.eqb (b_rest m) (skipn (N.to_nat (pos (rb_pos o))) (bytes_to_bits bytes))
    && negb (bx_status_eqb (rb_status o) SPanic)
  | _ => false
  end.

(* the file, its header and metadata at word level (RFile), then the body at word level *)
Example rbody_example :
  file_bytes DU16 bx_flags [(bx_xs, bx_table)] = Ok bx_bytes /\
  rf_header_bytes DU16 bx_bytes 0 = Ok (bx_flags, (0, 48)) /\
  rf_chunk_meta_bytes DU16 bx_flags bx_bytes 48 = Ok (Some (mkMeta 24 19 [] bx_table), (4, 24)) /\
  (* the whole body in one batch: ends at bit 425 of 432 (drain_empty_byte is the caller's) *)
  rb_batch_bytes 16 bx_table bx_bytes 280 24 None 1000 true
  = Ok (mkRb bx_us (6, 41) None true SOk) /\
  bx_same bx_bytes 280 24 None 1000 true = true /\
  (* limit 1: the first number of a run of 7; the rest of the run is left incomplete *)
  rb_batch_bytes 16 bx_table bx_bytes 280 24 None 1 true
  = Ok (mkRb [100] (4, 34) (Some (bx_pA, 6)) false SOk) /\
  bx_same bx_bytes 280 24 None 1 true = true /\
  (* limit 3 *)
  rb_batch_bytes 16 bx_table bx_bytes 280 24 None 3 true
  = Ok (mkRb [100; 103; 106] (4, 39) (Some (bx_pA, 4)) false SOk) /\
  bx_same bx_bytes 280 24 None 3 true = true /\
  (* ... and the next call, with the incomplete prefix carried over, from (4, 39) *)
  rb_batch_bytes 16 bx_table bx_bytes 295 21 (Some (bx_pA, 4)) 3 true
  = Ok (mkRb [115; 100; 100] (4, 48) (Some (bx_pA, 1)) false SOk) /\
  bx_same bx_bytes 295 21 (Some (bx_pA, 4)) 3 true = true.
Proof. vm_compute. repeat split; reflexivity. Qed.

(* the data cut in the middle of the run of ten 109s (47 bytes held: 2 of the 10 decoded):
   the reader stays at the end of the last complete number, bit 376, the other 8 repetitions
   are recorded as incomplete; InsufficientData or a short batch depending on the flag; and
   once the rest has arrived the next call finishes the body *)
Example rbody_example_truncated :
  rb_batch_bytes 16 bx_table (firstn 47 bx_bytes) 280 24 None 1000 true
  = Ok (mkRb (firstn 13 bx_us) (5, 56) (Some (bx_pA, 8)) true (SErr InsufficientData)) /\
  bx_same (firstn 47 bx_bytes) 280 24 None 1000 true = true /\
  rb_batch_bytes 16 bx_table (firstn 47 bx_bytes) 280 24 None 1000 false
  = Ok (mkRb (firstn 13 bx_us) (5, 56) (Some (bx_pA, 8)) false SOk) /\
  bx_same (firstn 47 bx_bytes) 280 24 None 1000 false = true /\
  rb_batch_bytes 16 bx_table bx_bytes 376 11 (Some (bx_pA, 8)) 1000 true
  = Ok (mkRb (skipn 13 bx_us) (6, 41) None true SOk) /\
  bx_same bx_bytes 376 11 (Some (bx_pA, 8)) 1000 true = true /\
  (* cut inside the first block (36 bytes held: the code and varint are there, no offset
     is): rewind to the start of the block, nothing incomplete *)
  rb_batch_bytes 16 bx_table (firstn 36 bx_bytes) 280 24 None 1000 false
  = Ok (mkRb [] (4, 24) None false SOk) /\
  bx_same (firstn 36 bx_bytes) 280 24 None 1000 false = true.
Proof. vm_compute. repeat split; reflexivity. Qed.

(* every truncation of the file, limits 1, 2, 3, 5, 1000, both flags: decode batch after
   batch at word level (position and incomplete prefix threaded from the word-level side)
   until nothing more comes out; at every step the two sides agree *)
Fixpoint bx_iter (fuel : nat) (bytes : list N) (p n_left : N) (inc : option (prefix * N))
         (limit : N) (eoi : bool) : bool :=
  match fuel with
  | O => true
  | S f =>
    bx_same bytes p n_left inc limit eoi &&
    match rb_batch_bytes 16 bx_table bytes p n_left inc limit eoi with
    | Ok o =>
      match rb_status o, rb_nums o with
      | SOk, _ :: _ => bx_iter f bytes (pos (rb_pos o)) (n_left - Nlen (rb_nums o))
                               (rb_incomplete o) limit eoi
      | _, _ => true
      end
    | _ => false
    end
  end.

Example rbody_example_all_truncations :
  forallb (fun k => let bs := firstn k bx_bytes in
     forallb (fun limit => bx_iter 30 bs 280 24 None limit true && bx_iter 30 bs 280 24 None limit false)
             [1; 2; 3; 5; 1000])
          (seq 35 21) = true.
Proof. vm_compute. reflexivity. Qed.

(* hostile starts: every bit position of the body, with and without a carried-over
   incomplete prefix (of each of the three prefixes), on the whole file and on a truncation *)
Example rbody_example_all_positions :
  forallb (fun bs =>
     forallb (fun p => bx_same bs p 24 None 1000 false && bx_same bs p 24 (Some (bx_pB, 3)) 4 true
                       && bx_same bs p 24 (Some (bx_pC, 2)) 1000 true
                       && bx_same bs p 5 (Some (bx_pA, 9)) 1000 false)
             (map N.of_nat (seq 280 153)))
          [bx_bytes; firstn 50 bx_bytes] = true.
Proof. vm_compute. reflexivity. Qed.

(* and the theorem applies to the example: its hypotheses hold *)
Example rbody_example_thm :
  b_nums (read_batch 16 (8 * Nlen bx_bytes) bx_table 24 None 1000 true
                     (skipn 280 (bytes_to_bits bx_bytes))) = bx_us.
Proof.
  assert (Hb : Forall (fun b => b < 256) bx_bytes) by (repeat constructor).
  assert (HF : Forall (body_prefix 16) bx_table).
  { repeat constructor; cbn [p_gcd p_lower p_upper p_jump bx_pA bx_pB bx_pC];
      try (vm_compute; discriminate); intros j E; inversion E; vm_compute; discriminate. }
  pose proof (rb_batch_bytes_eq 16 bx_table bx_bytes 280 24 None 1000 true Hb
                ltac:(vm_compute; discriminate) eq_refl ltac:(discriminate)
                ltac:(vm_compute; lia) HF ltac:(intros p k E; discriminate)) as H.
  replace (rb_batch_bytes 16 bx_table bx_bytes 280 24 None 1000 true)
    with (@Ok rb_out (mkRb bx_us (6, 41) None true SOk)) in H by (vm_compute; reflexivity).
  cbv zeta in H. destruct H as (Hn & _). cbn [rb_nums] in Hn. symmetry. exact Hn.
Qed.

(* ================================================================== *)
(* assumptions                                                         *)
(* ================================================================== *)
Print Assumptions rb_read_varint_spec.
Print Assumptions rb_offset_dirty_spec.
Print Assumptions rb_offsets_spec.
Print Assumptions rb_block_spec.
Print Assumptions rb_blocks_spec.
Print Assumptions rb_blocks_fuel.
Print Assumptions rb_batch_same.
Print Assumptions rb_batch_eq.
Print Assumptions rb_batch_eq_fast.
Print Assumptions rb_batch_bytes_eq.
