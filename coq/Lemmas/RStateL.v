(* RStateL.v — the word-level Decompressor (Model/RState.v) simulates the bit-list
   Decompressor (Model/Reader.v): for every operation, from corresponding states, the two
   produce the same output — the same numbers, the same metadata, the same ROErr kind, the
   same RONone — and corresponding states again; the word-level machine never panics.

     abs         : wstate -> rstate       the bytes are the bytes of the BitWords
     winv d      : wstate -> Prop         the invariant (established by ws_init, kept by every
                                          operation)
     ws_step_sim : winv d st -> op_ok o ->          (op_ok: the bytes of a write are < 256)
                   let (st', out) := ws_step d st o in
                   winv d st' /\ r_step d (abs st) o = (abs st', out)
     ws_simple_sim, ws_do_sim, ws_run_sim, ws_run_init_sim, ws_decode_file_eq

   Sections: 1 extra facts about the bit-list body decoder (Codec.read_blocks / read_batch,
   Reader.nd_batch / cbd_batch) that the commit discipline of Iterator::next relies on;
   2 the abstraction; 3 one batch at word level = one batch at bit level; 4 the invariant;
   5 one lemma per operation; 6 runs; 7 examples. *)
From Coq Require Import Lia ZifyBool ZifyN ZifyNat.
From QCo.Lemmas Require Import Tactics BitsL CodecL FileL TruncL ReaderL NoPanicL FastL WordsL
     RFileL HuffL RBodyL RFastL.
From QCo.Model Require Import Base Consts DType Codec Reader Fast Words Huff Writer RFile RBody
     RFast RState.
Open Scope N_scope.

(* ================================================================== *)
(* 1. extra facts about the bit-list body decoder                      *)
(* ================================================================== *)
(* a failing decompress_offsets has decoded strictly fewer numbers than asked for *)
Lemma read_offsets_strict w p : forall reps s l r st,
  read_offsets w p reps s = (l, r, st) -> st <> SOk -> Nlen l < N.of_nat reps.
Proof.
  induction reps as [|n IH]; intros s l r st H Hst; cbn [read_offsets] in H.
  - inversion H; subst. congruence.
  - destruct (read_offset w p s) as [[u s1]|k|].
    + destruct (read_offsets w p n s1) as [[l1 s2] st1] eqn:E. inversion H; subst.
      specialize (IH _ _ _ _ E Hst). rewrite Nlen_cons. lia.
    + inversion H; subst. rewrite Nlen_nil. lia.
    + inversion H; subst. rewrite Nlen_nil. lia.
Qed.

(* decompress_offsets that decodes nothing leaves the reader where it was *)
Lemma read_offsets_nil w p : forall reps s r st,
  read_offsets w p reps s = ([], r, st) -> r = s.
Proof.
  destruct reps as [|n]; intros s r st H; cbn [read_offsets] in H.
  - inversion H. reflexivity.
  - destruct (read_offset w p s) as [[u s1]|k|].
    + destruct (read_offsets w p n s1) as [[l1 s2] st1]. discriminate.
    + inversion H. reflexivity.
    + inversion H. reflexivity.
Qed.

(* the block loop: a failure decodes strictly fewer numbers than the room; an incomplete
   prefix has repetitions left; and a failure before the first number leaves reader and
   incomplete prefix as at a fresh block start *)
Lemma read_blocks_more w tb ps : forall fuel room s l r inc st,
  read_blocks fuel w tb ps room s = (l, r, inc, st) ->
  (st <> SOk -> Nlen l < room) /\
  (forall p k, inc = Some (p, k) -> 0 < k) /\
  (l = [] -> st <> SOk -> r = s /\ inc = None).
Proof.
  induction fuel as [|f IH]; intros room s l r inc st H; cbn [read_blocks] in H.
  - inversion H; subst. repeat split; try congruence; intros; congruence.
  - destruct (room =? 0) eqn:R0.
    { inversion H; subst. repeat split; try congruence; intros; congruence. }
    apply N.eqb_neq in R0.
    destruct (read_code_at tb ps s) as [[p s1]|k|] eqn:RC.
    2:{ inversion H; subst. rewrite Nlen_nil. repeat split; try lia; intros; congruence. }
    2:{ inversion H; subst. rewrite Nlen_nil. repeat split; try lia; intros; congruence. }
    destruct (p_jump p) as [j|].
    + destruct (read_varint j s1) as [[v s2]|k|] eqn:RV.
      2:{ inversion H; subst. rewrite Nlen_nil. repeat split; try lia; intros; congruence. }
      2:{ inversion H; subst. rewrite Nlen_nil. repeat split; try lia; intros; congruence. }
      cbv zeta in H.
      destruct (read_offsets w p (N.to_nat (N.min (v + 1) room)) s2) as [[l0 s3] st0] eqn:RO.
      destruct (read_offsets_count _ _ _ _ _ _ _ RO) as [C1 C2]. rewrite N2Nat.id in C1, C2.
      destruct st0 as [|k|].
      * specialize (C2 eq_refl).
        destruct (room <? v + 1) eqn:RF.
        -- apply N.ltb_lt in RF. inversion H; subst.
           split; [congruence|]. split; [|intros _ Hc; congruence].
           intros p0 k0 E. inversion E; subst. lia.
        -- apply N.ltb_ge in RF.
           destruct (read_blocks f w tb ps (room - N.min (v + 1) room) s3)
             as [[[l' s4] inc'] st'] eqn:RB.
           inversion H; subst. destruct (IH _ _ _ _ _ _ RB) as (A & B & C).
           rewrite Nlen_app. split; [intros Hs; specialize (A Hs); lia|].
           split; [exact B|]. intros Hl. apply app_eq_nil in Hl. destruct Hl as [Hl0 _].
           subst l0. rewrite Nlen_nil in C2. lia.
      * assert (S0 : Nlen l0 < N.min (v + 1) room).
        { pose proof (read_offsets_strict _ _ _ _ _ _ _ RO ltac:(discriminate)) as S0.
          rewrite N2Nat.id in S0. exact S0. }
        destruct l0 as [|u0 t0].
        -- inversion H; subst. rewrite Nlen_nil.
           repeat split; try lia; intros; congruence.
        -- inversion H; subst. split; [intros _; lia|]. split; [|intros Hc; discriminate].
           intros p0 k0 E. inversion E; subst. lia.
      * assert (S0 : Nlen l0 < N.min (v + 1) room).
        { pose proof (read_offsets_strict _ _ _ _ _ _ _ RO ltac:(discriminate)) as S0.
          rewrite N2Nat.id in S0. exact S0. }
        destruct l0 as [|u0 t0].
        -- inversion H; subst. rewrite Nlen_nil.
           repeat split; try lia; intros; congruence.
        -- inversion H; subst. split; [intros _; lia|]. split; [|intros Hc; discriminate].
           intros p0 k0 E. inversion E; subst. lia.
    + destruct (read_offsets w p 1 s1) as [[l0 s2] st0] eqn:RO.
      destruct (read_offsets_count _ _ _ _ _ _ _ RO) as [C1 C2].
      change (N.of_nat 1) with 1 in C1, C2.
      destruct st0 as [|k|].
      * specialize (C2 eq_refl).
        destruct (read_blocks f w tb ps (room - 1) s2) as [[[l' s3] inc'] st'] eqn:RB.
        inversion H; subst. destruct (IH _ _ _ _ _ _ RB) as (A & B & C).
        rewrite Nlen_app. split; [intros Hs; specialize (A Hs); lia|].
        split; [exact B|]. intros Hl. apply app_eq_nil in Hl. destruct Hl as [Hl0 _].
        subst l0. rewrite Nlen_nil in C2. lia.
      * inversion H; subst. rewrite Nlen_nil. repeat split; try lia; intros; congruence.
      * inversion H; subst. rewrite Nlen_nil. repeat split; try lia; intros; congruence.
Qed.

(* `incomplete_prefix` always has repetitions left *)
Definition inc_pos (inc : option (prefix * N)) : Prop :=
  forall p k, inc = Some (p, k) -> 0 < k.

Lemma inc_pos_None : inc_pos None.
Proof. intros p k E. discriminate. Qed.

(* One call of decompress_unsigneds_limited_dirty:
   - it never returns more than [limit] numbers;
   - a call that is not `finished_chunk_body` has not decoded all the numbers left;
   - the incomplete prefix it leaves has repetitions left;
   - a successful call that decodes nothing has moved nothing: same reader, same incomplete
     prefix (this is what lets Iterator::next return None, or fail on what follows an empty
     chunk, with the chunk body decompressor it has just used in place). *)
Theorem read_batch_more w tb ps n_left inc limit eoi s :
  Forall (sane_prefix w) ps -> table_ok ps = true -> sane_inc w inc -> inc_pos inc ->
  let out := read_batch w tb ps n_left inc limit eoi s in
  Nlen (b_nums out) <= limit /\
  (b_status out = SOk -> b_finished out = false -> Nlen (b_nums out) < n_left) /\
  inc_pos (b_incomplete out) /\
  (b_status out = SOk -> b_nums out = [] -> b_rest out = s /\ b_incomplete out = inc).
Proof.
  intros HF Hok Hsinc Hinc. unfold read_batch. cbv zeta.
  destruct (N.min n_left limit =? 0) eqn:B0.
  { apply N.eqb_eq in B0. cbn [b_status b_nums b_finished b_incomplete b_rest].
    rewrite Nlen_nil. split; [lia|]. split; [intros _ Hf; apply N.leb_gt in Hf; lia|].
    split; [exact Hinc|]. intros _ _. split; reflexivity. }
  apply N.eqb_neq in B0.
  destruct inc as [[p remaining]|].
  - assert (Sp : sane_prefix w p) by (eapply Hsinc; reflexivity).
    assert (Hrem : 0 < remaining) by (eapply Hinc; reflexivity).
    destruct (read_offsets w p (N.to_nat (N.min remaining (N.min n_left limit))) s)
      as [[l s1] st] eqn:RO.
    destruct (read_offsets_count _ _ _ _ _ _ _ RO) as [C1 C2]. rewrite N2Nat.id in C1, C2.
    assert (Hinc1 : inc_pos (if remaining - Nlen l =? 0 then None
                             else Some (p, remaining - Nlen l))).
    { intros p0 k0 E. destruct (remaining - Nlen l =? 0) eqn:Z; [discriminate|].
      apply N.eqb_neq in Z. inversion E; subst. lia. }
    assert (Hnil1 : l = [] -> s1 = s /\
              (if remaining - Nlen l =? 0 then None else Some (p, remaining - Nlen l))
              = Some (p, remaining)).
    { intros ->. split; [eapply read_offsets_nil; exact RO|].
      rewrite Nlen_nil, N.sub_0_r. destruct (remaining =? 0) eqn:Z; [apply N.eqb_eq in Z; lia|].
      reflexivity. }
    destruct st as [|k|].
    + specialize (C2 eq_refl).
      destruct (read_blocks (N.to_nat (N.min n_left limit - Nlen l)) w tb ps
                  (N.min n_left limit - Nlen l) s1) as [[[l2 s2] inc2] st2] eqn:RB.
      destruct (read_blocks_facts w tb ps HF Hok _ _ _ _ _ _ _ RB) as (A & B & C & D).
      rewrite N2Nat.id in C.
      destruct (read_blocks_more w tb ps _ _ _ _ _ _ _ RB) as (A' & B' & C').
      assert (Hinc2 : inc_pos (match inc2 with Some _ => inc2 | None =>
                 if remaining - Nlen l =? 0 then None else Some (p, remaining - Nlen l) end)).
      { destruct inc2 as [[q kq]|]; [|exact Hinc1].
        intros p0 k0 E. inversion E; subst. eapply B'. reflexivity. }
      assert (Hne : l ++ l2 <> []).
      { intros E. apply app_eq_nil in E. destruct E as [-> _]. rewrite Nlen_nil in C2. lia. }
      destruct st2 as [|k|].
      * cbn [b_status b_nums b_finished b_incomplete b_rest]. rewrite Nlen_app.
        split; [lia|]. split; [intros _ Hf; apply N.leb_gt in Hf; lia|].
        split; [exact Hinc2|]. intros _ E. contradiction.
      * specialize (A' ltac:(discriminate)).
        destruct k, eoi; cbn [b_status b_nums b_finished b_incomplete b_rest]; rewrite Nlen_app;
          (split; [lia|]; split; [intros Hs Hf; try discriminate; try (apply N.leb_gt in Hf); lia|];
           split; [exact Hinc2|]; intros _ E; contradiction).
      * cbn [b_status b_nums b_finished b_incomplete b_rest]. rewrite Nlen_app.
        split; [lia|]. split; [intros Hs; discriminate|].
        split; [exact Hinc2|]. intros Hs; discriminate.
    + pose proof (read_offsets_strict _ _ _ _ _ _ _ RO ltac:(discriminate)) as S0.
      rewrite N2Nat.id in S0.
      destruct k, eoi; cbn [b_status b_nums b_finished b_incomplete b_rest];
        (split; [lia|]; split; [intros Hs Hf; try discriminate; try (apply N.leb_gt in Hf); lia|];
         split; [exact Hinc1|]; intros Hs E; try discriminate; apply Hnil1; exact E).
    + cbn [b_status b_nums b_finished b_incomplete b_rest].
      split; [lia|]. split; [intros Hs; discriminate|].
      split; [exact Hinc1|]. intros Hs; discriminate.
  - destruct (read_blocks (N.to_nat (N.min n_left limit)) w tb ps (N.min n_left limit) s)
      as [[[l s1] inc1] st] eqn:RB.
    destruct (read_blocks_facts w tb ps HF Hok _ _ _ _ _ _ _ RB) as (A & B & C & D).
    rewrite N2Nat.id in C.
    destruct (read_blocks_more w tb ps _ _ _ _ _ _ _ RB) as (A' & B' & C').
    destruct st as [|k|].
    + specialize (C eq_refl ltac:(lia)).
      cbn [b_status b_nums b_finished b_incomplete b_rest].
      split; [lia|]. split; [intros _ Hf; apply N.leb_gt in Hf; lia|].
      split; [exact B'|]. intros _ E. subst l. rewrite Nlen_nil in C. lia.
    + specialize (A' ltac:(discriminate)).
      destruct k, eoi; cbn [b_status b_nums b_finished b_incomplete b_rest];
        (split; [lia|]; split; [intros Hs Hf; try discriminate; try (apply N.leb_gt in Hf); lia|];
         split; [exact B'|]; intros Hs E;
         first [discriminate | apply C'; [exact E|discriminate]]).
    + cbn [b_status b_nums b_finished b_incomplete b_rest].
      split; [lia|]. split; [intros Hs; discriminate|].
      split; [exact B'|]. intros Hs; discriminate.
Qed.

(* drain_empty_byte: afterwards the remaining length is a multiple of 8; nothing happens at
   a byte boundary *)
Lemma drain_pad_aligned s s1 : drain_pad s = Ok s1 -> Nlen s1 mod 8 = 0.
Proof.
  unfold drain_pad. cbv zeta. destruct (existsb _ _); [discriminate|].
  intros H. inversion H; subst s1; clear H. rewrite Nlen_skipn, N2Nat.id.
  set (n := Nlen s). clearbody n. lia.
Qed.

Lemma drain_pad_id s : Nlen s mod 8 = 0 -> drain_pad s = Ok s.
Proof. unfold drain_pad. intros ->. reflexivity. Qed.

Lemma Nlen_0_nil {A} (l : list A) : Nlen l = 0 -> l = [].
Proof. destruct l as [|a t]; [reflexivity|]. rewrite Nlen_cons. lia. Qed.

(* decompress_unsigneds_limited *)
Lemma nd_batch_more w tb c limit eoi s us fin nd' s1 :
  cbd_sane w c -> inc_pos (nd_incomplete (c_nd c)) ->
  nd_batch w tb c limit eoi s = Ok (us, fin, nd', s1) ->
  Nlen us <= limit /\ inc_pos (nd_incomplete nd') /\
  (nd_nproc nd' = c_n c -> fin = true) /\
  (fin = true -> Nlen s1 mod 8 = 0) /\
  (us = [] -> (nd_nproc (c_nd c) = c_n c -> Nlen s mod 8 = 0) -> nd' = c_nd c /\ s1 = s).
Proof.
  intros (HF & Hok & Hsinc & Hn & Ht) Hinc H. unfold nd_batch in H. cbv zeta in H.
  destruct (c_n c <? nd_nproc (c_nd c)) eqn:E; [discriminate|]. clear E.
  pose proof (read_batch_facts w tb (c_table c) (c_n c - nd_nproc (c_nd c))
                (nd_incomplete (c_nd c)) limit eoi s HF Hok Hsinc) as B.
  pose proof (read_batch_more w tb (c_table c) (c_n c - nd_nproc (c_nd c))
                (nd_incomplete (c_nd c)) limit eoi s HF Hok Hsinc Hinc) as M.
  cbv zeta in B, M. set (out := read_batch _ _ _ _ _ _ _ _) in *. clearbody out.
  destruct B as (B1 & B2 & B3 & B4). destruct M as (M1 & M2 & M3 & M4).
  destruct (b_status out) as [|k|]; [|discriminate|discriminate].
  specialize (B3 eq_refl). specialize (M2 eq_refl). specialize (M4 eq_refl).
  destruct (b_finished out) eqn:Fin.
  - specialize (B3 eq_refl).
    destruct (drain_pad (b_rest out)) as [s2|k|] eqn:DP; cbn [bind] in H; try discriminate.
    cbn [andb] in H. destruct (negb _); [discriminate|]. inversion H; subst us fin nd' s1; clear H.
    cbn [nd_nproc nd_incomplete]. split; [exact M1|]. split; [exact M3|].
    split; [reflexivity|]. split; [intros _; eapply drain_pad_aligned; exact DP|].
    intros Hnil Hal. destruct (M4 Hnil) as [Er Ei].
    rewrite Hnil, Nlen_nil in B3. specialize (Hal ltac:(lia)).
    rewrite Er, (drain_pad_id s Hal) in DP. inversion DP; subst s2; clear DP.
    split; [|reflexivity]. rewrite Hnil, Ei, Nlen_nil.
    destruct (c_nd c) as [np bp ic]. cbn [nd_nproc nd_bproc nd_incomplete]. f_equal; lia.
  - cbn [bind andb] in H. inversion H; subst us fin nd' s1; clear H.
    cbn [nd_nproc nd_incomplete]. specialize (M2 eq_refl).
    split; [exact M1|]. split; [exact M3|]. split; [intros Hc; lia|].
    split; [intros Hc; discriminate|].
    intros Hnil _. destruct (M4 Hnil) as [Er Ei].
    split; [|exact Er]. rewrite Hnil, Ei, Er, Nlen_nil.
    destruct (c_nd c) as [np bp ic]. cbn [nd_nproc nd_bproc nd_incomplete]. f_equal; lia.
Qed.

Lemma reconstruct_length d : forall cnt ms ds,
  length (fst (reconstruct d cnt ms ds)) = cnt.
Proof.
  induction cnt as [|n IH]; intros ms ds; cbn [reconstruct]; [reflexivity|].
  destruct ds as [|a t].
  - specialize (IH (advance_moments d ms None) []).
    destruct (reconstruct d n (advance_moments d ms None) []) as [xs ms'].
    cbn [fst length] in *. lia.
  - specialize (IH (advance_moments d ms (Some a)) t).
    destruct (reconstruct d n (advance_moments d ms (Some a)) t) as [xs ms'].
    cbn [fst length] in *. lia.
Qed.

(* RState.cbd_after in Delta mode, when nums_processed <= n *)
Lemma cbd_after_delta d f c limit us fin nd' :
  (ford f =? 0) = false -> c_numsproc c <= c_total c ->
  cbd_after d f c limit us fin nd' =
  let bs := if fin then N.min limit (c_total c - c_numsproc c) else Nlen us in
  let '(xs, ms') := reconstruct d (N.to_nat bs) (c_moments c) (map (of_u (sdt d)) us) in
  let np := c_numsproc c + bs in
  Ok (xs, np =? c_total c,
      mkCbd (c_n c) (c_total c) (c_body c) (c_table c) ms' np nd').
Proof.
  intros Hf Hle. unfold cbd_after. rewrite Hf. cbv zeta.
  destruct (c_total c <? c_numsproc c) eqn:E; [apply N.ltb_lt in E; lia|].
  destruct fin; reflexivity.
Qed.

(* ChunkBodyDecompressor::decompress_next_batch = decompress_unsigneds_limited, then the
   pure part RState.cbd_after (when nums_processed <= n; see the remark at cbd_after) *)
Lemma cbd_batch_split d f tb c limit eoi s : c_numsproc c <= c_total c ->
  cbd_batch d f tb c limit eoi s =
  do '(us, fin, nd', s1) <- nd_batch (ubits (pdt f d)) tb c limit eoi s;
  do '(xs, fin', c') <- cbd_after d f c limit us fin nd';
  Ok (xs, fin', c', s1).
Proof.
  intros Hle. unfold cbd_batch. cbv zeta.
  destruct (nd_batch (ubits (pdt f d)) tb c limit eoi s) as [[[[us fin] nd'] s1]|k|];
    cbn [bind]; [|reflexivity|reflexivity].
  destruct (ford f =? 0) eqn:Hf.
  - unfold cbd_after. rewrite Hf. reflexivity.
  - rewrite (cbd_after_delta d f c limit us fin nd' Hf Hle). cbv zeta.
    destruct (c_total c <? c_numsproc c) eqn:E; [apply N.ltb_lt in E; lia|].
    destruct (reconstruct d _ (c_moments c) _) as [xs ms']. reflexivity.
Qed.

Lemma cbd_sane_numsproc w c : cbd_sane w c -> c_numsproc c <= c_total c.
Proof. intros (_ & _ & _ & Hn & Ht). lia. Qed.

(* One decompress_next_batch: the incomplete prefix keeps repetitions left; when the last
   number of the body has been decoded the reader is at a byte boundary; and a call that
   yields no number leaves the chunk body decompressor and the reader exactly as they were,
   provided the reader is at a byte boundary whenever no number is left to decode. *)
Theorem cbd_batch_more d f tb c limit eoi s xs fin c' s1 :
  cbd_sane (ubits (pdt f d)) c -> inc_pos (nd_incomplete (c_nd c)) ->
  cbd_batch d f tb c limit eoi s = Ok (xs, fin, c', s1) ->
  inc_pos (nd_incomplete (c_nd c')) /\
  (nd_nproc (c_nd c') = c_n c' -> Nlen s1 mod 8 = 0) /\
  (xs = [] -> (nd_nproc (c_nd c) = c_n c -> Nlen s mod 8 = 0) -> c' = c /\ s1 = s).
Proof.
  intros S Hinc H. rewrite cbd_batch_split in H by (eapply cbd_sane_numsproc; exact S).
  pose proof (cbd_sane_numsproc _ _ S) as Hnp.
  pose proof (nd_batch_facts (ubits (pdt f d)) tb c limit eoi s S) as NF.
  destruct (nd_batch (ubits (pdt f d)) tb c limit eoi s) as [[[[us fin0] nd'] s2]|k|] eqn:NB;
    cbn [bind] in H; try discriminate.
  destruct NF as (N1 & N2 & N3 & N4).
  destruct (nd_batch_more _ _ _ _ _ _ _ _ _ _ S Hinc NB) as (M1 & M2 & M3 & M4 & M5).
  destruct S as (HF & Hok & Hsinc & Hn & Ht).
  destruct (ford f =? 0) eqn:Hford.
  - unfold cbd_after in H. rewrite Hford in H.
    cbn [bind] in H. inversion H; subst xs fin c' s1; clear H.
    cbn [c_nd c_n]. split; [exact M2|]. split; [intros Hc; apply M4, M3, Hc|].
    intros Hnil Hal. apply map_eq_nil in Hnil. destruct (M5 Hnil Hal) as [En Es].
    split; [|exact Es]. rewrite Hnil, En, Nlen_nil.
    destruct c as [cn ct cb ctb cm cnp cnd]. cbn [c_n c_total c_body c_table c_moments c_numsproc c_nd].
    f_equal. lia.
  - rewrite (cbd_after_delta d f c limit us fin0 nd' Hford Hnp) in H. cbv zeta in H.
    set (bs := if fin0 then N.min limit (c_total c - c_numsproc c) else Nlen us) in *.
    pose proof (reconstruct_length d (N.to_nat bs) (c_moments c) (map (of_u (sdt d)) us)) as RL.
    destruct (reconstruct d (N.to_nat bs) (c_moments c) (map (of_u (sdt d)) us)) as [ys ms'] eqn:RC.
    cbn [bind] in H. inversion H; subst xs fin c' s1; clear H. cbn [fst] in RL.
    cbn [c_nd c_n]. split; [exact M2|]. split; [intros Hc; apply M4, M3, Hc|].
    intros Hnil Hal. subst ys. cbn [length] in RL.
    assert (Hbs : bs = 0) by lia.
    assert (Hus : us = []).
    { apply Nlen_0_nil. unfold bs in Hbs. destruct fin0; [|exact Hbs].
      specialize (N3 eq_refl). lia. }
    destruct (M5 Hus Hal) as [En Es]. split; [|exact Es].
    rewrite Hbs in RC. change (N.to_nat 0) with 0%nat in RC. cbn [reconstruct] in RC.
    inversion RC; subst ms'. rewrite Hbs, En.
    destruct c as [cn ct cb ctb cm cnp cnd]. cbn [c_n c_total c_body c_table c_moments c_numsproc c_nd].
    f_equal. lia.
Qed.

(* ================================================================== *)
(* 2. the abstraction                                                  *)
(* ================================================================== *)
(* the bytes the bit-list Decompressor holds are the bytes of the BitWords; everything else
   is the same (the chunk body decompressor without its derived fields) *)
Definition abs (st : wstate) : rstate :=
  mkR (bits_to_bytes (bw_bits (ws_words st) (ws_tb st))) (ws_bit st) (ws_flags st)
      (option_map wc_pure (ws_cbd st)) (ws_term st).

Lemma rd_stream_Nlen ws tb p : tb <= 64 * Nlen ws -> Nlen (rd_stream ws tb p) = tb - p.
Proof. intros H. unfold Nlen at 1. rewrite rd_stream_length by exact H. lia. Qed.

Lemma bw_bits_Nlen ws tb : bw_ok ws tb -> Nlen (bw_bits ws tb) = tb.
Proof.
  intros H. destruct (bw_rd_ok ws tb H) as [_ Hle].
  change (bw_bits ws tb) with (rd_stream ws tb 0). rewrite rd_stream_Nlen by exact Hle. lia.
Qed.

Lemma abs_bytes ws tb : bw_ok ws tb -> tb mod 8 = 0 ->
  let bytes := bits_to_bytes (bw_bits ws tb) in
  bytes_to_bits bytes = bw_bits ws tb /\ 8 * Nlen bytes = tb /\
  Forall (fun b => b < 256) bytes.
Proof.
  intros Hbw H8. cbv zeta.
  assert (HL : Nlen (bw_bits ws tb) mod 8 = 0) by (rewrite bw_bits_Nlen by exact Hbw; exact H8).
  split; [apply bytes_to_bits_to_bytes; exact HL|].
  split; [rewrite bits_to_bytes_Nlen by exact HL; apply bw_bits_Nlen; exact Hbw|].
  unfold bits_to_bytes. apply bits_to_bytes_fuel_range.
Qed.

Lemma abs_total st : bw_ok (ws_words st) (ws_tb st) -> ws_tb st mod 8 = 0 ->
  total_bits (abs st) = ws_tb st.
Proof.
  intros Hbw H8. destruct (abs_bytes _ _ Hbw H8) as (_ & E & _).
  unfold total_bits, abs. cbn [r_bytes]. exact E.
Qed.

Lemma abs_skipn st p : bw_ok (ws_words st) (ws_tb st) -> ws_tb st mod 8 = 0 ->
  skipn (N.to_nat p) (bytes_to_bits (r_bytes (abs st))) = rd_stream (ws_words st) (ws_tb st) p.
Proof.
  intros Hbw H8. destruct (abs_bytes _ _ Hbw H8) as (E & _ & _).
  unfold abs. cbn [r_bytes]. rewrite E. reflexivity.
Qed.

Lemma abs_stream st : bw_ok (ws_words st) (ws_tb st) -> ws_tb st mod 8 = 0 ->
  Reader.stream (abs st) = rd_stream (ws_words st) (ws_tb st) (ws_bit st).
Proof. intros Hbw H8. unfold Reader.stream. rewrite abs_skipn by assumption. reflexivity. Qed.

Lemma abs_pos_after st p : bw_ok (ws_words st) (ws_tb st) -> ws_tb st mod 8 = 0 ->
  p <= ws_tb st -> pos_after (abs st) (rd_stream (ws_words st) (ws_tb st) p) = p.
Proof.
  intros Hbw H8 Hp. unfold pos_after. rewrite abs_total by assumption.
  destruct (bw_rd_ok _ _ Hbw) as [_ Hle]. rewrite rd_stream_Nlen by exact Hle. lia.
Qed.

(* abs only looks at the BitWords through their bits *)
Lemma abs_set st bit fl cb tm :
  abs (ws_set st bit fl cb tm)
  = mkR (r_bytes (abs st)) bit fl (option_map wc_pure cb) tm.
Proof. reflexivity. Qed.

(* ================================================================== *)
(* 3. one batch at word level = one batch at bit level                 *)
(* ================================================================== *)
(* the derived fields of NumDecompressor::new *)
Definition num_ok (w : N) (ps : list prefix) (nd : wnum) : Prop :=
  exists tbl, hfrom w ps = Ok tbl /\
    nd = mkWnum tbl (rfa_max_bits_per_num_block w ps) (rfa_max_overshoot_per_num_block ps)
                (rfa_use_gcd ps).

(* RFastL.rfa_batch_eq_checked, extended to the chunk with no prefixes (and no numbers) *)
Lemma rfa_batch_any w ph ps nd ws tb i j n_left inc limit eoi :
  bw_ok ws tb -> fast_table w ph ps -> (ps = [] -> n_left = 0) -> num_ok w ps nd ->
  n_left <= Consts.MAX_ENTRIES -> sane_inc w inc -> j <= 64 -> 64 * i + j <= tb ->
  let out := rfa_batch w ph ws tb (wn_table nd) (wn_mb nd) (wn_mo nd) (wn_gcd nd)
                       n_left inc limit eoi (i, j) in
  let m := read_batch w tb ps n_left inc limit eoi (rd_stream ws tb (64 * i + j)) in
  rb_nums out = b_nums m /\
  rb_incomplete out = b_incomplete m /\
  rb_finished out = b_finished m /\
  rb_status out = b_status m /\
  b_rest m = rd_stream ws tb (64 * fst (rb_pos out) + snd (rb_pos out)) /\
  rb_status out <> SPanic /\
  snd (rb_pos out) <= 64 /\ 64 * fst (rb_pos out) + snd (rb_pos out) <= tb.
Proof.
  intros Hbw HT Hnil (tbl & Hfrom & ->) Hn Hsinc Hj Hp.
  cbn [wn_table wn_mb wn_mo wn_gcd].
  destruct ps as [|p0 t] eqn:Eps.
  - rewrite (Hnil eq_refl). unfold rfa_batch, read_batch. cbv zeta.
    rewrite N.min_0_l. change (0 =? 0) with true. cbv iota.
    cbn [rb_nums rb_incomplete rb_finished rb_status rb_pos b_nums b_incomplete b_finished
         b_status b_rest fst snd].
    repeat split; try discriminate; assumption.
  - rewrite <- Eps in *. apply rfa_batch_eq_checked; try assumption. rewrite Eps. discriminate.
Qed.

(* decompress_unsigneds_limited *)
Theorem wnd_batch_sim w ph c nd ws tb i j limit eoi :
  bw_ok ws tb -> tb mod 8 = 0 -> cbd_sane w c ->
  fast_table w ph (c_table c) -> (c_table c = [] -> c_n c = 0) ->
  c_n c <= Consts.MAX_ENTRIES -> num_ok w (c_table c) nd ->
  j <= 64 -> 64 * i + j <= tb ->
  match wnd_batch w ph ws tb c nd limit eoi (i, j) with
  | Ok (us, fin, nd', r1) =>
      nd_batch w tb c limit eoi (rd_stream ws tb (64 * i + j))
      = Ok (us, fin, nd', rd_stream ws tb (pos r1)) /\
      snd r1 <= 64 /\ 64 * i + j <= pos r1 /\ pos r1 <= tb
  | Err k => nd_batch w tb c limit eoi (rd_stream ws tb (64 * i + j)) = Err k
  | Panic => False
  end.
Proof.
  intros Hbw H8 S HT Hnil Hmax Hnum Hj Hp.
  destruct (bw_rd_ok ws tb Hbw) as [Hwok Hle].
  destruct S as (HF & Hok & Hsinc & Hn & Ht).
  unfold wnd_batch, nd_batch. cbv zeta.
  destruct (c_n c <? nd_nproc (c_nd c)) eqn:E; [apply N.ltb_lt in E; lia|]. clear E.
  assert (Hnil' : c_table c = [] -> c_n c - nd_nproc (c_nd c) = 0) by (intros E; specialize (Hnil E); lia).
  pose proof (rfa_batch_any w ph (c_table c) nd ws tb i j (c_n c - nd_nproc (c_nd c))
                (nd_incomplete (c_nd c)) limit eoi Hbw HT Hnil' Hnum ltac:(lia) Hsinc Hj Hp) as R.
  pose proof (read_batch_len w tb (c_table c) (c_n c - nd_nproc (c_nd c))
                (nd_incomplete (c_nd c)) limit eoi (rd_stream ws tb (64 * i + j))) as RL.
  cbv zeta in R.
  set (out := rfa_batch _ _ _ _ _ _ _ _ _ _ _ _ _) in *.
  set (m := read_batch _ _ _ _ _ _ _ _) in *. clearbody out m.
  destruct R as (R1 & R2 & R3 & R4 & R5 & R6 & R7 & R8).
  rewrite <- R1, <- R2, <- R3, <- R4, R5. rewrite R5 in RL. clear R1 R2 R3 R4 R5 m.
  destruct (rb_pos out) as [i1 j1] eqn:Epos. cbn [fst snd] in R7, R8, RL |- *.
  rewrite !rd_stream_length in RL by exact Hle.
  destruct (rb_status out) as [|k|]; [|reflexivity|congruence].
  assert (Hinv1 : rd_inv ws tb i1 j1) by (unfold rd_inv; repeat split; assumption).
  assert (Hdr : match (if rb_finished out then rf_drain_empty_byte ws (i1, j1) else @Ok rpos (i1, j1)) with
                | Ok (i2, j2) =>
                    (if rb_finished out then drain_pad (rd_stream ws tb (64 * i1 + j1))
                     else Ok (rd_stream ws tb (64 * i1 + j1)))
                    = Ok (rd_stream ws tb (64 * i2 + j2)) /\
                    j2 <= 64 /\ 64 * i1 + j1 <= 64 * i2 + j2 /\ 64 * i2 + j2 <= tb
                | Err k => (if rb_finished out then drain_pad (rd_stream ws tb (64 * i1 + j1))
                            else Ok (rd_stream ws tb (64 * i1 + j1))) = Err k
                | Panic => False
                end).
  { destruct (rb_finished out).
    - pose proof (rf_drain_empty_byte_spec ws tb i1 j1 Hinv1) as D.
      destruct (rf_drain_empty_byte ws (i1, j1)) as [[i2 j2]|k|]; [|exact D|exact D].
      destruct D as [D (_ & _ & _ & D1 & D2)]. split; [exact D|].
      apply drain_pad_len in D. rewrite !rd_stream_length in D by exact Hle. lia.
    - split; [reflexivity|]. lia. }
  destruct (if rb_finished out then rf_drain_empty_byte ws (i1, j1) else @Ok rpos (i1, j1))
    as [[i2 j2]|k|]; cbn [bind].
  - destruct Hdr as (Hd & Hj2 & Hp12 & Hp2). rewrite Hd. cbn [bind].
    change (rb_bit_idx (i2, j2)) with (64 * i2 + j2). change (rb_bit_idx (i, j)) with (64 * i + j).
    destruct (64 * i2 + j2 <? 64 * i + j) eqn:E; [apply N.ltb_lt in E; lia|]. clear E.
    rewrite !rd_stream_Nlen by exact Hle.
    replace (tb - (64 * i + j) - (tb - (64 * i2 + j2))) with (64 * i2 + j2 - (64 * i + j)) by lia.
    destruct (rb_finished out && negb (c_body c * 8 =? nd_bproc (c_nd c) + (64 * i2 + j2 - (64 * i + j))));
      cbv beta iota; [reflexivity|].
    unfold pos. cbn [fst snd]. split; [reflexivity|]. lia.
  - rewrite Hdr. reflexivity.
  - exact Hdr.
Qed.

(* ChunkBodyDecompressor::decompress_next_batch *)
Theorem wcbd_batch_sim d f wc ws tb i j limit eoi :
  let w := ubits (pdt f d) in let ph := phys (pdt f d) in let c := wc_pure wc in
  bw_ok ws tb -> tb mod 8 = 0 -> cbd_sane w c ->
  fast_table w ph (c_table c) -> (c_table c = [] -> c_n c = 0) ->
  c_n c <= Consts.MAX_ENTRIES -> num_ok w (c_table c) (wc_num wc) ->
  j <= 64 -> 64 * i + j <= tb ->
  match wcbd_batch d f ws tb wc limit eoi (i, j) with
  | Ok (xs, fin, wc', r1) =>
      cbd_batch d f tb c limit eoi (rd_stream ws tb (64 * i + j))
      = Ok (xs, fin, wc_pure wc', rd_stream ws tb (pos r1)) /\
      wc_num wc' = wc_num wc /\
      snd r1 <= 64 /\ 64 * i + j <= pos r1 /\ pos r1 <= tb
  | Err k => cbd_batch d f tb c limit eoi (rd_stream ws tb (64 * i + j)) = Err k
  | Panic => False
  end.
Proof.
  cbv zeta. intros Hbw H8 S HT Hnil Hmax Hnum Hj Hp.
  pose proof (wnd_batch_sim _ _ _ _ _ _ i j limit eoi Hbw H8 S HT Hnil Hmax Hnum Hj Hp) as W.
  pose proof (cbd_batch_facts d f tb (wc_pure wc) limit eoi (rd_stream ws tb (64 * i + j)) S) as CF.
  rewrite cbd_batch_split in * by (eapply cbd_sane_numsproc; exact S). unfold wcbd_batch. cbv zeta.
  destruct (wnd_batch (ubits (pdt f d)) (phys (pdt f d)) ws tb (wc_pure wc) (wc_num wc) limit eoi (i, j))
    as [[[[us fin] nd'] r1]|k|]; cbn [bind].
  - destruct W as (W1 & W2 & W3 & W4). rewrite W1 in *. cbn [bind] in *.
    destruct (cbd_after d f (wc_pure wc) limit us fin nd') as [[[xs fin'] c']|k|]; cbn [bind] in *.
    + cbn [wc_pure wc_num]. repeat split; assumption.
    + reflexivity.
    + exact CF.
  - rewrite W. reflexivity.
  - exact W.
Qed.

(* ================================================================== *)
(* 4. the invariant                                                    *)
(* ================================================================== *)
(* a chunk body decompressor held by a state whose flags are [f] and whose bit_idx is [bit]:
   - NoPanicL.cbd_sane: the prefixes are those of a validated tree, the counters are within
     their bounds;
   - FastL.fast_table and n <= MAX_ENTRIES: what metadata parsed from a file guarantees
     (FastL.parsed_chunk_fast), and no prefixes only with no numbers;
   - the derived fields are the functions of the prefixes NumDecompressor::new computes;
   - the incomplete prefix has repetitions left;
   - once all the numbers of the body are decoded the reader is at a byte boundary. *)
Definition cbd_ok (d : dtype) (f : flags) (bit : N) (wc : wcbd) : Prop :=
  let w := ubits (pdt f d) in let ph := phys (pdt f d) in let c := wc_pure wc in
  cbd_sane w c /\ fast_table w ph (c_table c) /\ (c_table c = [] -> c_n c = 0) /\
  c_n c <= Consts.MAX_ENTRIES /\ num_ok w (c_table c) (wc_num wc) /\
  inc_pos (nd_incomplete (c_nd c)) /\
  (nd_nproc (c_nd c) = c_n c -> bit mod 8 = 0).

Definition cbd_inv (d : dtype) (fl : option flags) (bit : N) (cb : option wcbd) : Prop :=
  match cb with
  | None => True
  | Some wc => exists f, fl = Some f /\ cbd_ok d f bit wc
  end.

(* the BitWords are well formed (WordsL.bw_ok), hold whole bytes, bit_idx is within them *)
Definition winv (d : dtype) (st : wstate) : Prop :=
  bw_ok (ws_words st) (ws_tb st) /\ ws_tb st mod 8 = 0 /\ ws_bit st <= ws_tb st /\
  cbd_inv d (ws_flags st) (ws_bit st) (ws_cbd st).

(* only the byte alignment of bit_idx matters to a chunk body decompressor *)
Lemma cbd_ok_bit d f b1 b2 wc :
  cbd_ok d f b1 wc -> (b1 mod 8 = 0 -> b2 mod 8 = 0) -> cbd_ok d f b2 wc.
Proof.
  intros (C1 & C2 & C3 & C4 & C5 & C6 & C7) Hb. unfold cbd_ok. cbv zeta.
  split; [exact C1|]. split; [exact C2|]. split; [exact C3|]. split; [exact C4|].
  split; [exact C5|]. split; [exact C6|]. intros Hn. apply Hb, C7, Hn.
Qed.

Theorem ws_init_inv d : winv d ws_init.
Proof.
  unfold winv, ws_init. cbn [ws_words ws_tb ws_bit ws_flags ws_cbd cbd_inv].
  split; [unfold bw_ok; repeat split; constructor|]. split; [reflexivity|]. split; [lia|exact I].
Qed.

Lemma abs_init : abs ws_init = r_init.
Proof. reflexivity. Qed.

(* the invariant gives NoPanicL.sane of the abstract state *)
Lemma winv_sane d st : winv d st -> sane d (abs st).
Proof.
  intros (_ & _ & _ & Hc). unfold sane, abs. cbn [r_cbd r_flags].
  destruct (ws_cbd st) as [wc|]; cbn [option_map]; [|exact I].
  destruct Hc as (f & Hf & S & _). exists f. split; assumption.
Qed.

Lemma winv_set d st bit fl cb tm :
  winv d st -> bit <= ws_tb st -> cbd_inv d fl bit cb -> winv d (ws_set st bit fl cb tm).
Proof.
  intros (Hbw & H8 & _ & _) Hb Hc. unfold winv, ws_set.
  cbn [ws_words ws_tb ws_bit ws_flags ws_cbd].
  split; [exact Hbw|]. split; [exact H8|]. split; [exact Hb|exact Hc].
Qed.

(* the reader with_reader creates *)
Lemma ws_reader_inv d st : winv d st ->
  exists i j, ws_reader st = (i, j) /\ 64 * i + j = ws_bit st /\
              rd_inv (ws_words st) (ws_tb st) i j.
Proof.
  intros (Hbw & H8 & Hb & _). destruct (bw_rd_ok _ _ Hbw) as [Hwok Hle].
  destruct (seek_inv (ws_words st) (ws_tb st) (ws_bit st) Hwok Hle H8 Hb) as [Hi Hp].
  unfold ws_reader, rb_seek_to. destruct (rd_seek_to (ws_bit st)) as [i j]. cbn [fst snd] in *.
  exists i, j. split; [reflexivity|]. split; [exact Hp|exact Hi].
Qed.

(* ================================================================== *)
(* 5. one lemma per operation                                          *)
(* ================================================================== *)
(* what is proved of an operation [o] from a state [st] *)
Definition step_sim (d : dtype) (st : wstate) (o : rop) : Prop :=
  winv d (fst (ws_step d st o)) /\
  r_step d (abs st) o = (abs (fst (ws_step d st o)), snd (ws_step d st o)).

Lemma Forall_skipn' {A} (P : A -> Prop) n : forall l, Forall P l -> Forall P (skipn n l).
Proof.
  induction n as [|n IH]; intros l H; [exact H|].
  destruct l as [|a t]; [exact H|]. cbn [skipn]. apply IH. inversion H. assumption.
Qed.

(* ---------------- write ---------------- *)
Theorem ws_write_sim d st bs :
  winv d st -> Forall (fun b => b < 256) bs -> step_sim d st (RWrite bs).
Proof.
  intros (Hbw & H8 & Hb & Hc) Hbs. unfold step_sim. cbn [ws_step r_step].
  pose proof (bw_extend_spec (ws_words st) (ws_tb st) bs Hbw H8 Hbs) as E.
  destruct (bw_extend (ws_words st) (ws_tb st) bs) as [ws' tb']. destruct E as (Etb & Hbw' & Ebits).
  cbn [fst snd]. split.
  - unfold winv. cbn [ws_words ws_tb ws_bit ws_flags ws_cbd].
    split; [exact Hbw'|]. split; [lia|]. split; [lia|exact Hc].
  - unfold abs. cbn [ws_words ws_tb ws_bit ws_flags ws_cbd ws_term r_bytes r_bit r_flags r_cbd r_term].
    destruct (abs_bytes _ _ Hbw H8) as (Eb & _ & Hr). cbv zeta in Eb, Hr.
    rewrite Ebits. set (B := bits_to_bytes (bw_bits (ws_words st) (ws_tb st))) in *.
    rewrite <- Eb. rewrite <- bytes_to_bits_app.
    rewrite bits_to_bytes_bytes; [reflexivity|]. apply Forall_app. split; assumption.
Qed.

(* ---------------- free_compressed_memory ---------------- *)
Theorem ws_free_sim d st : winv d st -> step_sim d st RFree.
Proof.
  intros (Hbw & H8 & Hb & Hc). unfold step_sim. cbn [ws_step r_step]. cbv zeta.
  destruct (bw_rd_ok _ _ Hbw) as [Hwok Hle]. unfold WORD_SIZE.
  set (k := ws_bit st / 64).
  assert (Hk : 64 * k <= ws_bit st) by (unfold k; lia).
  destruct (abs_bytes _ _ Hbw H8) as (Eb & _ & Hr). cbv zeta in Eb, Hr.
  destruct (0 <? k) eqn:K0.
  - destruct (Nlen (ws_words st) <? k) eqn:E1; [apply N.ltb_lt in E1; lia|]. clear E1.
    destruct (ws_tb st <? k * 64) eqn:E2; [apply N.ltb_lt in E2; lia|]. clear E2.
    pose proof (bw_truncate_left_spec (ws_words st) (ws_tb st) k Hbw ltac:(lia)) as T.
    destruct (bw_truncate_left (ws_words st) (ws_tb st) k) as [ws' tb'].
    destruct T as (Etb & Hbw' & Ebits). cbn [fst snd]. split.
    + unfold winv. cbn [ws_words ws_tb ws_bit ws_flags ws_cbd].
      split; [exact Hbw'|]. split; [lia|]. split; [lia|].
      unfold cbd_inv in *. destruct (ws_cbd st) as [wc|]; [|exact I].
      destruct Hc as (f & Hf & C).
      exists f. split; [exact Hf|]. eapply cbd_ok_bit; [exact C|]. intros Hn. lia.
    + unfold abs. cbn [ws_words ws_tb ws_bit ws_flags ws_cbd ws_term r_bytes r_bit r_flags r_cbd r_term].
      f_equal. f_equal; [|lia].
      rewrite Ebits. set (B := bits_to_bytes (bw_bits (ws_words st) (ws_tb st))) in *.
      rewrite <- Eb.
      replace (N.to_nat (64 * k)) with (8 * N.to_nat (8 * k))%nat by lia.
      rewrite <- bytes_to_bits_skipn. symmetry. apply bits_to_bytes_bytes. apply Forall_skipn'. exact Hr.
  - apply N.ltb_ge in K0. assert (k = 0) by lia. cbn [fst snd].
    split; [unfold winv; split; [exact Hbw|]; split; [exact H8|]; split; [exact Hb|exact Hc]|].
    unfold abs. cbn [r_bytes r_bit r_flags r_cbd r_term]. change (ws_bit st / 64) with k.
    f_equal. f_equal; [|lia]. rewrite H. reflexivity.
Qed.

(* ---------------- header ---------------- *)
Lemma cbd_inv_noflags d bit cb : cbd_inv d None bit cb -> cb = None.
Proof.
  unfold cbd_inv. destruct cb as [wc|]; [|reflexivity]. intros (f & E & _). discriminate.
Qed.

(* read_header on the reader with_reader creates *)
Lemma ws_header_read d st : winv d st ->
  match rf_header (ws_words st) (ws_tb st) d (ws_reader st) with
  | Ok (f, r') =>
      read_header d (r_bit (abs st)) (Reader.stream (abs st))
      = Ok (f, rd_stream (ws_words st) (ws_tb st) (pos r')) /\
      pos r' <= ws_tb st
  | Err k => read_header d (r_bit (abs st)) (Reader.stream (abs st)) = Err k
  | Panic => False
  end.
Proof.
  intros Hinv. destruct (ws_reader_inv d st Hinv) as (i & j & Er & Ep & Hi).
  destruct Hinv as (Hbw & H8 & Hb & Hc).
  rewrite abs_stream by assumption. change (r_bit (abs st)) with (ws_bit st).
  rewrite Er, <- Ep.
  pose proof (rf_header_eq (ws_words st) (ws_tb st) d i j Hi) as H.
  destruct (rf_header (ws_words st) (ws_tb st) d (i, j)) as [[f [i' j']]|k|]; [|exact H|exact H].
  destruct H as [H (_ & _ & _ & _ & Hp)]. split; [exact H|exact Hp].
Qed.

Theorem ws_header_sim d st : winv d st -> step_sim d st RHeader.
Proof.
  intros Hinv. pose proof (ws_header_read d st Hinv) as HR.
  pose proof Hinv as (Hbw & H8 & Hb & Hc).
  unfold step_sim. cbn [ws_step r_step]. change (r_term (abs st)) with (ws_term st).
  change (r_flags (abs st)) with (ws_flags st).
  destruct (ws_term st); [cbn [fst snd]; split; [exact Hinv|reflexivity]|].
  destruct (ws_flags st) as [f0|] eqn:Hf; [cbn [fst snd]; split; [exact Hinv|reflexivity]|].
  destruct (rf_header (ws_words st) (ws_tb st) d (ws_reader st)) as [[f r']|k|].
  - destruct HR as [HR Hp]. rewrite HR. cbn [fst snd]. change (rb_bit_idx r') with (pos r').
    rewrite abs_pos_after by assumption. split.
    + apply winv_set; [exact Hinv|exact Hp|]. rewrite (cbd_inv_noflags _ _ _ Hc). exact I.
    + rewrite abs_set. unfold abs at 2 3. cbn [r_cbd r_term]. rewrite Hf. reflexivity.
  - rewrite HR. cbn [fst snd]. split; [exact Hinv|reflexivity].
  - contradiction.
Qed.

(* ---------------- skip_chunk_body ---------------- *)
Theorem ws_skip_sim d st : winv d st -> step_sim d st RSkip.
Proof.
  intros Hinv. pose proof Hinv as (Hbw & H8 & Hb & Hc).
  unfold step_sim. cbn [ws_step r_step]. change (r_term (abs st)) with (ws_term st).
  destruct (ws_term st); [cbn [fst snd]; split; [exact Hinv|reflexivity]|].
  unfold abs at 1. cbn [r_cbd].
  destruct (ws_cbd st) as [wc|] eqn:Hcbd; cbn [option_map];
    [|cbn [fst snd]; split; [exact Hinv|reflexivity]].
  destruct (c_body (wc_pure wc) * 8 <? nd_bproc (c_nd (wc_pure wc)));
    [cbn [fst snd]; split; [exact Hinv|reflexivity]|].
  cbv zeta. rewrite abs_total by assumption. change (r_bit (abs st)) with (ws_bit st).
  destruct (_ <=? ws_tb st) eqn:E; [|cbn [fst snd]; split; [exact Hinv|reflexivity]].
  apply N.leb_le in E. cbn [fst snd]. split.
  - apply winv_set; [exact Hinv|exact E|exact I].
  - rewrite abs_set. reflexivity.
Qed.

(* ---------------- chunk_metadata ---------------- *)
(* a chunk's metadata that parses comes from parse_meta, and ends at a byte boundary *)
Lemma read_chunk_meta_some d f bit s m s' :
  read_chunk_meta d f bit s = Ok (Some m, s') ->
  (exists s1, parse_meta f d s1 = Ok (m, s')) /\ Nlen s' mod 8 = 0.
Proof.
  unfold read_chunk_meta. intros H.
  destruct (read_aligned bit 1 s) as [[mb s1]|k|]; cbn [bind] in H; try discriminate.
  destruct (list_eqb N.eqb mb [Consts.MAGIC_TERMINATION_BYTE]); [discriminate|].
  destruct (negb _); [discriminate|].
  destruct (parse_meta f d s1) as [[m0 s2]|k|] eqn:E; cbn [bind] in H; try discriminate.
  inversion H; subst m0 s2; clear H. split; [exists s1; exact E|].
  unfold parse_meta in E.
  destruct (get Consts.BITS_TO_ENCODE_N_ENTRIES s1) as [[n t1]|k|]; cbn [bind] in E;
    try discriminate.
  destruct (get Consts.BITS_TO_ENCODE_COMPRESSED_BODY_SIZE t1) as [[body t2]|k|];
    cbn [bind] in E; try discriminate.
  match type of E with bind ?j _ = _ => destruct j as [[mo t3]|k|] end;
    cbn [bind] in E; try discriminate.
  destruct (read_prefixes f (pdt f d) n t3) as [[ps t4]|k|]; cbn [bind] in E; try discriminate.
  destruct (drain_pad t4) as [t5|k|] eqn:DP; cbn [bind] in E; try discriminate.
  inversion E; subst. eapply drain_pad_aligned. exact DP.
Qed.

Lemma new_cbd_facts f m c : new_cbd f m = Ok c ->
  c_table c = m_table m /\ (c_table c = [] -> c_n c = 0) /\ c_nd c = mkNd 0 0 None.
Proof.
  unfold new_cbd. cbv zeta.
  destruct (is_nil (m_table m) && (0 <? m_n m - ford f)) eqn:E; [discriminate|].
  destruct (negb _); [discriminate|]. intros H. inversion H; subst c; clear H.
  cbn [c_table c_n c_nd]. split; [reflexivity|]. split; [|reflexivity].
  intros Hn. rewrite Hn in E. cbn [is_nil andb] in E. apply N.ltb_ge in E. lia.
Qed.

(* ChunkBodyDecompressor::new on parsed metadata: fails exactly when Reader.new_cbd does,
   never panics, and what it builds satisfies the invariant at any byte boundary *)
Lemma wcbd_new_sim d f m s1 s' : parse_meta f d s1 = Ok (m, s') ->
  match wcbd_new d f m with
  | Ok wc => new_cbd f m = Ok (wc_pure wc) /\ forall bit, bit mod 8 = 0 -> cbd_ok d f bit wc
  | Err k => new_cbd f m = Err k
  | Panic => False
  end.
Proof.
  intros PM. unfold wcbd_new.
  destruct (new_cbd f m) as [c|k|] eqn:NC; cbn [bind]; [|reflexivity|exact (new_cbd_np _ _ NC)].
  destruct (new_cbd_facts f m c NC) as (Et & Hnil & End).
  pose proof (new_cbd_table_ok f m c NC) as Hok.
  destruct (hfrom_total (ubits (pdt f d)) (m_table m)) as [tbl Hfrom];
    [rewrite <- Et; exact Hok|].
  unfold wnum_new. rewrite Hfrom. cbn [bind wc_pure]. split; [reflexivity|]. intros bit Hb.
  destruct (parsed_chunk_fast f d s1 m s' c PM NC) as [HT Hn].
  unfold cbd_ok. cbv zeta. cbn [wc_pure wc_num].
  split; [eapply new_cbd_sane; [eapply parse_meta_sane; exact PM|exact NC]|].
  split; [exact HT|]. split; [exact Hnil|]. split; [exact Hn|].
  split; [exists tbl; rewrite Et; split; [exact Hfrom|reflexivity]|].
  split; [rewrite End; apply inc_pos_None|intros _; exact Hb].
Qed.

(* read_chunk_meta on a reader at (i, j) *)
Lemma ws_meta_read d f ws tb i j : rd_inv ws tb i j ->
  match rf_chunk_meta ws tb d f (i, j) with
  | Ok (mo, r') =>
      read_chunk_meta d f (64 * i + j) (rd_stream ws tb (64 * i + j))
      = Ok (mo, rd_stream ws tb (pos r')) /\ pos r' <= tb
  | Err k => read_chunk_meta d f (64 * i + j) (rd_stream ws tb (64 * i + j)) = Err k
  | Panic => False
  end.
Proof.
  intros Hi. pose proof (rf_chunk_meta_eq ws tb d f i j Hi) as H.
  destruct (rf_chunk_meta ws tb d f (i, j)) as [[mo [i' j']]|k|]; [|exact H|exact H].
  destruct H as [H (_ & _ & _ & _ & Hp)]. split; [exact H|exact Hp].
Qed.

(* the position after metadata that parsed is a byte boundary *)
Lemma meta_end_aligned ws tb p : bw_ok ws tb -> tb mod 8 = 0 -> p <= tb ->
  Nlen (rd_stream ws tb p) mod 8 = 0 -> p mod 8 = 0.
Proof.
  intros Hbw H8 Hp H. destruct (bw_rd_ok ws tb Hbw) as [_ Hle].
  rewrite rd_stream_Nlen in H by exact Hle. lia.
Qed.

Theorem ws_meta_sim d st : winv d st -> step_sim d st RMeta.
Proof.
  intros Hinv. destruct (ws_reader_inv d st Hinv) as (i & j & Er & Ep & Hi).
  pose proof Hinv as (Hbw & H8 & Hb & Hc).
  unfold step_sim. cbn [ws_step r_step]. change (r_term (abs st)) with (ws_term st).
  change (r_flags (abs st)) with (ws_flags st).
  destruct (ws_term st) eqn:Ht; [cbn [fst snd]; split; [exact Hinv|reflexivity]|].
  destruct (ws_flags st) as [f|] eqn:Hf; [|cbn [fst snd]; split; [exact Hinv|reflexivity]].
  unfold abs at 1. cbn [r_cbd].
  destruct (ws_cbd st) as [wc0|] eqn:Hcbd; cbn [option_map];
    [cbn [fst snd]; split; [exact Hinv|reflexivity]|].
  rewrite abs_stream by assumption. change (r_bit (abs st)) with (ws_bit st).
  rewrite Er, <- Ep.
  pose proof (ws_meta_read d f (ws_words st) (ws_tb st) i j Hi) as MR.
  destruct (rf_chunk_meta (ws_words st) (ws_tb st) d f (i, j)) as [[[m|] r']|k|].
  - destruct MR as [MR Hp]. rewrite MR.
    destruct (read_chunk_meta_some _ _ _ _ _ _ MR) as [[s1 PM] Hal].
    pose proof (wcbd_new_sim d f m s1 _ PM) as WN.
    destruct (wcbd_new d f m) as [wc|k|].
    + destruct WN as [NC Hok]. rewrite NC. cbn [fst snd]. change (rb_bit_idx r') with (pos r').
      rewrite abs_pos_after by assumption. split.
      * apply winv_set; [exact Hinv|exact Hp|]. exists f. split; [reflexivity|]. apply Hok.
        eapply meta_end_aligned; eassumption.
      * rewrite abs_set. reflexivity.
    + rewrite WN. cbn [fst snd]. split; [exact Hinv|reflexivity].
    + contradiction.
  - destruct MR as [MR Hp]. rewrite MR. cbn [fst snd]. change (rb_bit_idx r') with (pos r').
    unfold set_pos. rewrite abs_pos_after by assumption. split.
    + apply winv_set; [exact Hinv|exact Hp|]. exact I.
    + rewrite abs_set. unfold abs. cbn [r_bytes r_flags r_cbd r_term]. rewrite Hf, Hcbd, Ht. reflexivity.
  - rewrite MR. cbn [fst snd]. split; [exact Hinv|reflexivity].
  - contradiction.
Qed.

(* ---------------- chunk_body ---------------- *)
(* decompress_next_batch on the reader with_reader creates, from a state satisfying the
   invariant *)
Lemma ws_batch_read d st f wc limit eoi : winv d st ->
  ws_flags st = Some f -> ws_cbd st = Some wc ->
  match wcbd_batch d f (ws_words st) (ws_tb st) wc limit eoi (ws_reader st) with
  | Ok (xs, fin, wc', r1) =>
      cbd_batch d f (total_bits (abs st)) (wc_pure wc) limit eoi (Reader.stream (abs st))
      = Ok (xs, fin, wc_pure wc', rd_stream (ws_words st) (ws_tb st) (pos r1)) /\
      wc_num wc' = wc_num wc /\ snd r1 <= 64 /\ ws_bit st <= pos r1 /\ pos r1 <= ws_tb st
  | Err k =>
      cbd_batch d f (total_bits (abs st)) (wc_pure wc) limit eoi (Reader.stream (abs st)) = Err k
  | Panic => False
  end.
Proof.
  intros Hinv Hf Hcbd. destruct (ws_reader_inv d st Hinv) as (i & j & Er & Ep & Hi).
  destruct Hinv as (Hbw & H8 & Hb & Hc). rewrite Hf, Hcbd in Hc.
  destruct Hc as (f0 & E0 & C1 & C2 & C3 & C4 & C5 & C6 & C7). inversion E0; subst f0; clear E0.
  rewrite abs_stream, abs_total by assumption. rewrite Er, <- Ep.
  destruct Hi as (_ & _ & _ & Hj & Hp).
  exact (wcbd_batch_sim d f wc (ws_words st) (ws_tb st) i j limit eoi Hbw H8 C1 C2 C3 C4 C5 Hj Hp).
Qed.

Theorem ws_body_sim d st : winv d st -> step_sim d st RBody.
Proof.
  intros Hinv. pose proof Hinv as (Hbw & H8 & Hb & Hc).
  unfold step_sim. cbn [ws_step r_step]. change (r_term (abs st)) with (ws_term st).
  change (r_flags (abs st)) with (ws_flags st).
  destruct (ws_term st) eqn:Ht; [cbn [fst snd]; split; [exact Hinv|reflexivity]|].
  unfold abs at 1. cbn [r_cbd].
  destruct (ws_cbd st) as [wc|] eqn:Hcbd; cbn [option_map];
    [|destruct (ws_flags st); cbn [fst snd]; split; first [exact Hinv|reflexivity]].
  destruct (ws_flags st) as [f|] eqn:Hf; [|cbn [fst snd]; split; [exact Hinv|reflexivity]].
  pose proof (ws_batch_read d st f wc usize_max true Hinv Hf Hcbd) as BR.
  change (pow2 64 - 1) with usize_max.
  destruct (wcbd_batch d f (ws_words st) (ws_tb st) wc usize_max true (ws_reader st))
    as [[[[xs fin] wc'] r1]|k|].
  - destruct BR as (BR & _ & _ & _ & Hp). rewrite BR. cbn [fst snd].
    change (rb_bit_idx r1) with (pos r1). rewrite abs_pos_after by assumption. split.
    + apply winv_set; [exact Hinv|exact Hp|exact I].
    + rewrite abs_set. reflexivity.
  - rewrite BR. cbn [fst snd]. split; [exact Hinv|reflexivity].
  - contradiction.
Qed.

(* ---------------- Iterator::next ---------------- *)
(* next_chunk_meta_item, from a state between chunks, with the reader at (i, j) = bit_idx *)
Lemma ws_next_meta_sim d st f i j : winv d st ->
  ws_flags st = Some f -> ws_cbd st = None ->
  rd_inv (ws_words st) (ws_tb st) i j -> 64 * i + j = ws_bit st ->
  match ws_next_meta d st f (i, j) with
  | Ok (Some (it, cb', tm', r')) =>
      next_meta d (abs st) f
      = (abs (ws_set st (rb_bit_idx r') (ws_flags st) cb' tm'), ROItem it) /\
      winv d (ws_set st (rb_bit_idx r') (ws_flags st) cb' tm')
  | Ok None => next_meta d (abs st) f = (abs st, RONone)
  | Err k => next_meta d (abs st) f = (abs st, ROErr k)
  | Panic => False
  end.
Proof.
  intros Hinv Hf Hcbd Hi Ep. pose proof Hinv as (Hbw & H8 & Hb & Hc).
  unfold ws_next_meta, next_meta.
  rewrite abs_stream by assumption. change (r_bit (abs st)) with (ws_bit st). rewrite <- Ep.
  pose proof (ws_meta_read d f (ws_words st) (ws_tb st) i j Hi) as MR.
  destruct (rf_chunk_meta (ws_words st) (ws_tb st) d f (i, j)) as [[[m|] r']|k|].
  - destruct MR as [MR Hp]. rewrite MR.
    destruct (read_chunk_meta_some _ _ _ _ _ _ MR) as [[s1 PM] Hal].
    pose proof (wcbd_new_sim d f m s1 _ PM) as WN.
    destruct (wcbd_new d f m) as [wc|k|].
    + destruct WN as [NC Hok]. rewrite NC. change (rb_bit_idx r') with (pos r').
      rewrite abs_pos_after by assumption. split.
      * rewrite abs_set. unfold abs. cbn [r_bytes r_flags r_term option_map]. reflexivity.
      * apply winv_set; [exact Hinv|exact Hp|]. exists f. split; [exact Hf|]. apply Hok.
        eapply meta_end_aligned; eassumption.
    + rewrite WN. reflexivity.
    + contradiction.
  - destruct MR as [MR Hp]. rewrite MR. change (rb_bit_idx r') with (pos r').
    rewrite abs_pos_after by assumption. split.
    + rewrite abs_set. unfold abs. cbn [r_bytes r_flags option_map]. reflexivity.
    + apply winv_set; [exact Hinv|exact Hp|exact I].
  - rewrite MR. destruct k; reflexivity.
  - contradiction.
Qed.

(* decompress_next_batch keeps the fields fixed by the chunk's metadata *)
Lemma cbd_batch_fields d f tb c limit eoi s xs fin c' s1 :
  cbd_batch d f tb c limit eoi s = Ok (xs, fin, c', s1) ->
  c_table c' = c_table c /\ c_n c' = c_n c.
Proof.
  unfold cbd_batch. cbv zeta. intros H.
  destruct (nd_batch (ubits (pdt f d)) tb c limit eoi s) as [[[[us fin0] nd'] s2]|k|];
    cbn [bind] in H; try discriminate.
  destruct (ford f =? 0).
  - inversion H; subst. split; reflexivity.
  - destruct (c_total c <? c_numsproc c); [discriminate|].
    destruct (reconstruct d _ (c_moments c) _) as [ys ms'].
    inversion H; subst. split; reflexivity.
Qed.

(* a chunk body decompressor is its pure part and its derived fields *)
Lemma wcbd_eq (a b : wcbd) : wc_pure a = wc_pure b -> wc_num a = wc_num b -> a = b.
Proof. destruct a as [pa na], b as [pb nb]. cbn [wc_pure wc_num]. intros -> ->. reflexivity. Qed.

(* The commit discipline of Iterator::next.  A decompress_next_batch that yields no number
   has worked on the chunk body decompressor in place, and next() then keeps that
   decompressor while resetting (or not committing) bit_idx: under the invariant it is the
   decompressor it was before the call. *)
Theorem wcbd_batch_nothing d st f wc limit eoi fin wc' r1 : winv d st ->
  ws_flags st = Some f -> ws_cbd st = Some wc ->
  wcbd_batch d f (ws_words st) (ws_tb st) wc limit eoi (ws_reader st) = Ok ([], fin, wc', r1) ->
  wc' = wc.
Proof.
  intros Hinv Hf Hcbd H. pose proof (ws_batch_read d st f wc limit eoi Hinv Hf Hcbd) as BR.
  rewrite H in BR. destruct BR as (BR & En & _).
  destruct Hinv as (Hbw & H8 & Hb & Hc). rewrite Hf, Hcbd in Hc.
  destruct Hc as (f0 & E0 & C1 & C2 & C3 & C4 & C5 & C6 & C7). inversion E0; subst f0; clear E0.
  destruct (cbd_batch_more _ _ _ _ _ _ _ _ _ _ _ C1 C6 BR) as (_ & _ & M).
  destruct (M eq_refl) as [Ec _].
  { intros Hn. specialize (C7 Hn). rewrite abs_stream by assumption.
    destruct (bw_rd_ok _ _ Hbw) as [_ Hle]. rewrite rd_stream_Nlen by exact Hle. lia. }
  apply wcbd_eq; assumption.
Qed.

Theorem ws_next_sim d st limit : winv d st -> step_sim d st (RNext limit).
Proof.
  intros Hinv. pose proof Hinv as (Hbw & H8 & Hb & Hc).
  unfold step_sim. cbn [ws_step r_step]. cbv zeta. change (r_term (abs st)) with (ws_term st).
  change (r_flags (abs st)) with (ws_flags st).
  destruct (ws_term st) eqn:Ht; [cbn [fst snd]; split; [exact Hinv|reflexivity]|].
  destruct (ws_flags st) as [f|] eqn:Hf.
  - unfold abs at 1. cbn [r_cbd].
    destruct (ws_cbd st) as [wc|] eqn:Hcbd; cbn [option_map].
    + (* inside a chunk body *)
      pose proof (ws_batch_read d st f wc limit false Hinv Hf Hcbd) as BR.
      pose proof (wcbd_batch_nothing d st f wc limit false) as NT.
      destruct (wcbd_batch d f (ws_words st) (ws_tb st) wc limit false (ws_reader st))
        as [[[[xs fin] wc'] r1]|k|].
      * destruct BR as (BR & En & Hj1 & Hp0 & Hp1). rewrite BR.
        assert (Hkeep : abs (ws_set st (ws_bit st) (Some f) (Some wc) false) = abs st).
        { rewrite abs_set. unfold abs. cbn [r_bytes]. rewrite Hf, Hcbd, Ht. reflexivity. }
        assert (Hkeepi : winv d (ws_set st (ws_bit st) (Some f) (Some wc) false)).
        { apply winv_set; [exact Hinv|exact Hb|]. exact Hc. }
        destruct xs as [|x xs']; cbn [is_nil andb].
        -- (* no number *)
           specialize (NT fin wc' r1 Hinv Hf Hcbd eq_refl). subst wc'.
           destruct fin.
           ++ (* an empty chunk: go on to what follows it *)
              set (st1 := ws_set st (pos r1) (Some f) None false).
              assert (Hinv1 : winv d st1) by (apply winv_set; [exact Hinv|exact Hp1|exact I]).
              assert (Hi1 : rd_inv (ws_words st1) (ws_tb st1) (fst r1) (snd r1)).
              { destruct (bw_rd_ok _ _ Hbw) as [Hwok Hle]. unfold rd_inv.
                split; [exact Hwok|]. split; [exact Hle|]. split; [exact H8|].
                split; [exact Hj1|exact Hp1]. }
              pose proof (ws_next_meta_sim d st1 f (fst r1) (snd r1) Hinv1 eq_refl eq_refl Hi1 eq_refl)
                as NM.
              rewrite abs_pos_after by assumption.
              assert (Enm : ws_next_meta d st f r1 = ws_next_meta d st1 f r1).
              { unfold ws_next_meta, st1, ws_set. cbn [ws_words ws_tb ws_term]. rewrite Ht.
                reflexivity. }
              rewrite Enm. clear Enm.
              rewrite <- surjective_pairing in NM.
              change (mkR (r_bytes (abs st)) (pos r1) (Some f) None false) with (abs st1).
              destruct (ws_next_meta d st1 f r1) as [[[[[it cb'] tm'] r2]|]|k|].
              ** destruct NM as [NM Hinv2]. rewrite NM. cbn [fst snd]. split; [exact Hinv2|reflexivity].
              ** rewrite NM. cbn [fst snd]. split; [exact Hkeepi|]. rewrite Hkeep. reflexivity.
              ** rewrite NM. cbn [fst snd]. split; [exact Hkeepi|]. rewrite Hkeep. reflexivity.
              ** contradiction.
           ++ cbn [fst snd]. split; [exact Hkeepi|]. rewrite Hkeep. reflexivity.
        -- (* numbers *)
           cbn [fst snd]. change (rb_bit_idx r1) with (pos r1).
           rewrite abs_pos_after by assumption. split.
           ++ apply winv_set; [exact Hinv|exact Hp1|]. destruct fin; [exact I|].
              destruct Hc as (f0 & E0 & C1 & C2 & C3 & C4 & C5 & C6 & C7).
              inversion E0; subst f0; clear E0.
              pose proof (cbd_batch_facts d f (total_bits (abs st)) (wc_pure wc) limit false
                            (Reader.stream (abs st)) C1) as CF. rewrite BR in CF.
              destruct (cbd_batch_fields _ _ _ _ _ _ _ _ _ _ _ BR) as [Et Ecn].
              destruct (cbd_batch_more _ _ _ _ _ _ _ _ _ _ _ C1 C6 BR) as (M1 & M2 & _).
              exists f. split; [reflexivity|]. unfold cbd_ok. cbv zeta.
              rewrite Et, Ecn, En.
              split; [exact CF|]. split; [exact C2|]. split; [exact C3|]. split; [exact C4|].
              split; [exact C5|]. split; [exact M1|].
              intros Hn. rewrite Ecn in M2. specialize (M2 Hn).
              eapply meta_end_aligned; eassumption.
           ++ rewrite abs_set. destruct fin; reflexivity.
      * rewrite BR. cbn [fst snd]. split; [exact Hinv|reflexivity].
      * contradiction.
    + (* between chunks *)
      destruct (ws_reader_inv d st Hinv) as (i & j & Er & Ep & Hi). rewrite Er.
      pose proof (ws_next_meta_sim d st f i j Hinv Hf Hcbd Hi Ep) as NM.
      destruct (ws_next_meta d st f (i, j)) as [[[[[it cb'] tm'] r']|]|k|].
      * destruct NM as [NM Hinv2]. rewrite NM. cbn [fst snd]. rewrite Hf in *.
        split; [exact Hinv2|reflexivity].
      * rewrite NM. cbn [fst snd]. split; [exact Hinv|reflexivity].
      * rewrite NM. cbn [fst snd]. split; [exact Hinv|reflexivity].
      * contradiction.
  - (* no header yet *)
    pose proof (ws_header_read d st Hinv) as HR.
    destruct (rf_header (ws_words st) (ws_tb st) d (ws_reader st)) as [[f r']|k|].
    + destruct HR as [HR Hp]. rewrite HR. cbn [fst snd]. change (rb_bit_idx r') with (pos r').
      rewrite abs_pos_after by assumption. split.
      * apply winv_set; [exact Hinv|exact Hp|].
        rewrite (cbd_inv_noflags _ _ _ Hc). exact I.
      * rewrite abs_set. unfold abs at 2 3. cbn [r_cbd r_term]. rewrite Ht. reflexivity.
    + rewrite HR. destruct k; cbn [fst snd]; (split; [exact Hinv|reflexivity]).
    + contradiction.
Qed.

(* ================================================================== *)
(* 6. every operation, runs, whole files                               *)
(* ================================================================== *)
(* the bytes handed to `write` are bytes *)
Definition op_ok (o : rop) : Prop :=
  match o with
  | RWrite bs => Forall (fun b => b < 256) bs
  | _ => True
  end.

Lemma ws_step_step_sim d st o : winv d st -> op_ok o -> step_sim d st o.
Proof.
  intros Hinv Ho. destruct o as [bs| | | | |limit| |].
  - apply ws_write_sim; assumption.
  - apply ws_header_sim; assumption.
  - apply ws_meta_sim; assumption.
  - apply ws_body_sim; assumption.
  - apply ws_skip_sim; assumption.
  - apply ws_next_sim; assumption.
  - apply ws_free_sim; assumption.
  - unfold step_sim. cbn [ws_step r_step fst snd]. split; [exact Hinv|reflexivity].
Qed.

(* MAIN THEOREM: for every operation, from a state satisfying the invariant, the word-level
   Decompressor keeps the invariant and does what the bit-list Decompressor does from the
   abstracted state: same output (numbers, metadata, flags, ROErr kind, RONone), and the new
   state abstracts to the new bit-list state. *)
Theorem ws_step_sim d st o : winv d st -> op_ok o ->
  let '(st', out) := ws_step d st o in
  winv d st' /\ r_step d (abs st) o = (abs st', out).
Proof.
  intros Hinv Ho. pose proof (ws_step_step_sim d st o Hinv Ho) as H. unfold step_sim in H.
  destruct (ws_step d st o) as [st' out]. exact H.
Qed.

(* hence no word-level operation panics: no slice index out of range (in particular none of
   the unchecked reads of the fast path), no usize underflow *)
Corollary ws_step_no_panic d st o : winv d st -> op_ok o -> snd (ws_step d st o) <> ROPanic.
Proof.
  intros Hinv Ho. destruct (ws_step_step_sim d st o Hinv Ho) as [_ H].
  destruct (r_step_sane d (abs st) o (winv_sane d st Hinv)) as [_ NP].
  rewrite H in NP. exact NP.
Qed.

(* ---------------- simple_decompress ---------------- *)
Lemma ws_simple_loop_sim d : forall fuel st acc, winv d st ->
  winv d (fst (ws_simple_loop fuel d st acc)) /\
  simple_loop fuel d (abs st) acc
  = (abs (fst (ws_simple_loop fuel d st acc)), snd (ws_simple_loop fuel d st acc)).
Proof.
  induction fuel as [|n IH]; intros st acc Hinv; cbn [ws_simple_loop simple_loop].
  - cbn [fst snd]. split; [exact Hinv|reflexivity].
  - destruct (ws_step_step_sim d st RMeta Hinv I) as [Hinv1 E1]. rewrite E1.
    destruct (ws_step d st RMeta) as [st1 out1]. cbn [fst snd] in *.
    destruct out1 as [| |[m|]| | | | |]; cbn [fst snd]; try (split; [exact Hinv|reflexivity]).
    + destruct (ws_step_step_sim d st1 RBody Hinv1 I) as [Hinv2 E2]. rewrite E2.
      destruct (ws_step d st1 RBody) as [st2 out2]. cbn [fst snd] in *.
      destruct out2; cbn [fst snd]; try (split; [exact Hinv|reflexivity]).
      apply IH. exact Hinv2.
    + split; [exact Hinv1|reflexivity].
Qed.

Theorem ws_simple_sim d st : winv d st ->
  winv d (fst (ws_simple d st)) /\
  simple_decompress d (abs st) = (abs (fst (ws_simple d st)), snd (ws_simple d st)).
Proof.
  intros Hinv. unfold ws_simple, simple_decompress.
  assert (Efuel : length (r_bytes (abs st)) = N.to_nat (ws_tb st / 8)).
  { destruct Hinv as (Hbw & H8 & _). destruct (abs_bytes _ _ Hbw H8) as (_ & E & _).
    cbv zeta in E. unfold abs. cbn [r_bytes]. unfold Nlen in E. lia. }
  rewrite Efuel.
  destruct (ws_step_step_sim d st RHeader Hinv I) as [Hinv1 E1]. rewrite E1.
  destruct (ws_step d st RHeader) as [st1 out1]. cbn [fst snd] in *.
  destruct out1; cbn [fst snd]; try (split; [exact Hinv|reflexivity]).
  destruct (ws_simple_loop_sim d (S (N.to_nat (ws_tb st / 8))) st1 [] Hinv1) as [Hinv2 E2].
  rewrite E2.
  destruct (ws_simple_loop (S (N.to_nat (ws_tb st / 8))) d st1 []) as [st2 [xs|k|]];
    cbn [fst snd] in *; split; first [exact Hinv2|exact Hinv|reflexivity].
Qed.

Theorem ws_do_sim d st o : winv d st -> op_ok o ->
  let '(st', out) := ws_do d st o in
  winv d st' /\ r_do d (abs st) o = (abs st', out).
Proof.
  intros Hinv Ho.
  destruct o as [bs| | | | |limit| |];
    try exact (ws_step_sim d st _ Hinv Ho).
  unfold ws_do, r_do. destruct (ws_simple_sim d st Hinv) as [Hinv1 E]. rewrite E.
  destruct (ws_simple d st) as [st' [xs|k|]]; cbn [fst snd] in *; split;
    first [exact Hinv1|reflexivity].
Qed.

Theorem ws_run_sim d : forall ops st, winv d st -> Forall op_ok ops ->
  let '(st', outs) := ws_run d st ops in
  winv d st' /\ r_run d (abs st) ops = (abs st', outs).
Proof.
  induction ops as [|o t IH]; intros st Hinv Hops; cbn [ws_run r_run].
  - split; [exact Hinv|reflexivity].
  - inversion Hops as [|? ? Ho Ht]; subst.
    pose proof (ws_do_sim d st o Hinv Ho) as H1.
    destruct (ws_do d st o) as [st1 out]. destruct H1 as [Hinv1 E1]. rewrite E1.
    specialize (IH st1 Hinv1 Ht). destruct (ws_run d st1 t) as [st2 outs].
    destruct IH as [Hinv2 E2]. rewrite E2. split; [exact Hinv2|reflexivity].
Qed.

(* from Decompressor::default() *)
Corollary ws_run_init_sim d ops : Forall op_ok ops ->
  let '(st', outs) := ws_run d ws_init ops in
  winv d st' /\ r_run d r_init ops = (abs st', outs).
Proof. intros Hops. exact (ws_run_sim d ops ws_init (ws_init_inv d) Hops). Qed.

(* so the word-level Decompressor never panics, whatever it is fed and asked *)
Corollary ws_run_no_panic d ops : Forall op_ok ops ->
  Forall (fun o => o <> ROPanic) (snd (ws_run d ws_init ops)).
Proof.
  intros Hops. pose proof (ws_run_init_sim d ops Hops) as H. pose proof (no_panic d ops) as NP.
  destruct (ws_run d ws_init ops) as [st' outs]. destruct H as [_ E]. rewrite E in NP. exact NP.
Qed.

(* auto_decompress / a fresh decompressor, write_all, simple_decompress: on words = on bits *)
Theorem ws_decode_file_eq d bytes : Forall (fun b => b < 256) bytes ->
  ws_decode_file d bytes = decode_file d bytes.
Proof.
  intros Hb. unfold ws_decode_file, decode_file.
  destruct (ws_step_step_sim d ws_init (RWrite bytes) (ws_init_inv d) Hb) as [Hinv1 E1].
  destruct (ws_simple_sim d _ Hinv1) as [_ E2].
  rewrite abs_init in E1. cbn [r_step r_init r_bytes r_bit r_flags r_cbd r_term app] in E1.
  apply (f_equal fst) in E1. cbn [fst] in E1. rewrite <- E1 in E2. rewrite E2. reflexivity.
Qed.


Print Assumptions ws_init_inv.
Print Assumptions ws_step_sim.
Print Assumptions ws_step_no_panic.
Print Assumptions wcbd_batch_nothing.
Print Assumptions ws_simple_sim.
Print Assumptions ws_do_sim.
Print Assumptions ws_run_sim.
Print Assumptions ws_run_init_sim.
Print Assumptions ws_run_no_panic.
Print Assumptions ws_decode_file_eq.
