(* FastL.v — the unchecked fast path of the number-block decoder (Model/Fast.v) is
   observably equal to the checked semantics (Codec.read_batch), on every stream.
   A. max_bits_read / max_bits_overshot are sound bounds on what one block consumes /
      peeks at; m blocks under the guard touch only real bits.
   B. under the guard one unchecked block = one step of the checked block loop.
   C. fast_batch = read_batch for every validated table and every stream.
   Plus: the one hypothesis beyond validation (quirk_ok: k <> PHYSICAL_BITS when
   k < U::BITS) is necessary (two computed counterexamples) and holds for every table
   parsed from chunk metadata (parsed_chunk_fast). *)
From QCo.Lemmas Require Import Tactics BitsL DTypeL CodecL BodyL TruncL NoPanicL.
From QCo.Model Require Import Base Consts DType Codec Reader Fast.
Open Scope N_scope.

(* ================================================================== *)
(* 1. maxima over the table                                            *)
(* ================================================================== *)
Lemma list_max_opt_In : forall l m x, list_max_opt l = Some m -> In x l -> x <= m.
Proof.
  induction l as [|y t IH]; intros m x H Hin; [destruct Hin|].
  cbn [list_max_opt] in H. destruct (list_max_opt t) as [m'|] eqn:E.
  - inversion H; subst m. destruct Hin as [->|Hin]; [lia|].
    specialize (IH m' x eq_refl Hin). lia.
  - inversion H; subst m. destruct Hin as [->|Hin]; [lia|].
    destruct t; [destruct Hin|]. cbn [list_max_opt] in E. destruct (list_max_opt t); discriminate.
Qed.

Lemma list_max_opt_None : forall l, list_max_opt l = None -> l = [].
Proof.
  intros [|y t] H; [reflexivity|]. cbn [list_max_opt] in H.
  destruct (list_max_opt t); discriminate.
Qed.

Lemma max_bits_block_In w ps mb p :
  max_bits_block w ps = Some mb -> In p ps -> max_bits_read w p <= mb.
Proof.
  intros H Hin. apply (list_max_opt_In _ _ _ H). apply in_map. exact Hin.
Qed.

Lemma max_overshoot_In ps mo p :
  max_overshoot ps = Some mo -> In p ps -> max_bits_overshot p <= mo.
Proof.
  intros H Hin. apply (list_max_opt_In _ _ _ H). apply in_map. exact Hin.
Qed.

(* ================================================================== *)
(* 2. primitive reads: checked success lifts to the padded stream      *)
(* ================================================================== *)
(* [pad] is arbitrary everywhere below: the result of an unchecked read that stays inside
   the real bits does not depend on what follows them (zero padding, or nothing at all). *)

Lemma uget_lift n s v r pad : get n s = Ok (v, r) -> uget n (s ++ pad) = Ok (v, r ++ pad).
Proof.
  unfold get, uget, getn. intros H.
  destruct (getn_acc (N.to_nat n) 0 s) as [[v0 r0]|] eqn:E; [|discriminate].
  inversion H; subst. rewrite (getn_acc_app _ _ _ pad _ _ E). reflexivity.
Qed.

Lemma uget1_lift s b r pad : get1 s = Ok (b, r) -> uget1 (s ++ pad) = Ok (b, r ++ pad).
Proof. destruct s as [|x t]; cbn [get1]; [discriminate|]. intros H. inversion H; subst. reflexivity. Qed.

Lemma getn_acc_some : forall n acc s, (n <= length s)%nat ->
  exists v, getn_acc n acc s = Some (v, skipn n s).
Proof.
  induction n as [|n IH]; intros acc s H.
  - exists acc. reflexivity.
  - destruct s as [|b t]; cbn [length] in H; [lia|]. cbn [getn_acc skipn]. apply IH. lia.
Qed.

Lemma getn_acc_none : forall n acc s, (length s < n)%nat -> getn_acc n acc s = None.
Proof.
  induction n as [|n IH]; intros acc s H; [lia|].
  destruct s as [|b t]; [reflexivity|]. cbn [length] in H. cbn [getn_acc]. apply IH. lia.
Qed.

Lemma get_enough n s : n <= Nlen s ->
  exists v r, get n s = Ok (v, r) /\ Nlen s = n + Nlen r.
Proof.
  intros H. unfold get, getn.
  destruct (getn_acc_some (N.to_nat n) 0 s) as (v & E); [unfold Nlen in H; lia|].
  rewrite E. exists v, (skipn (N.to_nat n) s). split; [reflexivity|].
  unfold Nlen in *. rewrite skipn_length. lia.
Qed.

Lemma get_short n s : Nlen s < n -> get n s = Err InsufficientData.
Proof.
  intros H. unfold get, getn. rewrite getn_acc_none; [reflexivity|]. unfold Nlen in H. lia.
Qed.

(* ---------------- varint ---------------- *)
Lemma u_varint_cont_lift pad : forall left i acc s v r,
  read_varint_cont left i acc s = Ok (v, r) ->
  u_read_varint_cont left i acc (s ++ pad) = Ok (v, r ++ pad).
Proof.
  induction left as [|l IH]; intros i acc s v r H; cbn [read_varint_cont u_read_varint_cont] in *.
  - inversion H; subst. reflexivity.
  - destruct (get1 s) as [[b s1]|e|] eqn:G; cbn [bind] in H; try discriminate.
    rewrite (uget1_lift _ _ _ pad G). cbn [bind]. destruct b.
    + destruct (get1 s1) as [[b2 s2]|e|] eqn:G2; cbn [bind] in H; try discriminate.
      rewrite (uget1_lift _ _ _ pad G2). cbn [bind]. apply IH. exact H.
    + inversion H; subst. reflexivity.
Qed.

Lemma u_varint_lift pad j s v r :
  read_varint j s = Ok (v, r) -> u_read_varint j (s ++ pad) = Ok (v, r ++ pad).
Proof.
  unfold read_varint, u_read_varint. intros H.
  destruct (get j s) as [[v0 s1]|e|] eqn:G; cbn [bind] in H; try discriminate.
  rewrite (uget_lift _ _ _ _ pad G). cbn [bind]. apply u_varint_cont_lift. exact H.
Qed.

(* the continuation pairs take at most 2 bits per remaining position *)
Lemma varint_cont_cases : forall left i acc s,
  (exists v r, read_varint_cont left i acc s = Ok (v, r) /\ Nlen s <= Nlen r + 2 * N.of_nat left)
  \/ (read_varint_cont left i acc s = Err InsufficientData /\ Nlen s < 2 * N.of_nat left).
Proof.
  induction left as [|l IH]; intros i acc s; cbn [read_varint_cont].
  - left. exists acc, s. split; [reflexivity|lia].
  - destruct s as [|b s1]; cbn [get1 bind].
    + right. split; [reflexivity|]. rewrite Nlen_nil. lia.
    + rewrite Nlen_cons. destruct b.
      * destruct s1 as [|b2 s2]; cbn [get1 bind].
        -- right. split; [reflexivity|]. rewrite Nlen_nil. lia.
        -- rewrite Nlen_cons.
           destruct (IH (i + 1) (if b2 then acc + pow2 i else acc) s2)
             as [(v & r & E & Hl)|(E & Hl)]; rewrite E.
           ++ left. exists v, r. split; [reflexivity|lia].
           ++ right. split; [reflexivity|lia].
      * left. exists acc, s1. split; [reflexivity|lia].
Qed.

(* a varint takes at most 48 bits (jumpstarts up to 48; parsed ones are below 32) *)
Lemma read_varint_cases j s : j <= 48 ->
  (exists v r, read_varint j s = Ok (v, r) /\ Nlen s <= Nlen r + 48)
  \/ (read_varint j s = Err InsufficientData /\ Nlen s < 48).
Proof.
  intros Hj. unfold read_varint. change Consts.BITS_TO_ENCODE_N_ENTRIES with 24.
  destruct (N.le_gt_cases j (Nlen s)) as [Hle|Hgt].
  - destruct (get_enough j s Hle) as (v0 & s1 & G & Hl). rewrite G. cbn [bind].
    destruct (varint_cont_cases (N.to_nat (24 - j)) j v0 s1) as [(v & r & E & Hl2)|(E & Hl2)];
      rewrite E.
    + left. exists v, r. split; [reflexivity|lia].
    + right. split; [reflexivity|lia].
  - rewrite (get_short j s Hgt). cbn [bind]. right. split; [reflexivity|lia].
Qed.


(* ---------------- offsets ---------------- *)
(* the PHYSICAL_BITS quirk of most_significant does not concern prefix p *)
Definition quirk_ok (w phys : N) (p : prefix) : Prop := p_k p < w -> p_k p <> phys.

Ltac fin_if H :=
  revert H;
  match goal with
  | |- (if ?c then _ else _) = _ -> _ => destruct c; intros H; [|discriminate H]
  end;
  inversion H; subst; try reflexivity.

Lemma u_offset_lift w phys p s x r pad : quirk_ok w phys p ->
  read_offset w p s = Ok (x, r) -> u_read_offset w phys p (s ++ pad) = Ok (x, r ++ pad).
Proof.
  intros Q H. unfold quirk_ok, p_k in Q. unfold read_offset in H. unfold u_read_offset.
  cbv zeta in *. set (r0 := p_range p) in *. set (k := k_of_range r0) in *.
  destruct (get k s) as [[off s1]|e|] eqn:G; cbn [bind] in H; try discriminate.
  rewrite (uget_lift _ _ _ _ pad G). cbn [bind].
  destruct (k <? w) eqn:E1.
  - assert (Hq : (k =? phys) = false).
    { apply N.eqb_neq. apply Q. apply N.ltb_lt. exact E1. }
    rewrite Hq. destruct (r0 <? off); [discriminate|].
    destruct (pow2 k <=? r0 - off).
    + destruct (get1 s1) as [[b s2]|e|] eqn:G1; cbn [bind] in H; try discriminate.
      rewrite (uget1_lift _ _ _ pad G1). cbn [bind]. fin_if H.
    + cbn [bind] in *. fin_if H.
  - cbn [bind] in *. fin_if H.
Qed.

Lemma u_offsets_loop_lift w phys p pad : quirk_ok w phys p -> forall n s l r,
  read_offsets w p n s = (l, r, SOk) -> u_offsets_loop w phys p n (s ++ pad) = Ok (l, r ++ pad).
Proof.
  intros Q. induction n as [|n IH]; intros s l r H; cbn [read_offsets u_offsets_loop] in *.
  - inversion H; subst. reflexivity.
  - destruct (read_offset w p s) as [[x s1]|e|] eqn:E; try discriminate.
    destruct (read_offsets w p n s1) as [[l1 s2] st] eqn:E2. inversion H; subst.
    rewrite (u_offset_lift _ _ _ _ _ _ pad Q E). cbn [bind].
    rewrite (IH _ _ _ E2). reflexivity.
Qed.

Lemma k0_range p : p_k p = 0 -> p_range p = 0.
Proof.
  unfold p_k. intros H. pose proof (k_spec (p_range p)) as K. rewrite H in K.
  change (2 ^ (0 + 1)) with 2 in K. lia.
Qed.

(* a single-valued prefix: the offset takes no bits *)
Lemma read_offset_k0 w p s : sane_prefix w p -> p_k p = 0 ->
  read_offset w p s = Ok (p_lower p, s).
Proof.
  intros (Hg & Hlu & Hu) Hk. pose proof (k0_range p Hk) as Hr.
  unfold read_offset. cbv zeta. rewrite Hr. change (k_of_range 0) with 0.
  change (get 0 s) with (Ok (0, s)). cbn [bind].
  assert (E : p_lower p + 0 * p_gcd p = p_lower p) by lia.
  destruct (0 <? w); cbn [bind].
  - change (0 <? 0) with false. change (pow2 0 <=? 0 - 0) with false. cbn [bind].
    rewrite E. destruct (p_lower p <=? umax w) eqn:L; [reflexivity|]. apply N.leb_gt in L. lia.
  - rewrite E. destruct (p_lower p <=? umax w) eqn:L; [reflexivity|]. apply N.leb_gt in L. lia.
Qed.

Lemma read_offsets_k0 w p : sane_prefix w p -> p_k p = 0 -> forall n s,
  read_offsets w p n s = (repeat (p_lower p) n, s, SOk).
Proof.
  intros S Hk. induction n as [|n IH]; intros s; cbn [read_offsets repeat]; [reflexivity|].
  rewrite (read_offset_k0 w p s S Hk), IH. reflexivity.
Qed.

Lemma u_read_offsets_lift w phys p pad : sane_prefix w p -> quirk_ok w phys p ->
  forall reps s l r, read_offsets w p (N.to_nat reps) s = (l, r, SOk) ->
  u_read_offsets w phys p reps (s ++ pad) = Ok (l, r ++ pad).
Proof.
  intros S Q reps s l r H. unfold u_read_offsets.
  destruct ((1 <? reps) && (p_k p =? 0)) eqn:E.
  - apply andb_true_iff in E. destruct E as [_ E]. apply N.eqb_eq in E.
    rewrite (read_offsets_k0 w p S E) in H. inversion H; subst. reflexivity.
  - apply u_offsets_loop_lift; assumption.
Qed.

(* what one offset consumes: at most max_bits_per_offset, and it only fails when fewer
   bits than that are left *)
Lemma read_offset_cases w p s : sane_prefix w p ->
  (exists x r, read_offset w p s = Ok (x, r) /\ Nlen s <= Nlen r + max_bits_per_offset p)
  \/ (read_offset w p s = Err InsufficientData /\ Nlen s < max_bits_per_offset p).
Proof.
  intros (Hg & Hlu & Hu).
  destruct (prefix_facts w p Hg Hlu Hu) as (Hrw & Hkw & Hkeq & Hup).
  unfold max_bits_per_offset, only_k_bits_lower, p_k.
  unfold read_offset. cbv zeta. unfold umax, pow2 in *.
  set (r := p_range p) in *. set (k := k_of_range r) in *.
  pose proof (k_spec r) as Hk. fold k in Hk.
  pose proof (pow2_pos k) as HP1. pose proof (pow2_pos w) as HW1.
  assert (Hfin : forall off' s', off' <= r ->
     (if p_lower p + off' * p_gcd p <=? 2 ^ w - 1
      then Ok (p_lower p + off' * p_gcd p, s') else @Panic (N * bits))
     = Ok (p_lower p + off' * p_gcd p, s')).
  { intros off' s' Ho. specialize (Hup off' Ho).
    destruct (p_lower p + off' * p_gcd p <=? 2 ^ w - 1) eqn:E; [reflexivity|].
    apply N.leb_gt in E. set (W := 2 ^ w) in *. clearbody W. lia. }
  rewrite N.pow_add_r, N.pow_1_r in Hk.
  destruct (N.le_gt_cases k (Nlen s)) as [Hle|Hgt].
  - destruct (get_enough k s Hle) as (off & s1 & G & Hl). rewrite G. cbn [bind].
    pose proof (get_lt _ _ _ _ G) as Hoff.
    set (P := 2 ^ k) in *. clearbody P.
    destruct (k <? w) eqn:E1.
    + destruct (r <? off) eqn:E2; [exfalso; lia|].
      destruct (P <=? r - off) eqn:E3.
      * assert (E4 : (r - (P - 1) =? 0) = false) by (apply N.eqb_neq; lia). rewrite E4.
        destruct s1 as [|b t]; cbn [get1 bind].
        -- right. split; [reflexivity|]. rewrite Nlen_nil in Hl. lia.
        -- left. rewrite Hfin by (destruct b; lia). eexists. eexists.
           split; [reflexivity|]. rewrite Nlen_cons in Hl. lia.
      * cbn [bind]. left. rewrite Hfin by lia. eexists. eexists. split; [reflexivity|].
        destruct (r - (P - 1) =? 0); lia.
    + cbn [bind]. left. rewrite Hfin by lia. eexists. eexists. split; [reflexivity|].
      destruct (r - (P - 1) =? 0); lia.
  - rewrite (get_short k s Hgt). cbn [bind]. right. split; [reflexivity|].
    destruct (r - (2 ^ k - 1) =? 0); lia.
Qed.

Lemma read_offsets_enough w p : sane_prefix w p -> forall n s,
  N.of_nat n * max_bits_per_offset p <= Nlen s ->
  exists l r, read_offsets w p n s = (l, r, SOk)
              /\ Nlen s <= Nlen r + N.of_nat n * max_bits_per_offset p /\ Nlen l = N.of_nat n.
Proof.
  intros S. induction n as [|n IH]; intros s H; cbn [read_offsets].
  - exists [], s. split; [reflexivity|]. split; [lia|reflexivity].
  - rewrite Nat2N.inj_succ, N.mul_succ_l in *.
    destruct (read_offset_cases w p s S) as [(x & s1 & E & Hl)|(E & Hl)]; [|lia].
    rewrite E. destruct (IH s1) as (l & r & E2 & Hl2 & Hn); [lia|].
    rewrite E2. exists (x :: l), r. split; [reflexivity|]. rewrite Nlen_cons. lia.
Qed.

(* any number of offsets, however it ends: at most max_bits_per_offset each *)
Lemma read_offsets_consumed w p : sane_prefix w p -> forall n s l r st,
  read_offsets w p n s = (l, r, st) -> Nlen s <= Nlen r + N.of_nat n * max_bits_per_offset p.
Proof.
  intros S. induction n as [|n IH]; intros s l r st H; cbn [read_offsets] in H.
  - inversion H; subst. lia.
  - rewrite Nat2N.inj_succ, N.mul_succ_l.
    destruct (read_offset_cases w p s S) as [(x & s1 & E & Hl)|(E & Hl)]; rewrite E in H.
    + destruct (read_offsets w p n s1) as [[l1 s2] st1] eqn:E2. inversion H; subst.
      specialize (IH _ _ _ _ E2). lia.
    + inversion H; subst. lia.
Qed.


(* ================================================================== *)
(* 3. the table walk                                                   *)
(* ================================================================== *)
Lemma zpad_firstn : forall n l, (n <= length l)%nat -> zpad n l = firstn n l.
Proof.
  induction n as [|n IH]; intros l H; [reflexivity|].
  destruct l as [|x l]; cbn [length] in H; [lia|]. cbn [zpad firstn]. f_equal. apply IH. lia.
Qed.

Lemma is_prefix_of_app_same : forall B c d, is_prefix_of (B ++ c) (B ++ d) = is_prefix_of c d.
Proof.
  induction B as [|b B IH]; intros c d; [reflexivity|].
  cbn [app is_prefix_of]. rewrite Bool.eqb_reflx. cbn [andb]. apply IH.
Qed.

Lemma compatible_long : forall B c, compatible c B = true -> (length B <= length c)%nat ->
  c = B ++ skipn (length B) c.
Proof.
  induction B as [|b B IH]; intros c H Hl; [reflexivity|].
  destruct c as [|x c]; cbn [length] in Hl; [lia|].
  cbn [compatible] in H. apply andb_true_iff in H. destruct H as [Hx H].
  apply Bool.eqb_prop in Hx. subst x. cbn [length skipn app]. f_equal. apply IH; [exact H|lia].
Qed.

Lemma is_prefix_of_short : forall c a b, is_prefix_of c (a ++ b) = true ->
  (length c <= length a)%nat -> is_prefix_of c a = true.
Proof.
  induction c as [|x c IH]; intros a b H Hl; [reflexivity|].
  destruct a as [|y a]; cbn [length] in Hl; [lia|].
  cbn [app is_prefix_of] in *. apply andb_true_iff in H. destruct H as [-> H]. cbn [andb].
  apply (IH a b); [exact H|lia].
Qed.

Lemma is_prefix_of_split : forall c s, is_prefix_of c s = true -> s = c ++ skipn (length c) s.
Proof.
  induction c as [|x c IH]; intros s H; [reflexivity|].
  destruct s as [|y s]; [discriminate|]. cbn [is_prefix_of] in H.
  apply andb_true_iff in H. destruct H as [Hx H]. apply Bool.eqb_prop in Hx. subst y.
  cbn [length skipn app]. f_equal. apply IH. exact H.
Qed.

(* In a validated (complete, prefix-free) table: when a single entry is compatible with
   the D bits read so far, its code is no longer than D — so the rewind
   `read_depth - depth` of the unchecked search cannot underflow. *)
Lemma single_depth ps B p : table_ok ps = true ->
  filter (fun q => compatible (p_code q) B) ps = [p] -> (length (p_code p) <= length B)%nat.
Proof.
  intros Hok Hf.
  assert (Hin : In p (filter (fun q => compatible (p_code q) B) ps)) by (rewrite Hf; left; reflexivity).
  apply filter_In in Hin. destruct Hin as [Hin Hc].
  destruct (Nat.le_gt_cases (length (p_code p)) (length B)) as [H|H]; [exact H|exfalso].
  pose proof (compatible_long B (p_code p) Hc ltac:(lia)) as Hsplit.
  destruct (skipn (length B) (p_code p)) as [|x rest] eqn:Esk.
  { assert (L : length (skipn (length B) (p_code p)) = O) by (rewrite Esk; reflexivity).
    rewrite skipn_length in L. lia. }
  set (Z := B ++ negb x :: repeat false (S (max_code_len ps))).
  destruct (table_ok_complete ps) with (Z := Z) as (q & Hq & Hp).
  - intros ->. destruct Hin.
  - exact Hok.
  - unfold Z. rewrite app_length. cbn [length]. rewrite repeat_length. lia.
  - assert (Hcq : compatible (p_code q) B = true).
    { apply is_prefix_compatible in Hp. unfold Z in Hp. rewrite compatible_app in Hp.
      apply andb_true_iff in Hp. tauto. }
    assert (I1 : In q [p]) by (rewrite <- Hf; apply filter_In; split; assumption).
    destruct I1 as [<-|[]]. unfold Z in Hp. rewrite Hsplit in Hp.
    rewrite is_prefix_of_app_same in Hp. cbn [is_prefix_of] in Hp.
    destruct x; cbn in Hp; discriminate.
Qed.

Lemma prefix_compatible_zpad : forall c l d, is_prefix_of c l = true ->
  compatible c (zpad d l) = true.
Proof.
  induction c as [|x c IH]; intros l d H; [reflexivity|].
  destruct l as [|y l]; [discriminate|]. destruct d as [|d]; [reflexivity|].
  cbn [is_prefix_of zpad compatible] in *. apply andb_true_iff in H. destruct H as [-> H].
  cbn [andb]. apply IH. exact H.
Qed.

Lemma filter_nil_compat ps : filter (fun q : prefix => compatible (p_code q) []) ps = ps.
Proof.
  induction ps as [|q t IH]; [reflexivity|]. cbn [filter]. rewrite compatible_nil_r, IH. reflexivity.
Qed.

(* the unchecked walk on a stream headed by p's code, with enough bits after it for every
   stride (stride - 1 suffice: a stride of at most [stride] bits starts before the end of the
   code):
   finds p, rewinds to the end of the code, never indexes beyond the stream *)
Lemma usearch_ok ps p s0 : table_ok ps = true -> In p ps ->
  (Nat.min (stride - 1) (max_code_len ps - length (p_code p)) <= length s0)%nat ->
  forall fuel dpt cands,
  cands = filter (fun q => compatible (p_code q) (zpad dpt (p_code p ++ s0))) ps ->
  (dpt <= length (p_code p ++ s0))%nat ->
  (max_code_len cands - dpt <= stride * fuel)%nat ->
  usearch fuel cands dpt (p_code p ++ s0) = Ok (p, s0).
Proof.
  intros Hok Hin Hen. set (full := p_code p ++ s0). pose proof stride_pos as Hs1.
  assert (Hpc : forall d, compatible (p_code p) (zpad d full) = true).
  { intros d. apply prefix_compatible_zpad. unfold full. apply is_prefix_of_app. }
  induction fuel as [|f IH]; intros dpt cands Hc Hd Hfuel.
  - assert (Hpin : In p cands) by (subst cands; apply filter_In; split; [exact Hin|apply Hpc]).
    destruct cands as [|q [|q2 r]]; [destruct Hpin| |].
    + destruct Hpin as [->|[]]. cbn [usearch].
      pose proof (single_depth ps _ p Hok (eq_sym Hc)) as SD. rewrite zpad_length in SD.
      apply Nat.leb_le in SD. rewrite SD. unfold full. rewrite skipn_length_app. reflexivity.
    + exfalso.
      assert (HD : (dpt < length (p_code p))%nat).
      { apply (several_cands_depth p s0 (q :: q2 :: r) dpt Hpin).
        - rewrite Hc. apply pairwise_filter. apply table_ok_pairwise. exact Hok.
        - apply Forall_forall. intros c Hcin. rewrite Hc in Hcin. apply filter_In in Hcin.
          destruct Hcin as [_ Hcc]. fold full. rewrite <- zpad_firstn by exact Hd. exact Hcc.
        - cbn [length]. lia. }
      pose proof (max_code_len_In _ p Hpin). lia.
  - assert (Hpin : In p cands) by (subst cands; apply filter_In; split; [exact Hin|apply Hpc]).
    destruct cands as [|q [|q2 r]]; [destruct Hpin| |].
    + destruct Hpin as [->|[]]. cbn [usearch].
      pose proof (single_depth ps _ p Hok (eq_sym Hc)) as SD. rewrite zpad_length in SD.
      apply Nat.leb_le in SD. rewrite SD. unfold full. rewrite skipn_length_app. reflexivity.
    + cbn [usearch]. set (cands := q :: q2 :: r) in *.
      assert (HD : (dpt < length (p_code p))%nat).
      { apply (several_cands_depth p s0 cands dpt Hpin).
        - rewrite Hc. apply pairwise_filter. apply table_ok_pairwise. exact Hok.
        - apply Forall_forall. intros c Hcin. rewrite Hc in Hcin. apply filter_In in Hcin.
          destruct Hcin as [_ Hcc]. fold full. rewrite <- zpad_firstn by exact Hd. exact Hcc.
        - unfold cands. cbn [length]. lia. }
      pose proof (max_code_len_In _ p Hpin) as HM.
      assert (HMf : (max_code_len cands <= max_code_len ps)%nat)
        by (rewrite Hc; apply max_code_len_filter).
      clearbody cands. cbv zeta.
      assert (Ha : length (skipn dpt full) = (length (p_code p) + length s0 - dpt)%nat).
      { rewrite skipn_length. unfold full. rewrite app_length. reflexivity. }
      set (t := Nat.min stride (max_code_len cands - dpt)) in *.
      assert (Ht : (1 <= t <= length (skipn dpt full))%nat) by lia.
      destruct (Nat.ltb (length (skipn dpt full)) t) eqn:El; [apply Nat.ltb_lt in El; lia|].
      apply IH.
      * rewrite <- (zpad_firstn t (skipn dpt full)) by lia. rewrite Hc. apply cands_step.
      * rewrite Ha in Ht. unfold full. rewrite app_length. lia.
      * pose proof (max_code_len_filter
          (fun p0 => compatible (skipn dpt (p_code p0)) (firstn t (skipn dpt full))) cands). lia.
Qed.

(* BodyL.tsearch_ok with the sharper "stride - 1 bits after the code" *)
Lemma tsearch_ok5 tb p s0 : forall fuel cands dpt,
  In p cands -> pairwise_nonprefix (map p_code cands) ->
  Forall (fun q => compatible (p_code q) (firstn dpt (p_code p ++ s0)) = true) cands ->
  (max_code_len cands - dpt <= stride * fuel)%nat ->
  (Nat.min (stride - 1) (max_code_len cands - length (p_code p)) <= length s0)%nat ->
  tsearch fuel tb cands dpt (skipn dpt (p_code p ++ s0)) = Ok p.
Proof.
  pose proof stride_pos as Hs1.
  induction fuel as [|f IH]; intros cands dpt Hin HP HC Hfuel Hen.
  - destruct cands as [|q [|q2 r]]; [destruct Hin| |].
    + destruct Hin as [->|[]]. reflexivity.
    + pose proof (several_cands_depth p s0 _ dpt Hin HP HC) as Hd. cbn [length] in Hd.
      pose proof (max_code_len_In _ p Hin). lia.
  - destruct cands as [|q [|q2 r]]; [destruct Hin| |].
    + destruct Hin as [->|[]]. reflexivity.
    + cbn [tsearch]. set (cands := q :: q2 :: r) in *.
      assert (Hd : (dpt < length (p_code p))%nat).
      { apply (several_cands_depth p s0 cands dpt Hin HP HC). unfold cands. cbn [length]. lia. }
      pose proof (max_code_len_In _ p Hin) as HM.
      clearbody cands. cbv zeta.
      set (full := p_code p ++ s0) in *.
      assert (Ha : length (skipn dpt full) = (length (p_code p) + length s0 - dpt)%nat).
      { rewrite skipn_length. unfold full. rewrite app_length. reflexivity. }
      set (t := Nat.min stride (max_code_len cands - dpt)) in *.
      assert (Ht : (1 <= t <= length (skipn dpt full))%nat) by lia.
      assert (Ht6 : (t <= stride)%nat) by lia.
      assert (Ha70 : length (firstn (64 + stride) (skipn dpt full))
                     = Nat.min (64 + stride) (length (skipn dpt full)))
        by apply firstn_length.
      set (a := length (firstn (64 + stride) (skipn dpt full))) in *.
      destruct (Nat.eqb a 0) eqn:Ea; [apply Nat.eqb_eq in Ea; lia|].
      set (j := if Nat.ltb a (64 + stride)
                then N.to_nat ((tb - Nlen (skipn dpt full)) mod 64) else O).
      clearbody j.
      assert (Hbr : (if Nat.leb (t + j) 64 then Nat.min t a else t) = t).
      { destruct (Nat.leb (t + j) 64); [lia|reflexivity]. }
      assert (Hchk : negb (Nat.leb (t + j) 64) && negb (Nat.ltb (64 - j) a) = false).
      { destruct (Nat.leb (t + j) 64) eqn:E1; [reflexivity|]. apply Nat.leb_gt in E1.
        cbn [negb andb]. apply negb_false_iff. apply Nat.ltb_lt. lia. }
      rewrite Hchk, Hbr, Nat.eqb_refl.
      rewrite firstn_app_le by (rewrite firstn_length; lia).
      rewrite firstn_firstn, Nat.min_id. rewrite skipn_skipn'.
      apply IH.
      * apply filter_In. split; [exact Hin|].
        apply compatible_firstn. apply compatible_skipn. apply is_prefix_compatible.
        apply is_prefix_of_app.
      * apply pairwise_filter. exact HP.
      * rewrite Forall_forall in *. intros c Hc. apply filter_In in Hc. destruct Hc as [Hc1 Hc2].
        apply compatible_step; [exact (HC c Hc1)|exact Hc2].
      * pose proof (max_code_len_filter
          (fun p0 => compatible (skipn dpt (p_code p0)) (firstn t (skipn dpt full))) cands). lia.
      * pose proof (max_code_len_filter
          (fun p0 => compatible (skipn dpt (p_code p0)) (firstn t (skipn dpt full))) cands). lia.
Qed.

Theorem read_code_at_enough5 : forall tb ps p s,
  table_ok ps = true -> (max_code_len ps <= 40)%nat -> In p ps ->
  (Nat.min (stride - 1) (max_code_len ps - length (p_code p)) <= length s)%nat ->
  read_code_at tb ps (p_code p ++ s) = Ok (p, s).
Proof.
  intros tb ps p s Hok HM Hin Hen. unfold read_code_at.
  pose proof (tsearch_ok5 tb p s 33 ps 0 Hin (table_ok_pairwise ps Hok)) as T.
  cbn [skipn firstn] in T. rewrite T.
  - cbn [bind]. rewrite skipn_length_app.
    replace (Nat.leb (length (p_code p)) (length (firstn 40 (p_code p ++ s)))) with true;
      [reflexivity|].
    symmetry. apply Nat.leb_le. rewrite firstn_length, app_length.
    pose proof (max_code_len_In ps p Hin). lia.
  - apply Forall_forall. intros q _. apply compatible_nil_r.
  - pose proof stride_reach. lia.
  - exact Hen.
Qed.

Theorem u_read_code_enough5 : forall ps p s,
  table_ok ps = true -> (max_code_len ps <= 40)%nat -> In p ps ->
  (Nat.min (stride - 1) (max_code_len ps - length (p_code p)) <= length s)%nat ->
  u_read_code ps (p_code p ++ s) = Ok (p, s).
Proof.
  intros ps p s Hok HM Hin Hen. unfold u_read_code.
  apply (usearch_ok ps p s Hok Hin Hen).
  - cbn [zpad]. symmetry. apply filter_nil_compat.
  - lia.
  - pose proof stride_reach. lia.
Qed.

(* every stream at least as long as the longest code is headed by a code of the table *)
Lemma code_heads ps s : ps <> [] -> table_ok ps = true ->
  (max_code_len ps <= length s)%nat ->
  exists p s0, In p ps /\ s = p_code p ++ s0.
Proof.
  intros Hne Hok Hl.
  destruct (table_ok_complete ps Hne Hok (s ++ repeat false (S (max_code_len ps))))
    as (p & Hin & Hp).
  - rewrite app_length, repeat_length. lia.
  - exists p, (skipn (length (p_code p)) s). split; [exact Hin|].
    apply is_prefix_of_split. apply (is_prefix_of_short _ _ _ Hp).
    pose proof (max_code_len_In ps p Hin). lia.
Qed.


Local Opaque read_code_at read_offset read_varint u_read_code u_read_offset u_read_varint.

(* ================================================================== *)
(* 4. the checked block loop: fuel, and composition                    *)
(* ================================================================== *)
(* every block pushes at least one number, so fuel >= room is as good as any *)
Lemma read_blocks_fuel w tb ps : forall f1 f2 room s,
  (N.to_nat room <= f1)%nat -> (N.to_nat room <= f2)%nat ->
  read_blocks f1 w tb ps room s = read_blocks f2 w tb ps room s.
Proof.
  induction f1 as [|f1 IH]; intros f2 room s H1 H2.
  - assert (room = 0) by lia. subst. rewrite !read_blocks_zero. reflexivity.
  - destruct f2 as [|f2].
    { assert (room = 0) by lia. subst. rewrite !read_blocks_zero. reflexivity. }
    cbn [read_blocks]. destruct (room =? 0) eqn:R0; [reflexivity|]. apply N.eqb_neq in R0.
    destruct (read_code_at tb ps s) as [[p s1]|k|]; try reflexivity.
    destruct (p_jump p) as [j|].
    + destruct (read_varint j s1) as [[v s2]|k|]; try reflexivity. cbv zeta.
      destruct (read_offsets w p (N.to_nat (N.min (v + 1) room)) s2) as [[l s3] st].
      destruct st; try reflexivity.
      destruct (room <? v + 1); [reflexivity|]. rewrite (IH f2) by lia. reflexivity.
    + destruct (read_offsets w p 1 s1) as [[l s2] st]. destruct st; try reflexivity.
      rewrite (IH f2) by lia. reflexivity.
Qed.

(* the checked loop with its canonical fuel *)
Definition rb (w tb : N) (ps : list prefix) (room : N) (s : bits) :=
  read_blocks (N.to_nat room) w tb ps room s.

(* "(l, s1, inc, room1) is what the checked loop does first": the checked loop from
   (room, s) is l followed by the checked loop from (room1, s1) *)
Definition continues (w tb : N) (ps : list prefix) (room : N) (s : bits)
           (l : list N) (s1 : bits) (inc : option (prefix * N)) (room1 : N) : Prop :=
  rb w tb ps room s =
  let '(l', s3, inc', st) := rb w tb ps room1 s1 in (l ++ l', s3, inc_merge inc' inc, st).

Lemma inc_merge_None_r i : inc_merge i None = i.
Proof. destruct i; reflexivity. Qed.

Lemma inc_merge_assoc a b c : inc_merge (inc_merge a b) c = inc_merge a (inc_merge b c).
Proof. destruct a; reflexivity. Qed.

Lemma continues_refl w tb ps room s : continues w tb ps room s [] s None room.
Proof.
  unfold continues. destruct (rb w tb ps room s) as [[[l' s3] inc'] st].
  rewrite inc_merge_None_r. reflexivity.
Qed.

Lemma continues_trans w tb ps room s l s1 inc room1 l' s2 inc' room2 :
  continues w tb ps room s l s1 inc room1 ->
  continues w tb ps room1 s1 l' s2 inc' room2 ->
  continues w tb ps room s (l ++ l') s2 (inc_merge inc' inc) room2.
Proof.
  unfold continues. intros H1 H2. rewrite H1, H2.
  destruct (rb w tb ps room2 s2) as [[[l3 s3] inc3] st].
  rewrite app_assoc, inc_merge_assoc. reflexivity.
Qed.

(* ================================================================== *)
(* 5. one block under the guard (B)                                    *)
(* ================================================================== *)
(* the table as NumDecompressor::new accepts it, as chunk metadata parsing delivers it *)
Definition fast_prefix (w phys : N) (p : prefix) : Prop :=
  sane_prefix w p /\ quirk_ok w phys p /\ (forall j, p_jump p = Some j -> j <= 48).
Definition fast_table (w phys : N) (ps : list prefix) : Prop :=
  table_ok ps = true /\ (max_code_len ps <= 40)%nat /\ Forall (fast_prefix w phys) ps.

Lemma guard_code w ps mb mo s :
  table_ok ps = true -> (max_code_len ps <= 40)%nat ->
  max_bits_block w ps = Some mb -> max_overshoot ps = Some mo -> mb + mo <= Nlen s ->
  exists p s0, In p ps /\ s = p_code p ++ s0 /\
    (Nat.min (stride - 1) (max_code_len ps - length (p_code p)) <= length s0)%nat.
Proof.
  intros Hok HM Hmb Hmo Hg.
  assert (Hne : ps <> []).
  { intros ->. discriminate Hmb. }
  assert (Hlen : (max_code_len ps <= length s)%nat).
  { apply max_code_len_bound. apply Forall_forall. intros q Hq.
    pose proof (max_bits_block_In w ps mb q Hmb Hq) as B. unfold max_bits_read in B.
    unfold Nlen in *. destruct (p_jump q); lia. }
  destruct (code_heads ps s Hne Hok Hlen) as (p & s0 & Hin & Hs).
  exists p, s0. split; [exact Hin|]. split; [exact Hs|].
  pose proof (max_bits_block_In w ps mb p Hmb Hin) as B.
  pose proof (max_overshoot_In ps mo p Hmo Hin) as O.
  assert (Ls : length s = (length (p_code p) + length s0)%nat) by (rewrite Hs at 1; apply app_length).
  unfold max_bits_read, max_bits_overshot, max_bits_per_offset in *.
  rewrite <- stride_of_nat in O.
  change Consts.MAX_ENTRIES with 16777215 in B.
  change Consts.BITS_TO_ENCODE_N_ENTRIES with 24 in B.
  unfold Nlen in *.
  destruct (p_code p) as [|c0 cr] eqn:Ec; cbn [is_nil length] in *; [lia|].
  destruct (p_jump p); destruct (only_k_bits_lower p =? 0); lia.
Qed.

Theorem unchecked_eq_checked w phys tb ps mb mo room s pad :
  fast_table w phys ps ->
  max_bits_block w ps = Some mb -> max_overshoot ps = Some mo ->
  mb + mo <= Nlen s -> 0 < room <= Consts.MAX_ENTRIES ->
  exists l s1 inc,
    u_read_block w phys ps room (s ++ pad) = Ok (l, s1 ++ pad, inc, room - Nlen l)
    /\ Nlen s <= Nlen s1 + mb
    /\ 0 < Nlen l <= room
    /\ (forall f, read_blocks (S f) w tb ps room s =
          let '(l', s3, inc', st) := read_blocks f w tb ps (room - Nlen l) s1 in
          (l ++ l', s3, inc_merge inc' inc, st)).
Proof.
  intros (Hok & HM & HF) Hmb Hmo Hg Hroom.
  destruct (guard_code w ps mb mo s Hok HM Hmb Hmo Hg) as (p & s0 & Hin & Hs & Hen).
  rewrite Forall_forall in HF. destruct (HF p Hin) as (Sp & Qp & Jp).
  pose proof (max_bits_block_In w ps mb p Hmb Hin) as B.
  assert (Ls : Nlen s = Nlen (p_code p) + Nlen s0) by (rewrite Hs at 1; apply Nlen_app).
  assert (RC : read_code_at tb ps s = Ok (p, s0)).
  { rewrite Hs. apply read_code_at_enough5; assumption. }
  assert (UC : u_read_code ps (s ++ pad) = Ok (p, s0 ++ pad)).
  { rewrite Hs, <- app_assoc. apply u_read_code_enough5; try assumption.
    rewrite app_length. lia. }
  assert (R0 : (room =? 0) = false) by (apply N.eqb_neq; lia).
  unfold u_read_block. rewrite UC. cbn [bind].
  unfold max_bits_read in B. change Consts.MAX_ENTRIES with 16777215 in *.
  change Consts.BITS_TO_ENCODE_N_ENTRIES with 24 in B.
  destruct (p_jump p) as [j|] eqn:Ej.
  - (* a run *)
    specialize (Jp j eq_refl).
    destruct (read_varint_cases j s0 Jp) as [(v & s2 & RV & Lv)|(RV & Lv)]; [|lia].
    set (reps := N.min (v + 1) room).
    set (bpo := max_bits_per_offset p) in *.
    assert (Hmul : reps * bpo <= 16777215 * bpo) by (apply N.mul_le_mono_r; unfold reps; lia).
    destruct (read_offsets_enough w p Sp (N.to_nat reps) s2) as (l & s3 & RO & Lo & Ln).
    { rewrite N2Nat.id. fold bpo. lia. }
    rewrite N2Nat.id in Lo, Ln. fold bpo in Lo.
    rewrite (u_varint_lift pad _ _ _ _ RV). cbn [bind]. cbv zeta. fold reps.
    rewrite (u_read_offsets_lift w phys p pad Sp Qp reps s2 l s3 RO). cbn [bind].
    exists l, s3, (if room <? v + 1 then Some (p, v + 1 - room) else None).
    split; [reflexivity|]. split; [lia|]. split; [unfold reps in Ln; lia|].
    intros f. cbn [read_blocks]. rewrite R0, RC, Ej, RV. cbv zeta. fold reps. rewrite RO.
    destruct (room <? v + 1) eqn:RF.
    + apply N.ltb_lt in RF. replace (room - Nlen l) with 0 by (unfold reps in Ln; lia).
      rewrite read_blocks_zero. rewrite app_nil_r. reflexivity.
    + rewrite Ln. destruct (read_blocks f w tb ps (room - reps) s3) as [[[l' s4] inc'] st].
      rewrite inc_merge_None_r. reflexivity.
  - (* a single number *)
    set (bpo := max_bits_per_offset p) in *.
    destruct (read_offset_cases w p s0 Sp) as [(x & s1 & RO1 & Lo)|(RO1 & Lo)]; [|fold bpo in Lo; lia].
    fold bpo in Lo.
    assert (RO : read_offsets w p 1 s0 = ([x], s1, SOk)).
    { cbn [read_offsets]. rewrite RO1. reflexivity. }
    rewrite (u_read_offsets_lift w phys p pad Sp Qp 1 s0 [x] s1 RO). cbn [bind].
    exists [x], s1, None. split; [reflexivity|]. split; [lia|].
    change (Nlen [x]) with 1. split; [lia|].
    intros f. cbn [read_blocks]. rewrite R0, RC, Ej, RO.
    destruct (read_blocks f w tb ps (room - 1) s1) as [[[l' s3] inc'] st].
    rewrite inc_merge_None_r. reflexivity.
Qed.

Corollary block_continues w phys tb ps mb mo room s pad :
  fast_table w phys ps ->
  max_bits_block w ps = Some mb -> max_overshoot ps = Some mo ->
  mb + mo <= Nlen s -> 0 < room <= Consts.MAX_ENTRIES ->
  exists l s1 inc room1,
    u_read_block w phys ps room (s ++ pad) = Ok (l, s1 ++ pad, inc, room1)
    /\ Nlen s <= Nlen s1 + mb /\ room1 < room
    /\ continues w tb ps room s l s1 inc room1.
Proof.
  intros HT Hmb Hmo Hg Hroom.
  destruct (unchecked_eq_checked w phys tb ps mb mo room s pad HT Hmb Hmo Hg Hroom)
    as (l & s1 & inc & HU & HL & Hn & HC).
  exists l, s1, inc, (room - Nlen l). split; [exact HU|]. split; [exact HL|]. split; [lia|].
  unfold continues, rb.
  assert (E : N.to_nat room = S (N.to_nat room - 1)) by lia. rewrite E, HC.
  rewrite (read_blocks_fuel w tb ps (N.to_nat room - 1) (N.to_nat (room - Nlen l))) by lia.
  reflexivity.
Qed.


Local Transparent read_code_at read_offset read_varint u_read_code u_read_offset u_read_varint.

(* ================================================================== *)
(* 6. m blocks under the guard touch only real bits (A, loop form)     *)
(* ================================================================== *)
(* If at least m * max_bits_block + max_overshoot real bits remain, m unchecked blocks
   run without Panic, return what the checked loop returns, consume at most
   m * max_bits_block real bits, and their result does not depend on what follows the real
   bits ([pad] arbitrary, [] included): neither the reads nor the table look-ahead (a full
   stride of up to [stride] bits, then a rewind) ever reach beyond the real bits. *)
Theorem u_blocks_within w phys tb ps mb mo pad :
  fast_table w phys ps -> max_bits_block w ps = Some mb -> max_overshoot ps = Some mo ->
  forall m room s,
  N.of_nat m * mb + mo <= Nlen s -> room <= Consts.MAX_ENTRIES ->
  exists l s1 inc room1,
    u_blocks m w phys ps room (s ++ pad) = Ok (l, s1 ++ pad, inc, room1)
    /\ Nlen s <= Nlen s1 + N.of_nat m * mb
    /\ room1 <= room /\ ((0 < m)%nat -> 0 < room -> room1 < room)
    /\ continues w tb ps room s l s1 inc room1.
Proof.
  intros HT Hmb Hmo. induction m as [|m IH]; intros room s Hg Hroom.
  - exists [], s, None, room. split; [reflexivity|]. split; [lia|]. split; [lia|].
    split; [lia|]. apply continues_refl.
  - cbn [u_blocks]. destruct (room =? 0) eqn:R0.
    + exists [], s, None, room. split; [reflexivity|]. split; [lia|]. split; [lia|].
      apply N.eqb_eq in R0. split; [lia|]. apply continues_refl.
    + apply N.eqb_neq in R0. rewrite Nat2N.inj_succ, N.mul_succ_l in *.
      destruct (block_continues w phys tb ps mb mo room s pad HT Hmb Hmo)
        as (l & s1 & inc & room1 & HU & HL & Hr & HC); [lia|lia|].
      destruct (IH room1 s1) as (l' & s2 & inc' & room2 & HU2 & HL2 & Hr2 & _ & HC2); [lia|lia|].
      rewrite HU. cbn [bind]. rewrite HU2. cbn [bind].
      exists (l ++ l'), s2, (inc_merge inc' inc), room2.
      split; [reflexivity|]. split; [lia|]. split; [lia|]. split; [lia|].
      eapply continues_trans; eassumption.
Qed.

(* ================================================================== *)
(* 7. the guarded loop, the constant case, the batch (C)               *)
(* ================================================================== *)
Lemma ustrip_upad tb s : ustrip tb (s ++ repeat false (N.to_nat (pad_of tb))) = Ok s.
Proof.
  unfold ustrip. cbv zeta. rewrite app_length, repeat_length.
  replace (Nat.leb (N.to_nat (pad_of tb)) (length s + N.to_nat (pad_of tb))) with true
    by (symmetry; apply Nat.leb_le; lia).
  replace (length s + N.to_nat (pad_of tb) - N.to_nat (pad_of tb))%nat with (length s) by lia.
  rewrite firstn_app_le by lia. rewrite firstn_all. reflexivity.
Qed.

(* the guard as the Rust computes it yields a sound bit budget *)
Lemma safe_blocks_budget mb mo room n safe :
  0 < mb -> safe = safe_blocks mb mo room n -> 0 < safe ->
  safe * mb + mo <= n /\ safe <= room.
Proof.
  intros Hmb -> Hs. unfold safe_blocks in *.
  set (q := (n - mo) / mb) in *.
  assert (Hq : mb * q <= n - mo) by (apply N.mul_div_le; lia).
  assert (Hm : N.min room q * mb <= q * mb) by (apply N.mul_le_mono_r; lia).
  split; [|lia].
  assert (0 < q) by lia.
  assert (mb * 1 <= mb * q) by (apply N.mul_le_mono_l; lia).
  lia.
Qed.

Lemma fast_loop_ok w phys tb ps mb mo :
  fast_table w phys ps -> max_bits_block w ps = Some mb -> max_overshoot ps = Some mo ->
  0 < mb -> forall fuel room s, room <= Consts.MAX_ENTRIES ->
  exists l s1 inc room1,
    fast_loop fuel w phys tb ps mb mo room s = Ok (l, s1, inc, room1)
    /\ room1 <= room /\ continues w tb ps room s l s1 inc room1.
Proof.
  intros HT Hmb Hmo Hpos. induction fuel as [|f IH]; intros room s Hroom.
  - exists [], s, None, room. split; [reflexivity|]. split; [lia|]. apply continues_refl.
  - cbn [fast_loop]. cbv zeta.
    destruct (Consts.UNCHECKED_NUM_THRESHOLD <=? safe_blocks mb mo room (Nlen s)) eqn:E.
    + apply N.leb_le in E.
      assert (Hthr : 1 <= Consts.UNCHECKED_NUM_THRESHOLD) by (apply N.leb_le; vm_compute; reflexivity).
      destruct (safe_blocks_budget mb mo room (Nlen s) _ Hpos eq_refl) as [Hb Hsr]; [lia|].
      set (safe := safe_blocks mb mo room (Nlen s)) in *. clearbody safe.
      destruct (u_blocks_within w phys tb ps mb mo (repeat false (N.to_nat (pad_of tb)))
                  HT Hmb Hmo (N.to_nat safe) room s)
        as (l & s1 & inc & room1 & HU & HL & Hr & _ & HC); [rewrite N2Nat.id; lia|lia|].
      unfold upad. rewrite HU. cbn [bind]. rewrite ustrip_upad. cbn [bind].
      destruct (IH room1 s1) as (l' & s2 & inc' & room2 & HF & Hr2 & HC2); [lia|].
      rewrite HF. cbn [bind].
      exists (l ++ l'), s2, (inc_merge inc' inc), room2.
      split; [reflexivity|]. split; [lia|]. eapply continues_trans; eassumption.
    + exists [], s, None, room. split; [reflexivity|]. split; [lia|]. apply continues_refl.
Qed.

(* ---------------- max_bits_per_num_block = 0 ---------------- *)
Lemma mb0_table w ps : table_ok ps = true -> max_bits_block w ps = Some 0 ->
  exists p, ps = [p] /\ p_code p = [] /\ p_jump p = None /\ p_k p = 0.
Proof.
  intros Hok Hmb.
  assert (Hall : forall q, In q ps -> p_code q = [] /\ p_jump q = None /\ p_k q = 0).
  { intros q Hq. pose proof (max_bits_block_In w ps 0 q Hmb Hq) as B.
    unfold max_bits_read, max_bits_per_offset in B.
    change Consts.MAX_ENTRIES with 16777215 in B.
    change Consts.BITS_TO_ENCODE_N_ENTRIES with 24 in B.
    destruct (p_jump q); [lia|].
    destruct (p_code q) as [|c0 cr]; [|rewrite Nlen_cons in B; lia].
    split; [reflexivity|]. split; [reflexivity|].
    destruct (only_k_bits_lower q =? 0); lia. }
  destruct ps as [|p [|q t]]; [discriminate| |].
  - exists p. split; [reflexivity|]. apply Hall. left. reflexivity.
  - exfalso. destruct (Hall p) as (Ep & _); [left; reflexivity|].
    destruct (Hall q) as (Eq & _); [right; left; reflexivity|].
    unfold table_ok in Hok. cbn [map] in Hok. rewrite Ep, Eq in Hok.
    cbn [tree_ok existsb is_nil orb negb andb] in Hok. discriminate.
Qed.

Lemma u_read_code_single p u : p_code p = [] -> u_read_code [p] u = Ok (p, u).
Proof. intros Hc. unfold u_read_code. cbn [usearch]. rewrite Hc. reflexivity. Qed.

Lemma read_code_at_single tb p s : p_code p = [] -> read_code_at tb [p] s = Ok (p, s).
Proof.
  intros Hc. unfold read_code_at. rewrite tsearch_single. cbn [bind]. rewrite Hc. reflexivity.
Qed.

Lemma read_blocks_const w tb p s : sane_prefix w p ->
  p_code p = [] -> p_jump p = None -> p_k p = 0 -> forall n room, room = N.of_nat n ->
  read_blocks n w tb [p] room s = (repeat (p_lower p) n, s, None, SOk).
Proof.
  intros Sp Hc Hj Hk. induction n as [|n IH]; intros room ->; [reflexivity|].
  cbn [read_blocks].
  replace (N.of_nat (S n) =? 0) with false by (symmetry; apply N.eqb_neq; lia).
  rewrite (read_code_at_single tb p s Hc), Hj.
  rewrite (read_offsets_k0 w p Sp Hk 1 s).
  rewrite (IH (N.of_nat (S n) - 1)) by lia. reflexivity.
Qed.

Theorem fast_blocks_eq w phys tb ps room s :
  fast_table w phys ps -> room <= Consts.MAX_ENTRIES ->
  fast_blocks w phys tb ps room s = read_blocks (N.to_nat room) w tb ps room s.
Proof.
  intros HT Hroom. unfold fast_blocks.
  destruct (max_bits_block w ps) as [mb|] eqn:Hmb; [|reflexivity].
  destruct mb as [|mbp].
  - (* the constant case *)
    destruct HT as (Hok & HM & HF).
    destruct (mb0_table w ps Hok Hmb) as (p & -> & Hc & Hj & Hk).
    inversion HF as [|? ? (Sp & Qp & _) _]; subst.
    unfold u_read_block, upad. rewrite (u_read_code_single p _ Hc). cbn [bind]. rewrite Hj.
    rewrite (u_read_offsets_lift w phys p _ Sp Qp 1 s [p_lower p] s
               (read_offsets_k0 w p Sp Hk 1 s)).
    cbn [bind]. rewrite ustrip_upad. cbn [bind].
    rewrite (read_blocks_const w tb p s Sp Hc Hj Hk (N.to_nat room) room) by lia.
    reflexivity.
  - destruct (max_overshoot ps) as [mo|] eqn:Hmo; [|reflexivity].
    destruct (fast_loop_ok w phys tb ps (N.pos mbp) mo HT Hmb Hmo ltac:(lia)
                (S (N.to_nat room)) room s Hroom) as (l & s1 & inc & room1 & HF & _ & HC).
    rewrite HF. unfold continues, rb in HC. rewrite HC. reflexivity.
Qed.

(* C.  One call of decompress_unsigneds_limited_dirty with the unchecked fast path equals
   the checked-only semantics, for EVERY stream s (hostile bits included), every reader
   state [inc], limit and eoi.  Hypotheses: the table is what NumDecompressor::new
   accepts from parsed metadata ([fast_table]) and n - n_processed <= MAX_ENTRIES (n is a
   24-bit field). *)
Theorem fast_batch_eq w phys tb ps n_left inc limit eoi s :
  fast_table w phys ps -> n_left <= Consts.MAX_ENTRIES ->
  fast_batch w phys tb ps n_left inc limit eoi s = read_batch w tb ps n_left inc limit eoi s.
Proof.
  intros HT Hn. unfold fast_batch, read_batch. cbv zeta.
  destruct (N.min n_left limit =? 0); [reflexivity|].
  destruct inc as [[p rem]|].
  - destruct (read_offsets w p (N.to_nat (N.min rem (N.min n_left limit))) s) as [[l s1] st].
    destruct st; try reflexivity.
    rewrite (fast_blocks_eq w phys tb ps _ s1 HT) by lia. reflexivity.
  - rewrite (fast_blocks_eq w phys tb ps _ s HT) by lia. reflexivity.
Qed.

Corollary fast_batch_no_panic w phys tb ps n_left inc limit eoi s :
  fast_table w phys ps -> n_left <= Consts.MAX_ENTRIES -> sane_inc w inc ->
  b_status (fast_batch w phys tb ps n_left inc limit eoi s) <> SPanic.
Proof.
  intros HT Hn Hi. rewrite fast_batch_eq by assumption.
  destruct HT as (Hok & _ & HF).
  apply (read_batch_facts w tb ps n_left inc limit eoi s); try assumption.
  eapply Forall_impl; [|exact HF]. intros a (Sa & _). exact Sa.
Qed.


(* ================================================================== *)
(* 8. A, per prefix: max_bits_read bounds what a block consumes        *)
(* ================================================================== *)
(* On any stream, a block of prefix p decoded with checked reads consumes at most
   max_bits_read w p bits: code + offset for a plain prefix; code + varint (<= 48) +
   reps offsets for a run, for any number of repetitions up to MAX_ENTRIES (the batch
   limit: reps <= batch_size <= n <= MAX_ENTRIES) and however the run ends. *)
Theorem max_bits_read_sound w tb ps p s s1 :
  table_ok ps = true -> sane_prefix w p -> (forall j, p_jump p = Some j -> j <= 48) ->
  read_code_at tb ps s = Ok (p, s1) ->
  match p_jump p with
  | None => forall x s2, read_offset w p s1 = Ok (x, s2) ->
            Nlen s <= Nlen s2 + max_bits_read w p
  | Some j => forall v s2 n l s3 st,
            read_varint j s1 = Ok (v, s2) -> read_offsets w p n s2 = (l, s3, st) ->
            N.of_nat n <= Consts.MAX_ENTRIES ->
            Nlen s <= Nlen s3 + max_bits_read w p
  end.
Proof.
  intros Hok Sp Jp RC.
  destruct (read_code_at_sound _ _ _ _ _ Hok RC) as (_ & Hp & Hs1).
  assert (Ls : Nlen s = Nlen (p_code p) + Nlen s1).
  { rewrite (is_prefix_of_split _ _ Hp) at 1. rewrite Nlen_app, <- Hs1. reflexivity. }
  unfold max_bits_read. change Consts.MAX_ENTRIES with 16777215.
  change Consts.BITS_TO_ENCODE_N_ENTRIES with 24.
  destruct (p_jump p) as [j|].
  - intros v s2 n l s3 st RV RO Hn. specialize (Jp j eq_refl).
    destruct (read_varint_cases j s1 Jp) as [(v' & s2' & E & Lv)|(E & _)]; rewrite E in RV;
      [|discriminate].
    inversion RV; subst v' s2'.
    pose proof (read_offsets_consumed w p Sp _ _ _ _ _ RO) as Lo.
    assert (N.of_nat n * max_bits_per_offset p <= 16777215 * max_bits_per_offset p)
      by (apply N.mul_le_mono_r; exact Hn).
    lia.
  - intros x s2 RO.
    destruct (read_offset_cases w p s1 Sp) as [(x' & s2' & E & Lo)|(E & _)]; rewrite E in RO;
      [|discriminate].
    inversion RO; subst x' s2'. lia.
Qed.

(* a run prefix holding a single value: the block is code + varint, at most code + 48 *)
Lemma max_bits_read_run_single w p j :
  p_jump p = Some j -> max_bits_per_offset p = 0 -> max_bits_read w p = Nlen (p_code p) + 48.
Proof.
  intros Hj H0. unfold max_bits_read. rewrite Hj, H0.
  change Consts.MAX_ENTRIES with 16777215. change Consts.BITS_TO_ENCODE_N_ENTRIES with 24. lia.
Qed.

(* ...and any other run prefix makes the bound at least 2^24 - 1: "effectively infinite" *)
Lemma max_bits_read_run_wide w p j :
  p_jump p = Some j -> max_bits_per_offset p <> 0 -> Consts.MAX_ENTRIES <= max_bits_read w p.
Proof.
  intros Hj H0. unfold max_bits_read. rewrite Hj.
  change Consts.MAX_ENTRIES with 16777215. lia.
Qed.

(* quirk_ok holds outright whenever PHYSICAL_BITS >= U::BITS (every type but the 96-bit
   timestamps), and for 96-bit timestamps whenever the range is below 2^96 - 1 *)
Lemma quirk_ok_phys w phys p : w <= phys -> quirk_ok w phys p.
Proof. unfold quirk_ok. lia. Qed.

Lemma quirk_ok_range w phys p :
  p_gcd p >= 1 -> p_upper p - p_lower p + 1 < 2 ^ phys -> quirk_ok w phys p.
Proof.
  intros Hg Hr _ Hk. unfold p_k in Hk.
  pose proof (k_spec (p_range p)) as K. rewrite Hk in K.
  assert (p_range p <= p_upper p - p_lower p).
  { unfold p_range. apply N.div_le_upper_bound; [lia|].
    set (d := p_upper p - p_lower p). set (g := p_gcd p) in *. clearbody d g. nia. }
  lia.
Qed.

(* ================================================================== *)
(* 9. the hypothesis quirk_ok is necessary: PHYSICAL_BITS = 96 < U::BITS = 128, k = 96 *)
(* ================================================================== *)
Fixpoint prbits (n : nat) (x : N) : bits :=
  match n with
  | O => []
  | S m => N.odd (x / 8) :: prbits m ((x * 1103515245 + 12345) mod 2147483648)
  end.

(* (a) range 2^96: the unchecked path always reads (and drops) the extra bit — numbers and
   position differ from the checked semantics.  60 numbers, 6000 real bits. *)
Example quirk_changes_result :
  let p := mkPrefix 60 0 (2 ^ 96) [] None 1 in
  let s := prbits (N.to_nat 6000) 42 in
  sane_prefix 128 p /\ table_ok [p] = true /\
  max_bits_block 128 [p] = Some 97 /\ max_overshoot [p] = Some 0 /\
  b_status (read_batch 128 6000 [p] 60 None 60 true s) = SOk /\
  b_status (fast_batch 128 96 6000 [p] 60 None 60 true s) = SOk /\
  list_eqb N.eqb (b_nums (fast_batch 128 96 6000 [p] 60 None 60 true s))
                 (b_nums (read_batch 128 6000 [p] 60 None 60 true s)) = false /\
  (* with PHYSICAL_BITS = U::BITS the same table and stream agree *)
  fast_batch 128 128 6000 [p] 60 None 60 true s = read_batch 128 6000 [p] 60 None 60 true s.
Proof.
  cbv zeta. split; [unfold sane_prefix; cbn [p_gcd p_lower p_upper]; unfold umax, pow2; lia|].
  repeat split; vm_compute; reflexivity.
Qed.

(* (b) range 2^96 - 1: max_bits_read says 96 bits per block but the unchecked path reads
   97; with exactly 30 * 96 bits held (45 whole words, no padding) the guard allows 30
   unchecked blocks and the 30th indexes past the last word: Panic, where the checked
   semantics returns 30 numbers. *)
Example quirk_breaks_guard :
  let p := mkPrefix 30 0 (2 ^ 96 - 1) [] None 1 in
  let s := prbits (N.to_nat 2880) 7 in
  sane_prefix 128 p /\ table_ok [p] = true /\
  max_bits_block 128 [p] = Some 96 /\ max_overshoot [p] = Some 0 /\
  b_status (read_batch 128 2880 [p] 30 None 30 true s) = SOk /\
  Nlen (b_nums (read_batch 128 2880 [p] 30 None 30 true s)) = 30 /\
  b_status (fast_batch 128 96 2880 [p] 30 None 30 true s) = SPanic.
Proof.
  cbv zeta. split; [unfold sane_prefix; cbn [p_gcd p_lower p_upper]; unfold umax, pow2; lia|].
  repeat split; vm_compute; reflexivity.
Qed.


(* ================================================================== *)
(* 10. tables parsed from chunk metadata satisfy fast_table             *)
(* ================================================================== *)
(* 96-bit timestamps: from_bytes validates the documented range, so the unsigned images
   of parsed bounds lie within 2^127 +- 2^93 and k <= 94 < 96 = PHYSICAL_BITS *)
Lemma to_u_ts96 d x : kind d = KTs96 -> valid d x = true ->
  2 ^ 127 - 2 ^ 93 <= to_u d x < 2 ^ 127 + 2 ^ 93.
Proof. destruct d; try discriminate; intros _; unfold_dt; intros H; lia. Qed.

Lemma read_unum_ts96 pd s u s' : kind pd = KTs96 -> read_unum pd s = Ok (u, s') ->
  2 ^ 127 - 2 ^ 93 <= u < 2 ^ 127 + 2 ^ 93.
Proof.
  intros K H. unfold read_unum, read_num in H.
  destruct (get_bits (phys pd) s) as [[bl s1]|k|]; cbn [bind] in H; try discriminate.
  destruct (of_bytes pd (bits_to_bytes bl)) as [x|k|] eqn:O; cbn [bind] in H; try discriminate.
  inversion H; subst u s'; clear H. apply to_u_ts96; [exact K|].
  unfold of_bytes in O. cbv zeta in O. rewrite K in O.
  destruct (valid pd _) eqn:V; [|discriminate]. inversion O; subst. exact V.
Qed.

Definition parsed_prefix (pd : dtype) (p : prefix) : Prop :=
  (length (p_code p) <= 31)%nat /\ (forall j, p_jump p = Some j -> j < 32) /\
  (kind pd = KTs96 -> 2 ^ 127 - 2 ^ 93 <= p_lower p /\ p_upper p < 2 ^ 127 + 2 ^ 93).

Lemma read_prefix_list_parsed f pd n common :
  forall cnt s ps r, read_prefix_list f pd n common cnt s = Ok (ps, r) ->
  Forall (parsed_prefix pd) ps.
Proof.
  induction cnt as [|c IH]; intros s ps r H; cbn [read_prefix_list] in H.
  - inversion H. constructor.
  - destruct (get (count_bits f n) s) as [[count s1]|k|]; cbn [bind] in H; try discriminate.
    destruct (read_unum pd s1) as [[lo s2]|k|] eqn:Elo; cbn [bind] in H; try discriminate.
    destruct (read_unum pd s2) as [[up s3]|k|] eqn:Eup; cbn [bind] in H; try discriminate.
    destruct (up <? lo) eqn:Elu; [discriminate|].
    destruct (get (code_len_bits f) s3) as [[cl s4]|k|] eqn:Ecl; cbn [bind] in H; try discriminate.
    destruct (get_bits cl s4) as [[code s5]|k|] eqn:Ecode; cbn [bind] in H; try discriminate.
    destruct (get1 s5) as [[hasj s6]|k|]; cbn [bind] in H; try discriminate.
    match type of H with bind ?j _ = _ => destruct j as [[jump s7]|k|] eqn:Ej end;
      cbn [bind] in H; try discriminate.
    match type of H with bind ?j _ = _ => destruct j as [[g s8]|k|] end;
      cbn [bind] in H; try discriminate.
    destruct (read_prefix_list f pd n common c s8) as [[rest s9]|k|] eqn:Er;
      cbn [bind] in H; try discriminate.
    inversion H; subst ps r; clear H. constructor; [|eapply IH; exact Er].
    unfold parsed_prefix. cbn [p_code p_jump p_lower p_upper].
    split; [|split].
    + apply get_lt in Ecl. apply get_bits_taken in Ecode.
      assert (2 ^ code_len_bits f <= 32).
      { unfold code_len_bits. destruct (f5 f); vm_compute; discriminate. }
      unfold Nlen in Ecode. lia.
    + intros j0 E. subst jump. destruct hasj; [|discriminate].
      destruct (get Consts.BITS_TO_ENCODE_JUMPSTART s6) as [[j1 s7']|k|] eqn:G;
        cbn [bind] in Ej; try discriminate.
      inversion Ej; subst. apply get_lt in G. exact G.
    + intros K. pose proof (read_unum_ts96 _ _ _ _ K Elo). pose proof (read_unum_ts96 _ _ _ _ K Eup).
      lia.
Qed.

Lemma parse_meta_parsed f d s m r :
  parse_meta f d s = Ok (m, r) -> Forall (parsed_prefix (pdt f d)) (m_table m) /\ m_n m < 2 ^ 24.
Proof.
  unfold parse_meta. intros H.
  destruct (get Consts.BITS_TO_ENCODE_N_ENTRIES s) as [[n s1]|k|] eqn:En; cbn [bind] in H;
    try discriminate.
  destruct (get Consts.BITS_TO_ENCODE_COMPRESSED_BODY_SIZE s1) as [[body s2]|k|];
    cbn [bind] in H; try discriminate.
  match type of H with bind ?j _ = _ => destruct j as [[mo s3]|k|] end;
    cbn [bind] in H; try discriminate.
  destruct (read_prefixes f (pdt f d) n s3) as [[ps s4]|k|] eqn:E; cbn [bind] in H;
    try discriminate.
  destruct (drain_pad s4) as [s5|k|]; cbn [bind] in H; try discriminate.
  inversion H; subst. cbn [m_table m_n]. split; [|apply get_lt in En; exact En].
  unfold read_prefixes in E.
  destruct (get Consts.BITS_TO_ENCODE_N_PREFIXES s3) as [[np s1']|k|]; cbn [bind] in E;
    try discriminate.
  match type of E with bind ?j _ = _ => destruct j as [[common s2']|k|] end;
    cbn [bind] in E; try discriminate.
  eapply read_prefix_list_parsed. exact E.
Qed.

Lemma ts96_phys pd : kind pd = KTs96 -> ubits pd = 128 /\ phys pd = 96.
Proof. destruct pd; try discriminate; intros _; split; reflexivity. Qed.

Lemma not_ts96_phys pd : kind pd <> KTs96 -> ubits pd <= phys pd.
Proof. destruct pd; intros K; try (exfalso; apply K; reflexivity); vm_compute; discriminate. Qed.

(* Everything fast_batch_eq asks for holds for a chunk decompressor built from parsed
   metadata: in particular k = PHYSICAL_BITS < U::BITS is NOT reachable from a file. *)
Theorem parsed_chunk_fast f d s m r c :
  parse_meta f d s = Ok (m, r) -> new_cbd f m = Ok c ->
  fast_table (ubits (pdt f d)) (phys (pdt f d)) (c_table c) /\ c_n c <= Consts.MAX_ENTRIES.
Proof.
  intros PM NC.
  pose proof (parse_meta_sane f d s m r PM) as HS.
  destruct (parse_meta_parsed f d s m r PM) as [HP Hn].
  pose proof (new_cbd_table_ok f m c NC) as Hok.
  assert (Et : c_table c = m_table m /\ c_n c = m_n m - ford f).
  { unfold new_cbd in NC. cbv zeta in NC.
    destruct (is_nil (m_table m) && _); [discriminate|].
    destruct (negb _); [discriminate|]. inversion NC; subst. split; reflexivity. }
  destruct Et as [Et En]. rewrite Et in *. rewrite En.
  split; [|change Consts.MAX_ENTRIES with 16777215; change (2 ^ 24) with 16777216 in Hn; lia].
  set (pd := pdt f d) in *.
  split; [exact Hok|]. split.
  - assert (max_code_len (m_table m) <= 31)%nat; [|lia].
    apply max_code_len_bound. eapply Forall_impl; [|exact HP]. intros p (H & _). exact H.
  - rewrite Forall_forall in *. intros p Hin.
    specialize (HS p Hin). destruct (HP p Hin) as (_ & Hj & Hts).
    split; [exact HS|]. split; [|intros j E; specialize (Hj j E); lia].
    destruct HS as (Hg & Hlu & _).
    destruct (kind pd) eqn:K;
      try (apply quirk_ok_phys; apply not_ts96_phys; rewrite K; discriminate).
    destruct (ts96_phys pd K) as [_ ->]. destruct (Hts eq_refl) as [Hl Hu].
    apply quirk_ok_range; [exact Hg|].
    change (2 ^ 96) with 79228162514264337593543950336.
    change (2 ^ 127) with 170141183460469231731687303715884105728 in *.
    change (2 ^ 93) with 9903520314283042199192993792 in *. lia.
Qed.

(* hence: on every chunk whose metadata parsed, whatever bytes follow, the batch decoder
   with the unchecked fast path IS the checked batch decoder *)
Corollary parsed_chunk_fast_batch_eq f d s0 m r c :
  parse_meta f d s0 = Ok (m, r) -> new_cbd f m = Ok c ->
  forall tb nproc inc limit eoi s,
  fast_batch (ubits (pdt f d)) (phys (pdt f d)) tb (c_table c) (c_n c - nproc) inc limit eoi s
  = read_batch (ubits (pdt f d)) tb (c_table c) (c_n c - nproc) inc limit eoi s.
Proof.
  intros PM NC tb nproc inc limit eoi s.
  destruct (parsed_chunk_fast f d s0 m r c PM NC) as [HT Hn].
  apply fast_batch_eq; [exact HT|lia].
Qed.

Print Assumptions max_bits_read_sound.
Print Assumptions u_blocks_within.
Print Assumptions unchecked_eq_checked.
Print Assumptions fast_blocks_eq.
Print Assumptions fast_batch_eq.
Print Assumptions fast_batch_no_panic.
Print Assumptions quirk_changes_result.
Print Assumptions quirk_breaks_guard.
Print Assumptions parsed_chunk_fast.
Print Assumptions parsed_chunk_fast_batch_eq.
