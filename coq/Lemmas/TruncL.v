(* TruncL.v — truncated files are reported as insufficient data, never as success and
   never as any other error.
   Route ("prefix determinism"): every decoder [dec] of the reader is *extensible*:
   whatever it does on a stream [s] other than failing for lack of data, it does the same
   on every extension [s ++ u] (with the remainder extended by [u]).  Read backwards: if
   the decoder succeeds on the full stream then on a prefix it either yields the same
   value (and the corresponding prefix of the remainder) or InsufficientData.
   The extension [u] is a whole number of bytes (the cut is at a byte boundary): this is
   what keeps the padding computation of [drain_pad] unchanged. *)
From QCo.Lemmas Require Import Tactics BitsL DTypeL DeltaL FlagsL CodecL MetaL BodyL HeaderL ReaderL FileL.
From QCo.Model Require Import Base Consts DType Codec Writer Reader.
Open Scope N_scope.

(* ================================================================== *)
(* 1. extensible decoders and their combinators                        *)
(* ================================================================== *)

Definition ext {A} (dec : bits -> res (A * bits)) : Prop :=
  forall s u, Nlen u mod 8 = 0 ->
    match dec s with
    | Ok (v, r) => dec (s ++ u) = Ok (v, r ++ u)
    | Err InsufficientData => True
    | Err k => dec (s ++ u) = Err k
    | Panic => dec (s ++ u) = Panic
    end.

(* the backward reading: success on the full stream determines the outcome on a prefix *)
Lemma ext_back {A} (dec : bits -> res (A * bits)) : ext dec ->
  forall s u v r', Nlen u mod 8 = 0 -> dec (s ++ u) = Ok (v, r') ->
  dec s = Err InsufficientData \/ exists r, dec s = Ok (v, r) /\ r' = r ++ u.
Proof.
  intros H s u v r' Hu E. specialize (H s u Hu).
  destruct (dec s) as [[v0 r0]|k|].
  - rewrite H in E. inversion E; subst. right. exists r0. split; reflexivity.
  - destruct k; try (rewrite H in E; discriminate). left. reflexivity.
  - rewrite H in E. discriminate.
Qed.

Lemma ext_ret {A} (v : A) : ext (fun s => Ok (v, s)).
Proof. intros s u _. reflexivity. Qed.

Lemma ext_err {A} k : ext (fun _ : bits => @Err (A * bits) k).
Proof. intros s u _. destruct k; first [exact I | reflexivity]. Qed.

Lemma ext_panic {A} : ext (fun _ : bits => @Panic (A * bits)).
Proof. intros s u _. reflexivity. Qed.

Lemma ext_bind {A B} (d1 : bits -> res (A * bits)) (k : A -> bits -> res (B * bits)) :
  ext d1 -> (forall a, ext (k a)) ->
  ext (fun s => bind (d1 s) (fun x => match x with (a, s1) => k a s1 end)).
Proof.
  intros H1 H2 s u Hu. specialize (H1 s u Hu).
  destruct (d1 s) as [[a s1]|e|]; cbn [bind].
  - rewrite H1. cbn [bind]. apply H2. exact Hu.
  - destruct e; try exact I; rewrite H1; reflexivity.
  - rewrite H1. reflexivity.
Qed.

(* a pure check on the value read *)
Lemma ext_bind_pure {A B} (d1 : bits -> res (A * bits)) (g : A -> res B) :
  ext d1 -> (forall a, g a <> Err InsufficientData) ->
  ext (fun s => bind (d1 s) (fun x => match x with (a, s1) =>
                 bind (g a) (fun b => Ok (b, s1)) end)).
Proof.
  intros H1 Hg s u Hu. specialize (H1 s u Hu).
  destruct (d1 s) as [[a s1]|e|]; cbn [bind].
  - rewrite H1. cbn [bind]. specialize (Hg a).
    destruct (g a) as [b|e|]; cbn [bind]; try reflexivity.
    destruct e; try reflexivity; congruence.
  - destruct e; try exact I; rewrite H1; reflexivity.
  - rewrite H1. reflexivity.
Qed.

Create HintDb extdb.

Ltac ext_solve :=
  cbv beta;
  lazymatch goal with
  | |- ext (fun s => bind (drain_pad s) _) => solve [eauto with extdb]
  | |- ext (fun s => bind _ _) =>
      apply ext_bind; [ext_solve | let a := fresh "a" in intros a; ext_solve]
  | |- ext (fun s => if ?c then _ else _) => destruct c; ext_solve
  | |- ext (fun s => match ?c with Some _ => _ | None => _ end) => destruct c; ext_solve
  | |- ext (fun s => Ok _) => apply ext_ret
  | |- ext (fun s => Err _) => apply ext_err
  | |- ext (fun s => Panic) => apply ext_panic
  | |- _ => solve [eauto with extdb]
  end.

(* ---------------- the primitive reads ---------------- *)
Lemma getn_acc_app n : forall acc s u v r,
  getn_acc n acc s = Some (v, r) -> getn_acc n acc (s ++ u) = Some (v, r ++ u).
Proof.
  induction n as [|n IH]; intros acc s u v r H; cbn [getn_acc] in *.
  - inversion H; subst. reflexivity.
  - destruct s as [|b t]; [discriminate|]. cbn [app]. apply IH. exact H.
Qed.

Lemma get_ext n : ext (get n).
Proof.
  intros s u _. unfold get, getn.
  destruct (getn_acc (N.to_nat n) 0 s) as [[v r]|] eqn:E; [|exact I].
  rewrite (getn_acc_app _ _ _ u _ _ E). reflexivity.
Qed.

Lemma get1_ext : ext get1.
Proof. intros s u _. destruct s as [|b t]; [exact I|reflexivity]. Qed.

Lemma take_bits_app n : forall s u h r,
  take_bits n s = Some (h, r) -> take_bits n (s ++ u) = Some (h, r ++ u).
Proof.
  induction n as [|n IH]; intros s u h r H; cbn [take_bits] in *.
  - inversion H; subst. reflexivity.
  - destruct s as [|b t]; [discriminate|]. cbn [app].
    destruct (take_bits n t) as [[h' r']|] eqn:E; [|discriminate].
    inversion H; subst. rewrite (IH _ u _ _ E). reflexivity.
Qed.

Lemma get_bits_ext n : ext (get_bits n).
Proof.
  intros s u _. unfold get_bits.
  destruct (take_bits (N.to_nat n) s) as [[h r]|] eqn:E; [|exact I].
  rewrite (take_bits_app _ _ u _ _ E). reflexivity.
Qed.

#[export] Hint Resolve get_ext get1_ext get_bits_ext : extdb.

(* ---------------- flags ---------------- *)
Lemma read_flag_payload_mono u : Nlen u mod 8 = 0 -> forall fuel acc s p r,
  read_flag_payload fuel acc s = Ok (p, r) ->
  forall fuel', (fuel <= fuel')%nat -> read_flag_payload fuel' acc (s ++ u) = Ok (p, r ++ u).
Proof.
  intros Hu. induction fuel as [|fuel IH]; intros acc s p r H fuel' Hf; [discriminate|].
  destruct fuel' as [|fuel']; [lia|].
  cbn [read_flag_payload] in *.
  pose proof (get_bits_ext Consts.FLAG_PAYLOAD_BITS_PER_BYTE s u Hu) as G.
  destruct (get_bits Consts.FLAG_PAYLOAD_BITS_PER_BYTE s) as [[c s1]|k|]; cbn [bind] in H; try discriminate.
  rewrite G. cbn [bind].
  pose proof (get1_ext s1 u Hu) as G1.
  destruct (get1 s1) as [[b s2]|k|]; cbn [bind] in H; try discriminate.
  rewrite G1. cbn [bind]. destruct b.
  - apply IH; [exact H|lia].
  - inversion H; subst. reflexivity.
Qed.

Lemma read_flag_payload_err fuel : forall acc s,
  match read_flag_payload fuel acc s with
  | Ok _ => True | Err k => k = InsufficientData | Panic => False end.
Proof.
  induction fuel as [|fuel IH]; intros acc s; cbn [read_flag_payload]; [reflexivity|].
  unfold get_bits. destruct (take_bits _ s) as [[c s1]|]; cbn [bind]; [|reflexivity].
  destruct s1 as [|b s2]; cbn [get1 bind]; [reflexivity|].
  destruct b; [apply IH|exact I].
Qed.

Lemma parse_flags_ext : ext parse_flags.
Proof.
  intros s u Hu. unfold parse_flags.
  pose proof (read_flag_payload_err (S (length s)) [] s) as E.
  destruct (read_flag_payload (S (length s)) [] s) as [[p r]|k|] eqn:R; cbn [bind].
  - rewrite (read_flag_payload_mono u Hu _ _ _ _ _ R (S (length (s ++ u))))
      by (rewrite app_length; lia).
    cbn [bind]. destruct (flags_of_payload p) as [f|k|] eqn:F; cbn [bind]; try reflexivity.
    unfold flags_of_payload in F. destruct (existsb _ _); inversion F; subst. reflexivity.
  - subst k. exact I.
  - destruct E.
Qed.
#[export] Hint Resolve parse_flags_ext : extdb.

(* ---------------- varint, offsets, gcd, raw numbers ---------------- *)
Lemma read_varint_cont_ext left : forall i acc, ext (fun s => read_varint_cont left i acc s).
Proof.
  induction left as [|l IH]; intros i acc; cbn [read_varint_cont]; [apply ext_ret|].
  apply ext_bind; [apply get1_ext|]. intros b. destruct b; [|apply ext_ret].
  apply ext_bind; [apply get1_ext|]. intros b2. apply IH.
Qed.

Lemma read_varint_ext j : ext (read_varint j).
Proof.
  unfold read_varint. apply ext_bind; [apply get_ext|]. intros v. apply read_varint_cont_ext.
Qed.

Lemma read_offset_ext w p : ext (read_offset w p).
Proof.
  unfold read_offset. cbv zeta. ext_solve.
Qed.

Lemma read_gcd_ext range : ext (read_gcd range).
Proof. unfold read_gcd. ext_solve. Qed.

Lemma of_bytes_not_insufficient d bs : of_bytes d bs <> Err InsufficientData.
Proof.
  unfold of_bytes. cbv zeta. destruct (kind d); try discriminate.
  destruct (valid d _); discriminate.
Qed.

Lemma read_num_ext d : ext (read_num d).
Proof.
  unfold read_num. apply ext_bind_pure; [apply get_bits_ext|].
  intros a. apply of_bytes_not_insufficient.
Qed.
#[export] Hint Resolve read_varint_ext read_offset_ext read_gcd_ext read_num_ext : extdb.

Lemma read_unum_ext pd : ext (read_unum pd).
Proof. unfold read_unum. ext_solve. Qed.
#[export] Hint Resolve read_unum_ext : extdb.

(* ================================================================== *)
(* 2. chunk metadata and file header                                   *)
(* ================================================================== *)
Lemma read_prefix_list_ext f pd n common cnt :
  ext (fun s => read_prefix_list f pd n common cnt s).
Proof.
  induction cnt as [|c IH]; cbn [read_prefix_list]; [apply ext_ret|].
  ext_solve.
Qed.
#[export] Hint Resolve read_prefix_list_ext : extdb.

Lemma read_prefixes_ext f pd n : ext (read_prefixes f pd n).
Proof. unfold read_prefixes. ext_solve. Qed.

Lemma read_moments_ext sd cnt : ext (fun s => read_moments sd cnt s).
Proof.
  induction cnt as [|c IH]; cbn [read_moments]; [apply ext_ret|].
  ext_solve.
Qed.
#[export] Hint Resolve read_prefixes_ext read_moments_ext : extdb.

(* the padding: both streams end on a byte boundary, so the number of padding bits is the
   same and they all lie inside the prefix *)
Lemma drain_pad_app s u : Nlen u mod 8 = 0 ->
  match drain_pad s with
  | Ok r => drain_pad (s ++ u) = Ok (r ++ u)
  | Err k => drain_pad (s ++ u) = Err k
  | Panic => False
  end.
Proof.
  intros Hu. unfold drain_pad. cbv zeta.
  assert (E : Nlen (s ++ u) mod 8 = Nlen s mod 8).
  { rewrite Nlen_app. set (a := Nlen s) in *. set (b := Nlen u) in *. clearbody a b. lia. }
  rewrite E.
  assert (Hle : (N.to_nat (Nlen s mod 8) <= length s)%nat).
  { unfold Nlen. set (a := length s). clearbody a. lia. }
  rewrite firstn_app_le, skipn_app_le by exact Hle.
  destruct (existsb _ _); reflexivity.
Qed.

Lemma ext_drain {A} (v : A) : ext (fun s => bind (drain_pad s) (fun s5 => Ok (v, s5))).
Proof.
  intros s u Hu. pose proof (drain_pad_app s u Hu) as H.
  destruct (drain_pad s) as [r|k|] eqn:E; cbn [bind]; [rewrite H; reflexivity| |destruct H].
  assert (k = Corruption).
  { unfold drain_pad in E. cbv zeta in E. destruct (existsb _ _) in E; congruence. }
  subst k. rewrite H. reflexivity.
Qed.
#[export] Hint Resolve ext_drain : extdb.

Theorem parse_meta_ext f d : ext (parse_meta f d).
Proof. unfold parse_meta. ext_solve. Qed.
#[export] Hint Resolve parse_meta_ext : extdb.

Lemma read_aligned_ext bit n : ext (read_aligned bit n).
Proof. unfold read_aligned. ext_solve. Qed.
#[export] Hint Resolve read_aligned_ext : extdb.

Theorem read_header_ext d bit : ext (read_header d bit).
Proof. unfold read_header. ext_solve. Qed.

Theorem read_chunk_meta_ext d f bit : ext (read_chunk_meta d f bit).
Proof. unfold read_chunk_meta. ext_solve. Qed.

(* the backward forms, as used below *)
Corollary parse_meta_prefix f d s u m r' :
  Nlen u mod 8 = 0 -> parse_meta f d (s ++ u) = Ok (m, r') ->
  parse_meta f d s = Err InsufficientData \/ exists r, parse_meta f d s = Ok (m, r) /\ r' = r ++ u.
Proof. apply (ext_back _ (parse_meta_ext f d)). Qed.

Corollary read_header_prefix d bit s u f r' :
  Nlen u mod 8 = 0 -> read_header d bit (s ++ u) = Ok (f, r') ->
  read_header d bit s = Err InsufficientData \/
  exists r, read_header d bit s = Ok (f, r) /\ r' = r ++ u.
Proof. apply (ext_back _ (read_header_ext d bit)). Qed.

Corollary read_chunk_meta_prefix d f bit s u om r' :
  Nlen u mod 8 = 0 -> read_chunk_meta d f bit (s ++ u) = Ok (om, r') ->
  read_chunk_meta d f bit s = Err InsufficientData \/
  exists r, read_chunk_meta d f bit s = Ok (om, r) /\ r' = r ++ u.
Proof. apply (ext_back _ (read_chunk_meta_ext d f bit)). Qed.

(* ================================================================== *)
(* 3. the number blocks                                                *)
(* ================================================================== *)

(* ---------------- 3a. a validated tree is complete ---------------- *)
Lemma tails_with_In b c : forall t, In c (tails_with b t) -> In (b :: c) t.
Proof.
  induction t as [|a t IH]; intros H; [destruct H|].
  destruct a as [|x a]; cbn [tails_with] in H; [right; exact (IH H)|].
  destruct (Bool.eqb x b) eqn:E.
  - apply Bool.eqb_prop in E. subst x.
    destruct H as [->|H]; [left; reflexivity|right; exact (IH H)].
  - right. exact (IH H).
Qed.

Lemma tree_ok_complete : forall fuel codes, tree_ok fuel codes = true ->
  forall Z, (fuel <= length Z)%nat -> exists c, In c codes /\ is_prefix_of c Z = true.
Proof.
  induction fuel as [|f IH]; intros codes H Z HZ;
    destruct (tree_ok_inv _ _ H) as [->|(f' & Hf & Hn & H0 & H1)].
  - exists []. split; [left; reflexivity|reflexivity].
  - discriminate.
  - exists []. split; [left; reflexivity|reflexivity].
  - inversion Hf; subst f'. destruct Z as [|z Z]; [cbn [length] in HZ; lia|].
    cbn [length] in HZ. destruct z.
    + destruct (IH _ H1 Z) as (c & Hc & Hp); [lia|]. exists (true :: c).
      split; [apply tails_with_In; exact Hc|]. cbn [is_prefix_of Bool.eqb andb]. exact Hp.
    + destruct (IH _ H0 Z) as (c & Hc & Hp); [lia|]. exists (false :: c).
      split; [apply tails_with_In; exact Hc|]. cbn [is_prefix_of Bool.eqb andb]. exact Hp.
Qed.

Lemma table_ok_complete ps : ps <> [] -> table_ok ps = true ->
  forall Z, (S (max_code_len ps) <= length Z)%nat ->
  exists p, In p ps /\ is_prefix_of (p_code p) Z = true.
Proof.
  intros Hne H Z HZ. destruct ps as [|q t]; [congruence|]. unfold table_ok in H.
  destruct (tree_ok_complete _ _ H Z HZ) as (c & Hc & Hp).
  apply in_map_iff in Hc. destruct Hc as (p & <- & Hin). exists p. auto.
Qed.

(* ---------------- 3b. the stride search is sound ---------------- *)
(* first [n] bits of [l], zero padded *)
Fixpoint zpad (n : nat) (l : bits) : bits :=
  match n with
  | O => []
  | S m => match l with
           | [] => false :: zpad m []
           | x :: t => x :: zpad m t
           end
  end.

Lemma zpad_length n : forall l, length (zpad n l) = n.
Proof. induction n as [|n IH]; intros l; [reflexivity|]. destruct l; cbn [zpad length]; rewrite IH; reflexivity. Qed.

Lemma skipn_nil' {A} n : skipn n (@nil A) = [].
Proof. destruct n; reflexivity. Qed.

Lemma zpad_add a b : forall l, zpad (a + b) l = zpad a l ++ zpad b (skipn a l).
Proof.
  induction a as [|a IH]; intros l; [reflexivity|].
  destruct l as [|x l]; cbn [Nat.add zpad skipn app]; rewrite IH; [rewrite skipn_nil'|]; reflexivity.
Qed.

Lemma firstn_zpad_gen : forall t m s, (t <= m)%nat ->
  firstn t (firstn t s ++ repeat false m) = zpad t s.
Proof.
  induction t as [|t IH]; intros m s H; [reflexivity|].
  destruct s as [|x s].
  - destruct m as [|m]; [lia|]. cbn [firstn app repeat zpad]. f_equal.
    specialize (IH m [] ltac:(lia)). rewrite firstn_nil in IH. exact IH.
  - cbn [firstn app zpad]. f_equal. apply IH. lia.
Qed.

Lemma firstn_zpad t s : firstn t (firstn t s ++ repeat false t) = zpad t s.
Proof. apply firstn_zpad_gen. lia. Qed.

Lemma compatible_app : forall a c b,
  compatible c (a ++ b) = compatible c a && compatible (skipn (length a) c) b.
Proof.
  induction a as [|y a IH]; intros c b.
  - rewrite compatible_nil_r. reflexivity.
  - destruct c as [|x c]; [reflexivity|].
    cbn [app compatible length skipn]. rewrite IH, andb_assoc. reflexivity.
Qed.

Lemma filter_filter' {A} (f g : A -> bool) : forall l,
  filter f (filter g l) = filter (fun x => g x && f x) l.
Proof.
  induction l as [|x l IH]; [reflexivity|]. cbn [filter].
  destruct (g x); cbn [filter andb]; [destruct (f x)|]; rewrite IH; reflexivity.
Qed.

Lemma cands_step ps orig dpt t :
  filter (fun q => compatible (skipn dpt (p_code q)) (zpad t (skipn dpt orig)))
         (filter (fun q => compatible (p_code q) (zpad dpt orig)) ps)
  = filter (fun q => compatible (p_code q) (zpad (dpt + t) orig)) ps.
Proof.
  rewrite filter_filter'. apply filter_ext. intros q.
  rewrite zpad_add, compatible_app, zpad_length. reflexivity.
Qed.

Lemma prefix_zpad : forall c n l, is_prefix_of c (zpad n l) = true ->
  (length c <= length l)%nat -> is_prefix_of c l = true.
Proof.
  induction c as [|x c IH]; intros n l H Hl; [reflexivity|].
  destruct n as [|n]; [discriminate|].
  destruct l as [|y l]; [cbn [length] in Hl; lia|].
  cbn [zpad is_prefix_of length] in *. apply andb_true_iff in H. destruct H as [-> H].
  cbn [andb]. apply (IH n); [exact H|lia].
Qed.

(* a single candidate left at depth D: it is the code heading the (zero padded) stream *)
Lemma cands_single ps orig D p : table_ok ps = true ->
  filter (fun q => compatible (p_code q) (zpad D orig)) ps = [p] ->
  In p ps /\ ((length (p_code p) <= length orig)%nat -> is_prefix_of (p_code p) orig = true).
Proof.
  intros Hok Hf.
  assert (Hin : In p ps).
  { assert (I0 : In p [p]) by (left; reflexivity). rewrite <- Hf in I0.
    apply filter_In in I0. tauto. }
  split; [exact Hin|]. intros Hl.
  set (N := (D + S (max_code_len ps))%nat).
  destruct (table_ok_complete ps) with (Z := zpad N orig) as (q & Hq & Hp).
  - intros ->. destruct Hin.
  - exact Hok.
  - rewrite zpad_length. unfold N. lia.
  - assert (Hc : compatible (p_code q) (zpad D orig) = true).
    { apply is_prefix_compatible in Hp. unfold N in Hp.
      rewrite zpad_add, compatible_app in Hp. apply andb_true_iff in Hp. tauto. }
    assert (I1 : In q [p]).
    { rewrite <- Hf. apply filter_In. split; assumption. }
    destruct I1 as [<-|[]]. apply (prefix_zpad _ N); assumption.
Qed.

Lemma tsearch_S_inv f tb cands dpt s p : tsearch (S f) tb cands dpt s = Ok p ->
  cands = [p] \/
  let t := Nat.min stride (max_code_len cands - dpt) in
  let cands' := filter (fun q => compatible (skipn dpt (p_code q))
                                   (firstn t (firstn t s ++ repeat false t))) cands in
  tsearch f tb cands' (dpt + t) (skipn t s) = Ok p \/ cands' = [p].
Proof.
  intros H.
  assert (G : (forall q, cands <> [q]) ->
    let t := Nat.min stride (max_code_len cands - dpt) in
    let cands' := filter (fun q => compatible (skipn dpt (p_code q))
                                   (firstn t (firstn t s ++ repeat false t))) cands in
    tsearch f tb cands' (dpt + t) (skipn t s) = Ok p \/ cands' = [p]).
  { intros Hne. revert H.
    destruct cands as [|q [|q2 r]]; [ | exfalso; apply (Hne q); reflexivity | ];
    cbn [tsearch]; cbv zeta;
    (destruct (Nat.eqb _ 0); [discriminate|]);
    (destruct (andb _ _); [discriminate|]);
    (destruct (Nat.eqb _ _); [intros H; left; exact H|]);
    (destruct (filter _ _) as [|p' [|p'' l]]; try discriminate);
    (destruct (Nat.eqb _ _); [|discriminate]); intros H; inversion H; right; reflexivity. }
  destruct cands as [|q [|q2 r]].
  - right. apply G. discriminate.
  - left. cbn [tsearch] in H. inversion H. reflexivity.
  - right. apply G. discriminate.
Qed.

Lemma tsearch_sound tb ps orig : table_ok ps = true -> forall fuel cands dpt p,
  cands = filter (fun q => compatible (p_code q) (zpad dpt orig)) ps ->
  tsearch fuel tb cands dpt (skipn dpt orig) = Ok p ->
  In p ps /\ ((length (p_code p) <= length orig)%nat -> is_prefix_of (p_code p) orig = true).
Proof.
  intros Hok. induction fuel as [|f IH]; intros cands dpt p Hc H.
  - destruct cands as [|q [|q2 r]]; cbn [tsearch] in H; try discriminate.
    inversion H; subst q. apply (cands_single ps orig dpt p Hok). symmetry. exact Hc.
  - apply tsearch_S_inv in H. destruct H as [->|H].
    + apply (cands_single ps orig dpt p Hok). symmetry. exact Hc.
    + cbv zeta in H. set (t := Nat.min stride (max_code_len cands - dpt)) in *. clearbody t.
      rewrite firstn_zpad in H.
      assert (Hc' : filter (fun q => compatible (skipn dpt (p_code q)) (zpad t (skipn dpt orig))) cands
                    = filter (fun q => compatible (p_code q) (zpad (dpt + t) orig)) ps).
      { subst cands. apply cands_step. }
      destruct H as [H|H].
      * rewrite skipn_skipn' in H. apply (IH _ (dpt + t)%nat p Hc' H).
      * apply (cands_single ps orig (dpt + t) p Hok). rewrite <- Hc'. exact H.
Qed.

(* the search fails only for lack of data *)
Lemma tsearch_fail tb : forall fuel cands dpt s,
  match tsearch fuel tb cands dpt s with
  | Ok _ => True | Err k => k = InsufficientData | Panic => False end.
Proof.
  induction fuel as [|f IH]; intros cands dpt s.
  - destruct cands as [|q [|q2 r]]; cbn [tsearch]; auto.
  - destruct cands as [|q [|q2 r]]; cbn [tsearch]; cbv zeta; auto;
      repeat destr_if; auto; try apply IH;
      destruct (filter _ _) as [|p' [|p'' l]]; auto; destr_if; auto.
Qed.

(* [read_code_at] with the fuel as a parameter: the kernel must never be made to compare
   two unfolded copies of [tsearch 33] *)
Definition rca (fuel : nat) (tb : N) (ps : list prefix) (s : bits) : res (prefix * bits) :=
  do p <- tsearch fuel tb ps 0 s;
  if Nat.leb (length (p_code p)) (length (firstn 40 s)) then Ok (p, skipn (length (p_code p)) s)
  else Err InsufficientData.

Lemma rca_eq tb ps s : read_code_at tb ps s = rca 33 tb ps s.
Proof. unfold read_code_at, rca. exact eq_refl. Qed.

Lemma rca_fail fuel tb ps s :
  match rca fuel tb ps s with
  | Ok _ => True | Err k => k = InsufficientData | Panic => False end.
Proof.
  unfold rca. pose proof (tsearch_fail tb fuel ps 0 s) as T.
  destruct (tsearch fuel tb ps 0 s) as [p|k|]; cbn [bind]; auto.
  destruct (Nat.leb _ _); auto.
Qed.

Lemma read_code_at_fail tb ps s :
  match read_code_at tb ps s with
  | Ok _ => True | Err k => k = InsufficientData | Panic => False end.
Proof. rewrite rca_eq. apply rca_fail. Qed.

Lemma is_prefix_of_length : forall c s, is_prefix_of c s = true -> (length c <= length s)%nat.
Proof.
  induction c as [|x c IH]; intros s H; [cbn; lia|].
  destruct s as [|y s]; [discriminate|]. cbn [is_prefix_of length] in *.
  apply andb_true_iff in H. destruct H as [_ H]. apply IH in H. lia.
Qed.

Lemma is_prefix_of_app_r : forall c s u, is_prefix_of c s = true -> is_prefix_of c (s ++ u) = true.
Proof.
  induction c as [|x c IH]; intros s u H; [reflexivity|].
  destruct s as [|y s]; [discriminate|]. cbn [is_prefix_of app] in *.
  apply andb_true_iff in H. destruct H as [-> H]. cbn [andb]. apply IH. exact H.
Qed.

Lemma tsearch_sound0 tb ps s fuel p : table_ok ps = true ->
  tsearch fuel tb ps 0 s = Ok p ->
  In p ps /\ ((length (p_code p) <= length s)%nat -> is_prefix_of (p_code p) s = true).
Proof.
  intros Hok T. apply (tsearch_sound tb ps s Hok fuel ps 0 p); [|exact T].
  symmetry. clear. cbn [zpad]. induction ps as [|q t IH]; [reflexivity|].
  cbn [filter]. rewrite compatible_nil_r, IH. reflexivity.
Qed.

(* a successful lookup returns a table entry whose code really heads the stream *)
Lemma rca_sound fuel tb ps s p r : table_ok ps = true ->
  rca fuel tb ps s = Ok (p, r) ->
  In p ps /\ is_prefix_of (p_code p) s = true /\ r = skipn (length (p_code p)) s.
Proof.
  intros Hok H. unfold rca in H.
  destruct (tsearch fuel tb ps 0 s) as [q|k|] eqn:T; cbn [bind] in H; try discriminate.
  destruct (Nat.leb (length (p_code q)) (length (firstn 40 s))) eqn:L; [|discriminate].
  inversion H; subst q r; clear H. apply Nat.leb_le in L. rewrite firstn_length in L.
  destruct (tsearch_sound0 tb ps s _ p Hok T) as [Hin Hp].
  split; [exact Hin|]. split; [apply Hp; lia|reflexivity].
Qed.

Theorem read_code_at_sound tb ps s p r : table_ok ps = true ->
  read_code_at tb ps s = Ok (p, r) ->
  In p ps /\ is_prefix_of (p_code p) s = true /\ r = skipn (length (p_code p)) s.
Proof. rewrite rca_eq. apply rca_sound. Qed.

Lemma pairwise_In_cases : forall ps p q, pairwise_nonprefix (map p_code ps) ->
  In p ps -> In q ps -> p = q \/ nonprefix2 (p_code p) (p_code q).
Proof.
  induction ps as [|a t IH]; intros p q HP Hp Hq; [destruct Hp|].
  cbn [map pairwise_nonprefix] in HP. destruct HP as [HF HP]. rewrite Forall_forall in HF.
  destruct Hp as [->|Hp], Hq as [->|Hq].
  - left. reflexivity.
  - right. apply HF. apply in_map. exact Hq.
  - right. destruct (HF (p_code p) (in_map p_code t p Hp)) as [A B]. split; assumption.
  - apply IH; assumption.
Qed.

(* the Huffman lookup on a prefix of the stream: the same entry, or not enough data *)
Theorem read_code_at_prefix tb tb' ps s u p' r' : table_ok ps = true ->
  read_code_at tb' ps (s ++ u) = Ok (p', r') ->
  read_code_at tb ps s = Err InsufficientData \/
  exists r, read_code_at tb ps s = Ok (p', r) /\ r' = r ++ u.
Proof.
  intros Hok H'. pose proof (read_code_at_fail tb ps s) as F.
  destruct (read_code_at tb ps s) as [[p r]|k|] eqn:E; [|subst k; left; reflexivity|destruct F].
  right.
  destruct (read_code_at_sound _ _ _ _ _ Hok E) as (Hin & Hp & Hr).
  destruct (read_code_at_sound _ _ _ _ _ Hok H') as (Hin' & Hp' & Hr').
  pose proof (is_prefix_of_app_r _ _ u Hp) as Hpu.
  assert (p = p').
  { destruct (pairwise_In_cases ps p p' (table_ok_pairwise ps Hok) Hin Hin') as [->|[N1 N2]];
      [reflexivity|].
    destruct (prefix_compatible_cases _ _ _ Hpu (is_prefix_compatible _ _ Hp')); congruence. }
  subst p'. exists r. split; [reflexivity|]. subst r r'.
  apply skipn_app_le. apply is_prefix_of_length. exact Hp.
Qed.

(* ---------------- 3c. offsets, blocks, batches ---------------- *)
Lemma read_offsets_prefix w p u : Nlen u mod 8 = 0 -> forall reps s l' r',
  read_offsets w p reps (s ++ u) = (l', r', SOk) ->
  (exists r, read_offsets w p reps s = (l', r, SOk) /\ r' = r ++ u) \/
  (exists l r, read_offsets w p reps s = (l, r, SErr InsufficientData)).
Proof.
  intros Hu. induction reps as [|n IH]; intros s l' r' H.
  - cbn [read_offsets] in *. inversion H; subst. left. exists s. auto.
  - cbn [read_offsets] in *. pose proof (read_offset_ext w p s u Hu) as E.
    destruct (read_offset w p s) as [[x s1]|k|] eqn:R.
    + rewrite E in H.
      destruct (read_offsets w p n (s1 ++ u)) as [[l2 s2] st] eqn:R2.
      inversion H; subst. destruct (IH _ _ _ R2) as [(r0 & R3 & ->)|(l & r0 & R3)]; rewrite R3.
      * left. exists r0. auto.
      * right. eexists. eexists. reflexivity.
    + destruct k; try (rewrite E in H; inversion H; fail).
      right. eexists. eexists. reflexivity.
    + rewrite E in H. inversion H.
Qed.

Theorem read_blocks_prefix w tb tb' ps u : Nlen u mod 8 = 0 -> table_ok ps = true ->
  forall fuel room s l' r' inc',
  read_blocks fuel w tb' ps room (s ++ u) = (l', r', inc', SOk) ->
  (exists r, read_blocks fuel w tb ps room s = (l', r, inc', SOk) /\ r' = r ++ u) \/
  (exists l r inc, read_blocks fuel w tb ps room s = (l, r, inc, SErr InsufficientData)).
Proof.
  intros Hu Hok. induction fuel as [|f IH]; intros room s l' r' inc' H.
  - cbn [read_blocks] in *. inversion H; subst. left. exists s. auto.
  - cbn [read_blocks] in *. destruct (room =? 0).
    { inversion H; subst. left. exists s. auto. }
    destruct (read_code_at tb' ps (s ++ u)) as [[p s1']|k|] eqn:RC; try (inversion H; fail).
    destruct (read_code_at_prefix tb tb' ps s u p s1' Hok RC) as [E|(s1 & E & ->)]; rewrite E.
    { right. eexists. eexists. eexists. reflexivity. }
    destruct (p_jump p) as [j|].
    + destruct (read_varint j (s1 ++ u)) as [[v s2']|k|] eqn:RV; try (inversion H; fail).
      destruct (ext_back _ (read_varint_ext j) s1 u v s2' Hu RV) as [E2|(s2 & E2 & ->)]; rewrite E2.
      { right. eexists. eexists. eexists. reflexivity. }
      cbv zeta in *.
      destruct (read_offsets w p (N.to_nat (N.min (v + 1) room)) (s2 ++ u)) as [[l s3'] st] eqn:RO.
      destruct st; [| exfalso; destruct l; inversion H | exfalso; destruct l; inversion H].
      destruct (read_offsets_prefix w p u Hu _ _ _ _ RO) as [(s3 & E3 & ->)|(l0 & s3 & E3)]; rewrite E3.
      * destruct (room <? v + 1).
        { inversion H; subst. left. exists s3. auto. }
        destruct (read_blocks f w tb' ps (room - N.min (v + 1) room) (s3 ++ u))
          as [[[l2 s4'] inc2] st2] eqn:RB.
        inversion H; subst.
        destruct (IH _ _ _ _ _ RB) as [(s4 & E4 & ->)|(l3 & s4 & inc3 & E4)]; rewrite E4.
        -- left. exists s4. auto.
        -- right. eexists. eexists. eexists. reflexivity.
      * right. destruct l0; eexists; eexists; eexists; reflexivity.
    + destruct (read_offsets w p 1 (s1 ++ u)) as [[l s2'] st] eqn:RO.
      destruct st; [| inversion H | inversion H].
      destruct (read_offsets_prefix w p u Hu _ _ _ _ RO) as [(s2 & E3 & ->)|(l0 & s2 & E3)]; rewrite E3.
      * destruct (read_blocks f w tb' ps (room - 1) (s2 ++ u)) as [[[l2 s3'] inc2] st2] eqn:RB.
        inversion H; subst.
        destruct (IH _ _ _ _ _ RB) as [(s3 & E4 & ->)|(l3 & s3 & inc3 & E4)]; rewrite E4.
        -- left. exists s3. auto.
        -- right. eexists. eexists. eexists. reflexivity.
      * right. eexists. eexists. eexists. reflexivity.
Qed.

(* one batch at end of input ([eoi] = true): the same batch, or InsufficientData *)
Theorem read_batch_prefix w tb tb' ps n_left inc limit s u :
  Nlen u mod 8 = 0 -> table_ok ps = true ->
  let o' := read_batch w tb' ps n_left inc limit true (s ++ u) in
  let o := read_batch w tb ps n_left inc limit true s in
  b_status o' = SOk ->
  b_status o = SErr InsufficientData \/
  exists r, o = mkBatch (b_nums o') r (b_incomplete o') (b_finished o') SOk /\ b_rest o' = r ++ u.
Proof.
  intros Hu Hok. cbv zeta. unfold read_batch. cbv zeta.
  destruct (N.min n_left limit =? 0).
  { intros _. right. exists s. split; reflexivity. }
  destruct inc as [[p remaining]|].
  - destruct (read_offsets w p (N.to_nat (N.min remaining (N.min n_left limit))) (s ++ u))
      as [[l s1'] st] eqn:RO.
    destruct st as [|k|]; [|destruct k; intros H; discriminate H|intros H; discriminate H].
    destruct (read_offsets_prefix w p u Hu _ _ _ _ RO) as [(s1 & E1 & ->)|(l0 & s1 & E1)]; rewrite E1.
    + destruct (read_blocks _ w tb' ps _ (s1 ++ u)) as [[[l2 s2'] inc2] st2] eqn:RB.
      destruct st2 as [|k|]; [|destruct k; intros H; discriminate H|intros H; discriminate H].
      intros _.
      destruct (read_blocks_prefix w tb tb' ps u Hu Hok _ _ _ _ _ _ RB)
        as [(s2 & E2 & ->)|(l3 & s2 & inc3 & E2)]; rewrite E2.
      * right. exists s2. split; reflexivity.
      * left. reflexivity.
    + intros _. left. reflexivity.
  - destruct (read_blocks _ w tb' ps _ (s ++ u)) as [[[l2 s2'] inc2] st2] eqn:RB.
    destruct st2 as [|k|]; [|destruct k; intros H; discriminate H|intros H; discriminate H].
    intros _.
    destruct (read_blocks_prefix w tb tb' ps u Hu Hok _ _ _ _ _ _ RB)
      as [(s2 & E2 & ->)|(l3 & s2 & inc3 & E2)]; rewrite E2.
    + right. exists s2. split; reflexivity.
    + left. reflexivity.
Qed.

Lemma drain_pad_back s u r' : Nlen u mod 8 = 0 -> drain_pad (s ++ u) = Ok r' ->
  exists r, drain_pad s = Ok r /\ r' = r ++ u.
Proof.
  intros Hu H. pose proof (drain_pad_app s u Hu) as A.
  destruct (drain_pad s) as [r|k|]; [|congruence|destruct A].
  rewrite A in H. inversion H. exists r. auto.
Qed.

Theorem nd_batch_prefix w tb tb' c limit s u us fin nd' r' :
  Nlen u mod 8 = 0 -> table_ok (c_table c) = true ->
  nd_batch w tb' c limit true (s ++ u) = Ok (us, fin, nd', r') ->
  nd_batch w tb c limit true s = Err InsufficientData \/
  exists r, nd_batch w tb c limit true s = Ok (us, fin, nd', r) /\ r' = r ++ u.
Proof.
  intros Hu Hok H. unfold nd_batch in *. cbv zeta in *.
  destruct (c_n c <? nd_nproc (c_nd c)); [discriminate|].
  pose proof (read_batch_prefix w tb tb' (c_table c) (c_n c - nd_nproc (c_nd c))
                (nd_incomplete (c_nd c)) limit s u Hu Hok) as P.
  cbv zeta in P.
  set (o' := read_batch w tb' (c_table c) _ _ limit true (s ++ u)) in *.
  set (o := read_batch w tb (c_table c) _ _ limit true s) in *.
  clearbody o o'.
  destruct (b_status o') eqn:S'; try discriminate.
  destruct (P eq_refl) as [E|(r & -> & Er)].
  { left. rewrite E. reflexivity. }
  cbn [b_status b_finished b_rest b_nums b_incomplete]. rewrite Er in H.
  assert (EL : forall s1 : bits, Nlen (s ++ u) - Nlen (s1 ++ u) = Nlen s - Nlen s1).
  { intros s1. rewrite !Nlen_app. set (a := Nlen s) in *. set (b := Nlen s1) in *.
    set (x := Nlen u) in *. clearbody a b x. lia. }
  destruct (b_finished o').
  - destruct (drain_pad (r ++ u)) as [s1'| |] eqn:DP; cbn [bind] in H; try discriminate.
    destruct (drain_pad_back r u s1' Hu DP) as (s1 & D1 & ->). rewrite D1. cbn [bind].
    rewrite EL in H.
    destruct (true && negb (c_body c * 8 =? nd_bproc (c_nd c) + (Nlen s - Nlen s1)));
      [discriminate|].
    inversion H; subst. right. exists s1. auto.
  - cbn [bind andb] in *. rewrite EL in H. inversion H; subst. right. exists r. auto.
Qed.

Theorem cbd_batch_prefix d f tb tb' c limit s u xs fin c' r' :
  Nlen u mod 8 = 0 -> table_ok (c_table c) = true ->
  cbd_batch d f tb' c limit true (s ++ u) = Ok (xs, fin, c', r') ->
  cbd_batch d f tb c limit true s = Err InsufficientData \/
  exists r, cbd_batch d f tb c limit true s = Ok (xs, fin, c', r) /\ r' = r ++ u.
Proof.
  intros Hu Hok H. unfold cbd_batch in *. cbv zeta in *.
  destruct (nd_batch (ubits (pdt f d)) tb' c limit true (s ++ u)) as [[[[us fin0] nd'] s1']|k|] eqn:E;
    cbn [bind] in H; try discriminate.
  destruct (nd_batch_prefix _ tb tb' c limit s u us fin0 nd' s1' Hu Hok E) as [E1|(s1 & E1 & ->)];
    rewrite E1; cbn [bind].
  { left. reflexivity. }
  right. destruct (ford f =? 0).
  - inversion H; subst. exists s1. auto.
  - destruct (c_total c <? c_numsproc c); [discriminate|].
    destruct (reconstruct d _ (c_moments c) (map (of_u (sdt d)) us)) as [ys ms'].
    inversion H; subst. exists s1. auto.
Qed.

(* ================================================================== *)
(* 4. chunks and the whole file                                        *)
(* ================================================================== *)
Lemma r_step_header_err d st k :
  r_term st = false -> r_flags st = None ->
  read_header d (r_bit st) (stream st) = Err k -> r_step d st RHeader = (st, ROErr k).
Proof. intros Ht Hf Hr. unfold r_step. rewrite Ht, Hf, Hr. reflexivity. Qed.

Lemma r_step_meta_err d st f k :
  r_term st = false -> r_flags st = Some f -> r_cbd st = None ->
  read_chunk_meta d f (r_bit st) (stream st) = Err k -> r_step d st RMeta = (st, ROErr k).
Proof. intros Ht Hf Hc Hr. unfold r_step. rewrite Ht, Hf, Hc, Hr. reflexivity. Qed.

Lemma r_step_body_err d st f c k :
  r_term st = false -> r_flags st = Some f -> r_cbd st = Some c ->
  cbd_batch d f (total_bits st) c (pow2 64 - 1) true (stream st) = Err k ->
  r_step d st RBody = (st, ROErr k).
Proof. intros Ht Hf Hc Hr. unfold r_step. rewrite Ht, Hf, Hc, Hr. reflexivity. Qed.

Lemma new_cbd_table_ok f m c : new_cbd f m = Ok c -> table_ok (c_table c) = true.
Proof.
  unfold new_cbd. cbv zeta. destruct (is_nil (m_table m) && _); [discriminate|].
  destruct (table_ok (m_table m)) eqn:E; cbn [negb]; [|discriminate].
  intros H. inversion H. exact E.
Qed.

Lemma Nlen_mod8_split (s u : bits) (k : N) :
  Nlen s + Nlen u = 8 * k -> Nlen u mod 8 = 0 -> Nlen s mod 8 = 0.
Proof. set (a := Nlen s). set (b := Nlen u). clearbody a b. lia. Qed.

(* the loop of simple_decompress on a strict byte-prefix of the chunk sequence: every
   completed step consumes what it consumes on the full file, so the cut is reached inside
   some read *)
Lemma simple_loop_trunc d f u : 8 <= Nlen u -> Nlen u mod 8 = 0 ->
  forall chunks cb fuel st acc s,
  Forall (chunk_ok d f) chunks -> chunks_bytes d f chunks = Ok cb ->
  bytes_to_bits (cb ++ [Consts.MAGIC_TERMINATION_BYTE]) = s ++ u ->
  at_suffix st s -> r_flags st = Some f -> r_cbd st = None -> r_term st = false ->
  snd (simple_loop fuel d st acc) = Err InsufficientData.
Proof.
  intros Hu8 Hu.
  induction chunks as [|[xs table] t IH]; intros cb fuel st acc s Hok Hcb Hsu Hat Hf Hc Ht;
    (destruct fuel as [|fuel]; [reflexivity|]).
  - cbn [chunks_bytes] in Hcb. inversion Hcb; subst cb. cbn [app] in Hsu.
    assert (Hs : s = []).
    { assert (E : Nlen (bytes_to_bits [Consts.MAGIC_TERMINATION_BYTE]) = Nlen s + Nlen u)
        by (rewrite Hsu, Nlen_app; reflexivity).
      rewrite bytes_to_bits_Nlen in E. change (Nlen [Consts.MAGIC_TERMINATION_BYTE]) with 1 in E.
      destruct s as [|b s]; [reflexivity|]. rewrite Nlen_cons in E.
      set (a := Nlen s) in *. set (x := Nlen u) in *. clearbody a x. lia. }
    subst s.
    assert (Hbit : r_bit st mod 8 = 0) by (apply (at_suffix_bit_mod st _ Hat); reflexivity).
    cbn [simple_loop].
    rewrite (r_step_meta_err d st f InsufficientData); try assumption; [reflexivity|].
    rewrite (at_suffix_stream st _ Hat). unfold read_chunk_meta, read_aligned. rewrite Hbit.
    reflexivity.
  - cbn [chunks_bytes] in Hcb.
    destruct (chunk_payload d f table xs) as [[m bs]| |] eqn:Ep; cbn [bind] in Hcb; try discriminate.
    destruct (chunks_bytes d f t) as [r| |] eqn:Er; cbn [bind] in Hcb; try discriminate.
    inversion Hcb; subst cb; clear Hcb.
    inversion Hok as [|? ? Hok1 Hokt]; subst.
    set (rest := bytes_to_bits (r ++ [Consts.MAGIC_TERMINATION_BYTE])) in *.
    assert (Hsplit : bytes_to_bits (([Consts.MAGIC_CHUNK_BYTE] ++ bs ++ r) ++ [Consts.MAGIC_TERMINATION_BYTE])
                     = bytes_to_bits ([Consts.MAGIC_CHUNK_BYTE] ++ bs) ++ rest).
    { unfold rest. rewrite <- bytes_to_bits_app. f_equal. rewrite <- !app_assoc. reflexivity. }
    assert (Hsu' : bytes_to_bits ([Consts.MAGIC_CHUNK_BYTE] ++ bs) ++ rest = s ++ u)
      by (rewrite <- Hsplit; exact Hsu).
    clear Hsu Hsplit. rename Hsu' into Hsu.
    assert (Hrl : Nlen rest = 8 * (Nlen r + 1)).
    { unfold rest. rewrite bytes_to_bits_Nlen, Nlen_app. reflexivity. }
    assert (Hs8 : Nlen s mod 8 = 0).
    { apply (Nlen_mod8_split s u (Nlen ([Consts.MAGIC_CHUNK_BYTE] ++ bs) + (Nlen r + 1))); [|exact Hu].
      rewrite <- Nlen_app, <- Hsu, Nlen_app, bytes_to_bits_Nlen, Hrl. lia. }
    assert (Hbit : r_bit st mod 8 = 0) by (apply (at_suffix_bit_mod st _ Hat); exact Hs8).
    destruct (chunk_roundtrip d f xs table m bs Hok1 Ep)
      as (body & m' & c & _ & Hnew & (mbits & Hmb) & Hall).
    destruct (Hall (r_bit st) (total_bits st) rest Hbit) as (Hrcm & c' & Hbody).
    { set (X := Nlen r) in *. clearbody X. lia. }
    { set (X := Nlen r) in *. clearbody X. lia. }
    rewrite Hsu in Hrcm. rewrite Hmb in Hsu.
    cbn [simple_loop].
    destruct (read_chunk_meta_prefix d f (r_bit st) s u _ _ Hu Hrcm) as [E|(r1 & E & Er1)].
    { rewrite (r_step_meta_err d st f InsufficientData); try assumption; [reflexivity|].
      rewrite (at_suffix_stream st _ Hat). exact E. }
    rewrite (r_step_meta_some d st f m' c r1); try assumption;
      [|rewrite (at_suffix_stream st _ Hat); exact E].
    set (st1 := mkR (r_bytes st) (pos_after st r1) (r_flags st) (Some c) (r_term st)).
    assert (Hs1 : s = mbits ++ r1).
    { apply (app_inv_tail u). rewrite <- Hsu, <- !app_assoc, Er1. reflexivity. }
    assert (Hat1 : at_suffix st1 r1).
    { apply (at_suffix_advance st mbits). rewrite <- Hs1. exact Hat. }
    rewrite Er1 in Hbody.
    destruct (cbd_batch_prefix d f (total_bits st1) (total_bits st) c (pow2 64 - 1) r1 u
                xs true c' rest Hu (new_cbd_table_ok _ _ _ Hnew) Hbody) as [E2|(r2 & E2 & Er2)].
    { rewrite (r_step_body_err d st1 f c InsufficientData); try assumption; try reflexivity.
      rewrite (at_suffix_stream st1 _ Hat1). exact E2. }
    rewrite (r_step_body_ok d st1 f c xs true c' r2); try assumption; try reflexivity;
      [|rewrite (at_suffix_stream st1 _ Hat1); exact E2].
    set (st2 := mkR (r_bytes st1) (pos_after st1 r2) (r_flags st1) None (r_term st1)).
    assert (Hr1 : r1 = body ++ r2).
    { apply (app_inv_tail u). rewrite <- Er1, Er2, <- app_assoc. reflexivity. }
    assert (Hat2 : at_suffix st2 r2).
    { apply (at_suffix_advance st1 body). rewrite <- Hr1. exact Hat1. }
    apply (IH r fuel st2 (acc ++ xs) r2); try assumption; try reflexivity.
Qed.

(* the property: a strict byte-prefix of a written file decodes to InsufficientData *)
Theorem truncation : forall d order gcds chunks bytes L,
  order <= 7 ->
  Forall (chunk_ok d (writer_flags order gcds)) chunks ->
  file_bytes d (writer_flags order gcds) chunks = Ok bytes ->
  (L < length bytes)%nat ->
  decode_file d (firstn L bytes) = Err InsufficientData.
Proof.
  intros d order gcds chunks bytes L Ho Hok Hfb HL.
  set (f := writer_flags order gcds) in *.
  unfold file_bytes in Hfb.
  destruct (header_bytes d f) as [hb| |] eqn:Eh; cbn [bind] in Hfb; try discriminate.
  destruct (chunks_bytes d f chunks) as [cb| |] eqn:Ec; cbn [bind] in Hfb; try discriminate.
  assert (Hb : hb ++ cb ++ [Consts.MAGIC_TERMINATION_BYTE] = bytes) by congruence. clear Hfb.
  set (tail := cb ++ [Consts.MAGIC_TERMINATION_BYTE]) in *.
  destruct (header_roundtrip d order gcds hb tail Ho Eh) as (Hrh & hbits & Hsplit).
  fold f in Hrh. rewrite Hb in Hrh, Hsplit.
  set (T := firstn L bytes). set (u := bytes_to_bits (skipn L bytes)).
  assert (Hfull : bytes_to_bits bytes = bytes_to_bits T ++ u).
  { unfold T, u. rewrite <- bytes_to_bits_app, firstn_skipn. reflexivity. }
  assert (Hul : Nlen u = 8 * Nlen (skipn L bytes)) by apply bytes_to_bits_Nlen.
  assert (Hu8 : 8 <= Nlen u).
  { rewrite Hul. unfold Nlen. rewrite skipn_length. lia. }
  assert (Hu : Nlen u mod 8 = 0).
  { rewrite Hul. set (X := Nlen (skipn L bytes)). clearbody X. lia. }
  rewrite Hfull in Hrh, Hsplit.
  unfold decode_file, simple_decompress.
  set (st0 := mkR T 0 None None false).
  assert (Hst0 : stream st0 = bytes_to_bits T) by reflexivity.
  destruct (read_header_prefix d 0 (bytes_to_bits T) u f _ Hu Hrh) as [E|(r1 & E & Er1)].
  { rewrite (r_step_header_err d st0 InsufficientData); try reflexivity. rewrite Hst0. exact E. }
  rewrite (r_step_header_ok d st0 f r1); try reflexivity; [|rewrite Hst0; exact E].
  set (st1 := mkR (r_bytes st0) (pos_after st0 r1) (Some f) (r_cbd st0) (r_term st0)).
  assert (HT : bytes_to_bits T = hbits ++ r1).
  { apply (app_inv_tail u). rewrite Hsplit, Er1, <- app_assoc. reflexivity. }
  assert (Hat0 : at_suffix st0 (hbits ++ r1)).
  { exists []. split; [exact HT|reflexivity]. }
  assert (Hat1 : at_suffix st1 r1) by (apply (at_suffix_advance st0 hbits); exact Hat0).
  pose proof (simple_loop_trunc d f u Hu8 Hu chunks cb (S (length (r_bytes st0))) st1 [] r1
                Hok Ec Er1 Hat1 eq_refl eq_refl eq_refl) as Hloop.
  destruct (simple_loop (S (length (r_bytes st0))) d st1 []) as [st2 res].
  cbn [snd] in Hloop. rewrite Hloop. reflexivity.
Qed.

Print Assumptions parse_meta_ext.
Print Assumptions read_header_ext.
Print Assumptions read_chunk_meta_ext.
Print Assumptions read_code_at_sound.
Print Assumptions read_code_at_prefix.
Print Assumptions read_batch_prefix.
Print Assumptions cbd_batch_prefix.
Print Assumptions truncation.
