(* FileL.v — whole-file lossless round trip of the model: file_bytes then decode_file,
   for every data type, delta order 0..7, gcds on/off, any number of chunks and any
   tables that cover their chunk. *)
From QCo.Lemmas Require Import Tactics BitsL DTypeL DeltaL FlagsL CodecL MetaL BodyL HeaderL.
From QCo.Model Require Import Base Consts DType Codec Writer Reader.
Open Scope N_scope.

(* ================================================================== *)
(* 1. bits -> bytes -> bits                                            *)
(* ================================================================== *)

Lemma putn8_bits_val b7 b6 b5 b4 b3 b2 b1 b0 :
  putn 8 (bits_val [b7; b6; b5; b4; b3; b2; b1; b0]) = [b7; b6; b5; b4; b3; b2; b1; b0].
Proof. destruct b7, b6, b5, b4, b3, b2, b1, b0; reflexivity. Qed.

Lemma bytes_to_bits_fuel : forall (k : nat) (s : bits) (fuel : nat),
  length s = (8 * k)%nat -> (k < fuel)%nat ->
  bytes_to_bits (bits_to_bytes_fuel fuel s) = s.
Proof.
  induction k as [|k IH]; intros s fuel Hl Hf.
  - destruct s; [|cbn [length] in Hl; lia]. destruct fuel; reflexivity.
  - destruct fuel as [|fuel]; [lia|].
    destruct s as [|b7 [|b6 [|b5 [|b4 [|b3 [|b2 [|b1 [|b0 s]]]]]]]]; cbn [length] in Hl; try lia.
    cbn [bits_to_bytes_fuel firstn skipn length Nat.sub repeat app].
    unfold bytes_to_bits. cbn [flat_map]. fold (bytes_to_bits (bits_to_bytes_fuel fuel s)).
    unfold byte_bits. rewrite putn8_bits_val.
    rewrite IH by lia. reflexivity.
Qed.

(* the converse of BitsL.bits_to_bytes_bytes *)
Theorem bytes_to_bits_to_bytes : forall s : bits,
  Nlen s mod 8 = 0 -> bytes_to_bits (bits_to_bytes s) = s.
Proof.
  intros s H. unfold bits_to_bytes.
  apply (bytes_to_bits_fuel (length s / 8)).
  - unfold Nlen in H.
    assert (E : (length s mod 8 = 0)%nat) by lia.
    pose proof (Nat.div_mod (length s) 8). lia.
  - pose proof (Nat.div_mod (length s) 8). lia.
Qed.

Lemma bits_to_bytes_Nlen s : Nlen s mod 8 = 0 -> 8 * Nlen (bits_to_bytes s) = Nlen s.
Proof.
  intros H. pose proof (bytes_to_bits_length (bits_to_bytes s)) as E.
  rewrite bytes_to_bits_to_bytes in E by exact H. unfold Nlen. lia.
Qed.

Lemma bytes_to_bits_Nlen bs : Nlen (bytes_to_bits bs) = 8 * Nlen bs.
Proof. unfold Nlen. rewrite bytes_to_bits_length. lia. Qed.

(* ================================================================== *)
(* 2. the body under the normalised table                              *)
(* ================================================================== *)
(* After the metadata round trip the reader holds [norm_table f pd table]: the gcd of
   every prefix is replaced by the common gcd [g].  Prefixes whose range holds more
   than one value already carry [g]; for a single-valued range the divisor plays no
   role.  [gcd_hyp g ps] is that situation. *)
Definition gcd_hyp (g : N) (ps : list prefix) : Prop :=
  forall p, In p ps -> p_lower p <> p_upper p -> p_gcd p = g.

Lemma contains_set_gcd g p u : contains (set_gcd g p) u = contains p u.
Proof. reflexivity. Qed.

Lemma find_prefix_map_set_gcd g ps u :
  find_prefix (map (set_gcd g) ps) u = option_map (set_gcd g) (find_prefix ps u).
Proof.
  unfold find_prefix. induction ps as [|p t IH]; [reflexivity|].
  cbn [map find]. rewrite contains_set_gcd. destruct (contains p u); [reflexivity|exact IH].
Qed.

Lemma contains_single p u : p_lower p = p_upper p -> contains p u = true -> u = p_lower p.
Proof.
  intros E H. unfold contains in H. apply andb_true_iff in H. destruct H as [H1 H2].
  apply N.leb_le in H1. apply N.leb_le in H2. lia.
Qed.

Lemma write_num_offset_set_gcd g p u :
  (p_lower p <> p_upper p -> p_gcd p = g) -> contains p u = true ->
  write_num_offset (set_gcd g p) u = write_num_offset p u.
Proof.
  intros H Hc. destruct (N.eq_dec (p_lower p) (p_upper p)) as [E|E].
  - pose proof (contains_single p u E Hc) as ->.
    unfold write_num_offset. rewrite (p_range_single g p E).
    unfold p_range, offset_of. cbn [set_gcd p_lower p_upper p_gcd].
    rewrite E, !N.sub_diag. destruct g, (p_gcd p); reflexivity.
  - rewrite <- (H E), set_gcd_same. reflexivity.
Qed.

Lemma flat_map_ext_Forall {A B} (f g : A -> list B) (P : A -> Prop) l :
  (forall x, P x -> f x = g x) -> Forall P l -> flat_map f l = flat_map g l.
Proof.
  intros H HF. induction HF as [|x l Hx _ IH]; [reflexivity|].
  cbn [flat_map]. rewrite (H x Hx), IH. reflexivity.
Qed.

Lemma run_len_set_gcd g p t : run_len (set_gcd g p) t = run_len p t.
Proof. induction t as [|x t IH]; [reflexivity|]. cbn [run_len]. rewrite contains_set_gcd, IH. reflexivity. Qed.

(* same bits *)
Lemma write_body_fuel_set_gcd g ps : gcd_hyp g ps -> forall fuel us,
  write_body_fuel fuel (map (set_gcd g) ps) us = write_body_fuel fuel ps us.
Proof.
  intros H. induction fuel as [|fuel IH]; intros us; [reflexivity|].
  destruct us as [|u t]; [reflexivity|].
  cbn [write_body_fuel]. rewrite find_prefix_map_set_gcd.
  destruct (find_prefix ps u) as [p|] eqn:Ef; cbn [option_map]; [|reflexivity].
  destruct (find_prefix_some _ _ _ Ef) as [Hin Hc].
  change (p_jump (set_gcd g p)) with (p_jump p).
  change (p_code (set_gcd g p)) with (p_code p).
  destruct (p_jump p) as [j|].
  - rewrite run_len_set_gcd, IH.
    rewrite (flat_map_ext_Forall (write_num_offset (set_gcd g p)) (write_num_offset p)
               (fun x => contains p x = true)); [reflexivity| |].
    + intros x Hx. apply write_num_offset_set_gcd; [apply H; exact Hin|exact Hx].
    + constructor; [exact Hc|apply run_len_contains].
  - rewrite IH, (write_num_offset_set_gcd g p u (H p Hin) Hc). reflexivity.
Qed.

Lemma map_p_code_set_gcd g ps : map p_code (map (set_gcd g) ps) = map p_code ps.
Proof. rewrite map_map. reflexivity. Qed.

Lemma max_code_len_set_gcd g ps : max_code_len (map (set_gcd g) ps) = max_code_len ps.
Proof. induction ps as [|p t IH]; [reflexivity|]. cbn [map]. rewrite !max_code_len_cons, IH. reflexivity. Qed.

Lemma table_ok_set_gcd g ps : table_ok (map (set_gcd g) ps) = table_ok ps.
Proof.
  destruct ps as [|p t]; [reflexivity|].
  unfold table_ok. rewrite map_p_code_set_gcd, max_code_len_set_gcd. reflexivity.
Qed.

Lemma wf_table_set_gcd w g ps : 1 <= g -> wf_table w ps -> wf_table w (map (set_gcd g) ps).
Proof.
  intros Hg (H1 & H2 & H3). split; [rewrite table_ok_set_gcd; exact H1|].
  split; [|rewrite max_code_len_set_gcd; exact H3].
  apply Forall_forall. intros q Hq. apply in_map_iff in Hq. destruct Hq as (p & <- & Hp).
  rewrite Forall_forall in H2. destruct (H2 p Hp) as (_ & A & B & C).
  unfold BodyL.wf_prefix. cbn [set_gcd p_gcd p_lower p_upper p_jump]. repeat split; try assumption. lia.
Qed.

Lemma good_set_gcd g ps u : gcd_hyp g ps -> good ps u -> good (map (set_gcd g) ps) u.
Proof.
  intros H [[p Hf] Hm]. split.
  - exists (set_gcd g p). rewrite find_prefix_map_set_gcd, Hf. reflexivity.
  - intros q Hq Hc. apply in_map_iff in Hq. destruct Hq as (p' & <- & Hp').
    rewrite contains_set_gcd in Hc.
    destruct (N.eq_dec (p_lower p') (p_upper p')) as [E|E].
    + pose proof (contains_single p' u E Hc) as ->.
      cbn [set_gcd p_lower p_gcd]. rewrite N.sub_diag. destruct g; reflexivity.
    + rewrite <- (H p' Hp' E), set_gcd_same. apply Hm; assumption.
Qed.

Lemma disjoint_table_set_gcd g ps : disjoint_table ps -> disjoint_table (map (set_gcd g) ps).
Proof.
  intros D q1 q2 u H1 H2 C1 C2.
  apply in_map_iff in H1. destruct H1 as (p1 & <- & Hp1).
  apply in_map_iff in H2. destruct H2 as (p2 & <- & Hp2).
  rewrite contains_set_gcd in C1, C2. rewrite (D p1 p2 u Hp1 Hp2 C1 C2). reflexivity.
Qed.

Lemma covered_set_gcd g ps u : gcd_hyp g ps -> covered ps u -> covered (map (set_gcd g) ps) u.
Proof.
  intros H (p & Hf & Hm). exists (set_gcd g p). rewrite find_prefix_map_set_gcd, Hf.
  split; [reflexivity|]. destruct (find_prefix_some _ _ _ Hf) as [Hin Hc].
  destruct (N.eq_dec (p_lower p) (p_upper p)) as [E|E].
  - pose proof (contains_single p u E Hc) as ->.
    cbn [set_gcd p_lower p_gcd]. rewrite N.sub_diag. destruct g; reflexivity.
  - rewrite <- (H p Hin E), set_gcd_same. exact Hm.
Qed.

(* what the reader's table is, for a table the writer can record *)
Lemma norm_table_shape f pd ps :
  Forall (fun p => 1 <= p_gcd p) ps ->
  (fgcd f = false -> Forall (fun p => p_gcd p = 1) ps) ->
  norm_table f pd ps = ps \/
  exists g, 1 <= g /\ gcd_hyp g ps /\ norm_table f pd ps = map (set_gcd g) ps.
Proof.
  intros Hpos Hno. unfold norm_table. destruct (fgcd f) eqn:Ef.
  - destruct (common_gcd pd ps) as [g|] eqn:Ec; [|left; reflexivity].
    right. exists g. split; [exact (common_gcd_pos pd ps g Hpos Ec)|]. split; [|reflexivity].
    intros p Hin Hne. exact (common_gcd_multi pd ps g p Ec Hin Hne).
  - right. exists 1. split; [lia|]. split; [|reflexivity].
    intros p Hin _. specialize (Hno eq_refl). rewrite Forall_forall in Hno. auto.
Qed.

(* 2. the normalised-table body lemma: same bits, and the table still decodes them *)
Theorem norm_table_body : forall f pd w ps us,
  Forall (fun p => 1 <= p_gcd p) ps ->
  (fgcd f = false -> Forall (fun p => p_gcd p = 1) ps) ->
  wf_table w ps -> Forall (good ps) us ->
  let qs := norm_table f pd ps in
  wf_table w qs /\ Forall (good qs) us /\ (qs = [] <-> ps = []) /\
  forall fuel, write_body_fuel fuel qs us = write_body_fuel fuel ps us.
Proof.
  intros f pd w ps us Hpos Hno Hwf Hg qs. subst qs.
  destruct (norm_table_shape f pd ps Hpos Hno) as [->|(g & Hg1 & Hh & ->)].
  - split; [exact Hwf|]. split; [exact Hg|]. split; [tauto|reflexivity].
  - split; [apply wf_table_set_gcd; assumption|].
    split; [eapply Forall_impl; [|exact Hg]; intros u; apply good_set_gcd; exact Hh|].
    split; [destruct ps; cbn [map]; split; congruence|].
    intros fuel. apply write_body_fuel_set_gcd. exact Hh.
Qed.

(* the same for tables given with disjoint ranges and coverage *)
Theorem norm_table_body_dc : forall f pd ps us,
  Forall (fun p => 1 <= p_gcd p) ps ->
  (fgcd f = false -> Forall (fun p => p_gcd p = 1) ps) ->
  disjoint_table ps -> Forall (covered ps) us ->
  let qs := norm_table f pd ps in
  disjoint_table qs /\ Forall (covered qs) us.
Proof.
  intros f pd ps us Hpos Hno D Hc qs. subst qs.
  destruct (norm_table_shape f pd ps Hpos Hno) as [->|(g & Hg1 & Hh & ->)]; [auto|].
  split; [apply disjoint_table_set_gcd; exact D|].
  eapply Forall_impl; [|exact Hc]. intros u. apply covered_set_gcd. exact Hh.
Qed.

(* ================================================================== *)
(* 3. one chunk                                                        *)
(* ================================================================== *)

(* ---- one batch holding the whole body, stated with [good] ---- *)
Lemma batch_roundtrip_good w ps us b :
  wf_table w ps -> Forall (good ps) us -> Nlen us < 2 ^ 24 -> enc ps us b ->
  forall tb rest limit eoi, enough_rest ps rest -> Nlen us <= limit ->
  read_batch w tb ps (Nlen us) None limit eoi (b ++ rest) = mkBatch us rest None true SOk.
Proof.
  intros Hwf Hg Hlen He tb rest limit eoi Hrest Hlim.
  destruct us as [|u t].
  - rewrite (enc_nil _ _ He). rewrite Nlen_nil. unfold read_batch. cbv zeta.
    replace (N.min 0 limit) with 0 by lia. cbn [N.eqb app].
    replace (0 <=? limit) with true by (symmetry; apply N.leb_le; lia). reflexivity.
  - set (us := u :: t) in *.
    assert (Hpos : 0 < Nlen us) by (unfold us; rewrite Nlen_cons; lia).
    destruct (read_batch_gen w tb ps rest Hwf Hrest us None (b ++ rest) limit eoi)
      as (s' & inc' & Hrb & Hinv); try assumption; try lia.
    + cbn [stream_inv]. exists b. split; [exact He|reflexivity].
    + rewrite N.min_l in Hrb, Hinv by lia. rewrite Nlen_to_nat in Hrb, Hinv.
      rewrite firstn_all in Hrb. rewrite skipn_all in Hinv.
      apply stream_inv_nil in Hinv. destruct Hinv as [-> ->]. rewrite Hrb.
      replace (Nlen us <=? limit) with true by (symmetry; apply N.leb_le; lia). reflexivity.
Qed.

(* ---- the size of a written body ---- *)
Lemma ubits_le_128 d : ubits d <= 128.
Proof. destruct d; vm_compute; discriminate. Qed.

Lemma write_num_offset_length w p u :
  BodyL.wf_prefix w p -> Nlen (write_num_offset p u) <= w + 1.
Proof.
  intros (Hg & Hlu & Hu & _). unfold write_num_offset.
  pose proof (write_offset_length (p_range p) (offset_of p u)) as H.
  destruct (prefix_facts w p Hg Hlu Hu) as (_ & Hk & _). lia.
Qed.

Lemma flat_map_offsets_length w p l :
  BodyL.wf_prefix w p -> Nlen (flat_map (write_num_offset p) l) <= (w + 1) * Nlen l.
Proof.
  intros Hp. induction l as [|x l IH]; [cbn [flat_map]; unfold Nlen; cbn [length]; lia|].
  cbn [flat_map]. rewrite Nlen_app, Nlen_cons.
  pose proof (write_num_offset_length w p x Hp). lia.
Qed.

Lemma write_body_fuel_length w ps : wf_table w ps -> forall fuel us b,
  Nlen us < 2 ^ 24 -> write_body_fuel fuel ps us = Ok b ->
  Nlen b <= (w + 89) * Nlen us.
Proof.
  intros (Hok & Hwf & Hml). rewrite Forall_forall in Hwf.
  induction fuel as [|fuel IH]; intros us b Hlen Hw.
  - cbn [write_body_fuel] in Hw. inversion Hw; subst. rewrite Nlen_nil. lia.
  - destruct us as [|u t].
    + cbn [write_body_fuel] in Hw. inversion Hw; subst. rewrite Nlen_nil. lia.
    + cbn [write_body_fuel] in Hw. rewrite Nlen_cons in *.
      destruct (find_prefix ps u) as [p|] eqn:Ef; [|discriminate].
      destruct (find_prefix_some _ _ _ Ef) as [Hin _].
      pose proof (Hwf p Hin) as Hp.
      assert (Hcl : Nlen (p_code p) <= 40).
      { pose proof (max_code_len_In ps p Hin). unfold Nlen. lia. }
      destruct (p_jump p) as [j|] eqn:Ej.
      * pose proof (run_len_le p t) as Hrl.
        set (extra := run_len p t) in *.
        destruct (write_body_fuel fuel ps (skipn extra t)) as [r| |] eqn:Er;
          cbn [bind] in Hw; try discriminate.
        inversion Hw; subst b; clear Hw.
        assert (Hsk : Nlen (skipn extra t) = Nlen t - N.of_nat extra).
        { unfold Nlen. rewrite skipn_length. lia. }
        assert (Hr : Nlen r <= (w + 89) * Nlen (skipn extra t)) by (apply IH; [lia|exact Er]).
        assert (Hj : j <= 24) by (destruct Hp as (_ & _ & _ & Hj); auto).
        assert (Hex : N.of_nat extra < 2 ^ 24) by (unfold Nlen in Hlen; lia).
        pose proof (write_varint_length_le j (N.of_nat extra) Hj Hex) as Hv.
        pose proof (flat_map_offsets_length w p (u :: firstn extra t) Hp) as Hfm.
        rewrite Nlen_cons in Hfm. cbn [flat_map] in Hfm. rewrite Nlen_app in Hfm.
        assert (Hfl : Nlen (firstn extra t) = N.of_nat extra).
        { unfold Nlen. rewrite firstn_length. lia. }
        rewrite Hfl in Hfm. rewrite !Nlen_app. rewrite Hsk in Hr.
        assert (Hle : N.of_nat extra <= Nlen t) by (unfold Nlen; lia).
        set (E := N.of_nat extra) in *. set (T := Nlen t) in *.
        set (A := Nlen (p_code p)) in *. set (B := Nlen (write_varint E j)) in *.
        set (C := Nlen (flat_map (write_num_offset p) (firstn extra t))) in *.
        set (C' := Nlen (write_num_offset p u)) in *.
        set (D := Nlen r) in *. clearbody E T A B C C' D.
        assert (HT : T = E + (T - E)) by lia. set (F := T - E) in *. clearbody F. subst T.
        lia.
      * destruct (write_body_fuel fuel ps t) as [r| |] eqn:Er; cbn [bind] in Hw; try discriminate.
        inversion Hw; subst b; clear Hw.
        assert (Hr : Nlen r <= (w + 89) * Nlen t) by (apply IH; [lia|exact Er]).
        pose proof (write_num_offset_length w p u Hp) as Ho.
        rewrite !Nlen_app. lia.
Qed.

Lemma pad8_Nlen_le s : Nlen (pad8 s) <= Nlen s + 7.
Proof.
  unfold pad8. rewrite Nlen_app, Nlen_repeat, N2Nat.id.
  pose proof (pad_len_lt (N.of_nat (length s))). unfold Nlen. lia.
Qed.

(* the compressed body size always fits its 32-bit field *)
Lemma body_bytes_bound w ps us body :
  wf_table w ps -> w <= 128 -> Nlen us < 2 ^ 24 -> write_body ps us = Ok body ->
  Nlen body mod 8 = 0 /\ Nlen (bits_to_bytes body) < 2 ^ 32.
Proof.
  intros Hwf Hw Hlen H. unfold write_body in H.
  destruct (write_body_fuel (length us) ps us) as [b| |] eqn:E; cbn [bind] in H; try discriminate.
  inversion H; subst body. split; [apply pad8_length|].
  pose proof (write_body_fuel_length w ps Hwf _ _ _ Hlen E) as Hb.
  pose proof (pad8_Nlen_le b) as Hp.
  pose proof (bits_to_bytes_Nlen (pad8 b) (pad8_length b)) as Hbb.
  change (2 ^ 24) with 16777216 in Hlen. change (2 ^ 32) with 4294967296.
  set (X := Nlen (bits_to_bytes (pad8 b))) in *. set (Y := Nlen (pad8 b)) in *.
  set (Z := Nlen b) in *. set (U := Nlen us) in *. clearbody X Y Z U.
  assert (Hm : (w + 89) * U <= 217 * U) by (apply N.mul_le_mono_r; lia).
  lia.
Qed.

(* ---- the hypotheses on a chunk: its numbers and the table chosen for them ---- *)
(* [xs] may be empty; every number is representable (for the 96-bit timestamps this is
   weaker than [valid]); the table is a valid Huffman table whose ranges hold the chunk's
   unsigneds on their gcd lattice ([good]; implied by [disjoint_table] + [covered]) and
   whose fields fit the metadata format. *)
Definition chunk_ok (d : dtype) (f : flags) (c : list Z * list prefix) : Prop :=
  let xs := fst c in
  let table := snd c in
  let pd := pdt f d in
  Nlen xs < 2 ^ 24 /\
  Forall (fun x => representable d x = true) xs /\
  wf_table (ubits pd) table /\
  Forall (good table) (chunk_unsigneds d (ford f) xs) /\
  Nlen table < 2 ^ 15 /\
  Forall (MetaL.wf_prefix f pd (Nlen xs) (table_common f pd table)) table /\
  (fgcd f = false -> Forall (fun p => p_gcd p = 1) table) /\
  (forall g, fgcd f = true -> common_gcd pd table = Some g -> g <= umax (ubits pd)).

Lemma valid_representable d x : valid d x = true -> representable d x = true.
Proof. destruct d; try (intros H; exact H); unfold_dt; lia. Qed.

(* the same with the hypotheses of BodyL.batch_roundtrip and [valid] numbers *)
Lemma chunk_ok_intro d f xs table :
  let pd := pdt f d in
  Nlen xs < 2 ^ 24 ->
  Forall (fun x => valid d x = true) xs ->
  wf_table (ubits pd) table -> disjoint_table table ->
  Forall (covered table) (chunk_unsigneds d (ford f) xs) ->
  Nlen table < 2 ^ 15 ->
  Forall (MetaL.wf_prefix f pd (Nlen xs) (table_common f pd table)) table ->
  (fgcd f = false -> Forall (fun p => p_gcd p = 1) table) ->
  (forall g, fgcd f = true -> common_gcd pd table = Some g -> g <= umax (ubits pd)) ->
  chunk_ok d f (xs, table).
Proof.
  intros pd H1 H2 H3 H4 H5 H6 H7 H8 H9. unfold chunk_ok. cbn [fst snd].
  repeat (split; [assumption|]).
  split; [eapply Forall_impl; [|exact H2]; intros x; apply valid_representable|].
  split; [assumption|]. split; [apply Forall_covered_good; assumption|].
  repeat (split; [assumption|]). assumption.
Qed.

Lemma chunk_unsigneds_Nlen d o xs : Nlen (chunk_unsigneds d o xs) = Nlen xs - o.
Proof.
  unfold chunk_unsigneds. destruct (o =? 0) eqn:E.
  - apply N.eqb_eq in E. subst o. unfold Nlen. rewrite map_length. lia.
  - unfold Nlen. rewrite delta_unsigneds_length. lia.
Qed.

Lemma representable_sdt_valid d x : representable (sdt d) x = valid (sdt d) x.
Proof. destruct d; reflexivity. Qed.

Lemma chunk_moments_length d o xs : length (chunk_moments d o xs) = N.to_nat o.
Proof.
  unfold chunk_moments. destruct (o =? 0) eqn:E.
  - apply N.eqb_eq in E. subst o. reflexivity.
  - apply delta_moments_length.
Qed.

Lemma chunk_moments_valid d o xs :
  Forall (fun x => representable d x = true) xs ->
  Forall (fun x => valid (sdt d) x = true) (chunk_moments d o xs).
Proof.
  intros H. unfold chunk_moments. destruct (o =? 0); [constructor|].
  unfold delta_moments.
  eapply Forall_impl; [|apply moments_of_srep; apply Forall_firstn; apply Forall_srep_to_s; exact H].
  intros x Hx. unfold srep in Hx. rewrite <- representable_sdt_valid. exact Hx.
Qed.

Lemma ubits_pdt f d : ubits (pdt f d) = ubits d.
Proof. unfold pdt. destruct (ford f =? 0); [reflexivity|apply ubits_sdt]. Qed.

Lemma chunk_wf_meta d f xs table body :
  chunk_ok d f (xs, table) ->
  write_body table (chunk_unsigneds d (ford f) xs) = Ok body ->
  wf_meta f d (mkMeta (Nlen xs) (Nlen (bits_to_bytes body)) (chunk_moments d (ford f) xs) table).
Proof.
  unfold chunk_ok. cbn [fst snd]. intros (Hn & Hrep & Hwf & Hg & Hnt & Hmp & Hno & Hcg) Hb.
  unfold wf_meta. cbn [m_n m_body m_moments m_table].
  split; [exact Hn|]. split.
  { change (2 ^ Consts.BITS_TO_ENCODE_COMPRESSED_BODY_SIZE) with (2 ^ 32).
    apply (body_bytes_bound (ubits (pdt f d)) table (chunk_unsigneds d (ford f) xs) body);
      try assumption.
    - apply ubits_le_128.
    - rewrite chunk_unsigneds_Nlen. lia. }
  split; [apply chunk_moments_length|].
  split; [apply chunk_moments_valid; exact Hrep|].
  repeat (split; [assumption|]). assumption.
Qed.

(* ---- decoding the unsigneds back to numbers ---- *)
Lemma map_of_u_to_u d xs :
  Forall (fun x => representable d x = true) xs -> map (of_u d) (map (to_u d) xs) = xs.
Proof.
  induction 1; cbn [map]; [reflexivity|]. rewrite of_u_to_u by assumption. congruence.
Qed.

Lemma delta_decode d order xs :
  1 <= order -> Forall (fun x => representable d x = true) xs ->
  fst (reconstruct d (length xs) (delta_moments d order xs)
         (map (of_u (sdt d)) (delta_unsigneds d order xs))) = xs.
Proof.
  intros Ho H. unfold delta_unsigneds. rewrite map_of_u_to_u.
  - apply reconstruct_delta_roundtrip; assumption.
  - apply deltas_n_srep. apply Forall_srep_to_s. exact H.
Qed.

(* ---- the number decompressor on a whole written body ---- *)
Lemma nd_batch_whole w tb qs us b body_n total moments rest :
  wf_table w qs -> Forall (good qs) us -> Nlen us < 2 ^ 24 -> enc qs us b ->
  8 <= Nlen rest -> Nlen rest mod 8 = 0 -> body_n * 8 = Nlen (pad8 b) ->
  nd_batch w tb (mkCbd (Nlen us) total body_n qs moments 0 (mkNd 0 0 None))
           (pow2 64 - 1) true (pad8 b ++ rest)
  = Ok (us, true, mkNd (Nlen us) (Nlen (pad8 b)) None, rest).
Proof.
  intros Hwf Hg Hlen He Hr8 Hrm Hbody.
  assert (E : 0 + (Nlen (pad8 b ++ rest) - Nlen rest) = Nlen (pad8 b)).
  { rewrite Nlen_app. lia. }
  unfold nd_batch. cbn [c_nd c_n nd_nproc nd_incomplete nd_bproc c_table c_body].
  replace (Nlen us <? 0) with false by (symmetry; apply N.ltb_ge; lia).
  rewrite N.sub_0_r.
  assert (Hlim : Nlen us <= pow2 64 - 1).
  { unfold pow2. change (2 ^ 64) with 18446744073709551616.
    change (2 ^ 24) with 16777216 in Hlen. lia. }
  set (L := Nlen (pad8 b)) in *. clearbody L.
  unfold pad8 in *. rewrite <- app_assoc in *.
  change (N.of_nat (length b)) with (Nlen b) in *.
  rewrite (batch_roundtrip_good w qs us b Hwf Hg Hlen He tb _ (pow2 64 - 1) true).
  - cbn [b_status b_finished b_rest b_nums b_incomplete].
    rewrite drain_pad_pad8 by exact Hrm. cbn [bind].
    rewrite E.
    replace (body_n * 8 =? L) with true by (symmetry; apply N.eqb_eq; exact Hbody).
    cbn [negb andb]. rewrite N.add_0_l. reflexivity.
  - apply enough_rest_8. rewrite Nlen_app. lia.
  - exact Hlim.
Qed.

(* ---- the chunk body decompressor on a whole written body ---- *)
Lemma cbd_batch_whole d f tb qs xs b body_n rest :
  Nlen xs < 2 ^ 24 ->
  Forall (fun x => representable d x = true) xs ->
  let us := chunk_unsigneds d (ford f) xs in
  wf_table (ubits (pdt f d)) qs -> Forall (good qs) us -> enc qs us b ->
  8 <= Nlen rest -> Nlen rest mod 8 = 0 -> body_n * 8 = Nlen (pad8 b) ->
  exists c',
  cbd_batch d f tb (mkCbd (Nlen xs - ford f) (Nlen xs) body_n qs (chunk_moments d (ford f) xs) 0
                          (mkNd 0 0 None))
            (pow2 64 - 1) true (pad8 b ++ rest)
  = Ok (xs, true, c', rest).
Proof.
  intros Hn Hrep us Hwf Hg He Hr8 Hrm Hbody.
  assert (Hul : Nlen us = Nlen xs - ford f) by apply chunk_unsigneds_Nlen.
  assert (Hus : Nlen us < 2 ^ 24) by lia.
  unfold cbd_batch. rewrite <- Hul.
  rewrite (nd_batch_whole (ubits (pdt f d)) tb qs us b body_n (Nlen xs) _ rest
             Hwf Hg Hus He Hr8 Hrm Hbody).
  cbn [bind]. destruct (ford f =? 0) eqn:Eo.
  - eexists. unfold us, chunk_unsigneds. rewrite Eo.
    rewrite map_of_u_to_u by exact Hrep. reflexivity.
  - apply N.eqb_neq in Eo. cbn [c_total c_numsproc c_moments c_n c_body c_table].
    replace (Nlen xs <? 0) with false by (symmetry; apply N.ltb_ge; lia).
    rewrite N.sub_0_r, N.add_0_l.
    assert (Hmin : N.min (pow2 64 - 1) (Nlen xs) = Nlen xs).
    { unfold pow2. change (2 ^ 64) with 18446744073709551616.
      change (2 ^ 24) with 16777216 in Hn. lia. }
    rewrite Hmin, N.eqb_refl, Nlen_to_nat.
    pose proof (delta_decode d (ford f) xs) as Hd.
    unfold us, chunk_unsigneds, chunk_moments.
    replace (ford f =? 0) with false by (symmetry; apply N.eqb_neq; exact Eo).
    destruct (reconstruct d (length xs) (delta_moments d (ford f) xs)
                (map (of_u (sdt d)) (delta_unsigneds d (ford f) xs))) as [l ms'] eqn:R.
    cbn [fst] in Hd. rewrite Hd by (try assumption; lia).
    eexists. reflexivity.
Qed.

Lemma read_aligned_bytes_at bit bs n s :
  bit mod 8 = 0 -> Forall (fun b => b < 256) bs -> n = Nlen bs ->
  read_aligned bit n (bytes_to_bits bs ++ s) = Ok (bs, s).
Proof.
  intros Hb HF Hn. rewrite <- (read_aligned_bytes bs n s HF Hn).
  unfold read_aligned. rewrite Hb. reflexivity.
Qed.

Lemma good_nil_table us : Forall (good []) us -> us = [].
Proof.
  destruct us as [|u t]; [reflexivity|]. intros H. inversion H as [|? ? [[p Hp] _] _]; subst.
  discriminate Hp.
Qed.

(* 3. one chunk on bit streams: metadata, decompressor construction, whole body *)
Theorem chunk_roundtrip : forall d f xs table m bs,
  chunk_ok d f (xs, table) -> chunk_payload d f table xs = Ok (m, bs) ->
  exists (body : bits) (m' : meta) (c : cbd),
    m' = mkMeta (m_n m) (m_body m) (m_moments m) (norm_table f (pdt f d) (m_table m)) /\
    new_cbd f m' = Ok c /\
    (exists mbits, bytes_to_bits ([Consts.MAGIC_CHUNK_BYTE] ++ bs) = mbits ++ body) /\
    forall bit tb rest, bit mod 8 = 0 -> 8 <= Nlen rest -> Nlen rest mod 8 = 0 ->
      read_chunk_meta d f bit (bytes_to_bits ([Consts.MAGIC_CHUNK_BYTE] ++ bs) ++ rest)
        = Ok (Some m', body ++ rest) /\
      exists c', cbd_batch d f tb c (pow2 64 - 1) true (body ++ rest) = Ok (xs, true, c', rest).
Proof.
  intros d f xs table m bs Hok Hp.
  unfold chunk_payload in Hp.
  set (us := chunk_unsigneds d (ford f) xs) in *.
  destruct (write_body table us) as [body| |] eqn:Eb; cbn [bind] in Hp; try discriminate.
  pose proof (chunk_wf_meta d f xs table body Hok Eb) as Hwfm.
  set (m0 := mkMeta (Nlen xs) (Nlen (bits_to_bytes body)) (chunk_moments d (ford f) xs) table) in *.
  destruct (write_meta f d m0) as [mb| |] eqn:Em; cbn [bind] in Hp; try discriminate.
  inversion Hp; subst m bs; clear Hp.
  pose proof (write_meta_aligned f d m0 mb Em) as Hmb8.
  unfold chunk_ok in Hok. cbn [fst snd] in Hok.
  destruct Hok as (Hn & Hrep & Hwf & Hg & Hnt & Hmp & Hno & Hcg).
  fold us in Hg.
  assert (Hpos : Forall (fun p => 1 <= p_gcd p) table).
  { destruct Hwf as (_ & Hwp & _). eapply Forall_impl; [|exact Hwp].
    intros p (Hp1 & _). lia. }
  destruct (norm_table_body f (pdt f d) (ubits (pdt f d)) table us Hpos Hno Hwf Hg)
    as (Hwfq & Hgq & Hnil & Hsame).
  set (qs := norm_table f (pdt f d) table) in *.
  unfold write_body in Eb.
  destruct (write_body_fuel (length us) table us) as [b| |] eqn:Ebf; cbn [bind] in Eb; try discriminate.
  inversion Eb; subst body; clear Eb.
  assert (He : enc qs us b).
  { exists (length us). split; [lia|]. rewrite Hsame. exact Ebf. }
  assert (Hul : Nlen us = Nlen xs - ford f) by apply chunk_unsigneds_Nlen.
  pose proof (pad8_length b) as Hb8.
  pose proof (bits_to_bytes_Nlen (pad8 b) Hb8) as Hbn.
  exists (pad8 b). eexists. eexists. split; [reflexivity|].
  cbn [m_n m_body m_moments m_table m0].
  split.
  { unfold new_cbd. cbn [m_table m_n m_body m_moments].
    assert (E1 : is_nil qs && (0 <? Nlen xs - ford f) = false).
    { destruct qs as [|q qs'] eqn:Eq; [|reflexivity].
      assert (Ht : table = []) by (apply Hnil; reflexivity).
      rewrite Ht in Hg. apply good_nil_table in Hg. rewrite <- Hul, Hg. reflexivity. }
    fold qs. rewrite E1. destruct Hwfq as (Htok & _). rewrite Htok. cbn [negb]. reflexivity. }
  split.
  { exists (bytes_to_bits [Consts.MAGIC_CHUNK_BYTE] ++ mb).
    rewrite !bytes_to_bits_app.
    rewrite (bytes_to_bits_to_bytes mb Hmb8), (bytes_to_bits_to_bytes (pad8 b) Hb8).
    rewrite <- !app_assoc. reflexivity. }
  intros bit tb rest Hbit Hr8 Hrm.
  split.
  - rewrite !bytes_to_bits_app.
    rewrite (bytes_to_bits_to_bytes mb Hmb8), (bytes_to_bits_to_bytes (pad8 b) Hb8).
    rewrite <- !app_assoc.
    unfold read_chunk_meta.
    rewrite (read_aligned_bytes_at bit [Consts.MAGIC_CHUNK_BYTE] 1);
      [|exact Hbit|repeat constructor|reflexivity].
    cbn [bind].
    change (list_eqb N.eqb [Consts.MAGIC_CHUNK_BYTE] [Consts.MAGIC_TERMINATION_BYTE]) with false.
    change (list_eqb N.eqb [Consts.MAGIC_CHUNK_BYTE] [Consts.MAGIC_CHUNK_BYTE]) with true.
    cbn [negb].
    rewrite (meta_roundtrip f d m0 mb (pad8 b ++ rest) Hwfm Em).
    + cbn [bind]. reflexivity.
    + rewrite Nlen_app. set (A := Nlen (pad8 b)) in *. set (B := Nlen rest) in *.
      clearbody A B. lia.
  - apply cbd_batch_whole; try assumption. lia.
Qed.

(* ================================================================== *)
(* 4. the whole file through the reader state machine                  *)
(* ================================================================== *)

(* the reader is positioned at the start of the suffix [s] of the held bits *)
Definition at_suffix (st : rstate) (s : bits) : Prop :=
  exists pre, bytes_to_bits (r_bytes st) = pre ++ s /\ r_bit st = Nlen pre.

Lemma at_suffix_stream st s : at_suffix st s -> stream st = s.
Proof.
  intros (pre & E & Hb). unfold stream. rewrite E, Hb, Nlen_to_nat. apply skipn_length_app.
Qed.

Lemma at_suffix_advance st a s' fl cb tm :
  at_suffix st (a ++ s') -> at_suffix (mkR (r_bytes st) (pos_after st s') fl cb tm) s'.
Proof.
  intros (pre & E & Hb). exists (pre ++ a). cbn [r_bytes r_bit].
  split; [rewrite E, app_assoc; reflexivity|].
  unfold pos_after, total_bits. rewrite <- bytes_to_bits_Nlen, E, !Nlen_app. lia.
Qed.

Lemma at_suffix_bit_mod st s : at_suffix st s -> Nlen s mod 8 = 0 -> r_bit st mod 8 = 0.
Proof.
  intros (pre & E & Hb) Hs. pose proof (bytes_to_bits_Nlen (r_bytes st)) as H.
  rewrite E, Nlen_app in H. rewrite Hb.
  set (A := Nlen pre) in *. set (B := Nlen s) in *. set (C := Nlen (r_bytes st)) in *.
  clearbody A B C. lia.
Qed.

(* the steps of simple_decompress, as equations *)
Lemma r_step_header_ok d st f s' :
  r_term st = false -> r_flags st = None ->
  read_header d (r_bit st) (stream st) = Ok (f, s') ->
  r_step d st RHeader
  = (mkR (r_bytes st) (pos_after st s') (Some f) (r_cbd st) (r_term st), ROFlags f).
Proof. intros Ht Hf Hr. unfold r_step. rewrite Ht, Hf, Hr. reflexivity. Qed.

Lemma r_step_meta_some d st f m c s' :
  r_term st = false -> r_flags st = Some f -> r_cbd st = None ->
  read_chunk_meta d f (r_bit st) (stream st) = Ok (Some m, s') -> new_cbd f m = Ok c ->
  r_step d st RMeta
  = (mkR (r_bytes st) (pos_after st s') (r_flags st) (Some c) (r_term st), ROMeta (Some m)).
Proof. intros Ht Hf Hc Hr Hn. unfold r_step. rewrite Ht, Hf, Hc, Hr, Hn. reflexivity. Qed.

Lemma r_step_meta_none d st f s' :
  r_term st = false -> r_flags st = Some f -> r_cbd st = None ->
  read_chunk_meta d f (r_bit st) (stream st) = Ok (None, s') ->
  r_step d st RMeta = (set_pos st (pos_after st s'), ROMeta None).
Proof. intros Ht Hf Hc Hr. unfold r_step. rewrite Ht, Hf, Hc, Hr. reflexivity. Qed.

Lemma r_step_body_ok d st f c xs fin c' s' :
  r_term st = false -> r_flags st = Some f -> r_cbd st = Some c ->
  cbd_batch d f (total_bits st) c (pow2 64 - 1) true (stream st) = Ok (xs, fin, c', s') ->
  r_step d st RBody
  = (mkR (r_bytes st) (pos_after st s') (r_flags st) None (r_term st), RONums xs).
Proof. intros Ht Hf Hc Hr. unfold r_step. rewrite Ht, Hf, Hc, Hr. reflexivity. Qed.

Lemma chunks_bytes_length d f : forall chunks cb,
  chunks_bytes d f chunks = Ok cb -> (length chunks <= length cb)%nat.
Proof.
  induction chunks as [|[xs table] t IH]; intros cb H.
  - cbn [length]. lia.
  - cbn [chunks_bytes] in H.
    destruct (chunk_payload d f table xs) as [[m bs]| |]; cbn [bind] in H; try discriminate.
    destruct (chunks_bytes d f t) as [r| |]; cbn [bind] in H; try discriminate.
    inversion H; subst cb. specialize (IH r eq_refl).
    cbn [app length]. rewrite app_length. lia.
Qed.

Lemma term_byte_read d f bit :
  bit mod 8 = 0 ->
  read_chunk_meta d f bit (bytes_to_bits [Consts.MAGIC_TERMINATION_BYTE]) = Ok (None, []).
Proof.
  intros Hb. unfold read_chunk_meta.
  rewrite <- (app_nil_r (bytes_to_bits [Consts.MAGIC_TERMINATION_BYTE])).
  rewrite (read_aligned_bytes_at bit [Consts.MAGIC_TERMINATION_BYTE] 1);
    [|exact Hb|repeat constructor|reflexivity].
  reflexivity.
Qed.

(* the loop of simple_decompress over the chunks and the termination byte *)
Lemma simple_loop_chunks d f : forall chunks cb fuel st acc,
  Forall (chunk_ok d f) chunks -> chunks_bytes d f chunks = Ok cb ->
  at_suffix st (bytes_to_bits (cb ++ [Consts.MAGIC_TERMINATION_BYTE])) ->
  r_flags st = Some f -> r_cbd st = None -> r_term st = false ->
  (length chunks < fuel)%nat ->
  snd (simple_loop fuel d st acc) = Ok (acc ++ concat (map fst chunks)).
Proof.
  induction chunks as [|[xs table] t IH]; intros cb fuel st acc Hok Hcb Hat Hf Hc Ht Hfuel.
  - cbn [chunks_bytes] in Hcb. inversion Hcb; subst cb. cbn [app] in Hat.
    destruct fuel as [|fuel]; [lia|]. cbn [simple_loop].
    assert (Hbit : r_bit st mod 8 = 0) by (apply (at_suffix_bit_mod st _ Hat); reflexivity).
    rewrite (r_step_meta_none d st f []); try assumption.
    + cbn [snd map concat]. rewrite app_nil_r. reflexivity.
    + rewrite (at_suffix_stream st _ Hat). apply term_byte_read. exact Hbit.
  - cbn [chunks_bytes] in Hcb.
    destruct (chunk_payload d f table xs) as [[m bs]| |] eqn:Ep; cbn [bind] in Hcb; try discriminate.
    destruct (chunks_bytes d f t) as [r| |] eqn:Er; cbn [bind] in Hcb; try discriminate.
    inversion Hcb; subst cb; clear Hcb.
    inversion Hok as [|? ? Hok1 Hokt]; subst.
    destruct fuel as [|fuel]; [lia|]. cbn [length] in Hfuel.
    set (rest := bytes_to_bits (r ++ [Consts.MAGIC_TERMINATION_BYTE])).
    assert (Hsplit : bytes_to_bits (([Consts.MAGIC_CHUNK_BYTE] ++ bs ++ r) ++ [Consts.MAGIC_TERMINATION_BYTE])
                     = bytes_to_bits ([Consts.MAGIC_CHUNK_BYTE] ++ bs) ++ rest).
    { unfold rest. rewrite <- bytes_to_bits_app. f_equal. rewrite <- !app_assoc. reflexivity. }
    assert (Hrl : Nlen rest = 8 * (Nlen r + 1)).
    { unfold rest. rewrite bytes_to_bits_Nlen, Nlen_app. reflexivity. }
    assert (Hbit : r_bit st mod 8 = 0).
    { apply (at_suffix_bit_mod st _ Hat). rewrite bytes_to_bits_Nlen.
      match goal with |- (8 * ?Y) mod 8 = 0 => set (X := Y); clearbody X end. lia. }
    assert (Hat' : at_suffix st (bytes_to_bits ([Consts.MAGIC_CHUNK_BYTE] ++ bs) ++ rest))
      by (rewrite <- Hsplit; exact Hat).
    clear Hat; rename Hat' into Hat.
    destruct (chunk_roundtrip d f xs table m bs Hok1 Ep)
      as (body & m' & c & _ & Hnew & (mbits & Hmb) & Hall).
    destruct (Hall (r_bit st) (total_bits st) rest Hbit) as (Hrcm & c' & Hbody).
    { set (X := Nlen r) in *. clearbody X. lia. }
    { set (X := Nlen r) in *. clearbody X. lia. }
    cbn [simple_loop].
    rewrite (r_step_meta_some d st f m' c (body ++ rest)); try assumption;
      [|rewrite (at_suffix_stream st _ Hat); exact Hrcm].
    set (st1 := mkR (r_bytes st) (pos_after st (body ++ rest)) (r_flags st) (Some c) (r_term st)).
    assert (Hat1 : at_suffix st1 (body ++ rest)).
    { apply (at_suffix_advance st mbits). rewrite app_assoc, <- Hmb. exact Hat. }
    rewrite (r_step_body_ok d st1 f c xs true c' rest); try assumption; try reflexivity;
      [|rewrite (at_suffix_stream st1 _ Hat1); exact Hbody].
    set (st2 := mkR (r_bytes st1) (pos_after st1 rest) (r_flags st1) None (r_term st1)).
    assert (Hat2 : at_suffix st2 rest) by (apply (at_suffix_advance st1 body); exact Hat1).
    rewrite (IH r fuel st2 (acc ++ xs)); try assumption; try lia; try reflexivity.
    cbn [map fst concat]. rewrite app_assoc. reflexivity.
Qed.

Lemma dtype_eqb_refl d : dtype_eqb d d = true.
Proof. destruct d; reflexivity. Qed.

(* the file header followed by anything *)
Lemma header_roundtrip d order gcds hb tail :
  order <= 7 -> header_bytes d (writer_flags order gcds) = Ok hb ->
  read_header d 0 (bytes_to_bits (hb ++ tail))
  = Ok (writer_flags order gcds, bytes_to_bits tail) /\
  exists hbits, bytes_to_bits (hb ++ tail) = hbits ++ bytes_to_bits tail.
Proof.
  intros Ho Hh.
  destruct (writer_flags_roundtrip order gcds (bytes_to_bits tail) Ho) as (fb & Hwf & Hl & Hpf).
  unfold header_bytes in Hh. rewrite Hwf in Hh. cbn [bind] in Hh.
  assert (Ehb : hb = Consts.MAGIC_HEADER ++ [hdr d] ++ bits_to_bytes fb) by congruence.
  rewrite Ehb. clear Hh Ehb.
  assert (Hfb : bytes_to_bits (bits_to_bytes fb) = fb).
  { apply bytes_to_bits_to_bytes. rewrite Hl. reflexivity. }
  assert (E : bytes_to_bits ((Consts.MAGIC_HEADER ++ [hdr d] ++ bits_to_bytes fb) ++ tail)
              = bytes_to_bits (Consts.MAGIC_HEADER ++ [hdr d]) ++ fb ++ bytes_to_bits tail).
  { rewrite (app_assoc Consts.MAGIC_HEADER), !bytes_to_bits_app, Hfb, <- !app_assoc. reflexivity. }
  rewrite E. split.
  - rewrite read_header_typed, dtype_eqb_refl. exact Hpf.
  - exists (bytes_to_bits (Consts.MAGIC_HEADER ++ [hdr d]) ++ fb).
    rewrite <- !app_assoc. reflexivity.
Qed.

(* 4. the whole file *)
Theorem file_roundtrip : forall d order gcds chunks bytes,
  order <= 7 ->
  Forall (chunk_ok d (writer_flags order gcds)) chunks ->
  file_bytes d (writer_flags order gcds) chunks = Ok bytes ->
  decode_file d bytes = Ok (concat (map fst chunks)).
Proof.
  intros d order gcds chunks bytes Ho Hok Hfb.
  set (f := writer_flags order gcds) in *.
  unfold file_bytes in Hfb.
  destruct (header_bytes d f) as [hb| |] eqn:Eh; cbn [bind] in Hfb; try discriminate.
  destruct (chunks_bytes d f chunks) as [cb| |] eqn:Ec; cbn [bind] in Hfb; try discriminate.
  inversion Hfb; subst bytes; clear Hfb.
  set (tail := cb ++ [Consts.MAGIC_TERMINATION_BYTE]).
  destruct (header_roundtrip d order gcds hb tail Ho Eh) as (Hrh & hbits & Hsplit).
  fold f in Hrh.
  unfold decode_file, simple_decompress.
  set (st0 := mkR (hb ++ tail) 0 None None false).
  assert (Hat0 : at_suffix st0 (hbits ++ bytes_to_bits tail)).
  { exists []. split; [exact Hsplit|reflexivity]. }
  rewrite (r_step_header_ok d st0 f (bytes_to_bits tail)); try reflexivity;
    [|rewrite (at_suffix_stream st0 _ Hat0), <- Hsplit; exact Hrh].
  set (st1 := mkR (r_bytes st0) (pos_after st0 (bytes_to_bits tail)) (Some f) (r_cbd st0) (r_term st0)).
  assert (Hat1 : at_suffix st1 (bytes_to_bits tail)) by (apply (at_suffix_advance st0 hbits); exact Hat0).
  pose proof (simple_loop_chunks d f chunks cb (S (length (r_bytes st0))) st1 [] Hok Ec Hat1
                eq_refl eq_refl eq_refl) as Hloop.
  destruct (simple_loop (S (length (r_bytes st0))) d st1 []) as [st2 res].
  cbn [snd] in Hloop. rewrite Hloop; [reflexivity|].
  pose proof (chunks_bytes_length d f chunks cb Ec) as Hl.
  cbn [r_bytes st0]. unfold tail. rewrite !app_length. lia.
Qed.

(* ---- existence: the writer succeeds on such chunks ---- *)
Lemma write_body_fuel_ok ps : forall fuel us,
  Forall (good ps) us -> exists b, write_body_fuel fuel ps us = Ok b.
Proof.
  induction fuel as [|fuel IH]; intros us Hg; [exists []; reflexivity|].
  destruct us as [|u t]; [exists []; reflexivity|].
  inversion Hg as [|? ? [[p Hp] _] Hgt]; subst.
  cbn [write_body_fuel]. rewrite Hp. destruct (p_jump p) as [j|].
  - destruct (IH (skipn (run_len p t) t) (Forall_skipn _ _ _ Hgt)) as (r & Hr).
    rewrite Hr. cbn [bind]. eexists. reflexivity.
  - destruct (IH t Hgt) as (r & Hr). rewrite Hr. cbn [bind]. eexists. reflexivity.
Qed.

Lemma chunk_payload_ok d f xs table :
  chunk_ok d f (xs, table) -> exists m bs, chunk_payload d f table xs = Ok (m, bs).
Proof.
  intros Hok. pose proof Hok as Hok'. unfold chunk_ok in Hok'. cbn [fst snd] in Hok'.
  destruct Hok' as (_ & _ & _ & Hg & _).
  destruct (write_body_fuel_ok table (length (chunk_unsigneds d (ford f) xs)) _ Hg) as (b & Hb).
  assert (Hwb : write_body table (chunk_unsigneds d (ford f) xs) = Ok (pad8 b)).
  { unfold write_body. rewrite Hb. reflexivity. }
  pose proof (chunk_wf_meta d f xs table (pad8 b) Hok Hwb) as Hwfm.
  destruct (write_meta_ok f d _ Hwfm) as (mb & Hmb & _).
  unfold chunk_payload. rewrite Hwb. cbn [bind]. rewrite Hmb. cbn [bind].
  eexists. eexists. reflexivity.
Qed.

Lemma chunks_bytes_ok d f : forall chunks,
  Forall (chunk_ok d f) chunks -> exists cb, chunks_bytes d f chunks = Ok cb.
Proof.
  induction chunks as [|[xs table] t IH]; intros H; [exists []; reflexivity|].
  inversion H as [|? ? H1 Ht]; subst.
  destruct (chunk_payload_ok d f xs table H1) as (m & bs & Hp).
  destruct (IH Ht) as (r & Hr).
  cbn [chunks_bytes]. rewrite Hp. cbn [bind]. rewrite Hr. cbn [bind]. eexists. reflexivity.
Qed.

Theorem file_bytes_ok : forall d order gcds chunks,
  order <= 7 ->
  Forall (chunk_ok d (writer_flags order gcds)) chunks ->
  exists bytes, file_bytes d (writer_flags order gcds) chunks = Ok bytes.
Proof.
  intros d order gcds chunks Ho Hok.
  destruct (writer_flags_roundtrip order gcds [] Ho) as (fb & Hwf & _).
  destruct (chunks_bytes_ok d _ chunks Hok) as (cb & Hcb).
  unfold file_bytes, header_bytes. rewrite Hwf. cbn [bind]. rewrite Hcb. cbn [bind].
  eexists. reflexivity.
Qed.

(* both together *)
Corollary file_roundtrip_ex : forall d order gcds chunks,
  order <= 7 ->
  Forall (chunk_ok d (writer_flags order gcds)) chunks ->
  exists bytes, file_bytes d (writer_flags order gcds) chunks = Ok bytes /\
                decode_file d bytes = Ok (concat (map fst chunks)).
Proof.
  intros d order gcds chunks Ho Hok.
  destruct (file_bytes_ok d order gcds chunks Ho Hok) as (bytes & Hb).
  exists bytes. split; [exact Hb|]. exact (file_roundtrip d order gcds chunks bytes Ho Hok Hb).
Qed.

(* ---- the hypotheses are satisfiable: three chunks (one of them empty), a run-length
   prefix, and a single-valued range whose recorded gcd (7) differs from the common gcd (2),
   so the reader's table is not the writer's ---- *)
Definition ex_xs : list Z := [5; 7; 9; 9; 100]%Z.
Definition ex_table : list prefix :=
  [mkPrefix 4 2147483653 2147483657 [false] None 2;
   mkPrefix 1 2147483748 2147483748 [true] (Some 1) 7].

Example chunk_ok_example : chunk_ok DI32 (writer_flags 0 true) (ex_xs, ex_table).
Proof.
  unfold chunk_ok. cbn [fst snd].
  split; [vm_compute; reflexivity|].
  split; [repeat constructor|].
  split.
  { split; [vm_compute; reflexivity|]. split; [|vm_compute; lia].
    repeat constructor; cbn [p_gcd p_lower p_upper p_jump]; try lia; try (vm_compute; discriminate);
    intros j H; inversion H; lia. }
  split.
  { assert (G : forall u, In u (chunk_unsigneds DI32 (ford (writer_flags 0 true)) ex_xs) -> good ex_table u).
    { intros u Hu. vm_compute in Hu.
      repeat (destruct Hu as [<-|Hu]; [split; [eexists; vm_compute; reflexivity|
         intros p [<-|[<-|[]]] Hc; vm_compute in Hc; try discriminate; vm_compute; reflexivity]|]).
      destruct Hu. }
    apply Forall_forall. exact G. }
  split; [vm_compute; reflexivity|].
  split.
  { repeat constructor; cbn [p_count p_lower p_upper p_code p_jump p_gcd]; try (vm_compute; reflexivity);
      try (vm_compute; discriminate); try lia.
    all: try (intros v H; inversion H; vm_compute; reflexivity).
    all: try (intros v H; discriminate H). }
  split; [intros H; discriminate H|].
  intros g _ H. vm_compute in H. inversion H; subst g. vm_compute. discriminate.
Qed.

Example file_example :
  exists bytes, file_bytes DI32 (writer_flags 0 true) [(ex_xs, ex_table); ([], []); (ex_xs, ex_table)] = Ok bytes /\
    decode_file DI32 bytes = Ok (ex_xs ++ ex_xs).
Proof.
  apply (file_roundtrip_ex DI32 0 true [(ex_xs, ex_table); ([], []); (ex_xs, ex_table)]); [lia|].
  constructor; [apply chunk_ok_example|]. constructor; [|constructor; [apply chunk_ok_example|constructor]].
  unfold chunk_ok. cbn [fst snd]. split; [vm_compute; reflexivity|]. split; [constructor|].
  split; [split; [reflexivity|split; [constructor|vm_compute; lia]]|].
  split; [constructor|]. split; [vm_compute; reflexivity|]. split; [constructor|].
  split; [intros; constructor|]. intros g _ H. discriminate H.
Qed.

Print Assumptions bytes_to_bits_to_bytes.
Print Assumptions norm_table_body.
Print Assumptions chunk_roundtrip.
Print Assumptions file_roundtrip.
Print Assumptions file_bytes_ok.
Print Assumptions file_roundtrip_ex.
