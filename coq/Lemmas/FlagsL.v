(* FlagsL.v — flag section: framing, unknown bits refused (C16), writer/reader agreement. *)
From QCo.Lemmas Require Import Tactics BitsL.
From QCo.Model Require Import Base Consts DType Codec.
Open Scope N_scope.

(* the flag section as a sequence of bytes: 7 payload bits + a continuation bit each *)
Fixpoint frame (chunks : list bits) : bits :=
  match chunks with
  | [] => []
  | [c] => c ++ [false]
  | c :: t => c ++ [true] ++ frame t
  end.

Definition chunks_ok (chunks : list bits) : Prop :=
  chunks <> [] /\ Forall (fun c => length c = 7%nat) chunks.

Lemma read_flag_payload_frame chunks : forall fuel acc rest,
  chunks_ok chunks -> (length chunks <= fuel)%nat ->
  read_flag_payload fuel acc (frame chunks ++ rest) = Ok (acc ++ concat chunks, rest).
Proof.
  induction chunks as [|c t IH]; intros fuel acc rest [Hne Hall] Hf; [congruence|].
  inversion Hall as [|? ? Hc Ht]; subst.
  destruct fuel as [|fuel]; [simpl in Hf; lia|].
  cbn [read_flag_payload].
  change Consts.FLAG_PAYLOAD_BITS_PER_BYTE with 7.
  destruct t as [|c2 t].
  - cbn [frame]. rewrite <- app_assoc.
    rewrite (get_bits_app c _ 7) by (unfold Nlen; rewrite Hc; reflexivity).
    cbn [bind app get1 concat]. rewrite app_nil_r. reflexivity.
  - change (frame (c :: c2 :: t)) with (c ++ [true] ++ frame (c2 :: t)).
    rewrite <- !app_assoc.
    rewrite (get_bits_app c _ 7) by (unfold Nlen; rewrite Hc; reflexivity).
    cbn [bind app get1].
    rewrite IH; [| split; [discriminate | exact Ht] | simpl in *; lia].
    cbn [concat]. rewrite <- !app_assoc. reflexivity.
Qed.

Lemma frame_length chunks : chunks_ok chunks -> length (frame chunks) = (8 * length chunks)%nat.
Proof.
  intros [Hne Hall]. induction chunks as [|c t IH]; [congruence|].
  inversion Hall as [|? ? Hc Ht]; subst.
  destruct t as [|c2 t].
  - cbn [frame]. rewrite app_length, Hc. reflexivity.
  - change (frame (c :: c2 :: t)) with (c ++ [true] ++ frame (c2 :: t)).
    rewrite !app_length, Hc, IH by (try discriminate; assumption). simpl. lia.
Qed.

Lemma parse_flags_frame chunks rest :
  chunks_ok chunks ->
  parse_flags (frame chunks ++ rest) =
  (do f <- flags_of_payload (concat chunks); Ok (f, rest)).
Proof.
  intros H. unfold parse_flags.
  rewrite (read_flag_payload_frame chunks _ [] rest H).
  - reflexivity.
  - rewrite app_length, frame_length by exact H. lia.
Qed.

(* some payload bit at position >= 6 is set *)
Definition has_unknown_bit (payload : bits) : Prop :=
  exists i, (6 <= i)%nat /\ nth i payload false = true.

Lemma nth_skipn {A} (k : nat) : forall (l : list A) i d, nth i (skipn k l) d = nth (k + i) l d.
Proof.
  induction k as [|k IH]; intros l i d; [reflexivity|].
  destruct l as [|a l]; [destruct i; reflexivity|]. simpl. apply IH.
Qed.

Lemma existsb_skipn_unknown p : has_unknown_bit p -> existsb (fun b => b) (skipn 6 p) = true.
Proof.
  intros (i & Hi & Hn). apply existsb_exists. exists true. split; [|reflexivity].
  assert (E : nth (i - 6) (skipn 6 p) false = true).
  { rewrite nth_skipn. replace (6 + (i - 6))%nat with i by lia. exact Hn. }
  destruct (Nat.lt_ge_cases (i - 6) (length (skipn 6 p))) as [Hl|Hl].
  - rewrite <- E. apply nth_In. exact Hl.
  - rewrite nth_overflow in E by exact Hl. discriminate.
Qed.

Lemma no_unknown_skipn p : ~ has_unknown_bit p -> existsb (fun b => b) (skipn 6 p) = false.
Proof.
  intros H. destruct (existsb (fun b => b) (skipn 6 p)) eqn:E; [|reflexivity].
  exfalso. apply H. apply existsb_exists in E. destruct E as (b & Hin & ->).
  apply (In_nth _ _ false) in Hin. destruct Hin as (j & Hj & Hn).
  exists (6 + j)%nat. split; [lia|]. rewrite nth_skipn in Hn. exact Hn.
Qed.

(* C16: unknown flag bits are refused *)
Lemma parse_flags_refuses chunks rest :
  chunks_ok chunks -> has_unknown_bit (concat chunks) ->
  parse_flags (frame chunks ++ rest) = Err Compatibility.
Proof.
  intros Hc Hu. rewrite parse_flags_frame by exact Hc.
  unfold flags_of_payload. rewrite existsb_skipn_unknown by exact Hu. reflexivity.
Qed.

Definition known_flags (p : bits) : flags :=
  mkFlags (nth_bit p 0) (bits_val [nth_bit p 1; nth_bit p 2; nth_bit p 3]) (nth_bit p 4) (nth_bit p 5).

(* with those bits clear the known flags are returned and parsing continues after the
   last flag byte, however many all-zero continuation bytes there are *)
Lemma parse_flags_accepts chunks rest :
  chunks_ok chunks -> ~ has_unknown_bit (concat chunks) ->
  parse_flags (frame chunks ++ rest) = Ok (known_flags (concat chunks), rest).
Proof.
  intros Hc Hu. rewrite parse_flags_frame by exact Hc.
  unfold flags_of_payload. rewrite no_unknown_skipn by exact Hu. reflexivity.
Qed.

Lemma known_flags_order_le7 p : ford (known_flags p) <= 7.
Proof.
  unfold known_flags; cbn [ford]. unfold bits_val; cbn [bits_val_acc].
  destruct (nth_bit p 1), (nth_bit p 2), (nth_bit p 3); cbn; lia.
Qed.

(* what the writer emits for its own flags is one chunk with no unknown bit, and reads back *)
Lemma writer_flags_roundtrip order gcds rest :
  order <= 7 ->
  exists fb, write_flags (writer_flags order gcds) = Ok fb /\ Nlen fb = 8 /\
             parse_flags (fb ++ rest) = Ok (writer_flags order gcds, rest).
Proof.
  intros Ho.
  assert (Hc : order = 0 \/ order = 1 \/ order = 2 \/ order = 3 \/ order = 4 \/ order = 5 \/ order = 6 \/ order = 7) by lia.
  destruct gcds;
  destruct Hc as [->|[->|[->|[->|[->|[->|[->| ->]]]]]]];
  (eexists; split; [vm_compute; reflexivity | split; [reflexivity|]]);
  unfold parse_flags; cbn -[Nat.sub]; reflexivity.
Qed.
