(* RFastL.v — the COMPLETE decompress_unsigneds_limited_dirty, unchecked fast path included,
   as a program over the 64-bit-word BitReader and the literal HuffmanTable
   (Model/RFast.v: rfa_batch) returns exactly what the bit-list model of the complete
   function (Fast.fast_batch) returns on the reader's abstract stream — the same numbers,
   the same incomplete prefix, the same finished flag, the same status, the same new
   position — and it never panics: in particular every `words[i]` of an unchecked read is
   inside the word buffer (rfa_batch_in_bounds).  With FastL.fast_batch_eq it is also
   Codec.read_batch, the checked-only semantics, on every chunk whose metadata parsed.
   No axioms, nothing admitted. *)
From Coq Require Import Lia ZifyBool ZifyN ZifyNat.
From QCo.Lemmas Require Import Tactics BitsL CodecL BodyL TruncL NoPanicL FastL WordsL RFileL HuffL RBodyL.
From QCo.Model Require Import Base Consts DType Codec Reader Fast Words Huff Writer RFile RBody RFast.
Open Scope N_scope.

(* Reader.v has its own [stream]; here it is the abstract stream of a reader position *)
Local Notation stream := RBodyL.stream.

Arguments N.add : simpl never.
Arguments N.sub : simpl never.
Arguments N.mul : simpl never.
Arguments N.pow : simpl never.
Arguments N.shiftl : simpl never.
Arguments N.shiftr : simpl never.
Arguments N.land : simpl never.
Arguments N.lor : simpl never.
Arguments N.div : simpl never.
Arguments N.modulo : simpl never.
Arguments N.min : simpl never.

(* ================================================================== *)
(* 1. the index-checked unchecked reads = the reads of Words.v          *)
(* ================================================================== *)
Lemma rd_word_chk_ok ws i : i < Nlen ws -> rd_word_chk ws i = Ok (rd_word ws i).
Proof.
  intros H. unfold rd_word_chk. destruct (N.ltb_spec i (Nlen ws)) as [_|L]; [reflexivity|lia].
Qed.

Lemma rd_word_chk_oob ws i : Nlen ws <= i -> rd_word_chk ws i = Panic.
Proof.
  intros H. unfold rd_word_chk. destruct (N.ltb_spec i (Nlen ws)) as [L|_]; [lia|reflexivity].
Qed.

(* the loop stays inside the buffer as long as the bits it still has to read are there *)
Lemma rfa_diff_loop_in_bounds ub ws : forall fuel i rem acc,
  64 * (i + 1) + rem <= 64 * Nlen ws ->
  rfa_diff_loop ub fuel ws i rem acc = Ok (rd_diff_loop_u ub fuel ws i rem acc) /\
  (let '(i2, rem2, _) := rd_diff_loop_u ub fuel ws i rem acc in
   64 * (i2 + 1) + rem2 <= 64 * Nlen ws).
Proof.
  induction fuel as [|f IH]; intros i rem acc H; cbn [rfa_diff_loop rd_diff_loop_u].
  - split; [reflexivity|exact H].
  - unfold WORD_SIZE. destruct (N.leb_spec 64 rem) as [Hge|Hlt].
    + rewrite rd_word_chk_ok by lia. cbn [bind]. apply IH. lia.
    + split; [reflexivity|exact H].
Qed.

(* unchecked_read_diff with the bits inside the buffer: no index is out of range *)
Theorem rfa_unchecked_read_diff_in_bounds ub ws i j n :
  j <= 64 -> 64 * i + j + n <= 64 * Nlen ws ->
  rfa_unchecked_read_diff ub ws (i, j) n = Ok (rd_unchecked_read_diff_u ub ws i j n).
Proof.
  intros Hj Hfit. unfold rfa_unchecked_read_diff, rd_unchecked_read_diff_u. cbn [fst snd].
  destruct (N.eqb_spec n 0) as [E|E]; [reflexivity|].
  destruct (rd_refresh_cases i j Hj) as (i1 & j1 & -> & Hp1 & Hj1 & _).
  unfold WORD_SIZE. rewrite rd_word_chk_ok by lia. cbn [bind].
  destruct (N.leb_spec (n + j1) 64) as [Hle|Hgt]; [reflexivity|].
  set (acc0 := trunc_u ub (N.shiftl (trunc_u ub (N.land (rd_word ws i1) (N.shiftr usize_max j1)))
                                    (n + j1 - 64))).
  destruct (rfa_diff_loop_in_bounds ub ws (N.to_nat ((n + j1 - 64) / 64)) i1 (n + j1 - 64) acc0
              ltac:(lia)) as [EL HL].
  rewrite EL. cbn [bind].
  destruct (rd_diff_loop_u ub (N.to_nat ((n + j1 - 64) / 64)) ws i1 (n + j1 - 64) acc0)
    as [[i2 rem2] res2].
  destruct (N.ltb_spec 0 rem2) as [Hpos|Hz]; [|reflexivity].
  rewrite rd_word_chk_ok by lia. reflexivity.
Qed.

(* ================================================================== *)
(* 2. the stream the unchecked reads see: all the bits of the words     *)
(* ================================================================== *)
(* An unchecked read is not bounded by total_bits: it sees every bit of the word buffer
   from the position on — the real bits followed by the zero padding of the last word.
   This is Fast.upad of the abstract stream (wst_stream).  Each word-level unchecked
   operation is related to its bit-list model (Fast.uget, uget1, u_read_varint,
   u_read_offset, ...) on this stream: whenever the model does not run off the end of the
   stream, the word-level operation stays inside the buffer and returns the same value at
   the same position. *)
Definition wst (ws : list N) (st : rpos) : bits := skipn (N.to_nat (pos st)) (words_bits ws).
Definition winv (ws : list N) (st : rpos) : Prop := snd st <= 64 /\ pos st <= 64 * Nlen ws.

Lemma wst_length ws st : length (wst ws st) = N.to_nat (64 * Nlen ws - pos st).
Proof. unfold wst. rewrite skipn_length, words_bits_length. unfold Nlen. lia. Qed.

Lemma wst_pos_eq ws st st' : pos st = pos st' -> wst ws st = wst ws st'.
Proof. unfold wst. intros ->. reflexivity. Qed.

Lemma uget_get n u v u' : uget n u = Ok (v, u') -> get n u = Ok (v, u').
Proof. unfold uget, get. destruct (getn (N.to_nat n) u); [intros H; exact H|discriminate]. Qed.

Definition usim {A} (ws : list N) (st : rpos) (r : res (A * rpos)) (a : A) (u' : bits) : Prop :=
  exists st', r = Ok (a, st') /\ wst ws st' = u' /\ winv ws st'.

Lemma sim_read_one ws st b u' : words_ok ws -> winv ws st ->
  uget1 (wst ws st) = Ok (b, u') ->
  exists st', rfa_unchecked_read_one ws st = Ok (b, st') /\ wst ws st' = u' /\ winv ws st' /\
              pos st' = pos st + 1.
Proof.
  destruct st as [i j]. intros Hok [Hj Hp] H. cbn [fst snd] in *. rewrite pos_ij in Hp.
  pose proof (wst_length ws (i, j)) as L. rewrite pos_ij in L.
  destruct (wst ws (i, j)) as [|b0 t] eqn:W; [discriminate|]. cbn [uget1] in H.
  inversion H; subst b0 t; clear H. cbn [length] in L.
  destruct (rd_refresh_cases i j Hj) as (i1 & j1 & R & Hp1 & Hj1 & _).
  unfold rfa_unchecked_read_one. cbn [fst snd]. rewrite R.
  assert (Hi1 : i1 < Nlen ws) by lia.
  rewrite rd_word_chk_ok by exact Hi1. cbn [bind].
  exists (i1, j1 + 1). split; [|split; [|split]].
  - do 2 f_equal.
    pose proof (seg_one ws i1 j1 ltac:(unfold Nlen in Hi1; lia) Hj1) as S1.
    unfold seg in S1. rewrite Hp1 in S1. unfold wst in W. rewrite pos_ij in W. rewrite W in S1.
    cbn [firstn] in S1. inversion S1. reflexivity.
  - unfold wst in *. rewrite pos_ij in *.
    replace (N.to_nat (64 * i1 + (j1 + 1))) with (N.to_nat (64 * i + j) + 1)%nat by lia.
    rewrite <- skipn_skipn'. rewrite W. reflexivity.
  - unfold winv. cbn [fst snd]. rewrite pos_ij. lia.
  - rewrite !pos_ij. lia.
Qed.

Lemma sim_read_diff ub ws st n v u' : words_ok ws -> winv ws st -> n <= ub ->
  uget n (wst ws st) = Ok (v, u') ->
  exists st', rfa_unchecked_read_diff ub ws st n = Ok (v, st') /\ wst ws st' = u' /\
              winv ws st' /\ pos st' = pos st + n.
Proof.
  destruct st as [i j]. intros Hok [Hj Hp] Hn H. cbn [fst snd] in *. rewrite pos_ij in Hp.
  apply uget_get in H.
  pose proof (get_ok_len _ _ _ _ H) as L. rewrite wst_length, pos_ij in L.
  assert (Hfit : 64 * i + j + n <= 64 * Nlen ws) by lia.
  rewrite rfa_unchecked_read_diff_in_bounds by assumption.
  rewrite rd_unchecked_read_diff_u_spec by assumption.
  pose proof (rd_unchecked_read_diff_spec ws i j n Hok Hj Hfit) as S.
  destruct (rd_unchecked_read_diff ws i j n) as [v' [i' j']]. destruct S as (G & Hpos & Hj').
  unfold wst in H. rewrite pos_ij in H. rewrite H in G. inversion G; subst v' u'.
  exists (i', j'). split; [reflexivity|]. split; [|split].
  - unfold wst. rewrite pos_ij, Hpos. reflexivity.
  - unfold winv. cbn [fst snd]. rewrite pos_ij. lia.
  - rewrite !pos_ij. exact Hpos.
Qed.

(* ================================================================== *)
(* 3. unchecked_read_varint                                            *)
(* ================================================================== *)
Lemma sim_varint_loop ws : words_ok ws -> forall cnt i acc st v u',
  winv ws st -> acc < 2 ^ i ->
  u_read_varint_cont cnt i acc (wst ws st) = Ok (v, u') ->
  usim ws st (rfa_u_varint_loop cnt ws i acc st) v u'.
Proof.
  intros Hok. induction cnt as [|c IH]; intros i acc st v u' Hi Hacc H;
    cbn [u_read_varint_cont rfa_u_varint_loop] in *.
  - inversion H; subst. exists st. split; [reflexivity|]. split; [reflexivity|exact Hi].
  - destruct (uget1 (wst ws st)) as [[more u1]|e|] eqn:G1; cbn [bind] in H; try discriminate.
    destruct (sim_read_one ws st more u1 Hok Hi G1) as (st1 & E1 & W1 & I1 & _).
    rewrite E1. cbn [bind]. destruct more.
    + destruct (uget1 u1) as [[b u2]|e|] eqn:G2; cbn [bind] in H; try discriminate.
      rewrite <- W1 in G2.
      destruct (sim_read_one ws st1 b u2 Hok I1 G2) as (st2 & E2 & W2 & I2 & _).
      rewrite E2. cbn [bind]. rewrite <- W2 in H.
      assert (Hp : 2 ^ (i + 1) = 2 * 2 ^ i) by (rewrite N.pow_add_r, N.pow_1_r; lia).
      destruct b.
      * rewrite lor_bit by exact Hacc. apply IH; [exact I2| |exact H]. unfold pow2. lia.
      * apply IH; [exact I2| |exact H]. lia.
    + inversion H; subst v u'. exists st1. split; [reflexivity|]. split; [exact W1|exact I1].
Qed.

Lemma sim_varint ws st jumpstart v u' : words_ok ws -> winv ws st -> jumpstart <= 64 ->
  u_read_varint jumpstart (wst ws st) = Ok (v, u') ->
  usim ws st (rfa_unchecked_read_varint ws st jumpstart) v u'.
Proof.
  intros Hok Hi Hj H. unfold u_read_varint in H. unfold rfa_unchecked_read_varint.
  destruct (uget jumpstart (wst ws st)) as [[v0 u1]|e|] eqn:G; cbn [bind] in H; try discriminate.
  destruct (sim_read_diff 64 ws st jumpstart v0 u1 Hok Hi Hj G) as (st1 & E1 & W1 & I1 & _).
  rewrite E1. cbn [bind]. rewrite <- W1 in H.
  apply sim_varint_loop; try assumption.
  apply uget_get in G. exact (get_lt _ _ _ _ G).
Qed.

(* ================================================================== *)
(* 4. unchecked_decompress_offsets                                     *)
(* ================================================================== *)
(* GcdOp: TrivialGcdOp skips the multiplication.  It is selected when no prefix has both
   gcd > 1 and more than one value (use_gcd_arithmetic); then every prefix has gcd 1 or a
   single value, and a single-valued prefix only has the offset 0. *)
Definition gcd_op_ok (use_gcd : bool) (p : prefix) : Prop :=
  use_gcd = false -> p_gcd p = 1 \/ p_range p = 0.

Lemma rfa_use_gcd_ok w ps p : In p ps -> sane_prefix w p -> gcd_op_ok (rfa_use_gcd ps) p.
Proof.
  intros Hin (Hg & Hlu & _) Hu. unfold rfa_use_gcd in Hu.
  assert (Hp : (1 <? p_gcd p) && negb (p_upper p =? p_lower p) = false).
  { destruct ((1 <? p_gcd p) && negb (p_upper p =? p_lower p)) eqn:E; [|reflexivity].
    assert (X : existsb (fun p => (1 <? p_gcd p) && negb (p_upper p =? p_lower p)) ps = true)
      by (apply existsb_exists; exists p; split; assumption).
    rewrite X in Hu. discriminate. }
  apply andb_false_iff in Hp. destruct Hp as [Hp|Hp].
  - left. apply N.ltb_ge in Hp. lia.
  - right. apply negb_false_iff, N.eqb_eq in Hp. unfold p_range. rewrite Hp, N.sub_diag.
    apply N.div_0_l. lia.
Qed.

(* the end of one offset: get_diff and the two overflow checks against the single range
   check of the model *)
Lemma rfa_offset_tail w use_gcd ws p off' st2 x u' :
  winv ws st2 -> (use_gcd = false -> off' * p_gcd p = off') ->
  (if p_lower p + off' * p_gcd p <=? umax w
   then Ok (p_lower p + off' * p_gcd p, wst ws st2) else @Panic (N * bits)) = Ok (x, u') ->
  usim ws st2
    (do diff <- rfa_get_diff w use_gcd off' (p_gcd p);
     let unsigned := p_lower p + diff in
     if umax w <? unsigned then Panic else Ok (unsigned, st2)) x u'.
Proof.
  intros Hi Hg H.
  destruct (N.leb_spec (p_lower p + off' * p_gcd p) (umax w)) as [L|L]; [|discriminate].
  inversion H; subst x u'; clear H.
  assert (D : rfa_get_diff w use_gcd off' (p_gcd p) = Ok (off' * p_gcd p)).
  { unfold rfa_get_diff. destruct use_gcd.
    - cbv zeta. destruct (N.ltb_spec (umax w) (off' * p_gcd p)) as [L1|_]; [lia|reflexivity].
    - rewrite (Hg eq_refl). reflexivity. }
  rewrite D. cbn [bind]. cbv zeta.
  destruct (N.ltb_spec (umax w) (p_lower p + off' * p_gcd p)) as [L2|_]; [lia|].
  exists st2. split; [reflexivity|]. split; [reflexivity|exact Hi].
Qed.

(* `offset |= most_significant` is the addition of the model: most_significant is 0 or 2^k
   and the offset is below 2^k *)
Lemma lor_ms off k ms : off < 2 ^ k -> ms = 0 \/ ms = 2 ^ k -> N.lor off ms = off + ms.
Proof.
  intros Ho [->| ->]; [rewrite N.lor_0_r; lia|]. apply lor_pow. exact Ho.
Qed.

(* one iteration of the general loop *)
Theorem sim_offset w phys use_gcd ws p st x u' :
  words_ok ws -> winv ws st -> sane_prefix w p -> gcd_op_ok use_gcd p ->
  u_read_offset w phys p (wst ws st) = Ok (x, u') ->
  usim ws st (rfa_u_offset w phys use_gcd ws p st) x u'.
Proof.
  intros Hok Hi (Hg & Hlu & Hu) Hgo H.
  destruct (prefix_facts w p Hg Hlu Hu) as (Hrw & Hkw & Hkeq & Hup).
  unfold u_read_offset in H. unfold rfa_u_offset, rfa_most_significant, p_k. cbv zeta in *.
  set (r := p_range p) in *. set (k := k_of_range r) in *.
  rewrite N.shiftl_1_l. unfold pow2 in H.
  set (ms := if k =? phys then 0 else 2 ^ k) in *.
  assert (Hms : ms = 0 \/ ms = 2 ^ k) by (unfold ms; destruct (k =? phys); auto).
  clearbody ms.
  destruct (uget k (wst ws st)) as [[off u1]|e|] eqn:G; cbn [bind] in H; try discriminate.
  destruct (sim_read_diff w ws st k off u1 Hok Hi Hkw G) as (st1 & E1 & W1 & I1 & _).
  rewrite E1. cbn [bind].
  pose proof (get_lt _ _ _ _ (uget_get _ _ _ _ G)) as Hoff.
  (* the offset of a single-valued prefix is 0 *)
  assert (Hr0 : r = 0 -> off = 0 /\ (ms = 0 \/ ms = 1)).
  { intros R0. unfold k in *. rewrite R0 in *. change (k_of_range 0) with 0 in *.
    change (2 ^ 0) with 1 in *. split; lia. }
  assert (Hgd : forall off', (r = 0 -> off' = 0) -> use_gcd = false -> off' * p_gcd p = off').
  { intros off' H0 Eu. destruct (Hgo Eu) as [G1|R0]; [rewrite G1; lia|].
    fold r in R0. rewrite (H0 R0). lia. }
  destruct (k <? w) eqn:Ekw.
  - destruct (r <? off) eqn:Ero; [discriminate|].
    destruct (ms <=? r - off) eqn:Ems.
    + destruct (uget1 u1) as [[b u2]|e|] eqn:G1; cbn [bind] in H; try discriminate.
      rewrite <- W1 in G1.
      destruct (sim_read_one ws st1 b u2 Hok I1 G1) as (st2 & E2 & W2 & I2 & _).
      rewrite E2. cbn [bind]. rewrite <- W2 in H.
      destruct b.
      * rewrite (lor_ms off k ms Hoff Hms).
        apply rfa_offset_tail; [exact I2| |exact H].
        apply Hgd. intros R0. destruct (Hr0 R0) as [-> Hm]. apply N.leb_le in Ems. lia.
      * apply rfa_offset_tail; [exact I2| |exact H]. apply Hgd. intros R0. apply Hr0. exact R0.
    + cbn [bind] in *. rewrite <- W1 in H.
      apply rfa_offset_tail; [exact I1| |exact H]. apply Hgd. intros R0. apply Hr0. exact R0.
  - cbn [bind] in *. rewrite <- W1 in H.
    apply rfa_offset_tail; [exact I1| |exact H]. apply Hgd. intros R0. apply Hr0. exact R0.
Qed.

Lemma sim_offsets_loop w phys use_gcd ws p :
  words_ok ws -> sane_prefix w p -> gcd_op_ok use_gcd p -> forall reps st l u',
  winv ws st -> u_offsets_loop w phys p reps (wst ws st) = Ok (l, u') ->
  usim ws st (rfa_u_offsets_loop w phys use_gcd ws p reps st) l u'.
Proof.
  intros Hok Sp Hgo. induction reps as [|n IH]; intros st l u' Hi H;
    cbn [u_offsets_loop rfa_u_offsets_loop] in *.
  - inversion H; subst l u'. exists st. split; [reflexivity|]. split; [reflexivity|exact Hi].
  - destruct (u_read_offset w phys p (wst ws st)) as [[x u1]|e|] eqn:E; cbn [bind] in H;
      try discriminate.
    destruct (sim_offset w phys use_gcd ws p st x u1 Hok Hi Sp Hgo E) as (st1 & E1 & W1 & I1).
    rewrite E1. cbn [bind]. rewrite <- W1 in H.
    destruct (u_offsets_loop w phys p n (wst ws st1)) as [[l1 u2]|e|] eqn:E2; cbn [bind] in H;
      try discriminate.
    destruct (IH st1 l1 u2 I1 E2) as (st2 & E3 & W2 & I2).
    rewrite E3. cbn [bind]. inversion H; subst l u'.
    exists st2. split; [reflexivity|]. split; [exact W2|exact I2].
Qed.

(* unchecked_decompress_offsets, the `reps > 1 && p.k == 0` branch included *)
Theorem sim_offsets w phys use_gcd ws p reps st l u' :
  words_ok ws -> sane_prefix w p -> gcd_op_ok use_gcd p -> winv ws st ->
  u_read_offsets w phys p reps (wst ws st) = Ok (l, u') ->
  usim ws st (rfa_u_offsets w phys use_gcd ws p reps st) l u'.
Proof.
  intros Hok Sp Hgo Hi H. unfold u_read_offsets in H. unfold rfa_u_offsets.
  destruct ((1 <? reps) && (p_k p =? 0)).
  - inversion H; subst l u'. exists st. split; [reflexivity|]. split; [reflexivity|exact Hi].
  - apply sim_offsets_loop; assumption.
Qed.

(* the unchecked loop pushes exactly reps numbers *)
Lemma u_offsets_loop_len w phys p : forall reps u l u',
  u_offsets_loop w phys p reps u = Ok (l, u') -> Nlen l = N.of_nat reps.
Proof.
  induction reps as [|n IH]; intros u l u' H; cbn [u_offsets_loop] in H.
  - inversion H. reflexivity.
  - destruct (u_read_offset w phys p u) as [[x u1]|e|]; cbn [bind] in H; try discriminate.
    destruct (u_offsets_loop w phys p n u1) as [[l1 u2]|e|] eqn:E; cbn [bind] in H;
      try discriminate.
    inversion H; subst. rewrite Nlen_cons, (IH _ _ _ E). lia.
Qed.

Lemma u_read_offsets_len w phys p reps u l u' :
  u_read_offsets w phys p reps u = Ok (l, u') -> Nlen l = reps.
Proof.
  unfold u_read_offsets. destruct ((1 <? reps) && (p_k p =? 0)); intros H.
  - inversion H. unfold Nlen. rewrite repeat_length. lia.
  - rewrite (u_offsets_loop_len _ _ _ _ _ _ _ H). lia.
Qed.

(* ================================================================== *)
(* 5. unchecked_decompress_num_block                                   *)
(* ================================================================== *)
Lemma find_code_In : forall ps u p, find_code ps u = Some p -> In p ps.
Proof.
  induction ps as [|q t IH]; intros u p H; [discriminate|]. cbn [find_code] in H.
  destruct (is_prefix_of (p_code q) u).
  - inversion H; subst. left. reflexivity.
  - right. exact (IH u p H).
Qed.

Lemma read_code_In ps u p r : read_code ps u = Ok (p, r) -> In p ps.
Proof.
  unfold read_code. destruct (find_code ps u) as [q|] eqn:F; [|discriminate].
  intros H. inversion H; subst. exact (find_code_In _ _ _ F).
Qed.

(* unchecked_search_with_reader with the longest code inside the buffer *)
Lemma sim_search w ps tbl ws st :
  table_ok ps = true -> ps <> [] -> (max_code_len ps <= 40)%nat -> hfrom w ps = Ok tbl ->
  words_ok ws -> winv ws st -> pos st + N.of_nat (max_code_len ps) <= 64 * Nlen ws ->
  exists p st1,
    hsearch_unchecked ws (fst st) (snd st) tbl = Ok (p, st1) /\
    u_read_code ps (wst ws st) = Ok (p, wst ws st1) /\ winv ws st1 /\ In p ps /\
    pos st1 = pos st + Nlen (p_code p).
Proof.
  destruct st as [i j]. intros Hok Hne HM Hfrom Hwok [Hj Hp] Hfit. cbn [fst snd] in *.
  rewrite pos_ij in *.
  destruct (hsearch_unchecked_eq_fast w ps tbl ws i j Hok Hne HM Hfrom Hwok Hj Hfit)
    as (p & i' & j' & E & UC & Hp' & Hj').
  destruct (hsearch_unchecked_eq w ps tbl ws i j Hok Hne Hfrom Hwok Hj Hfit)
    as (p2 & i2 & j2 & E2 & RC & _ & _).
  rewrite E in E2. inversion E2; subst p2 i2 j2.
  exists p, (i', j'). split; [exact E|]. split; [exact UC|].
  pose proof (read_code_In _ _ _ _ RC) as Hin.
  pose proof (max_code_len_In ps p Hin) as HL.
  split; [|split; [exact Hin|rewrite pos_ij; exact Hp']].
  unfold winv. cbn [fst snd]. rewrite pos_ij. unfold Nlen in *. lia.
Qed.

(* the tables the fast path is proved for, with their literal HuffmanTable and the words *)
Definition fast_ctx (w phys : N) (ps : list prefix) (tbl : htable) (ws : list N) (tb : N) : Prop :=
  fast_table w phys ps /\ ps <> [] /\ hfrom w ps = Ok tbl /\ bw_ok ws tb.

Local Opaque u_read_code u_read_varint u_read_offsets hsearch_unchecked rfa_unchecked_read_varint
  rfa_u_offsets.

(* one unchecked block: when the longest code is inside the buffer and the model of the
   block does not run off the padded stream, the word-level block returns the same numbers
   at the same position, with the same update of incomplete_prefix *)
Theorem sim_block w phys ps tbl ws tb inc room st l u' incm room' :
  fast_ctx w phys ps tbl ws tb ->
  winv ws st -> pos st + N.of_nat (max_code_len ps) <= 64 * Nlen ws ->
  u_read_block w phys ps room (wst ws st) = Ok (l, u', incm, room') ->
  exists st', rfa_u_num_block w phys (rfa_use_gcd ps) ws tbl inc room st
              = Ok (l, st', inc_merge incm inc) /\ wst ws st' = u' /\ winv ws st'.
Proof.
  intros ((Hok & HM & HF) & Hne & Hfrom & Hbw) Hi Hfit H.
  assert (Hwok : words_ok ws) by apply Hbw.
  destruct (sim_search w ps tbl ws st Hok Hne HM Hfrom Hwok Hi Hfit)
    as (p & st1 & ES & UC & I1 & Hin & _).
  unfold u_read_block in H. rewrite UC in H. cbn [bind] in H.
  unfold rfa_u_num_block. rewrite ES. cbn [bind].
  rewrite Forall_forall in HF. destruct (HF p Hin) as (Sp & _ & Jp).
  pose proof (rfa_use_gcd_ok w ps p Hin Sp) as Hgo.
  destruct (p_jump p) as [jumpstart|].
  - destruct (u_read_varint jumpstart (wst ws st1)) as [[v u2]|e|] eqn:EV; cbn [bind] in H;
      try discriminate.
    destruct (sim_varint ws st1 jumpstart v u2 Hwok I1 ltac:(specialize (Jp _ eq_refl); lia) EV)
      as (st2 & E2 & W2 & I2).
    rewrite E2. cbn [bind]. cbv zeta in H. cbv zeta. rewrite <- W2 in H.
    unfold rb_limit_reps.
    assert (Ereps : (if room <? v + 1 then room else v + 1) = N.min (v + 1) room).
    { destruct (N.ltb_spec room (v + 1)); lia. }
    destruct (u_read_offsets w phys p (N.min (v + 1) room) (wst ws st2)) as [[l3 u3]|e|] eqn:EO;
      cbn [bind] in H; try discriminate.
    destruct (sim_offsets w phys (rfa_use_gcd ps) ws p _ st2 l3 u3 Hwok Sp Hgo I2 EO)
      as (st3 & E3 & W3 & I3).
    inversion H; subst l u' incm room'; clear H.
    destruct (room <? v + 1) eqn:RF; rewrite <- Ereps in E3; rewrite E3; cbn [bind];
      exists st3; (split; [reflexivity|split; [exact W3|exact I3]]).
  - destruct (u_read_offsets w phys p 1 (wst ws st1)) as [[l2 u2]|e|] eqn:EO;
      cbn [bind] in H; try discriminate.
    destruct (sim_offsets w phys (rfa_use_gcd ps) ws p 1 st1 l2 u2 Hwok Sp Hgo I1 EO)
      as (st2 & E2 & W2 & I2).
    rewrite E2. cbn [bind]. inversion H; subst l u' incm room'; clear H.
    exists st2. split; [reflexivity|]. split; [exact W2|exact I2].
Qed.

(* a block that stores an incomplete prefix has filled the batch *)
Lemma u_read_block_some_full w phys ps room u l u' pr room' :
  u_read_block w phys ps room u = Ok (l, u', Some pr, room') -> room' = 0.
Proof.
  unfold u_read_block. intros H.
  destruct (u_read_code ps u) as [[p u1]|e|]; cbn [bind] in H; try discriminate.
  destruct (p_jump p) as [j|].
  - destruct (u_read_varint j u1) as [[v u2]|e|]; cbn [bind] in H; try discriminate.
    cbv zeta in H.
    destruct (u_read_offsets w phys p (N.min (v + 1) room) u2) as [[l3 u3]|e|] eqn:EO;
      cbn [bind] in H; try discriminate.
    pose proof (u_read_offsets_len _ _ _ _ _ _ _ EO) as Ln.
    destruct (N.ltb_spec room (v + 1)) as [L|L]; [|inversion H].
    inversion H; subst. lia.
  - destruct (u_read_offsets w phys p 1 u1) as [[l2 u2]|e|]; cbn [bind] in H; discriminate.
Qed.

(* ================================================================== *)
(* 6. real bits and padding                                            *)
(* ================================================================== *)
(* the zero padding of the last word: what Fast.upad appends *)
Definition padz (tb : N) : bits := repeat false (N.to_nat (pad_of tb)).

Lemma bw_pad_of ws tb : bw_ok ws tb -> 64 * Nlen ws - tb = pad_of tb.
Proof. intros (_ & Hl & _). unfold pad_of. unfold ceil_div in Hl. lia. Qed.

(* the stream of the unchecked reads is Fast.upad of the abstract stream *)
Lemma wst_stream ws tb st : bw_ok ws tb -> pos st <= tb ->
  wst ws st = upad tb (stream ws tb st).
Proof.
  intros Hbw Hp. unfold wst, stream, upad. rewrite (bw_stream_pad ws tb (pos st) Hbw Hp).
  rewrite (bw_pad_of ws tb Hbw). reflexivity.
Qed.

Lemma stream_Nlen ws tb st : bw_ok ws tb -> Nlen (stream ws tb st) = tb - pos st.
Proof.
  intros Hbw. pose proof (bw_tb_le ws tb Hbw) as [Hle _]. unfold Nlen, stream.
  rewrite rd_stream_length by exact Hle. lia.
Qed.

Lemma binv_winv ws tb st : bw_ok ws tb -> binv tb st -> winv ws st.
Proof. intros Hbw [Hj Hp]. pose proof (bw_tb_le ws tb Hbw) as [Hle _]. split; [exact Hj|lia]. Qed.

(* a position whose unchecked stream is [s1] followed by the whole padding is inside the
   real bits, and [s1] is its abstract stream *)
Lemma wst_back ws tb st s1 : bw_ok ws tb -> winv ws st -> wst ws st = s1 ++ padz tb ->
  binv tb st /\ stream ws tb st = s1.
Proof.
  intros Hbw [Hj Hp] E. pose proof (bw_tb_le ws tb Hbw) as [Hle _].
  pose proof (f_equal (@length bool) E) as L.
  rewrite wst_length, app_length in L. unfold padz in L. rewrite repeat_length in L.
  rewrite <- (bw_pad_of ws tb Hbw) in L.
  assert (Hpt : pos st <= tb) by lia.
  split; [split; assumption|].
  rewrite (wst_stream ws tb st Hbw Hpt) in E. unfold upad in E. fold (padz tb) in E.
  exact (app_inv_tail _ _ _ E).
Qed.

Lemma max_code_len_le_mb w ps mb : max_bits_block w ps = Some mb ->
  N.of_nat (max_code_len ps) <= mb.
Proof.
  intros Hmb.
  assert (H : (max_code_len ps <= N.to_nat mb)%nat); [|lia].
  apply max_code_len_bound. apply Forall_forall. intros q Hq.
  pose proof (max_bits_block_In w ps mb q Hmb Hq) as B. unfold max_bits_read in B.
  unfold Nlen in B. destruct (p_jump q); lia.
Qed.

(* ================================================================== *)
(* 7. unchecked blocks under the guard                                 *)
(* ================================================================== *)
(* One block with max_bits_per_num_block + max_overshoot real bits ahead: the word-level
   block is in bounds, equals the model block (which FastL proves equal to one step of the
   checked loop), ends inside the real bits and has consumed at most
   max_bits_per_num_block of them. *)
Theorem rfa_u_block_guard w phys ps tbl ws tb mb mo inc room st :
  fast_ctx w phys ps tbl ws tb ->
  max_bits_block w ps = Some mb -> max_overshoot ps = Some mo ->
  binv tb st -> mb + mo <= Nlen (stream ws tb st) -> 0 < room <= Consts.MAX_ENTRIES ->
  exists l st' incm,
    rfa_u_num_block w phys (rfa_use_gcd ps) ws tbl inc room st = Ok (l, st', inc_merge incm inc) /\
    u_read_block w phys ps room (upad tb (stream ws tb st))
      = Ok (l, upad tb (stream ws tb st'), incm, room - Nlen l) /\
    binv tb st' /\ Nlen (stream ws tb st) <= Nlen (stream ws tb st') + mb /\
    0 < Nlen l <= room /\ (incm <> None -> room - Nlen l = 0).
Proof.
  intros Hctx Hmb Hmo Hi Hg Hroom.
  destruct Hctx as (HT & Hne & Hfrom & Hbw).
  destruct (unchecked_eq_checked w phys tb ps mb mo room (stream ws tb st) (padz tb)
              HT Hmb Hmo Hg Hroom) as (l & s1 & incm & HU & HL & Hn & _).
  pose proof (binv_winv ws tb st Hbw Hi) as Hw.
  pose proof (bw_tb_le ws tb Hbw) as [Hle _].
  pose proof (max_code_len_le_mb w ps mb Hmb) as HM.
  rewrite (stream_Nlen ws tb st Hbw) in Hg.
  assert (Hfit : pos st + N.of_nat (max_code_len ps) <= 64 * Nlen ws) by (destruct Hi; lia).
  change (stream ws tb st ++ padz tb) with (upad tb (stream ws tb st)) in HU.
  rewrite <- (wst_stream ws tb st Hbw (proj2 Hi)) in HU.
  destruct (sim_block w phys ps tbl ws tb inc room st l _ incm _
              (conj HT (conj Hne (conj Hfrom Hbw))) Hw Hfit HU) as (st' & E & W & I').
  destruct (wst_back ws tb st' s1 Hbw I' W) as [Hi' Es].
  exists l, st', incm. split; [exact E|]. rewrite Es.
  rewrite (wst_stream ws tb st Hbw (proj2 Hi)) in HU.
  split; [exact HU|]. split; [exact Hi'|]. split; [exact HL|]. split; [exact Hn|].
  intros Hsome. destruct incm as [pr|]; [|congruence].
  exact (u_read_block_some_full _ _ _ _ _ _ _ _ _ HU).
Qed.

(* `while block_idx < guaranteed_safe_num_blocks && unsigneds.len() < batch_size`: m blocks
   with m * max_bits_per_num_block + max_overshoot real bits ahead *)
Theorem rfa_u_blocks_spec w phys ps tbl ws tb mb mo :
  fast_ctx w phys ps tbl ws tb ->
  max_bits_block w ps = Some mb -> max_overshoot ps = Some mo ->
  forall m inc room st,
  binv tb st -> N.of_nat m * mb + mo <= Nlen (stream ws tb st) -> room <= Consts.MAX_ENTRIES ->
  exists l st' incm room1,
    rfa_u_blocks m w phys (rfa_use_gcd ps) ws tbl inc room st
      = Ok (l, st', inc_merge incm inc, room1) /\
    u_blocks m w phys ps room (upad tb (stream ws tb st))
      = Ok (l, upad tb (stream ws tb st'), incm, room1) /\
    binv tb st' /\ room1 <= room /\ (incm <> None -> room1 = 0).
Proof.
  intros Hctx Hmb Hmo. induction m as [|m IH]; intros inc room st Hi Hg Hroom.
  - exists [], st, None, room. cbn [rfa_u_blocks u_blocks inc_merge].
    split; [reflexivity|]. split; [reflexivity|]. split; [exact Hi|]. split; [lia|congruence].
  - cbn [rfa_u_blocks u_blocks]. destruct (N.eqb_spec room 0) as [R0|R0].
    + exists [], st, None, room. cbn [inc_merge].
      split; [reflexivity|]. split; [reflexivity|]. split; [exact Hi|]. split; [lia|congruence].
    + rewrite Nat2N.inj_succ, N.mul_succ_l in Hg.
      destruct (rfa_u_block_guard w phys ps tbl ws tb mb mo inc room st Hctx Hmb Hmo Hi
                  ltac:(lia) ltac:(lia)) as (l & st1 & incm1 & E1 & U1 & Hi1 & HL1 & Hn1 & Hf1).
      destruct (IH (inc_merge incm1 inc) (room - Nlen l) st1 Hi1 ltac:(lia) ltac:(lia))
        as (l' & st2 & incm2 & room2 & E2 & U2 & Hi2 & Hr2 & Hf2).
      rewrite E1. cbn [bind]. rewrite E2. cbn [bind]. rewrite U1. cbn [bind]. rewrite U2.
      cbn [bind].
      exists (l ++ l'), st2, (inc_merge incm2 incm1), room2.
      split; [rewrite inc_merge_assoc; reflexivity|]. split; [reflexivity|].
      split; [exact Hi2|]. split; [lia|].
      intros Hs. destruct incm2 as [pr|]; [apply Hf2; congruence|].
      cbn [inc_merge] in Hs. specialize (Hf1 Hs). lia.
Qed.

(* the guarded `loop` *)
Theorem rfa_fast_loop_spec w phys ps tbl ws tb mb mo :
  fast_ctx w phys ps tbl ws tb ->
  max_bits_block w ps = Some mb -> max_overshoot ps = Some mo -> 0 < mb ->
  forall fuel inc room st,
  binv tb st -> room <= Consts.MAX_ENTRIES ->
  exists l st' incm room1,
    rfa_fast_loop fuel w phys (rfa_use_gcd ps) ws tb tbl mb mo inc room st
      = Ok (l, st', inc_merge incm inc, room1) /\
    fast_loop fuel w phys tb ps mb mo room (stream ws tb st)
      = Ok (l, stream ws tb st', incm, room1) /\
    binv tb st' /\ room1 <= room /\ (incm <> None -> room1 = 0).
Proof.
  intros Hctx Hmb Hmo Hpos.
  assert (Hbw : bw_ok ws tb) by apply Hctx.
  induction fuel as [|f IH]; intros inc room st Hi Hroom.
  - exists [], st, None, room. cbn [rfa_fast_loop fast_loop inc_merge].
    split; [reflexivity|]. split; [reflexivity|]. split; [exact Hi|]. split; [lia|congruence].
  - cbn [rfa_fast_loop fast_loop]. cbv zeta.
    unfold rfa_bits_remaining. rewrite rb_bit_idx_pos.
    destruct (N.ltb_spec tb (pos st)) as [L|_]; [destruct Hi; lia|]. cbn [bind].
    rewrite <- (stream_Nlen ws tb st Hbw). unfold safe_blocks.
    set (safe := N.min room ((Nlen (stream ws tb st) - mo) / mb)).
    destruct (Consts.UNCHECKED_NUM_THRESHOLD <=? safe) eqn:E.
    + apply N.leb_le in E.
      assert (Hthr : 1 <= Consts.UNCHECKED_NUM_THRESHOLD)
        by (apply N.leb_le; vm_compute; reflexivity).
      destruct (safe_blocks_budget mb mo room (Nlen (stream ws tb st)) safe Hpos eq_refl)
        as [Hb Hsr]; [lia|].
      clearbody safe.
      destruct (rfa_u_blocks_spec w phys ps tbl ws tb mb mo Hctx Hmb Hmo (N.to_nat safe)
                  inc room st Hi ltac:(rewrite N2Nat.id; lia) Hroom)
        as (l & st1 & incm1 & room1 & E1 & U1 & Hi1 & Hr1 & Hf1).
      rewrite E1. cbn [bind]. rewrite U1. cbn [bind]. unfold upad at 1.
      rewrite ustrip_upad. cbn [bind].
      destruct (IH (inc_merge incm1 inc) room1 st1 Hi1 ltac:(lia))
        as (l' & st2 & incm2 & room2 & E2 & U2 & Hi2 & Hr2 & Hf2).
      rewrite E2. cbn [bind]. rewrite U2. cbn [bind].
      exists (l ++ l'), st2, (inc_merge incm2 incm1), room2.
      split; [rewrite inc_merge_assoc; reflexivity|]. split; [reflexivity|].
      split; [exact Hi2|]. split; [lia|].
      intros Hs. destruct incm2 as [pr|]; [apply Hf2; congruence|].
      cbn [inc_merge] in Hs. specialize (Hf1 Hs). lia.
    + exists [], st, None, room. cbn [inc_merge].
      split; [reflexivity|]. split; [reflexivity|]. split; [exact Hi|]. split; [lia|congruence].
Qed.

(* ================================================================== *)
(* 8. everything after the incomplete-prefix part                      *)
(* ================================================================== *)
Lemma fast_body_ctx w phys ps tbl ws tb :
  fast_ctx w phys ps tbl ws tb -> body_ctx w ps tbl ws tb.
Proof.
  intros ((Hok & HM & HF) & Hne & Hfrom & Hbw).
  refine (conj Hok (conj Hne (conj HM (conj Hfrom (conj Hbw _))))).
  eapply Forall_impl; [|exact HF]. intros a (Sa & _ & Ja). split; [exact Sa|].
  intros j0 E. specialize (Ja j0 E). lia.
Qed.

Lemma max_bits_block_some w ps : ps <> [] -> exists mb, max_bits_block w ps = Some mb.
Proof.
  intros Hne. unfold max_bits_block. destruct (list_max_opt (map (max_bits_read w) ps)) eqn:E.
  - eexists. reflexivity.
  - apply list_max_opt_None in E. destruct ps; [congruence|discriminate].
Qed.

Lemma max_overshoot_some ps : ps <> [] -> exists mo, max_overshoot ps = Some mo.
Proof.
  intros Hne. unfold max_overshoot. destruct (list_max_opt (map max_bits_overshot ps)) eqn:E.
  - eexists. reflexivity.
  - apply list_max_opt_None in E. destruct ps; [congruence|discriminate].
Qed.

(* the constant branch, the guarded loop and the checked `while` = Fast.fast_blocks.  As for
   RBodyL.rb_blocks_spec, the incomplete prefix is None on entry whenever the batch still
   has room. *)
Theorem rfa_blocks_spec w phys ps tbl ws tb : fast_ctx w phys ps tbl ws tb ->
  forall inc room st,
  binv tb st -> room <= Consts.MAX_ENTRIES -> (room <> 0 -> inc = None) ->
  forall l st' inc' s,
  rfa_blocks w phys (rfa_use_gcd ps) ws tb tbl (rfa_max_bits_per_num_block w ps)
             (rfa_max_overshoot_per_num_block ps) inc room st = (l, st', inc', s) ->
  exists incm,
    fast_blocks w phys tb ps room (stream ws tb st) = (l, stream ws tb st', incm, s) /\
    binv tb st' /\ s <> SPanic /\ inc' = inc_merge incm inc.
Proof.
  intros Hctx inc room st Hi Hroom Hinc l st' inc' s E.
  pose proof Hctx as (HT & Hne & Hfrom & Hbw).
  destruct (max_bits_block_some w ps Hne) as (mb & Hmb).
  destruct (max_overshoot_some ps Hne) as (mo & Hmo).
  unfold rfa_max_bits_per_num_block, rfa_max_overshoot_per_num_block in E.
  rewrite Hmb, Hmo in E. unfold rfa_blocks in E. unfold fast_blocks. rewrite Hmb, Hmo.
  destruct mb as [|mbp].
  - (* max_bits_per_num_block == 0: one table entry, the empty code, one value *)
    change (0 =? 0) with true in E. cbv iota in E.
    pose proof HT as (Hok & HM & HF).
    destruct (mb0_table w ps Hok Hmb) as (p & Eps & Hc & Hj & Hk).
    assert (Hin : In p ps) by (rewrite Eps; left; reflexivity).
    rewrite Forall_forall in HF. destruct (HF p Hin) as (Sp & Qp & _).
    assert (UB : u_read_block w phys ps 1 (upad tb (stream ws tb st))
                 = Ok ([p_lower p], upad tb (stream ws tb st), None, 1 - Nlen [p_lower p])).
    { unfold u_read_block. rewrite Eps. rewrite (u_read_code_single p _ Hc). cbn [bind].
      rewrite Hj. unfold upad.
      rewrite (u_read_offsets_lift w phys p _ Sp Qp 1 (stream ws tb st) [p_lower p]
                 (stream ws tb st) (read_offsets_k0 w p Sp Hk 1 (stream ws tb st))).
      reflexivity. }
    pose proof (binv_winv ws tb st Hbw Hi) as Hw.
    pose proof (max_code_len_le_mb w ps 0 Hmb) as HMl.
    rewrite <- (wst_stream ws tb st Hbw (proj2 Hi)) in UB.
    destruct (sim_block w phys ps tbl ws tb inc 1 st _ _ _ _ Hctx Hw ltac:(destruct Hw; lia) UB)
      as (st1 & E1 & W1 & I1).
    rewrite (wst_stream ws tb st Hbw (proj2 Hi)) in UB, W1.
    destruct (wst_back ws tb st1 (stream ws tb st) Hbw I1 W1) as [Hi1 Es1].
    rewrite E1 in E. cbn [inc_merge] in E. inversion E; subst l st' inc' s; clear E.
    rewrite UB. cbn [bind]. unfold upad. rewrite ustrip_upad. cbn [bind].
    exists None. rewrite Es1. split; [reflexivity|]. split; [exact Hi1|].
    split; [discriminate|reflexivity].
  - (* the guarded loop, then the checked loop *)
    change (N.pos mbp =? 0) with false in E. cbv iota in E.
    destruct (rfa_fast_loop_spec w phys ps tbl ws tb (N.pos mbp) mo Hctx Hmb Hmo ltac:(lia)
                (S (N.to_nat room)) inc room st Hi Hroom)
      as (l1 & st1 & incm1 & room1 & E1 & U1 & Hi1 & Hr1 & Hf1).
    rewrite E1 in E. rewrite U1.
    destruct (rb_blocks (N.to_nat room1) w ws tb tbl (inc_merge incm1 inc) room1 st1)
      as [[[l2 st2] inc2] s2] eqn:RB.
    assert (Hinc1 : room1 <> 0 -> inc_merge incm1 inc = None).
    { intros R1. destruct incm1 as [pr|]; [exfalso; apply R1, Hf1; congruence|].
      cbn [inc_merge]. apply Hinc. lia. }
    destruct (rb_blocks_spec w ps tbl ws tb (fast_body_ctx _ _ _ _ _ _ Hctx) _ _ _ _ Hi1 Hinc1
                _ _ _ _ RB) as (incm2 & RBM & Hi2 & NP2 & Einc2).
    rewrite RBM. inversion E; subst l st' inc' s; clear E.
    exists (inc_merge incm2 incm1). split; [reflexivity|]. split; [exact Hi2|].
    split; [exact NP2|]. rewrite inc_merge_assoc. exact Einc2.
Qed.

(* ================================================================== *)
(* 9. one call of the complete decompress_unsigneds_limited_dirty       *)
(* ================================================================== *)
Lemma fast_batch_unfold w phys tb ps n_left inc limit eoi s :
  fast_batch w phys tb ps n_left inc limit eoi s =
  let batch_size := N.min n_left limit in
  let completed := n_left <=? limit in
  if batch_size =? 0 then mkBatch [] s inc completed SOk else
  match inc with
  | Some (p, remaining) =>
    let reps := N.min remaining batch_size in
    let '(l, s1, st) := read_offsets w p (N.to_nat reps) s in
    let rem' := remaining - Nlen l in
    let inc1 := if rem' =? 0 then None else Some (p, rem') in
    match st with
    | SOk =>
      let '(l2, s2, inc2, st2) := fast_blocks w phys tb ps (batch_size - Nlen l) s1 in
      mfinish completed eoi (l ++ l2) s2 (inc_merge inc2 inc1) st2
    | _ => mfinish completed eoi l s1 inc1 st
    end
  | None =>
    let '(l, s1, inc1, st) := fast_blocks w phys tb ps batch_size s in
    mfinish completed eoi l s1 inc1 st
  end.
Proof. reflexivity. Qed.

Theorem rfa_batch_same w phys ps tbl ws tb n_left inc limit eoi st :
  fast_ctx w phys ps tbl ws tb -> n_left <= Consts.MAX_ENTRIES -> sane_inc w inc -> binv tb st ->
  same_out ws tb
    (rfa_batch w phys ws tb tbl (rfa_max_bits_per_num_block w ps)
               (rfa_max_overshoot_per_num_block ps) (rfa_use_gcd ps) n_left inc limit eoi st)
    (fast_batch w phys tb ps n_left inc limit eoi (stream ws tb st)).
Proof.
  intros Hctx Hn Hsinc Hi.
  assert (Hrd : rd_ok ws tb) by (apply bw_rd_ok; apply Hctx).
  rewrite fast_batch_unfold. unfold rfa_batch. cbv zeta.
  set (bs := N.min n_left limit).
  assert (Hbs : bs <= Consts.MAX_ENTRIES) by (unfold bs; lia).
  clearbody bs.
  destruct (N.eqb_spec bs 0) as [B0|B0].
  { unfold same_out. cbn. repeat split; try assumption; try discriminate; apply Hi. }
  destruct inc as [[p remaining]|].
  - assert (Sp : sane_prefix w p) by (eapply Hsinc; reflexivity).
    destruct (rb_offsets w ws tb p (N.to_nat (N.min remaining bs)) st) as [[l st1] s] eqn:RO.
    destruct (rb_offsets_spec w ws tb p Hrd Sp _ st Hi _ _ _ RO) as (RM & Hi1 & NP).
    rewrite RM.
    destruct s as [|k|]; [| |congruence].
    + destruct (read_offsets_count _ _ _ _ _ _ _ RM) as [_ C2]. rewrite N2Nat.id in C2.
      specialize (C2 eq_refl).
      set (inc1 := if remaining - Nlen l =? 0 then None else Some (p, remaining - Nlen l)).
      assert (Hinc1 : bs - Nlen l <> 0 -> inc1 = None).
      { intros Hr. unfold inc1. destruct (N.eqb_spec (remaining - Nlen l) 0) as [_|Hn0];
          [reflexivity|lia]. }
      clearbody inc1.
      destruct (rfa_blocks w phys (rfa_use_gcd ps) ws tb tbl (rfa_max_bits_per_num_block w ps)
                  (rfa_max_overshoot_per_num_block ps) inc1 (bs - Nlen l) st1)
        as [[[l2 st2] inc2] s2] eqn:RB.
      assert (Hroom1 : bs - Nlen l <= Consts.MAX_ENTRIES) by lia.
      destruct (rfa_blocks_spec w phys ps tbl ws tb Hctx _ _ _ Hi1 Hroom1 Hinc1 _ _ _ _ RB)
        as (incm & FB & Hi2 & NP2 & Einc2).
      rewrite FB. subst inc2. apply finish_same; assumption.
    + apply finish_same; [exact Hi1|discriminate].
  - destruct (rfa_blocks w phys (rfa_use_gcd ps) ws tb tbl (rfa_max_bits_per_num_block w ps)
                (rfa_max_overshoot_per_num_block ps) None bs st)
      as [[[l st1] inc1] s] eqn:RB.
    destruct (rfa_blocks_spec w phys ps tbl ws tb Hctx _ _ _ Hi Hbs ltac:(reflexivity) _ _ _ _ RB)
      as (incm & FB & Hi1 & NP & Einc).
    rewrite FB. rewrite inc_merge_None_r in Einc. subst inc1.
    apply finish_same; assumption.
Qed.

(* ------------------------------------------------------------------ *)
(* the main theorem, with explicit (i, j)                               *)
(* ------------------------------------------------------------------ *)
(* [ws], [tb]: the words and total_bits of the BitReader (BitWords invariant bw_ok);
   [tbl] = HuffmanTable::from(prefixes); the NumDecompressor fields max_bits_per_num_block,
   max_overshoot_per_num_block and use_gcd are what NumDecompressor::new computes from the
   prefixes; the table is one NumDecompressor::new accepts from parsed metadata
   (FastL.fast_table, see FastL.parsed_chunk_fast); n - n_processed <= MAX_ENTRIES; the
   reader is at (i, j), inside the data. *)
Theorem rfa_batch_eq w phys ps tbl ws tb i j n_left inc limit eoi :
  bw_ok ws tb -> fast_table w phys ps -> ps <> [] -> hfrom w ps = Ok tbl ->
  n_left <= Consts.MAX_ENTRIES -> sane_inc w inc ->
  j <= 64 -> 64 * i + j <= tb ->
  let out := rfa_batch w phys ws tb tbl (rfa_max_bits_per_num_block w ps)
                       (rfa_max_overshoot_per_num_block ps) (rfa_use_gcd ps)
                       n_left inc limit eoi (i, j) in
  let m := fast_batch w phys tb ps n_left inc limit eoi (rd_stream ws tb (64 * i + j)) in
  rb_nums out = b_nums m /\
  rb_incomplete out = b_incomplete m /\
  rb_finished out = b_finished m /\
  rb_status out = b_status m /\
  b_rest m = rd_stream ws tb (64 * fst (rb_pos out) + snd (rb_pos out)) /\
  rb_status out <> SPanic /\
  snd (rb_pos out) <= 64 /\ 64 * fst (rb_pos out) + snd (rb_pos out) <= tb.
Proof.
  intros Hbw HT Hne Hfrom Hn Hsinc Hj Hp out m.
  assert (Hctx : fast_ctx w phys ps tbl ws tb) by exact (conj HT (conj Hne (conj Hfrom Hbw))).
  assert (Hi : binv tb (i, j)) by (split; cbn [fst snd]; [exact Hj|rewrite pos_ij; exact Hp]).
  pose proof (rfa_batch_same w phys ps tbl ws tb n_left inc limit eoi (i, j) Hctx Hn Hsinc Hi) as S.
  unfold RBodyL.stream in S at 1. rewrite pos_ij in S. fold m out in S.
  destruct S as (A & B & C & D & E & F & G1 & G2).
  repeat split; assumption.
Qed.

(* Memory safety of the fast path.  In Model/RFast.v every `self.words[self.i]` of
   unchecked_read_one / unchecked_read_diff / unchecked_read_varint /
   unchecked_read_prefix_table_idx is Huff.rd_word_chk — Panic when i >= words.len()
   (rd_word_chk_oob) — and `total_bits - bit_idx`, `read_depth - depth`, `bit_idx - n`,
   `k_range - offset`, `offset * gcd`, `lower + _`, `children[idx]`, `temp[0]` are Panic when
   they underflow / overflow / are out of range.  The complete function does not panic: all
   these accesses are in bounds, whatever the bytes of the body are. *)
Corollary rfa_batch_in_bounds w phys ps tbl ws tb i j n_left inc limit eoi :
  bw_ok ws tb -> fast_table w phys ps -> ps <> [] -> hfrom w ps = Ok tbl ->
  n_left <= Consts.MAX_ENTRIES -> sane_inc w inc ->
  j <= 64 -> 64 * i + j <= tb ->
  rb_status (rfa_batch w phys ws tb tbl (rfa_max_bits_per_num_block w ps)
                       (rfa_max_overshoot_per_num_block ps) (rfa_use_gcd ps)
                       n_left inc limit eoi (i, j)) <> SPanic.
Proof.
  intros Hbw HT Hne Hfrom Hn Hsinc Hj Hp.
  exact (proj1 (proj2 (proj2 (proj2 (proj2 (proj2
    (rfa_batch_eq w phys ps tbl ws tb i j n_left inc limit eoi Hbw HT Hne Hfrom Hn Hsinc Hj Hp))))))).
Qed.

(* ------------------------------------------------------------------ *)
(* against the checked-only semantics                                   *)
(* ------------------------------------------------------------------ *)
(* FastL.fast_batch_eq: the bit-list complete function is Codec.read_batch.  So the real
   complete function, at word level, returns what the checked-only bit-list decoder
   returns. *)
Corollary rfa_batch_eq_checked w phys ps tbl ws tb i j n_left inc limit eoi :
  bw_ok ws tb -> fast_table w phys ps -> ps <> [] -> hfrom w ps = Ok tbl ->
  n_left <= Consts.MAX_ENTRIES -> sane_inc w inc ->
  j <= 64 -> 64 * i + j <= tb ->
  let out := rfa_batch w phys ws tb tbl (rfa_max_bits_per_num_block w ps)
                       (rfa_max_overshoot_per_num_block ps) (rfa_use_gcd ps)
                       n_left inc limit eoi (i, j) in
  let m := read_batch w tb ps n_left inc limit eoi (rd_stream ws tb (64 * i + j)) in
  rb_nums out = b_nums m /\
  rb_incomplete out = b_incomplete m /\
  rb_finished out = b_finished m /\
  rb_status out = b_status m /\
  b_rest m = rd_stream ws tb (64 * fst (rb_pos out) + snd (rb_pos out)) /\
  rb_status out <> SPanic /\
  snd (rb_pos out) <= 64 /\ 64 * fst (rb_pos out) + snd (rb_pos out) <= tb.
Proof.
  intros Hbw HT Hne Hfrom Hn Hsinc Hj Hp. cbv zeta.
  rewrite <- (fast_batch_eq w phys tb ps n_left inc limit eoi _ HT Hn).
  apply rfa_batch_eq; assumption.
Qed.

(* ... and the word-level complete function = the word-level checked-only function
   (RBody.rb_batch): the fast path is unobservable at word level too *)
Corollary rfa_batch_eq_rb_batch w phys ps tbl ws tb i j n_left inc limit eoi :
  bw_ok ws tb -> fast_table w phys ps -> ps <> [] -> hfrom w ps = Ok tbl ->
  n_left <= Consts.MAX_ENTRIES -> sane_inc w inc ->
  j <= 64 -> 64 * i + j <= tb ->
  let out := rfa_batch w phys ws tb tbl (rfa_max_bits_per_num_block w ps)
                       (rfa_max_overshoot_per_num_block ps) (rfa_use_gcd ps)
                       n_left inc limit eoi (i, j) in
  let out' := rb_batch w ws tb tbl n_left inc limit eoi (i, j) in
  rb_nums out = rb_nums out' /\ rb_incomplete out = rb_incomplete out' /\
  rb_finished out = rb_finished out' /\ rb_status out = rb_status out' /\
  64 * fst (rb_pos out) + snd (rb_pos out) = 64 * fst (rb_pos out') + snd (rb_pos out').
Proof.
  intros Hbw HT Hne Hfrom Hn Hsinc Hj Hp.
  pose proof (rfa_batch_eq w phys ps tbl ws tb i j n_left inc limit eoi
                Hbw HT Hne Hfrom Hn Hsinc Hj Hp) as A.
  pose proof (rb_batch_eq_fast w phys ps tbl ws tb i j n_left inc limit eoi
                Hbw HT Hne Hfrom Hn Hsinc Hj Hp) as B.
  cbv zeta in *.
  destruct A as (A1 & A2 & A3 & A4 & A5 & _ & _ & A8).
  destruct B as (B1 & B2 & B3 & B4 & B5 & _ & _ & B8).
  repeat split; try congruence.
  pose proof (bw_tb_le ws tb Hbw) as [Hle _].
  rewrite A5 in B5. apply (f_equal (@length bool)) in B5.
  rewrite !rd_stream_length in B5 by exact Hle. lia.
Qed.

(* every chunk whose metadata was parsed: the decompressor NumDecompressor::new builds from
   it satisfies the hypotheses, whatever bytes follow the metadata *)
Corollary rfa_batch_parsed f d s0 mt r c tbl ws tb i j nproc inc limit eoi :
  parse_meta f d s0 = Ok (mt, r) -> new_cbd f mt = Ok c -> c_table c <> [] ->
  hfrom (ubits (pdt f d)) (c_table c) = Ok tbl ->
  bw_ok ws tb -> sane_inc (ubits (pdt f d)) inc -> j <= 64 -> 64 * i + j <= tb ->
  let w := ubits (pdt f d) in
  let ps := c_table c in
  let out := rfa_batch w (phys (pdt f d)) ws tb tbl (rfa_max_bits_per_num_block w ps)
                       (rfa_max_overshoot_per_num_block ps) (rfa_use_gcd ps)
                       (c_n c - nproc) inc limit eoi (i, j) in
  let m := read_batch w tb ps (c_n c - nproc) inc limit eoi (rd_stream ws tb (64 * i + j)) in
  rb_nums out = b_nums m /\
  rb_incomplete out = b_incomplete m /\
  rb_finished out = b_finished m /\
  rb_status out = b_status m /\
  b_rest m = rd_stream ws tb (64 * fst (rb_pos out) + snd (rb_pos out)) /\
  rb_status out <> SPanic /\
  snd (rb_pos out) <= 64 /\ 64 * fst (rb_pos out) + snd (rb_pos out) <= tb.
Proof.
  intros PM NC Hne Hfrom Hbw Hsinc Hj Hp.
  destruct (parsed_chunk_fast f d s0 mt r c PM NC) as [HT Hn].
  apply rfa_batch_eq_checked; try assumption. lia.
Qed.

(* ================================================================== *)
(* 10. from the bytes the Decompressor holds                           *)
(* ================================================================== *)
(* BitWords::from(bytes), seek_to(p), NumDecompressor::new(prefixes): the table is built and
   the complete function is the checked bit-list batch on the bits of the bytes from p on *)
Theorem rfa_batch_bytes_eq w phys ps bytes p n_left inc limit eoi :
  Forall (fun b => b < 256) bytes -> p <= 8 * Nlen bytes ->
  fast_table w phys ps -> ps <> [] -> n_left <= Consts.MAX_ENTRIES -> sane_inc w inc ->
  match rfa_batch_bytes w phys ps bytes p n_left inc limit eoi with
  | Ok out =>
    let m := read_batch w (8 * Nlen bytes) ps n_left inc limit eoi
                        (skipn (N.to_nat p) (bytes_to_bits bytes)) in
    rb_nums out = b_nums m /\
    rb_incomplete out = b_incomplete m /\
    rb_finished out = b_finished m /\
    rb_status out = b_status m /\
    b_rest m = skipn (N.to_nat (64 * fst (rb_pos out) + snd (rb_pos out))) (bytes_to_bits bytes) /\
    rb_status out <> SPanic /\
    snd (rb_pos out) <= 64 /\ 64 * fst (rb_pos out) + snd (rb_pos out) <= 8 * Nlen bytes
  | _ => False
  end.
Proof.
  intros Hb Hp HT Hne Hn Hsinc. unfold rfa_batch_bytes.
  pose proof (bw_from_bytes_spec bytes Hb) as H.
  destruct (bw_extend [] 0 bytes) as [ws tb]. destruct H as (Htb & Hbw & Hbits).
  destruct (hfrom_total w ps (proj1 HT)) as (tbl & Hfrom). rewrite Hfrom. cbn [bind].
  destruct (rb_seek_to_pos p) as [Epos Lj].
  destruct (rb_seek_to p) as [i j] eqn:Es. cbn [snd] in Lj. rewrite pos_ij in Epos.
  pose proof (rfa_batch_eq_checked w phys ps tbl ws tb i j n_left inc limit eoi Hbw HT Hne Hfrom
                Hn Hsinc ltac:(lia) ltac:(lia)) as R.
  cbv zeta in R. unfold rd_stream in R. rewrite Hbits, Epos in R. subst tb. exact R.
Qed.

(* ================================================================== *)
(* assumptions                                                         *)
(* ================================================================== *)
Print Assumptions rfa_unchecked_read_diff_in_bounds.
Print Assumptions sim_offset.
Print Assumptions sim_offsets.
Print Assumptions sim_block.
Print Assumptions rfa_u_block_guard.
Print Assumptions rfa_u_blocks_spec.
Print Assumptions rfa_fast_loop_spec.
Print Assumptions rfa_blocks_spec.
Print Assumptions rfa_batch_same.
Print Assumptions rfa_batch_eq.
Print Assumptions rfa_batch_in_bounds.
Print Assumptions rfa_batch_eq_checked.
Print Assumptions rfa_batch_eq_rb_batch.
Print Assumptions rfa_batch_parsed.
Print Assumptions rfa_batch_bytes_eq.
