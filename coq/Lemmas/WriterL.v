(* WriterL.v — protocol properties of the compressor state machine W (Model/Writer.v):
   rejected operations are no-ops, every error is InvalidArgument, exact acceptance
   conditions, independence from drain/byte_size calls, removability of failed
   operations, and the bytes of a complete file. *)
From QCo.Lemmas Require Import Tactics.
From QCo.Model Require Import Base Consts DType Codec Writer.
Open Scope N_scope.

(* ------------------------------------------------------------------ *)
(* generic helpers                                                     *)
(* ------------------------------------------------------------------ *)

Lemma bind_err {A B} (r : res A) (f : A -> res B) k :
  bind r f = Err k -> r = Err k \/ exists a, r = Ok a /\ f a = Err k.
Proof. destruct r; simpl; intros H; [right; eauto | left; inversion H; reflexivity | discriminate]. Qed.

Lemma w_run_cons c d st o t :
  w_run c d st (o :: t) =
  (fst (w_run c d (fst (w_step c d st o)) t),
   snd (w_step c d st o) :: snd (w_run c d (fst (w_step c d st o)) t)).
Proof.
  cbn [w_run]. destruct (w_step c d st o) as [st1 out]. cbn [fst snd].
  destruct (w_run c d st1 t) as [st2 outs]. reflexivity.
Qed.

Lemma w_run_nil c d st : w_run c d st [] = (st, []).
Proof. reflexivity. Qed.

Lemma w_run_app c d st a b :
  w_run c d st (a ++ b) =
  (fst (w_run c d (fst (w_run c d st a)) b),
   snd (w_run c d st a) ++ snd (w_run c d (fst (w_run c d st a)) b)).
Proof.
  revert st. induction a as [|o a IH]; intros st.
  - cbn [app w_run fst snd]. destruct (w_run c d st b); reflexivity.
  - rewrite <- app_comm_cons. rewrite !w_run_cons, IH. cbn [fst snd]. reflexivity.
Qed.

(* ------------------------------------------------------------------ *)
(* 1a. sources of errors on the write path                             *)
(* ------------------------------------------------------------------ *)

Lemma to_bytes_no_err d x k : to_bytes d x <> Err k.
Proof.
  unfold to_bytes. destruct (kind d); try discriminate.
  match goal with |- context [if ?b then _ else _] => destruct b end; discriminate.
Qed.

Lemma write_num_no_err d x k : write_num d x <> Err k.
Proof.
  unfold write_num. intros H. apply bind_err in H.
  destruct H as [H | [a [_ H]]]; [eapply to_bytes_no_err; eauto | discriminate].
Qed.

Lemma write_moments_no_err sd ms k : write_moments sd ms <> Err k.
Proof.
  induction ms as [|m t IH]; cbn [write_moments]; [discriminate|].
  intros H. apply bind_err in H. destruct H as [H | [a [_ H]]].
  - eapply write_num_no_err; eauto.
  - apply bind_err in H. destruct H as [H | [b [_ H]]]; [auto | discriminate].
Qed.

Lemma write_prefix_list_no_err f pd n common ps k :
  write_prefix_list f pd n common ps <> Err k.
Proof.
  induction ps as [|p t IH]; cbn [write_prefix_list]; [discriminate|].
  intros H. apply bind_err in H. destruct H as [H | [a [_ H]]].
  { eapply write_num_no_err; eauto. }
  apply bind_err in H. destruct H as [H | [b [_ H]]].
  { eapply write_num_no_err; eauto. }
  apply bind_err in H. destruct H as [H | [r [_ H]]]; [auto | discriminate].
Qed.

Lemma write_prefixes_no_err f pd n ps k : write_prefixes f pd n ps <> Err k.
Proof.
  unfold write_prefixes. intros H. apply bind_err in H.
  destruct H as [H | [a [_ H]]]; [eapply write_prefix_list_no_err; eauto | discriminate].
Qed.

Lemma write_meta_no_err f d m k : write_meta f d m <> Err k.
Proof.
  unfold write_meta. intros H. apply bind_err in H. destruct H as [H | [a [_ H]]].
  { eapply write_moments_no_err; eauto. }
  apply bind_err in H. destruct H as [H | [b [_ H]]];
    [eapply write_prefixes_no_err; eauto | discriminate].
Qed.

Lemma write_body_fuel_err fuel ps us k :
  write_body_fuel fuel ps us = Err k -> k = InvalidArgument.
Proof.
  revert us. induction fuel as [|fuel IH]; intros us H; cbn [write_body_fuel] in H.
  { discriminate. }
  destruct us as [|u t]; [discriminate|].
  destruct (find_prefix ps u) as [p|]; [|inversion H; reflexivity].
  destruct (p_jump p); apply bind_err in H; destruct H as [H | [r [_ H]]];
    try discriminate; eapply IH; eauto.
Qed.

Lemma write_body_err ps us k : write_body ps us = Err k -> k = InvalidArgument.
Proof.
  unfold write_body. intros H. apply bind_err in H.
  destruct H as [H | [a [_ H]]]; [eapply write_body_fuel_err; eauto | discriminate].
Qed.

Lemma chunk_payload_err d f table xs k :
  chunk_payload d f table xs = Err k -> k = InvalidArgument.
Proof.
  unfold chunk_payload. intros H. apply bind_err in H.
  destruct H as [H | [body [_ H]]]; [eapply write_body_err; eauto|].
  apply bind_err in H. destruct H as [H | [mb [_ H]]];
    [exfalso; eapply write_meta_no_err; eauto | discriminate].
Qed.

Lemma flags_payload_err f k : flags_payload f = Err k -> k = InvalidArgument.
Proof.
  unfold flags_payload. destruct (_ <? _); intros H; inversion H; reflexivity.
Qed.

Lemma flags_payload_never_panics f : flags_payload f <> Panic.
Proof. unfold flags_payload. destruct (_ <? _); discriminate. Qed.

Lemma header_bytes_err d f k : header_bytes d f = Err k -> k = InvalidArgument.
Proof.
  unfold header_bytes, write_flags. intros H. apply bind_err in H.
  destruct H as [H | [fb [_ H]]]; [|discriminate].
  apply bind_err in H. destruct H as [H | [p [_ H]]]; [|discriminate].
  eapply flags_payload_err; eauto.
Qed.

Lemma header_bytes_never_panics d f : header_bytes d f <> Panic.
Proof.
  unfold header_bytes, write_flags, flags_payload.
  destruct (_ <? _); cbn [bind]; discriminate.
Qed.

(* header_bytes succeeds exactly when the delta order is encodable *)
Lemma header_bytes_ok_iff d f :
  (exists hb, header_bytes d f = Ok hb) <-> ford f <= 7.
Proof.
  unfold header_bytes, write_flags, flags_payload.
  change Consts.MAX_DELTA_ENCODING_ORDER with 7.
  destruct (N.ltb_spec 7 (ford f)) as [L|L]; cbn [bind]; split.
  - intros [hb H]; discriminate.
  - intros; lia.
  - intros; exact L.
  - intros _; eexists; reflexivity.
Qed.

Lemma cfg_flags_ford c : ford (cfg_flags c) = w_order c.
Proof. reflexivity. Qed.

Opaque chunk_payload header_bytes.

(* ------------------------------------------------------------------ *)
(* 1. rejected operations are no-ops; all errors are InvalidArgument   *)
(* ------------------------------------------------------------------ *)

Ltac step_cases H :=
  unfold w_step in H;
  repeat match type of H with
  | context [match ?o with WHeader => _ | _ => _ end] => destruct o
  | context [if ?b then _ else _] => destruct b eqn:?
  | context [match ?r with Ok _ => _ | Err _ => _ | Panic => _ end] =>
      let E := fresh "E" in destruct r as [[? ?]| ? |] eqn:E
  | context [match ?r with Ok _ => _ | Err _ => _ | Panic => _ end] =>
      let E := fresh "E" in destruct r as [?| ? |] eqn:E
  end.

Theorem w_reject_is_noop : forall c d st o st' k,
  w_step c d st o = (st', WErr k) -> st' = st.
Proof.
  intros c d st o st' k H. step_cases H; inversion H; reflexivity.
Qed.

Theorem w_panic_is_noop : forall c d st o st',
  w_step c d st o = (st', WPanic) -> st' = st.
Proof.
  intros c d st o st' H. step_cases H; inversion H; reflexivity.
Qed.

(* no hypothesis on the table is needed: every Err source on the write path is
   InvalidArgument (to_bytes can only Panic, never Err) *)
Theorem w_errors_are_invalid_argument : forall c d st o st' k,
  w_step c d st o = (st', WErr k) -> k = InvalidArgument.
Proof.
  intros c d st o st' k H. step_cases H; inversion H; subst; try reflexivity.
  - eapply header_bytes_err; eauto.
  - eapply chunk_payload_err; eauto.
Qed.

(* writing the header never panics *)
Theorem w_header_never_panics : forall c d st st',
  w_step c d st WHeader <> (st', WPanic).
Proof.
  intros c d st st' H. step_cases H; inversion H.
  eapply header_bytes_never_panics; eauto.
Qed.

(* failure as a boolean on outputs *)
Definition wfail (o : wout) : bool :=
  match o with WErr _ | WPanic => true | _ => false end.

Theorem w_fail_is_noop : forall c d st o,
  wfail (snd (w_step c d st o)) = true -> fst (w_step c d st o) = st.
Proof.
  intros c d st o H. destruct (w_step c d st o) as [st' out] eqn:E. cbn [fst snd] in *.
  destruct out; try discriminate.
  - eapply w_reject_is_noop; eauto.
  - eapply w_panic_is_noop; eauto.
Qed.

(* ------------------------------------------------------------------ *)
(* 2. exact acceptance conditions                                      *)
(* ------------------------------------------------------------------ *)

Theorem chunk_args_ok_spec : forall c d xs,
  chunk_args_ok c d xs = true <->
  xs <> [] /\
  (chunk_unsigneds d (w_order c) xs = [] \/ (w_level c <= 12 /\ Nlen xs <= 16777215)).
Proof.
  intros c d xs. unfold chunk_args_ok.
  change Consts.MAX_COMPRESSION_LEVEL with 12. change Consts.MAX_ENTRIES with 16777215.
  rewrite andb_true_iff, orb_true_iff, andb_true_iff, negb_true_iff, !N.leb_le.
  assert (Hn : forall A (l : list A), is_nil l = true <-> l = []).
  { intros A l; destruct l; cbn; split; intros; congruence. }
  assert (Hf : forall A (l : list A), is_nil l = false <-> l <> []).
  { intros A l; destruct l; cbn; split; intros; congruence. }
  rewrite Hn, Hf. reflexivity.
Qed.

Theorem w_header_accepts_exactly : forall c d st,
  snd (w_step c d st WHeader) = WUnit <->
  w_hdr st = false /\ w_ftr st = false /\ w_order c <= 7.
Proof.
  intros c d st. rewrite <- cfg_flags_ford, <- (header_bytes_ok_iff d (cfg_flags c)).
  unfold w_step.
  destruct (w_hdr st), (w_ftr st); cbn [orb snd];
    try (split; [discriminate | intros (A & B & _); discriminate]).
  destruct (header_bytes d (cfg_flags c)) as [hb|k|]; cbn [snd]; split;
    try discriminate; try (intros (_ & _ & hb' & H); discriminate).
  - intros _. repeat split. eauto.
  - reflexivity.
Qed.

Theorem w_footer_accepts_exactly : forall c d st,
  snd (w_step c d st WFooter) = WUnit <-> w_hdr st = true /\ w_ftr st = false.
Proof.
  intros c d st. unfold w_step.
  destruct (w_hdr st), (w_ftr st); cbn [negb orb snd]; split;
    try discriminate; try (intros [A B]; discriminate); auto.
Qed.

Theorem w_chunk_accepts_exactly : forall c d st xs table m,
  snd (w_step c d st (WChunk xs table)) = WMeta m <->
  w_hdr st = true /\ w_ftr st = false /\ chunk_args_ok c d xs = true /\
  exists bs, chunk_payload d (cfg_flags c) table xs = Ok (m, bs).
Proof.
  intros c d st xs table m. unfold w_step.
  destruct (w_hdr st), (w_ftr st); cbn [negb orb snd];
    try (split; [discriminate | intros (A & B & _); discriminate]).
  destruct (chunk_args_ok c d xs); cbn [negb snd];
    try (split; [discriminate | intros (_ & _ & A & _); discriminate]).
  destruct (chunk_payload d (cfg_flags c) table xs) as [[m' bs]|k|]; cbn [snd]; split;
    try discriminate; try (intros (_ & _ & _ & bs' & H); discriminate).
  - intros H. inversion H; subst. repeat split. eauto.
  - intros (_ & _ & _ & bs' & H). inversion H; subst. reflexivity.
Qed.

(* the "only if" form asked for, on the full step equation *)
Theorem w_chunk_accepts_only_if : forall c d st xs table st' m,
  w_step c d st (WChunk xs table) = (st', WMeta m) ->
  w_hdr st = true /\ w_ftr st = false /\ chunk_args_ok c d xs = true /\
  xs <> [] /\
  (chunk_unsigneds d (w_order c) xs = [] \/ (w_level c <= 12 /\ Nlen xs <= 16777215)).
Proof.
  intros c d st xs table st' m H.
  assert (H' : snd (w_step c d st (WChunk xs table)) = WMeta m) by (rewrite H; reflexivity).
  apply w_chunk_accepts_exactly in H'. destruct H' as (A & B & C & _).
  repeat split; try assumption; apply chunk_args_ok_spec in C; tauto.
Qed.

Theorem w_drain_always_succeeds : forall c d st,
  w_step c d st WDrain = (mkW (w_hdr st) (w_ftr st) [], WBytes (w_pending st)).
Proof. reflexivity. Qed.

Theorem w_byte_size_always_succeeds : forall c d st,
  w_step c d st WByteSize = (st, WSize (Nlen (w_pending st))).
Proof. reflexivity. Qed.

(* the outputs an operation can produce *)
Theorem w_output_shape : forall c d st o st' out,
  w_step c d st o = (st', out) ->
  match o, out with
  | WHeader, (WUnit | WErr _) => True
  | WChunk _ _, (WMeta _ | WErr _ | WPanic) => True
  | WFooter, (WUnit | WErr _) => True
  | WDrain, WBytes _ => True
  | WByteSize, WSize _ => True
  | _, _ => False
  end.
Proof.
  intros c d st o st' out H.
  step_cases H; inversion H; subst; try exact I.
  eapply header_bytes_never_panics; eauto.
Qed.

Theorem w_accepts_exactly : forall c d st,
  (snd (w_step c d st WHeader) = WUnit <->
     w_hdr st = false /\ w_ftr st = false /\ w_order c <= 7) /\
  (snd (w_step c d st WFooter) = WUnit <-> w_hdr st = true /\ w_ftr st = false) /\
  (forall xs table st' m, w_step c d st (WChunk xs table) = (st', WMeta m) ->
     w_hdr st = true /\ w_ftr st = false /\ chunk_args_ok c d xs = true) /\
  (forall xs, chunk_args_ok c d xs = true ->
     xs <> [] /\
     (chunk_unsigneds d (w_order c) xs = [] \/ (w_level c <= 12 /\ Nlen xs <= 16777215))) /\
  wfail (snd (w_step c d st WDrain)) = false /\
  wfail (snd (w_step c d st WByteSize)) = false.
Proof.
  intros c d st. split; [apply w_header_accepts_exactly|].
  split; [apply w_footer_accepts_exactly|].
  split; [intros xs table st' m H; apply w_chunk_accepts_only_if in H; tauto|].
  split; [intros xs H; apply chunk_args_ok_spec in H; exact H|].
  split; reflexivity.
Qed.

(* ------------------------------------------------------------------ *)
(* 3. drain independence                                               *)
(* ------------------------------------------------------------------ *)

Fixpoint total_out (outs : list wout) : list N :=
  match outs with
  | [] => []
  | WBytes bs :: t => bs ++ total_out t
  | _ :: t => total_out t
  end.

Definition is_drain_op (o : wop) : bool :=
  match o with WDrain | WByteSize => true | _ => false end.

Definition strip_drains (ops : list wop) : list wop :=
  filter (fun o => negb (is_drain_op o)) ops.

Definition is_drain_out (o : wout) : bool :=
  match o with WBytes _ | WSize _ => true | _ => false end.

Definition strip_drain_outs (outs : list wout) : list wout :=
  filter (fun o => negb (is_drain_out o)) outs.

(* st2 is st1 with the already emitted bytes e still pending *)
Definition drain_sim (e : list N) (st1 st2 : wstate) : Prop :=
  w_hdr st1 = w_hdr st2 /\ w_ftr st1 = w_ftr st2 /\ w_pending st2 = e ++ w_pending st1.

Lemma step_sim_nondrain c d e st1 st2 o :
  drain_sim e st1 st2 -> is_drain_op o = false ->
  snd (w_step c d st1 o) = snd (w_step c d st2 o) /\
  is_drain_out (snd (w_step c d st1 o)) = false /\
  drain_sim e (fst (w_step c d st1 o)) (fst (w_step c d st2 o)).
Proof.
  destruct st1 as [h1 f1 p1], st2 as [h2 f2 p2]. unfold drain_sim. cbn [w_hdr w_ftr w_pending].
  intros (-> & -> & ->) Ho.
  destruct o; try discriminate; unfold w_step; cbn [w_hdr w_ftr w_pending].
  - destruct (h2 || f2); cbn [fst snd w_hdr w_ftr w_pending]; [auto|].
    destruct (header_bytes d (cfg_flags c)); cbn [fst snd w_hdr w_ftr w_pending is_drain_out];
      rewrite ?app_assoc; auto.
  - destruct (negb h2 || f2); cbn [fst snd w_hdr w_ftr w_pending]; [auto|].
    destruct (negb (chunk_args_ok c d xs)); cbn [fst snd w_hdr w_ftr w_pending]; [auto|].
    destruct (chunk_payload d (cfg_flags c) table xs) as [[m bs]|k|];
      cbn [fst snd w_hdr w_ftr w_pending is_drain_out]; rewrite ?app_assoc; auto.
  - destruct (negb h2 || f2); cbn [fst snd w_hdr w_ftr w_pending is_drain_out];
      rewrite ?app_assoc; auto.
Qed.

Lemma drain_independence_gen c d ops : forall e st1 st2,
  drain_sim e st1 st2 ->
  drain_sim (e ++ total_out (snd (w_run c d st1 ops)))
            (fst (w_run c d st1 ops)) (fst (w_run c d st2 (strip_drains ops))) /\
  strip_drain_outs (snd (w_run c d st1 ops)) = snd (w_run c d st2 (strip_drains ops)).
Proof.
  induction ops as [|o t IH]; intros e st1 st2 S.
  - cbn [strip_drains filter w_run fst snd total_out strip_drain_outs]. rewrite app_nil_r. auto.
  - rewrite w_run_cons. cbn [fst snd].
    destruct (is_drain_op o) eqn:Ho.
    + assert (Hs : strip_drains (o :: t) = strip_drains t).
      { unfold strip_drains. cbn [filter]. rewrite Ho. reflexivity. }
      rewrite Hs.
      destruct o; try discriminate.
      * (* WDrain *)
        cbn [w_step fst snd total_out strip_drain_outs filter is_drain_out negb].
        specialize (IH (e ++ w_pending st1) (mkW (w_hdr st1) (w_ftr st1) []) st2).
        rewrite <- app_assoc in IH. apply IH.
        destruct S as (A & B & C). unfold drain_sim. cbn [w_hdr w_ftr w_pending].
        rewrite app_nil_r. auto.
      * (* WByteSize *)
        cbn [w_step fst snd total_out strip_drain_outs filter is_drain_out negb].
        apply IH. exact S.
    + assert (Hs : strip_drains (o :: t) = o :: strip_drains t).
      { unfold strip_drains. cbn [filter]. rewrite Ho. reflexivity. }
      rewrite Hs, w_run_cons. cbn [fst snd].
      destruct (step_sim_nondrain c d e st1 st2 o S Ho) as (A & B & C).
      specialize (IH e _ _ C). destruct IH as [IH1 IH2].
      split.
      * replace (total_out (snd (w_step c d st1 o) :: snd (w_run c d (fst (w_step c d st1 o)) t)))
          with (total_out (snd (w_run c d (fst (w_step c d st1 o)) t))).
        { exact IH1. }
        destruct (snd (w_step c d st1 o)); try reflexivity; discriminate.
      * unfold strip_drain_outs. cbn [filter]. rewrite B. cbn [negb].
        fold (strip_drain_outs (snd (w_run c d (fst (w_step c d st1 o)) t))).
        rewrite IH2, A. reflexivity.
Qed.

Theorem w_drain_independence : forall c d ops st1 outs1 st2 outs2,
  w_run c d w_init ops = (st1, outs1) ->
  w_run c d w_init (strip_drains ops) = (st2, outs2) ->
  total_out outs1 ++ w_pending st1 = w_pending st2 /\
  w_hdr st1 = w_hdr st2 /\ w_ftr st1 = w_ftr st2 /\
  strip_drain_outs outs1 = outs2.
Proof.
  intros c d ops st1 outs1 st2 outs2 H1 H2.
  destruct (drain_independence_gen c d ops [] w_init w_init) as [(A & B & C) D].
  { unfold drain_sim. auto. }
  rewrite H1, H2 in *. cbn [fst snd app] in *. auto.
Qed.

(* the same from two arbitrary related states *)
Theorem w_drain_independence_gen : forall c d ops e sa sb st1 outs1 st2 outs2,
  w_hdr sa = w_hdr sb -> w_ftr sa = w_ftr sb -> w_pending sb = e ++ w_pending sa ->
  w_run c d sa ops = (st1, outs1) ->
  w_run c d sb (strip_drains ops) = (st2, outs2) ->
  e ++ total_out outs1 ++ w_pending st1 = w_pending st2 /\
  w_hdr st1 = w_hdr st2 /\ w_ftr st1 = w_ftr st2 /\
  strip_drain_outs outs1 = outs2.
Proof.
  intros c d ops e sa sb st1 outs1 st2 outs2 Hh Hf Hp H1 H2.
  destruct (drain_independence_gen c d ops e sa sb) as [(A & B & C) D].
  { unfold drain_sim. auto. }
  rewrite H1, H2 in *. cbn [fst snd] in *. rewrite <- app_assoc in C. auto.
Qed.

(* ------------------------------------------------------------------ *)
(* 4. failed operations are removable                                  *)
(* ------------------------------------------------------------------ *)

(* the operations of ops that do not fail when ops is run from st *)
Fixpoint drop_failed (c : wcfg) (d : dtype) (st : wstate) (ops : list wop) : list wop :=
  match ops with
  | [] => []
  | o :: t =>
    if wfail (snd (w_step c d st o)) then drop_failed c d (fst (w_step c d st o)) t
    else o :: drop_failed c d (fst (w_step c d st o)) t
  end.

Definition drop_failed_outs (outs : list wout) : list wout :=
  filter (fun o => negb (wfail o)) outs.

Lemma drop_failed_outs_cons o t :
  drop_failed_outs (o :: t) =
  if negb (wfail o) then o :: drop_failed_outs t else drop_failed_outs t.
Proof. reflexivity. Qed.

Lemma strip_drain_outs_cons o t :
  strip_drain_outs (o :: t) =
  if negb (is_drain_out o) then o :: strip_drain_outs t else strip_drain_outs t.
Proof. reflexivity. Qed.

Lemma w_failed_ops_removable_fs c d ops : forall st,
  w_run c d st (drop_failed c d st ops) =
  (fst (w_run c d st ops), drop_failed_outs (snd (w_run c d st ops))).
Proof.
  induction ops as [|o t IH]; intros st; [reflexivity|].
  cbn [drop_failed]. rewrite (w_run_cons c d st o t). cbn [fst snd].
  rewrite drop_failed_outs_cons.
  destruct (wfail (snd (w_step c d st o))) eqn:F; cbn [negb].
  - rewrite (w_fail_is_noop c d st o F). rewrite IH. reflexivity.
  - rewrite w_run_cons. cbn [fst snd]. rewrite IH. cbn [fst snd]. reflexivity.
Qed.

Theorem w_failed_ops_removable : forall c d st ops st' outs,
  w_run c d st ops = (st', outs) ->
  w_run c d st (drop_failed c d st ops) = (st', drop_failed_outs outs).
Proof.
  intros c d st ops st' outs H. rewrite w_failed_ops_removable_fs, H. reflexivity.
Qed.

(* after removal nothing fails *)
Theorem drop_failed_outs_ok : forall outs,
  forallb (fun o => negb (wfail o)) (drop_failed_outs outs) = true.
Proof.
  induction outs as [|o t IH]; [reflexivity|].
  rewrite drop_failed_outs_cons.
  destruct (wfail o) eqn:F; cbn [negb]; [exact IH|].
  cbn [forallb]. rewrite F, IH. reflexivity.
Qed.

(* removing a single failing operation anywhere in a sequence *)
Theorem w_failed_op_removable : forall c d st a o b,
  wfail (snd (w_step c d (fst (w_run c d st a)) o)) = true ->
  fst (w_run c d st (a ++ o :: b)) = fst (w_run c d st (a ++ b)) /\
  snd (w_run c d st (a ++ o :: b)) =
    snd (w_run c d st a) ++ snd (w_step c d (fst (w_run c d st a)) o)
      :: snd (w_run c d (fst (w_run c d st a)) b) /\
  snd (w_run c d st (a ++ b)) =
    snd (w_run c d st a) ++ snd (w_run c d (fst (w_run c d st a)) b).
Proof.
  intros c d st a o b F. rewrite !w_run_app, w_run_cons. cbn [fst snd].
  rewrite (w_fail_is_noop c d _ o F). auto.
Qed.

(* ------------------------------------------------------------------ *)
(* 5. the bytes of a file                                              *)
(* ------------------------------------------------------------------ *)

(* chunks whose WChunk operation was accepted *)
Fixpoint accepted_chunks (ops : list wop) (outs : list wout) : list (list Z * list prefix) :=
  match ops, outs with
  | WChunk xs t :: ops', WMeta _ :: outs' => (xs, t) :: accepted_chunks ops' outs'
  | _ :: ops', _ :: outs' => accepted_chunks ops' outs'
  | _, _ => []
  end.

Transparent chunk_payload header_bytes.
Lemma chunks_bytes_cons d f xs table t m bs cb :
  chunk_payload d f table xs = Ok (m, bs) -> chunks_bytes d f t = Ok cb ->
  chunks_bytes d f ((xs, table) :: t) = Ok ([Consts.MAGIC_CHUNK_BYTE] ++ bs ++ cb).
Proof. intros H1 H2. cbn [chunks_bytes]. rewrite H1. cbn [bind]. rewrite H2. reflexivity. Qed.

Lemma file_bytes_intro d f chunks hb cb :
  header_bytes d f = Ok hb -> chunks_bytes d f chunks = Ok cb ->
  file_bytes d f chunks = Ok (hb ++ cb ++ [Consts.MAGIC_TERMINATION_BYTE]).
Proof. intros H1 H2. unfold file_bytes. rewrite H1. cbn [bind]. rewrite H2. reflexivity. Qed.
Opaque chunk_payload header_bytes.

Ltac wsimpl :=
  cbn [w_step w_hdr w_ftr w_pending negb orb fst snd accepted_chunks total_out].

(* phase 2: after the footer nothing is accepted *)
Lemma run_after_footer c d ops : forall st,
  w_hdr st = true -> w_ftr st = true ->
  w_hdr (fst (w_run c d st ops)) = true /\ w_ftr (fst (w_run c d st ops)) = true /\
  accepted_chunks ops (snd (w_run c d st ops)) = [] /\
  total_out (snd (w_run c d st ops)) ++ w_pending (fst (w_run c d st ops)) = w_pending st.
Proof.
  induction ops as [|o t IH]; intros [h f p] Hh Hf; cbn [w_hdr w_ftr] in Hh, Hf; subst h f.
  - cbn [w_run fst snd accepted_chunks total_out app w_hdr w_ftr]. auto.
  - rewrite w_run_cons. destruct o; wsimpl.
    + apply IH; reflexivity.
    + apply IH; reflexivity.
    + apply IH; reflexivity.
    + destruct (IH (mkW true true [])) as (A & B & C & D); try reflexivity.
      repeat split; try assumption. rewrite <- app_assoc, D. apply app_nil_r.
    + apply IH; reflexivity.
Qed.

(* phase 1: between header and footer *)
Lemma run_after_header c d ops : forall st,
  w_hdr st = true -> w_ftr st = false ->
  w_ftr (fst (w_run c d st ops)) = true ->
  exists cb,
    chunks_bytes d (cfg_flags c) (accepted_chunks ops (snd (w_run c d st ops))) = Ok cb /\
    total_out (snd (w_run c d st ops)) ++ w_pending (fst (w_run c d st ops)) =
    w_pending st ++ cb ++ [Consts.MAGIC_TERMINATION_BYTE].
Proof.
  induction ops as [|o t IH]; intros [h f p] Hh Hf; cbn [w_hdr w_ftr] in Hh, Hf; subst h f.
  - cbn [w_run fst w_ftr]. discriminate.
  - rewrite w_run_cons. destruct o; wsimpl.
    + (* WHeader: rejected *)
      apply IH; reflexivity.
    + (* WChunk *)
      destruct (negb (chunk_args_ok c d xs)); wsimpl; [apply IH; reflexivity|].
      destruct (chunk_payload d (cfg_flags c) table xs) as [[m bs]|k|] eqn:E;
        wsimpl; try (apply IH; reflexivity).
      intros Hfin.
      destruct (IH (mkW true false (p ++ [Consts.MAGIC_CHUNK_BYTE] ++ bs)))
        as (cb & C1 & C2); try reflexivity; try assumption.
      exists ([Consts.MAGIC_CHUNK_BYTE] ++ bs ++ cb). split.
      * eapply chunks_bytes_cons; eauto.
      * rewrite C2. cbn [w_pending]. rewrite <- !app_assoc. reflexivity.
    + (* WFooter: accepted *)
      intros _.
      destruct (run_after_footer c d t
                  (mkW true true (p ++ [Consts.MAGIC_TERMINATION_BYTE])))
        as (_ & _ & C & D); try reflexivity.
      exists []. rewrite C. split; [reflexivity|]. rewrite D. reflexivity.
    + (* WDrain *)
      intros Hfin.
      destruct (IH (mkW true false [])) as (cb & C1 & C2); try reflexivity; try assumption.
      exists cb. split; [exact C1|]. rewrite <- app_assoc, C2. reflexivity.
    + (* WByteSize *)
      apply IH; reflexivity.
Qed.

(* phase 0: before the header *)
Lemma run_before_header c d ops : forall st,
  w_hdr st = false -> w_ftr st = false ->
  w_ftr (fst (w_run c d st ops)) = true ->
  exists fb,
    file_bytes d (cfg_flags c) (accepted_chunks ops (snd (w_run c d st ops))) = Ok fb /\
    total_out (snd (w_run c d st ops)) ++ w_pending (fst (w_run c d st ops)) =
    w_pending st ++ fb.
Proof.
  induction ops as [|o t IH]; intros [h f p] Hh Hf; cbn [w_hdr w_ftr] in Hh, Hf; subst h f.
  - cbn [w_run fst w_ftr]. discriminate.
  - rewrite w_run_cons. destruct o; wsimpl.
    + (* WHeader *)
      destruct (header_bytes d (cfg_flags c)) as [hb|k|] eqn:E;
        wsimpl; try (apply IH; reflexivity).
      intros Hfin.
      destruct (run_after_header c d t (mkW true false (p ++ hb)))
        as (cb & C1 & C2); try reflexivity; try assumption.
      exists (hb ++ cb ++ [Consts.MAGIC_TERMINATION_BYTE]). split.
      * apply file_bytes_intro; assumption.
      * rewrite C2. cbn [w_pending]. rewrite <- !app_assoc. reflexivity.
    + apply IH; reflexivity.
    + apply IH; reflexivity.
    + intros Hfin.
      destruct (IH (mkW false false [])) as (fb & C1 & C2); try reflexivity; try assumption.
      exists fb. split; [exact C1|]. rewrite <- app_assoc, C2. reflexivity.
    + apply IH; reflexivity.
Qed.

(* ANY operation sequence (failing operations, drains and byte_size calls interleaved
   anywhere) that leaves the compressor in the "footer written" state has emitted
   exactly the file of the accepted chunks *)
Theorem w_file_of_accepted : forall c d ops st outs,
  w_run c d w_init ops = (st, outs) ->
  w_ftr st = true ->
  file_bytes d (cfg_flags c) (accepted_chunks ops outs) = Ok (total_out outs ++ w_pending st).
Proof.
  intros c d ops st outs H Hf.
  destruct (run_before_header c d ops w_init) as (fb & A & B); try reflexivity.
  { rewrite H. exact Hf. }
  rewrite H in *. cbn [fst snd w_init w_pending app] in *. rewrite B. exact A.
Qed.

(* the same statement through 4: the accepted chunks are those of the sequence with the
   failing operations removed *)
Lemma accepted_chunks_drop_failed c d ops : forall st,
  accepted_chunks (drop_failed c d st ops) (drop_failed_outs (snd (w_run c d st ops))) =
  accepted_chunks ops (snd (w_run c d st ops)).
Proof.
  induction ops as [|o t IH]; intros st; [reflexivity|].
  rewrite w_run_cons. cbn [snd drop_failed]. rewrite drop_failed_outs_cons.
  pose proof (w_output_shape c d st o _ _ (surjective_pairing _)) as Sh.
  destruct (snd (w_step c d st o)) eqn:E; cbn [wfail negb];
    destruct o; try contradiction; cbn [accepted_chunks]; rewrite ?IH; try reflexivity.
Qed.

Theorem w_file_of_accepted_drop_failed : forall c d ops st outs,
  w_run c d w_init ops = (st, outs) ->
  w_ftr st = true ->
  w_run c d w_init (drop_failed c d w_init ops) = (st, drop_failed_outs outs) /\
  file_bytes d (cfg_flags c)
    (accepted_chunks (drop_failed c d w_init ops) (drop_failed_outs outs))
  = Ok (total_out outs ++ w_pending st).
Proof.
  intros c d ops st outs H Hf. split.
  - apply w_failed_ops_removable; exact H.
  - pose proof (accepted_chunks_drop_failed c d ops w_init) as A. rewrite H in A.
    cbn [snd] in A. rewrite A. apply w_file_of_accepted; assumption.
Qed.

(* the plain protocol: header, chunks, footer, every step succeeding *)
Definition chunk_ops (chunks : list (list Z * list prefix)) : list wop :=
  map (fun '(xs, t) => WChunk xs t) chunks.

Lemma run_chunks_footer c d chunks : forall st,
  w_hdr st = true -> w_ftr st = false ->
  forallb (fun o => negb (wfail o))
          (snd (w_run c d st (chunk_ops chunks ++ [WFooter]))) = true ->
  exists cb,
    chunks_bytes d (cfg_flags c) chunks = Ok cb /\
    w_pending (fst (w_run c d st (chunk_ops chunks ++ [WFooter]))) =
    w_pending st ++ cb ++ [Consts.MAGIC_TERMINATION_BYTE].
Proof.
  induction chunks as [|[xs table] t IH]; intros [h f p] Hh Hf;
    cbn [w_hdr w_ftr] in Hh, Hf; subst h f.
  - cbn [chunk_ops map app]. rewrite w_run_cons. cbn [w_run]. wsimpl. intros _.
    exists []. split; reflexivity.
  - cbn [chunk_ops map app]. fold (chunk_ops t). rewrite w_run_cons. wsimpl.
    destruct (negb (chunk_args_ok c d xs)); wsimpl; cbn [forallb wfail negb andb];
      [discriminate|].
    destruct (chunk_payload d (cfg_flags c) table xs) as [[m bs]|k|] eqn:E;
      wsimpl; cbn [forallb wfail negb andb]; try discriminate.
    intros Hall.
    destruct (IH (mkW true false (p ++ [Consts.MAGIC_CHUNK_BYTE] ++ bs)))
      as (cb & C1 & C2); try reflexivity; try assumption.
    exists ([Consts.MAGIC_CHUNK_BYTE] ++ bs ++ cb). split.
    + eapply chunks_bytes_cons; eauto.
    + rewrite C2. cbn [w_pending]. rewrite <- !app_assoc. reflexivity.
Qed.

Theorem w_valid_file : forall c d chunks st outs,
  w_run c d w_init (WHeader :: map (fun '(xs, t) => WChunk xs t) chunks ++ [WFooter])
    = (st, outs) ->
  forallb (fun o => negb (wfail o)) outs = true ->
  file_bytes d (cfg_flags c) chunks = Ok (w_pending st).
Proof.
  intros c d chunks st outs H Hall.
  fold (chunk_ops chunks) in H. rewrite w_run_cons in H.
  unfold w_step at 1 2 3 in H. cbn [w_init w_hdr w_ftr orb w_pending app] in H.
  destruct (header_bytes d (cfg_flags c)) as [hb|k|] eqn:E; cbn [fst snd] in H;
    inversion H; subst; clear H; cbn [forallb wfail negb andb] in Hall; try discriminate.
  destruct (run_chunks_footer c d chunks (mkW true false hb)) as (cb & C1 & C2);
    try reflexivity; try assumption.
  rewrite C2. cbn [w_pending]. apply file_bytes_intro; assumption.
Qed.

(* ------------------------------------------------------------------ *)
Print Assumptions w_reject_is_noop.
Print Assumptions w_panic_is_noop.
Print Assumptions w_errors_are_invalid_argument.
Print Assumptions w_header_never_panics.
Print Assumptions w_fail_is_noop.
Print Assumptions chunk_args_ok_spec.
Print Assumptions w_header_accepts_exactly.
Print Assumptions w_footer_accepts_exactly.
Print Assumptions w_chunk_accepts_exactly.
Print Assumptions w_chunk_accepts_only_if.
Print Assumptions w_output_shape.
Print Assumptions w_accepts_exactly.
Print Assumptions w_drain_independence.
Print Assumptions w_drain_independence_gen.
Print Assumptions w_failed_ops_removable.
Print Assumptions drop_failed_outs_ok.
Print Assumptions w_failed_op_removable.
Print Assumptions w_file_of_accepted.
Print Assumptions w_file_of_accepted_drop_failed.
Print Assumptions w_valid_file.
