(* SplitL.v — incremental input: however the bytes of a written file are cut into
   successive writes, draining the iterator after every write yields the same items as
   draining it once on the whole file, up to where the batches of numbers are cut (a batch
   cut short by missing data is completed by the following ones).
   Route: the reader holding a prefix of the file is compared with the same reader holding
   the whole file ([grow]): a call on the prefix either yields nothing and changes nothing,
   or yields what the call on the whole file yields — for numbers, a non-empty prefix of it,
   leaving a state from which the remaining numbers of the chunk are still to come. *)
From QCo.Lemmas Require Import Tactics BitsL DTypeL DeltaL FlagsL CodecL MetaL BodyL HeaderL ReaderL FileL IterL TruncL.
From QCo.Model Require Import Base Consts DType Codec Writer Reader.
Open Scope N_scope.

Local Opaque read_offset write_num_offset read_varint write_varint.

(* ================================================================== *)
(* 1. feeding the reader piece by piece; merging adjacent batches      *)
(* ================================================================== *)

(* write a piece, drain the iterator, go on with the next piece *)
Fixpoint feed (fuel : nat) (d : dtype) (limit : N) (st : rstate) (pieces : list (list N))
  : rstate * list rout :=
  match pieces with
  | [] => (st, [])
  | p :: t =>
    let '(st1, outs) := drain_iter fuel d limit (fst (r_step d st (RWrite p))) in
    let '(st2, outs2) := feed fuel d limit st1 t in
    (st2, outs ++ outs2)
  end.

(* adjacent batches of numbers are merged into one *)
Definition glue (a : list Z) (m : list rout) : list rout :=
  match m with
  | ROItem (INums b) :: t' => ROItem (INums (a ++ b)) :: t'
  | t' => ROItem (INums a) :: t'
  end.

Fixpoint merge_nums (l : list rout) : list rout :=
  match l with
  | [] => []
  | ROItem (INums a) :: t => glue a (merge_nums t)
  | x :: t => x :: merge_nums t
  end.

Definition is_nums (o : rout) : bool :=
  match o with ROItem (INums _) => true | _ => false end.

Lemma is_nums_inv o : is_nums o = true -> exists a, o = ROItem (INums a).
Proof. destruct o as [| | | |[f|m|a|]| | |]; try discriminate. intros _. exists a. reflexivity. Qed.

Lemma glue_other a y t : is_nums y = false -> glue a (y :: t) = ROItem (INums a) :: y :: t.
Proof. destruct y as [| | | |[f|m|b|]| | |]; try discriminate; reflexivity. Qed.

Lemma merge_nums_other x t : is_nums x = false -> merge_nums (x :: t) = x :: merge_nums t.
Proof. destruct x as [| | | |[]| | |]; try discriminate; reflexivity. Qed.

Lemma merge_nums_nums a t : merge_nums (ROItem (INums a) :: t) = glue a (merge_nums t).
Proof. reflexivity. Qed.

(* in a merged list no batch is followed by a batch *)
Fixpoint no_adjacent (l : list rout) : Prop :=
  match l with
  | [] => True
  | x :: t => (is_nums x = true -> match t with y :: _ => is_nums y = false | [] => True end)
              /\ no_adjacent t
  end.

Lemma merge_nums_no_adjacent : forall l, no_adjacent (merge_nums l).
Proof.
  induction l as [|x t IH]; [exact I|].
  destruct (is_nums x) eqn:Ex.
  - destruct (is_nums_inv x Ex) as (a & ->). rewrite merge_nums_nums.
    destruct (merge_nums t) as [|y t'] eqn:Em; [cbn; auto|].
    destruct (is_nums y) eqn:Ey.
    + destruct (is_nums_inv y Ey) as (b & ->).
      cbn [no_adjacent] in IH. destruct IH as [H1 H2]. cbn [glue no_adjacent]. split; [|exact H2].
      intros _. apply H1. reflexivity.
    + rewrite (glue_other a y t' Ey). cbn [no_adjacent]. split; [intros _; exact Ey|exact IH].
  - rewrite (merge_nums_other x t Ex). cbn [no_adjacent]. split; [rewrite Ex; discriminate|exact IH].
Qed.

Lemma merge_nums_fixed : forall l, no_adjacent l -> merge_nums l = l.
Proof.
  induction l as [|x t IH]; intros H; [reflexivity|].
  cbn [no_adjacent] in H. destruct H as [H1 H2].
  destruct (is_nums x) eqn:Ex.
  - destruct (is_nums_inv x Ex) as (a & ->). rewrite merge_nums_nums, (IH H2).
    specialize (H1 eq_refl). destruct t as [|y t']; [reflexivity|].
    apply glue_other. exact H1.
  - rewrite (merge_nums_other x t Ex), (IH H2). reflexivity.
Qed.

Theorem merge_nums_idem l : merge_nums (merge_nums l) = merge_nums l.
Proof. apply merge_nums_fixed, merge_nums_no_adjacent. Qed.

(* merging is a congruence for what follows a common beginning *)
Lemma merge_nums_cong_r : forall l x y,
  merge_nums x = merge_nums y -> merge_nums (l ++ x) = merge_nums (l ++ y).
Proof.
  induction l as [|o l IH]; intros x y H; [exact H|].
  cbn [app]. destruct (is_nums o) eqn:Eo.
  - destruct (is_nums_inv o Eo) as (a & ->).
    rewrite !merge_nums_nums, (IH x y H). reflexivity.
  - rewrite !(merge_nums_other o _ Eo), (IH x y H). reflexivity.
Qed.

Lemma merge_nums_app_r l x : merge_nums (l ++ merge_nums x) = merge_nums (l ++ x).
Proof. apply merge_nums_cong_r, merge_nums_idem. Qed.

(* two adjacent batches count as their concatenation *)
Lemma merge_nums_join a b t :
  merge_nums (ROItem (INums a) :: ROItem (INums b) :: t) = merge_nums (ROItem (INums (a ++ b)) :: t).
Proof.
  rewrite !merge_nums_nums.
  destruct (merge_nums t) as [|y t']; [reflexivity|].
  destruct y as [| | | |[f|m|c|]| | |]; try reflexivity.
  cbn [glue]. rewrite app_assoc. reflexivity.
Qed.

Lemma merge_nums_app_l : forall l x, merge_nums (merge_nums l ++ x) = merge_nums (l ++ x).
Proof.
  induction l as [|o l IH]; intros x; [reflexivity|].
  cbn [app]. destruct (is_nums o) eqn:Eo.
  - destruct (is_nums_inv o Eo) as (a & ->).
    rewrite (merge_nums_nums a l).
    destruct (merge_nums l) as [|y t'] eqn:Em.
    + cbn [glue app]. rewrite !merge_nums_nums, <- IH. reflexivity.
    + destruct (is_nums y) eqn:Ey.
      * destruct (is_nums_inv y Ey) as (b & ->).
        cbn [glue app]. rewrite <- merge_nums_join.
        rewrite (merge_nums_nums a (l ++ x)), <- IH. cbn [app]. rewrite <- merge_nums_nums. reflexivity.
      * rewrite (glue_other a y t' Ey). cbn [app]. rewrite !merge_nums_nums, <- IH. reflexivity.
  - rewrite (merge_nums_other o l Eo). cbn [app]. rewrite !(merge_nums_other o _ Eo), IH. reflexivity.
Qed.

(* merge of concatenations *)
Theorem merge_nums_app l x : merge_nums (l ++ x) = merge_nums (merge_nums l ++ merge_nums x).
Proof. rewrite merge_nums_app_l, merge_nums_app_r. reflexivity. Qed.

(* merging neither loses nor duplicates numbers *)
Lemma merge_nums_out_nums : forall l, flat_map out_nums (merge_nums l) = flat_map out_nums l.
Proof.
  induction l as [|o l IH]; [reflexivity|].
  destruct (is_nums o) eqn:Eo.
  - destruct (is_nums_inv o Eo) as (a & ->). rewrite merge_nums_nums.
    cbn [flat_map out_nums]. rewrite <- IH.
    destruct (merge_nums l) as [|y t']; [reflexivity|].
    destruct y as [| | | |[f|m|b|]| | |]; try reflexivity.
    cbn [glue flat_map out_nums]. rewrite app_assoc. reflexivity.
  - rewrite (merge_nums_other o l Eo). cbn [flat_map]. rewrite IH. reflexivity.
Qed.

(* the pieces of one chunk merge into the chunk *)
Lemma merge_nums_batches : forall (bl : list (list Z)) t, bl <> [] ->
  merge_nums (map ROItem (map INums bl) ++ t) = merge_nums (ROItem (INums (concat bl)) :: t).
Proof.
  induction bl as [|b bl IH]; intros t Hne; [congruence|].
  destruct bl as [|b' bl'].
  - cbn [map app concat]. rewrite app_nil_r. reflexivity.
  - change (map ROItem (map INums (b :: b' :: bl')) ++ t)
      with ([ROItem (INums b)] ++ (map ROItem (map INums (b' :: bl')) ++ t)).
    rewrite (merge_nums_cong_r [ROItem (INums b)] _ _ (IH t ltac:(discriminate))).
    cbn [app]. rewrite merge_nums_join. reflexivity.
Qed.

(* ================================================================== *)
(* 2. the same reader holding more bytes                               *)
(* ================================================================== *)

(* [st] after [more] bytes have been written to it *)
Definition grow (more : list N) (st : rstate) : rstate :=
  mkR (r_bytes st ++ more) (r_bit st) (r_flags st) (r_cbd st) (r_term st).

Lemma r_step_write d st bs : r_step d st (RWrite bs) = (grow bs st, ROUnit).
Proof. reflexivity. Qed.

Lemma grow_nil st : grow [] st = st.
Proof. destruct st as [b bit fl cb tm]. unfold grow. cbn [r_bytes r_bit r_flags r_cbd r_term]. rewrite app_nil_r. reflexivity. Qed.

Lemma grow_grow a b st : grow b (grow a st) = grow (a ++ b) st.
Proof. unfold grow. cbn [r_bytes r_bit r_flags r_cbd r_term]. rewrite app_assoc. reflexivity. Qed.

Lemma grow_mk more bs bit fl cb tm : grow more (mkR bs bit fl cb tm) = mkR (bs ++ more) bit fl cb tm.
Proof. reflexivity. Qed.

Lemma total_bits_grow more st : total_bits (grow more st) = total_bits st + 8 * Nlen more.
Proof. unfold total_bits, grow. cbn [r_bytes]. rewrite Nlen_app. lia. Qed.

Lemma Nlen_bits_mod8 (more : list N) : Nlen (bytes_to_bits more) mod 8 = 0.
Proof. rewrite bytes_to_bits_Nlen. set (X := Nlen more). clearbody X. lia. Qed.

Lemma pos_ok_grow more st : pos_ok st -> pos_ok (grow more st).
Proof. unfold pos_ok. rewrite total_bits_grow. cbn [grow r_bit]. lia. Qed.

Lemma stream_grow more st : pos_ok st -> stream (grow more st) = stream st ++ bytes_to_bits more.
Proof.
  intros P. unfold stream, grow. cbn [r_bytes r_bit]. rewrite bytes_to_bits_app.
  apply skipn_app_le. rewrite bytes_to_bits_length.
  unfold pos_ok, total_bits, Nlen in P. lia.
Qed.

Lemma pos_after_grow more st s' :
  pos_after (grow more st) (s' ++ bytes_to_bits more) = pos_after st s'.
Proof.
  unfold pos_after. rewrite total_bits_grow, Nlen_app, bytes_to_bits_Nlen.
  set (A := total_bits st). set (B := Nlen s'). set (C := Nlen more). clearbody A B C. lia.
Qed.

(* the metadata step: on more bytes it does what it did, unless it did nothing for lack
   of data *)
Lemma next_meta_grow d st f more : pos_ok st ->
  match next_meta d st f with
  | (st1, ROItem i) => next_meta d (grow more st) f = (grow more st1, ROItem i)
  | (_, RONone) => True
  | (_, o) => next_meta d (grow more st) f = (grow more st, o)
  end.
Proof.
  intros P. unfold next_meta.
  rewrite (stream_grow more st P). change (r_bit (grow more st)) with (r_bit st).
  pose proof (read_chunk_meta_ext d f (r_bit st) (stream st) (bytes_to_bits more)
                (Nlen_bits_mod8 more)) as E.
  destruct (read_chunk_meta d f (r_bit st) (stream st)) as [[[m|] s']|k|].
  - rewrite E. destruct (new_cbd f m) as [c|k|]; try reflexivity.
    rewrite pos_after_grow. reflexivity.
  - rewrite E, pos_after_grow. reflexivity.
  - destruct k; try exact I; rewrite E; reflexivity.
  - rewrite E. reflexivity.
Qed.

(* the call of the iterator before the header has been read *)
Lemma r_step_next_header_grow d st limit more :
  pos_ok st -> r_term st = false -> r_flags st = None ->
  match r_step d st (RNext limit) with
  | (st1, ROItem i) => r_step d (grow more st) (RNext limit) = (grow more st1, ROItem i)
  | (_, RONone) => True
  | (_, o) => r_step d (grow more st) (RNext limit) = (grow more st, o)
  end.
Proof.
  intros P Ht Hf. unfold r_step.
  change (r_term (grow more st)) with (r_term st). change (r_flags (grow more st)) with (r_flags st).
  rewrite Ht, Hf.
  rewrite (stream_grow more st P). change (r_bit (grow more st)) with (r_bit st).
  pose proof (read_header_ext d (r_bit st) (stream st) (bytes_to_bits more)
                (Nlen_bits_mod8 more)) as E.
  destruct (read_header d (r_bit st) (stream st)) as [[fl s']|k|].
  - rewrite E, pos_after_grow. reflexivity.
  - destruct k; try exact I; rewrite E; reflexivity.
  - rewrite E. reflexivity.
Qed.

(* the call of the iterator between chunks *)
Lemma r_step_next_meta_grow d st limit more f :
  pos_ok st -> r_term st = false -> r_flags st = Some f -> r_cbd st = None ->
  match r_step d st (RNext limit) with
  | (st1, ROItem i) => r_step d (grow more st) (RNext limit) = (grow more st1, ROItem i)
  | (_, RONone) => True
  | (_, o) => r_step d (grow more st) (RNext limit) = (grow more st, o)
  end.
Proof.
  intros P Ht Hf Hc. unfold r_step.
  change (r_term (grow more st)) with (r_term st). change (r_flags (grow more st)) with (r_flags st).
  change (r_cbd (grow more st)) with (r_cbd st).
  rewrite Ht, Hf, Hc. apply next_meta_grow. exact P.
Qed.

(* as asked: an item obtained from the bytes held is obtained again, with the corresponding
   state, when more bytes are held *)
Theorem r_step_next_header_mono d st limit more st1 i :
  pos_ok st -> r_flags st = None ->
  r_step d st (RNext limit) = (st1, ROItem i) ->
  r_step d (grow more st) (RNext limit) = (grow more st1, ROItem i).
Proof.
  intros P Hf H. destruct (r_term st) eqn:Ht.
  - unfold r_step in H. rewrite Ht in H. discriminate.
  - pose proof (r_step_next_header_grow d st limit more P Ht Hf) as G. rewrite H in G. exact G.
Qed.

Theorem r_step_next_meta_mono d st limit more f st1 i :
  pos_ok st -> r_flags st = Some f -> r_cbd st = None ->
  r_step d st (RNext limit) = (st1, ROItem i) ->
  r_step d (grow more st) (RNext limit) = (grow more st1, ROItem i).
Proof.
  intros P Hf Hc H. destruct (r_term st) eqn:Ht.
  - unfold r_step in H. rewrite Ht in H. discriminate.
  - pose proof (r_step_next_meta_grow d st limit more f P Ht Hf Hc) as G. rewrite H in G. exact G.
Qed.

(* and a failure other than "nothing yet" is the same failure on more bytes *)
Theorem r_step_next_header_err_mono d st limit more st1 k :
  pos_ok st -> r_flags st = None ->
  r_step d st (RNext limit) = (st1, ROErr k) ->
  r_step d (grow more st) (RNext limit) = (grow more st, ROErr k).
Proof.
  intros P Hf H. destruct (r_term st) eqn:Ht.
  - unfold r_step in H. rewrite Ht in H. discriminate.
  - pose proof (r_step_next_header_grow d st limit more P Ht Hf) as G. rewrite H in G. exact G.
Qed.

Theorem r_step_next_meta_err_mono d st limit more f st1 k :
  pos_ok st -> r_flags st = Some f -> r_cbd st = None ->
  r_step d st (RNext limit) = (st1, ROErr k) ->
  r_step d (grow more st) (RNext limit) = (grow more st, ROErr k).
Proof.
  intros P Hf Hc H. destruct (r_term st) eqn:Ht.
  - unfold r_step in H. rewrite Ht in H. discriminate.
  - pose proof (r_step_next_meta_grow d st limit more f P Ht Hf Hc) as G. rewrite H in G. exact G.
Qed.

(* ================================================================== *)
(* 3. the number blocks on a prefix of the stream                      *)
(* ================================================================== *)
(* [sp] is what is held of the stream, [u] (a whole number of bytes) what is still to
   come; the invariants of BodyL/IterL are stated on the whole stream [sp ++ u] *)

Lemma read_offsets_part w p u t : wf_prefix w p -> Nlen u mod 8 = 0 ->
  forall run, Forall (in_range p) run -> forall k sp, (k <= length run)%nat ->
  sp ++ u = flat_map (write_num_offset p) run ++ t ->
  exists i s1 st,
    read_offsets w p k sp = (firstn i run, s1, st) /\
    s1 ++ u = flat_map (write_num_offset p) (skipn i run) ++ t /\
    ((st = SOk /\ i = k) \/ (st = SErr InsufficientData /\ (i < k)%nat)).
Proof.
  intros Hwp Hu. pose proof Hwp as (Hg & Hlu & Hup & _).
  induction run as [|x run IH]; intros HF k sp Hk Hsp.
  - cbn [length] in Hk. assert (k = O) by lia. subst k.
    exists O, sp, SOk. cbn [read_offsets firstn skipn]. auto.
  - destruct k as [|k].
    { exists O, sp, SOk. cbn [read_offsets firstn skipn]. auto. }
    cbn [length] in Hk. inversion HF as [|? ? [Hc Hm] HF']; subst.
    unfold contains in Hc. apply andb_true_iff in Hc. destruct Hc as [Hl Hh].
    apply N.leb_le in Hl. apply N.leb_le in Hh.
    cbn [flat_map] in Hsp. rewrite <- app_assoc in Hsp.
    assert (HR : read_offset w p (sp ++ u)
                 = Ok (x, flat_map (write_num_offset p) run ++ t)).
    { rewrite Hsp. apply num_offset_roundtrip; assumption. }
    cbn [read_offsets].
    destruct (ext_back _ (read_offset_ext w p) sp u _ _ Hu HR) as [E|(s1 & E & Hs1)]; rewrite E.
    + exists O, sp, (SErr InsufficientData). cbn [firstn skipn flat_map].
      split; [reflexivity|]. split; [rewrite <- app_assoc; exact Hsp|]. right. split; [reflexivity|lia].
    + destruct (IH HF' k s1 ltac:(lia) (eq_sym Hs1)) as (i & s2 & st & E2 & Hs2 & Hst).
      rewrite E2. exists (S i), s2, st. cbn [firstn skipn].
      split; [reflexivity|]. split; [exact Hs2|].
      destruct Hst as [[-> ->]|[-> Hi]]; [left; auto|right; split; [reflexivity|lia]].
Qed.

Lemma read_blocks_part w tb ps rest u :
  wf_table w ps -> enough_rest ps rest -> Nlen u mod 8 = 0 ->
  forall fuel room us b sp,
  Forall (good ps) us -> Nlen us < 2 ^ 24 -> enc ps us b ->
  room <= Nlen us -> (N.to_nat room <= fuel)%nat ->
  sp ++ u = b ++ rest ->
  exists j s' inc' st,
    read_blocks fuel w tb ps room sp = (firstn j us, s', inc', st) /\
    stream_inv ps inc' (skipn j us) (s' ++ u) rest /\
    ((st = SOk /\ j = N.to_nat room) \/
     (st = SErr InsufficientData /\ (j < N.to_nat room)%nat)).
Proof.
  intros Hwft Hrest Hu. pose proof Hwft as (Htab & Hwf & Hml).
  assert (Zero : forall fuel us b sp, enc ps us b -> sp ++ u = b ++ rest ->
    exists j s' inc' st,
      read_blocks fuel w tb ps 0 sp = (firstn j us, s', inc', st) /\
      stream_inv ps inc' (skipn j us) (s' ++ u) rest /\
      ((st = SOk /\ j = N.to_nat 0) \/
       (st = SErr InsufficientData /\ (j < N.to_nat 0)%nat))).
  { intros fuel us b sp He Hsp. exists O, sp, None, SOk. rewrite read_blocks_zero.
    split; [reflexivity|]. split; [exists b; auto|left; auto]. }
  induction fuel as [|fuel IH]; intros room us b sp Hgood Hlen Henc Hroom Hfuel Hsp.
  { assert (room = 0) by lia. subst room. apply (Zero _ _ b); assumption. }
  destruct (N.eq_dec room 0) as [->|E0]; [apply (Zero _ _ b); assumption|].
  (* the outcome when the block cannot be started *)
  assert (Stop : exists j s' inc' st,
    ([], sp, @None (prefix * N), SErr InsufficientData) = (firstn j us, s', inc', st) /\
    stream_inv ps inc' (skipn j us) (s' ++ u) rest /\
    ((st = SOk /\ j = N.to_nat room) \/
     (st = SErr InsufficientData /\ (j < N.to_nat room)%nat))).
  { exists O, sp, None, (SErr InsufficientData). split; [reflexivity|].
    split; [exists b; auto|]. right. split; [reflexivity|lia]. }
  cbn [read_blocks]. apply N.eqb_neq in E0. rewrite E0. apply N.eqb_neq in E0.
  destruct us as [|x t]; [rewrite Nlen_nil in Hroom; lia|].
  rewrite Nlen_cons in Hlen, Hroom.
  destruct Henc as (f & Hf & Hw). cbn [length] in Hf. destruct f as [|f]; [lia|].
  cbn [write_body_fuel] in Hw.
  inversion Hgood as [|? ? Hgu Hgt]; subst.
  destruct Hgu as [[p Hfp] Hcong]. rewrite Hfp in Hw.
  destruct (find_prefix_some _ _ _ Hfp) as [Hin Hcont].
  pose proof (Hcong p Hin Hcont) as Hcu.
  assert (Hwp : wf_prefix w p) by (rewrite Forall_forall in Hwf; auto).
  assert (Hk : N.to_nat room = S (N.to_nat (room - 1))) by lia.
  destruct (p_jump p) as [jb|] eqn:Ej.
  - (* a run *)
    pose proof (run_len_le p t) as Hrl.
    pose proof (run_in_range ps p t Hin Hgt) as Hrun.
    set (extra := run_len p t) in *.
    set (tl := skipn extra t) in *.
    assert (Hrun' : Forall (in_range p) (x :: firstn extra t)).
    { constructor; [split; assumption|exact Hrun]. }
    assert (Hsplit : x :: t = (x :: firstn extra t) ++ tl).
    { cbn [app]. f_equal. symmetry. apply firstn_skipn. }
    assert (Hrlen : length (x :: firstn extra t) = S extra).
    { cbn [length]. rewrite firstn_length. lia. }
    assert (Htl : Nlen t = N.of_nat extra + Nlen tl).
    { unfold tl, Nlen. rewrite skipn_length. lia. }
    set (run := x :: firstn extra t) in *. clearbody run.
    destruct (write_body_fuel f ps tl) as [r| |] eqn:Er; cbn [bind] in Hw; try discriminate.
    inversion Hw; subst b; clear Hw.
    assert (Henc' : enc ps tl r).
    { exists f. split; [|exact Er]. unfold tl. rewrite skipn_length. lia. }
    assert (Hgtl : Forall (good ps) tl) by (apply Forall_skipn; exact Hgt).
    rewrite <- !app_assoc in Hsp.
    assert (HRC : read_code_at tb ps (sp ++ u)
                  = Ok (p, write_varint (N.of_nat extra) jb
                           ++ flat_map (write_num_offset p) run ++ r ++ rest)).
    { rewrite Hsp. apply (read_code_at_rest w tb ps rest p); try assumption.
      rewrite !app_length. lia. }
    destruct (read_code_at_prefix tb tb ps sp u p _ Htab HRC) as [E|(s1 & E & Hs1)]; rewrite E.
    { exact Stop. }
    rewrite Ej.
    assert (HRV : read_varint jb (s1 ++ u)
                  = Ok (N.of_nat extra, flat_map (write_num_offset p) run ++ r ++ rest)).
    { rewrite <- Hs1. apply varint_roundtrip; [destruct Hwp as (_ & _ & _ & Hj); auto|lia]. }
    destruct (ext_back _ (read_varint_ext jb) s1 u _ _ Hu HRV) as [E2|(s2 & E2 & Hs2)]; rewrite E2.
    { exact Stop. }
    cbv zeta.
    destruct (read_offsets_part w p u (r ++ rest) Hwp Hu run Hrun'
                (N.to_nat (N.min (N.of_nat extra + 1) room)) s2 ltac:(lia) (eq_sym Hs2))
      as (i & s3 & st3 & E3 & Hs3 & Hst3).
    rewrite E3. rewrite Hsplit.
    destruct Hst3 as [[-> ->]|[-> Hi]].
    + destruct (room <? N.of_nat extra + 1) eqn:Elt.
      * (* the batch ends inside this run *)
        apply N.ltb_lt in Elt. rewrite N.min_r in * by lia.
        exists (N.to_nat room), s3, (Some (p, N.of_nat extra + 1 - room)), SOk.
        split; [rewrite firstn_app_le by lia; reflexivity|].
        split; [|left; auto].
        rewrite skipn_app_le by lia.
        cbn [stream_inv]. exists (skipn (N.to_nat room) run), tl, r.
        split; [reflexivity|]. split; [unfold Nlen; rewrite skipn_length; lia|].
        split; [lia|]. split; [assumption|]. split; [apply Forall_skipn; assumption|].
        split; [assumption|exact Hs3].
      * (* the whole run, then the following blocks *)
        apply N.ltb_ge in Elt. rewrite N.min_l in * by lia.
        replace (N.to_nat (N.of_nat extra + 1)) with (length run) in Hs3 by lia.
        rewrite skipn_all in Hs3. cbn [flat_map app] in Hs3.
        destruct (IH (room - (N.of_nat extra + 1)) tl r s3) as (j2 & s' & inc' & st & Hrb & Hinv & Hst);
          try assumption; try lia.
        rewrite Hrb.
        replace (N.to_nat (N.of_nat extra + 1)) with (length run) by lia. rewrite firstn_all.
        exists (length run + j2)%nat, s', inc', st.
        split; [rewrite firstn_app_2; reflexivity|].
        split.
        { rewrite skipn_app_ge by lia.
          replace (length run + j2 - length run)%nat with j2 by lia. exact Hinv. }
        destruct Hst as [[-> ->]|[-> Hj2]]; [left; split; [reflexivity|lia]|right; split; [reflexivity|lia]].
    + (* the data ends inside the offsets of this run *)
      assert (Hli : length (firstn i run) = i) by (rewrite firstn_length; lia).
      destruct (firstn i run) as [|y l] eqn:El.
      { rewrite <- Hsplit. exact Stop. }
      exists i, s3, (Some (p, N.of_nat extra + 1 - Nlen (y :: l))), (SErr InsufficientData).
      split; [rewrite firstn_app_le by lia; rewrite El; reflexivity|].
      split; [|right; split; [reflexivity|lia]].
      rewrite skipn_app_le by lia.
      cbn [stream_inv]. exists (skipn i run), tl, r.
      split; [reflexivity|].
      split; [unfold Nlen; rewrite skipn_length, Hli; lia|].
      split; [unfold Nlen; rewrite Hli; lia|].
      split; [assumption|]. split; [apply Forall_skipn; assumption|].
      split; [assumption|exact Hs3].
  - (* a single number *)
    destruct (write_body_fuel f ps t) as [r| |] eqn:Er; cbn [bind] in Hw; try discriminate.
    inversion Hw; subst b; clear Hw.
    rewrite <- !app_assoc in Hsp.
    assert (HRC : read_code_at tb ps (sp ++ u) = Ok (p, write_num_offset p x ++ r ++ rest)).
    { rewrite Hsp. apply (read_code_at_rest w tb ps rest p); try assumption.
      rewrite !app_length. lia. }
    destruct (read_code_at_prefix tb tb ps sp u p _ Htab HRC) as [E|(s1 & E & Hs1)]; rewrite E.
    { exact Stop. }
    rewrite Ej.
    assert (Hu1 : Forall (in_range p) [x]) by (constructor; [split; assumption|constructor]).
    destruct (read_offsets_part w p u (r ++ rest) Hwp Hu [x] Hu1 1%nat s1 ltac:(cbn [length]; lia))
      as (i & s2 & st2 & E2 & Hs2 & Hst2).
    { cbn [flat_map]. rewrite app_nil_r. symmetry. exact Hs1. }
    rewrite E2.
    destruct Hst2 as [[-> ->]|[-> Hi]].
    + cbn [firstn skipn flat_map app] in *.
      destruct (IH (room - 1) t r s2) as (j2 & s' & inc' & st & Hrb & Hinv & Hst);
        try assumption; try lia.
      { exists f. split; [lia|exact Er]. }
      rewrite Hrb. exists (S j2), s', inc', st. cbn [firstn skipn app].
      split; [reflexivity|]. split; [exact Hinv|].
      destruct Hst as [[-> ->]|[-> Hj2]]; [left; split; [reflexivity|lia]|right; split; [reflexivity|lia]].
    + assert (i = O) by lia. subst i. cbn [firstn]. exact Stop.
Qed.

(* one batch, not at end of input: the numbers decoded before the data runs out are the
   next numbers, and the state reached is a state of the whole stream *)
Lemma read_batch_part w tb ps rest u :
  wf_table w ps -> enough_rest ps rest -> Nlen u mod 8 = 0 ->
  forall us inc sp limit,
  Forall (good ps) us -> Nlen us < 2 ^ 24 -> stream_inv ps inc us (sp ++ u) rest -> 0 < limit ->
  exists j s' inc' fin,
    read_batch w tb ps (Nlen us) inc limit false sp = mkBatch (firstn j us) s' inc' fin SOk /\
    stream_inv ps inc' (skipn j us) (s' ++ u) rest /\
    (j <= N.to_nat (N.min (Nlen us) limit))%nat /\
    (fin = true -> j = length us) /\ (fin = false -> (j < length us)%nat).
Proof.
  intros Hwf Hrest Hu us inc sp limit Hg Hlen Hinv Hlim.
  unfold read_batch. cbv zeta.
  set (bs := N.min (Nlen us) limit) in *.
  assert (Hcomp : (Nlen us <=? limit) = true -> N.to_nat bs = length us).
  { intros H. apply N.leb_le in H. unfold bs, Nlen in *. lia. }
  assert (Hncomp : (Nlen us <=? limit) = false -> (N.to_nat bs < length us)%nat).
  { intros H. apply N.leb_gt in H. unfold bs, Nlen in *. lia. }
  destruct (bs =? 0) eqn:E0.
  { apply N.eqb_eq in E0. assert (Hnil : us = []).
    { destruct us as [|x t]; [reflexivity|]. unfold bs in E0. rewrite Nlen_cons in E0. lia. }
    subst us. exists O, sp, inc, true. rewrite Nlen_nil.
    replace (0 <=? limit) with true by (symmetry; apply N.leb_le; lia).
    cbn [firstn skipn]. split; [reflexivity|]. split; [exact Hinv|]. split; [lia|].
    split; [reflexivity|discriminate]. }
  apply N.eqb_neq in E0.
  assert (Hbs : 0 < bs <= Nlen us) by (unfold bs in *; lia).
  destruct inc as [[p rem]|]; cbn [stream_inv] in Hinv.
  - destruct Hinv as (run & tl & b & Hus & Hrl & Hrem & Hin & Hrun & Henc & Hsp).
    assert (Hwp : wf_prefix w p).
    { destruct Hwf as (_ & Hwf & _). rewrite Forall_forall in Hwf. auto. }
    assert (Hrl' : length run = N.to_nat rem) by (unfold Nlen in Hrl; lia).
    assert (Hlt : Nlen us = rem + Nlen tl) by (rewrite Hus, Nlen_app; lia).
    assert (Hgtl : Forall (good ps) tl).
    { rewrite Hus in Hg. apply Forall_app in Hg. tauto. }
    destruct (read_offsets_part w p u (b ++ rest) Hwp Hu run Hrun
                (N.to_nat (N.min rem bs)) sp ltac:(lia) Hsp)
      as (i & s1 & st1 & E1 & Hs1 & Hst1).
    rewrite E1.
    destruct Hst1 as [[-> ->]|[-> Hi]].
    + assert (Hfl : Nlen (firstn (N.to_nat (N.min rem bs)) run) = N.min rem bs).
      { unfold Nlen. rewrite firstn_length. lia. }
      rewrite Hfl.
      destruct (N.le_gt_cases rem bs) as [Hle|Hgt].
      * (* the incomplete run is finished in this batch *)
        rewrite N.min_l in * by lia. rewrite <- Hrl' in *. rewrite firstn_all. rewrite skipn_all in Hs1.
        cbn [flat_map app] in Hs1.
        replace (rem - rem =? 0) with true by (symmetry; apply N.eqb_eq; lia).
        destruct (read_blocks_part w tb ps rest u Hwf Hrest Hu (N.to_nat (bs - rem)) (bs - rem) tl b s1)
          as (j2 & s' & inc' & st & Hrb & Hinv' & Hst); try assumption; try lia.
        rewrite Hrb.
        assert (Einc : match inc' with Some _ => inc' | None => None end = inc')
          by (destruct inc'; reflexivity).
        rewrite Einc.
        destruct Hst as [[-> ->]|[-> Hj2]].
        -- exists (N.to_nat bs), s', inc', (Nlen us <=? limit).
           split.
           { f_equal. rewrite Hus, firstn_app_ge by lia.
             replace (N.to_nat bs - length run)%nat with (N.to_nat (bs - rem)) by lia. reflexivity. }
           split.
           { rewrite Hus, skipn_app_ge by lia.
             replace (N.to_nat bs - length run)%nat with (N.to_nat (bs - rem)) by lia. exact Hinv'. }
           split; [lia|]. split; [exact Hcomp|exact Hncomp].
        -- exists (length run + j2)%nat, s', inc', false.
           split; [f_equal; rewrite Hus, firstn_app_2; reflexivity|].
           split.
           { rewrite Hus, skipn_app_ge by lia.
             replace (length run + j2 - length run)%nat with j2 by lia. exact Hinv'. }
           split; [lia|]. split; [discriminate|]. intros _. unfold Nlen in *. lia.
      * (* the batch ends inside the incomplete run *)
        rewrite N.min_r in * by lia.
        replace (rem - bs =? 0) with false by (symmetry; apply N.eqb_neq; lia).
        replace (bs - bs) with 0 by lia. cbn [N.to_nat read_blocks]. rewrite app_nil_r.
        exists (N.to_nat bs), s1, (Some (p, rem - bs)), (Nlen us <=? limit).
        split; [f_equal; rewrite Hus, firstn_app_le by lia; reflexivity|].
        split.
        { rewrite Hus, skipn_app_le by lia.
          cbn [stream_inv]. exists (skipn (N.to_nat bs) run), tl, b.
          split; [reflexivity|]. split; [unfold Nlen; rewrite skipn_length; lia|].
          split; [lia|]. split; [assumption|]. split; [apply Forall_skipn; assumption|].
          split; [assumption|exact Hs1]. }
        split; [lia|]. split; [exact Hcomp|exact Hncomp].
    + (* the data ends inside the offsets of the incomplete run *)
      assert (Hli : Nlen (firstn i run) = N.of_nat i).
      { unfold Nlen. rewrite firstn_length. lia. }
      rewrite Hli.
      replace (rem - N.of_nat i =? 0) with false by (symmetry; apply N.eqb_neq; lia).
      exists i, s1, (Some (p, rem - N.of_nat i)), false.
      split; [f_equal; rewrite Hus, firstn_app_le by lia; reflexivity|].
      split.
      { rewrite Hus, skipn_app_le by lia.
        cbn [stream_inv]. exists (skipn i run), tl, b.
        split; [reflexivity|]. split; [unfold Nlen; rewrite skipn_length; lia|].
        split; [lia|]. split; [assumption|]. split; [apply Forall_skipn; assumption|].
        split; [assumption|exact Hs1]. }
      split; [lia|]. split; [discriminate|]. intros _. unfold Nlen in *. lia.
  - destruct Hinv as (b & Henc & Hsp).
    destruct (read_blocks_part w tb ps rest u Hwf Hrest Hu (N.to_nat bs) bs us b sp)
      as (j & s' & inc' & st & Hrb & Hinv' & Hst); try assumption; try lia.
    rewrite Hrb.
    destruct Hst as [[-> ->]|[-> Hj]].
    + exists (N.to_nat bs), s', inc', (Nlen us <=? limit).
      split; [reflexivity|]. split; [exact Hinv'|]. split; [lia|]. split; [exact Hcomp|exact Hncomp].
    + exists j, s', inc', false.
      split; [reflexivity|]. split; [exact Hinv'|]. split; [lia|]. split; [discriminate|].
      intros _. unfold Nlen in *. lia.
Qed.

(* ================================================================== *)
(* 4. one batch of the decompressors on a prefix of the stream          *)
(* ================================================================== *)

Lemma nd_batch_part w tb c ur sp u rest limit :
  nd_inv w (c_table c) (c_n c) (c_body c) (c_nd c) ur (sp ++ u) rest -> 0 < limit ->
  Nlen u mod 8 = 0 ->
  exists j fin nd' s1,
    nd_batch w tb c limit false sp = Ok (firstn j ur, fin, nd', s1) /\
    suf s1 sp /\ (j <= length ur)%nat /\ N.of_nat j <= limit /\
    nd_inv w (c_table c) (c_n c) (c_body c) nd' (skipn j ur) (s1 ++ u) rest /\
    (fin = true -> j = length ur /\ s1 ++ u = rest) /\
    (fin = false -> (j < length ur)%nat).
Proof.
  intros (Hwf & Hg & Hlen & Hnp & Hr8 & Hrm & Hbp & k & Hk & Hinv) Hlim Hu.
  set (R := repeat false (N.to_nat k) ++ rest) in *.
  assert (HR : enough_rest (c_table c) R).
  { apply enough_rest_8. unfold R. rewrite Nlen_app. lia. }
  destruct (read_batch_part w tb (c_table c) R u Hwf HR Hu ur (nd_incomplete (c_nd c)) sp limit
              Hg Hlen Hinv Hlim) as (j & s' & inc' & fin & Hrb & Hinv' & Hj & Hfin1 & Hfin0).
  pose proof (read_batch_suf w tb (c_table c) (Nlen ur) (nd_incomplete (c_nd c)) limit false sp) as Hsuf.
  rewrite Hrb in Hsuf. cbn [b_rest] in Hsuf.
  assert (Hjl : (j <= length ur)%nat) by (unfold Nlen in Hj; lia).
  assert (Hfl : Nlen (firstn j ur) = N.of_nat j).
  { unfold Nlen. rewrite firstn_length. lia. }
  assert (Hsk : Nlen (skipn j ur) = Nlen ur - N.of_nat j) by apply Nlen_skipn.
  rewrite Nlen_app in Hbp.
  unfold nd_batch. cbv zeta.
  replace (c_n c <? nd_nproc (c_nd c)) with false by (symmetry; apply N.ltb_ge; lia).
  replace (c_n c - nd_nproc (c_nd c)) with (Nlen ur) by lia.
  rewrite Hrb. cbn [b_status b_finished b_rest b_nums b_incomplete].
  destruct fin.
  - (* the body is finished by this batch: the padding is drained *)
    specialize (Hfin1 eq_refl). subst j.
    rewrite skipn_all in Hinv'. apply stream_inv_nil in Hinv'. destruct Hinv' as [-> Hs'].
    assert (DP : drain_pad (s' ++ u) = Ok rest).
    { rewrite Hs'. unfold R. apply (drain_pad_pad k rest Hk Hrm). }
    destruct (drain_pad_back s' u rest Hu DP) as (r & D1 & Hr).
    rewrite D1. cbn [bind].
    assert (Hsuf2 : suf r sp).
    { apply (suf_trans r s' sp); [apply drain_pad_suf; exact D1|exact Hsuf]. }
    pose proof (suf_Nlen _ _ Hsuf2) as [HL1 HL2].
    assert (HrN : Nlen rest = Nlen r + Nlen u) by (rewrite Hr, Nlen_app; reflexivity).
    assert (Hbody : c_body c * 8 = nd_bproc (c_nd c) + (Nlen sp - Nlen r)) by lia.
    rewrite <- Hbody, N.eqb_refl. cbn [negb andb].
    eexists. exists true. eexists. exists r. split; [reflexivity|].
    split; [exact Hsuf2|]. split; [lia|]. split; [unfold Nlen in Hj; lia|].
    split; [|split; [intros _; split; [reflexivity|symmetry; exact Hr]|discriminate]].
    rewrite skipn_all. unfold nd_inv. cbn [nd_nproc nd_bproc nd_incomplete].
    split; [exact Hwf|]. split; [constructor|]. split; [rewrite Nlen_nil; lia|].
    split; [rewrite Nlen_nil, Hfl; unfold Nlen in *; lia|].
    split; [exact Hr8|]. split; [exact Hrm|].
    split; [rewrite <- Hr; lia|].
    exists 0. split; [lia|]. cbn [N.to_nat repeat app stream_inv].
    exists []. split; [apply enc_nil_nil|rewrite <- Hr; reflexivity].
  - specialize (Hfin0 eq_refl). cbn [bind andb].
    pose proof (suf_Nlen _ _ Hsuf) as [HL1 HL2].
    eexists. exists false. eexists. exists s'. split; [reflexivity|]. split; [exact Hsuf|].
    split; [lia|]. split; [lia|].
    split; [|split; [discriminate|intros _; exact Hfin0]].
    unfold nd_inv. cbn [nd_nproc nd_bproc nd_incomplete].
    split; [exact Hwf|]. split; [apply Forall_skipn; exact Hg|].
    split; [rewrite Hsk; lia|].
    split; [rewrite Hsk, Hfl; unfold Nlen in *; lia|].
    split; [exact Hr8|]. split; [exact Hrm|]. split; [rewrite Nlen_app; lia|].
    exists k. split; [exact Hk|exact Hinv'].
Qed.

(* the chunk body decompressor: the numbers produced are the next numbers of the chunk;
   either the chunk is finished and the reader stands after its body, or numbers remain
   and the invariant holds for them on the whole stream *)
Lemma cbd_batch_part d f tb c xr sp u rest limit :
  cbd_inv d f c xr (sp ++ u) rest -> 0 < limit -> Nlen u mod 8 = 0 ->
  exists j fin c' s1,
    cbd_batch d f tb c limit false sp = Ok (firstn j xr, fin, c', s1) /\
    suf s1 sp /\
    (fin = true -> (length xr <= j)%nat /\ s1 ++ u = rest) /\
    (fin = false -> (j < length xr)%nat /\ cbd_inv d f c' (skipn j xr) (s1 ++ u) rest).
Proof.
  intros (ur & Hnd & Hx) Hlim Hu.
  destruct (nd_batch_part (ubits (pdt f d)) tb c ur sp u rest limit Hnd Hlim Hu)
    as (m & fin0 & nd' & s1 & Hnb & Hsuf & Hm & Hml & Hnd' & Hfin1 & Hfin0).
  unfold cbd_batch. rewrite Hnb. cbn [bind].
  destruct (ford f =? 0) eqn:Eo.
  - (* Simple *)
    subst xr.
    assert (Hl : length (map (of_u d) ur) = length ur) by apply map_length.
    rewrite <- firstn_map.
    exists m, fin0. eexists. exists s1. split; [reflexivity|]. split; [exact Hsuf|].
    split.
    + intros ->. destruct (Hfin1 eq_refl) as [-> Hs]. split; [rewrite Hl; lia|exact Hs].
    + intros ->. specialize (Hfin0 eq_refl). split; [rewrite Hl; lia|].
      exists (skipn m ur). cbn [c_table c_n c_body c_nd]. split; [exact Hnd'|].
      rewrite Eo. apply skipn_map.
  - (* Delta *)
    destruct Hx as (Hnp & Hlen & Hrec).
    replace (c_total c <? c_numsproc c) with false by (symmetry; apply N.ltb_ge; lia).
    assert (Hfl : Nlen (firstn m ur) = N.of_nat m) by (unfold Nlen; rewrite firstn_length; lia).
    set (bs := if fin0 then N.to_nat (N.min limit (Nlen xr)) else m).
    assert (HbsN : (if fin0 then N.min limit (c_total c - c_numsproc c)
                    else Nlen (firstn m ur)) = N.of_nat bs).
    { unfold bs. destruct fin0.
      - replace (c_total c - c_numsproc c) with (Nlen xr) by lia. lia.
      - exact Hfl. }
    rewrite HbsN, Nat2N.id.
    set (D := map (of_u (sdt d)) ur) in *.
    assert (HD : length D = length ur) by (unfold D; apply map_length).
    assert (Hbm : (m <= bs)%nat /\ (bs <= length xr)%nat /\
                  (m = bs \/ (length D <= m /\ length D <= bs))%nat).
    { unfold bs. destruct fin0.
      - destruct (Hfin1 eq_refl) as [-> _]. rewrite HD. unfold Nlen in *. lia.
      - specialize (Hfin0 eq_refl). lia. }
    destruct Hbm as (Hmb & Hbl & Hcase).
    destruct (reconstruct_batch d bs m (c_moments c) D Hcase) as [HR1 HR2].
    rewrite <- firstn_map. fold D. rewrite HR1.
    assert (Hxl : length xr = (bs + (length xr - bs))%nat) by lia.
    rewrite Hxl, reconstruct_split in Hrec. cbn [fst] in Hrec.
    destruct (reconstruct d bs (c_moments c) D) as [xb ms'] eqn:ER.
    cbn [fst snd] in Hrec.
    assert (Hxbl : length xb = bs).
    { pose proof (reconstruct_length d bs (c_moments c) D) as H. rewrite ER in H. exact H. }
    assert (Hf1 : firstn bs xr = xb).
    { rewrite <- Hrec, <- Hxbl, firstn_app, Nat.sub_diag, firstn_all. cbn [firstn]. apply app_nil_r. }
    assert (Hs1 : skipn bs xr
                  = fst (reconstruct d (length xr - bs) ms' (skipn bs D))).
    { rewrite <- Hrec at 1. rewrite <- Hxbl at 1. rewrite skipn_app, Nat.sub_diag, skipn_all.
      reflexivity. }
    rewrite <- Hf1.
    exists bs, (c_numsproc c + N.of_nat bs =? c_total c). eexists. exists s1.
    split; [reflexivity|]. split; [exact Hsuf|].
    split.
    + intros E. apply N.eqb_eq in E.
      assert (Hbx : bs = length xr) by (unfold Nlen in *; lia).
      split; [lia|].
      destruct fin0; [exact (proj2 (Hfin1 eq_refl))|].
      specialize (Hfin0 eq_refl). unfold bs in Hbx. lia.
    + intros E. apply N.eqb_neq in E.
      assert (Hbx : (bs < length xr)%nat) by (unfold Nlen in *; lia).
      split; [exact Hbx|].
      exists (skipn m ur).
      cbn [c_table c_n c_body c_nd c_numsproc c_total c_moments]. split; [exact Hnd'|].
      rewrite Eo.
      assert (Hskl : length (skipn bs xr) = (length xr - bs)%nat) by apply skipn_length.
      split; [unfold Nlen in *; rewrite Hskl; lia|].
      split.
      { rewrite !skipn_length. unfold bs in *. destruct fin0.
        - destruct (Hfin1 eq_refl) as [-> _]. lia.
        - lia. }
      rewrite Hskl, <- skipn_map. fold D. rewrite HR2. symmetry. exact Hs1.
Qed.

(* ================================================================== *)
(* 5. where the reader stands in the file, and one call from there     *)
(* ================================================================== *)

Lemma at_suffix_grow st more s :
  at_suffix st s -> at_suffix (grow more st) (s ++ bytes_to_bits more).
Proof.
  intros (pre & E & Hb). exists pre. cbn [grow r_bytes r_bit].
  split; [rewrite bytes_to_bits_app, E, app_assoc; reflexivity|exact Hb].
Qed.

Lemma at_suffix_grow_inv st more s : pos_ok st -> at_suffix (grow more st) s ->
  exists sp, at_suffix st sp /\ s = sp ++ bytes_to_bits more.
Proof.
  intros P (pre & E & Hb). cbn [grow r_bytes r_bit] in E, Hb. rewrite bytes_to_bits_app in E.
  set (B := bytes_to_bits (r_bytes st)) in *. set (U := bytes_to_bits more) in *.
  assert (Hle : (length pre <= length B)%nat).
  { unfold B. rewrite bytes_to_bits_length. unfold pos_ok, total_bits, Nlen in *. lia. }
  assert (H1 : firstn (length pre) B = pre).
  { rewrite <- (firstn_app_le (length pre) B U Hle), E, firstn_app_le by lia. apply firstn_all. }
  assert (H2 : skipn (length pre) B ++ U = s).
  { rewrite <- (skipn_app_le (length pre) B U Hle), E. apply skipn_length_app. }
  exists (skipn (length pre) B). split; [|symmetry; exact H2].
  exists pre. split; [|exact Hb]. fold B.
  transitivity (firstn (length pre) B ++ skipn (length pre) B); [symmetry; apply firstn_skipn|].
  rewrite H1. reflexivity.
Qed.

(* the items still to come, batches of one chunk merged *)
Definition citems (d : dtype) (f : flags) (c : list Z * list prefix) : list rout :=
  ROItem (IMeta (reader_meta d f c))
  :: match fst c with [] => [] | _ => [ROItem (INums (fst c))] end.

Definition tail_items (d : dtype) (f : flags) (rem : list (list Z * list prefix)) : list rout :=
  flat_map (citems d f) rem ++ [ROItem IFooter].

(* the position of a reader holding the whole file, with what it still has to yield *)
Inductive cls (d : dtype) (f : flags) : rstate -> list rout -> Prop :=
| cls_H stF chunks cb :
    r_term stF = false -> r_flags stF = None ->
    Forall (chunk_ok d f) chunks -> chunks_bytes d f chunks = Ok cb ->
    read_header d (r_bit stF) (stream stF) = Ok (f, tail_bits cb) ->
    boundary f (mkR (r_bytes stF) (pos_after stF (tail_bits cb)) (Some f) (r_cbd stF) (r_term stF))
             (tail_bits cb) ->
    cls d f stF (ROItem (IFlags f) :: tail_items d f chunks)
| cls_B stF rem cb :
    Forall (chunk_ok d f) rem -> chunks_bytes d f rem = Ok cb ->
    pre_boundary d f stF (tail_bits cb) ->
    cls d f stF (tail_items d f rem)
| cls_M stF xr rem r :
    xr <> [] -> Forall (chunk_ok d f) rem -> chunks_bytes d f rem = Ok r ->
    mid d f stF xr (tail_bits r) ->
    cls d f stF (ROItem (INums xr) :: tail_items d f rem)
| cls_T stF : r_term stF = true -> cls d f stF [].

(* a bound on the number of calls still yielding something *)
Fixpoint msr (l : list rout) : nat :=
  match l with
  | [] => O
  | ROItem (INums xs) :: t => (length xs + msr t)%nat
  | _ :: t => S (msr t)
  end.

Lemma msr_app : forall a b, msr (a ++ b) = (msr a + msr b)%nat.
Proof.
  induction a as [|o a IH]; intros b; [reflexivity|].
  destruct o as [| | | |[fl|m|xs|]| | |]; cbn [app msr]; rewrite IH; lia.
Qed.

Lemma msr_citems d f c : msr (citems d f c) = S (length (fst c)).
Proof. unfold citems. destruct (fst c) as [|x xs']; cbn [msr length]; lia. Qed.

Lemma msr_tail_items d f rem :
  msr (tail_items d f rem) = (length rem + length (concat (map fst rem)) + 1)%nat.
Proof.
  unfold tail_items. rewrite msr_app. cbn [msr].
  induction rem as [|c t IH]; [reflexivity|].
  cbn [flat_map map concat length]. rewrite msr_app, app_length, msr_citems. lia.
Qed.

(* the outcome of a call on the bytes held: nothing (and nothing changes), or an item that
   fits what is expected *)
Definition step_ok (d : dtype) (f : flags) (more : list N) (st : rstate)
           (res : rstate * rout) (exp : list rout) : Prop :=
  res = (st, RONone) \/
  exists st1 i exp', res = (st1, ROItem i) /\ cls d f (grow more st1) exp' /\
    (msr exp' < msr exp)%nat /\ merge_nums (ROItem i :: exp') = merge_nums exp.

Lemma next_meta_use d stB f more st1F i0 : pos_ok stB ->
  next_meta d (grow more stB) f = (st1F, ROItem i0) ->
  next_meta d stB f = (stB, RONone) \/
  exists st1, next_meta d stB f = (st1, ROItem i0) /\ grow more st1 = st1F.
Proof.
  intros P HF. pose proof (next_meta_grow d stB f more P) as G.
  pose proof (next_meta_atomic d stB f) as A.
  destruct (next_meta d stB f) as [st1 o]. cbn [fst snd] in A.
  destruct o; try (rewrite HF in G); try discriminate.
  - inversion G; subst. right. exists st1. auto.
  - left. rewrite (A eq_refl). reflexivity.
Qed.

Lemma r_step_use d st more limit st1F i0 :
  match r_step d st (RNext limit) with
  | (st1, ROItem i) => r_step d (grow more st) (RNext limit) = (grow more st1, ROItem i)
  | (_, RONone) => True
  | (_, o) => r_step d (grow more st) (RNext limit) = (grow more st, o)
  end ->
  r_step d (grow more st) (RNext limit) = (st1F, ROItem i0) ->
  r_step d st (RNext limit) = (st, RONone) \/
  exists st1, r_step d st (RNext limit) = (st1, ROItem i0) /\ grow more st1 = st1F.
Proof.
  intros G HF. pose proof (r_step_atomic d st (RNext limit)) as A.
  destruct (r_step d st (RNext limit)) as [st1 o]. cbn [fst snd] in A.
  destruct o; try (rewrite HF in G); try discriminate.
  - inversion G; subst. right. exists st1. auto.
  - left. rewrite (A eq_refl). reflexivity.
Qed.

(* between chunks *)
Lemma boundary_step d f stB more rem cb :
  pos_ok stB -> Forall (chunk_ok d f) rem -> chunks_bytes d f rem = Ok cb ->
  boundary f (grow more stB) (tail_bits cb) ->
  step_ok d f more stB (next_meta d stB f) (tail_items d f rem).
Proof.
  intros P Hok Hcb HB. destruct rem as [|[xs table] t].
  - cbn [chunks_bytes] in Hcb. inversion Hcb; subst cb.
    destruct (next_meta_footer d f _ HB) as (stE & HnmF & HtE).
    destruct (next_meta_use d stB f more stE IFooter P HnmF) as [E|(st1 & E & Hg)].
    + left. exact E.
    + right. exists st1, IFooter, []. split; [exact E|].
      split; [apply cls_T; rewrite Hg; exact HtE|].
      split; [rewrite msr_tail_items; cbn [msr]; lia|reflexivity].
  - inversion Hok as [|? ? Hok1 Hokt]; subst.
    destruct (next_meta_chunk d f xs table t cb _ Hok1 Hcb HB) as (st1F & r & Hr & HnmF & Hmid).
    destruct (next_meta_use d stB f more st1F _ P HnmF) as [E|(st1 & E & Hg)].
    + left. exact E.
    + right. subst st1F. exists st1, (IMeta (reader_meta d f (xs, table))).
      destruct xs as [|x xs'].
      * exists (tail_items d f t). split; [exact E|].
        split; [apply (cls_B d f _ t r Hokt Hr); right; exact Hmid|].
        split; [rewrite !msr_tail_items; cbn [length map concat fst app]; lia|reflexivity].
      * exists (ROItem (INums (x :: xs')) :: tail_items d f t). split; [exact E|].
        split; [apply (cls_M d f _ (x :: xs') t r ltac:(discriminate) Hokt Hr Hmid)|].
        split; [|reflexivity].
        cbn [msr]. rewrite !msr_tail_items. cbn [length map concat fst]. rewrite app_length.
        cbn [length]. lia.
Qed.

(* inside a chunk: the call yields nothing, or a non-empty batch that is a prefix of the
   numbers the chunk still has to yield; then either the chunk is finished or the rest of
   its numbers is still to come *)
Theorem r_step_next_body_part d f st more xr rest limit :
  0 < limit -> pos_ok st -> mid d f (grow more st) xr rest -> xr <> [] ->
  r_step d st (RNext limit) = (st, RONone) \/
  exists st1 j, (0 < j)%nat /\
    r_step d st (RNext limit) = (st1, ROItem (INums (firstn j xr))) /\
    ((length xr <= j)%nat /\ boundary f (grow more st1) rest \/
     (j < length xr)%nat /\ mid d f (grow more st1) (skipn j xr) rest).
Proof.
  intros Hlim P Hmid Hne.
  destruct Hmid as (Ht & Hf & c & s & Hc & Hat & Hinv).
  change (r_term (grow more st)) with (r_term st) in Ht.
  change (r_flags (grow more st)) with (r_flags st) in Hf.
  change (r_cbd (grow more st)) with (r_cbd st) in Hc.
  destruct (at_suffix_grow_inv st more s P Hat) as (sp & Hatp & ->).
  destruct (cbd_batch_part d f (total_bits st) c xr sp (bytes_to_bits more) rest limit
              Hinv Hlim (Nlen_bits_mod8 more)) as (j & fin & c' & s1 & Hcbd & Hsuf & Hfin1 & Hfin0).
  assert (Hat1 : forall cb', at_suffix (grow more (mkR (r_bytes st) (pos_after st s1) (Some f) cb' false))
                                       (s1 ++ bytes_to_bits more)).
  { intros cb'. apply (at_suffix_grow _ more s1). apply (at_suffix_suf st sp s1); assumption. }
  destruct xr as [|x xr']; [congruence|].
  destruct j as [|j'].
  - (* not one number could be decoded *)
    left. destruct fin; [destruct (Hfin1 eq_refl) as [Hj _]; cbn [length] in Hj; lia|].
    unfold r_step. rewrite Ht, Hf, Hc, (at_suffix_stream st sp Hatp), Hcbd. reflexivity.
  - right.
    assert (Er : r_step d st (RNext limit)
                 = (mkR (r_bytes st) (pos_after st s1) (Some f)
                        (if fin then None else Some c') false,
                    ROItem (INums (firstn (S j') (x :: xr'))))).
    { unfold r_step. rewrite Ht, Hf, Hc, (at_suffix_stream st sp Hatp), Hcbd. reflexivity. }
    eexists. exists (S j'). split; [lia|]. split; [exact Er|].
    destruct fin.
    + destruct (Hfin1 eq_refl) as [Hj Hs1]. left. split; [exact Hj|].
      split; [rewrite <- Hs1; apply Hat1|cbn [grow r_flags r_cbd r_term]; auto].
    + destruct (Hfin0 eq_refl) as [Hj Hinv']. right. split; [exact Hj|].
      split; [reflexivity|]. split; [reflexivity|]. exists c', (s1 ++ bytes_to_bits more).
      split; [reflexivity|]. split; [apply Hat1|exact Hinv'].
Qed.

(* one call of the iterator on the bytes held *)
Lemma cls_step d f limit more st exp :
  0 < limit -> pos_ok st -> cls d f (grow more st) exp ->
  step_ok d f more st (r_step d st (RNext limit)) exp.
Proof.
  intros Hlim P H. remember (grow more st) as stF eqn:EF.
  destruct H as [stF chunks cb Ht Hf Hok Hcb Hrh HB|stF rem cb Hok Hcb Hpre
                |stF xr rem r Hne Hok Hcb Hmid|stF Ht]; subst stF.
  - (* the header *)
    change (r_term (grow more st)) with (r_term st) in Ht.
    change (r_flags (grow more st)) with (r_flags st) in Hf.
    assert (HF : r_step d (grow more st) (RNext limit)
                 = (mkR (r_bytes (grow more st)) (pos_after (grow more st) (tail_bits cb)) (Some f)
                        (r_cbd (grow more st)) (r_term (grow more st)), ROItem (IFlags f))).
    { unfold r_step. change (r_term (grow more st)) with (r_term st).
      change (r_flags (grow more st)) with (r_flags st). rewrite Ht, Hf, Hrh. reflexivity. }
    destruct (r_step_use d st more limit _ _ (r_step_next_header_grow d st limit more P Ht Hf) HF)
      as [E|(st1 & E & Hg)].
    + left. exact E.
    + right. exists st1, (IFlags f), (tail_items d f chunks). split; [exact E|].
      split; [apply (cls_B d f _ chunks cb Hok Hcb); left; rewrite Hg; exact HB|].
      split; [cbn [msr]; lia|reflexivity].
  - destruct Hpre as [HB|(Ht & Hf & c & s & Hc & Hat & Hinv)].
    + (* no chunk is open *)
      pose proof HB as (_ & Hf & Hc & Ht).
      change (r_term (grow more st)) with (r_term st) in Ht.
      change (r_flags (grow more st)) with (r_flags st) in Hf.
      change (r_cbd (grow more st)) with (r_cbd st) in Hc.
      replace (r_step d st (RNext limit)) with (next_meta d st f)
        by (unfold r_step; rewrite Ht, Hf, Hc; reflexivity).
      apply (boundary_step d f st more rem cb P Hok Hcb HB).
    + (* an open chunk with nothing more to yield *)
      change (r_term (grow more st)) with (r_term st) in Ht.
      change (r_flags (grow more st)) with (r_flags st) in Hf.
      change (r_cbd (grow more st)) with (r_cbd st) in Hc.
      destruct (at_suffix_grow_inv st more s P Hat) as (sp & Hatp & ->).
      destruct (cbd_batch_part d f (total_bits st) c [] sp (bytes_to_bits more) (tail_bits cb) limit
                  Hinv Hlim (Nlen_bits_mod8 more)) as (j & fin & c' & s1 & Hcbd & Hsuf & Hfin1 & Hfin0).
      destruct fin; [|destruct (Hfin0 eq_refl) as [Hj _]; cbn [length] in Hj; lia].
      destruct (Hfin1 eq_refl) as [_ Hs1]. rewrite firstn_nil in Hcbd.
      set (stB := mkR (r_bytes st) (pos_after st s1) (Some f) None false).
      assert (PB : pos_ok stB) by exact (pos_after_le st s1).
      assert (HBB : boundary f (grow more stB) (tail_bits cb)).
      { split; [|cbn [grow stB r_flags r_cbd r_term]; auto].
        rewrite <- Hs1. apply (at_suffix_grow stB more s1). unfold stB.
        apply (at_suffix_suf st sp s1); assumption. }
      pose proof (boundary_step d f stB more rem cb PB Hok Hcb HBB) as Hstep.
      assert (Er : r_step d st (RNext limit)
                   = match next_meta d stB f with
                     | (st2, ROItem i) => (st2, ROItem i)
                     | (_, out) => (st, out)
                     end).
      { unfold r_step. rewrite Ht, Hf, Hc, (at_suffix_stream st sp Hatp), Hcbd. reflexivity. }
      rewrite Er. destruct Hstep as [E|(st1 & i & exp' & E & Hrest)]; rewrite E.
      * left. reflexivity.
      * right. exists st1, i, exp'. split; [reflexivity|exact Hrest].
  - (* inside a chunk *)
    destruct (r_step_next_body_part d f st more xr (tail_bits r) limit Hlim P Hmid Hne)
      as [E|(st1 & j & Hj0 & E & Hcase)].
    + left. exact E.
    + right. rewrite E.
      destruct Hcase as [[Hj HB]|[Hj Hmid']].
      * rewrite (firstn_all2 xr) by exact Hj.
        exists st1, (INums xr), (tail_items d f rem). split; [reflexivity|].
        split; [apply (cls_B d f _ rem r Hok Hcb); left; exact HB|].
        split; [|reflexivity].
        cbn [msr]. destruct xr; [congruence|cbn [length]; lia].
      * assert (Hsl : length (skipn j xr) = (length xr - j)%nat) by apply skipn_length.
        exists st1, (INums (firstn j xr)), (ROItem (INums (skipn j xr)) :: tail_items d f rem).
        split; [reflexivity|].
        split.
        { apply (cls_M d f _ _ rem r); try assumption.
          intros E0. rewrite E0 in Hsl. cbn [length] in Hsl. lia. }
        split; [cbn [msr]; rewrite Hsl; lia|].
        rewrite merge_nums_join, firstn_skipn. reflexivity.
  - (* after the footer *)
    left. change (r_term (grow more st)) with (r_term st) in Ht.
    unfold r_step. rewrite Ht. reflexivity.
Qed.

(* a reader holding the whole file yields nothing only after the footer *)
Lemma cls_stuck d f limit st exp :
  0 < limit -> cls d f st exp -> r_step d st (RNext limit) = (st, RONone) ->
  exp = [] /\ r_term st = true.
Proof.
  intros Hlim H Hs.
  destruct H as [stF chunks cb Ht Hf Hok Hcb Hrh HB|stF rem cb Hok Hcb Hpre
                |stF xr rem r Hne Hok Hcb Hmid|stF Ht].
  - exfalso. unfold r_step in Hs. rewrite Ht, Hf, Hrh in Hs. discriminate.
  - exfalso. destruct (r_step_next_pre d f stF _ limit Hpre Hlim) as (stB & HB & Hstep).
    destruct rem as [|[xs table] t].
    + cbn [chunks_bytes] in Hcb. inversion Hcb; subst cb.
      destruct (next_meta_footer d f stB HB) as (stE & Hnm & _).
      rewrite (Hstep _ _ Hnm) in Hs. discriminate.
    + inversion Hok as [|? ? Hok1 Hokt]; subst.
      destruct (next_meta_chunk d f xs table t cb stB Hok1 Hcb HB) as (st1 & r & _ & Hnm & _).
      rewrite (Hstep _ _ Hnm) in Hs. discriminate.
  - exfalso. destruct (r_step_next_mid d f stF xr _ limit Hmid Hne Hlim) as (st1 & Hstep & _).
    rewrite Hstep in Hs. discriminate.
  - auto.
Qed.

(* ================================================================== *)
(* 6. draining after a write, and the whole feed                        *)
(* ================================================================== *)

Lemma drain_cls d f limit more : 0 < limit -> forall fuel st exp,
  pos_ok st -> cls d f (grow more st) exp -> (msr exp < fuel)%nat ->
  exists st' outs exp',
    drain_iter fuel d limit st = (st', map ROItem outs) /\
    pos_ok st' /\ cls d f (grow more st') exp' /\ (msr exp' <= msr exp)%nat /\
    merge_nums (map ROItem outs ++ exp') = merge_nums exp /\
    r_step d st' (RNext limit) = (st', RONone).
Proof.
  intros Hlim. induction fuel as [|fuel IH]; intros st exp P Hcls Hm; [lia|].
  destruct (cls_step d f limit more st exp Hlim P Hcls)
    as [E|(st1 & i & exp1 & E & Hcls1 & Hm1 & Hmerge1)].
  - exists st, [], exp. cbn [drain_iter]. rewrite E. cbn [map app].
    repeat split; try assumption; lia.
  - assert (P1 : pos_ok st1).
    { pose proof (r_step_pos_ok d st (RNext limit) P) as Q. rewrite E in Q. exact Q. }
    destruct (IH st1 exp1 P1 Hcls1 ltac:(lia)) as (st' & outs & exp' & Hd & P' & Hcls' & Hm' & Hmerge' & Hstuck).
    exists st', (i :: outs), exp'.
    rewrite (drain_iter_item d limit st st1 i fuel E), Hd. cbn [fst snd map].
    split; [reflexivity|]. split; [exact P'|]. split; [exact Hcls'|]. split; [lia|].
    split; [|exact Hstuck].
    rewrite <- Hmerge1. cbn [app].
    apply (merge_nums_cong_r [ROItem i]). exact Hmerge'.
Qed.

Lemma feed_cls d f limit : 0 < limit -> forall pieces fuel st exp,
  pos_ok st -> cls d f (grow (concat pieces) st) exp -> (msr exp < fuel)%nat ->
  exists outs exp',
    snd (feed fuel d limit st pieces) = map ROItem outs /\
    cls d f (fst (feed fuel d limit st pieces)) exp' /\
    merge_nums (map ROItem outs ++ exp') = merge_nums exp /\
    (pieces <> [] ->
     r_step d (fst (feed fuel d limit st pieces)) (RNext limit)
     = (fst (feed fuel d limit st pieces), RONone)).
Proof.
  intros Hlim. induction pieces as [|p t IH]; intros fuel st exp P Hcls Hm.
  - cbn [concat] in Hcls. rewrite grow_nil in Hcls. exists [], exp. cbn [feed fst snd map app].
    split; [reflexivity|]. split; [exact Hcls|]. split; [reflexivity|congruence].
  - cbn [concat] in Hcls. rewrite <- grow_grow in Hcls.
    destruct (drain_cls d f limit (concat t) Hlim fuel (grow p st) exp (pos_ok_grow p st P) Hcls Hm)
      as (st' & outs & exp' & Hd & P' & Hcls' & Hm' & Hmerge' & Hstuck).
    destruct (IH fuel st' exp' P' Hcls' ltac:(lia)) as (outs2 & exp2 & Ho2 & Hcls2 & Hmerge2 & Hstuck2).
    cbn [feed]. rewrite r_step_write. cbn [fst]. rewrite Hd.
    destruct (feed fuel d limit st' t) as [st2 o2] eqn:Ef. cbn [fst snd] in *.
    exists (outs ++ outs2), exp2. rewrite map_app, Ho2.
    split; [reflexivity|]. split; [exact Hcls2|].
    split.
    + rewrite <- Hmerge', <- app_assoc. apply merge_nums_cong_r. exact Hmerge2.
    + intros _. destruct t as [|p2 t'].
      * cbn [feed] in Ef. inversion Ef; subst. exact Hstuck.
      * apply Hstuck2. discriminate.
Qed.

(* the items of the whole-file run, merged *)
Lemma merge_iter_items d f limit : 1 <= limit -> forall chunks,
  merge_nums (map ROItem (flat_map (chunk_items d f limit) chunks ++ [IFooter]))
  = merge_nums (tail_items d f chunks).
Proof.
  intros Hlim. induction chunks as [|c t IH]; [reflexivity|].
  unfold tail_items in *. cbn [flat_map]. unfold chunk_items at 1, citems at 1.
  rewrite <- !app_assoc. cbn [app map]. rewrite map_app.
  rewrite !(merge_nums_other (ROItem (IMeta _))) by reflexivity. f_equal.
  destruct (batches_of_spec limit (fst c) Hlim) as [(Hc & _ & Hnil) _].
  destruct (fst c) as [|x xs'] eqn:Ex.
  - rewrite (proj2 Hnil eq_refl). cbn [map app]. exact IH.
  - rewrite merge_nums_batches by (intros E; apply Hnil in E; discriminate).
    rewrite Hc. apply (merge_nums_cong_r [ROItem (INums (x :: xs'))]). exact IH.
Qed.

Lemma file_bytes_nonempty d f chunks bytes : file_bytes d f chunks = Ok bytes -> bytes <> [].
Proof.
  unfold file_bytes. intros H.
  destruct (header_bytes d f) as [hb| |]; cbn [bind] in H; try discriminate.
  destruct (chunks_bytes d f chunks) as [cb| |]; cbn [bind] in H; try discriminate.
  inversion H; subst. intros E. apply app_eq_nil in E. destruct E as [_ E].
  apply app_eq_nil in E. destruct E as [_ E]. discriminate.
Qed.

(* ------------------------------------------------------------------ *)
(* the property                                                        *)
(* ------------------------------------------------------------------ *)
Theorem split_invariance : forall d order gcds chunks bytes limit pieces fuel,
  order <= 7 ->
  Forall (chunk_ok d (writer_flags order gcds)) chunks ->
  file_bytes d (writer_flags order gcds) chunks = Ok bytes ->
  1 <= limit ->
  concat pieces = bytes ->
  (3 + length chunks + length (concat (map fst chunks)) <= fuel)%nat ->
  let r := feed fuel d limit r_init pieces in
  merge_nums (snd r) = merge_nums (map ROItem (iter_items d (writer_flags order gcds) limit chunks)) /\
  r_term (fst r) = true /\
  (exists items, snd r = map ROItem items) /\
  (forall l, r_step d (fst r) (RNext l) = (fst r, RONone)).
Proof.
  intros d order gcds chunks bytes limit pieces fuel Ho Hok Hfb Hlim Hcat Hfuel. cbv zeta.
  destruct (file_header_split d order gcds chunks bytes Ho Hfb) as (cb & Hcb & Hrh & HB).
  cbv zeta in Hcb, Hrh, HB.
  set (f := writer_flags order gcds) in *.
  assert (Hcls : cls d f (grow (concat pieces) r_init)
                     (ROItem (IFlags f) :: tail_items d f chunks)).
  { rewrite Hcat. change (grow bytes r_init) with (fresh bytes).
    apply (cls_H d f (fresh bytes) chunks cb); try reflexivity; assumption. }
  assert (Hm : (msr (ROItem (IFlags f) :: tail_items d f chunks) < fuel)%nat).
  { cbn [msr]. rewrite msr_tail_items. lia. }
  destruct (feed_cls d f limit ltac:(lia) pieces fuel r_init _ pos_ok_init Hcls Hm)
    as (outs & exp' & Hout & Hcls' & Hmerge & Hstuck).
  assert (Hne : pieces <> []).
  { intros E. subst pieces. cbn [concat] in Hcat. symmetry in Hcat.
    exact (file_bytes_nonempty d f chunks bytes Hfb Hcat). }
  destruct (cls_stuck d f limit _ _ ltac:(lia) Hcls' (Hstuck Hne)) as [-> Hterm].
  rewrite app_nil_r in Hmerge.
  split.
  - rewrite Hout, Hmerge. unfold iter_items. cbn [map].
    rewrite !(merge_nums_other (ROItem (IFlags f))) by reflexivity. f_equal.
    symmetry. apply merge_iter_items. exact Hlim.
  - split; [exact Hterm|]. split; [exists outs; exact Hout|].
    intros l. unfold r_step. rewrite Hterm. reflexivity.
Qed.

(* nothing lost, nothing duplicated, nothing reordered: the numbers yielded, in order, are
   the numbers of the chunks *)
Corollary split_numbers : forall d order gcds chunks bytes limit pieces fuel,
  order <= 7 ->
  Forall (chunk_ok d (writer_flags order gcds)) chunks ->
  file_bytes d (writer_flags order gcds) chunks = Ok bytes ->
  1 <= limit ->
  concat pieces = bytes ->
  (3 + length chunks + length (concat (map fst chunks)) <= fuel)%nat ->
  flat_map out_nums (snd (feed fuel d limit r_init pieces)) = concat (map fst chunks).
Proof.
  intros d order gcds chunks bytes limit pieces fuel Ho Hok Hfb Hlim Hcat Hfuel.
  destruct (split_invariance d order gcds chunks bytes limit pieces fuel Ho Hok Hfb Hlim Hcat Hfuel)
    as (Hm & _). cbv zeta in Hm.
  rewrite <- merge_nums_out_nums, Hm, merge_nums_out_nums.
  apply iter_items_nums. exact Hlim.
Qed.

(* no output of the feed is an error, a panic or anything but an item *)
Corollary split_no_failure : forall d order gcds chunks bytes limit pieces fuel,
  order <= 7 ->
  Forall (chunk_ok d (writer_flags order gcds)) chunks ->
  file_bytes d (writer_flags order gcds) chunks = Ok bytes ->
  1 <= limit ->
  concat pieces = bytes ->
  (3 + length chunks + length (concat (map fst chunks)) <= fuel)%nat ->
  Forall (fun o => rfail o = false) (snd (feed fuel d limit r_init pieces)).
Proof.
  intros d order gcds chunks bytes limit pieces fuel Ho Hok Hfb Hlim Hcat Hfuel.
  destruct (split_invariance d order gcds chunks bytes limit pieces fuel Ho Hok Hfb Hlim Hcat Hfuel)
    as (_ & _ & (items & ->) & _).
  apply Forall_forall. intros o Hin. apply in_map_iff in Hin. destruct Hin as (i & <- & _). reflexivity.
Qed.

(* ================================================================== *)
(* 7. retrying a call that failed for lack of data                     *)
(* ================================================================== *)
(* The calls of the non-iterating interface on a reader holding a prefix of a written file:
   each either fails with InsufficientData, leaving the reader as it was, or succeeds as it
   does on the whole file; and on the whole file (the reader after the remaining bytes have
   been written) it succeeds. *)

Lemma grow_advance more st r1 fl cb tm :
  grow more (mkR (r_bytes st) (pos_after st r1) fl cb tm)
  = mkR (r_bytes (grow more st)) (pos_after (grow more st) (r1 ++ bytes_to_bits more)) fl cb tm.
Proof. rewrite pos_after_grow. reflexivity. Qed.

Lemma pos_ok_fresh b : pos_ok (fresh b).
Proof. unfold pos_ok, fresh. cbn [r_bit]. lia. Qed.

(* RHeader *)
Theorem retry_header : forall d order gcds chunks bytes b more,
  order <= 7 ->
  file_bytes d (writer_flags order gcds) chunks = Ok bytes ->
  b ++ more = bytes ->
  let f := writer_flags order gcds in
  exists stF1 cb,
    chunks_bytes d f chunks = Ok cb /\
    r_step d (fresh bytes) RHeader = (stF1, ROFlags f) /\ boundary f stF1 (tail_bits cb) /\
    (r_step d (fresh b) RHeader = (fresh b, ROErr InsufficientData) \/
     exists st1, r_step d (fresh b) RHeader = (st1, ROFlags f) /\ pos_ok st1 /\ grow more st1 = stF1).
Proof.
  intros d order gcds chunks bytes b more Ho Hfb Hcat f.
  destruct (file_header_split d order gcds chunks bytes Ho Hfb) as (cb & Hcb & Hrh & HB).
  cbv zeta in Hcb, Hrh, HB. fold f in Hcb, Hrh, HB.
  eexists. exists cb. split; [exact Hcb|].
  split; [apply (r_step_header_ok d (fresh bytes) f (tail_bits cb) eq_refl eq_refl Hrh)|].
  split; [exact HB|].
  subst bytes. change (fresh (b ++ more)) with (grow more (fresh b)) in *.
  rewrite (stream_grow more (fresh b) (pos_ok_fresh b)) in Hrh.
  change (r_bit (grow more (fresh b))) with (r_bit (fresh b)) in Hrh.
  destruct (read_header_prefix d _ (stream (fresh b)) (bytes_to_bits more) f _
              (Nlen_bits_mod8 more) Hrh) as [E|(r1 & E & Er1)].
  - left. apply r_step_header_err; [reflexivity|reflexivity|exact E].
  - right. eexists. split; [apply (r_step_header_ok d (fresh b) f r1 eq_refl eq_refl E)|].
    split; [exact (pos_after_le (fresh b) r1)|].
    rewrite Er1. apply grow_advance.
Qed.

(* the reader at the start of the body of a chunk holding the numbers [xs] *)
Definition chunk_start (d : dtype) (f : flags) (stF : rstate) (xs : list Z) (rest : bits) : Prop :=
  r_term stF = false /\ r_flags stF = Some f /\
  exists c s, r_cbd stF = Some c /\ at_suffix stF (s ++ rest) /\ table_ok (c_table c) = true /\
    forall tb, exists c', cbd_batch d f tb c (pow2 64 - 1) true (s ++ rest) = Ok (xs, true, c', rest).

(* RMeta between chunks *)
Theorem retry_meta : forall d f st more rem cb,
  pos_ok st -> Forall (chunk_ok d f) rem -> chunks_bytes d f rem = Ok cb ->
  boundary f (grow more st) (tail_bits cb) ->
  exists stF1 om,
    r_step d (grow more st) RMeta = (stF1, ROMeta om) /\
    match rem with
    | [] => om = None
    | c :: t => om = Some (reader_meta d f c) /\
                exists r, chunks_bytes d f t = Ok r /\ chunk_start d f stF1 (fst c) (tail_bits r)
    end /\
    (r_step d st RMeta = (st, ROErr InsufficientData) \/
     exists st1, r_step d st RMeta = (st1, ROMeta om) /\ pos_ok st1 /\ grow more st1 = stF1).
Proof.
  intros d f st more rem cb P Hok Hcb HB.
  pose proof HB as (_ & HfF & HcF & HtF).
  assert (Ht : r_term st = false) by exact HtF.
  assert (Hf : r_flags st = Some f) by exact HfF.
  assert (Hc : r_cbd st = None) by exact HcF.
  pose proof (stream_grow more st P) as Hst.
  destruct rem as [|[xs table] t].
  - cbn [chunks_bytes] in Hcb. inversion Hcb; subst cb.
    pose proof (footer_split d f _ HB) as Hr.
    eexists. exists None. split; [apply (r_step_meta_none d _ f [] HtF HfF HcF Hr)|].
    split; [reflexivity|].
    rewrite Hst in Hr. change (r_bit (grow more st)) with (r_bit st) in Hr.
    destruct (read_chunk_meta_prefix d f _ (stream st) (bytes_to_bits more) None _
                (Nlen_bits_mod8 more) Hr) as [E|(r1 & E & Er1)].
    + left. apply (r_step_meta_err d st f _ Ht Hf Hc E).
    + right. eexists. split; [apply (r_step_meta_none d st f r1 Ht Hf Hc E)|].
      split; [exact (pos_after_le st r1)|].
      unfold set_pos. rewrite Er1. apply grow_advance.
  - inversion Hok as [|? ? Hok1 Hokt]; subst.
    destruct (chunk_split d f xs table t cb _ Hok1 Hcb HB)
      as (b & bodyn & r & Hr & Hrm & Hwf & Hg & He & Hbn & Hnew & Hread & Hat1).
    cbv zeta in Hr, Hrm, Hnew, Hread, Hat1.
    destruct (tail_bits_len r) as [Hr8 Hrm8].
    set (m' := mkMeta (Nlen xs) bodyn (chunk_moments d (ford f) xs) (norm_table f (pdt f d) table)) in *.
    eexists. exists (Some m'). split; [apply (r_step_meta_some d _ f m' (cbd0 f m') _ HtF HfF HcF Hread Hnew)|].
    split.
    { split; [rewrite Hrm; reflexivity|]. exists r. split; [exact Hr|].
      split; [exact HtF|]. split; [exact HfF|].
      exists (cbd0 f m'), (pad8 b). cbn [r_cbd fst]. split; [reflexivity|]. split; [apply Hat1|].
      split; [apply (new_cbd_table_ok f m' _ Hnew)|].
      intros tb. unfold chunk_ok in Hok1. cbn [fst snd] in Hok1. destruct Hok1 as (Hn & Hrep & _).
      destruct (cbd_batch_whole d f tb _ xs b bodyn (tail_bits r) Hn Hrep Hwf Hg He Hr8 Hrm8 Hbn)
        as (c' & Hbody).
      exists c'. exact Hbody. }
    rewrite Hst in Hread. change (r_bit (grow more st)) with (r_bit st) in Hread.
    destruct (read_chunk_meta_prefix d f _ (stream st) (bytes_to_bits more) (Some m') _
                (Nlen_bits_mod8 more) Hread) as [E|(r1 & E & Er1)].
    + left. apply (r_step_meta_err d st f _ Ht Hf Hc E).
    + right. eexists. split; [apply (r_step_meta_some d st f m' (cbd0 f m') r1 Ht Hf Hc E Hnew)|].
      split; [exact (pos_after_le st r1)|].
      rewrite Er1. apply grow_advance.
Qed.

(* RBody at the start of a chunk body *)
Theorem retry_body : forall d f st more xs rest,
  pos_ok st -> chunk_start d f (grow more st) xs rest ->
  exists stF1,
    r_step d (grow more st) RBody = (stF1, RONums xs) /\ boundary f stF1 rest /\
    (r_step d st RBody = (st, ROErr InsufficientData) \/
     exists st1, r_step d st RBody = (st1, RONums xs) /\ pos_ok st1 /\ grow more st1 = stF1).
Proof.
  intros d f st more xs rest P (HtF & HfF & c & s & HcF & Hat & Htab & Hbody).
  assert (Ht : r_term st = false) by exact HtF.
  assert (Hf : r_flags st = Some f) by exact HfF.
  assert (Hc : r_cbd st = Some c) by exact HcF.
  destruct (Hbody (total_bits (grow more st))) as (c' & Hb).
  eexists. split.
  { apply (r_step_body_ok d (grow more st) f c xs true c' rest HtF HfF HcF).
    rewrite (at_suffix_stream _ _ Hat). exact Hb. }
  split.
  { split; [apply (at_suffix_advance (grow more st) s rest); exact Hat|].
    cbn [r_flags r_cbd r_term]. auto. }
  destruct (at_suffix_grow_inv st more _ P Hat) as (sp & Hatp & Es).
  rewrite Es in Hb.
  destruct (cbd_batch_prefix d f (total_bits st) _ c _ sp (bytes_to_bits more) xs true c' rest
              (Nlen_bits_mod8 more) Htab Hb) as [E|(r1 & E & Er1)].
  - left. apply (r_step_body_err d st f c _ Ht Hf Hc). rewrite (at_suffix_stream st sp Hatp). exact E.
  - right. eexists. split.
    { apply (r_step_body_ok d st f c xs true c' r1 Ht Hf Hc).
      rewrite (at_suffix_stream st sp Hatp). exact E. }
    split; [exact (pos_after_le st r1)|].
    rewrite Er1. apply grow_advance.
Qed.

(* simple_decompress: on a strict prefix it fails with InsufficientData and changes
   nothing; once the remaining bytes have been written the same call decodes the file *)
Theorem retry_simple : forall d order gcds chunks bytes L,
  order <= 7 ->
  Forall (chunk_ok d (writer_flags order gcds)) chunks ->
  file_bytes d (writer_flags order gcds) chunks = Ok bytes ->
  (L < length bytes)%nat ->
  let st := fresh (firstn L bytes) in
  r_do d st RSimple = (st, ROErr InsufficientData) /\
  exists st', r_do d (fst (r_do d st (RWrite (skipn L bytes)))) RSimple
              = (st', RONums (concat (map fst chunks))).
Proof.
  intros d order gcds chunks bytes L Ho Hok Hfb HL st.
  pose proof (truncation d order gcds chunks bytes L Ho Hok Hfb HL) as Htr.
  pose proof (file_roundtrip d order gcds chunks bytes Ho Hok Hfb) as Hrt.
  unfold decode_file in Htr, Hrt. fold (fresh (firstn L bytes)) in Htr. fold st in Htr.
  fold (fresh bytes) in Hrt.
  split.
  - pose proof (r_failure_atomic d st RSimple) as A. cbn [r_do] in *.
    destruct (simple_decompress d st) as [st1 res]. cbn [snd] in Htr. subst res.
    cbn [fst snd rfail] in A. rewrite (A eq_refl). reflexivity.
  - cbn [r_do r_step fst]. unfold st, fresh. cbn [r_bytes r_bit r_flags r_cbd r_term].
    rewrite firstn_skipn. fold (fresh bytes).
    destruct (simple_decompress d (fresh bytes)) as [st1 res]. cbn [snd] in Hrt. subst res.
    exists st1. reflexivity.
Qed.

(* the retry statements proper *)
Corollary retry_header_after_write : forall d order gcds chunks bytes b more st',
  order <= 7 ->
  file_bytes d (writer_flags order gcds) chunks = Ok bytes ->
  b ++ more = bytes ->
  r_step d (fresh b) RHeader = (st', ROErr InsufficientData) ->
  st' = fresh b /\
  exists st1, r_step d (fst (r_step d st' (RWrite more))) RHeader
              = (st1, ROFlags (writer_flags order gcds)).
Proof.
  intros d order gcds chunks bytes b more st' Ho Hfb Hcat Hfail.
  pose proof (r_step_atomic d (fresh b) RHeader) as A. rewrite Hfail in A.
  cbn [fst snd rfail] in A. specialize (A eq_refl). subst st'. split; [reflexivity|].
  destruct (retry_header d order gcds chunks bytes b more Ho Hfb Hcat) as (stF1 & cb & _ & HF & _).
  exists stF1. rewrite r_step_write. cbn [fst]. subst bytes. exact HF.
Qed.

Corollary retry_meta_after_write : forall d f st more rem cb st',
  pos_ok st -> Forall (chunk_ok d f) rem -> chunks_bytes d f rem = Ok cb ->
  boundary f (grow more st) (tail_bits cb) ->
  r_step d st RMeta = (st', ROErr InsufficientData) ->
  st' = st /\
  exists st1 om, r_step d (fst (r_step d st' (RWrite more))) RMeta = (st1, ROMeta om) /\
    om = match rem with [] => None | c :: _ => Some (reader_meta d f c) end.
Proof.
  intros d f st more rem cb st' P Hok Hcb HB Hfail.
  pose proof (r_step_atomic d st RMeta) as A. rewrite Hfail in A.
  cbn [fst snd rfail] in A. specialize (A eq_refl). subst st'. split; [reflexivity|].
  destruct (retry_meta d f st more rem cb P Hok Hcb HB) as (stF1 & om & HF & Hom & _).
  exists stF1, om. rewrite r_step_write. cbn [fst]. split; [exact HF|].
  destruct rem as [|c t]; [exact Hom|exact (proj1 Hom)].
Qed.

Corollary retry_body_after_write : forall d f st more xs rest st',
  pos_ok st -> chunk_start d f (grow more st) xs rest ->
  r_step d st RBody = (st', ROErr InsufficientData) ->
  st' = st /\
  exists st1, r_step d (fst (r_step d st' (RWrite more))) RBody = (st1, RONums xs).
Proof.
  intros d f st more xs rest st' P Hcs Hfail.
  pose proof (r_step_atomic d st RBody) as A. rewrite Hfail in A.
  cbn [fst snd rfail] in A. specialize (A eq_refl). subst st'. split; [reflexivity|].
  destruct (retry_body d f st more xs rest P Hcs) as (stF1 & HF & _).
  exists stF1. rewrite r_step_write. cbn [fst]. exact HF.
Qed.

(* the iterator: a call that yielded nothing yields an item once the remaining bytes have
   been written, unless the footer has been passed *)
Theorem retry_next : forall d f st more exp limit,
  0 < limit -> pos_ok st -> cls d f (grow more st) exp -> exp <> [] ->
  exists st1 i, r_step d (fst (r_step d st (RWrite more))) (RNext limit) = (st1, ROItem i).
Proof.
  intros d f st more exp limit Hlim P Hcls Hne. rewrite r_step_write. cbn [fst].
  assert (Hcls0 : cls d f (grow [] (grow more st)) exp) by (rewrite grow_nil; exact Hcls).
  destruct (cls_step d f limit [] (grow more st) exp Hlim (pos_ok_grow more st P) Hcls0)
    as [E|(st1 & i & _ & E & _)].
  - destruct (cls_stuck d f limit _ _ Hlim Hcls E) as [-> _]. congruence.
  - exists st1, i. exact E.
Qed.

(* ---- a concrete run: FileL's example file (an empty chunk included), batch limit 2,
   written one byte at a time: the second chunk piece differs from the all-at-once run
   ([9] then [9; 100] instead of [9; 9] then [100]); merged, both runs agree ---- *)
Example split_example :
  exists bytes,
    file_bytes DI32 (writer_flags 0 true) [(ex_xs, ex_table); ([], []); (ex_xs, ex_table)] = Ok bytes /\
    let r := feed 20 DI32 2 r_init (map (fun b => [b]) bytes) in
    filter (fun l => negb (is_nil l)) (map out_nums (snd r))
    = [[5; 7]; [9]; [9; 100]; [5; 7]; [9]; [9; 100]]%Z /\
    merge_nums (snd r) = merge_nums (snd (drain_iter 20 DI32 2 (fresh bytes))) /\
    map out_nums (merge_nums (snd r)) = [[]; []; [5; 7; 9; 9; 100]; []; []; [5; 7; 9; 9; 100]; []]%Z.
Proof. eexists. split; [vm_compute; reflexivity|]. vm_compute. auto. Qed.

Print Assumptions r_step_next_body_part.
Print Assumptions merge_nums_idem.
Print Assumptions merge_nums_app.
Print Assumptions r_step_next_header_mono.
Print Assumptions r_step_next_meta_mono.
Print Assumptions read_batch_part.
Print Assumptions cbd_batch_part.
Print Assumptions cls_step.
Print Assumptions split_invariance.
Print Assumptions split_numbers.
Print Assumptions split_no_failure.
Print Assumptions retry_header.
Print Assumptions retry_meta.
Print Assumptions retry_body.
Print Assumptions retry_simple.
Print Assumptions retry_next.
